/* units/tbl.c - proof units for src/table/table.c (C01, C11, C16, C18)
 *   tbl.get          ldb_table_internal_get
 *   tbl.blockreader  ldb_table_blockreader
 *   tbl.open         ldb_table_open + ldb_table_read_meta + ldb_table_read_filter
 *   tbl.approx       ldb_table_approximate_offset
 *
 * The real table.c is included unmodified.  Everything below it is a ghost
 * environment: block iterators are ghost cursors reduced to what a point
 * lookup can observe (created -> seek(target) -> valid? -> key/value -> status
 * -> destroyed), ldb_read_block / block cache / filter reader / file are
 * recording stubs in which every I/O step may fail with any status.
 *
 * Ghost state is split in IN (chosen by the harness, never written by the
 * function) and R (records written by the stubs; the only thing the contracts
 * list in their assigns clause besides the documented outputs).
 */
#include "verif.h"
#include "contracts/coding.h"
#include "contracts/tblfmt.h"

#include "util/bloom.h"
#include "util/cache.h"
#include "util/coding.h"
#include "util/comparator.h"
#include "util/env.h"
#include "util/internal.h"
#include "util/options.h"
#include "util/slice.h"
#include "util/status.h"
#include "table/block.h"
#include "table/filter_block.h"
#include "table/format.h"
#include "table/iterator.h"
#include "table/table.h"
#include "table/two_level_iterator.h"

int nondet_int(void);
size_t nondet_size(void);
uint64_t nondet_u64(void);

/* ------------------------------------------------------------------ ghost */
enum { IT_INDEX = 0, IT_DATA = 1, IT_EMPTY = 2, IT_META = 3, IT_N = 4 };

struct ldb_rfile_s { int dummy; };
struct ldb_lru_s { int dummy; };
struct ldb_entry_s { int dummy; };
ldb_rfile_t g_the_rfile;
ldb_bloom_t g_policy_obj;
ldb_lru_t g_the_cache;
ldb_entry_t g_entry_hit, g_entry_ins;       /* what lookup (hit) / insert hand out            */
ldb_block_t g_blk_index;                     /* the open table's index block (get/blockreader)  */
ldb_block_t g_blk_cached;                    /* the block a cache hit carries                   */
ldb_block_t g_blk[3];                        /* block created from the k-th successful read     */
ldb_filter_t g_filter_obj;                   /* what ldb_filter_create hands out                */
ldb_comparator_t g_cmp_obj;
ldb_comparator_t g_bytewise_obj;
const ldb_comparator_t *ldb_bytewise_comparator;
ldb_readopt_t g_ro_default;
const ldb_readopt_t *ldb_readopt_default;
ldb_iter_t GI[IT_N];                         /* the ldb_iter_t objects handed to the code       */
int g_tags[IT_N];                            /* GI[i].ptr = &g_tags[i]                          */

struct tbl_in {                              /* chosen by the harness                            */
  const ldb_table_t *table;                  /* the table the call is about                      */
  const ldb_readopt_t *ropt;                 /* the caller's read options                        */
  const ldb_slice_t *key;                    /* the caller's lookup key                          */
  void *arg;                                 /* the caller's callback cookie                     */
  const uint8_t *ixval; size_t ixval_n;      /* value of the index entry the index seek lands on */
  int valid[IT_N];                           /* valid() after the seek                           */
  int status[IT_N];                          /* status() after the seek                          */
  const uint8_t *kp[IT_N]; size_t kn[IT_N];  /* key() when valid                                 */
  const uint8_t *vp[IT_N]; size_t vn[IT_N];  /* value() when valid                               */
  uint8_t *rb_data[3]; size_t rb_n[3];       /* contents the k-th successful read returns        */
  int lookup_hit;                            /* block cache answers hit                          */
  uint64_t lru_id;                           /* what ldb_lru_id returns                          */
  char *name; size_t name_len;               /* "filter." + policy name as ldb_bloom_name yields */
  int name_ok;                               /* ldb_bloom_name succeeds                          */
  int pread_mapped;                          /* footer pread answers from its own memory         */
  uint8_t *footer;                           /* the (up to) 48 bytes the file holds at size-48   */
} IN;

struct rb_rec { const ldb_readopt_t *opt; int verify, fill; const void *snapshot; uint64_t off, size; int rc; int cachable, heap; };

struct tbl_brec {                            /* written by the stubs the block reader reaches    */
  int created[IT_N];
  const ldb_block_t *block[IT_N]; const ldb_comparator_t *cmp[IT_N];
  int empty_status;                          /* status the error iterator was created with       */
  /* ldb_read_block */
  int rb_calls; struct rb_rec rb[3];
  /* ldb_block_create */
  int bc_calls; int bc_of[3];                /* bc_of[k]: a block was created from read k        */
  /* block cache */
  int lk_calls; size_t lk_n; uint8_t lk_key[16];
  int ins_calls; size_t ins_n; uint8_t ins_key[16]; const void *ins_value; size_t ins_charge;
  void (*ins_deleter)(const ldb_slice_t *, void *);
  /* cleanup registered on the returned iterator */
  int cl_calls; const ldb_iter_t *cl_iter; ldb_cleanup_f cl_func; void *cl_a1, *cl_a2;
} B;

struct tbl_rec {                             /* written by the other stubs                       */
  int destroyed[IT_N], seeks[IT_N];
  unsigned long clock;                       /* order of events                                  */
  unsigned long t_saver, t_destroy[IT_N];
  /* filter reader */
  int fm_calls, fm_ret; const ldb_filter_t *fm_filter; uint64_t fm_off; const ldb_slice_t *fm_key;
  /* saver callback */
  int sv_calls; void *sv_arg; const uint8_t *sv_kp; size_t sv_kn; const uint8_t *sv_vp; size_t sv_vn;
  int bd_calls; const ldb_block_t *bd_block; unsigned long t_bd;
  int id_calls;
  /* footer pread */
  int pr_calls, pr_rc; size_t pr_count; uint64_t pr_off; const uint8_t *pr_data; size_t pr_size;
  /* meta */
  int bn_calls; char *bn_buf; int eq_calls, eq_ret; const uint8_t *mseek_data; size_t mseek_n;
  int fc_calls; const struct ldb_bloom_s *fc_policy; const uint8_t *fc_data; size_t fc_n;
  /* two-level iterator */
  int tw_calls; const ldb_iter_t *tw_index; ldb_blockfunc_f tw_fn; void *tw_arg; const ldb_readopt_t *tw_opt;
} R;

static unsigned long tick(void) { __CPROVER_assume(R.clock < (1ul << 40)); return ++R.clock; }

/* ---------------------------------------------------------- ghost cursors */
static int gi_index(const void *p) {
  int i = (int)((const int *)p - g_tags);
  __CPROVER_assert(__CPROVER_same_object(p, g_tags) && i >= 0 && i < IT_N && p == (const void *)&g_tags[i], "iterator op: receiver is an iterator the environment handed out");
  __CPROVER_assert(B.created[i] && !R.destroyed[i], "iterator op: the iterator is alive (created, not yet destroyed)");
  return i;
}
#define GI_VALID(i) ((i) != IT_EMPTY && R.seeks[i] > 0 && IN.valid[i] != 0)
static void gi_clear(void *p) { (void)p; __CPROVER_assert(0, "iterator vtable clear is only reached through ldb_iter_destroy (stubbed)"); }
static int gi_valid(const void *p) { int i = gi_index(p); return GI_VALID(i); }
static void gi_nostep(void *p) { (void)p; __CPROVER_assert(0, "a point lookup / open never steps an iterator (first/last/next/prev)"); }
static void gi_seek(void *p, const ldb_slice_t *t) {
  int i = gi_index(p);
  if (i == IT_META) {
    R.mseek_data = t->data; R.mseek_n = t->size;
  } else {
    __CPROVER_assert(t == IN.key, "seek: the caller's full (internal) key is the seek target");
  }
  R.seeks[i]++;
}
static ldb_slice_t gi_key(const void *p) {
  int i = gi_index(p); ldb_slice_t k = {NULL, 0, 0};
  __CPROVER_assert(GI_VALID(i), "iterator key: REQUIRES valid()");
  k.data = (uint8_t *)IN.kp[i]; k.size = IN.kn[i];
  return k;
}
static ldb_slice_t gi_value(const void *p) {
  int i = gi_index(p); ldb_slice_t v = {NULL, 0, 0};
  __CPROVER_assert(GI_VALID(i), "iterator value: REQUIRES valid()");
  v.data = (uint8_t *)IN.vp[i]; v.size = IN.vn[i];
  return v;
}
/* a block iterator reports an error only once it has been positioned; the error iterator always */
static int gi_status(const void *p) {
  int i = gi_index(p);
  if (i == IT_EMPTY) return B.empty_status;
  return R.seeks[i] > 0 ? IN.status[i] : LDB_OK;
}
static const ldb_itertbl_t gi_table = { gi_clear, gi_valid, gi_nostep, gi_nostep, gi_seek, gi_nostep, gi_nostep, gi_key, gi_value, gi_status };

ldb_iter_t *ldb_blockiter_create(const ldb_block_t *block, const ldb_comparator_t *cmp) {
  int i = block == &g_blk_index ? IT_INDEX : block == &g_blk[1] ? IT_META : IT_DATA;
  __CPROVER_assert(block == &g_blk_index || block == &g_blk_cached || block == &g_blk[0] || block == &g_blk[1], "blockiter_create: over a live block (index block, cached block, or a block just created)");
  __CPROVER_assert(!B.created[i], "blockiter_create: one iterator per block per call");
  B.created[i] = 1; B.block[i] = block; B.cmp[i] = cmp;
  return &GI[i];
}
ldb_iter_t *ldb_emptyiter_create(int status) {
  __CPROVER_assert(!B.created[IT_EMPTY], "emptyiter_create: at most one error iterator per call");
  B.created[IT_EMPTY] = 1; B.empty_status = status;
  return &GI[IT_EMPTY];
}
void ldb_iter_destroy(ldb_iter_t *iter) {
  int i = (int)(iter - GI);
  __CPROVER_assert(__CPROVER_same_object(iter, GI) && i >= 0 && i < IT_N && iter == &GI[i], "iter_destroy: an iterator the environment handed out");
  __CPROVER_assert(B.created[i] && !R.destroyed[i], "iter_destroy: alive, destroyed once");
  R.destroyed[i] = 1; R.t_destroy[i] = tick();
}
void ldb_iter_register_cleanup(ldb_iter_t *iter, ldb_cleanup_f func, void *arg1, void *arg2) {
  B.cl_calls++; B.cl_iter = iter; B.cl_func = func; B.cl_a1 = arg1; B.cl_a2 = arg2;
}
ldb_iter_t g_two_iter;
ldb_iter_t *ldb_twoiter_create(ldb_iter_t *index_iter, ldb_blockfunc_f block_function, void *arg, const ldb_readopt_t *options) {
  R.tw_calls++; R.tw_index = index_iter; R.tw_fn = block_function; R.tw_arg = arg; R.tw_opt = options;
  return &g_two_iter;
}

/* ------------------------------------------------------------ filter reader */
int ldb_filter_matches(const ldb_filter_t *fr, uint64_t block_offset, const ldb_slice_t *key) {
  R.fm_calls++; R.fm_filter = fr; R.fm_off = block_offset; R.fm_key = key;
  R.fm_ret = nondet_int() ? 1 : 0;
  return R.fm_ret;
}
ldb_filter_t *ldb_filter_create(const ldb_bloom_t *policy, const ldb_slice_t *contents) {
  __CPROVER_assert(R.fc_calls == 0, "filter_create: at most one filter per table");
  R.fc_calls++; R.fc_policy = policy; R.fc_data = contents->data; R.fc_n = contents->size;
  return &g_filter_obj;
}
void ldb_filter_destroy(ldb_filter_t *fr) { (void)fr; __CPROVER_assert(0, "filter_destroy: not reached by these units"); }

/* the saver callback of the caller */
static void stub_saver(void *arg, const ldb_slice_t *k, const ldb_slice_t *v) {
  __CPROVER_assert(B.created[IT_DATA] && !R.destroyed[IT_DATA], "saver: invoked while the data block iterator (owner of the key/value bytes) is alive");
  R.sv_calls++; R.sv_arg = arg; R.sv_kp = k->data; R.sv_kn = k->size; R.sv_vp = v->data; R.sv_vn = v->size;
  R.t_saver = tick();
}

/* ------------------------------------------------------------ block reads */
int ldb_read_block(ldb_contents_t *result, ldb_rfile_t *file, const ldb_readopt_t *options, const ldb_handle_t *handle) {
  int k = B.rb_calls, rc = nondet_int();
  __CPROVER_assert(file == &g_the_rfile, "read_block: reads the table's file");
  __CPROVER_assert(k < 3, "read_block: at most three block reads (index, metaindex, filter) per call");
  __CPROVER_assume(k < 3);
  B.rb[k].opt = options; B.rb[k].verify = options->verify_checksums; B.rb[k].fill = options->fill_cache; B.rb[k].snapshot = options->snapshot;
  B.rb[k].off = handle->offset; B.rb[k].size = handle->size;
  B.rb_calls++;
  if (rc != LDB_OK) {
    __CPROVER_assume((rc >= LDB_MINERR && rc <= LDB_MAXERR) || (rc > 0 && rc < 200));
    B.rb[k].rc = rc; B.rb[k].cachable = 0; B.rb[k].heap = 0;
    /* tbl.read: any failure leaves empty contents, nothing for the caller to free */
    result->data.data = NULL; result->data.size = 0; result->data.alloc = 0; result->cachable = 0; result->heap_allocated = 0;
    return rc;
  }
  B.rb[k].rc = LDB_OK;
  B.rb[k].cachable = nondet_int() ? 1 : 0; B.rb[k].heap = nondet_int() ? 1 : 0;
  result->data.data = IN.rb_data[k]; result->data.size = IN.rb_n[k]; result->data.alloc = 0;
  result->cachable = B.rb[k].cachable; result->heap_allocated = B.rb[k].heap;
  return LDB_OK;
}
ldb_block_t *ldb_block_create(const ldb_contents_t *contents) {
  int k = contents->data.data == IN.rb_data[0] ? 0 : contents->data.data == IN.rb_data[1] ? 1 : 2;
  __CPROVER_assert(B.rb_calls > k && B.rb[k].rc == LDB_OK && contents->data.data == IN.rb_data[k] && contents->data.size == IN.rb_n[k] &&
                   contents->cachable == B.rb[k].cachable && contents->heap_allocated == B.rb[k].heap,
                   "block_create: from the unmodified contents of a successful read_block");
  __CPROVER_assert(!B.bc_of[k], "block_create: one block per read");
  B.bc_calls++; B.bc_of[k] = 1;
  g_blk[k].data = contents->data.data; g_blk[k].size = contents->data.size; g_blk[k].owned = contents->heap_allocated;
  return &g_blk[k];
}
void ldb_block_destroy(ldb_block_t *block) { R.bd_calls++; R.bd_block = block; R.t_bd = tick(); }

/* ------------------------------------------------------------ block cache */
static void copy16(uint8_t *z, const uint8_t *x) { int i; for (i = 0; i < 16; i++) z[i] = x[i]; }
ldb_entry_t *ldb_lru_lookup(ldb_lru_t *lru, const ldb_slice_t *key) {
  __CPROVER_assert(lru == &g_the_cache, "lru_lookup: in the table's block cache");
  __CPROVER_assert(B.rb_calls == 0, "lru_lookup: the cache is asked BEFORE the block is read");
  B.lk_calls++; B.lk_n = key->size;
  if (key->size == 16) copy16(B.lk_key, key->data);
  return IN.lookup_hit ? &g_entry_hit : NULL;
}
void *ldb_lru_value(ldb_entry_t *handle) {
  __CPROVER_assert(handle == &g_entry_hit, "lru_value: of the handle the lookup returned");
  return &g_blk_cached;
}
ldb_entry_t *ldb_lru_insert(ldb_lru_t *lru, const ldb_slice_t *key, void *value, size_t charge, void (*deleter)(const ldb_slice_t *key, void *value)) {
  __CPROVER_assert(lru == &g_the_cache, "lru_insert: into the table's block cache");
  B.ins_calls++; B.ins_n = key->size; B.ins_value = value; B.ins_charge = charge; B.ins_deleter = deleter;
  if (key->size == 16) copy16(B.ins_key, key->data);
  return &g_entry_ins;
}
void ldb_lru_release(ldb_lru_t *lru, ldb_entry_t *handle) { (void)lru; (void)handle; __CPROVER_assert(0, "lru_release: only reached through iterator cleanup (not run in these units)"); }
uint64_t ldb_lru_id(ldb_lru_t *lru) {
  __CPROVER_assert(lru == &g_the_cache, "lru_id: from the table's block cache");
  R.id_calls++;
  return IN.lru_id;
}

/* ------------------------------------------------------- open: file, meta */
int ldb_rfile_pread(ldb_rfile_t *file, ldb_slice_t *result, void *buf, size_t count, uint64_t offset) {
  int rc = nondet_int();
  __CPROVER_assert(file == &g_the_rfile, "pread: the file handed to table_open");
  __CPROVER_assert(R.pr_calls == 0, "table_open: exactly one footer pread");
  __CPROVER_assert(count == 0 || __CPROVER_w_ok(buf, count), "pread: scratch buffer of the requested size");
  R.pr_calls++; R.pr_count = count; R.pr_off = offset; R.pr_rc = rc;
  if (rc != LDB_OK) {
    __CPROVER_assume((rc >= LDB_MINERR && rc <= LDB_MAXERR) || (rc > 0 && rc < 200));
    return rc;
  }
  /* any size up to count (short read at end of file); the bytes are IN.footer[0 .. size), delivered in the
     scratch buffer or in the file's own memory (mapped file) */
  R.pr_size = nondet_size();
  __CPROVER_assume(R.pr_size <= count);
  if (count == 48) { int i; for (i = 0; i < 48; i++) ((uint8_t *)buf)[i] = IN.footer[i]; }
  R.pr_data = IN.pread_mapped ? IN.footer : (const uint8_t *)buf;
  result->data = (uint8_t *)R.pr_data; result->size = R.pr_size; result->alloc = 0;
  return LDB_OK;
}
int ldb_bloom_name(char *buf, size_t size, const ldb_bloom_t *bloom) {
  __CPROVER_assert(size == 72 && __CPROVER_w_ok(buf, size), "bloom_name: 72-byte name buffer");
  R.bn_calls++; R.bn_buf = buf;
  return IN.name_ok;
}
/* the name buffer holds "filter." + policy name (ldb_bloom_name, flt group); its length is symbolic */
void ldb_slice_set_str(ldb_slice_t *z, const char *xp) {
  __CPROVER_assert(R.bn_calls == 1 && xp == R.bn_buf, "slice_set_str: of the name ldb_bloom_name produced");
  z->data = (uint8_t *)xp; z->size = IN.name_len; z->alloc = 0;
}
int ldb_slice_equal(const ldb_slice_t *x, const ldb_slice_t *y) {
  __CPROVER_assert(x->data == IN.kp[IT_META] && x->size == IN.kn[IT_META], "slice_equal: left operand = key of the metaindex entry the seek landed on");
  __CPROVER_assert(R.bn_calls == 1 && y->data == (uint8_t *)R.bn_buf && y->size == IN.name_len, "slice_equal: right operand = \"filter.\" + policy name");
  R.eq_calls++; R.eq_ret = nondet_int() ? 1 : 0;
  return R.eq_ret;
}

#include "table/table.c"

/* =========================================================== tbl.blockreader
 * LevelDB Table::BlockReader: index value -> iterator over the data block.
 */
#define BR_TABLE ((const ldb_table_t *)arg)
#define BR_H (spec_handle_len(index_value->data, index_value->size) != 0)
#define BR_OFF spec_handle_offset(index_value->data, index_value->size)
#define BR_SIZE spec_handle_size(index_value->data, index_value->size)
#define BR_CACHE (BR_TABLE->options.block_cache != NULL)
#define BR_HIT (BR_H && BR_CACHE && IN.lookup_hit)
#define BR_READS (BR_H && !BR_HIT)
#define BR_READ_OK (BR_READS && B.rb[0].rc == LDB_OK)
#define BR_INSERTS (BR_READ_OK && BR_CACHE && B.rb[0].cachable && options->fill_cache)
#define KEY_IS(kb, id, off) (IS_LE64(kb, id) && IS_LE64((kb) + 8, off))
#define FRESH_IT(i) (B.created[i] == 1 && R.seeks[i] == 0 && R.destroyed[i] == 0)

ldb_iter_t *c_table_blockreader(void *arg, const ldb_readopt_t *options, const ldb_slice_t *index_value)
__CPROVER_requires(arg == (void *)IN.table && __CPROVER_r_ok(BR_TABLE, sizeof(ldb_table_t)) && options == IN.ropt && __CPROVER_r_ok(options, sizeof(*options)))
__CPROVER_requires(__CPROVER_r_ok(index_value, sizeof(*index_value)) && index_value->data == IN.ixval && index_value->size == IN.ixval_n && __CPROVER_r_ok(index_value->data, index_value->size))
__CPROVER_requires(BR_TABLE->file == &g_the_rfile && (BR_TABLE->options.block_cache == NULL || BR_TABLE->options.block_cache == &g_the_cache))
__CPROVER_requires(!B.created[IT_DATA] && !B.created[IT_EMPTY] && B.rb_calls == 0 && B.bc_calls == 0 && !B.bc_of[0] && B.lk_calls == 0 && B.ins_calls == 0 && B.cl_calls == 0)
__CPROVER_requires(R.seeks[IT_DATA] == 0 && R.seeks[IT_EMPTY] == 0 && !R.destroyed[IT_DATA] && !R.destroyed[IT_EMPTY])
__CPROVER_assigns(B, __CPROVER_object_whole(g_blk))
/* keeps the points-to set of the returned iterator across a replaced call */
__CPROVER_ensures(__CPROVER_pointer_in_range_dfcc(&GI[IT_DATA], __CPROVER_return_value, &GI[IT_EMPTY]))
/* malformed handle: an error iterator carrying LDB_CORRUPTION; nothing looked up, nothing read */
__CPROVER_ensures(!BR_H ==> (__CPROVER_return_value == &GI[IT_EMPTY] && B.empty_status == LDB_CORRUPTION && B.lk_calls == 0 && B.rb_calls == 0))
/* the block cache is asked first, under the key LE64(cache_id) ‖ LE64(handle.offset) */
__CPROVER_ensures(B.lk_calls == ((BR_H && BR_CACHE) ? 1 : 0))
__CPROVER_ensures(B.lk_calls == 1 ==> (B.lk_n == 16 && KEY_IS(B.lk_key, BR_TABLE->cache_id, BR_OFF)))
/* the file is read iff the handle is good and the cache did not have the block: exactly the handle's extent, with the caller's read options */
__CPROVER_ensures(B.rb_calls == (BR_READS ? 1 : 0))
__CPROVER_ensures(BR_READS ==> (B.rb[0].off == BR_OFF && B.rb[0].size == BR_SIZE && B.rb[0].opt == options &&
                                B.rb[0].verify == options->verify_checksums && B.rb[0].fill == options->fill_cache))
/* read error: an error iterator carrying exactly that status; nothing cached */
__CPROVER_ensures(BR_READS && B.rb[0].rc != LDB_OK ==> (__CPROVER_return_value == &GI[IT_EMPTY] && B.empty_status == B.rb[0].rc && B.ins_calls == 0 && B.bc_calls == 0))
/* the error iterator never reports OK, and is only used for errors */
__CPROVER_ensures(B.created[IT_EMPTY] ==> (B.empty_status != LDB_OK && __CPROVER_return_value == &GI[IT_EMPTY]))
__CPROVER_ensures(__CPROVER_return_value == &GI[IT_EMPTY] || __CPROVER_return_value == &GI[IT_DATA])
__CPROVER_ensures(__CPROVER_return_value == &GI[IT_EMPTY] ==> (FRESH_IT(IT_EMPTY) && !B.created[IT_DATA] && B.cl_calls == 0))
/* otherwise: an iterator over the block, ordered by the table's comparator */
__CPROVER_ensures(__CPROVER_return_value == &GI[IT_DATA] ==> (FRESH_IT(IT_DATA) && !B.created[IT_EMPTY] && B.cmp[IT_DATA] == BR_TABLE->options.comparator))
__CPROVER_ensures(BR_HIT ==> (__CPROVER_return_value == &GI[IT_DATA] && B.block[IT_DATA] == &g_blk_cached && B.bc_calls == 0 && B.ins_calls == 0))
__CPROVER_ensures(BR_READ_OK ==> (__CPROVER_return_value == &GI[IT_DATA] && B.block[IT_DATA] == &g_blk[0] && B.bc_calls == 1 && B.bc_of[0]))
/* inserted into the cache iff cachable and fill_cache, under the same key, charged with the block size */
__CPROVER_ensures(B.ins_calls == (BR_INSERTS ? 1 : 0))
__CPROVER_ensures(BR_INSERTS ==> (B.ins_n == 16 && KEY_IS(B.ins_key, BR_TABLE->cache_id, BR_OFF) && B.ins_value == (const void *)&g_blk[0] &&
                                  B.ins_charge == IN.rb_n[0] && B.ins_deleter == delete_cached_block))
/* ownership: exactly one cleanup on the iterator - release the cache handle, or delete the private block */
__CPROVER_ensures(__CPROVER_return_value == &GI[IT_DATA] ==> (B.cl_calls == 1 && B.cl_iter == &GI[IT_DATA]))
__CPROVER_ensures(BR_HIT ==> (B.cl_func == release_block && B.cl_a1 == (void *)&g_the_cache && B.cl_a2 == (void *)&g_entry_hit))
__CPROVER_ensures(BR_INSERTS ==> (B.cl_func == release_block && B.cl_a1 == (void *)&g_the_cache && B.cl_a2 == (void *)&g_entry_ins))
__CPROVER_ensures(BR_READ_OK && !BR_INSERTS ==> (B.cl_func == delete_block && B.cl_a1 == (void *)&g_blk[0]))
/* the index iterator's record is not touched */
__CPROVER_ensures(B.created[IT_INDEX] == __CPROVER_old(B.created[IT_INDEX]) && B.block[IT_INDEX] == __CPROVER_old(B.block[IT_INDEX]) && B.cmp[IT_INDEX] == __CPROVER_old(B.cmp[IT_INDEX]) &&
                  B.created[IT_META] == __CPROVER_old(B.created[IT_META]))
;

/* ================================================================== tbl.get
 * LevelDB Table::InternalGet.
 */
#define GET_V (IN.valid[IT_INDEX] != 0)
#define GET_H (spec_handle_len(IN.ixval, IN.ixval_n) != 0)
#define GET_FILTERED (GET_V && table->filter != NULL && GET_H)
#define GET_MISS (GET_FILTERED && !R.fm_ret)
#define GET_READ (GET_V && !GET_MISS)
#define GET_BLOCK_STATUS (B.created[IT_DATA] ? IN.status[IT_DATA] : B.empty_status)

int c_table_internal_get(ldb_table_t *table, const ldb_readopt_t *options, const ldb_slice_t *k, void *arg,
                         void (*handle_result)(void *, const ldb_slice_t *, const ldb_slice_t *))
__CPROVER_requires(table == IN.table && __CPROVER_r_ok(table, sizeof(*table)) && options == IN.ropt && __CPROVER_r_ok(options, sizeof(*options)))
__CPROVER_requires(k == IN.key && __CPROVER_r_ok(k, sizeof(*k)) && arg == IN.arg && handle_result == stub_saver)
__CPROVER_requires(table->index_block == &g_blk_index && table->file == &g_the_rfile && (table->options.block_cache == NULL || table->options.block_cache == &g_the_cache))
__CPROVER_requires(__CPROVER_r_ok(IN.ixval, IN.ixval_n) && IN.vp[IT_INDEX] == IN.ixval && IN.vn[IT_INDEX] == IN.ixval_n)
__CPROVER_requires(!B.created[IT_INDEX] && !B.created[IT_DATA] && !B.created[IT_EMPTY] && B.rb_calls == 0 && B.bc_calls == 0 && !B.bc_of[0] && B.lk_calls == 0 && B.ins_calls == 0 && B.cl_calls == 0)
__CPROVER_requires(R.seeks[IT_INDEX] == 0 && R.seeks[IT_DATA] == 0 && R.seeks[IT_EMPTY] == 0 && !R.destroyed[IT_INDEX] && !R.destroyed[IT_DATA] && !R.destroyed[IT_EMPTY])
__CPROVER_requires(R.fm_calls == 0 && R.sv_calls == 0 && R.clock == 0)
__CPROVER_assigns(R, B, __CPROVER_object_whole(g_blk))
/* the index block is searched for the key, with the table's comparator; the iterator is released */
__CPROVER_ensures(B.created[IT_INDEX] == 1 && B.block[IT_INDEX] == table->index_block && B.cmp[IT_INDEX] == table->options.comparator &&
                  R.seeks[IT_INDEX] == 1 && R.destroyed[IT_INDEX] == 1)
/* the filter (if any) is consulted with the offset of the candidate block's handle and the caller's full key */
__CPROVER_ensures(R.fm_calls == (GET_FILTERED ? 1 : 0))
__CPROVER_ensures(GET_FILTERED ==> (R.fm_filter == table->filter && R.fm_off == spec_handle_offset(IN.ixval, IN.ixval_n) && R.fm_key == k))
/* key beyond the last block, or the filter says no: not found - no block is looked up or read, the callback is not invoked */
__CPROVER_ensures(!GET_READ ==> (!B.created[IT_DATA] && !B.created[IT_EMPTY] && B.rb_calls == 0 && B.lk_calls == 0 && B.ins_calls == 0 && R.sv_calls == 0 &&
                                 __CPROVER_return_value == IN.status[IT_INDEX]))
/* otherwise the candidate block is opened through the block reader, searched for the key, and released */
__CPROVER_ensures(GET_READ ==> (B.created[IT_DATA] + B.created[IT_EMPTY] == 1))
__CPROVER_ensures(B.created[IT_DATA] ==> (R.seeks[IT_DATA] == 1 && R.destroyed[IT_DATA] == 1))
__CPROVER_ensures(B.created[IT_EMPTY] ==> (R.destroyed[IT_EMPTY] == 1 && R.sv_calls == 0))
/* the callback gets exactly the entry the block seek landed on (first entry >= key), once, iff there is one */
__CPROVER_ensures(B.created[IT_DATA] ==> R.sv_calls == (IN.valid[IT_DATA] ? 1 : 0))
__CPROVER_ensures(R.sv_calls == 1 ==> (R.sv_arg == arg && R.sv_kp == IN.kp[IT_DATA] && R.sv_kn == IN.kn[IT_DATA] && R.sv_vp == IN.vp[IT_DATA] && R.sv_vn == IN.vn[IT_DATA]))
/* status: the block iterator's error (read error, corruption) first, else the index iterator's */
__CPROVER_ensures(GET_READ ==> __CPROVER_return_value == (GET_BLOCK_STATUS != LDB_OK ? GET_BLOCK_STATUS : IN.status[IT_INDEX]))
/* a block that could not be read is never reported as a clean miss */
__CPROVER_ensures(B.created[IT_EMPTY] ==> __CPROVER_return_value != LDB_OK)
;

/* ================================================================= tbl.open
 * LevelDB Table::Open + ReadMeta + ReadFilter.
 */
#define OP_T (*table)
#define OP_PARANOID (options->paranoid_checks != 0 ? 1 : 0)
#define OP_PREAD_OK (R.pr_calls == 1 && R.pr_rc == LDB_OK)
#define OP_INDEX_READ (B.rb_calls >= 1)                       /* the footer was accepted             */
#define OP_OPENED (OP_INDEX_READ && B.rb[0].rc == LDB_OK)     /* the table is open                   */
#define OP_META_READ (B.rb_calls >= 2)
#define OP_META_OK (OP_META_READ && B.rb[1].rc == LDB_OK)
#define OP_FOUND (OP_META_OK && IN.valid[IT_META] != 0 && R.eq_ret != 0)  /* metaindex has the entry "filter.<policy>" */
#define OP_FILTER_READ (B.rb_calls == 3)
#define OP_FILTER_OK (OP_FILTER_READ && B.rb[2].rc == LDB_OK)

int c_table_open(const ldb_dbopt_t *options, ldb_rfile_t *file, uint64_t size, ldb_table_t **table)
__CPROVER_requires(__CPROVER_r_ok(options, sizeof(*options)) && file == &g_the_rfile && __CPROVER_w_ok(table, sizeof(*table)))
__CPROVER_requires(options->block_cache == NULL || options->block_cache == &g_the_cache)
__CPROVER_requires(options->filter_policy == NULL || options->filter_policy == &g_policy_obj)
__CPROVER_requires(__CPROVER_r_ok(IN.footer, 48) && __CPROVER_r_ok(IN.vp[IT_META], IN.vn[IT_META]))
__CPROVER_requires(ldb_readopt_default == &g_ro_default && g_ro_default.verify_checksums == 0 && g_ro_default.fill_cache == 1 && ldb_bytewise_comparator == &g_bytewise_obj)
__CPROVER_requires(R.pr_calls == 0 && B.rb_calls == 0 && B.bc_calls == 0 && !B.bc_of[0] && !B.bc_of[1] && !B.bc_of[2] && R.bd_calls == 0 && R.id_calls == 0 && R.bn_calls == 0 &&
                   R.eq_calls == 0 && R.eq_ret == 0 && R.fc_calls == 0 && !B.created[IT_META] && !B.created[IT_INDEX] && !B.created[IT_DATA] && !B.created[IT_EMPTY] &&
                   R.seeks[IT_META] == 0 && !R.destroyed[IT_META] && R.clock == 0 && B.lk_calls == 0 && B.ins_calls == 0)
__CPROVER_assigns(*table, R, B, __CPROVER_object_whole(g_blk))
/* a file shorter than a footer is not a table: LDB_CORRUPTION without touching the file */
__CPROVER_ensures(size < SPEC_FOOTER_SIZE ==> (__CPROVER_return_value == LDB_CORRUPTION && R.pr_calls == 0 && B.rb_calls == 0))
/* the footer is the last 48 bytes of the file */
__CPROVER_ensures(size >= SPEC_FOOTER_SIZE ==> (R.pr_calls == 1 && R.pr_count == SPEC_FOOTER_SIZE && R.pr_off == size - SPEC_FOOTER_SIZE))
/* read error propagated; short read / wrong magic / malformed handles: LDB_CORRUPTION; nothing else is read */
__CPROVER_ensures(R.pr_calls == 1 && R.pr_rc != LDB_OK ==> (__CPROVER_return_value == R.pr_rc && B.rb_calls == 0))
__CPROVER_ensures(OP_PREAD_OK && !spec_footer_ok(IN.footer, R.pr_size) ==> (__CPROVER_return_value == LDB_CORRUPTION && B.rb_calls == 0))
__CPROVER_ensures(OP_INDEX_READ ==> (OP_PREAD_OK && spec_footer_ok(IN.footer, R.pr_size)))
__CPROVER_ensures(OP_PREAD_OK && B.rb_calls == 0 ==> __CPROVER_return_value == LDB_CORRUPTION)
/* the index block is read at the footer's index handle, checksums verified iff paranoid_checks */
__CPROVER_ensures(OP_INDEX_READ ==> (B.rb[0].off == spec_handle2_offset(IN.footer, R.pr_size) && B.rb[0].size == spec_handle2_size(IN.footer, R.pr_size) &&
                                     B.rb[0].verify == OP_PARANOID && B.rb[0].fill == 1))
/* index block unreadable: that status, no table, nothing else read or created */
__CPROVER_ensures(OP_INDEX_READ && B.rb[0].rc != LDB_OK ==> (__CPROVER_return_value == B.rb[0].rc && B.rb_calls == 1 && B.bc_calls == 0 && R.id_calls == 0 && R.fc_calls == 0))
/* every failure: no table object */
__CPROVER_ensures(__CPROVER_return_value != LDB_OK ==> OP_T == NULL)
__CPROVER_ensures((__CPROVER_return_value == LDB_OK) == OP_OPENED)
/* success: the table owns the index block, remembers file / options / metaindex handle, and draws a fresh cache id iff there is a block cache */
__CPROVER_ensures(OP_OPENED ==> (OP_T != NULL && OP_T->file == file && OP_T->index_block == &g_blk[0] && B.bc_of[0] && OP_T->status == LDB_OK &&
                                 OP_T->options.comparator == options->comparator && OP_T->options.block_cache == options->block_cache &&
                                 OP_T->options.filter_policy == options->filter_policy && OP_T->options.paranoid_checks == options->paranoid_checks &&
                                 OP_T->options.block_size == options->block_size && OP_T->options.block_restart_interval == options->block_restart_interval))
__CPROVER_ensures(OP_OPENED ==> (OP_T->metaindex_handle.offset == spec_handle_offset(IN.footer, R.pr_size) && OP_T->metaindex_handle.size == spec_handle_size(IN.footer, R.pr_size)))
__CPROVER_ensures(OP_OPENED ==> (R.id_calls == (options->block_cache != NULL ? 1 : 0) && OP_T->cache_id == (options->block_cache != NULL ? IN.lru_id : 0)))
/* meta data is wanted iff there is a filter policy (and its name fits): metaindex read at the footer's metaindex handle, verified iff paranoid */
__CPROVER_ensures(OP_OPENED ==> (R.bn_calls == (options->filter_policy != NULL ? 1 : 0)))
__CPROVER_ensures(OP_OPENED ==> (OP_META_READ == (options->filter_policy != NULL && IN.name_ok != 0)))
__CPROVER_ensures(OP_META_READ ==> (OP_OPENED && B.rb[1].off == OP_T->metaindex_handle.offset && B.rb[1].size == OP_T->metaindex_handle.size &&
                                    B.rb[1].verify == OP_PARANOID))
/* the metaindex block is searched (bytewise order) for the key "filter." + policy name; iterator and block are released again, in that order */
__CPROVER_ensures(OP_OPENED ==> (B.bc_calls == (OP_META_OK ? 2 : 1) && B.created[IT_META] == (OP_META_OK ? 1 : 0) && R.bd_calls == (OP_META_OK ? 1 : 0)))
__CPROVER_ensures(OP_META_OK ==> (B.bc_of[1] && B.block[IT_META] == &g_blk[1] && B.cmp[IT_META] == &g_bytewise_obj && R.seeks[IT_META] == 1 &&
                                  R.mseek_data == (const uint8_t *)R.bn_buf && R.mseek_n == IN.name_len &&
                                  R.destroyed[IT_META] == 1 && R.bd_block == &g_blk[1] && R.t_destroy[IT_META] < R.t_bd))
__CPROVER_ensures(OP_META_OK ==> R.eq_calls == (IN.valid[IT_META] != 0 ? 1 : 0))
/* the filter block is read iff that exact key exists and its value is a well-formed handle; at that handle; verified iff paranoid */
__CPROVER_ensures(OP_OPENED ==> (OP_FILTER_READ == (OP_FOUND && spec_handle_len(IN.vp[IT_META], IN.vn[IT_META]) != 0)))
__CPROVER_ensures(OP_FILTER_READ ==> (B.rb[2].off == spec_handle_offset(IN.vp[IT_META], IN.vn[IT_META]) && B.rb[2].size == spec_handle_size(IN.vp[IT_META], IN.vn[IT_META]) &&
                                      B.rb[2].verify == OP_PARANOID))
/* the table has a filter iff the filter block was read successfully: built by the policy over exactly those bytes, which the table owns iff they are heap-allocated.
   Any failure on the way (no entry, bad handle, unreadable block) leaves the table WITHOUT a filter - never an error, never a dangling filter */
__CPROVER_ensures(OP_OPENED ==> (R.fc_calls == (OP_FILTER_OK ? 1 : 0) && OP_T->filter == (OP_FILTER_OK ? &g_filter_obj : (ldb_filter_t *)NULL)))
__CPROVER_ensures(OP_OPENED && OP_FILTER_OK ==> (R.fc_policy == options->filter_policy && R.fc_data == IN.rb_data[2] && R.fc_n == IN.rb_n[2] &&
                                                 OP_T->filter_data == (B.rb[2].heap ? IN.rb_data[2] : (const uint8_t *)NULL)))
__CPROVER_ensures(OP_OPENED && !OP_FILTER_OK ==> OP_T->filter_data == NULL)
/* the block cache is not touched by open (cache id apart) */
__CPROVER_ensures(B.lk_calls == 0 && B.ins_calls == 0 && R.fm_calls == __CPROVER_old(R.fm_calls))
;

/* ================================================================ tbl.approx
 * Table::ApproximateOffsetOf: offset of the block that would hold the key;
 * metaindex offset (close to the file size) if past the end or undecodable.
 */
uint64_t c_table_approximate_offset(const ldb_table_t *table, const ldb_slice_t *key)
__CPROVER_requires(table == IN.table && __CPROVER_r_ok(table, sizeof(*table)) && key == IN.key && table->index_block == &g_blk_index)
__CPROVER_requires(__CPROVER_r_ok(IN.ixval, IN.ixval_n) && IN.vp[IT_INDEX] == IN.ixval && IN.vn[IT_INDEX] == IN.ixval_n)
__CPROVER_requires(!B.created[IT_INDEX] && R.seeks[IT_INDEX] == 0 && !R.destroyed[IT_INDEX])
__CPROVER_assigns(R, B)
__CPROVER_ensures(B.created[IT_INDEX] == 1 && B.block[IT_INDEX] == table->index_block && B.cmp[IT_INDEX] == table->options.comparator &&
                  R.seeks[IT_INDEX] == 1 && R.destroyed[IT_INDEX] == 1)
__CPROVER_ensures(__CPROVER_return_value == ((IN.valid[IT_INDEX] != 0 && spec_handle_len(IN.ixval, IN.ixval_n) != 0)
                                             ? spec_handle_offset(IN.ixval, IN.ixval_n) : table->metaindex_handle.offset))
__CPROVER_ensures(B.rb_calls == __CPROVER_old(B.rb_calls) && B.lk_calls == __CPROVER_old(B.lk_calls) && !B.created[IT_DATA] == !__CPROVER_old(B.created[IT_DATA]))
;

/* =============================================================== tbl.iterate
 * Table::NewIterator: two-level iterator = (iterator over the index block, block reader bound to this table).
 */
ldb_iter_t *c_tableiter_create(const ldb_table_t *table, const ldb_readopt_t *options)
__CPROVER_requires(table == IN.table && __CPROVER_r_ok(table, sizeof(*table)) && table->index_block == &g_blk_index)
__CPROVER_requires(!B.created[IT_INDEX] && R.tw_calls == 0)
__CPROVER_assigns(R, B)
__CPROVER_ensures(__CPROVER_return_value == &g_two_iter && R.tw_calls == 1)
__CPROVER_ensures(B.created[IT_INDEX] == 1 && B.block[IT_INDEX] == table->index_block && B.cmp[IT_INDEX] == table->options.comparator && R.tw_index == &GI[IT_INDEX])
__CPROVER_ensures(R.tw_fn == ldb_table_blockreader && R.tw_arg == (void *)table && R.tw_opt == options)
/* nothing is read or positioned yet; the index iterator now belongs to the two-level iterator */
__CPROVER_ensures(R.seeks[IT_INDEX] == __CPROVER_old(R.seeks[IT_INDEX]) && R.destroyed[IT_INDEX] == __CPROVER_old(R.destroyed[IT_INDEX]) && B.rb_calls == __CPROVER_old(B.rb_calls) &&
                  B.lk_calls == __CPROVER_old(B.lk_calls) && !B.created[IT_DATA] == !__CPROVER_old(B.created[IT_DATA]))
;

/* ------------------------------------------------------------- harnesses */
static void init_records(void) {
  int i;
  for (i = 0; i < IT_N; i++) {
    B.created[i] = 0; R.destroyed[i] = 0; R.seeks[i] = 0; B.block[i] = NULL; B.cmp[i] = NULL; R.t_destroy[i] = 0;
    GI[i].ptr = &g_tags[i]; GI[i].table = &gi_table; GI[i].cmp = &g_cmp_obj; GI[i].cleanup_head.func = NULL; GI[i].cleanup_head.next = NULL;
  }
  B.empty_status = LDB_OK; R.clock = 0; R.t_saver = 0;
  R.fm_calls = 0; R.fm_ret = 0; R.sv_calls = 0; B.rb_calls = 0; B.bc_calls = 0; B.bc_of[0] = B.bc_of[1] = B.bc_of[2] = 0; R.bd_calls = 0;
  B.lk_calls = 0; B.lk_n = 0; B.ins_calls = 0; B.ins_n = 0; R.id_calls = 0; B.cl_calls = 0; B.cl_func = NULL; R.pr_calls = 0; R.pr_rc = 0; R.pr_size = 0; R.pr_data = NULL;
  R.tw_calls = 0; R.bn_calls = 0; R.eq_calls = 0; R.eq_ret = 0; R.fc_calls = 0; R.mseek_data = NULL; R.mseek_n = 0;
  for (i = 0; i < 3; i++) { B.rb[i].rc = 0; B.rb[i].cachable = 0; B.rb[i].heap = 0; B.rb[i].verify = 0; B.rb[i].fill = 0; B.rb[i].off = 0; B.rb[i].size = 0; B.rb[i].opt = NULL; }
  g_ro_default.verify_checksums = 0; g_ro_default.fill_cache = 1; g_ro_default.snapshot = NULL;
  ldb_readopt_default = &g_ro_default;
  ldb_bytewise_comparator = &g_bytewise_obj;
}

/* an open table: arbitrary options / cache id / filter, over the ghost index block */
static ldb_table_t *any_table(void) {
  ldb_table_t *t = malloc(sizeof(*t));
  IN_INT(in_has_cache); IN_INT(in_has_filter); IN_U64(in_cache_id);
  ASSUME(t != NULL);
  t->file = &g_the_rfile; t->index_block = &g_blk_index;
  t->options.block_cache = in_has_cache ? &g_the_cache : NULL;
  t->options.comparator = &g_cmp_obj;
  t->filter = in_has_filter ? &g_filter_obj : NULL;
  t->cache_id = in_cache_id;
  IN.table = t;
  return t;
}
static void any_iter_inputs(void) {
  int i;
  for (i = 0; i < IT_N; i++) {
    IN.valid[i] = nondet_int(); IN.status[i] = nondet_int();
    IN.kn[i] = nondet_size(); IN.vn[i] = nondet_size();
    IN.kp[i] = malloc(1); IN.vp[i] = malloc(1);      /* distinct identities; the code under test never reads entry bytes */
  }
}

void h_get(void) {
  ldb_table_t *t; ldb_readopt_t ro; ldb_slice_t k; int cookie;
  IN_SIZE(in_ivn); IN_BUF(iv, in_ivn); SNAP_BUF(iv, in_ivn);
  init_records();
  t = any_table();
  any_iter_inputs();
  ro.verify_checksums = nondet_int(); ro.fill_cache = nondet_int(); ro.snapshot = NULL;
  k.data = NULL; k.size = nondet_size(); k.alloc = 0;
  IN.ropt = &ro; IN.key = &k; IN.arg = &cookie;
  IN.ixval = iv; IN.ixval_n = in_ivn; IN.vp[IT_INDEX] = iv; IN.vn[IT_INDEX] = in_ivn;
  IN.lookup_hit = nondet_int(); IN.rb_data[0] = malloc(1); IN.rb_n[0] = nondet_size();
  ldb_table_internal_get(t, &ro, &k, &cookie, stub_saver);
  CANARY();
}

void h_blockreader(void) {
  ldb_table_t *t; ldb_readopt_t ro; ldb_slice_t v;
  IN_SIZE(in_ivn); IN_BUF(iv, in_ivn); SNAP_BUF(iv, in_ivn);
  init_records();
  t = any_table();
  any_iter_inputs();
  ro.verify_checksums = nondet_int(); ro.fill_cache = nondet_int(); ro.snapshot = NULL;
  IN.ropt = &ro; IN.key = NULL; IN.arg = NULL;
  IN.ixval = iv; IN.ixval_n = in_ivn;
  v.data = iv; v.size = in_ivn; v.alloc = 0;
  IN.lookup_hit = nondet_int(); IN.rb_data[0] = malloc(1); IN.rb_n[0] = nondet_size();
  ldb_table_blockreader(t, &ro, &v);
  CANARY();
}

void h_open(void) {
  ldb_dbopt_t opt; ldb_table_t *tbl; int rc;
  IN_U64(in_size); IN_INT(in_paranoid); IN_INT(in_has_cache); IN_INT(in_has_policy); IN_SIZE(in_fvn);
  IN_BUF(fv, in_fvn);                          /* value of the metaindex entry: the filter block's handle, arbitrary bytes */
  init_records();
  any_iter_inputs();
  opt.comparator = &g_cmp_obj; opt.paranoid_checks = in_paranoid; opt.block_cache = in_has_cache ? &g_the_cache : NULL;
  opt.filter_policy = in_has_policy ? &g_policy_obj : NULL;
  opt.create_if_missing = nondet_int(); opt.error_if_exists = nondet_int(); opt.info_log = NULL; opt.write_buffer_size = nondet_size();
  opt.max_open_files = nondet_int(); opt.block_size = nondet_size(); opt.block_restart_interval = nondet_int(); opt.max_file_size = nondet_size();
  IN.footer = malloc(48); ASSUME(IN.footer != NULL);
  IN.pread_mapped = nondet_int(); IN.lru_id = nondet_u64(); IN.name_ok = nondet_int() ? 1 : 0; IN.name_len = nondet_size();
  IN.vp[IT_META] = fv; IN.vn[IT_META] = in_fvn;
  IN.rb_data[0] = malloc(1); IN.rb_data[1] = malloc(1); IN.rb_data[2] = malloc(1);
  ASSUME(IN.rb_data[0] != NULL && IN.rb_data[1] != NULL && IN.rb_data[2] != NULL);
  IN.rb_n[0] = nondet_size(); IN.rb_n[1] = nondet_size(); IN.rb_n[2] = nondet_size();
  tbl = (ldb_table_t *)&opt;                   /* garbage: open must overwrite it on every path */
  rc = ldb_table_open(&opt, &g_the_rfile, in_size, &tbl);
  if (rc == LDB_OK) free(tbl);
  CANARY();
}

void h_approx(void) {
  ldb_table_t *t; ldb_slice_t k; uint64_t r;
  IN_SIZE(in_ivn); IN_BUF(iv, in_ivn); SNAP_BUF(iv, in_ivn);
  init_records();
  t = any_table();
  t->metaindex_handle.offset = nondet_u64();
  any_iter_inputs();
  k.data = NULL; k.size = nondet_size(); k.alloc = 0;
  IN.key = &k; IN.ixval = iv; IN.ixval_n = in_ivn; IN.vp[IT_INDEX] = iv; IN.vn[IT_INDEX] = in_ivn;
  r = ldb_table_approximate_offset(t, &k);
  (void)r;
  CANARY();
}

void h_tableiter(void) {
  ldb_table_t *t; ldb_readopt_t ro;
  init_records();
  t = any_table();
  any_iter_inputs();
  ro.verify_checksums = nondet_int(); ro.fill_cache = nondet_int(); ro.snapshot = NULL;
  IN.ropt = &ro;
  (void)ldb_tableiter_create(t, &ro);
  CANARY();
}
