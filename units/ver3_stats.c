/* units/ver3_stats.c - seek accounting of src/version_set.c (group "ver3": C14, C01)
 *
 *   ver3.stats.update   ldb_version_update_stats under contract
 *   ver3.stats.match    samplestate_match under contract
 *   ver3.stats.sample   ldb_version_record_read_sample end to end on a small version (REAL for_each_overlapping,
 *                       samplestate_match, update_stats, ldb_pkey_import, REAL comparators)
 *   ver3.seeklevel      ldb_version_for_each_overlapping, ORACLE comparators, all seven levels populated:
 *                       visits go level-upwards, at most one file per level >= 1  ==>  a walk with >= 2 visits
 *                       never starts in the last level
 *   ver3.seeklevel.get  the same fact on ldb_version_get's stats (seek_file_level is never the last level)
 *
 * Model of a version: contracts/ver2_model.h (one-byte user keys, every file / key an object of its own).
 */
#define VER2_CHUNK_PTRS
#include "ver2_model.h"
#include <limits.h>

/* ======================================================================================================
 * ver3.stats.update
 * ====================================================================================================== */
static ldb_getstats_t g_st;
static ldb_filemeta_t g_f, g_pending;
static int g_as0, g_ftcl0; static ldb_filemeta_t *g_ftc0;
/* a compaction is asked for exactly when the charged file has no seeks left AND no other file is already waiting */
#define US_TRIGGER (g_st.seek_file != NULL && g_as0 - 1 <= 0 && g_ftc0 == NULL)
int c3_update_stats(ldb_version_t *ver, const ldb_getstats_t *stats)
__CPROVER_requires(ver == &g_ver && stats == &g_st && (g_st.seek_file == NULL || g_st.seek_file == &g_f))
/* allowed_seeks starts at >= 100 and loses one per charged read: INT_MIN is 2^31 charged reads away (observation: the
   decrement itself has no floor, same as LevelDB) */
__CPROVER_requires(g_f.allowed_seeks == g_as0 && g_as0 > INT_MIN)
__CPROVER_requires(g_ver.file_to_compact == g_ftc0 && g_ver.file_to_compact_level == g_ftcl0)
__CPROVER_assigns(g_f.allowed_seeks, g_ver.file_to_compact, g_ver.file_to_compact_level)
/* nothing charged: nothing happens */
__CPROVER_ensures(g_st.seek_file == NULL ==> (__CPROVER_return_value == 0 && g_f.allowed_seeks == g_as0))
/* the charged file loses exactly one allowed seek */
__CPROVER_ensures(g_st.seek_file != NULL ==> g_f.allowed_seeks == g_as0 - 1)
__CPROVER_ensures(__CPROVER_return_value == (US_TRIGGER ? 1 : 0))
__CPROVER_ensures(US_TRIGGER ? (g_ver.file_to_compact == &g_f && g_ver.file_to_compact_level == g_st.seek_file_level)
                             : (g_ver.file_to_compact == g_ftc0 && g_ver.file_to_compact_level == g_ftcl0))
;
void h_update_stats(void) {
  IN_INT(in_has_file); IN_INT(in_allowed); IN_INT(in_pending); IN_INT(in_level); IN_INT(in_old_level);
  ASSUME(in_allowed > INT_MIN);
  mk_version();
  g_f.refs = 1; g_f.allowed_seeks = in_allowed; g_f.number = nondet_u64(); g_f.file_size = nondet_u64();
  g_st.seek_file = in_has_file ? &g_f : NULL; g_st.seek_file_level = in_level;
  g_ver.file_to_compact = in_pending ? &g_pending : NULL; g_ver.file_to_compact_level = in_old_level;
  g_as0 = in_allowed; g_ftc0 = g_ver.file_to_compact; g_ftcl0 = in_old_level;
  ldb_version_update_stats(&g_ver, &g_st);
  CANARY();
}

/* ======================================================================================================
 * ver3.stats.match
 * ====================================================================================================== */
static samplestate_t g_ss; static int g_m0, g_mlvl, g_s_lvl0; static ldb_filemeta_t *g_mf, *g_s_f0;
int c3_samplestate_match(void *arg, int level, ldb_filemeta_t *f)
__CPROVER_requires(arg == &g_ss && level == g_mlvl && f == g_mf)
__CPROVER_requires(g_ss.matches == g_m0 && g_m0 >= 0 && g_m0 < INT_MAX && g_ss.stats.seek_file == g_s_f0 && g_ss.stats.seek_file_level == g_s_lvl0)
__CPROVER_assigns(g_ss.matches, g_ss.stats.seek_file, g_ss.stats.seek_file_level)
__CPROVER_ensures(g_ss.matches == g_m0 + 1)
/* the FIRST match is remembered (file and level); later matches leave it alone */
__CPROVER_ensures(g_m0 == 0 ? (g_ss.stats.seek_file == g_mf && g_ss.stats.seek_file_level == g_mlvl)
                            : (g_ss.stats.seek_file == g_s_f0 && g_ss.stats.seek_file_level == g_s_lvl0))
/* the walk goes on only until a second match is seen */
__CPROVER_ensures(__CPROVER_return_value == (g_m0 + 1 < 2 ? 1 : 0))
;
void h_samplestate_match(void) {
  IN_INT(in_matches); IN_INT(in_level); IN_INT(in_old_level); IN_INT(in_has_old);
  ASSUME(in_matches >= 0 && in_matches < INT_MAX);
  g_ss.matches = in_matches; g_m0 = in_matches;
  g_ss.stats.seek_file = in_has_old ? &g_pending : NULL; g_ss.stats.seek_file_level = in_old_level;
  g_s_f0 = g_ss.stats.seek_file; g_s_lvl0 = in_old_level;
  g_mlvl = in_level; g_mf = &g_f;
  samplestate_match(&g_ss, in_level, &g_f);
  CANARY();
}

/* ======================================================================================================
 * ldb_vector_sort by contract: VERBATIM copy of c_vector_sort and its macros from units/ver2.c (enforced there by ver2.sort on the
 * real quicksort of src/util/vector.c with the real comparator newest_first, <= 3 elements).
 * ====================================================================================================== */
#define IS_L0(p) ((p) == (void *)&fm_0_0 || (p) == (void *)&fm_0_1 || (p) == (void *)&fm_0_2)
#define NUM_OF(p) ((p) == (void *)&fm_0_0 ? g_num[0][0] : (p) == (void *)&fm_0_1 ? g_num[0][1] : g_num[0][2])
#define L0_NUMS_TIED (fm_0_0.number == g_num[0][0] && fm_0_1.number == g_num[0][1] && fm_0_2.number == g_num[0][2])
#define PERM1(n0, o0) ((n0) == (o0))
#define PERM2(n0, n1, o0, o1) (((n0) == (o0) && (n1) == (o1)) || ((n0) == (o1) && (n1) == (o0)))
#define PERM3(n0, n1, n2, o0, o1, o2) \
  (((n0) == (o0) && PERM2(n1, n2, o1, o2)) || ((n0) == (o1) && PERM2(n1, n2, o0, o2)) || ((n0) == (o2) && PERM2(n1, n2, o0, o1)))
void c_vector_sort(ldb_vector_t *z, int (*cmp)(void *, void *))
__CPROVER_requires(__CPROVER_rw_ok(z, sizeof(*z)) && cmp == newest_first)
__CPROVER_requires(z->length >= 1 && z->length <= 3 && __CPROVER_rw_ok(z->items, 3 * sizeof(void *)))
__CPROVER_requires(IS_L0(z->items[0]) && (z->length < 2 || IS_L0(z->items[1])) && (z->length < 3 || IS_L0(z->items[2])))
__CPROVER_requires(L0_NUMS_TIED)
__CPROVER_assigns(z->items[0], z->items[1], z->items[2])
__CPROVER_ensures(z->length == 1 ==> PERM1(z->items[0], __CPROVER_old(z->items[0])))
__CPROVER_ensures(z->length == 2 ==> PERM2(z->items[0], z->items[1], __CPROVER_old(z->items[0]), __CPROVER_old(z->items[1])))
__CPROVER_ensures(z->length == 3 ==> PERM3(z->items[0], z->items[1], z->items[2], __CPROVER_old(z->items[0]), __CPROVER_old(z->items[1]), __CPROVER_old(z->items[2])))
__CPROVER_ensures(z->length < 2 || NUM_OF(z->items[0]) >= NUM_OF(z->items[1]))
__CPROVER_ensures(z->length < 3 || NUM_OF(z->items[1]) >= NUM_OF(z->items[2]))
;

/* ======================================================================================================
 * ver3.stats.sample - ldb_version_record_read_sample
 * ======================================================================================================
 * <= 2 files in level 0 (arbitrary overlapping ranges, distinct numbers), <= 2 files in each of the levels 1 and 6
 * (sorted, disjoint), levels 2..5 empty.  The expected visit sequence of for_each_overlapping is computed from the ghost
 * scalars (level-0 files containing the user key by descending number, then the candidate of each deeper level);
 * the specification of the sample is then:
 *    key does not parse, or fewer than 2 files match  ->  returns 0, no file is charged, nothing pending changes
 *    >= 2 files match                                 ->  the FIRST match loses one allowed seek (nobody else), becomes
 *                                                         file_to_compact (with its level) iff it ran out and nothing was
 *                                                         pending; the return value says so
 */
#define SF0 2
static uint8_t g_sk_b[9]; static ldb_slice_t g_sk; static uint8_t g_uk; static uint64_t g_ktag;
static ldb_filemeta_t *g_exp_f[SF0 + 6]; static int g_exp_lvl[SF0 + 6]; static size_t g_exp_n;
static void exp_push(int l, size_t i) { g_exp_f[g_exp_n] = g_fmp[l][i]; g_exp_lvl[g_exp_n] = l; g_exp_n++; }
#define L0_HAS(i) ((i) < g_n[0] && g_suk[0][i] <= g_uk && g_uk <= g_luk[0][i])
static void exp_level0(void) {
  int c0 = L0_HAS(0), c1 = L0_HAS(1);
  if (c0 && c1) { if (g_num[0][0] > g_num[0][1]) { exp_push(0, 0); exp_push(0, 1); } else { exp_push(0, 1); exp_push(0, 0); } }
  else if (c0) exp_push(0, 0);
  else if (c1) exp_push(0, 1);
}
static void exp_level(int l) {
  /* first file whose largest key is >= the sampled internal key; visited iff its smallest user key <= uk */
  size_t i;
  if (g_n[l] > 0 && LE_(g_uk, g_ktag, g_luk[l][0], g_ltag[l][0])) i = 0;
  else if (g_n[l] > 1 && LE_(g_uk, g_ktag, g_luk[l][1], g_ltag[l][1])) i = 1;
  else return;
  if (g_suk[l][i] <= g_uk) exp_push(l, i);
}
static int g_as_before[3][2];
#define SNAP_AS(s, l, i) g_as_before[s][i] = g_fmp[l][i]->allowed_seeks
#define UNCHANGED_EXCEPT(s, l, i, ch) (g_fmp[l][i] == (ch) || g_fmp[l][i]->allowed_seeks == g_as_before[s][i])

void h_record_read_sample(void) {
  IN_SIZE(in_n0); IN_SIZE(in_n1); IN_SIZE(in_n6); IN_INT(in_short); IN_INT(in_pending); IN_INT(in_old_level);
  int r, parse_ok; ldb_filemeta_t *ftc0, *charged;
  ASSUME(in_n0 <= SF0 && in_n1 <= 2 && in_n6 <= 2);
  mk_version();
  /* all model files of the three levels exist as objects even when the level is shorter (the sort contract names the level-0 ones) */
  mk_level(0, 3); mk_level(0, in_n0); mk_level(1, 2); mk_level(1, in_n1); mk_level(6, 2); mk_level(6, in_n6);
  ASSUME(DISJOINT_SORTED(1) && DISJOINT_SORTED(6));
  ASSUME(g_num[0][0] != g_num[0][1]);                       /* ver.numbers: no file number is handed out twice */
  /* no file is within one step of INT_MIN (see ver3.stats.update) */
  ASSUME(fm_0_0.allowed_seeks > INT_MIN && fm_0_1.allowed_seeks > INT_MIN && fm_1_0.allowed_seeks > INT_MIN && fm_1_1.allowed_seeks > INT_MIN &&
         fm_6_0.allowed_seeks > INT_MIN && fm_6_1.allowed_seeks > INT_MIN);
  /* the sampled key: 9 bytes uk || LE64(tag) with ANY tag (a type byte > 1 does not parse), or a 5-byte fragment */
  g_uk = nondet_u8(); g_ktag = nondet_u64();
  { ldb_buffer_t t; mk_ikey(&t, g_sk_b, g_uk, g_ktag); }
  g_sk.data = g_sk_b; g_sk.size = in_short ? 5 : 9; g_sk.alloc = 0;
  parse_ok = !in_short && (g_ktag & 0xff) <= 1;
  g_exp_n = 0; exp_level0(); exp_level(1); exp_level(6);
  g_ver.file_to_compact = in_pending ? &g_pending : NULL; g_ver.file_to_compact_level = in_old_level;
  ftc0 = g_ver.file_to_compact;
  SNAP_AS(0, 0, 0); SNAP_AS(0, 0, 1); SNAP_AS(1, 1, 0); SNAP_AS(1, 1, 1); SNAP_AS(2, 6, 0); SNAP_AS(2, 6, 1);

  r = ldb_version_record_read_sample(&g_ver, &g_sk);

  charged = (parse_ok && g_exp_n >= 2) ? g_exp_f[0] : NULL;
  CHECK(UNCHANGED_EXCEPT(0, 0, 0, charged) && UNCHANGED_EXCEPT(0, 0, 1, charged) && UNCHANGED_EXCEPT(1, 1, 0, charged) && UNCHANGED_EXCEPT(1, 1, 1, charged) &&
        UNCHANGED_EXCEPT(2, 6, 0, charged) && UNCHANGED_EXCEPT(2, 6, 1, charged),
        "record_read_sample: no file other than the first match is ever charged (nothing at all if the key does not parse or fewer than two files match)");
  if (charged == NULL) {
    CHECK(r == 0, "record_read_sample: an unparsable key or fewer than two matching files never asks for a compaction");
    CHECK(g_ver.file_to_compact == ftc0 && g_ver.file_to_compact_level == in_old_level, "record_read_sample: nothing charged, file_to_compact untouched");
  } else {
    int l = g_exp_lvl[0], before, trigger;
    before = charged == &fm_0_0 ? g_as_before[0][0] : charged == &fm_0_1 ? g_as_before[0][1] : charged == &fm_1_0 ? g_as_before[1][0] :
             charged == &fm_1_1 ? g_as_before[1][1] : charged == &fm_6_0 ? g_as_before[2][0] : g_as_before[2][1];
    trigger = before - 1 <= 0 && ftc0 == NULL;
    CHECK(charged->allowed_seeks == before - 1, "record_read_sample: with >= 2 matching files the FIRST match (newest level-0 file containing the key, else the shallowest level) loses exactly one allowed seek");
    CHECK(r == (trigger ? 1 : 0), "record_read_sample: asks for a compaction iff the charged file ran out of seeks and no file was pending");
    CHECK(trigger ? (g_ver.file_to_compact == charged && g_ver.file_to_compact_level == l)
                  : (g_ver.file_to_compact == ftc0 && g_ver.file_to_compact_level == in_old_level),
          "record_read_sample: file_to_compact = the charged file with the level it was found in, only when it ran out and none was pending");
    CHECK(l >= 0 && l < LDB_NUM_LEVELS - 1, "record_read_sample: the charged file is never in the last level (a seek compaction of the last level has no level+1)");
  }
  CANARY();
}

/* ======================================================================================================
 * ver3.seeklevel / ver3.seeklevel.get - ORACLE comparators, seven populated levels
 * ======================================================================================================
 * Both comparators answer every question arbitrarily, so the statement holds whatever the keys are and whether or not the
 * levels are sorted:  for_each_overlapping calls back level-upwards, level 0 any number of times, every level >= 1 at most
 * once, always with a file of that level.  Hence a walk with a second visit did not start in level NUM_LEVELS-1, which is
 * what makes stats.seek_file_level (ldb_version_get) and the sample's first match legal inputs of a seek compaction
 * (ldb_versions_pick_compaction reads files[level + 1]).
 */
static int or_compare(const ldb_comparator_t *c, const ldb_slice_t *x, const ldb_slice_t *y) { (void)c; (void)x; (void)y; return nondet_int(); }
static ldb_comparator_t g_or_ucmp;
static int g_cb_arg, g_sl_calls, g_sl_first, g_sl_last; static ldb_filemeta_t *g_sl_first_f;
static ldb_lkey_t g_lk; static ldb_slice_t g_uks, g_iks;
#define IN_LEVEL(l, f) ((g_n[l] > 0 && (f) == g_fmp[l][0]) || (g_n[l] > 1 && (f) == g_fmp[l][1]))
static int member_of_level(int l, const ldb_filemeta_t *f) {
  return l == 0 ? IN_LEVEL(0, f) : l == 1 ? IN_LEVEL(1, f) : l == 2 ? IN_LEVEL(2, f) : l == 3 ? IN_LEVEL(3, f) :
         l == 4 ? IN_LEVEL(4, f) : l == 5 ? IN_LEVEL(5, f) : l == 6 ? IN_LEVEL(6, f) : 0;
}
static int sl_cb(void *arg, int level, ldb_filemeta_t *f) {
  __CPROVER_assert(arg == &g_cb_arg, "for_each_overlapping: callback argument passed through");
  __CPROVER_assert(level >= 0 && level < LDB_NUM_LEVELS && member_of_level(level, f), "for_each_overlapping: the callback gets a file of the version together with the level that holds it");
  __CPROVER_assert(level >= g_sl_last, "for_each_overlapping: levels are visited upwards");
  __CPROVER_assert(level == 0 || level > g_sl_last, "for_each_overlapping: at most one file of a level >= 1 is visited");
  if (g_sl_calls == 0) { g_sl_first = level; g_sl_first_f = f; }
  g_sl_last = level; g_sl_calls++;
  return nondet_int() ? 1 : 0;
}
static void mk_oracle_world(size_t n0, size_t n1, size_t n2, size_t n3, size_t n4, size_t n5, size_t n6) {
  ASSUME(n0 <= 2 && n1 <= 2 && n2 <= 2 && n3 <= 2 && n4 <= 2 && n5 <= 2 && n6 <= 2);
  mk_version();
  mk_level(0, 3); mk_level(0, n0); mk_level(1, n1); mk_level(2, n2); mk_level(3, n3); mk_level(4, n4); mk_level(5, n5); mk_level(6, n6);
  g_or_ucmp.name = "oracle"; g_or_ucmp.compare = or_compare; g_or_ucmp.shortest_separator = NULL; g_or_ucmp.short_successor = NULL;
  g_or_ucmp.user_comparator = NULL; g_or_ucmp.state = NULL;
  g_vset.icmp.compare = or_compare; g_vset.icmp.user_comparator = &g_or_ucmp;
  /* lookup key: varint32(9) uk LE64(tag) */
  g_lk.space[0] = 9;
  { ldb_buffer_t t; mk_ikey(&t, g_lk.space + 1, nondet_u8(), nondet_u64()); }
  g_lk.start = g_lk.space; g_lk.kstart = g_lk.space + 1; g_lk.end = g_lk.space + 10;
  g_uks.data = g_lk.space + 1; g_uks.size = 1; g_uks.alloc = 0;
  g_iks.data = g_lk.space + 1; g_iks.size = 9; g_iks.alloc = 0;
  g_sl_calls = 0; g_sl_first = -1; g_sl_last = 0; g_sl_first_f = NULL;
}
void h_seeklevel(void) {
  IN_SIZE(in_n0); IN_SIZE(in_n1); IN_SIZE(in_n2); IN_SIZE(in_n3); IN_SIZE(in_n4); IN_SIZE(in_n5); IN_SIZE(in_n6);
  mk_oracle_world(in_n0, in_n1, in_n2, in_n3, in_n4, in_n5, in_n6);
  ldb_version_for_each_overlapping(&g_ver, &g_uks, &g_iks, &g_cb_arg, sl_cb);
  CHECK(g_sl_calls < 2 || (g_sl_first >= 0 && g_sl_first < LDB_NUM_LEVELS - 1), "for_each_overlapping: a walk that visits a second file did not start in the last level");
  CHECK((size_t)g_sl_calls <= in_n0 + 6, "for_each_overlapping: at most (level-0 files + one per deeper level) visits");
  CANARY();
}
/* ldb_tables_get (table_cache.c): consulted once per visited file; any status; a table that answers OK without an entry keeps the
   search going (found / deleted / corrupt entries end it exactly like an error does as far as the statistics are concerned) */
static int g_tg_calls; static uint64_t g_tg_first_num;
int ldb_tables_get(ldb_tables_t *cache, const ldb_readopt_t *options, uint64_t file_number, uint64_t file_size,
                   const ldb_slice_t *k, void *arg, void (*handle_result)(void *, const ldb_slice_t *, const ldb_slice_t *)) {
  (void)cache; (void)options; (void)file_size; (void)k; (void)arg; (void)handle_result;
  if (g_tg_calls == 0) g_tg_first_num = file_number;
  g_tg_calls++;
  return nondet_int();
}
void h_seeklevel_get(void) {
  IN_SIZE(in_n0); IN_SIZE(in_n1); IN_SIZE(in_n2); IN_SIZE(in_n3); IN_SIZE(in_n4); IN_SIZE(in_n5); IN_SIZE(in_n6);
  ldb_getstats_t stats; ldb_readopt_t ropt;
  mk_oracle_world(in_n0, in_n1, in_n2, in_n3, in_n4, in_n5, in_n6);
  g_tg_calls = 0; g_tg_first_num = 0;
  stats.seek_file = &g_pending; stats.seek_file_level = nondet_int();
  ropt.verify_checksums = 0; ropt.fill_cache = 1; ropt.snapshot = NULL;
  ldb_version_get(&g_ver, &ropt, &g_lk, NULL, &stats);
  CHECK((stats.seek_file != NULL) == (g_tg_calls >= 2), "version_get: a file is charged iff a second table had to be consulted");
  if (stats.seek_file == NULL) {
    CHECK(stats.seek_file_level == -1, "version_get: nothing charged, level -1");
  } else {
    CHECK(stats.seek_file_level >= 0 && stats.seek_file_level < LDB_NUM_LEVELS - 1, "version_get: the charged file's level is never the last level");
    CHECK(member_of_level(stats.seek_file_level, stats.seek_file), "version_get: seek_file_level is the level that holds the charged file");
    CHECK(stats.seek_file->number == g_tg_first_num, "version_get: the charged file is the FIRST table consulted");
  }
  CANARY();
}
