/* units/ikc.c - index-key shortening of the internal key comparator and the internal filter policy (src/dbformat.c)
 *   ikc.separator    : ldb_ikc_shortest_separator, ANY user comparator (abstract model), keys of any length   (C16, C07, C01)
 *   ikc.successor    : ldb_ikc_short_successor,    ANY user comparator (abstract model), key of any length
 *   ikc.separator_bw : ldb_ikc_shortest_separator over the REAL bytewise comparator, ordering conclusion checked
 *   ikc.successor_bw : ldb_ikc_short_successor    with the real ldb_ikc_compare (bounded key length)
 *   ikc.ifp_build    : ldb_ifp_build (arbitrary number of keys: loop contract + ghost index), ldb_ifp_init
 *   ikc.ifp_match    : ldb_ifp_match
 *   ikc.ikey         : ldb_ikey_init / clear / copy / export (argument wiring of the one-line wrappers)
 *
 * The real dbformat.c (and buffer.c, comparator.c) are included unmodified.  Internal key:
 *   internal_key := user_key ‖ LE64(sequence << 8 | type);  order: user key ascending, then the 64-bit tag DESCENDING.
 * An index key separates two blocks iff   last_key_of_block <= index_key < first_key_of_next_block   in that order.
 *
 * Division of labour for "start <= r < limit" (C16):
 *   proved here for every user comparator (ikc.separator / ikc.successor):
 *     (S1) the user comparator's shortest_separator is run on a PRIVATE copy of start's user key against limit's
 *          user key - never on the caller's key, never on limit;
 *     (S2) the candidate replaces the key only if it is physically shorter AND the user comparator says
 *          user(start) < candidate; the new key is then  candidate ‖ LE64((2^56-1) << 8 | 1)  (kMaxSequenceNumber,
 *          kValueTypeForSeek): 8 bytes 01 ff ff ff ff ff ff ff;
 *     (S3) otherwise the key (pointer, length, capacity, bytes) is untouched; limit is never written;
 *     (S4) no storage is leaked or freed twice.
 *   relies on the USER comparator's own contract (stated in ldb_comparator_t: "if *start < limit, changes *start to a
 *   string in [start, limit)"):  candidate < user(limit).  With it, start < r follows from (S2) (user(start) <
 *   candidate decides the internal order on the user key alone) and r < limit from candidate < user(limit).
 *   For the bytewise comparator that contract is proved in cmp.separator.u / cmp.successor.u; the units *_bw check
 *   the ordering conclusion itself with the real ldb_ikc_compare over the real bytewise comparator.
 */
#include "verif.h"
int nondet_int(void);
#include "contracts/coding.h"
#include "contracts/buf.h"

#include "util/bloom.h"
#include "util/buffer.h"
#include "util/coding.h"
#include "util/comparator.h"
#include "util/internal.h"
#include "util/slice.h"
#include "dbformat.h"

/* ------------------------------------------------------------------ ghost */
/* the call under test */
ldb_buffer_t *g_key;             /* the caller's key buffer (start / key)                              */
uint8_t *g_kdata; size_t g_ksize, g_kalloc;   /* its data pointer, size, capacity before the call       */
const uint8_t *g_ldata; size_t g_lsize;       /* limit                                                  */
size_t g_k;                      /* arbitrary ghost index                                              */
uint8_t g_key_k;                 /* key[g_k] before the call (if g_k < size)                           */
/* the abstract user comparator */
ldb_comparator_t g_uc;
int g_sep_calls, g_succ_calls, g_cmp_calls;
int g_cmp_ret;                   /* what compare returns (arbitrary, fixed by the harness)             */
ldb_buffer_t *g_tmp;             /* the buffer handed to the user separator / successor                */
uint8_t *g_tmp_data; size_t g_tmp_alloc;
size_t g_cand_n; uint8_t g_cand_k; /* the candidate it left there: length, byte at g_k                 */
int g_with_limit;                /* 1 = separator (limit expected), 0 = successor                      */

static void user_shorten(const ldb_comparator_t *c, ldb_buffer_t *b) {
  size_t n2;
  __CPROVER_assert(c == &g_uc, "ikc: the user comparator is called with itself as context");
  __CPROVER_assert(__CPROVER_rw_ok(b, sizeof(*b)) && b != g_key, "S1: the user comparator shortens a private buffer, not the caller's key");
  __CPROVER_assert(b->size <= b->alloc && (b->alloc == 0 || (__CPROVER_rw_ok(b->data, b->alloc) && !__CPROVER_same_object(b->data, g_kdata))),
                   "S1: the private buffer is a valid owned buffer with storage of its own");
  __CPROVER_assert(b->size == g_ksize - 8, "S1: the private copy has the length of the key's user part (all but the last 8 bytes)");
  __CPROVER_assert(!(g_k < g_ksize - 8) || b->data[g_k] == g_key_k, "S1: the private copy holds the bytes of the key's user part");
  g_tmp = b; g_tmp_data = b->data; g_tmp_alloc = b->alloc;
  /* an arbitrary user comparator: any content, any length that fits the storage it was given */
  if (b->alloc > 0) __CPROVER_havoc_object(b->data);
  n2 = nondet_size(); __CPROVER_assume(n2 <= b->alloc);
  b->size = n2;
  g_cand_n = n2; g_cand_k = (g_k < n2) ? b->data[g_k] : 0;
}
static void stub_usep(const ldb_comparator_t *c, ldb_buffer_t *start, const ldb_slice_t *limit) {
  __CPROVER_assert(g_with_limit, "successor never consults the separator");
  __CPROVER_assert(__CPROVER_r_ok(limit, sizeof(*limit)) && limit->data == g_ldata && limit->size == g_lsize - 8,
                   "S1: the user separator is bounded by exactly limit's user key (all but the last 8 bytes)");
  g_sep_calls++;
  user_shorten(c, start);
}
static void stub_usucc(const ldb_comparator_t *c, ldb_buffer_t *key) {
  __CPROVER_assert(!g_with_limit, "separator never consults the successor");
  g_succ_calls++;
  user_shorten(c, key);
}
static int stub_ucmp(const ldb_comparator_t *c, const ldb_slice_t *x, const ldb_slice_t *y) {
  __CPROVER_assert(c == &g_uc, "ikc: the user comparator is called with itself as context");
  __CPROVER_assert(g_sep_calls + g_succ_calls == 1, "S2: the candidate is compared after the user comparator produced it");
  __CPROVER_assert(__CPROVER_r_ok(x, sizeof(*x)) && x->data == g_kdata && x->size == g_ksize - 8,
                   "S2: the left operand of the logical test is the ORIGINAL user key");
  __CPROVER_assert(__CPROVER_r_ok(y, sizeof(*y)) && y->data == g_tmp->data && y->size == g_cand_n,
                   "S2: the right operand of the logical test is the candidate");
  g_cmp_calls++;
  return g_cmp_ret;
}

/* user filter policy (abstract) */
ldb_bloom_t g_up;
int g_up_builds, g_up_matches, g_up_ret;
ldb_buffer_t *g_up_dst; const ldb_slice_t *g_up_keys; size_t g_up_len;
size_t g_j; size_t g_jsize; const uint8_t *g_jdata;    /* ghost index into keys[]: size / data before the call */
const ldb_slice_t *g_up_filter; const uint8_t *g_up_kd; size_t g_up_kn;

static void stub_ubuild(const ldb_bloom_t *b, ldb_buffer_t *dst, const ldb_slice_t *keys, size_t length) {
  __CPROVER_assert(b == &g_up, "ifp: the user policy is called with itself as context");
  __CPROVER_assert(dst == g_up_dst, "ifp_build: the filter is appended to the caller's destination");
  __CPROVER_assert(length == g_up_len, "ifp_build: the user policy gets the same number of keys");
  __CPROVER_assert(keys == g_up_keys, "ifp_build: the user policy gets the keys in the same order (same array)");
  if (g_j < length)
    __CPROVER_assert(keys[g_j].size == g_jsize - 8 && keys[g_j].data == g_jdata,
                     "ifp_build: every key handed to the user policy is the internal key minus exactly its 8-byte trailer");
  g_up_builds++;
}
static int stub_umatch(const ldb_bloom_t *b, const ldb_slice_t *filter, const ldb_slice_t *key) {
  __CPROVER_assert(b == &g_up, "ifp: the user policy is called with itself as context");
  __CPROVER_assert(filter == g_up_filter, "ifp_match: the filter is passed through unchanged");
  __CPROVER_assert(__CPROVER_r_ok(key, sizeof(*key)) && key->data == g_up_kd && key->size == g_up_kn,
                   "ifp_match: the probe handed to the user policy is the internal key minus exactly its 8-byte trailer (as in ifp_build)");
  g_up_matches++;
  return g_up_ret;
}

#include "util/buffer.c"
#include "util/comparator.c"
#include "dbformat.c"

#define SEEK_TAG ((((uint64_t)1 << 56) - 1) << 8 | 1)     /* pack(kMaxSequenceNumber, kValueTypeForSeek) */
#define SZ_MAX ((size_t)1 << 40)

static void uc_setup(void) {
  g_uc.name = "model"; g_uc.compare = stub_ucmp; g_uc.shortest_separator = stub_usep; g_uc.short_successor = stub_usucc;
  g_uc.user_comparator = NULL; g_uc.state = NULL;
  g_sep_calls = g_succ_calls = g_cmp_calls = 0; g_tmp = NULL; g_tmp_data = NULL; g_cand_n = 0;
}

/* common postconditions of separator / successor (S2, S3) */
#define POST_SHORTEN(key, what) do { \
  int shortened = (g_cand_n < g_ksize - 8) && g_cmp_ret < 0; \
  CHECK(g_cmp_calls == ((g_cand_n < g_ksize - 8) ? 1 : 0), what ": the logical test is made exactly when the candidate is physically shorter"); \
  if (shortened) { \
    CHECK((key).size == g_cand_n + 8, what ": a shortened key is the candidate plus exactly 8 tag bytes"); \
    CHECK((key).size <= (key).alloc && __CPROVER_rw_ok((key).data, (key).alloc) && !__CPROVER_same_object((key).data, g_kdata), what ": the shortened key is a valid owned buffer, not the old storage"); \
    CHECK(!(g_k < g_cand_n) || (key).data[g_k] == g_cand_k, what ": the user part of a shortened key is the candidate, byte for byte"); \
    CHECK(IS_LE64((key).data + g_cand_n, SEEK_TAG), what ": the tag of a shortened key is pack(kMaxSequenceNumber, kValueTypeForSeek) = 01 ff ff ff ff ff ff ff, little-endian"); \
  } else { \
    CHECK((key).data == g_kdata && (key).size == g_ksize && (key).alloc == g_kalloc, what ": a key that is not shortened keeps pointer, length and capacity"); \
    CHECK(!(g_k < g_ksize) || (key).data[g_k] == g_key_k, what ": a key that is not shortened keeps its bytes"); \
  } \
} while (0)

#define MK_KEY(key, sn, sa, cap) \
  ASSUME((sn) >= 8 && (sn) <= (sa) && (sa) < (cap)); \
  (key).data = malloc(sa); ASSUME((key).data != NULL); (key).size = (sn); (key).alloc = (sa); \
  g_key = &(key); g_kdata = (key).data; g_ksize = (sn); g_kalloc = (sa); \
  g_key_k = (g_k < (sn)) ? (key).data[g_k] : 0

/* ============================================================ ikc.separator */
static int sep_body(size_t cap) {
  ldb_comparator_t ikc; ldb_buffer_t start; ldb_slice_t limit; uint8_t *lb; uint8_t lim_k;
  IN_SIZE(in_sn); IN_SIZE(in_sa); IN_SIZE(in_ln); IN_SIZE(in_k); IN_INT(in_ucmp);
  g_k = in_k; g_cmp_ret = in_ucmp; g_with_limit = 1;
  MK_KEY(start, in_sn, in_sa, cap);
  ASSUME(in_ln >= 8 && in_ln < cap);
  lb = malloc(in_ln); ASSUME(lb != NULL);
  limit.data = lb; limit.size = in_ln; limit.alloc = 0; g_ldata = lb; g_lsize = in_ln;
  lim_k = (g_k < in_ln) ? lb[g_k] : 0;
  uc_setup();
  ldb_ikc_init(&ikc, &g_uc);
  CHECK(ikc.compare == ldb_ikc_compare && ikc.user_comparator == &g_uc && ikc.shortest_separator == ldb_ikc_shortest_separator &&
        ikc.short_successor == ldb_ikc_short_successor, "ikc_init: internal compare / separator / successor bound over the user comparator");

  ldb_ikc_shortest_separator(&ikc, &start, &limit);

  CHECK(g_sep_calls == 1 && g_succ_calls == 0, "separator: the user comparator's shortest_separator is consulted exactly once");
  POST_SHORTEN(start, "separator");
  CHECK(limit.data == lb && limit.size == in_ln && (!(g_k < in_ln) || lb[g_k] == lim_k), "separator: limit is never modified");
  /* S4: with --memory-leak-check, everything the function allocated and did not hand over must have been freed */
  free(start.data); free(lb);
  return in_sa <= 64 && in_ln <= 64;
}
/* the canary is placed on the small instances only: a counterexample trace over 2^40-byte objects exhausts CBMC's JSON
 * printer ("Out of memory"); the obligations themselves are proved for all sizes.  For the same reason the twins *_b
 * (capacity <= 32) exist: a violation there yields a printable counterexample. */
void h_sep(void) { if (sep_body(SZ_MAX)) { CANARY(); } }
void h_sep_b(void) { if (sep_body(33)) { CANARY(); } }

/* ============================================================ ikc.successor */
static int succ_body(size_t cap) {
  ldb_comparator_t ikc; ldb_buffer_t key;
  IN_SIZE(in_sn); IN_SIZE(in_sa); IN_SIZE(in_k); IN_INT(in_ucmp);
  g_k = in_k; g_cmp_ret = in_ucmp; g_with_limit = 0; g_ldata = NULL; g_lsize = 0;
  MK_KEY(key, in_sn, in_sa, cap);
  uc_setup();
  ldb_ikc_init(&ikc, &g_uc);

  ldb_ikc_short_successor(&ikc, &key);

  CHECK(g_succ_calls == 1 && g_sep_calls == 0, "successor: the user comparator's short_successor is consulted exactly once");
  POST_SHORTEN(key, "successor");
  free(key.data);
  return in_sa <= 64;
}
void h_succ(void) { if (succ_body(SZ_MAX)) { CANARY(); } }
void h_succ_b(void) { if (succ_body(33)) { CANARY(); } }

/* ikc_init with a user comparator that has no shortening: the internal comparator must not offer one either
 * (ldb_ikc_shortest_separator would otherwise append a tag to an unshortened copy - harmless - but table builders
 * test the pointer to decide whether index keys are shortened at all) */
void h_init_none(void) {
  ldb_comparator_t ikc; int has_sep = nondet_int() ? 1 : 0, has_succ = nondet_int() ? 1 : 0;
  uc_setup();
  if (!has_sep) g_uc.shortest_separator = NULL;
  if (!has_succ) g_uc.short_successor = NULL;
  ldb_ikc_init(&ikc, &g_uc);
  CHECK(ikc.compare == ldb_ikc_compare && ikc.user_comparator == &g_uc && ikc.state == NULL, "ikc_init: compare and user comparator bound");
  CHECK((ikc.shortest_separator == ldb_ikc_shortest_separator) == has_sep && (ikc.shortest_separator == NULL) == !has_sep,
        "ikc_init: offers key separation iff the user comparator does");
  CHECK((ikc.short_successor == ldb_ikc_short_successor) == has_succ && (ikc.short_successor == NULL) == !has_succ,
        "ikc_init: offers successor shortening iff the user comparator does");
  CANARY();
}

/* =================================================== bounded: real bytewise comparator, ordering conclusion */
#define BW_MAX 4      /* user key bytes */
static int ik_cmp(const ldb_comparator_t *ikc, const uint8_t *x, size_t xn, const uint8_t *y, size_t yn) {
  ldb_slice_t a, b; a.data = (uint8_t *)x; a.size = xn; a.alloc = 0; b.data = (uint8_t *)y; b.size = yn; b.alloc = 0;
  return ldb_ikc_compare(ikc, &a, &b);
}
void h_sep_bw(void) {
  ldb_comparator_t ikc; ldb_buffer_t start; ldb_slice_t limit; uint8_t old[BW_MAX + 8];
  IN_SIZE(in_sn); IN_SIZE(in_ln); IN_SIZE(in_q); IN_BYTES(in_l, BW_MAX + 8);
  ASSUME(in_sn >= 8 && in_sn <= BW_MAX + 8 && in_ln >= 8 && in_ln <= BW_MAX + 8);
  start.data = malloc(BW_MAX + 8); ASSUME(start.data != NULL); start.size = in_sn; start.alloc = BW_MAX + 8;   /* arbitrary content */
  memcpy(old, start.data, BW_MAX + 8);
  limit.data = in_l; limit.size = in_ln; limit.alloc = 0;
  ldb_ikc_init(&ikc, ldb_bytewise_comparator);
  CHECK(ikc.shortest_separator == ldb_ikc_shortest_separator && ikc.short_successor == ldb_ikc_short_successor, "ikc_init over the bytewise comparator offers both shortenings");
  ASSUME(ik_cmp(&ikc, old, in_sn, in_l, in_ln) < 0);     /* the table builder calls it with last key of block < first key of next block */

  ldb_ikc_shortest_separator(&ikc, &start, &limit);

  CHECK(start.size >= 8 && start.size <= in_sn, "separator (bytewise): the result is an internal key, never longer than start");
  CHECK(ik_cmp(&ikc, old, in_sn, start.data, start.size) <= 0, "C16 separator (bytewise): start <= index key in internal order (every key of the block is <= its index key)");
  CHECK(ik_cmp(&ikc, start.data, start.size, in_l, in_ln) < 0, "C16 separator (bytewise): index key < limit in internal order (every key of the next block is > the index key)");
  if (start.size != in_sn) CHECK(IS_LE64(start.data + start.size - 8, SEEK_TAG), "separator (bytewise): a shortened key carries pack(kMaxSequenceNumber, kValueTypeForSeek)");
  else CHECK(!(in_q < in_sn) || start.data[in_q] == old[in_q], "separator (bytewise): a key of unchanged length is unchanged (tag included)");
  free(start.data);
  CANARY();
}
void h_succ_bw(void) {
  ldb_comparator_t ikc; ldb_buffer_t key; uint8_t old[BW_MAX + 8];
  IN_SIZE(in_sn); IN_SIZE(in_q);
  ASSUME(in_sn >= 8 && in_sn <= BW_MAX + 8);
  key.data = malloc(BW_MAX + 8); ASSUME(key.data != NULL); key.size = in_sn; key.alloc = BW_MAX + 8;   /* arbitrary content */
  memcpy(old, key.data, BW_MAX + 8);
  ldb_ikc_init(&ikc, ldb_bytewise_comparator);

  ldb_ikc_short_successor(&ikc, &key);

  CHECK(key.size >= 8 && key.size <= in_sn, "successor (bytewise): the result is an internal key, never longer than the key");
  CHECK(ik_cmp(&ikc, old, in_sn, key.data, key.size) <= 0, "C16 successor (bytewise): key <= index key of the last block in internal order");
  if (key.size != in_sn) CHECK(IS_LE64(key.data + key.size - 8, SEEK_TAG), "successor (bytewise): a shortened key carries pack(kMaxSequenceNumber, kValueTypeForSeek)");
  else CHECK(!(in_q < in_sn) || key.data[in_q] == old[in_q], "successor (bytewise): a key of unchanged length is unchanged (tag included)");
  free(key.data);
  CANARY();
}

/* ============================================================ ikc.ifp_build */
/* InternalFilterPolicy::CreateFilter: the user policy sees user keys only.  Arbitrary number of keys; one arbitrary
 * key (ghost index g_j) is tracked through the trimming loop (loop contract in loops/ikc.json). */
size_t g_len;
void h_ifp_build(void) {
  ldb_bloom_t ifp; ldb_buffer_t dst; ldb_slice_t *keys;
  IN_SIZE(in_len); IN_SIZE(in_j); IN_SIZE(in_jsize);
  ASSUME(in_len < ((size_t)1 << 32));
  keys = malloc((in_len + 1) * sizeof(ldb_slice_t)); ASSUME(keys != NULL);
  g_up.name = "model.policy"; g_up.build = stub_ubuild; g_up.match = stub_umatch; g_up.bits_per_key = 0; g_up.k = 0; g_up.user_policy = NULL; g_up.state = NULL;
  g_up_builds = 0; g_up_matches = 0;
  ldb_ifp_init(&ifp, &g_up);
  CHECK(ifp.build == ldb_ifp_build && ifp.match == ldb_ifp_match && ifp.user_policy == &g_up, "ifp_init: build / match bound over the user policy");
  CHECK(ifp.name == g_up.name, "ifp_init: the internal policy reports the USER policy's name (the name stored in the table's filter meta key)");
  dst.data = NULL; dst.size = 0; dst.alloc = 0;
  g_up_dst = &dst; g_up_keys = keys; g_up_len = in_len; g_len = in_len;
  g_j = in_j;
  if (in_j < in_len) { ASSUME(in_jsize >= 8 && keys[in_j].size == in_jsize); g_jsize = in_jsize; g_jdata = keys[in_j].data; }

  ldb_ifp_build(&ifp, &dst, keys, in_len);

  CHECK(g_up_builds == 1, "ifp_build: the user policy builds exactly one filter for the key set");
  if (in_j < in_len) CHECK(keys[in_j].data == g_jdata, "ifp_build: key pointers are left alone");
  CANARY();
}

/* ============================================================ ikc.ifp_match */
void h_ifp_match(void) {
  ldb_bloom_t ifp; ldb_slice_t filter, key; int r;
  IN_SIZE(in_kn); IN_INT(in_ret);
  IN_BUF(kb, in_kn);
  ASSUME(in_kn >= 8);
  g_up.name = "model.policy"; g_up.build = stub_ubuild; g_up.match = stub_umatch; g_up.bits_per_key = 0; g_up.k = 0; g_up.user_policy = NULL; g_up.state = NULL;
  g_up_builds = 0; g_up_matches = 0; g_up_ret = in_ret;
  ldb_ifp_init(&ifp, &g_up);
  filter.data = NULL; filter.size = 0; filter.alloc = 0;
  key.data = kb; key.size = in_kn; key.alloc = 0;
  g_up_filter = &filter; g_up_kd = kb; g_up_kn = in_kn - 8;

  r = ldb_ifp_match(&ifp, &filter, &key);

  CHECK(g_up_matches == 1 && g_up_builds == 0, "ifp_match: the user policy is asked exactly once");
  CHECK(r == in_ret, "ifp_match: the user policy's answer is returned unchanged (a present key is rejected only if the user policy rejects it)");
  CHECK(key.data == kb && key.size == in_kn, "ifp_match: the probe key itself is not modified");
  CANARY();
}

/* ================================================================= ikc.ikey */
/* one-line wrappers over buffer.c: what matters is which buffer function is called with which arguments in which order;
 * the buffer functions are used through their contracts (contracts/buf.h, enforced in group buf) */
void h_ikey(void) {
  ldb_ikey_t a, b, e; uint8_t *bd;
  IN_SIZE(in_bn); IN_SIZE(in_k);
  ASSUME(in_bn <= BUF_CONTENT_MAX);
  g_bcontent = 1; g_bj = 0; g_bold = 0; g_bk = in_k;
  ldb_ikey_init(&a);
  CHECK(a.data == NULL && a.size == 0 && a.alloc == 0, "ikey_init: the empty key");
  bd = malloc(in_bn + 1); ASSUME(bd != NULL);
  b.data = bd; b.size = in_bn; b.alloc = in_bn + 1;
  ldb_ikey_copy(&a, &b);
  CHECK(a.size == in_bn && (!(in_k < in_bn) || a.data[in_k] == bd[in_k]), "ikey_copy: destination (first argument) becomes a copy of the source");
  CHECK(b.data == bd && b.size == in_bn, "ikey_copy: the source is left alone");
  ldb_buffer_init(&e);
  ldb_ikey_export(&e, &b);
  CHECK(e.size == V32_SIZE(in_bn) + in_bn && LPS_PREFIX_IS(e.data, in_bn) && (!(in_k < in_bn) || e.data[V32_SIZE(in_bn) + in_k] == bd[in_k]),
        "ikey_export: appends the key as a length-prefixed slice (varint32 length, then the bytes) - the VersionEdit encoding of file boundaries");
  ldb_ikey_clear(&a);
  CHECK(a.data == NULL && a.size == 0 && a.alloc == 0, "ikey_clear: storage released, the empty key again");
  ldb_buffer_clear(&e);
  free(bd);
  CANARY();
}
