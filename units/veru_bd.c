/* units/veru_bd.c - boundary-file search on lists of ANY length (group "veru")
 *   ver.boundary.largest.u    find_largest_key
 *   ver.boundary.smallest.u   find_smallest_boundary_file
 *   ver.boundary.add.u        add_boundary_inputs: closure (afterwards no file of the level is a boundary file of the set) and
 *                             termination (decreases clause on the while(search) loop)
 * Skolem-witness form of the ghost-index method: the tracked position is DEFINED as the answer - g_ck is the position of the
 * FIRST file with the maximal largest key, g_k the position of the FIRST file with the minimal smallest key among the
 * boundary files of the probe (g_k == g_n: there is none).  Every list has such a position, so nothing is lost.  What
 * "first maximum" / "first minimal boundary file" means is spelled out on an arbitrary second tracked file and on the
 * window g_fo that stands for every untracked file (before the witness: strictly worse, after it: not better); the unit
 * proves that the function returns exactly the witness.
 */
#include "units/veru_model.h"
static void push_other_hook(void) { __CPROVER_assert(0, "add_boundary_inputs: only the boundary file just found is appended"); }

#define KEYLT(au, at, bu, bt) LT_(au, at, bu, bt)
/* a <_ik b on (user rank, tag) of largest keys */
#define L_LT(a, b) LT_(LU(a), LT(a), LU(b), LT(b))
#define L_LE(a, b) (!L_LT(b, a))
#define S_LT(a, b) LT_(SU(a), ST(a), SU(b), ST(b))
#define S_LE(a, b) (!S_LT(b, a))

/* ---------------------------------------------------------------- ver.boundary.largest.u */
/* g_ck is the position of the first file whose largest key is maximal */
#define FIRSTMAX_FACTS ((g_cn == 0 ? g_ck == 0 : g_ck < g_cn) && g_cj <= g_cn && (g_cj != g_ck || g_cj == g_cn) && SHAPE(g_fc) && SHAPE(g_fcj) && SHAPE(g_fo) && \
  (g_cj >= g_cn || (g_cj < g_ck ? L_LT(g_fcj, g_fc) : L_LE(g_fcj, g_fc))) && L_LE(g_fo, g_fc) && (g_ck == 0 || L_LT(g_fo, g_fc)))
int c_find_largest_key_u(const ldb_comparator_t *icmp, const ldb_vector_t *files, ldb_slice_t *largest_key)
__CPROVER_requires(icmp == &g_vset.icmp && files == g_cfiles && __CPROVER_r_ok(files, sizeof(*files)) && files->length == g_cn && g_cn <= NMAX && __CPROVER_w_ok(largest_key, sizeof(*largest_key)))
__CPROVER_requires(FIRSTMAX_FACTS)
__CPROVER_assigns(*largest_key, FO_WINDOW, CMP_GHOST)
__CPROVER_ensures(FO_TOKENS)
__CPROVER_ensures(__CPROVER_return_value == (g_cn > 0 ? 1 : 0))
/* the result is (a copy of) the largest key of a file none of whose peers has a larger one */
__CPROVER_ensures(g_cn == 0 || (largest_key->data == g_fc.largest.data && largest_key->size == g_fc.largest.size && largest_key->alloc == g_fc.largest.alloc))
;
static void **mk_citems(size_t n, size_t k, size_t j) {
  void **items = malloc(n * sizeof(void *));
  __CPROVER_assume(items != NULL);
  __CPROVER_array_set(items, (void *)&g_fo);
  if (j < n) items[j] = &g_fcj;
  if (k < n) items[k] = &g_fc;
  return items;
}
void h_find_largest_key_u(void) {
  IN_SIZE(in_n); IN_SIZE(in_k); IN_SIZE(in_j);
  ASSUME(in_n <= NMAX);
  mk_world();
  mk_file(&g_fc, g_tok + 10, g_tok + 11); mk_file(&g_fcj, g_tok + 12, g_tok + 13);
  g_cn = in_n; g_ck = in_k; g_cj = in_j;
  ASSUME(FIRSTMAX_FACTS);
  g_ver.files[1].items = mk_citems(in_n, in_k, in_j); g_ver.files[1].length = in_n; g_ver.files[1].alloc = in_n;
  g_cfiles = &g_ver.files[1];
  find_largest_key(&g_vset.icmp, &g_ver.files[1], &g_out);
  CANARY();
}

/* ---------------------------------------------------------------- ver.boundary.smallest.u */
/* file f starts with the probe key's user key at a larger internal key (an older version of that user key) */
#define ISB(f) (SU(f) == g_kuk && LT_(g_kuk, g_ktag, SU(f), ST(f)))
#define FK_TOKENS (g_fk.smallest.data == TOK_KS && g_fk.largest.data == TOK_KL)
/* g_k is the position of the first boundary file whose smallest key is minimal; g_k == g_n: no boundary file */
#define BOUNDARY_FACTS (FK_TOKENS && g_k <= g_n && g_j <= g_n && (g_j != g_k || g_j == g_n) && SHAPE(g_fk) && SHAPE(g_fj) && SHAPE(g_fo) && \
  (g_k >= g_n || (ISB(g_fk) && WF(g_fk))) && \
  (g_j >= g_n || !ISB(g_fj) || (g_k < g_n && (g_j < g_k ? S_LT(g_fk, g_fj) : S_LE(g_fk, g_fj)))) && \
  1)
/* ... and every untracked file (window) is no better: not a boundary file, or starts later (strictly, before the witness) */
#define BOUNDARY_WINDOW (!ISB(g_fo) || (g_k < g_n && S_LE(g_fk, g_fo) && (g_k == 0 || S_LT(g_fk, g_fo))))
ldb_filemeta_t *c_find_smallest_boundary_u(const ldb_comparator_t *icmp, const ldb_vector_t *level_files, const ldb_ikey_t *largest_key)
__CPROVER_requires(icmp == &g_vset.icmp && g_lvl >= 0 && g_lvl < LDB_NUM_LEVELS && level_files == &g_ver.files[g_lvl] && g_ver.files[g_lvl].length == g_n && g_n <= NMAX)
__CPROVER_requires(__CPROVER_r_ok(largest_key, sizeof(*largest_key)) && largest_key->size >= 8 && largest_key->size - 8 == g_kuk && largest_key->alloc == g_ktag && g_kuk < RMAX && g_ktag <= TAGMAX)
/* the caller fixed the witness (enforcing unit), or leaves the choice to the contract: then EVERY (g_k, g_fk) satisfying the facts is considered */
__CPROVER_requires(!g_world_fixed || (BOUNDARY_FACTS && BOUNDARY_WINDOW))
__CPROVER_assigns(FO_WINDOW, CMP_GHOST)
__CPROVER_ensures(FO_TOKENS)
__CPROVER_assigns(!g_world_fixed: g_k, g_fk)
__CPROVER_ensures(BOUNDARY_FACTS)
__CPROVER_ensures(__CPROVER_return_value == (g_k < g_n ? &g_fk : (ldb_filemeta_t *)NULL))
;
void h_find_smallest_boundary_u(void) {
  IN_SIZE(in_n); IN_SIZE(in_k); IN_SIZE(in_j);
  static ldb_ikey_t key;
  ASSUME(in_n <= NMAX);
  mk_world();
  g_n = in_n; g_k = in_k; g_j = in_j; g_lvl = 1; g_world_fixed = 1;
  g_kuk = nondet_size(); g_ktag = nondet_u64(); ASSUME(g_kuk < RMAX && g_ktag <= TAGMAX);
  key.data = TOK_KEY; key.size = g_kuk + 8; key.alloc = g_ktag;
  ASSUME(BOUNDARY_FACTS && BOUNDARY_WINDOW);
  g_ver.files[1].items = mk_items(in_n, in_k, in_j); g_ver.files[1].length = in_n; g_ver.files[1].alloc = in_n;
  find_smallest_boundary_file(&g_vset.icmp, &g_ver.files[1], &key);
  CANARY();
}

/* ---------------------------------------------------------------- ver.boundary.add.u */
static void icmp_hook(const ldb_slice_t *x, const ldb_slice_t *y, int res) { (void)x; (void)y; (void)res; }
static void push_hook(const void *x) {
  const ldb_filemeta_t *f = x;
  __CPROVER_assert(x == (const void *)&g_fk, "add_boundary_inputs: every element added is a file of the level (the boundary file just found)");
  __CPROVER_assert(LT_(g_kuk, g_ktag, SU(*f), ST(*f)), "add_boundary_inputs: no file is added twice (the added file starts after the largest key of the set; every member ends at or before it)");
  /* the set's largest key is now the added file's largest key (verified by the loop invariant and by the precondition of the next search) */
  g_kuk = LU(*f); g_ktag = LT(*f);
}
void h_add_boundary_inputs_u(void) {
  IN_SIZE(in_n); IN_SIZE(in_cn); IN_SIZE(in_j); IN_SIZE(in_a);
  size_t k0;
  ASSUME(in_n <= NMAX && in_cn <= NMAX && in_j <= in_n);
  mk_world();
  mk_file(&g_fc, g_tok + 10, g_tok + 11); mk_file(&g_fcj, g_tok + 12, g_tok + 13);
  /* the level: in_n files; g_fj is an arbitrary one of them; the boundary witness (g_k, g_fk) is picked by the search contract */
  g_n = in_n; g_j = in_j; g_k = in_n; g_lvl = 1; g_world_fixed = 0;
  g_ver.files[1].items = NULL; g_ver.files[1].length = in_n; g_ver.files[1].alloc = in_n;
  /* the compaction set: in_cn files of which g_fc has the (first) maximal largest key; content never read by add_boundary_inputs itself */
  g_cn = in_cn; g_cn0 = in_cn; g_ck = nondet_size(); g_cj = nondet_size();
  ASSUME(FIRSTMAX_FACTS);
  g_cfv.items = malloc(in_cn * sizeof(void *)); ASSUME(g_cfv.items != NULL);
  g_cfv.length = in_cn; g_cfv.alloc = in_cn; g_cfiles = &g_cfv; g_vec = &g_cfv; g_store_unbounded = 1;
  ASSUME(in_a < in_cn || in_cn == 0);
  g_ca = in_a; g_caval = in_cn > 0 ? g_cfv.items[in_a] : NULL;
  g_kuk = LU(g_fc); g_ktag = LT(g_fc);   /* largest key of the given set */
  k0 = g_cfv.length;
  add_boundary_inputs(&g_vset.icmp, &g_ver.files[1], &g_cfv);
  CHECK(g_cfv.length - k0 == g_pushes && g_pk == g_pushes && g_resets == 0, "add_boundary_inputs: only grows the set, by files of the level, each at most once");
  CHECK(in_cn == 0 || g_cfv.items[in_a] == g_caval, "add_boundary_inputs: the given inputs stay in place");
  CHECK(in_cn > 0 || g_pushes == 0, "add_boundary_inputs: an empty set gets no boundary file");
  /* g_kuk/g_ktag = largest key of the final set; g_fj = an arbitrary file of the level */
  CHECK(in_cn == 0 || in_j >= in_n || !(SU(g_fj) == g_kuk && LT_(g_kuk, g_ktag, SU(g_fj), ST(g_fj))),
        "add_boundary_inputs: no file left outside the set starts with the user key the set ends with at a larger internal key (an older version of that key would stay behind in the level)");
  CANARY();
}
