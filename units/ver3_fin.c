/* units/ver3_fin.c - compaction score of src/version_set.c (group "ver3": C14, C09)
 *
 *   ver3.total      total_file_size: the sum of the file sizes of a list (<= 3 files)
 *   ver3.maxbytes   max_bytes_for_level: 10 MiB for levels 0 and 1, ten times more per deeper level
 *   ver3.finalize   ldb_versions_finalize: best level / best score over the levels 0 .. NUM_LEVELS-2 (doubles, bit-precise)
 *                   + the integer facts other units rely on (level bound; score >= 1 <=> some level is over its limit)
 *   ver3.needs      ldb_versions_needs_compaction
 *   ver3.needs.fin  finalize followed by needs_compaction: the scheduling decision in integers
 *
 * The real version_set.c is included unmodified.  No comparator, no allocation is involved.
 */
#include "verif.h"
#include "version_set.c"

ldb_version_t nondet_version(void);
ldb_versions_t nondet_versions(void);
ldb_filemeta_t nondet_filemeta(void);

static ldb_versions_t g_vset; static ldb_version_t g_v; static ldb_dbopt_t g_opt;
#define TFN 3
static ldb_filemeta_t g_fm[LDB_NUM_LEVELS][TFN]; static void *g_fi[LDB_NUM_LEVELS][TFN];

/* ======================================================================================================
 * ver3.total - total_file_size
 * ====================================================================================================== */
#define TF_SZ(files, i) ((size_t)(i) < (files)->length ? ((const ldb_filemeta_t *)(files)->items[i])->file_size : (uint64_t)0)
/* the sum is accumulated in 64 bits (sizes are uint64_t, the result int64_t): exact whenever the true total is below 2^63 */
#define TF_SUM(files) ((int64_t)(TF_SZ(files, 0) + TF_SZ(files, 1) + TF_SZ(files, 2)))
#define TF_ITEM_OK(files, i) ((size_t)(i) >= (files)->length || __CPROVER_r_ok((const ldb_filemeta_t *)(files)->items[i], sizeof(ldb_filemeta_t)))
int64_t c3_total_file_size(const ldb_vector_t *files)
__CPROVER_requires(__CPROVER_r_ok(files, sizeof(*files)) && files->length <= TFN && __CPROVER_r_ok(files->items, TFN * sizeof(void *)))
__CPROVER_requires(TF_ITEM_OK(files, 0) && TF_ITEM_OK(files, 1) && TF_ITEM_OK(files, 2))
__CPROVER_assigns()
__CPROVER_ensures(__CPROVER_return_value == TF_SUM(files))
;
static void mk_files(int l, size_t n) {
  g_fm[l][0] = nondet_filemeta(); g_fm[l][1] = nondet_filemeta(); g_fm[l][2] = nondet_filemeta();
  g_fi[l][0] = &g_fm[l][0]; g_fi[l][1] = &g_fm[l][1]; g_fi[l][2] = &g_fm[l][2];
  g_v.files[l].items = g_fi[l]; g_v.files[l].length = n; g_v.files[l].alloc = TFN;
}
void h_total_file_size(void) {
  IN_SIZE(in_n);
  ASSUME(in_n <= TFN);
  g_v = nondet_version();
  mk_files(1, in_n);
  total_file_size(&g_v.files[1]);
  CANARY();
}

/* ======================================================================================================
 * ver3.maxbytes - max_bytes_for_level
 * ====================================================================================================== */
#define MB1 10485760.0          /* 10 * 1048576 */
#define MB2 104857600.0
#define MB3 1048576000.0
#define MB4 10485760000.0
#define MB5 104857600000.0
#define MB6 1048576000000.0
double c3_max_bytes_for_level(const ldb_dbopt_t *options, int level)
__CPROVER_requires(level >= 0 && level < LDB_NUM_LEVELS)
__CPROVER_assigns()
__CPROVER_ensures(__CPROVER_return_value == (level <= 1 ? MB1 : level == 2 ? MB2 : level == 3 ? MB3 : level == 4 ? MB4 : level == 5 ? MB5 : MB6))
;
void h_max_bytes(void) {
  IN_INT(in_level);
  ASSUME(in_level >= 0 && in_level < LDB_NUM_LEVELS);
  max_bytes_for_level(&g_opt, in_level);
  CANARY();
}

/* ======================================================================================================
 * ver3.finalize - ldb_versions_finalize
 * ====================================================================================================== */
#define FB(L) TF_SUM(&g_v.files[L])                       /* bytes of level L                                */
#define FN0 (g_v.files[0].length)                         /* files of level 0                                */
/* score of level L: level 0 by file count against the level-0 trigger (4), deeper levels by bytes against 10 MiB * 10^(L-1) */
#define FS0 ((double)FN0 / 4.0)
#define FS(L, M) ((double)FB(L) / (M))
#define SCORE_OF(l) ((l) == 0 ? FS0 : (l) == 1 ? FS(1, MB1) : (l) == 2 ? FS(2, MB2) : (l) == 3 ? FS(3, MB3) : (l) == 4 ? FS(4, MB4) : FS(5, MB5))
/* the same limits in integers */
#define OVER0 (FN0 >= 4)
#define OVER(L, MI) (FB(L) >= (int64_t)(MI))
#define ANY_OVER (OVER0 || OVER(1, 10485760) || OVER(2, 104857600) || OVER(3, 1048576000) || OVER(4, 10485760000) || OVER(5, 104857600000))
#define LEVEL_OVER(l) ((l) == 0 ? OVER0 : (l) == 1 ? OVER(1, 10485760) : (l) == 2 ? OVER(2, 104857600) : (l) == 3 ? OVER(3, 1048576000) : \
                       (l) == 4 ? OVER(4, 10485760000) : OVER(5, 104857600000))
#define FIN_WORLD (g_v.files[1].length <= TFN && g_v.files[2].length <= TFN && g_v.files[3].length <= TFN && g_v.files[4].length <= TFN && g_v.files[5].length <= TFN && \
                   g_v.files[1].items == g_fi[1] && g_v.files[2].items == g_fi[2] && g_v.files[3].items == g_fi[3] && g_v.files[4].items == g_fi[4] && g_v.files[5].items == g_fi[5])

/* (a) the integer reading - everything the scheduling decisions consume: ldb_versions_needs_compaction and
   ldb_versions_pick_compaction only test compaction_score >= 1 and use compaction_level */
void c3_versions_finalize(ldb_versions_t *vset, ldb_version_t *v)
__CPROVER_requires(vset == &g_vset && v == &g_v && FIN_WORLD)
__CPROVER_assigns(g_v.compaction_level, g_v.compaction_score)
/* the last level is never a compaction source; some level is always chosen */
__CPROVER_ensures(g_v.compaction_level >= 0 && g_v.compaction_level < LDB_NUM_LEVELS - 1)
/* no rounding can blur it: a compaction is due (score >= 1) iff level 0 holds >= 4 files or some level 1..5 holds at least its
   byte limit 10 MiB * 10^(level-1) ... */
__CPROVER_ensures((g_v.compaction_score >= 1) == (ANY_OVER ? 1 : 0))
/* ... and then the chosen level itself is over its limit, in particular not empty (ver.pick relies on that) */
__CPROVER_ensures(!(g_v.compaction_score >= 1) || (LEVEL_OVER(g_v.compaction_level) && g_v.files[g_v.compaction_level].length > 0))
/* a level that is under its limit is never preferred to one that is over */
__CPROVER_ensures(!ANY_OVER || LEVEL_OVER(g_v.compaction_level))
/* the shallowest level wins a tie; the exactly representable case: an empty version scores 0 everywhere and reports level 0
   (the general statement in doubles is ver3.finalize.score) */
__CPROVER_ensures(!(FN0 == 0 && FB(1) == 0 && FB(2) == 0 && FB(3) == 0 && FB(4) == 0 && FB(5) == 0) || (g_v.compaction_level == 0 && g_v.compaction_score == 0))
;
/* (b) the floating-point reading: the score is the score of the chosen level, the largest of all, the shallowest level winning a tie */
void c3_versions_finalize_score(ldb_versions_t *vset, ldb_version_t *v)
__CPROVER_requires(vset == &g_vset && v == &g_v && FIN_WORLD)
__CPROVER_assigns(g_v.compaction_level, g_v.compaction_score)
__CPROVER_ensures(g_v.compaction_level >= 0 && g_v.compaction_level < LDB_NUM_LEVELS - 1)
__CPROVER_ensures(g_v.compaction_score == SCORE_OF(g_v.compaction_level))
__CPROVER_ensures(FS0 <= g_v.compaction_score && FS(1, MB1) <= g_v.compaction_score && FS(2, MB2) <= g_v.compaction_score &&
                  FS(3, MB3) <= g_v.compaction_score && FS(4, MB4) <= g_v.compaction_score && FS(5, MB5) <= g_v.compaction_score)
__CPROVER_ensures((g_v.compaction_level <= 0 || FS0 < g_v.compaction_score) && (g_v.compaction_level <= 1 || FS(1, MB1) < g_v.compaction_score) &&
                  (g_v.compaction_level <= 2 || FS(2, MB2) < g_v.compaction_score) && (g_v.compaction_level <= 3 || FS(3, MB3) < g_v.compaction_score) &&
                  (g_v.compaction_level <= 4 || FS(4, MB4) < g_v.compaction_score))
;
static void mk_fin_world(void) {
  g_vset = nondet_versions(); g_v = nondet_version(); g_vset.options = &g_opt; g_v.vset = &g_vset;
  { size_t n1 = nondet_size(), n2 = nondet_size(), n3 = nondet_size(), n4 = nondet_size(), n5 = nondet_size();
    ASSUME(n1 <= TFN && n2 <= TFN && n3 <= TFN && n4 <= TFN && n5 <= TFN);
    mk_files(1, n1); mk_files(2, n2); mk_files(3, n3); mk_files(4, n4); mk_files(5, n5); }
  /* level 0: any number of files (only the count is read); level 6: anything (never read) */
}
void h_finalize(void) {
  mk_fin_world();
  ldb_versions_finalize(&g_vset, &g_v);
  CANARY();
}
void h_finalize_score(void) {
  mk_fin_world();
  ldb_versions_finalize(&g_vset, &g_v);
  CANARY();
}

/* ======================================================================================================
 * ver3.needs / ver3.needs.fin - ldb_versions_needs_compaction
 * ====================================================================================================== */
int c3_needs_compaction(const ldb_versions_t *vset)
__CPROVER_requires(vset == &g_vset && g_vset.current == &g_v)
__CPROVER_assigns()
__CPROVER_ensures(__CPROVER_return_value == ((g_v.compaction_score >= 1 || g_v.file_to_compact != NULL) ? 1 : 0))
;
void h_needs_compaction(void) {
  g_vset = nondet_versions(); g_v = nondet_version(); g_vset.current = &g_v;
  ldb_versions_needs_compaction(&g_vset);
  CANARY();
}
void h_needs_after_finalize(void) {
  int r;
  mk_fin_world();
  g_vset.current = &g_v;
  ldb_versions_finalize(&g_vset, &g_v);
  r = ldb_versions_needs_compaction(&g_vset);
  CHECK(r == ((ANY_OVER || g_v.file_to_compact != NULL) ? 1 : 0),
        "needs_compaction after finalize: true iff level 0 holds >= 4 files, or a level 1..5 holds >= 10 MiB * 10^(level-1) bytes, or a seek-exhausted file is pending");
  CHECK(g_v.compaction_level >= 0 && g_v.compaction_level < LDB_NUM_LEVELS - 1, "finalize: the level handed to pick_compaction has a level + 1");
  CANARY();
}
