/* units/envcur.c - ldb_set_current_file (src/filename.c): atomic switch of CURRENT
 * Properties: C02 (O6), C05 (R5), C17 ("CURRENT always names a complete MANIFEST"), C12.
 *
 * The real filename.c is included unmodified.  ldb_write_file / ldb_rename_file /
 * ldb_remove_file are ghost models that can fail; string formatting (sprintf,
 * ldb_encode_int, ldb_join) is modelled by tagged strings, so the proof is about
 * WHICH file is written with WHAT, in which order - not about decimal digits
 * (those are fn.* units).
 */
#include "verif.h"
#include <stdarg.h>
int nondet_int(void);

#include "filename.c"

unsigned long g_clock;
static unsigned long tick(void) { __CPROVER_assume(g_clock < (1ul << 40)); return ++g_clock; }
/* tagged strings: byte 0 identifies what the string is */
#define TAG_TMPNAME 'T'   /* <db>/<num>.dbtmp  */
#define TAG_CURNAME 'C'   /* <db>/CURRENT      */
#define TAG_ID      'I'   /* zero padded number */
#define TAG_MANLINE 'M'   /* "MANIFEST-<id>\n"  */
#define TAG_NUMEXT  'N'   /* "<id>.<ext>"       */
uint64_t g_id_value; int g_id_pad; uint64_t g_tmp_number; int g_tmp_is_dbtmp;
int g_man_from_id, g_man_format_ok;
int g_join_fail_tmp, g_join_fail_cur;
unsigned g_writes, g_renames, g_removes; int g_write_rc, g_rename_rc;
int g_write_name_tag, g_write_data_tag, g_write_sync; size_t g_write_size;
int g_rename_from_tag, g_rename_to_tag, g_remove_tag;
unsigned long g_t_write, g_t_rename, g_t_remove;

int ldb_encode_int(char *zp, uint64_t x, int pad) { zp[0] = TAG_ID; zp[1] = 0; g_id_value = x; g_id_pad = pad; return 6; }
int sprintf(char *str, const char *format, ...) {
  va_list ap; const char *a1;
  va_start(ap, format); a1 = va_arg(ap, const char *);
  if (format[0] == 'M') {
    /* "MANIFEST-%s\n" */
    g_man_format_ok = format[0] == 'M' && format[1] == 'A' && format[2] == 'N' && format[3] == 'I' && format[4] == 'F' && format[5] == 'E' && format[6] == 'S' && format[7] == 'T' &&
                      format[8] == '-' && format[9] == '%' && format[10] == 's' && format[11] == '\n' && format[12] == 0;
    g_man_from_id = (a1[0] == TAG_ID);
    str[0] = TAG_MANLINE; str[1] = 0;
  } else {
    /* "%s.%s" : id, extension */
    const char *ext = va_arg(ap, const char *);
    g_tmp_number = g_id_value;
    g_tmp_is_dbtmp = (a1[0] == TAG_ID) && ext[0] == 'd' && ext[1] == 'b' && ext[2] == 't' && ext[3] == 'm' && ext[4] == 'p' && ext[5] == 0;
    str[0] = TAG_NUMEXT; str[1] = 0;
  }
  va_end(ap);
  return 1;
}
int ldb_join(char *zp, size_t zn, const char *xp, const char *yp) {
  if (yp[0] == TAG_NUMEXT) { if (g_join_fail_tmp) return 0; zp[0] = TAG_TMPNAME; zp[1] = 0; return 1; }
  __CPROVER_assert(yp[0] == 'C' && yp[1] == 'U' && yp[2] == 'R' && yp[3] == 'R' && yp[4] == 'E' && yp[5] == 'N' && yp[6] == 'T' && yp[7] == 0, "the switched file is <db>/CURRENT");
  if (g_join_fail_cur) return 0;
  zp[0] = TAG_CURNAME; zp[1] = 0; return 1;
}
void ldb_slice_set_str(ldb_slice_t *z, const char *xp) { z->data = (uint8_t *)xp; z->size = 16; z->alloc = 0; }

int ldb_write_file(const char *fname, const ldb_slice_t *data, int should_sync) {
  g_writes++; g_write_name_tag = fname[0]; g_write_data_tag = ((const char *)data->data)[0]; g_write_sync = should_sync; g_write_size = data->size;
  g_write_rc = nondet_int(); if (g_write_rc == LDB_OK) g_t_write = tick();
  return g_write_rc;
}
int ldb_rename_file(const char *from, const char *to) {
  __CPROVER_assert(g_writes == 1 && g_write_rc == LDB_OK && g_write_sync, "O6: CURRENT is replaced only after the temp file was written AND fsynced successfully");
  g_renames++; g_rename_from_tag = from[0]; g_rename_to_tag = to[0];
  g_rename_rc = nondet_int(); if (g_rename_rc == LDB_OK) g_t_rename = tick();
  return g_rename_rc;
}
/* not called by the code under test today; a lenient model so that a change that syncs the directory reaches the semantic obligations */
unsigned g_dirsyncs;
int ldb_sync_dir(const char *dirname) { g_dirsyncs++; return nondet_int(); }
int ldb_remove_file(const char *fname) { g_removes++; g_remove_tag = fname[0]; g_t_remove = tick(); return nondet_int(); }

void h_set_current(void) {
  uint64_t num = 0; int rc;
  char dbname[2];
  dbname[0] = 'd'; dbname[1] = 0;
  num = (uint64_t)nondet_int(); __CPROVER_assume(num > 0);
  g_join_fail_tmp = nondet_int() ? 1 : 0; g_join_fail_cur = nondet_int() ? 1 : 0;
  g_writes = g_renames = g_removes = 0; g_clock = 0; g_man_from_id = g_man_format_ok = 0; g_tmp_is_dbtmp = 0;

  rc = ldb_set_current_file(dbname, num);

  if (rc == LDB_OK) {
    CHECK(g_writes == 1 && g_write_name_tag == TAG_TMPNAME && g_tmp_is_dbtmp && g_tmp_number == num, "the new content goes to the temp file <db>/<number>.dbtmp, never directly to CURRENT");
    CHECK(g_write_data_tag == TAG_MANLINE && g_man_format_ok && g_man_from_id && g_id_value == num && g_id_pad == 6, "content is exactly \"MANIFEST-<number padded to 6 digits>\\n\" (the trailing newline is what recovery checks for completeness)");
    CHECK(g_write_sync == 1, "O6: the temp file is written WITH fsync");
    CHECK(g_renames == 1 && g_rename_from_tag == TAG_TMPNAME && g_rename_to_tag == TAG_CURNAME && g_t_write < g_t_rename, "then it is renamed onto CURRENT (atomic replacement)");
    CHECK(g_removes == 0, "nothing is removed on success");
  } else {
    CHECK(g_renames == 0 || g_rename_rc != LDB_OK, "failure: CURRENT was not replaced");
    if (g_writes) CHECK(g_removes == 1 && g_remove_tag == TAG_TMPNAME, "failure: the temp file is removed, CURRENT is never removed");
    CHECK(g_remove_tag != TAG_CURNAME || g_removes == 0, "CURRENT itself is never unlinked");
  }
  CANARY();
}
