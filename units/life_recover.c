/* units/life_recover.c - ldb_recover, compare_ascending, ldb_new_db (src/db_impl.c)
 *   life.recover      : ldb_recover against the property-level spec (C05 R3/R4, C03 P2/P4, C13 G4, C20)
 *   life.recover_call : ldb_recover against the call carrier c_recover that life.open relies on
 *   life.newdb        : ldb_new_db against c_new_db (C02 O6, C20): MANIFEST-000001 written -> synced -> closed -> CURRENT
 *
 * The real db_impl.c is included unmodified.  Models (every call can fail):
 *  - ldb_lock_file / ldb_file_exists / ldb_get_children / ldb_parse_filename: the directory has at most
 *    LIFE_MAXDIR (4) entries, each with an arbitrary parse result (unparsable, or any type with any number);
 *  - ldb_versions_recover: arbitrary log_number / prev_log_number / last_sequence / save_manifest;
 *  - the recovered version names at most two table files (ldb_versions_add_files fills `expected`);
 *  - ldb_recover_log_file: ghost recording of (number, last_log flag), arbitrary status, arbitrary larger
 *    max_sequence, may demand a MANIFEST save, may hand back a reused log + memtable (last log only);
 *  - ldb_array_*: fixed-capacity array; the sort model is an insertion sort driven by the comparator the
 *    code passes (the real compare_ascending) - array.c's quicksort itself is not verified here.
 */
#include "verif.h"
int nondet_int(void);
uint64_t nondet_u64(void);
size_t nondet_size(void);

#include "db_impl.c"
#include "contracts/dbgc.h"
#include "contracts/life.h"

/* ---------------------------------------------------------- thread model */
void ldb_mutex_lock(ldb_mutex_t *m) { __CPROVER_assert(m == &g_db->mutex && !g_held, "lock: DB mutex not held"); g_held = 1; g_locks++; }
void ldb_mutex_unlock(ldb_mutex_t *m) { __CPROVER_assert(m == &g_db->mutex && g_held, "unlock: DB mutex held"); g_held = 0; g_unlocks++; }

/* ------------------------------------------------------------ env models */
void ldb_log(ldb_logger_t *logger, const char *fmt, ...) { }
const char *ldb_strerror(int code) { return "e"; }
int ldb_system_error(void) { int e = nondet_int(); __CPROVER_assume(e != LDB_OK); return e; }
int ldb_create_dir(const char *dirname) { RG.mkdirs++; return nondet_int(); }
int ldb_lock_filename(char *buf, size_t size, const char *dbname) { buf[0] = 'L'; buf[1] = 0; return nondet_int() ? 1 : 0; }
int ldb_current_filename(char *buf, size_t size, const char *dbname) { buf[0] = 'C'; buf[1] = 0; return nondet_int() ? 1 : 0; }
int ldb_lock_file(const char *filename, ldb_filelock_t **lock) {
  int rc = nondet_int();
  __CPROVER_assert(g_held, "recovery runs under the DB mutex");
  __CPROVER_assert(KG.lock_calls == 0 && !KG.locked, "the LOCK is taken once");
  __CPROVER_assert(lock == &g_db->db_lock, "the lock object is stored in the handle (so that close / failed open release it)");
  __CPROVER_assert(RG.exists_calls == 0 && NG.calls == 0 && RG.vrecover_calls == 0 && RG.children_calls == 0 && TG.n == 0,
                   "the LOCK is taken before the database is inspected, created or recovered");
  KG.lock_calls++; RG.lock_rc = rc;
  if (rc != LDB_OK) return rc;
  KG.locked = 1; *lock = g_lock_obj_p;
  return LDB_OK;
}
int ldb_file_exists(const char *filename) {
  __CPROVER_assert(KG.locked, "CURRENT is looked for only with the LOCK held");
  RG.exists_calls++;
  return RG.db_exists;
}
int ldb_versions_recover(ldb_versions_t *vset, int *save_manifest) {
  int rc = nondet_int();
  __CPROVER_assert(KG.locked && g_held && vset == g_db->versions, "the MANIFEST is read with the LOCK held");
  __CPROVER_assert(RG.db_exists || NG.cur_installed, "the MANIFEST is read only if CURRENT exists (it existed, or the database was just created successfully)");
  __CPROVER_assert(!(RG.db_exists && g_db->options.error_if_exists), "error_if_exists: an existing database is refused before anything is read");
  RG.vrecover_calls++; RG.vrecover_rc = rc;
  if (rc != LDB_OK) return rc;
  vset->log_number = nondet_u64(); vset->prev_log_number = nondet_u64(); vset->last_sequence = nondet_u64();
  vset->next_file_number = nondet_u64(); __CPROVER_assume(vset->next_file_number < (1ull << 62));
  RG.seq_manifest = vset->last_sequence;
  if (nondet_int()) *save_manifest = 1;   /* MANIFEST not reused */
  g_gc_allowed = 1;                       /* the on-disk version set is now known */
  return LDB_OK;
}
static char *g_names[LIFE_MAXDIR + 1];
int ldb_get_children(const char *path, char ***out) {
  __CPROVER_assert(KG.locked && RG.vrecover_calls == 1 && RG.vrecover_rc == LDB_OK, "the directory is listed after the MANIFEST was recovered, with the LOCK held");
  RG.children_calls++;
  if (RG.dlen < 0) return -1;
  *out = g_names;
  return RG.dlen;
}
void ldb_free_children(char **list, int len) { __CPROVER_assert(list == g_names && len == RG.dlen, "the listing is released"); RG.free_children++; }
int ldb_parse_filename(ldb_filetype_t *type, uint64_t *num, const char *name) {
  long i = name - g_name_base;
  __CPROVER_assert(__CPROVER_same_object(name, g_name_base) && i >= 0 && i < RG.dlen, "only names of the listing are parsed");
  __CPROVER_assert((unsigned)i == RG.parse_calls, "entries are examined once each, in directory order");
  RG.parse_calls++;
  if (!RG.parses[i]) return 0;
  *type = RG.type[i]; *num = RG.num[i];
  return 1;
}

/* the set of table numbers the recovered version names */
void ldb_rb_tree_init(rb_tree_t *tree, rb_cmp_f *compare, void *arg) { tree->size = 0; RG.set_inits++; }
void ldb_rb_tree_clear(rb_tree_t *tree, rb_clear_f *clear) { RG.set_clears++; }
void ldb_versions_add_files(ldb_versions_t *vset, rb_set64_t *live) {
  __CPROVER_assert(vset == g_db->versions && RG.set_inits == 1, "expected files = the tables of the recovered version");
  RG.addfiles_calls++;
  live->size = (size_t)RG.nexp;
  RG.exp_present[0] = RG.nexp >= 1; RG.exp_present[1] = RG.nexp >= 2;
}
int ldb_rb_set64_del(rb_tree_t *tree, uint64_t item) {
  int k;
  __CPROVER_assert(RG.addfiles_calls == 1, "files are ticked off after the expected set was filled");
  for (k = 0; k < 2; k++)
    if (RG.exp_present[k] && RG.exp[k] == item) { RG.exp_present[k] = 0; tree->size--; return 1; }
  return 0;
}

/* integer array (fixed capacity) */
void ldb_array_init(ldb_array_t *z) { z->items = malloc(LIFE_MAXDIR * sizeof(uint64_t)); __CPROVER_assume(z->items != NULL); z->length = 0; z->alloc = LIFE_MAXDIR; RG.arr_inits++; }
void ldb_array_clear(ldb_array_t *z) { free(z->items); RG.arr_clears++; }
void ldb_array_push(ldb_array_t *z, uint64_t x) { __CPROVER_assert(z->length < LIFE_MAXDIR, "at most one log per directory entry"); z->items[z->length++] = x; }
void ldb_array_sort(ldb_array_t *z, int (*cmp)(uint64_t, uint64_t)) {
  size_t i, j;
  __CPROVER_assert(TG.n == 0, "logs are sorted before the first one is replayed");
  RG.sorts++;
  for (i = 1; i < z->length; i++)
    for (j = i; j > 0 && cmp(z->items[j - 1], z->items[j]) > 0; j--) { uint64_t t = z->items[j]; z->items[j] = z->items[j - 1]; z->items[j - 1] = t; }
}

void ldb_versions_mark_file_number(ldb_versions_t *vset, uint64_t number) {
  __CPROVER_assert(TG.n >= 1 && TG.n <= LIFE_MAXDIR && RG.nmarked == TG.n - 1 && number == TG.replayed[TG.n - 1] && TG.rc[TG.n - 1] == LDB_OK,
                   "the allocator is moved past exactly the log that was just replayed successfully");
  RG.marked[RG.nmarked++] = number;
  if (vset->next_file_number <= number) vset->next_file_number = number + 1;   /* spec of ver.numbers */
}

/* ------------------------------------------------ new database (life.newdb) */
struct ldb_wfile_s { int dummy; };
static ldb_wfile_t g_mfile;
static unsigned long ntick(void) { __CPROVER_assume(NG.clock < (1ul << 40)); return ++NG.clock; }
int ldb_desc_filename(char *buf, size_t size, const char *dbname, uint64_t num) {
  NG.calls++;     /* first action of ldb_new_db */
  buf[0] = 'M'; buf[1] = 0; NG.desc_number = num; NG.name_ok = nondet_int() ? 1 : 0;
  return NG.name_ok;
}
int ldb_truncfile_create(const char *filename, ldb_wfile_t **file) {
  int rc = nondet_int();
  __CPROVER_assert(KG.locked, "files are created only with the LOCK held");
  NG.creates++;
  if (rc != LDB_OK) return rc;
  NG.create_ok++; NG.t_create = ntick(); *file = &g_mfile;
  return LDB_OK;
}
void ldb_edit_init(ldb_edit_t *edit) { NG.edit_inits++; edit->has_comparator = edit->has_log_number = edit->has_prev_log_number = edit->has_next_file_number = edit->has_last_sequence = 0; }
void ldb_edit_clear(ldb_edit_t *edit) { NG.edit_clears++; }
void ldb_edit_set_comparator_name(ldb_edit_t *edit, const char *name) { edit->has_comparator = 1; NG.edit_cmp_name = name; }
void ldb_edit_set_log_number(ldb_edit_t *edit, uint64_t num) { edit->has_log_number = 1; edit->log_number = num; }
void ldb_edit_set_prev_log_number(ldb_edit_t *edit, uint64_t num) { edit->has_prev_log_number = 1; edit->prev_log_number = num; }
void ldb_edit_set_next_file(ldb_edit_t *edit, uint64_t num) { edit->has_next_file_number = 1; edit->next_file_number = num; }
void ldb_edit_set_last_sequence(ldb_edit_t *edit, ldb_seqnum_t seq) { edit->has_last_sequence = 1; edit->last_sequence = seq; }
void ldb_writer_init(ldb_writer_t *lw, ldb_wfile_t *file, uint64_t length) {
  __CPROVER_assert(file == &g_mfile && length == 0 && NG.create_ok == 1, "the MANIFEST writer starts at offset 0 of the file just created (truncated)");
  lw->file = file; NG.winit++;
}
void ldb_buffer_init(ldb_buffer_t *z) { z->data = NULL; z->size = 0; z->alloc = 0; NG.buf_inits++; }
void ldb_buffer_clear(ldb_buffer_t *z) { NG.buf_clears++; }
void ldb_edit_export(ldb_buffer_t *z, const ldb_edit_t *edit) {
  NG.exports++;
  NG.x_has_cmp = edit->has_comparator; NG.x_cmp_name = NG.edit_cmp_name;
  NG.x_has_log = edit->has_log_number; NG.x_log = edit->log_number;
  NG.x_has_prev = edit->has_prev_log_number;
  NG.x_has_next = edit->has_next_file_number; NG.x_next = edit->next_file_number;
  NG.x_has_seq = edit->has_last_sequence; NG.x_seq = edit->last_sequence;
}
int ldb_writer_add_record(ldb_writer_t *lw, const ldb_slice_t *slice) {
  int rc = nondet_int();
  __CPROVER_assert(lw->file == &g_mfile && NG.winit == 1 && NG.exports == 1, "the exported edit is appended to the new MANIFEST");
  NG.appends++;
  if (rc == LDB_OK) { NG.append_ok++; NG.t_append = ntick(); }
  return rc;
}
int ldb_wfile_sync(ldb_wfile_t *file) {
  int rc = nondet_int();
  __CPROVER_assert(file == &g_mfile, "fsync of the new MANIFEST");
  NG.syncs++;
  if (rc == LDB_OK) { NG.sync_ok++; NG.t_sync = ntick(); }
  return rc;
}
int ldb_wfile_close(ldb_wfile_t *file) {
  int rc = nondet_int();
  __CPROVER_assert(file == &g_mfile && NG.fdestroy == 0, "close of the new MANIFEST, before the file object is released");
  NG.closes++;
  if (rc == LDB_OK) { NG.close_ok++; NG.t_close = ntick(); }
  return rc;
}
void ldb_wfile_destroy(ldb_wfile_t *file) { __CPROVER_assert(file == &g_mfile, "the MANIFEST file object is released"); NG.fdestroy++; }
int ldb_remove_file(const char *filename) {
  __CPROVER_assert(NG.fdestroy == 1, "the incomplete MANIFEST is unlinked after its descriptor was released");
  NG.removes++; NG.t_remove = ntick();
  return nondet_int();
}
int ldb_set_current_file(const char *dbname, uint64_t desc_number) {
  int rc = nondet_int();
  __CPROVER_assert(dbname == g_db->dbname, "CURRENT of this database");
  NG.setcur_calls++; NG.setcur_number = desc_number; NG.t_setcur = ntick();
  if (rc == LDB_OK) NG.cur_installed = 1;
  return rc;
}

static ldb_comparator_t g_ucmp;
static const char g_cmp_name[] = "verif.cmp";
static ldb_versions_t g_versions;

static ldb_t *life_db(void) {
  ldb_t *db = malloc(sizeof(ldb_t));
  __CPROVER_assume(db != NULL);
  g_db = db; db->versions = &g_versions;
  g_ucmp.name = g_cmp_name;
  db->internal_comparator.user_comparator = &g_ucmp;
  db->dbname[0] = 'd'; db->dbname[1] = 0;
  g_held = 1; g_locks = 1; g_unlocks = 0;
  return db;
}

void h_newdb(void) {
  ldb_t *db = life_db();
  ldb_new_db(db);
  CANARY();
}

/* -------------------------------------------------------------- recovery */
#define SHOULD_REPLAY(i, minlog, prevlog) (RG.parses[i] && RG.type[i] == LDB_FILE_LOG && (RG.num[i] >= (minlog) || RG.num[i] == (prevlog)))
#define PRESENT(n) ((RG.dlen > 0 && RG.parses[0] && RG.num[0] == (n)) || (RG.dlen > 1 && RG.parses[1] && RG.num[1] == (n)) || \
                    (RG.dlen > 2 && RG.parses[2] && RG.num[2] == (n)) || (RG.dlen > 3 && RG.parses[3] && RG.num[3] == (n)))
#define REPLAYED_HAS(x) ((TG.n > 0 && TG.replayed[0] == (x)) || (TG.n > 1 && TG.replayed[1] == (x)) || \
                        (TG.n > 2 && TG.replayed[2] == (x)) || (TG.n > 3 && TG.replayed[3] == (x)))

static void recover_inputs(ldb_t *db) {
  int i;
  g_lock_obj_p = malloc(1); __CPROVER_assume(g_lock_obj_p != NULL);
  g_rlogfile = malloc(1); g_rlog = malloc(1); g_rmem = malloc(1);
  __CPROVER_assume(g_rlogfile != NULL && g_rlog != NULL && g_rmem != NULL);
  g_name_base = malloc(LIFE_MAXDIR + 1); __CPROVER_assume(g_name_base != NULL);
  for (i = 0; i < LIFE_MAXDIR; i++) g_names[i] = g_name_base + i;   /* name i is the pointer base+i: distinct entries have distinct names */
  db->db_lock = NULL; db->mem = NULL; db->log = NULL; db->logfile = NULL;
  KG.locked = 0; KG.lock_calls = 0; KG.unlock_calls = 0;
  NG.calls = 0; NG.cur_installed = 0; NG.creates = NG.create_ok = NG.winit = NG.exports = NG.appends = NG.append_ok = NG.syncs = NG.sync_ok = 0;
  NG.closes = NG.close_ok = NG.fdestroy = NG.removes = NG.setcur_calls = 0; NG.clock = 0; NG.edit_inits = NG.edit_clears = NG.buf_inits = NG.buf_clears = 0;
  RG.mkdirs = RG.exists_calls = RG.vrecover_calls = RG.children_calls = RG.addfiles_calls = RG.set_inits = RG.set_clears = RG.arr_inits = RG.arr_clears = RG.sorts = RG.free_children = 0;
  TG.n = 0; RG.nmarked = 0; TG.maxseq = 0; TG.saved_by_replay = 0; RG.parse_calls = 0; RG.vrecover_rc = LDB_OK;
  g_gc_allowed = 0;
  __CPROVER_assume(RG.db_exists == 0 || RG.db_exists == 1);
  __CPROVER_assume(RG.dlen >= -1 && RG.dlen <= LIFE_MAXDIR);
  for (i = 0; i < LIFE_MAXDIR; i++) __CPROVER_assume((RG.parses[i] == 0 || RG.parses[i] == 1) && RG.type[i] >= LDB_FILE_LOG && RG.type[i] <= LDB_FILE_INFO &&
                                                     RG.num[i] < (1ull << 62));   /* file numbers on disk are far from wrapping the 64-bit allocator */
  __CPROVER_assume(RG.nexp >= 0 && RG.nexp <= 2 && RG.exp[0] != RG.exp[1]);
}

void h_recover(void) {
  ldb_t *db = life_db();
  ldb_edit_t *edit = malloc(sizeof(ldb_edit_t));
  int save_manifest = 0;
  int create, eie, rc, i, nshould = 0, missing;
  uint64_t minlog, prevlog;
  __CPROVER_assume(edit != NULL);
  recover_inputs(db);
  create = db->options.create_if_missing != 0; eie = db->options.error_if_exists != 0;

  rc = ldb_recover(db, edit, &save_manifest);

  minlog = g_versions.log_number; prevlog = g_versions.prev_log_number;
  CHECK(g_held && g_locks == 1 && g_unlocks == 0, "recover: runs entirely under the DB mutex");
  CHECK((db->db_lock != NULL) == (KG.locked == 1) && KG.unlock_calls == 0, "recover: the handle records the LOCK exactly when it holds it");
  CHECK(RG.set_inits == RG.set_clears && RG.arr_inits == RG.arr_clears && RG.free_children == (RG.children_calls == 1 && RG.dlen >= 0 ? 1u : 0u), "recover: bookkeeping released on every path");
  if (KG.lock_calls == 0 || RG.lock_rc != LDB_OK) {
    CHECK(rc != LDB_OK && !KG.locked && RG.exists_calls == 0 && NG.calls == 0 && RG.vrecover_calls == 0 && TG.n == 0, "LOCK not obtained: error returned, nothing inspected, created or recovered");
    if (KG.lock_calls) CHECK(rc == RG.lock_rc, "a busy or failed LOCK is reported with its own status");
  }
  if (rc == LDB_OK) CHECK(KG.locked, "OK only with the LOCK held");
  if (RG.exists_calls) {
    if (!RG.db_exists && !create) CHECK(rc == LDB_INVALID && NG.calls == 0 && RG.vrecover_calls == 0 && RG.children_calls == 0 && TG.n == 0, "missing database without create_if_missing: INVALID, nothing created, nothing recovered");
    if (RG.db_exists && eie) CHECK(rc == LDB_INVALID && NG.calls == 0 && RG.vrecover_calls == 0 && RG.children_calls == 0 && TG.n == 0, "existing database with error_if_exists: refused with INVALID, nothing read or modified");
    if (RG.db_exists) CHECK(NG.calls == 0, "an existing database is never re-created");
    if (!RG.db_exists && create) CHECK(NG.calls == 1, "missing database with create_if_missing: created");
    if (NG.calls && !NG.cur_installed) CHECK(rc != LDB_OK && RG.vrecover_calls == 0, "failed creation is reported, no recovery attempted");
  }
  if (RG.vrecover_calls) {
    CHECK(RG.vrecover_calls == 1, "the MANIFEST is recovered once");
    if (RG.vrecover_rc != LDB_OK) CHECK(rc == RG.vrecover_rc && RG.children_calls == 0 && TG.n == 0, "failed MANIFEST recovery (e.g. comparator mismatch: INVALID) is returned as is; no log is replayed");
  }
  if (RG.children_calls && RG.dlen < 0) CHECK(rc != LDB_OK && TG.n == 0, "unreadable directory: error, nothing replayed");
  if (RG.children_calls && RG.dlen >= 0) {
    CHECK(RG.parse_calls == (unsigned)RG.dlen, "every directory entry is examined");
    /* R3: every table of the recovered version must be on disk */
    missing = (RG.nexp >= 1 && !PRESENT(RG.exp[0])) || (RG.nexp >= 2 && !PRESENT(RG.exp[1]));
    if (missing) CHECK(rc == LDB_CORRUPTION && TG.n == 0, "a table named by the recovered version is missing from the directory: CORRUPTION, no log replayed");
    else {
      /* P2: logs replayed = { n : n >= log_number or n == prev_log_number }, ascending, each marked in the allocator */
      for (i = 0; i < LIFE_MAXDIR; i++) if (i < RG.dlen && SHOULD_REPLAY(i, minlog, prevlog)) nshould++;
      CHECK(TG.n <= (unsigned)nshould, "no log is replayed twice and none outside the recovery set");
      for (i = 0; i < LIFE_MAXDIR; i++) if ((unsigned)i < TG.n) {
        int k, found = 0;
        for (k = 0; k < LIFE_MAXDIR; k++) if (k < RG.dlen && SHOULD_REPLAY(k, minlog, prevlog) && RG.num[k] == TG.replayed[i]) found = 1;
        CHECK(found, "every replayed number is a log file of the directory with number >= log_number or == prev_log_number");
        CHECK(i == 0 || TG.replayed[i - 1] <= TG.replayed[i], "logs are replayed in ascending number order (the order in which they were written)");
        CHECK(TG.lastflag[i] == ((unsigned)i == (unsigned)nshould - 1), "only the newest log is flagged as last (candidate for reuse)");
        CHECK((unsigned)i + 1 == TG.n || TG.rc[i] == LDB_OK, "replay stops at the first failing log");
      }
      if (TG.n > 0 && TG.rc[TG.n - 1] != LDB_OK) {
        CHECK(rc == TG.rc[TG.n - 1], "a failing log replay ends recovery with that error");
        CHECK(RG.nmarked == TG.n - 1, "a log that failed to replay is not marked");
      } else {
        CHECK(rc == LDB_OK, "all expected tables present and every log replayed: recovery succeeds");
        CHECK(TG.n == (unsigned)nshould, "every log with number >= log_number or == prev_log_number is replayed");
        for (i = 0; i < LIFE_MAXDIR; i++) if (i < RG.dlen && SHOULD_REPLAY(i, minlog, prevlog)) CHECK(REPLAYED_HAS(RG.num[i]), "no log of the recovery set is skipped");
        CHECK(RG.nmarked == TG.n, "every replayed log number is marked in the file-number allocator");
        for (i = 0; i < LIFE_MAXDIR; i++) if ((unsigned)i < TG.n) CHECK(RG.marked[i] == TG.replayed[i] && g_versions.next_file_number > TG.replayed[i], "the allocator ends above every replayed log number (no file number is reused)");
        CHECK(g_versions.last_sequence == (RG.seq_manifest > TG.maxseq ? RG.seq_manifest : TG.maxseq), "last_sequence = max(MANIFEST value, largest sequence replayed): later writes win");
        CHECK(RG.sorts == 1, "the log list is sorted once");
      }
    }
  }
  if (rc == LDB_OK) {
    CHECK(RG.vrecover_calls == 1 && RG.children_calls == 1, "OK: MANIFEST recovered and directory checked");
    CHECK(g_gc_allowed || save_manifest == 1, "OK: either nothing recovered waits for a MANIFEST edit, or save_manifest is set");
    CHECK(!TG.saved_by_replay || save_manifest == 1, "a replay that produced a table forces the MANIFEST edit to be saved");
  }
  CANARY();
}

void h_recover_call(void) {
  ldb_t *db = life_db();
  ldb_edit_t *edit = malloc(sizeof(ldb_edit_t));
  int save_manifest = 0;
  __CPROVER_assume(edit != NULL);
  recover_inputs(db);
  ldb_recover(db, edit, &save_manifest);
  CANARY();
}
