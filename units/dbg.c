/* units/dbg.c - read path entry points of src/db_impl.c
 *   db.get      : ldb_get           (C01 K4, C04 A6, C06 S4, C11 D4)
 *   db.snapshot : ldb_snapshot / ldb_release + snapshot list (C06 S1, S5)
 *
 * The real db_impl.c (and snapshot.h) are included unmodified.  Memtables, the
 * version lookup and lookup keys are ghost models.  Thread model: whenever the
 * mutex is released, OTHER threads may replace db->mem / db->imm / the current
 * version and publish new sequence numbers - so anything the read uses after the
 * unlock must have been captured (and pinned) while the mutex was held.
 */
#include "verif.h"
int nondet_int(void);
uint64_t nondet_u64(void);

#include "db_impl.c"

ldb_t *g_db;
int g_held; unsigned g_locks, g_unlocks;
ldb_memtable_t g_mem0, g_imm0, g_mem_other; ldb_version_t g_ver0, g_ver_other;
ldb_versions_t g_versions;
uint64_t g_seq_at_lock;            /* last_sequence when the reader held the mutex the first time */
int g_first_lock_done;
/* pins */
int g_ref_mem0, g_ref_imm0, g_ref_ver0, g_ref_bad;
/* lookup key */
const ldb_slice_t *g_lkey_key; uint64_t g_lkey_seq; int g_lkey_inits, g_lkey_clears;
/* lookups */
int g_mem_gets, g_imm_gets, g_ver_gets, g_order_ok;
int g_mem_hit, g_imm_hit; int g_mem_rc, g_imm_rc, g_ver_rc;
int g_stats_upd, g_sched;
int g_db_had_imm;                 /* an immutable memtable exists when the read starts */

void ldb_mutex_lock(ldb_mutex_t *m) {
  __CPROVER_assert(m == &g_db->mutex && !g_held, "lock: DB mutex not held");
  /* while we wait for the mutex other threads keep publishing writes */
  if (nondet_int()) { uint64_t adv = nondet_u64(); __CPROVER_assume(adv < (1ull << 40) && g_db->versions->last_sequence < (1ull << 56) - adv); g_db->versions->last_sequence += adv; }
  g_held = 1; g_locks++;
  if (!g_first_lock_done) { g_first_lock_done = 1; g_seq_at_lock = g_db->versions->last_sequence; }
}
void ldb_mutex_unlock(ldb_mutex_t *m) {
  __CPROVER_assert(m == &g_db->mutex && g_held, "unlock: DB mutex held");
  g_held = 0; g_unlocks++;
  /* other threads run: writes are published, memtables are switched, versions are installed */
  if (nondet_int()) {
    uint64_t adv = nondet_u64(); __CPROVER_assume(adv < (1ull << 40) && g_db->versions->last_sequence < (1ull << 56) - adv);
    g_db->versions->last_sequence += adv;
    if (nondet_int()) { g_db->imm = g_db->mem; g_db->mem = &g_mem_other; }
    if (nondet_int()) g_db->imm = NULL;
    if (nondet_int()) g_db->versions->current = &g_ver_other;
  }
}
void ldb_memtable_ref(ldb_memtable_t *mt) { __CPROVER_assert(g_held, "memtables are pinned under the mutex"); if (mt == &g_mem0) g_ref_mem0++; else if (mt == &g_imm0) g_ref_imm0++; else g_ref_bad++; }
void ldb_memtable_unref(ldb_memtable_t *mt) { __CPROVER_assert(g_held, "memtables are unpinned under the mutex"); if (mt == &g_mem0) g_ref_mem0--; else if (mt == &g_imm0) g_ref_imm0--; else g_ref_bad++; }
void ldb_version_ref(ldb_version_t *v) { __CPROVER_assert(g_held, "the version is pinned under the mutex"); if (v == &g_ver0) g_ref_ver0++; else g_ref_bad++; }
void ldb_version_unref(ldb_version_t *v) { __CPROVER_assert(g_held, "the version is unpinned under the mutex"); if (v == &g_ver0) g_ref_ver0--; else g_ref_bad++; }

void ldb_lkey_init(ldb_lkey_t *lkey, const ldb_slice_t *user_key, ldb_seqnum_t sequence) { g_lkey_inits++; g_lkey_key = user_key; g_lkey_seq = sequence; }
void ldb_lkey_clear(ldb_lkey_t *lkey) { g_lkey_clears++; }

int ldb_memtable_get(ldb_memtable_t *mt, const ldb_lkey_t *lkey, ldb_buffer_t *value, int *status) {
  __CPROVER_assert(!g_held, "memtable lookups run without the mutex (lock-free skip list reads)");
  __CPROVER_assert(g_lkey_inits == 1, "lookup key built before the lookups");
  if (mt == &g_mem0) {
    __CPROVER_assert(g_ref_mem0 == 1, "the memtable being read is pinned");
    __CPROVER_assert(g_imm_gets == 0 && g_ver_gets == 0, "K4: the mutable memtable is consulted first");
    g_mem_gets++; g_mem_hit = nondet_int() ? 1 : 0;
    if (g_mem_hit) { g_mem_rc = nondet_int() ? LDB_OK : LDB_NOTFOUND; *status = g_mem_rc; }
    return g_mem_hit;
  }
  __CPROVER_assert(mt == &g_imm0, "only the memtables captured under the mutex are read");
  __CPROVER_assert(g_ref_imm0 == 1, "the immutable memtable being read is pinned");
  __CPROVER_assert(g_mem_gets == 1 && !g_mem_hit && g_ver_gets == 0, "K4: the immutable memtable is consulted second, only after a miss in the mutable one");
  g_imm_gets++; g_imm_hit = nondet_int() ? 1 : 0;
  if (g_imm_hit) { g_imm_rc = nondet_int() ? LDB_OK : LDB_NOTFOUND; *status = g_imm_rc; }
  return g_imm_hit;
}
int ldb_version_get(ldb_version_t *v, const ldb_readopt_t *options, const ldb_lkey_t *k, ldb_buffer_t *value, ldb_getstats_t *stats) {
  __CPROVER_assert(!g_held, "table lookups run without the mutex");
  __CPROVER_assert(v == &g_ver0 && g_ref_ver0 == 1, "the version captured under the mutex is read, and it is pinned (its files cannot be collected)");
  __CPROVER_assert(g_mem_gets == 1 && !g_mem_hit && (g_db_had_imm ? (g_imm_gets == 1 && !g_imm_hit) : g_imm_gets == 0), "K4: tables are consulted last, only after misses in both memtables");
  g_ver_gets++; g_ver_rc = nondet_int();
  return g_ver_rc;
}
int ldb_version_update_stats(ldb_version_t *v, const ldb_getstats_t *stats) { __CPROVER_assert(g_held && v == &g_ver0, "seek statistics are charged under the mutex to the version that was read"); g_stats_upd++; return nondet_int() ? 1 : 0; }
int ldb_versions_needs_compaction(const ldb_versions_t *vset) { return nondet_int() ? 1 : 0; }
void ldb_pool_schedule(ldb_pool_t *pool, ldb_work_f *func, void *arg) { g_sched++; }
void ldb_buffer_init(ldb_buffer_t *z) { z->data = NULL; z->size = 0; z->alloc = 0; }
uint8_t g_valbuf[1];
uint8_t *ldb_buffer_grow(ldb_buffer_t *z, size_t zn) { if (z->alloc < zn) { z->data = g_valbuf; z->alloc = zn; } return z->data; }
void ldb_buffer_clear(ldb_buffer_t *z) { z->data = NULL; z->size = 0; z->alloc = 0; }

static ldb_readopt_t g_ropt;
static ldb_snapshot_t g_snap;

void h_get(void) {
  ldb_t *db = malloc(sizeof(ldb_t));
  ldb_slice_t key, value;
  int use_snapshot = nondet_int() ? 1 : 0, rc;
  __CPROVER_assume(db != NULL);
  g_db = db; db->versions = &g_versions; g_versions.current = &g_ver0;
  g_db_had_imm = nondet_int() ? 1 : 0;   /* (globals are zero-initialised in units without contract instrumentation) */
  g_snap.sequence = nondet_u64(); g_versions.last_sequence = nondet_u64();
  db->mem = &g_mem0; db->imm = g_db_had_imm ? &g_imm0 : NULL;
  __CPROVER_assume(g_versions.last_sequence < (1ull << 55));
  g_ropt.snapshot = use_snapshot ? &g_snap : NULL;
  g_held = 0; g_locks = g_unlocks = 0; g_first_lock_done = 0;
  g_ref_mem0 = g_ref_imm0 = g_ref_ver0 = g_ref_bad = 0;
  g_lkey_inits = g_lkey_clears = 0; g_mem_gets = g_imm_gets = g_ver_gets = 0; g_mem_hit = g_imm_hit = 0; g_stats_upd = g_sched = 0;
  key.data = NULL; key.size = 0; key.alloc = 0;

  rc = ldb_get(db, &key, &value, &g_ropt);

  CHECK(!g_held && g_locks == 2 && g_unlocks == 2, "get: the mutex is taken twice (capture, release of pins) and released both times");
  CHECK(g_lkey_inits == 1 && g_lkey_clears == 1 && g_lkey_key == &key, "get: one lookup key for the caller's key, released afterwards");
  CHECK(g_lkey_seq == (use_snapshot ? g_snap.sequence : g_seq_at_lock),
        "get: the read sequence is the snapshot's, else last_sequence AS CAPTURED under the mutex together with the memtables and version (later writes are invisible to this read)");
  CHECK(g_ref_mem0 == 0 && g_ref_imm0 == 0 && g_ref_ver0 == 0 && g_ref_bad == 0, "get: every pin taken on the captured memtables/version is released, nothing else is touched");
  CHECK(g_mem_gets == 1, "get: the mutable memtable is always consulted");
  if (g_mem_hit) CHECK(rc == g_mem_rc && g_imm_gets == 0 && g_ver_gets == 0, "first hit wins: a hit (value or tombstone) in the mutable memtable decides");
  else if (g_db_had_imm && g_imm_hit) CHECK(rc == g_imm_rc && g_ver_gets == 0, "first hit wins: then the immutable memtable");
  else CHECK(g_ver_gets == 1 && rc == g_ver_rc && g_stats_upd == 1, "otherwise the tables decide; their status (including corruption / IO errors) is returned unchanged");
  if (rc != LDB_OK) CHECK(value.data == NULL && value.size == 0, "no value is handed out with a non-OK status");
  CANARY();
}

/* ------------------------------------------------------------ db.snapshot */
void *ldb_malloc(size_t size) { void *p = malloc(size); __CPROVER_assume(p != NULL); return p; }
void ldb_free(void *ptr) { free(ptr); }

#define SORTED3(l, a, b) ((l)->head.next == (a) && (a)->next == (b))

void h_snapshot(void) {
  ldb_t *db = malloc(sizeof(ldb_t));
  ldb_snapshot_t *s1, *s2;
  const ldb_snapshot_t *n;
  int have = nondet_int() % 3;   /* 0, 1 or 2 snapshots already live */
  __CPROVER_assume(db != NULL && have >= 0);
  g_db = db; db->versions = &g_versions; g_versions.current = &g_ver0; db->mem = &g_mem0; db->imm = NULL;
  g_versions.last_sequence = nondet_u64();
  __CPROVER_assume(g_versions.last_sequence < (1ull << 55));
  ldb_snaplist_init(&db->snapshots);
  s1 = s2 = NULL;
  /* existing snapshots were taken at earlier (not larger) sequence numbers: I_db(a) last_sequence is monotone */
  if (have >= 1) { uint64_t q = nondet_u64(); __CPROVER_assume(q <= g_versions.last_sequence); s1 = ldb_snaplist_new(&db->snapshots, q); }
  if (have >= 2) { uint64_t q = nondet_u64(); __CPROVER_assume(q >= s1->sequence && q <= g_versions.last_sequence); s2 = ldb_snaplist_new(&db->snapshots, q); }
  g_held = 0; g_locks = g_unlocks = 0; g_first_lock_done = 0;

  n = ldb_snapshot(db);

  CHECK(!g_held && g_locks == 1 && g_unlocks == 1, "snapshot: taken in one critical section");
  CHECK(n != NULL && n->sequence == g_seq_at_lock, "S1: a snapshot's sequence is last_sequence as read under the mutex");
  CHECK(db->snapshots.head.prev == n && n->next == &db->snapshots.head, "the new snapshot is the newest element of the list");
  CHECK(ldb_snaplist_oldest(&db->snapshots) == (have >= 1 ? s1 : n), "the oldest live snapshot is still at the head (compactions read smallest_snapshot there)");
  CHECK(n->prev == (have == 0 ? &db->snapshots.head : have == 1 ? s1 : s2) && n->prev->next == n, "list links are consistent");
  CHECK(have == 0 || n->prev->sequence <= n->sequence, "S1: the list stays sorted by sequence (oldest first)");
  if (have >= 1) {
    /* releasing a snapshot only unlinks it: the others keep their sequence and order */
    uint64_t q2 = have >= 2 ? s2->sequence : 0, qn = n->sequence;
    g_first_lock_done = 1;
    ldb_release(db, s1);
    CHECK(!g_held && g_locks == 2 && g_unlocks == 2, "release: one critical section");
    CHECK(ldb_snaplist_oldest(&db->snapshots) == (have >= 2 ? s2 : (ldb_snapshot_t *)n), "S5: after releasing the oldest snapshot the next oldest is at the head");
    CHECK(n->sequence == qn && (have < 2 || s2->sequence == q2), "S5: releasing one snapshot does not change what the others observe");
    CHECK(db->snapshots.head.prev == n, "newest unchanged");
  }
  CANARY();
}
