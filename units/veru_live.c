/* units/veru_live.c - ldb_versions_add_files over a version ring of ANY length (group "veru")
 *   ver.live.u   every file number of every version on the list is put into the live set: ghost tracked
 *                (version, level, file) = (g_ver, g_lvl, position g_k of files[g_lvl]), all three arbitrary.
 * Ring model:  dummy -> a -> a -> ... -> a -> g_ver -> b -> ... -> b -> dummy   with ONE object g_va for every version before the
 * tracked one and ONE object g_vb for every version after it (a linked structure can have regions: different objects); g_va /
 * g_vb are windows (re-chosen by every iteration of the ring loop: any number of levels/files, next pointer = the same object
 * again or the next region).  Files of untracked lists are the window g_fo.
 * NOT proved: termination of the ring walk itself (the loop variable is a pointer chased through shared objects; no integer
 * measure exists in this model) - the two inner loops have decreases clauses.
 */
#include "units/veru_model.h"
static void icmp_hook(const ldb_slice_t *x, const ldb_slice_t *y, int res) { (void)x; (void)y; (void)res; }
static void push_hook(const void *x) { (void)x; }
static void push_other_hook(void) { }

int rb_set64_put(rb_tree_t *tree, uint64_t item) {
  __CPROVER_assert(tree == &g_live, "add_files: numbers go into the caller's live set");
  if (item == g_q) g_q_in = 1;
  g_puts++;
  return nondet_int() ? 1 : 0;
}
/* shape of an untracked version: every level is a prefix of the shared untracked list */
#define LVL_OK(v, l) ((v).files[l].items == g_oitems && (v).files[l].length <= g_ocap)
#define VER_OK(v) (LVL_OK(v,0) && LVL_OK(v,1) && LVL_OK(v,2) && LVL_OK(v,3) && LVL_OK(v,4) && LVL_OK(v,5) && LVL_OK(v,6))
#define RING_OK ((g_vset.dummy_versions.next == &g_va || g_vset.dummy_versions.next == &g_ver) && (g_va.next == &g_va || g_va.next == &g_ver) && \
                 (g_ver.next == &g_vb || g_ver.next == &g_vset.dummy_versions) && (g_vb.next == &g_vb || g_vb.next == &g_vset.dummy_versions))
void c_versions_add_files_u(ldb_versions_t *vset, rb_set64_t *live)
__CPROVER_requires(vset == &g_vset && live == &g_live && g_q_in == 0 && g_puts == 0)
__CPROVER_requires(RING_OK && VER_OK(g_va) && VER_OK(g_vb) && g_ocap <= NMAX)
__CPROVER_requires(g_lvl >= 0 && g_lvl < LDB_NUM_LEVELS && g_ver.files[g_lvl].length == g_n && g_k < g_n && g_n <= NMAX && g_q == g_fk.number)
__CPROVER_assigns(g_q_in, g_puts, g_va.next, g_vb.next, FO_WINDOW)
__CPROVER_ensures(g_q_in == 1)    /* g_q is the number of an arbitrary file of an arbitrary level of an arbitrary listed version */
;
void h_add_files_u(void) {
  IN_SIZE(in_n); IN_SIZE(in_k); IN_INT(in_level); IN_SIZE(in_ocap);
  ASSUME(in_n <= NMAX && in_k < in_n && in_level >= 0 && in_level < LDB_NUM_LEVELS && in_ocap <= NMAX);
  mk_world();
  g_n = in_n; g_k = in_k; g_j = in_n; g_lvl = in_level; g_ocap = in_ocap;
  g_oitems = mk_items(in_ocap, in_ocap, in_ocap);
  g_va = nondet_version(); g_vb = nondet_version();
#define MK_L(l) g_ver.files[l].items = g_oitems; g_ver.files[l].length = nondet_size(); g_va.files[l].items = g_oitems; g_vb.files[l].items = g_oitems
  MK_L(0); MK_L(1); MK_L(2); MK_L(3); MK_L(4); MK_L(5); MK_L(6);
  ASSUME(VER_OK(g_va) && VER_OK(g_vb) && VER_OK(g_ver));
  g_ver.files[in_level].items = mk_items(in_n, in_k, in_n); g_ver.files[in_level].length = in_n; g_ver.files[in_level].alloc = in_n;
  g_vset.dummy_versions.next = nondet_int() ? &g_va : &g_ver;
  g_va.next = nondet_int() ? &g_va : &g_ver;
  g_ver.next = nondet_int() ? &g_vb : &g_vset.dummy_versions;
  g_vb.next = nondet_int() ? &g_vb : &g_vset.dummy_versions;
  g_vset.current = (g_ver.next == &g_vb) ? &g_vb : &g_ver;   /* the newest version is the last one of the list */
  g_q = g_fk.number; g_q_in = 0; g_puts = 0;
  ldb_versions_add_files(&g_vset, &g_live);
  CANARY();
}
