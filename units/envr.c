/* units/envr.c - the read side and the file-system helpers of the POSIX environment
 *   src/util/env_unix_impl.h (through src/util/env.c, included unmodified):
 *     ldb_open / ldb_try_open, ldb_read, ldb_pread, ldb_fsync,
 *     ldb_seqfile_create, ldb_randfile_create (pread and mmap variants), ldb_limiter_acquire/release,
 *     ldb_rfile_read / ldb_rfile_skip / ldb_rfile_pread / ldb_rfile_close / ldb_rfile_destroy,
 *     ldb_read_file, ldb_copy_file, ldb_link_file, ldb_rename_file, ldb_remove_file, ldb_file_size,
 *     ldb_file_exists, ldb_create_dir, ldb_remove_dir, ldb_get_children, ldb_free_children.
 * Properties: C11 (short files are seen as short, never padded with garbage), C18 (memory safety on
 * arbitrary file sizes), C12 (every failed system call is reported), C20 (copy complete and
 * non-destructive), C13/C05 (directory listing complete).
 *
 * Ghost file system (updated ONLY by the system-call stubs below; contracts of the functions in
 * between relate old and new ghost values):
 *   - the file being read has g_fsize bytes; a sequential descriptor has the position g_pos; for ONE arbitrary
 *     index g_j (ghost-index method: "for all positions") read(2)/pread(2) record WHERE byte g_j of the file was
 *     delivered (g_jaddr) and how often (g_jhits).  "The result holds the file's bytes [off, off+size) in order,
 *     each delivered once" is then: g_jaddr == result.data + (g_j - off) and g_jhits == old + 1 for every g_j in
 *     the range.  (Storing the byte itself and proving dst[g_j - off] == byte was measured: same proof, 155 s
 *     instead of 25 s of solver time per unit; the placement form is what the code controls.)
 *   - two descriptors exist: g_rfd (handed out for O_RDONLY opens) and g_wfd (for O_WRONLY opens), each
 *     with a state 0 = never opened, 1 = open, 2 = closed; close(2) of a descriptor that is not open is
 *     an error (double close / close of a foreign descriptor);
 *   - every system call can fail at every invocation with an arbitrary errno; read/pread/write deliver
 *     1..n bytes (short transfers), 0 only at end of file, and are interrupted (EINTR) finitely often;
 *   - mmap hands out ONE object of exactly the requested length; munmap must name exactly that range.
 */
#include "verif.h"
#include <errno.h>
#include <sys/types.h>
#include <sys/stat.h>
#include <sys/mman.h>
#include <sys/resource.h>
#include <fcntl.h>
#include <unistd.h>
#include <dirent.h>
#include <pthread.h>
#include <limits.h>

int nondet_int(void);
size_t nondet_size(void);
unsigned long nondet_ulong(void);
unsigned char nondet_uchar(void);

/* ------------------------------------------------------------------ ghost */
int g_errno;
int *__errno_location(void) { return &g_errno; }

/* descriptors */
int g_rfd, g_wfd;                 /* numbers handed out for read-only / write-only opens (fixed for the run) */
int g_rst, g_wst;                 /* 0 never opened, 1 open, 2 closed                                        */
unsigned g_ropens, g_wopens, g_rcloses, g_wcloses, g_close_fail;
const char *g_rname, *g_wname;    /* the name each descriptor was opened with                                */
int g_wflags; unsigned g_wmode;   /* flags (O_CLOEXEC masked) and mode of the write-only open                */
unsigned long g_open_eintr, g_open_einval;   /* budgets: EINTR finitely often; EINVAL for O_CLOEXEC finitely often */
unsigned g_setfd_calls;
/* the file behind g_rfd */
unsigned long g_fsize, g_pos, g_j;
unsigned g_fmode;                 /* st_mode reported by fstat                                               */
unsigned long g_rfail;            /* failed read/pread calls (EINTR excluded)                                */
int g_rd_errno, g_open_errno;     /* errno of the last failed read/pread, of the last failed open            */
unsigned long g_read_eintr;       /* EINTR budget of read/pread                                              */
unsigned long g_read_calls;       /* successful read/pread calls                                             */
unsigned long g_seek_calls, g_seek_fail;
unsigned g_fstat_calls, g_fstat_fail;
unsigned char *g_jaddr; unsigned long g_jhits;   /* where byte g_j of the file was delivered, how often */
/* mapping */
unsigned char *g_map; unsigned long g_map_len; int g_map_st;  /* 0 none, 1 mapped, 2 unmapped */
unsigned g_mmap_calls, g_mmap_fail, g_munmap_calls;
/* file written through g_wfd */
unsigned long g_written, g_wfail, g_write_eintr;
unsigned long g_synced; unsigned g_fsync_calls, g_fsync_ok; unsigned long g_fsync_eintr;
unsigned long g_clock, g_t_write, g_t_fsync, g_t_wclose, g_t_unlink;
static unsigned long tick(void) { __CPROVER_assume(g_clock < (1ul << 62)); return ++g_clock; }
/* write(2) side of the placement ghost (ldb_copy_file) */
unsigned char *g_waddr; unsigned long g_whits; int g_jclob;
unsigned g_wclose_fail;
int g_fstat_ok_reg;               /* the last fstat succeeded and reported a regular file */
unsigned long g_open_calls;       /* open(2) attempts */
/* name operations */
unsigned g_unlink_calls; const char *g_unlink_name; int g_unlink_rc;
/* pthread_once / rlimit */
int g_once_done; unsigned g_once_calls;

#define FSIZE_MAX (1ul << 62)   /* offsets stay far below 2^63 (files are smaller than 4 EiB) */

/* ------------------------------------------------------------ system calls */
/* open(2) and fcntl(2) are variadic: routed by argument count to fixed-arity models (AUTHORING: dfcc binds its
   hidden write-set parameter to the first variadic argument). Nothing else in the repository text is renamed. */
int verif_open(const char *name, int flags, unsigned mode);
int verif_fcntl(int fd, int cmd, unsigned long arg);
#define VERIF_SEL3(a, b, c, NAME, ...) NAME
#define VOPEN3(n, f, m) verif_open(n, f, m)
#define VOPEN2(n, f) verif_open(n, f, 0)
#define VFCNTL3(fd, c, a) verif_fcntl(fd, c, (unsigned long)(a))
#define VFCNTL2(fd, c) verif_fcntl(fd, c, 0)
#define open(...) VERIF_SEL3(__VA_ARGS__, VOPEN3, VOPEN2, 0)(__VA_ARGS__)
#define fcntl(...) VERIF_SEL3(__VA_ARGS__, VFCNTL3, VFCNTL2, 0)(__VA_ARGS__)

#define IS_RD(flags) (((flags) & O_ACCMODE) == O_RDONLY)

int verif_open(const char *name, int flags, unsigned mode) {
  __CPROVER_assert(name != NULL, "open(2): a file name is given");
  __CPROVER_assume(g_open_calls < (1ul << 62)); g_open_calls++;     /* fewer than 2^62 opens happen */
  __CPROVER_assert(IS_RD(flags) || ((flags) & O_ACCMODE) == O_WRONLY, "open(2): read-only or write-only");
  __CPROVER_assert(IS_RD(flags) ? g_rst != 1 : g_wst != 1, "open(2): no second descriptor of the same kind while one is open (it would be leaked)");
  if (nondet_int()) {
    if (g_open_eintr > 0 && nondet_int()) { g_open_eintr--; g_errno = EINTR; return -1; }
    if ((flags & O_CLOEXEC) && g_open_einval > 0 && nondet_int()) { g_open_einval--; g_errno = EINVAL; g_open_errno = EINVAL; return -1; }
    g_errno = nondet_int(); __CPROVER_assume(g_errno != EINTR && g_errno != EINVAL);
    g_open_errno = g_errno;
    return -1;
  }
  if (IS_RD(flags)) { g_rst = 1; g_ropens++; g_rname = name; g_pos = 0; return g_rfd; }   /* a new descriptor reads from the start */
  g_wst = 1; g_wopens++; g_wname = name; g_wflags = flags & ~O_CLOEXEC; g_wmode = mode;
  g_written = 0; g_synced = 0;         /* the copy's destination is created empty (O_CREAT | O_EXCL) */
  return g_wfd;
}
int verif_fcntl(int fd, int cmd, unsigned long arg) {
  __CPROVER_assert((fd == g_rfd && g_rst == 1) || (fd == g_wfd && g_wst == 1), "fcntl on an open descriptor");
  __CPROVER_assert(cmd == F_GETFD || cmd == F_SETFD, "fcntl: only the descriptor flags are touched");
  if (cmd == F_SETFD) { __CPROVER_assert(arg & FD_CLOEXEC, "F_SETFD sets close-on-exec"); g_setfd_calls++; }
  return nondet_int();
}
int close(int fd) {
  if (fd == g_rfd) {
    __CPROVER_assert(g_rst == 1, "close(2): the read descriptor is open (never closed twice, never closed before it was opened)");
    g_rst = 2; g_rcloses++;
  } else {
    __CPROVER_assert(fd == g_wfd, "close(2): a descriptor this code opened");
    __CPROVER_assert(g_wst == 1, "close(2): the write descriptor is open (never closed twice)");
    g_wst = 2; g_wcloses++; g_t_wclose = tick();
  }
  /* the descriptor is gone even when close reports an error (Linux) */
  if (nondet_int()) { g_errno = nondet_int(); g_close_fail++; if (fd == g_wfd) g_wclose_fail++; return -1; }
  return 0;
}

/* deliver up to n bytes of the ghost file starting at `at` into buf; returns the count (0 = end of file) */
static size_t deliver(void *buf, size_t n, unsigned long at) {
  size_t k, avail;
  if (at >= g_fsize) return 0;
  avail = g_fsize - at;
  k = nondet_size();
  __CPROVER_assume(k >= 1 && k <= n && k <= avail);    /* short reads allowed, progress guaranteed before EOF */
  /* the place byte g_j went to is overwritten by this delivery before it was written out (copy) */
  if (g_jhits > g_whits && __CPROVER_same_object(g_jaddr, buf) && __CPROVER_POINTER_OFFSET(g_jaddr) >= __CPROVER_POINTER_OFFSET(buf) &&
      (size_t)(__CPROVER_POINTER_OFFSET(g_jaddr) - __CPROVER_POINTER_OFFSET(buf)) < k) g_jclob = 1;
  if (g_j >= at && g_j - at < k) { g_jaddr = (unsigned char *)buf + (g_j - at); g_jhits++; }
  return k;
}
static int read_fails(void) {
  if (!nondet_int()) return 0;
  if (g_read_eintr > 0 && nondet_int()) { g_read_eintr--; g_errno = EINTR; return 1; }
  g_errno = nondet_int(); __CPROVER_assume(g_errno != EINTR);
  g_rfail++; g_rd_errno = g_errno;
  return 1;
}
ssize_t read(int fd, void *buf, size_t n) {
  size_t k;
  __CPROVER_assert(fd == g_rfd && g_rst == 1, "read(2) on the open read descriptor");
  __CPROVER_assert(n > 0 && n <= (size_t)INT_MAX, "read(2): chunk is non-empty and its result fits the int it is stored in");
  __CPROVER_assert(__CPROVER_w_ok(buf, n), "read(2): destination writable for the requested count");
  if (read_fails()) return -1;
  k = deliver(buf, n, g_pos);
  g_pos += k; g_read_calls++;
  return (ssize_t)k;
}
ssize_t pread(int fd, void *buf, size_t n, off_t off) {
  size_t k;
  __CPROVER_assert(fd == g_rfd && g_rst == 1, "pread(2) on the open read descriptor");
  __CPROVER_assert(n > 0 && n <= (size_t)INT_MAX, "pread(2): chunk is non-empty and its result fits the int it is stored in");
  __CPROVER_assert(off >= 0, "pread(2): offset is not negative as an off_t");
  __CPROVER_assert(__CPROVER_w_ok(buf, n), "pread(2): destination writable for the requested count");
  if (read_fails()) return -1;
  k = deliver(buf, n, (unsigned long)off);
  g_read_calls++;
  return (ssize_t)k;
}
off_t lseek(int fd, off_t off, int whence) {
  unsigned long base;
  __CPROVER_assert(fd == g_rfd && g_rst == 1, "lseek(2) on the open read descriptor");
  __CPROVER_assert(whence == SEEK_CUR || whence == SEEK_SET, "lseek(2): SEEK_CUR or SEEK_SET");
  __CPROVER_assert(off >= 0, "lseek(2): forward only, the offset is not negative as an off_t");
  g_seek_calls++;
  base = whence == SEEK_CUR ? g_pos : 0;
  if (nondet_int() || base + (unsigned long)off > (unsigned long)INT64_MAX) {   /* EOVERFLOW when the result does not fit */
    g_errno = nondet_int(); g_seek_fail++; return (off_t)-1;
  }
  g_pos = base + (unsigned long)off;
  return (off_t)g_pos;
}
int fstat(int fd, struct stat *st) {
  __CPROVER_assert(fd == g_rfd && g_rst == 1, "fstat(2) on the open read descriptor");
  g_fstat_calls++;
  g_fstat_ok_reg = 0;
  if (nondet_int()) { g_errno = nondet_int(); g_fstat_fail++; return -1; }
  st->st_size = (off_t)g_fsize; st->st_mode = g_fmode;
  g_fstat_ok_reg = S_ISREG(g_fmode) ? 1 : 0;
  return 0;
}
void *mmap(void *addr, size_t len, int prot, int flags, int fd, off_t off) {
  __CPROVER_assert(addr == NULL && prot == PROT_READ && flags == MAP_SHARED && off == 0, "mmap: a read-only shared mapping from offset 0");
  __CPROVER_assert(fd == g_rfd && g_rst == 1, "mmap of the open read descriptor");
  __CPROVER_assert(len == g_fsize, "mmap: the mapping covers exactly the file (its length is the size fstat reported)");
  __CPROVER_assert(g_map_st != 1, "mmap: at most one mapping per file object");
  g_mmap_calls++;
  if (len == 0) { g_errno = EINVAL; g_mmap_fail++; return MAP_FAILED; }      /* POSIX: length 0 is EINVAL */
  if (nondet_int()) { g_errno = nondet_int(); g_mmap_fail++; return MAP_FAILED; }
  g_map = malloc(len); __CPROVER_assume(g_map != NULL);
  g_map_len = len; g_map_st = 1;
  return g_map;
}
int munmap(void *addr, size_t len) {
  __CPROVER_assert(g_map_st == 1, "munmap: a mapping exists and was not unmapped before");
  __CPROVER_assert(addr == (void *)g_map && len == g_map_len, "munmap of exactly the mapped range");
  g_map_st = 2; g_munmap_calls++;
  free(g_map);                         /* later accesses through the mapping are memory-safety violations */
  return nondet_int() ? -1 : 0;
}
int getrlimit(__rlimit_resource_t res, struct rlimit *rl) {
  if (nondet_int()) return -1;
  rl->rlim_cur = nondet_ulong(); rl->rlim_max = rl->rlim_cur;
  return 0;
}
int pthread_once(pthread_once_t *once, void (*init)(void)) {
  g_once_calls++;
  if (!g_once_done) { g_once_done = 1; init(); }
  return 0;
}
/* write side (ldb_copy_file) */
ssize_t write(int fd, const void *buf, size_t n) {
  size_t k;
  __CPROVER_assert(fd == g_wfd && g_wst == 1, "write(2) goes to the open write descriptor (never to the source)");
  __CPROVER_assert(n > 0 && n <= (size_t)INT_MAX, "write(2): chunk is non-empty and its result fits the int it is stored in");
  __CPROVER_assert(__CPROVER_r_ok(buf, n), "write(2): source readable for the requested count");
  if (nondet_int()) {
    if (g_write_eintr > 0 && nondet_int()) { g_write_eintr--; g_errno = EINTR; return -1; }
    g_errno = nondet_int(); __CPROVER_assume(g_errno != EINTR);
    g_wfail++;
    return -1;
  }
  k = nondet_size();
  __CPROVER_assume(k >= 1 && k <= n);
  if (g_j >= g_written && g_j - g_written < k) { g_waddr = (unsigned char *)buf + (g_j - g_written); g_whits++; }
  g_written += k; g_t_write = tick();
  return (ssize_t)k;
}
static int fsync_model(int fd) {
  __CPROVER_assert(fd == g_wfd && g_wst == 1, "fsync on the open write descriptor");
  g_fsync_calls++;
  if (nondet_int()) {
    if (g_fsync_eintr > 0 && nondet_int()) { g_fsync_eintr--; g_errno = EINTR; return -1; }
    g_errno = nondet_int(); __CPROVER_assume(g_errno != EINTR && g_errno != ENOSYS);
    return -1;
  }
  g_fsync_ok++; g_synced = g_written; g_t_fsync = tick();
  return 0;
}
int fsync(int fd) { return fsync_model(fd); }
int fdatasync(int fd) {
  __CPROVER_assert(fd == g_wfd && g_wst == 1, "fdatasync on the open write descriptor");
  if (nondet_int()) { g_errno = ENOSYS; return -1; }      /* not implemented: the code falls back to fsync */
  return fsync_model(fd);
}
int unlink(const char *name) {
  g_unlink_calls++; g_unlink_name = name; g_t_unlink = tick();
  g_unlink_rc = nondet_int() ? -1 : 0;
  if (g_unlink_rc) g_errno = nondet_int();
  return g_unlink_rc;
}

#ifdef ENVR_SYMBOLIC_MALLOC
/* malloc(n) inside the repository text: NULL or an object of SOME size m >= n (CBMC's own malloc, called with a
   symbolic size).  m == n is one of the cases, so an access beyond the requested size is still caught; what it
   avoids is a constant-size 1 MiB object (ldb_copy_file's buffer), which CBMC bit-blasts (conversion never ends). */
static void *verif_malloc(size_t n) {
  size_t m = nondet_size();
  __CPROVER_assume(m >= n);
  return (malloc)(m);
}
#define malloc(n) verif_malloc(n)
#endif

#ifdef ENVR_CHILDREN_MODELS
/* memcpy / realloc inside the repository text, for ldb_get_children (CBMC's library versions copy symbolic-length
   arrays; three of them in one formula exhaust memory).  Ghost-index models that OVER-approximate the copy:
   the destination object becomes arbitrary, except that the bytes / list slots the harness looks at (character
   g_c and the last byte of a name; slot g_k_slot of the list) are copied faithfully.  Bounds are asserted. */
size_t g_c;                 /* arbitrary character position in a name */
extern unsigned long g_k_slot;
unsigned g_reallocs, g_realloc_moves; void *g_list_obj; size_t g_list_cap;
static void *verif_memcpy(void *dst, const void *src, size_t n) {
  __CPROVER_assert(__CPROVER_r_ok(src, n) && __CPROVER_w_ok(dst, n), "memcpy: source readable and destination writable for n bytes");
  if (n > 0) {
    unsigned char vc = g_c < n ? ((const unsigned char *)src)[g_c] : 0, vl = ((const unsigned char *)src)[n - 1];
    __CPROVER_havoc_object(dst);
    if (g_c < n) ((unsigned char *)dst)[g_c] = vc;
    ((unsigned char *)dst)[n - 1] = vl;
  }
  return dst;
}
static void *verif_realloc(void *p, size_t n);
#define memcpy(d, s, n) verif_memcpy(d, s, n)
#define realloc(p, n) verif_realloc(p, n)
#endif

/* strlen: CBMC's library loop is replaced by a specification that OVER-approximates it: some index n inside the
   object with s[n] == 0 (the first NUL is one of them).  Callers therefore see every behaviour of the real strlen. */
size_t g_strlen_ret;   /* ghost: what the last strlen returned */
#ifndef ENVR_LIB_STRLEN
size_t strlen(const char *s) {
  size_t n = nondet_size();
  __CPROVER_assume(__CPROVER_r_ok(s, n + 1) && n < ((size_t)1 << 40));
  __CPROVER_assume(s[n] == 0);
  g_strlen_ret = n;
  return n;
}
#endif

#include "util/env.c"

#ifdef ENVR_CHILDREN_MODELS
#undef memcpy
#undef realloc
/* realloc(p, n), p != NULL, n > 0: NULL (p untouched), or a NEW object of some size >= n that holds the old content
   (faithfully at slot g_k_slot, arbitrary elsewhere = over-approximation) while p is freed; or, ENVR_REALLOC_INPLACE,
   p itself when the object CBMC allocated for it is large enough (objects come with a symbolic size >= the request) */
static void *verif_realloc(void *p, size_t n) {
  char **q; size_t m, old = __CPROVER_OBJECT_SIZE(p);
  __CPROVER_assert(p != NULL && n > 0 && __CPROVER_POINTER_OFFSET(p) == 0, "realloc of the start of a live heap object to a non-zero size");
  g_reallocs++;
  if (nondet_int()) return NULL;
#ifdef ENVR_REALLOC_INPLACE
  if (n > old) return NULL;
  g_list_cap = n;
  return p;
#else
  m = nondet_size(); __CPROVER_assume(m >= n);
  q = (malloc)(m);
  if (q == NULL) return NULL;
#ifdef CHILDREN_GROW
  { size_t e; for (e = 0; (e + 1) * sizeof(char *) <= old && (e + 1) * sizeof(char *) <= n; e++) q[e] = ((char **)p)[e]; }   /* small lists: every slot copied */
#else
  if ((g_k_slot + 1) * sizeof(char *) <= old && (g_k_slot + 1) * sizeof(char *) <= n) q[g_k_slot] = ((char **)p)[g_k_slot];
#endif
  free(p);
  g_realloc_moves++; g_list_obj = q; g_list_cap = n;
  return q;
#endif
}
#endif

/* status of a failed system call: errno, or LDB_IOERR when errno is 0 - never LDB_OK */
#define IS_SYSERR(rc) ((rc) != LDB_OK && (rc) == (g_errno == 0 ? LDB_IOERR : g_errno))
#define FD_RI (g_rfd >= 0 && g_wfd >= 0 && g_rfd != g_wfd)
#define MIN_(a, b) ((a) < (b) ? (a) : (b))
/* bytes a complete read of `len` bytes at position `at` delivers: never beyond the end of the file */
#define AVAIL(at, len) ((at) >= g_fsize ? 0ul : MIN_((unsigned long)(len), g_fsize - (at)))

/* ---------------------------------------------------------------- ldb_open */
#define GHOST_OPEN g_open_calls, g_pos, g_written, g_synced, g_errno, g_open_errno, g_rst, g_wst, g_ropens, g_wopens, g_rname, g_wname, g_wflags, g_wmode, g_open_eintr, g_open_einval, g_setfd_calls
/* -1 with errno set (not EINTR) and no descriptor created, or the one new descriptor of the requested kind,
   opened with the name, flags and mode that were asked for */
int c_ldb_open(const char *name, int flags, uint32_t mode)
__CPROVER_requires(name != NULL && FD_RI && (IS_RD(flags) || (flags & O_ACCMODE) == O_WRONLY) && !(flags & O_CLOEXEC))
__CPROVER_requires(IS_RD(flags) ? g_rst != 1 : g_wst != 1)
__CPROVER_assigns(GHOST_OPEN)
__CPROVER_ensures(__CPROVER_return_value == -1 || __CPROVER_return_value == (IS_RD(flags) ? g_rfd : g_wfd))
__CPROVER_ensures(g_open_calls > __CPROVER_old(g_open_calls))
__CPROVER_ensures(__CPROVER_return_value == -1 ==> (g_errno != EINTR && g_errno == g_open_errno && g_rst == __CPROVER_old(g_rst) && g_wst == __CPROVER_old(g_wst) &&
   g_ropens == __CPROVER_old(g_ropens) && g_wopens == __CPROVER_old(g_wopens) && g_pos == __CPROVER_old(g_pos) && g_written == __CPROVER_old(g_written) && g_synced == __CPROVER_old(g_synced)))
__CPROVER_ensures((__CPROVER_return_value != -1 && IS_RD(flags)) ==> (g_pos == 0 && g_written == __CPROVER_old(g_written) && g_synced == __CPROVER_old(g_synced)))
__CPROVER_ensures((__CPROVER_return_value != -1 && !IS_RD(flags)) ==> (g_pos == __CPROVER_old(g_pos) && g_written == 0 && g_synced == 0))
__CPROVER_ensures((__CPROVER_return_value != -1 && IS_RD(flags)) ==> (g_rst == 1 && g_ropens == __CPROVER_old(g_ropens) + 1 && g_rname == name &&
   g_wst == __CPROVER_old(g_wst) && g_wopens == __CPROVER_old(g_wopens)))
__CPROVER_ensures((__CPROVER_return_value != -1 && !IS_RD(flags)) ==> (g_wst == 1 && g_wopens == __CPROVER_old(g_wopens) + 1 && g_wname == name &&
   g_wflags == flags && g_wmode == ((flags & O_CREAT) ? mode : 0) && g_rst == __CPROVER_old(g_rst) && g_ropens == __CPROVER_old(g_ropens)))
;
static char g_name_a[8], g_name_b[8];
void h_ldb_open(void) {
  int flags = nondet_int();
  uint32_t mode = (uint32_t)nondet_int();
  ldb_open(g_name_a, flags, mode);
  CANARY();
}

/* ---------------------------------------------------------------- ldb_read */
#define GHOST_READ g_jaddr, g_jhits, g_jclob, g_errno, g_rd_errno, g_pos, g_rfail, g_read_eintr, g_read_calls
#define READ_PRE(fd, dst, len) ((fd) == g_rfd && g_rst == 1 && ((len) == 0 || __CPROVER_w_ok(dst, len)) && (len) <= FSIZE_MAX && g_fsize <= FSIZE_MAX && g_pos <= (unsigned long)INT64_MAX)
/* sequential read: the result is exactly the number of bytes between the position and the end of the file,
   capped by len (short reads and EINTR are absorbed); -1 iff a read(2) failed */
int64_t c_ldb_read(int fd, void *dst, size_t len)
__CPROVER_requires(READ_PRE(fd, dst, len))
__CPROVER_assigns(GHOST_READ, __CPROVER_object_whole(dst))
__CPROVER_ensures(__CPROVER_return_value == -1 || __CPROVER_return_value == (int64_t)AVAIL(__CPROVER_old(g_pos), len))
__CPROVER_ensures(__CPROVER_return_value >= 0 ==> (g_pos == __CPROVER_old(g_pos) + (unsigned long)__CPROVER_return_value && g_rfail == __CPROVER_old(g_rfail)))
__CPROVER_ensures(__CPROVER_return_value == -1 ==> (g_rfail == __CPROVER_old(g_rfail) + 1 && g_errno != EINTR && g_errno == g_rd_errno))
/* placement: byte g_j of the file, if it lies in the range read, was delivered exactly once, to its place in dst */
__CPROVER_ensures((__CPROVER_return_value >= 0 && (g_j < __CPROVER_old(g_pos) || g_j >= g_pos)) ==> g_jhits == __CPROVER_old(g_jhits))
__CPROVER_ensures((__CPROVER_return_value >= 0 && g_j >= __CPROVER_old(g_pos) && g_j < g_pos) ==> (g_jaddr == (unsigned char *)dst + (g_j - __CPROVER_old(g_pos)) && g_jhits == __CPROVER_old(g_jhits) + 1))
;
void h_ldb_read(void) {
  IN_SIZE(in_len);
  unsigned char *dst = malloc(in_len);
  __CPROVER_assume(dst != NULL);
  ldb_read(g_rfd, dst, in_len);
  CANARY();
}

/* --------------------------------------------------------------- ldb_pread */
#ifdef HAVE_PREAD
#define GHOST_PREAD g_jaddr, g_jhits, g_jclob, g_errno, g_rd_errno, g_rfail, g_read_eintr, g_read_calls
int64_t c_ldb_pread(int fd, void *dst, size_t len, uint64_t off)
__CPROVER_requires(fd == g_rfd && g_rst == 1 && (len == 0 || __CPROVER_w_ok(dst, len)) && len <= FSIZE_MAX && g_fsize <= FSIZE_MAX && off <= (uint64_t)INT64_MAX)
__CPROVER_assigns(GHOST_PREAD, __CPROVER_object_whole(dst))
__CPROVER_ensures(__CPROVER_return_value == -1 || __CPROVER_return_value == (int64_t)AVAIL(off, len))
__CPROVER_ensures(__CPROVER_return_value >= 0 ==> g_rfail == __CPROVER_old(g_rfail))
__CPROVER_ensures(__CPROVER_return_value == -1 ==> (g_rfail == __CPROVER_old(g_rfail) + 1 && g_errno != EINTR && g_errno == g_rd_errno))
__CPROVER_ensures((__CPROVER_return_value >= 0 && g_j >= off && g_j - off < (unsigned long)__CPROVER_return_value) ==> (g_jaddr == (unsigned char *)dst + (g_j - off) && g_jhits == __CPROVER_old(g_jhits) + 1))
__CPROVER_ensures((__CPROVER_return_value >= 0 && !(g_j >= off && g_j - off < (unsigned long)__CPROVER_return_value)) ==> g_jhits == __CPROVER_old(g_jhits))
;
void h_ldb_pread(void) {
  IN_SIZE(in_len);
  IN_U64(in_off);
  unsigned char *dst = malloc(in_len);
  __CPROVER_assume(dst != NULL);
  ldb_pread(g_rfd, dst, in_len, in_off);
  CANARY();
}
#endif

/* ============================================================ readable file objects */
/* representation invariant of a readable file, by kind */
#define RF_IS_FD(f)   ((f)->mapped == 0 && (f)->fd == g_rfd && g_rst == 1 && (f)->filename == NULL)
#define RF_IS_NAME(f) ((f)->mapped == 0 && (f)->fd == -1 && g_rst != 1 && (f)->filename != NULL && (f)->limiter == NULL)
#define RF_IS_MAP(f)  ((f)->mapped == 1 && (f)->fd == -1 && (f)->filename == NULL && (f)->base == g_map && (f)->length == g_map_len && \
                       g_map_st == 1 && (f)->limiter == &ldb_mmap_limiter)
#define RF_IS_CLOSED(f) ((f)->mapped == 0 && (f)->fd == -1 && (f)->filename == NULL && (f)->limiter == NULL && (f)->base == NULL && (f)->length == 0)
/* the parts of a file object are separate objects */
#define RF_SEP(f) ((f)->filename == NULL || (!__CPROVER_same_object((f)->filename, f) && (!(f)->mapped || !__CPROVER_same_object((f)->filename, g_map)))) && (!(f)->mapped || !__CPROVER_same_object(g_map, f))
/* at least one slot of the limiter is taken (so it can be given back) */
#define LIM_HELD(l) ((l)->acquires_allowed >= 0 && (l)->acquires_allowed < (l)->max_acquires)
#define LIM_RI(l) ((l)->acquires_allowed >= 0 && (l)->acquires_allowed <= (l)->max_acquires)

static ldb_rfile_t *alloc_rfile(void) {
  ldb_rfile_t *f = malloc(sizeof(ldb_rfile_t));
  __CPROVER_assume(f != NULL);
  return f;
}

/* ----------------------------------------------------------- ldb_rfile_read */
/* OK: the slice is the caller's buffer, its size is exactly what lies between the position and the end of the
   file (capped by count) - a short file gives a short slice, never padding; failure: the status of the failed
   read(2), the slice is not touched */
int c_rfile_read(ldb_rfile_t *file, ldb_slice_t *result, void *buf, size_t count)
__CPROVER_requires(__CPROVER_r_ok(file, sizeof(*file)) && __CPROVER_w_ok(result, sizeof(*result)) && READ_PRE(file->fd, buf, count))
__CPROVER_assigns(GHOST_READ, __CPROVER_object_whole(buf), *result)
__CPROVER_ensures(__CPROVER_return_value == LDB_OK ==> (result->data == (uint8_t *)buf && result->size == AVAIL(__CPROVER_old(g_pos), count) &&
   g_pos == __CPROVER_old(g_pos) + result->size && g_rfail == __CPROVER_old(g_rfail)))
__CPROVER_ensures(__CPROVER_return_value != LDB_OK ==> (g_rfail == __CPROVER_old(g_rfail) + 1 && __CPROVER_return_value == (g_rd_errno == 0 ? LDB_IOERR : g_rd_errno) &&
   result->data == __CPROVER_old(result->data) && result->size == __CPROVER_old(result->size)))
__CPROVER_ensures((__CPROVER_return_value == LDB_OK && g_j >= __CPROVER_old(g_pos) && g_j < g_pos) ==> (g_jaddr == result->data + (g_j - __CPROVER_old(g_pos)) && g_jhits == __CPROVER_old(g_jhits) + 1))
__CPROVER_ensures((__CPROVER_return_value == LDB_OK && (g_j < __CPROVER_old(g_pos) || g_j >= g_pos)) ==> g_jhits == __CPROVER_old(g_jhits))
;
void h_rfile_read(void) {
  ldb_rfile_t *file = alloc_rfile();
  ldb_slice_t result;
  IN_SIZE(in_count);
  unsigned char *buf = malloc(in_count);
  __CPROVER_assume(buf != NULL);
  ldb_rfile_read(file, &result, buf, in_count);
  CANARY();
}

/* ----------------------------------------------------------- ldb_rfile_skip */
#define GHOST_SEEK g_errno, g_pos, g_seek_calls, g_seek_fail
/* an offset that does not fit off_t is refused before lseek; otherwise the position moves forward by exactly
   `offset` or the failure of lseek is reported */
int c_rfile_skip(ldb_rfile_t *file, uint64_t offset)
__CPROVER_requires(__CPROVER_r_ok(file, sizeof(*file)) && file->fd == g_rfd && g_rst == 1 && g_pos <= FSIZE_MAX)
__CPROVER_assigns(GHOST_SEEK)
__CPROVER_ensures(offset > (uint64_t)INT64_MAX ==> (__CPROVER_return_value == EINVAL && g_seek_calls == __CPROVER_old(g_seek_calls) && g_pos == __CPROVER_old(g_pos)))
__CPROVER_ensures(offset <= (uint64_t)INT64_MAX ==> g_seek_calls == __CPROVER_old(g_seek_calls) + 1)
__CPROVER_ensures(__CPROVER_return_value == LDB_OK ==> (g_pos == __CPROVER_old(g_pos) + offset && g_seek_fail == __CPROVER_old(g_seek_fail)))
__CPROVER_ensures(__CPROVER_return_value != LDB_OK ==> g_pos == __CPROVER_old(g_pos))
__CPROVER_ensures(g_seek_fail != __CPROVER_old(g_seek_fail) ==> IS_SYSERR(__CPROVER_return_value))
;
void h_rfile_skip(void) {
  ldb_rfile_t *file = alloc_rfile();
  IN_U64(in_offset);
  ldb_rfile_skip(file, in_offset);
  CANARY();
}

/* ------------------------------------------- ldb_rfile_pread, descriptor variant */
#define GHOST_CLOSE_R g_rst, g_rcloses, g_close_fail
#ifdef HAVE_PREAD
/* random read of a file that is NOT mapped.  The file object either owns the descriptor, or (descriptor budget
   exhausted at creation) it holds the NAME and opens a temporary descriptor for this one read, which is closed
   exactly once on every path.  Result: as ldb_rfile_read, relative to `offset`; a failed pread gives an EMPTY
   slice and the status of the failed call. */
int c_rfile_pread_fd(ldb_rfile_t *file, ldb_slice_t *result, void *buf, size_t count, uint64_t offset)
__CPROVER_requires(__CPROVER_r_ok(file, sizeof(*file)) && __CPROVER_w_ok(result, sizeof(*result)) && FD_RI && (RF_IS_FD(file) || RF_IS_NAME(file)))
__CPROVER_requires((count == 0 || __CPROVER_w_ok(buf, count)) && count <= FSIZE_MAX && g_fsize <= FSIZE_MAX)
__CPROVER_assigns(GHOST_OPEN, GHOST_PREAD, GHOST_CLOSE_R, __CPROVER_object_whole(buf), *result)
/* an offset beyond off_t: refused, nothing happened */
__CPROVER_ensures(offset > (uint64_t)INT64_MAX ==> (__CPROVER_return_value == EINVAL && g_ropens == __CPROVER_old(g_ropens) && g_rst == __CPROVER_old(g_rst) &&
   g_read_calls == __CPROVER_old(g_read_calls) && g_rfail == __CPROVER_old(g_rfail) && result->data == __CPROVER_old(result->data) && result->size == __CPROVER_old(result->size)))
/* descriptor discipline */
__CPROVER_ensures(file->fd == g_rfd ==> (g_rst == 1 && g_ropens == __CPROVER_old(g_ropens) && g_rcloses == __CPROVER_old(g_rcloses)))
__CPROVER_ensures(file->fd == -1 ==> (g_rst != 1 && g_ropens - __CPROVER_old(g_ropens) <= 1 && g_rcloses - __CPROVER_old(g_rcloses) == g_ropens - __CPROVER_old(g_ropens)))
__CPROVER_ensures((file->fd == -1 && g_ropens != __CPROVER_old(g_ropens)) ==> g_rname == file->filename)
/* the temporary open failed: reported, slice untouched */
__CPROVER_ensures((offset <= (uint64_t)INT64_MAX && file->fd == -1 && g_ropens == __CPROVER_old(g_ropens)) ==>
   (__CPROVER_return_value == (g_open_errno == 0 ? LDB_IOERR : g_open_errno) && __CPROVER_return_value != LDB_OK && g_rfail == __CPROVER_old(g_rfail) &&
    result->data == __CPROVER_old(result->data) && result->size == __CPROVER_old(result->size)))
/* the read happened */
__CPROVER_ensures((offset <= (uint64_t)INT64_MAX && (file->fd == g_rfd || g_ropens != __CPROVER_old(g_ropens))) ==> (result->data == (uint8_t *)buf &&
   (__CPROVER_return_value == LDB_OK ? (result->size == AVAIL(offset, count) && g_rfail == __CPROVER_old(g_rfail))
                                     : (result->size == 0 && g_rfail == __CPROVER_old(g_rfail) + 1 && __CPROVER_return_value == (g_rd_errno == 0 ? LDB_IOERR : g_rd_errno)))))
__CPROVER_ensures((__CPROVER_return_value == LDB_OK && g_j >= offset && g_j - offset < result->size) ==> (g_jaddr == result->data + (g_j - offset) && g_jhits == __CPROVER_old(g_jhits) + 1))
;
void h_rfile_pread_fd(void) {
  ldb_rfile_t *file = alloc_rfile();
  ldb_slice_t result;
  IN_SIZE(in_count);
  IN_U64(in_offset);
  unsigned char *buf = malloc(in_count);
  __CPROVER_assume(buf != NULL);
  ldb_rfile_pread(file, &result, buf, in_count, in_offset);
  CANARY();
}

#else /* !HAVE_PREAD */
/* ------------------------------ ldb_rfile_pread without pread(2): lseek + read under the file's mutex */
int g_mu_held; unsigned g_mu_locks, g_mu_unlocks; ldb_mutex_t *g_mu;
void ldb_mutex_lock(ldb_mutex_t *m) { __CPROVER_assert(m == g_mu && !g_mu_held, "lock: the file's own mutex, not held"); g_mu_held = 1; g_mu_locks++; }
void ldb_mutex_unlock(ldb_mutex_t *m) { __CPROVER_assert(m == g_mu && g_mu_held, "unlock: the file's own mutex, held"); g_mu_held = 0; g_mu_unlocks++; }
#define GHOST_SEEKREAD GHOST_OPEN, g_jaddr, g_jhits, g_jclob, g_rd_errno, g_rfail, g_read_eintr, g_read_calls, g_seek_calls, g_seek_fail, GHOST_CLOSE_R, g_mu_held, g_mu_locks, g_mu_unlocks
/* same result as the pread variant; the seek and the read happen under the mutex (two threads sharing the object
   must not interleave them), which is released on every path */
int c_rfile_pread_seek(ldb_rfile_t *file, ldb_slice_t *result, void *buf, size_t count, uint64_t offset)
__CPROVER_requires(__CPROVER_rw_ok(file, sizeof(*file)) && __CPROVER_w_ok(result, sizeof(*result)) && FD_RI && (RF_IS_FD(file) || RF_IS_NAME(file)) && g_mu == &file->mutex && !g_mu_held)
__CPROVER_requires((count == 0 || __CPROVER_w_ok(buf, count)) && count <= FSIZE_MAX && g_fsize <= FSIZE_MAX)
__CPROVER_assigns(GHOST_SEEKREAD, __CPROVER_object_whole(buf), *result)
__CPROVER_ensures(!g_mu_held && g_mu_locks - __CPROVER_old(g_mu_locks) == g_mu_unlocks - __CPROVER_old(g_mu_unlocks))
__CPROVER_ensures(offset > (uint64_t)INT64_MAX ==> (__CPROVER_return_value == EINVAL && g_ropens == __CPROVER_old(g_ropens) && g_rst == __CPROVER_old(g_rst) &&
   g_read_calls == __CPROVER_old(g_read_calls) && g_seek_calls == __CPROVER_old(g_seek_calls) && result->data == __CPROVER_old(result->data) && result->size == __CPROVER_old(result->size)))
__CPROVER_ensures(file->fd == g_rfd ==> (g_rst == 1 && g_ropens == __CPROVER_old(g_ropens) && g_rcloses == __CPROVER_old(g_rcloses)))
__CPROVER_ensures(file->fd == -1 ==> (g_rst != 1 && g_ropens - __CPROVER_old(g_ropens) <= 1 && g_rcloses - __CPROVER_old(g_rcloses) == g_ropens - __CPROVER_old(g_ropens)))
__CPROVER_ensures((offset <= (uint64_t)INT64_MAX && file->fd == -1 && g_ropens == __CPROVER_old(g_ropens)) ==>
   (__CPROVER_return_value != LDB_OK && __CPROVER_return_value == (g_open_errno == 0 ? LDB_IOERR : g_open_errno) && result->data == __CPROVER_old(result->data) && result->size == __CPROVER_old(result->size)))
__CPROVER_ensures((offset <= (uint64_t)INT64_MAX && (file->fd == g_rfd || g_ropens != __CPROVER_old(g_ropens))) ==> (result->data == (uint8_t *)buf &&
   g_seek_calls == __CPROVER_old(g_seek_calls) + 1 && g_mu_locks == __CPROVER_old(g_mu_locks) + 1 &&
   (__CPROVER_return_value == LDB_OK ? (result->size == AVAIL(offset, count) && g_rfail == __CPROVER_old(g_rfail) && g_seek_fail == __CPROVER_old(g_seek_fail))
                                     : (result->size == 0 && (g_rfail == __CPROVER_old(g_rfail) + 1 || g_seek_fail == __CPROVER_old(g_seek_fail) + 1)))))
__CPROVER_ensures((__CPROVER_return_value == LDB_OK && g_j >= offset && g_j - offset < result->size) ==> (g_jaddr == result->data + (g_j - offset) && g_jhits == __CPROVER_old(g_jhits) + 1))
;
void h_rfile_pread_seek(void) {
  ldb_rfile_t *file = alloc_rfile();
  ldb_slice_t result;
  IN_SIZE(in_count);
  IN_U64(in_offset);
  unsigned char *buf = malloc(in_count);
  __CPROVER_assume(buf != NULL);
  g_mu = &file->mutex;
  ldb_rfile_pread(file, &result, buf, in_count, in_offset);
  CANARY();
}
#endif /* HAVE_PREAD */

/* ------------------------------------------------ ldb_rfile_pread, mapped variant */
/* the slice points INTO the mapping and never beyond the file size; a range that does not lie inside the file
   (including offset + count wrapping around) is refused - no system call is made */
int c_rfile_pread_map(ldb_rfile_t *file, ldb_slice_t *result, void *buf, size_t count, uint64_t offset)
__CPROVER_requires(__CPROVER_r_ok(file, sizeof(*file)) && __CPROVER_w_ok(result, sizeof(*result)) && RF_IS_MAP(file) && __CPROVER_r_ok(g_map, g_map_len))
__CPROVER_assigns(*result)
__CPROVER_ensures((offset <= file->length && count <= file->length - offset)
   ? (__CPROVER_return_value == LDB_OK && result->data == file->base + offset && result->size == count && (count == 0 || __CPROVER_r_ok(result->data, result->size)))
   : (__CPROVER_return_value == EINVAL && result->data == __CPROVER_old(result->data) && result->size == __CPROVER_old(result->size)))
;
void h_rfile_pread_map(void) {
  ldb_rfile_t *file = alloc_rfile();
  ldb_slice_t result;
  IN_SIZE(in_count);
  IN_U64(in_offset);
  IN_SIZE(in_maplen);
  g_map = malloc(in_maplen); __CPROVER_assume(g_map != NULL);
  g_map_len = in_maplen; g_map_st = 1;
  file->base = g_map;
  ldb_rfile_pread(file, &result, NULL, in_count, in_offset);
  CANARY();
}

/* --------------------------------------------------------------- limiter */
/* acquire: one unit is taken iff one is available; a refused acquire leaves the counter as it was */
int c_limiter_acquire(ldb_limiter_t *lim)
__CPROVER_requires(__CPROVER_rw_ok(lim, sizeof(*lim)) && LIM_RI(lim))
__CPROVER_assigns(lim->acquires_allowed)
__CPROVER_ensures(__CPROVER_return_value == (__CPROVER_old(lim->acquires_allowed) > 0 ? 1 : 0))
__CPROVER_ensures(lim->acquires_allowed == __CPROVER_old(lim->acquires_allowed) - __CPROVER_return_value)
;
void c_limiter_release(ldb_limiter_t *lim)
__CPROVER_requires(__CPROVER_rw_ok(lim, sizeof(*lim)) && lim->acquires_allowed >= 0 && lim->acquires_allowed < lim->max_acquires)
__CPROVER_assigns(lim->acquires_allowed)
__CPROVER_ensures(lim->acquires_allowed == __CPROVER_old(lim->acquires_allowed) + 1)
;
void h_limiter_acquire(void) { ldb_limiter_t lim; lim.acquires_allowed = nondet_int(); lim.max_acquires = nondet_int(); ldb_limiter_acquire(&lim); CANARY(); }
void h_limiter_release(void) { ldb_limiter_t lim; lim.acquires_allowed = nondet_int(); lim.max_acquires = nondet_int(); ldb_limiter_release(&lim); CANARY(); }

/* ---------------------------------------------------------- ldb_rfile_close */
#define GHOST_LIM ldb_fd_limiter.acquires_allowed, ldb_mmap_limiter.acquires_allowed
/* close releases everything the object owns exactly once - descriptor, mapping (exactly the mapped range),
   limiter slot, name - and leaves an object on which a second close does nothing; only a failing close(2)
   makes the result an error */
#define RFILE_CLOSE_SPEC \
__CPROVER_requires(__CPROVER_rw_ok(file, sizeof(*file)) && FD_RI) \
__CPROVER_requires((RF_IS_FD(file) && (file->limiter == NULL || file->limiter == &ldb_fd_limiter)) || RF_IS_NAME(file) || RF_IS_MAP(file) || RF_IS_CLOSED(file)) \
__CPROVER_requires((file->limiter != &ldb_fd_limiter || LIM_HELD(&ldb_fd_limiter)) && (file->limiter != &ldb_mmap_limiter || LIM_HELD(&ldb_mmap_limiter))) \
__CPROVER_requires((file->filename == NULL || __CPROVER_is_freeable(file->filename)) && RF_SEP(file)) \
__CPROVER_requires(!file->mapped || __CPROVER_is_freeable(g_map)) \
__CPROVER_assigns(*file, GHOST_CLOSE_R, g_errno, g_map_st, g_munmap_calls, GHOST_LIM) \
__CPROVER_frees(file->filename; file->mapped: file->base) \
__CPROVER_ensures(RF_IS_CLOSED(file)) \
__CPROVER_ensures(__CPROVER_old(file->fd) != -1 ? (g_rst == 2 && g_rcloses == __CPROVER_old(g_rcloses) + 1) : (g_rst == __CPROVER_old(g_rst) && g_rcloses == __CPROVER_old(g_rcloses))) \
__CPROVER_ensures(__CPROVER_old(file->mapped) ? (g_map_st == 2 && g_munmap_calls == __CPROVER_old(g_munmap_calls) + 1) : (g_map_st == __CPROVER_old(g_map_st) && g_munmap_calls == __CPROVER_old(g_munmap_calls))) \
__CPROVER_ensures(ldb_fd_limiter.acquires_allowed == __CPROVER_old(ldb_fd_limiter.acquires_allowed) + (__CPROVER_old(file->limiter) == &ldb_fd_limiter ? 1 : 0)) \
__CPROVER_ensures(ldb_mmap_limiter.acquires_allowed == __CPROVER_old(ldb_mmap_limiter.acquires_allowed) + (__CPROVER_old(file->limiter) == &ldb_mmap_limiter ? 1 : 0)) \
__CPROVER_ensures((__CPROVER_return_value == LDB_OK) == (g_close_fail == __CPROVER_old(g_close_fail)))
int c_rfile_close(ldb_rfile_t *file)
RFILE_CLOSE_SPEC
;
/* the same, plus: the name is really released (was_freed cannot be part of a carrier that is used in a replace: its
   side condition 'the pointer is in the frees clause' is evaluated even when the name is NULL) */
int c_rfile_close_freed(ldb_rfile_t *file)
RFILE_CLOSE_SPEC
__CPROVER_ensures(__CPROVER_old(file->filename) != NULL ==> __CPROVER_was_freed(__CPROVER_old(file->filename)))
;
static void setup_any_rfile(ldb_rfile_t *file) {
  if (nondet_int()) {
    size_t n = nondet_size();
    g_map = malloc(n); __CPROVER_assume(g_map != NULL); g_map_len = n; g_map_st = 1;
  } else {
    g_map = NULL;
  }
  if (nondet_int()) { file->filename = malloc(4); __CPROVER_assume(file->filename != NULL); } else file->filename = NULL;
  /* pointers are given real targets (a dereference through an unconstrained pointer value is not resolved by symex) */
  file->limiter = nondet_int() ? &ldb_fd_limiter : (nondet_int() ? &ldb_mmap_limiter : NULL);
  file->base = nondet_int() ? g_map : NULL;
}
void h_rfile_close(void) {
  ldb_rfile_t *file = alloc_rfile();
  setup_any_rfile(file);
  ldb_rfile_close(file);
  CANARY();
}
/* destroy = close + the object itself is freed, once */
#define RFILE_DESTROY_SPEC \
__CPROVER_requires(__CPROVER_rw_ok(file, sizeof(*file)) && FD_RI && __CPROVER_is_freeable(file)) \
__CPROVER_requires((RF_IS_FD(file) && (file->limiter == NULL || file->limiter == &ldb_fd_limiter)) || RF_IS_NAME(file) || RF_IS_MAP(file) || RF_IS_CLOSED(file)) \
__CPROVER_requires((file->limiter != &ldb_fd_limiter || LIM_HELD(&ldb_fd_limiter)) && (file->limiter != &ldb_mmap_limiter || LIM_HELD(&ldb_mmap_limiter))) \
__CPROVER_requires((file->filename == NULL || __CPROVER_is_freeable(file->filename)) && RF_SEP(file)) \
__CPROVER_requires(!file->mapped || __CPROVER_is_freeable(g_map)) \
__CPROVER_assigns(*file, GHOST_CLOSE_R, g_errno, g_map_st, g_munmap_calls, GHOST_LIM) \
__CPROVER_frees(file; file->filename; file->mapped: file->base) \
__CPROVER_ensures(__CPROVER_old(file->fd) != -1 ? (g_rst == 2 && g_rcloses == __CPROVER_old(g_rcloses) + 1) : (g_rst == __CPROVER_old(g_rst) && g_rcloses == __CPROVER_old(g_rcloses))) \
__CPROVER_ensures(__CPROVER_old(file->mapped) ? (g_map_st == 2 && g_munmap_calls == __CPROVER_old(g_munmap_calls) + 1) : (g_map_st == __CPROVER_old(g_map_st) && g_munmap_calls == __CPROVER_old(g_munmap_calls))) \
__CPROVER_ensures(ldb_fd_limiter.acquires_allowed == __CPROVER_old(ldb_fd_limiter.acquires_allowed) + (__CPROVER_old(file->limiter) == &ldb_fd_limiter ? 1 : 0)) \
__CPROVER_ensures(ldb_mmap_limiter.acquires_allowed == __CPROVER_old(ldb_mmap_limiter.acquires_allowed) + (__CPROVER_old(file->limiter) == &ldb_mmap_limiter ? 1 : 0))
void c_rfile_destroy(ldb_rfile_t *file)
RFILE_DESTROY_SPEC
;
void c_rfile_destroy_freed(ldb_rfile_t *file)
RFILE_DESTROY_SPEC
__CPROVER_ensures(__CPROVER_was_freed(file))
;
void h_rfile_destroy(void) {
  ldb_rfile_t *file = alloc_rfile();
  setup_any_rfile(file);
  ldb_rfile_destroy(file);
  CANARY();
}

/* ------------------------------------------------------- ldb_seqfile_create */
int c_seqfile_create(const char *filename, ldb_rfile_t **file)
__CPROVER_requires(filename != NULL && __CPROVER_w_ok(file, sizeof(*file)) && FD_RI && g_rst != 1)
__CPROVER_assigns(GHOST_OPEN, *file)
__CPROVER_ensures(__CPROVER_return_value == LDB_OK ==> (__CPROVER_is_fresh(*file, sizeof(ldb_rfile_t)) && (*file)->fd == g_rfd && g_rst == 1 && g_ropens == __CPROVER_old(g_ropens) + 1 &&
   g_rname == filename && g_pos == 0 && (*file)->filename == NULL && (*file)->limiter == NULL && (*file)->mapped == 0 && (*file)->base == NULL && (*file)->length == 0))
__CPROVER_ensures(__CPROVER_return_value != LDB_OK ==> (*file == __CPROVER_old(*file) && g_rst == __CPROVER_old(g_rst) && g_ropens == __CPROVER_old(g_ropens) && g_pos == __CPROVER_old(g_pos) &&
   __CPROVER_return_value == (g_open_errno == 0 ? LDB_IOERR : g_open_errno)))
__CPROVER_ensures(g_wst == __CPROVER_old(g_wst) && g_wopens == __CPROVER_old(g_wopens) && g_written == __CPROVER_old(g_written) && g_synced == __CPROVER_old(g_synced))
;
void h_seqfile_create(void) {
  ldb_rfile_t *file;
  ldb_seqfile_create(g_name_a, &file);
  CANARY();
}

/* ------------------------------------------------------ ldb_randfile_create */
static ldb_rfile_t g_sentinel;
void h_randfile_create(void) {
  ldb_rfile_t *file = &g_sentinel;
  int use_mmap = nondet_int(), rc;
  int fd0, mm0, once0;
  IN_SIZE(in_namelen);
  size_t k = nondet_size();      /* arbitrary index into the name */
  char *name = malloc(in_namelen + 1);
  __CPROVER_assume(name != NULL && in_namelen < ((size_t)1 << 16));   /* 16 x PATH_MAX; keeps counterexample traces printable */
  name[in_namelen] = 0;
  __CPROVER_assume(FD_RI && g_rst == 0 && g_map_st == 0 && g_fsize <= FSIZE_MAX && LIM_RI(&ldb_fd_limiter) && LIM_RI(&ldb_mmap_limiter));
  g_ropens = g_rcloses = 0; g_fstat_fail = g_mmap_fail = 0; g_once_done = g_once_done ? 1 : 0;
  fd0 = ldb_fd_limiter.acquires_allowed; mm0 = ldb_mmap_limiter.acquires_allowed; once0 = g_once_done;

  rc = ldb_randfile_create(name, &file, use_mmap);

  if (rc != LDB_OK) {
    CHECK(file == &g_sentinel, "randfile_create failed: no file object is handed out");
    CHECK(g_rst != 1 && g_rcloses == g_ropens, "randfile_create failed: the descriptor is not leaked (closed exactly once if it was opened)");
    CHECK(g_map_st != 1, "randfile_create failed: no mapping is left behind");
    CHECK(ldb_mmap_limiter.acquires_allowed == mm0 && ldb_fd_limiter.acquires_allowed == fd0, "randfile_create failed: the limiter slot taken for the mapping is given back");
    CHECK(g_ropens == 0 ? rc == (g_open_errno == 0 ? LDB_IOERR : g_open_errno) : (g_fstat_fail + g_mmap_fail >= 1), "randfile_create fails only because open, fstat or mmap failed, and reports that call's error");
  } else {
    CHECK(file != &g_sentinel && __CPROVER_rw_ok(file, sizeof(*file)), "randfile_create OK: a file object is handed out");
    CHECK(g_ropens == 1 && g_rname == name, "randfile_create OK: the named file was opened read-only, once");
    CHECK(g_fstat_fail == 0 && g_mmap_fail == 0, "randfile_create OK: no system call failed on the way (a failed fstat/mmap is never ignored)");
    if (file->mapped) {
      CHECK(use_mmap && mm0 > 0 && ldb_mmap_limiter.acquires_allowed == mm0 - 1, "mapped variant only when requested and a mapping slot was free; exactly one slot taken");
      CHECK(RF_IS_MAP(file) && file->length == g_fsize, "mapped variant: the object describes exactly the mapping, whose length is the file size");
      CHECK(g_rst == 2 && g_rcloses == 1, "mapped variant: the descriptor is closed exactly once after mapping");
      CHECK(ldb_fd_limiter.acquires_allowed == fd0, "mapped variant: the descriptor limiter is untouched");
    } else {
      CHECK(!use_mmap || mm0 <= 0, "descriptor variant only when mmap was not requested or no mapping slot is free");
      CHECK(ldb_mmap_limiter.acquires_allowed == mm0 && g_map_st == 0 && g_mmap_calls == g_mmap_calls, "descriptor variant: mapping limiter unchanged, nothing mapped");
      CHECK(g_once_done == 1 && LIM_RI(&ldb_fd_limiter), "descriptor variant: the environment (descriptor budget) is initialised");
      if (file->fd != -1) {
        CHECK(RF_IS_FD(file) && file->limiter == &ldb_fd_limiter && g_rcloses == 0, "descriptor kept: the object owns the open descriptor and one slot of the descriptor limiter");
        CHECK(!once0 || (fd0 > 0 && ldb_fd_limiter.acquires_allowed == fd0 - 1), "descriptor kept: exactly one descriptor slot taken, and one was free");
      } else {
        CHECK(RF_IS_NAME(file) && g_rst == 2 && g_rcloses == 1, "descriptor budget exhausted: the descriptor is closed exactly once and the object keeps the NAME instead");
        CHECK(!once0 || (fd0 <= 0 && ldb_fd_limiter.acquires_allowed == fd0), "descriptor budget exhausted: no slot taken");
        /* g_strlen_ret = the length strlen reported for the name: an index of a NUL in it */
        CHECK(g_strlen_ret <= in_namelen && name[g_strlen_ret] == 0, "the length taken of the name is the index of a terminator inside it");
        CHECK(file->filename != name && __CPROVER_r_ok(file->filename, g_strlen_ret + 1) && file->filename[g_strlen_ret] == 0, "the kept name is a private, terminated copy");
        CHECK(k > g_strlen_ret || file->filename[k] == name[k], "the kept name is the name that was given (arbitrary position up to the terminator)");
      }
    }
  }
  CANARY();
}

/* =================================================================== whole-file helpers */
/* ---------------------------------------------------------------- ldb_fsync */
#define GHOST_FSYNC g_errno, g_fsync_calls, g_fsync_ok, g_synced, g_fsync_eintr, g_t_fsync, g_clock
#define CLOCK_OK (g_clock <= (1ul << 62) && g_t_write <= g_clock && g_t_fsync <= g_clock && g_t_wclose <= g_clock && g_t_unlink <= g_clock)
/* 0: everything accepted by write(2) so far is on stable storage (one successful fdatasync/fsync, the last event);
   otherwise nothing is promised and errno is the error (never EINTR: interrupted calls are retried) */
int c_ldb_fsync(int fd)
__CPROVER_requires(fd == g_wfd && g_wst == 1 && CLOCK_OK)
__CPROVER_assigns(GHOST_FSYNC)
__CPROVER_ensures(__CPROVER_return_value == 0 || __CPROVER_return_value == -1)
__CPROVER_ensures(__CPROVER_return_value == 0 ==> (g_fsync_ok == __CPROVER_old(g_fsync_ok) + 1 && g_synced == g_written && g_t_fsync == g_clock && g_clock > __CPROVER_old(g_clock)))
__CPROVER_ensures(__CPROVER_return_value != 0 ==> (g_fsync_ok == __CPROVER_old(g_fsync_ok) && g_synced == __CPROVER_old(g_synced) && g_errno != EINTR && g_clock == __CPROVER_old(g_clock) && g_t_fsync == __CPROVER_old(g_t_fsync)))
__CPROVER_ensures(g_clock <= (1ul << 62))
;
void h_ldb_fsync(void) {
  ldb_fsync(g_wfd);
  CANARY();
}

/* ------------------------------------------------------------ ldb_copy_file */
/* write(2) side of the placement ghost: g_waddr = the address the byte written at stream position g_j was taken
   from, g_whits = how often position g_j was written; g_jclob = the place byte g_j was delivered to has been
   delivered to again before it was written out */

#define COPY_FLAGS (O_WRONLY | O_CREAT | O_EXCL)
#define GHOST_COPY g_open_calls, g_pos, g_written, g_synced, g_errno, g_open_errno, g_rst, g_wst, g_ropens, g_wopens, g_rname, g_wname, g_wflags, g_wmode, \
  g_open_eintr, g_open_einval, g_setfd_calls, g_jaddr, g_jhits, g_jclob, g_rd_errno, g_rfail, g_read_eintr, g_read_calls, \
  g_fsync_calls, g_fsync_ok, g_fsync_eintr, g_t_fsync, g_clock, g_rcloses, g_wcloses, g_close_fail, g_wclose_fail, g_fstat_calls, g_fstat_fail, g_fstat_ok_reg, \
  g_wfail, g_write_eintr, g_t_write, g_t_wclose, g_t_unlink, g_unlink_calls, g_unlink_name, g_unlink_rc, g_waddr, g_whits
/* copy `from` to a NEW file `to`:
   OK      => the destination was created exclusively (never over an existing file), received exactly the g_fsize bytes of
              the source in order (placement ghost), was fsynced after the last write and closed without error; both
              descriptors closed exactly once; nothing was removed;
   failure => no descriptor is left open; a destination created by this call is removed again (after it was closed);
              an existing destination (open failed) is never removed; the source is never written or removed;
              the result is an error whenever open / fstat / read / write / fsync / close(destination) failed */
int c_copy_file(const char *from, const char *to)
/* ghost baseline: the placement counters start at zero */
__CPROVER_requires(from != NULL && to != NULL && from != to && FD_RI && g_rst != 1 && g_wst != 1 && g_fsize <= FSIZE_MAX && CLOCK_OK && g_jhits == 0 && g_whits == 0 && !g_jclob)
__CPROVER_assigns(GHOST_COPY)
__CPROVER_ensures(g_open_calls > __CPROVER_old(g_open_calls))
__CPROVER_ensures(g_rst != 1 && g_wst != 1 && g_rcloses - __CPROVER_old(g_rcloses) == g_ropens - __CPROVER_old(g_ropens) && g_wcloses - __CPROVER_old(g_wcloses) == g_wopens - __CPROVER_old(g_wopens))
__CPROVER_ensures(g_ropens - __CPROVER_old(g_ropens) <= 1 && g_wopens - __CPROVER_old(g_wopens) <= 1)
__CPROVER_ensures(g_ropens != __CPROVER_old(g_ropens) ==> g_rname == from)
__CPROVER_ensures(g_wopens != __CPROVER_old(g_wopens) ==> (g_wname == to && g_wflags == COPY_FLAGS && g_wmode == 0644 && g_ropens != __CPROVER_old(g_ropens) && g_fstat_ok_reg))
__CPROVER_ensures(__CPROVER_return_value == LDB_OK ==> (g_ropens == __CPROVER_old(g_ropens) + 1 && g_wopens == __CPROVER_old(g_wopens) + 1 &&
   g_written == g_fsize && g_synced == g_written && g_fsync_ok == __CPROVER_old(g_fsync_ok) + 1 && g_t_write < g_t_fsync && g_t_fsync < g_t_wclose &&
   g_rfail == __CPROVER_old(g_rfail) && g_wfail == __CPROVER_old(g_wfail) && g_wclose_fail == __CPROVER_old(g_wclose_fail) && g_unlink_calls == __CPROVER_old(g_unlink_calls)))
__CPROVER_ensures((g_rfail != __CPROVER_old(g_rfail) || g_wfail != __CPROVER_old(g_wfail) || g_wclose_fail != __CPROVER_old(g_wclose_fail)) ==> __CPROVER_return_value != LDB_OK)
__CPROVER_ensures(__CPROVER_return_value != LDB_OK ==> (g_unlink_calls - __CPROVER_old(g_unlink_calls) == g_wopens - __CPROVER_old(g_wopens)))
__CPROVER_ensures((__CPROVER_return_value != LDB_OK && g_wopens != __CPROVER_old(g_wopens)) ==> (g_unlink_name == to && g_t_unlink > g_t_wclose))
/* placement: every byte of the destination comes from where the byte at the same offset of the source was delivered */
__CPROVER_ensures((__CPROVER_return_value == LDB_OK && g_j < g_fsize) ==> (g_jhits == 1 && g_whits == 1 && g_waddr == g_jaddr && !g_jclob))
;
void h_copy_file(void) {
  ldb_copy_file(g_name_a, g_name_b);
  CANARY();
}

/* ------------------------------------------------------------ ldb_link_file */
unsigned g_link_calls; int g_link_rc, g_link_errno; const char *g_link_from, *g_link_to;
int link(const char *from, const char *to) {
  g_link_calls++; g_link_from = from; g_link_to = to;
  g_link_rc = nondet_int() ? -1 : 0;
  if (g_link_rc) { g_errno = nondet_int(); g_link_errno = g_errno; }
  return g_link_rc;
}
/* hard links unsupported / impossible for this pair of names (POSIX link(2), Linux, BSD, IBM i): fall back to a copy */
#define LINK_UNSUPPORTED(e) ((e) == EXDEV || (e) == EMLINK || (e) == ENOSYS || (e) == EPERM || (e) == EOPNOTSUPP || (e) == ENOTSUP)
unsigned g_copy_calls; int g_copy_rc; const char *g_copy_from, *g_copy_to;
/* call-protocol view of ldb_copy_file for ldb_link_file (functional contract: c_copy_file) */
void h_link_file(void) {
  int rc;
  g_errno = nondet_int(); g_link_calls = 0; g_copy_calls = 0; g_unlink_calls = 0;
  __CPROVER_assume(FD_RI && g_rst != 1 && g_wst != 1 && g_fsize <= FSIZE_MAX && CLOCK_OK);
  g_jhits = 0; g_whits = 0; g_jclob = 0;
  { unsigned ro = g_ropens, wo = g_wopens; unsigned long oc = g_open_calls;
  rc = ldb_link_file(g_name_a, g_name_b);
  CHECK(g_link_calls == 1 && g_link_from == g_name_a && g_link_to == g_name_b, "link_file: link(from, to) is tried first, once");
  if (g_link_rc == 0) {
    CHECK(rc == LDB_OK && g_open_calls == oc && g_unlink_calls == 0, "link_file: link succeeded: OK, nothing copied, nothing removed");
  } else if (LINK_UNSUPPORTED(g_link_errno)) {
    CHECK(g_open_calls > oc, "link_file: hard links not possible (EXDEV, EMLINK, ENOSYS, EPERM, EOPNOTSUPP, ENOTSUP): the file is copied instead");
    CHECK(g_ropens == ro || g_rname == g_name_a, "link_file: the copy reads the link source");
    CHECK(rc != LDB_OK || (g_wopens == wo + 1 && g_wname == g_name_b && g_written == g_fsize && g_synced == g_written), "link_file: fallback OK only after a complete, synced copy to the link target");
  } else {
    CHECK(rc == (g_link_errno == 0 ? LDB_IOERR : g_link_errno) && rc != LDB_OK && g_open_calls == oc && g_unlink_calls == 0, "link_file: any other link error is reported as it is; nothing copied, nothing removed");
  }
  }
  CANARY();
}

/* ------------------------------------------- one-system-call wrappers (status mapping) */
unsigned g_nm_calls; int g_nm_rc, g_nm_errno; const char *g_nm_a, *g_nm_b; unsigned g_nm_mode; int g_nm_kind;
static int name_call(int kind, const char *a, const char *b, unsigned mode) {
  g_nm_calls++; g_nm_kind = kind; g_nm_a = a; g_nm_b = b; g_nm_mode = mode;
  g_nm_rc = nondet_int() ? -1 : 0;
  if (g_nm_rc) { g_errno = nondet_int(); g_nm_errno = g_errno; }
  return g_nm_rc;
}
int rename(const char *from, const char *to) { return name_call(1, from, to, 0); }
int mkdir(const char *path, mode_t mode) { return name_call(2, path, NULL, mode); }
int rmdir(const char *path) { return name_call(3, path, NULL, 0); }
int access(const char *path, int mode) { return name_call(4, path, NULL, (unsigned)mode); }
int stat(const char *path, struct stat *st) {
  int r = name_call(5, path, NULL, 0);
  if (r == 0) { st->st_size = (off_t)g_fsize; st->st_mode = g_fmode; }
  return r;
}
#define STATUS_OF_CALL(rc) (g_nm_rc == 0 ? (rc) == LDB_OK : ((rc) != LDB_OK && (rc) == (g_nm_errno == 0 ? LDB_IOERR : g_nm_errno)))
void h_name_ops(void) {
  int which = nondet_int(), rc;
  uint64_t size = 77;
  g_errno = nondet_int(); g_nm_calls = 0; g_unlink_calls = 0; g_fsize = nondet_ulong(); g_link_calls = 0; g_open_calls = 0; g_fmode = (unsigned)nondet_int();
  __CPROVER_assume(g_fsize <= FSIZE_MAX);
  if (which == 0) {
    rc = ldb_rename_file(g_name_a, g_name_b);
    CHECK(g_nm_calls == 1 && g_nm_kind == 1 && g_nm_a == g_name_a && g_nm_b == g_name_b, "rename_file: one rename(from, to), arguments in this order");
    CHECK(STATUS_OF_CALL(rc), "rename_file: OK iff rename succeeded, else its errno (LDB_IOERR if errno is 0)");
    CHECK(g_unlink_calls == 0, "rename_file: nothing is removed");
  } else if (which == 1) {
    rc = ldb_remove_file(g_name_a);
    CHECK(g_unlink_calls == 1 && g_unlink_name == g_name_a && g_nm_calls == 0, "remove_file: one unlink of the named file");
    CHECK(g_unlink_rc == 0 ? rc == LDB_OK : (rc != LDB_OK && rc == (g_errno == 0 ? LDB_IOERR : g_errno)), "remove_file: OK iff unlink succeeded, else its errno");
  } else if (which == 2) {
    rc = ldb_create_dir(g_name_a);
    CHECK(g_nm_calls == 1 && g_nm_kind == 2 && g_nm_a == g_name_a && g_nm_mode == 0755, "create_dir: one mkdir(name, 0755)");
    CHECK(STATUS_OF_CALL(rc), "create_dir: OK iff mkdir succeeded, else its errno (EEXIST is reported, not swallowed)");
  } else if (which == 3) {
    rc = ldb_remove_dir(g_name_a);
    CHECK(g_nm_calls == 1 && g_nm_kind == 3 && g_nm_a == g_name_a, "remove_dir: one rmdir(name)");
    CHECK(STATUS_OF_CALL(rc), "remove_dir: OK iff rmdir succeeded, else its errno");
  } else if (which == 4) {
    rc = ldb_file_exists(g_name_a);
    CHECK(g_nm_calls == 1 && g_nm_kind == 4 && g_nm_a == g_name_a && g_nm_mode == (unsigned)F_OK, "file_exists: one access(name, F_OK)");
    CHECK(rc == (g_nm_rc == 0 ? 1 : 0), "file_exists: 1 iff access succeeded");
  } else {
    rc = ldb_file_size(g_name_a, &size);
    CHECK(g_nm_calls == 1 && g_nm_kind == 5 && g_nm_a == g_name_a, "file_size: one stat(name)");
    CHECK(STATUS_OF_CALL(rc), "file_size: OK iff stat succeeded, else its errno");
    CHECK(rc == LDB_OK ? size == g_fsize : size == 77, "file_size: the size stat reported; untouched on failure");
  }
  CHECK(g_link_calls == 0 && g_open_calls == 0, "no other file-system call is made");
  CANARY();
}

/* ------------------------------------------------------------ ldb_read_file */
/* ldb_buffer_reset / ldb_buffer_append are ghost models here (sizes and order of the appended pieces; buffer.c itself:
   buf.* units).  Placement: when the piece that contains the address byte g_j of the file was delivered to is
   appended, the model records at which offset of the result that byte lands (g_app_off). */
ldb_buffer_t *g_data; unsigned long g_appends, g_app_hits, g_app_off; unsigned g_resets;
void ldb_buffer_reset(ldb_buffer_t *z) {
  __CPROVER_assert(z == g_data, "read_file: the caller's buffer is reset");
  g_resets++; z->size = 0;
}
void ldb_buffer_append(ldb_buffer_t *z, const uint8_t *xp, size_t xn) {
  __CPROVER_assert(z == g_data && g_resets == 1, "read_file: pieces are appended to the caller's buffer, after it was emptied");
  __CPROVER_assert(xn > 0 && __CPROVER_r_ok(xp, xn), "read_file: an appended piece is non-empty and readable");
  if (g_jhits > g_app_hits && __CPROVER_same_object(g_jaddr, xp) && g_jaddr >= xp && g_jaddr < xp + xn) {
    g_app_hits++; g_app_off = z->size + (unsigned long)(g_jaddr - xp);
  }
  z->size += xn; g_appends++;
}
void h_read_file(void) {
  ldb_buffer_t data;
  int rc;
  unsigned ro, rcl; unsigned long rf, size0;
  __CPROVER_assume(FD_RI && g_rst != 1 && g_fsize <= (1ul << 47));   /* the file fits the address space */
  g_data = &data; g_resets = 0; g_appends = 0; g_app_hits = 0; g_jhits = 0; g_jclob = 0;
  size0 = data.size;
  ro = g_ropens; rcl = g_rcloses; rf = g_rfail;

  rc = ldb_read_file(g_name_a, &data);

  if (g_ropens == ro) {
    CHECK(rc != LDB_OK && rc == (g_open_errno == 0 ? LDB_IOERR : g_open_errno), "read_file: a file that cannot be opened is reported with open's error");
    CHECK(g_resets == 0 && data.size == size0 && g_rcloses == rcl, "read_file: open failed: the caller's buffer is untouched");
  } else {
    CHECK(g_ropens == ro + 1 && g_rname == g_name_a, "read_file: the named file is opened once, read-only");
    CHECK(g_rst == 2 && g_rcloses == rcl + 1, "read_file: the descriptor is closed exactly once on every path");
    CHECK(g_resets == 1, "read_file: the buffer is emptied first (old content never survives in front of the file)");
    if (rc == LDB_OK) {
      CHECK(data.size == g_fsize && g_rfail == rf, "read_file OK: the WHOLE file was read (size = file size), no read failed");
      CHECK(g_j >= g_fsize || (g_jhits == 1 && g_app_hits == 1 && g_app_off == g_j), "read_file OK: byte j of the file was delivered once and appended once, at offset j of the result");
    } else {
      CHECK(g_rfail == rf + 1 && rc == (g_rd_errno == 0 ? LDB_IOERR : g_rd_errno), "read_file fails only because a read failed, and reports that error (a short file is never an error, a read error never a short file)");
      CHECK(data.size <= g_fsize, "read_file failed: the buffer holds a prefix");
    }
  }
  CANARY();
}

/* ------------------------------------------------ ldb_get_children / ldb_free_children */
/* directory model: g_nent entries; readdir hands them out in order through ONE static struct dirent (as libc does);
   every entry is ".", ".." or a regular name with arbitrary content.  ONE arbitrary entry index g_k is tracked
   (ghost-index method): its kind and name are fixed before the call, the model records how many regular entries
   came before it (= the slot it must occupy in the result). */
static char g_dirobj;
static struct dirent g_dirent;
struct dirent nondet_dirent(void);
unsigned long g_nent, g_dpos, g_nreg, g_k, g_k_slot;
int g_dir_st, g_k_kind, g_k_seen; unsigned g_opendir_calls, g_closedir_calls, g_readdir_err;
const char *g_dir_name;
char g_kname[256];
#define IS_DOT(s) ((s)[0] == '.' && ((s)[1] == 0 || ((s)[1] == '.' && (s)[2] == 0)))
#ifndef CHILDREN_MAX
#define CHILDREN_MAX 3
#endif
#ifndef NAME_MAX_B
#define NAME_MAX_B 255      /* names are terminated at or before this index */
#endif
DIR *opendir(const char *path) {
  g_opendir_calls++; g_dir_name = path;
  if (nondet_int()) { g_errno = nondet_int(); return NULL; }
  __CPROVER_assert(g_dir_st != 1, "opendir: one directory stream at a time");
  g_dir_st = 1; g_dpos = 0; g_nreg = 0;
  return (DIR *)&g_dirobj;
}
struct dirent *readdir(DIR *d) {
  int kind;
  __CPROVER_assert(d == (DIR *)&g_dirobj && g_dir_st == 1, "readdir on the open directory stream");
  __CPROVER_assert(g_errno == 0, "errno is cleared before readdir (the only way to tell the end of the directory from an error)");
  if (g_dpos >= g_nent) return NULL;                                  /* end of directory: errno untouched */
  if (nondet_int()) { g_errno = nondet_int(); __CPROVER_assume(g_errno != 0); g_readdir_err++; return NULL; }
#ifdef CHILDREN_GROW
  /* growth scenario: every entry is a regular one with the empty name (cheap), so that 9 and more names fit the budget */
  g_dirent.d_name[0] = 0; g_nreg++; g_dpos++;
  return &g_dirent;
#endif
  { size_t n; for (n = 0; n < NAME_MAX_B; n++) g_dirent.d_name[n] = (char)nondet_int(); }   /* the buffer is reused: old name overwritten */
  if (g_dpos == g_k) {
    kind = g_k_kind; g_k_seen++; g_k_slot = g_nreg;
    { size_t n; for (n = 0; n <= NAME_MAX_B; n++) g_dirent.d_name[n] = g_kname[n]; }
  } else {
    kind = nondet_int();
    if (kind == 1) { g_dirent.d_name[0] = '.'; g_dirent.d_name[1] = 0; }
    else if (kind == 2) { g_dirent.d_name[0] = '.'; g_dirent.d_name[1] = '.'; g_dirent.d_name[2] = 0; }
    else { kind = 0; g_dirent.d_name[NAME_MAX_B] = 0; __CPROVER_assume(!IS_DOT(g_dirent.d_name)); }
  }
  if (kind == 0) g_nreg++;
  g_dpos++;
  return &g_dirent;
}
int closedir(DIR *d) {
  __CPROVER_assert(d == (DIR *)&g_dirobj && g_dir_st == 1, "closedir: the stream is open (closed exactly once)");
  g_dir_st = 2; g_closedir_calls++;
  return nondet_int() ? -1 : 0;
}
static void setup_dir(void) {
  size_t n;
  g_errno = nondet_int(); g_nent = nondet_ulong(); g_k = nondet_ulong(); g_k_kind = nondet_int();
  g_dir_st = 0; g_k_seen = 0; g_opendir_calls = g_closedir_calls = g_readdir_err = 0; g_dpos = 0; g_nreg = 0;
  __CPROVER_assume(g_k_kind >= 0 && g_k_kind <= 2);
  if (g_k_kind == 1) { g_kname[0] = '.'; g_kname[1] = 0; }
  else if (g_k_kind == 2) { g_kname[0] = '.'; g_kname[1] = '.'; g_kname[2] = 0; }
  else { for (n = 0; n < NAME_MAX_B; n++) g_kname[n] = (char)nondet_int(); g_kname[NAME_MAX_B] = 0; __CPROVER_assume(!IS_DOT(g_kname)); }
}
void h_children_b(void) {
  char **list = (char **)&g_dirobj;
  int rc;
  size_t c = nondet_size();
#ifdef ENVR_CHILDREN_MODELS
  g_c = c;
#endif
  setup_dir();
  __CPROVER_assume(g_nent <= CHILDREN_MAX);
  rc = ldb_get_children(g_name_a, &list);
  CHECK(g_opendir_calls <= 1 && (g_opendir_calls == 0 || g_dir_name == g_name_a), "get_children: the named directory is opened at most once");
  CHECK(g_dir_st != 1 && g_closedir_calls == (g_dir_st == 2 ? 1u : 0u), "get_children: the directory stream is closed exactly once on every path, if it was opened");
  if (rc < 0) {
    CHECK(rc == -1 && list == NULL, "get_children failed: -1 and no list");
  } else {
    CHECK(g_dir_st == 2 && g_dpos == g_nent && g_readdir_err == 0, "get_children OK: the directory was read to its end without error (a readdir error is never taken for the end)");
    CHECK((unsigned long)rc == g_nreg, "get_children OK: the count is the number of entries other than . and ..");
    CHECK(list != NULL && __CPROVER_rw_ok(list, (size_t)rc * sizeof(char *)), "get_children OK: a list with room for that many names");
    if (g_k < g_nent) {
      CHECK(g_k_seen == 1, "every entry is delivered once");
      if (g_k_kind == 0) {
        CHECK(g_k_slot < (unsigned long)rc, "a regular entry has a slot in the list");
        CHECK(list[g_k_slot] != g_dirent.d_name && list[g_k_slot] != g_kname, "the name in the list is a private copy (readdir's buffer is reused)");
      }
    }
  }
  if (rc >= 0 && g_k < g_nent && g_k_kind == 0) {
    size_t e = 0;
    /* the copy equals the entry's name as a string: same characters up to and including the first terminator */
    while (e < NAME_MAX_B && g_kname[e] != 0) e++;
    CHECK(c > e || list[g_k_slot][c] == g_kname[c], "the name in the list is the entry's name (arbitrary character position up to the terminator)");
  }
  if (rc >= 0) ldb_free_children(list, rc);
  CANARY();
}

#ifdef CHILDREN_GROW
/* the list GROWS (initial capacity 8, then 12): up to 10 regular entries, realloc moves the list to a new object or fails */
void h_children_grow(void) {
  char **list = (char **)&g_dirobj;
  int rc;
  setup_dir();
  g_reallocs = 0; g_realloc_moves = 0; g_k_slot = 0;
  __CPROVER_assume(g_nent <= 10);
  rc = ldb_get_children(g_name_a, &list);
  CHECK(g_dir_st != 1 && g_closedir_calls == (g_dir_st == 2 ? 1u : 0u), "get_children: the directory stream is closed exactly once on every path, if it was opened");
  if (rc < 0) {
    CHECK(rc == -1 && list == NULL, "get_children failed: -1 and no list");
  } else {
    CHECK(g_dpos == g_nent && (unsigned long)rc == g_nent && g_readdir_err == 0, "get_children OK: every entry is in the list");
    CHECK(list != NULL && __CPROVER_rw_ok(list, (size_t)rc * sizeof(char *)), "get_children OK: a list with room for that many names");
    CHECK(g_reallocs == (rc > 8 ? 1u : 0u) && g_realloc_moves == g_reallocs, "the list grows exactly when the 9th name arrives (capacity 8 -> 12), and survives the move to a new object");
    ldb_free_children(list, rc);
  }
  CANARY();
}
#endif
