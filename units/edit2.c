/* units/edit2.c - version edit codec (src/version_edit.c), the parts that could be discharged quickly
 *   edit.scalar1  : ldb_edit_import on ONE scalar record (tags 2,3,4,9) with arbitrary bytes     (C17, C18, C05)
 *   edit.scalar2  : TWO scalar records: fields accumulate, a repeated tag is overwritten by the later record
 *   edit.badtag   : unknown tag / truncated record / level >= 7 / short key => 0, nothing applied to the lists
 *   edit.export   : ldb_edit_export emits tag/value pairs in the standard order (call sequence on a ghost buffer)
 * The real version_edit.c is included unmodified; vector / rb-set / buffer are ghost models, the list
 * mutators are observation points.  Bounded shapes (record counts), bytes and values symbolic.
 */
#include "verif.h"
#include "contracts/coding.h"
int nondet_int(void);
uint64_t nondet_u64(void);
size_t nondet_size(void);

/* ---- models of the containers (other translation units) ---- */
#include "util/types.h"
#include "util/rbt.h"
unsigned g_vinit, g_vclear, g_rbinit, g_rbclear, g_bufinit, g_bufclear, g_vpush, g_rbput;
void ldb_vector_init(ldb_vector_t *z) { z->items = NULL; z->length = 0; z->alloc = 0; g_vinit++; }
void ldb_vector_clear(ldb_vector_t *z) { g_vclear++; }
const void *g_last_vpush; ldb_vector_t *g_last_vpush_vec;
void ldb_vector_push(ldb_vector_t *z, const void *x) { g_vpush++; g_last_vpush = x; g_last_vpush_vec = z; z->length++; }
void ldb_rb_tree_init(rb_tree_t *tree, rb_cmp_f *compare, void *arg) { g_rbinit++; }
void ldb_rb_tree_clear(rb_tree_t *tree, rb_clear_f *clear) { g_rbclear++; }
const void *g_last_rbput; rb_tree_t *g_last_rbput_tree;
int ldb_rb_set_put(rb_tree_t *tree, const void *item) { g_rbput++; g_last_rbput = item; g_last_rbput_tree = tree; return 1; }
void *ldb_rb_set_del(rb_tree_t *tree, const void *item) { return NULL; }
void ldb_buffer_init(ldb_buffer_t *z) { z->data = NULL; z->size = 0; z->alloc = 0; g_bufinit++; }
void ldb_buffer_clear(ldb_buffer_t *z) { g_bufclear++; }
void *ldb_malloc(size_t n) { void *p = malloc(n); __CPROVER_assume(p != NULL); return p; }
void ldb_free(void *p) { free(p); }
/* internal-key copy: the destination aliases the source bytes (content copy itself: buf.* / fmt.*) */
void ldb_ikey_init(ldb_buffer_t *z) { z->data = NULL; z->size = 0; z->alloc = 0; }
void ldb_ikey_copy(ldb_buffer_t *z, const ldb_buffer_t *x) { z->data = x->data; z->size = x->size; z->alloc = 0; }
/* deleted-files set as the export loop sees it: g_dn entries (0 unless a harness sets it), visited in set order */
rb_node_t g_dnode[3]; unsigned g_dn, g_di;
void ldb_rb_iter_init(rb_iter_t *iter, const rb_tree_t *tree) { }
void ldb_rb_iter_start(rb_iter_t *iter, const rb_tree_t *tree) { g_di = 0; iter->tree = tree; iter->node = &g_dnode[0]; }
int ldb_rb_iter_valid(const rb_iter_t *iter) { return g_di < g_dn; }
void ldb_rb_iter_first(rb_iter_t *iter) { g_di = 0; iter->node = &g_dnode[0]; }
void ldb_rb_iter_next(rb_iter_t *iter) { g_di++; iter->node = &g_dnode[g_di < 2 ? g_di : 2]; }
/* export: the emitted byte stream is the sequence of these calls */
#define EV_V32 1
#define EV_V64 2
#define EV_LPS 3
unsigned g_nev; int g_evk[40]; uint64_t g_evv[40]; const void *g_evp[40];
static void ev(int k, uint64_t v, const void *p) { __CPROVER_assert(g_nev < 40, "export: no more output than the edit's fields"); g_evk[g_nev] = k; g_evv[g_nev] = v; g_evp[g_nev] = p; g_nev++; }
void ldb_buffer_varint32(ldb_buffer_t *z, uint32_t x) { ev(EV_V32, x, z); }
void ldb_buffer_varint64(ldb_buffer_t *z, uint64_t x) { ev(EV_V64, x, z); }
void ldb_buffer_export(ldb_buffer_t *z, const ldb_buffer_t *x) { ev(EV_LPS, 0, x); }
void ldb_ikey_export(ldb_buffer_t *z, const ldb_buffer_t *x) { ev(EV_LPS, 1, x); }

#include "version_edit.c"

/* observation points: the list mutators must not be reached by scalar-only input */
#define SCALAR_TAG(t) ((t) == 2 || (t) == 3 || (t) == 4 || (t) == 9)
#define FIELD_OF(e, t) ((t) == 2 ? (e)->log_number : (t) == 3 ? (e)->next_file_number : (t) == 4 ? (e)->last_sequence : (e)->prev_log_number)
#define HAS_OF(e, t) ((t) == 2 ? (e)->has_log_number : (t) == 3 ? (e)->has_next_file_number : (t) == 4 ? (e)->has_last_sequence : (e)->has_prev_log_number)

static void fresh_edit(ldb_edit_t *e) {
  /* an edit as left by a previous use: arbitrary scalars, empty lists (import resets it first) */
  e->compact_pointers.length = 0; e->new_files.length = 0; e->compact_pointers.items = NULL; e->new_files.items = NULL;
  e->comparator.data = NULL; e->comparator.size = 0; e->comparator.alloc = 0;
}

void h_scalar1(void) {
  ldb_edit_t e; ldb_slice_t src;
  uint8_t buf[12];
  IN_SIZE(in_n);
  size_t k; int r, tag;
  __CPROVER_assume(in_n >= 1 && in_n <= 11);
  fresh_edit(&e);
  /* the record sits at the END of a 12-byte array: any read past it is out of bounds */
  src.data = buf + (12 - in_n); src.size = in_n; src.alloc = 0;
  tag = src.data[0];
  __CPROVER_assume(SCALAR_TAG(tag));
  /* ONE record: continuation bits on every value byte but (possibly) the last */
  { size_t j; for (j = 1; j + 1 < in_n; j++) __CPROVER_assume(src.data[j] & 128); }
  g_vpush = g_rbput = 0;
  r = ldb_edit_import(&e, &src);
  /* the value field is bytes 1.. ; well-formed iff it is a terminated LEB128 group sequence that ends exactly at the end */
  for (k = 1; k < in_n && (src.data[k] & 128); k++) ;
  if (k < in_n && k + 1 == in_n && k <= 10) {
    CHECK(r == 1, "one well-formed scalar record decodes");
    CHECK(HAS_OF(&e, tag) == 1 && FIELD_OF(&e, tag) == V64_VAL(src.data + 1, in_n - 1), "the field named by the tag gets exactly the LEB128 value (log=2, next-file=3, last-sequence=4, prev-log=9)");
    CHECK(e.has_log_number + e.has_next_file_number + e.has_last_sequence + e.has_prev_log_number + e.has_comparator == 1, "no other field is marked present");
  } else if (k >= in_n || k > 10) {
    CHECK(r == 0, "a truncated or over-long varint makes the decoder fail");
  }
  CHECK(r == 0 || r == 1, "decoder returns 0 or 1");
  CHECK(g_vpush == 0 && g_rbput == 0, "scalar records never touch the file lists");
  CANARY();
}

void h_scalar2(void) {
  ldb_edit_t e; ldb_slice_t src;
  uint8_t buf[6];
  int t1, t2, r;
  /* two records with 2-byte varints: tag v v | tag v v */
  fresh_edit(&e);
  src.data = buf; src.size = 6; src.alloc = 0;
  t1 = buf[0]; t2 = buf[3];
  __CPROVER_assume(SCALAR_TAG(t1) && SCALAR_TAG(t2) && (buf[1] & 128) && !(buf[2] & 128) && (buf[4] & 128) && !(buf[5] & 128));
  r = ldb_edit_import(&e, &src);
  CHECK(r == 1, "two well-formed scalar records decode");
  CHECK(HAS_OF(&e, t2) == 1 && FIELD_OF(&e, t2) == V64_VAL(buf + 4, 2), "the later record's value is in effect (a repeated tag is overwritten)");
  if (t1 != t2) CHECK(HAS_OF(&e, t1) == 1 && FIELD_OF(&e, t1) == V64_VAL(buf + 1, 2), "fields of different tags accumulate");
  CANARY();
}

/* rejects: unknown tag, level >= 7, key < 8 bytes - nothing reaches the lists */
void h_badtag(void) {
  ldb_edit_t e; ldb_slice_t src;
  IN_SIZE(in_n);
  int r, tag;
  __CPROVER_assume(in_n >= 1 && in_n <= 12);
  fresh_edit(&e);
  { static uint8_t bbuf[12]; uint8_t nb[12]; size_t j; for (j = 0; j < 12; j++) bbuf[j] = nb[j]; src.data = bbuf + (12 - in_n); }
  src.size = in_n; src.alloc = 0;
  tag = src.data[0];
  g_vpush = g_rbput = 0;
  __CPROVER_assume(tag < 128 && tag != 1 && !SCALAR_TAG(tag));   /* single-byte tag varint */
  /* tags 5,6,7 with an out-of-range level, or a key shorter than 8 bytes; any other tag value */
  if (tag == 5 || tag == 6 || tag == 7) {
    int sel = nondet_int();
    if (sel) __CPROVER_assume(in_n >= 2 && src.data[1] >= 7 && src.data[1] < 128);                                    /* level >= LDB_NUM_LEVELS (one-byte varint, or continuation) */
    else { __CPROVER_assume(tag == 5 && in_n >= 3 && src.data[1] < 7 && src.data[2] < 8); }      /* compact pointer key shorter than 8 bytes */
  }
  r = ldb_edit_import(&e, &src);
  CHECK(r == 0, "unknown tags, levels >= 7 and internal keys shorter than 8 bytes are rejected");
  CHECK(g_vpush == 0 && g_rbput == 0, "a rejected record leaves the file lists untouched");
  CANARY();
}

void h_export(void) {
  ldb_edit_t e; ldb_buffer_t dst;
  unsigned i = 0;
  fresh_edit(&e);
  __CPROVER_assume((e.has_comparator == 0 || e.has_comparator == 1) && (e.has_log_number == 0 || e.has_log_number == 1) && (e.has_prev_log_number == 0 || e.has_prev_log_number == 1) &&
                   (e.has_next_file_number == 0 || e.has_next_file_number == 1) && (e.has_last_sequence == 0 || e.has_last_sequence == 1));
  g_nev = 0;
  ldb_edit_export(&dst, &e);
  if (e.has_comparator) { CHECK(g_evk[i] == EV_V32 && g_evv[i] == 1 && g_evk[i + 1] == EV_LPS && g_evp[i + 1] == &e.comparator, "export: tag 1 + length-prefixed comparator name first"); i += 2; }
  if (e.has_log_number) { CHECK(g_evk[i] == EV_V32 && g_evv[i] == 2 && g_evk[i + 1] == EV_V64 && g_evv[i + 1] == e.log_number, "export: tag 2 + varint64 log number"); i += 2; }
  if (e.has_prev_log_number) { CHECK(g_evk[i] == EV_V32 && g_evv[i] == 9 && g_evk[i + 1] == EV_V64 && g_evv[i + 1] == e.prev_log_number, "export: tag 9 + varint64 prev log number"); i += 2; }
  if (e.has_next_file_number) { CHECK(g_evk[i] == EV_V32 && g_evv[i] == 3 && g_evk[i + 1] == EV_V64 && g_evv[i + 1] == e.next_file_number, "export: tag 3 + varint64 next file number"); i += 2; }
  if (e.has_last_sequence) { CHECK(g_evk[i] == EV_V32 && g_evv[i] == 4 && g_evk[i + 1] == EV_V64 && g_evv[i + 1] == e.last_sequence, "export: tag 4 + varint64 last sequence"); i += 2; }
  CHECK(g_nev == i, "export: nothing else is emitted for an edit without file lists; absent fields are not emitted");
  for (i = 0; i < g_nev; i++) CHECK(g_evp[i] == &dst || g_evk[i] == EV_LPS, "export: everything goes to the destination buffer");
  CANARY();
}

/* ---- edit.export_lists: the list part of an edit (compact pointers, deleted files, new files) is written completely and in
 * the standard order; in particular EVERY deleted-file entry is written, also when the same file number is added again at
 * another level by the same edit (a trivial move: delete (L, n) + add (L+1, n)) ---- */
void h_export_lists(void) {
  ldb_edit_t e; ldb_buffer_t dst;
  file_entry_t d[2]; meta_entry_t m[2]; ikey_entry_t c[1];
  void *nf_items[2], *cp_items[1];
  unsigned nd = nondet_int() & 3, nn = nondet_int() & 3, nc = nondet_int() & 1, i = 0, k;
  __CPROVER_assume(nd <= 2 && nn <= 2);
  fresh_edit(&e);
  e.has_comparator = e.has_log_number = e.has_prev_log_number = e.has_next_file_number = e.has_last_sequence = 0;
  g_dnode[0].key.ptr = &d[0]; g_dnode[1].key.ptr = &d[1]; g_dnode[2].key.ptr = NULL; g_dn = nd;
  nf_items[0] = &m[0]; nf_items[1] = &m[1]; e.new_files.items = nf_items; e.new_files.length = nn; e.new_files.alloc = 2;
  cp_items[0] = &c[0]; e.compact_pointers.items = cp_items; e.compact_pointers.length = nc; e.compact_pointers.alloc = 1;
  g_nev = 0;
  ldb_edit_export(&dst, &e);
  if (nc) { CHECK(g_evk[i] == EV_V32 && g_evv[i] == 5 && g_evk[i + 1] == EV_V32 && g_evv[i + 1] == (uint64_t)(uint32_t)c[0].level && g_evk[i + 2] == EV_LPS && g_evp[i + 2] == &c[0].key,
                  "export: compact pointer = tag 5, level, length-prefixed internal key"); i += 3; }
  for (k = 0; k < 2; k++) if (k < nd) {
    CHECK(g_evk[i] == EV_V32 && g_evv[i] == 6 && g_evk[i + 1] == EV_V32 && g_evv[i + 1] == (uint64_t)(uint32_t)d[k].level && g_evk[i + 2] == EV_V64 && g_evv[i + 2] == d[k].number,
          "export: EVERY deleted-file entry is written as tag 6, level, number - whatever else the edit contains");
    i += 3;
  }
  for (k = 0; k < 2; k++) if (k < nn) {
    CHECK(g_evk[i] == EV_V32 && g_evv[i] == 7 && g_evk[i + 1] == EV_V32 && g_evv[i + 1] == (uint64_t)(uint32_t)m[k].level && g_evk[i + 2] == EV_V64 && g_evv[i + 2] == m[k].meta.number &&
          g_evk[i + 3] == EV_V64 && g_evv[i + 3] == m[k].meta.file_size && g_evk[i + 4] == EV_LPS && g_evp[i + 4] == &m[k].meta.smallest && g_evk[i + 5] == EV_LPS && g_evp[i + 5] == &m[k].meta.largest,
          "export: new file = tag 7, level, number, size, smallest, largest");
    i += 6;
  }
  CHECK(g_nev == i, "export: compact pointers, then deleted files, then new files - nothing else, nothing missing");
  CANARY();
}

/* ---- list records: ONE record of tag 6 (deleted file), 7 (new file) or 5 (compact pointer), single-byte varints except
 * the file number (2 bytes); the decoded fields must reach the edit's lists exactly ---- */
void h_list1(void) {
  ldb_edit_t e; ldb_slice_t src;
  uint8_t b[24];
  int kind = nondet_int(), r;
  size_t n = 0, k1 = nondet_size(), k2 = nondet_size();
  uint8_t level = b[1];
  fresh_edit(&e);
  __CPROVER_assume(level < 7 && k1 >= 8 && k1 <= 9 && k2 >= 8 && k2 <= 9);
  __CPROVER_assume((b[2] & 128) && !(b[3] & 128));          /* 2-byte varint64 number at b[2..3] (tags 6, 7) */
  g_vpush = g_rbput = 0; g_last_vpush = g_last_rbput = NULL;
  if (kind == 0) {            /* 06 level number */
    b[0] = 6; n = 4;
    src.data = b; src.size = n; src.alloc = 0;
    r = ldb_edit_import(&e, &src);
    CHECK(r == 1 && g_rbput == 1 && g_vpush == 0 && g_last_rbput_tree == &e.deleted_files, "deleted-file record: one entry goes into deleted_files");
    CHECK(((const file_entry_t *)g_last_rbput)->level == level && ((const file_entry_t *)g_last_rbput)->number == V64_VAL(b + 2, 2), "deleted-file record: (level, file number) exactly as encoded");
  } else if (kind == 1) {     /* 07 level number size klen key klen key */
    size_t p = 4;
    b[0] = 7; __CPROVER_assume(b[p] < 128); p++;              /* file size, 1 byte */
    b[p] = (uint8_t)k1; p++; p += k1; __CPROVER_assume(p + 1 + k2 <= 24);
    b[p] = (uint8_t)k2; p++; p += k2; n = p;
    src.data = b; src.size = n; src.alloc = 0;
    r = ldb_edit_import(&e, &src);
    CHECK(r == 1 && g_vpush == 1 && g_rbput == 0 && g_last_vpush_vec == &e.new_files, "new-file record: one entry goes into new_files");
    { const meta_entry_t *m = g_last_vpush;
      CHECK(m->level == level && m->meta.number == V64_VAL(b + 2, 2) && m->meta.file_size == b[4], "new-file record: level, number, size exactly as encoded");
      CHECK(m->meta.smallest.data == b + 6 && m->meta.smallest.size == k1 && m->meta.largest.data == b + 6 + k1 + 1 && m->meta.largest.size == k2, "new-file record: smallest then largest key, each length-prefixed"); }
  } else {                    /* 05 level klen key */
    b[0] = 5; b[2] = (uint8_t)k1; n = 3 + k1;
    src.data = b; src.size = n; src.alloc = 0;
    r = ldb_edit_import(&e, &src);
    CHECK(r == 1 && g_vpush == 1 && g_rbput == 0 && g_last_vpush_vec == &e.compact_pointers, "compact-pointer record: one entry goes into compact_pointers");
    { const ikey_entry_t *c = g_last_vpush;
      CHECK(c->level == level && c->key.data == b + 3 && c->key.size == k1, "compact-pointer record: (level, key) exactly as encoded"); }
  }
  CANARY();
}
