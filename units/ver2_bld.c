/* units/ver2_bld.c - VersionSet::Builder (group "ver2"; C14, C13, C17, C01 K11)
 *
 *   ver2.builder        builder_init -> builder_apply -> builder_save_to -> builder_clear
 *                       on the REAL red-black tree (src/util/rbt.c is included byte for byte)
 *   ver2.builder.maybe  builder_maybe_add_file under contract (real rb_set64_has)
 *
 * Stubbed (src/version_edit.c is not linked): ldb_filemeta_clone hands out one
 * static clone object per new-file entry and copies number, size and the two
 * 9-byte keys; ldb_filemeta_ref / ldb_filemeta_unref count references and
 * record a destruction (refs <= 0) in a ghost counter.
 * The edit is built by the harness from static entry objects; its deleted-file
 * set is filled through the real rb_set_put.
 */
#include "ver2_model.h"
#include "util/rbt.c"

#define NADD 2
#define NDEL 2
#define NBASE 2
/* ---- ghost description of the edit ---- */
static int a_lvl[NADD]; static uint64_t a_num[NADD], a_sz[NADD], a_stag[NADD], a_ltag[NADD]; static uint8_t a_suk[NADD], a_luk[NADD];
static int d_lvl[NDEL]; static uint64_t d_num[NDEL];
static size_t n_add, n_del, n_cp;
static int cp_lvl; static uint8_t cp_uk; static uint64_t cp_tag;
/* ---- the edit itself ---- */
static ldb_edit_t g_edit;
static meta_entry_t me_0, me_1; static uint8_t mks_0[9], mkl_0[9], mks_1[9], mkl_1[9];
static void *g_newf[NADD];
static file_entry_t de_0, de_1;
static ikey_entry_t ce_0; static uint8_t cek_0[9]; static void *g_cps[1];
/* ---- clones ---- */
static ldb_filemeta_t cl_0, cl_1; static uint8_t cks_0[9], ckl_0[9], cks_1[9], ckl_1[9];
static int g_destroyed, g_clones;
static ldb_version_t g_nv;       /* the version under construction */
static builder_t g_b;

/* dfcc havocs every non-const static at the start, rbt.c's sentinel included: restore its C initial state */
static void init_rbt(void) {
  NIL = &sentinel;
  sentinel.key.ui = 0; sentinel.val.ui = 0; sentinel.color = RB_BLACK; sentinel.parent = NULL; sentinel.left = NULL; sentinel.right = NULL;
}
static void copy9(uint8_t *d, const uint8_t *s) { d[0] = s[0]; d[1] = s[1]; d[2] = s[2]; d[3] = s[3]; d[4] = s[4]; d[5] = s[5]; d[6] = s[6]; d[7] = s[7]; d[8] = s[8]; }
ldb_filemeta_t *ldb_filemeta_clone(const ldb_filemeta_t *meta) {
  ldb_filemeta_t *f; uint8_t *ks, *kl;
  __CPROVER_assert(meta == &me_0.meta || meta == &me_1.meta, "builder_apply: clones the metadata of a new-file entry of the edit");
  if (meta == &me_0.meta) { f = &cl_0; ks = cks_0; kl = ckl_0; } else { f = &cl_1; ks = cks_1; kl = ckl_1; }
  f->refs = 0; f->allowed_seeks = (1 << 30); f->number = meta->number; f->file_size = meta->file_size;
  copy9(ks, meta->smallest.data); copy9(kl, meta->largest.data);
  f->smallest.data = ks; f->smallest.size = meta->smallest.size; f->smallest.alloc = 0;
  f->largest.data = kl; f->largest.size = meta->largest.size; f->largest.alloc = 0;
  g_clones++;
  return f;
}
void ldb_filemeta_ref(ldb_filemeta_t *z) { z->refs++; }
void ldb_filemeta_unref(ldb_filemeta_t *z) { z->refs--; if (z->refs <= 0) g_destroyed++; }

/* same order as version_edit.c's file_entry_compare (the builder only iterates the set) */
static int h_file_entry_compare(rb_val_t x, rb_val_t y, void *arg) {
  file_entry_t *xp = x.ptr, *yp = y.ptr;
  (void)arg;
  if (xp->level != yp->level) return xp->level - yp->level;
  return LDB_CMP(xp->number, yp->number);
}

static void mk_added(size_t k, int lvl, meta_entry_t *e, uint8_t *ks, uint8_t *kl) {
  a_lvl[k] = lvl;
  a_num[k] = nondet_u64(); a_sz[k] = nondet_u64(); a_suk[k] = nondet_u8(); a_luk[k] = nondet_u8(); a_stag[k] = nondet_u64(); a_ltag[k] = nondet_u64();
  __CPROVER_assume((a_stag[k] & 0xff) <= 1 && (a_ltag[k] & 0xff) <= 1);
  e->level = a_lvl[k];
  e->meta.refs = 0; e->meta.allowed_seeks = nondet_int(); e->meta.number = a_num[k]; e->meta.file_size = a_sz[k];
  mk_ikey(&e->meta.smallest, ks, a_suk[k], a_stag[k]);
  mk_ikey(&e->meta.largest, kl, a_luk[k], a_ltag[k]);
  g_newf[k] = e;
}
static void mk_deleted(size_t k, int lvl, file_entry_t *e) {
  d_lvl[k] = lvl; d_num[k] = nondet_u64();
  e->level = d_lvl[k]; e->number = d_num[k];
  rb_set_put(&g_edit.deleted_files, e);
}
/* levels are compile-time constants of the harness variant: builder->levels[level] holds trees with function pointers,
 * a symbolic level index makes symex lose them (unbounded comparator recursion) */
static void mk_edit(size_t nadd, int la0, int la1, size_t ndel, int ld0, int ld1, size_t ncp, int lcp) {
  n_add = nadd; n_del = ndel; n_cp = ncp;
  g_edit.has_comparator = 0; g_edit.has_log_number = 0; g_edit.has_prev_log_number = 0; g_edit.has_next_file_number = 0; g_edit.has_last_sequence = 0;
  g_edit.new_files.items = g_newf; g_edit.new_files.length = nadd; g_edit.new_files.alloc = NADD;
  if (nadd > 0) mk_added(0, la0, &me_0, mks_0, mkl_0);
  if (nadd > 1) mk_added(1, la1, &me_1, mks_1, mkl_1);
  rb_set_init(&g_edit.deleted_files, h_file_entry_compare, NULL);
  if (ndel > 0) mk_deleted(0, ld0, &de_0);
  if (ndel > 1) mk_deleted(1, ld1, &de_1);
  cp_lvl = lcp; cp_uk = nondet_u8(); cp_tag = nondet_u64();
  ce_0.level = cp_lvl; mk_ikey(&ce_0.key, cek_0, cp_uk, cp_tag); g_cps[0] = &ce_0;
  g_edit.compact_pointers.items = g_cps; g_edit.compact_pointers.length = ncp; g_edit.compact_pointers.alloc = 1;
}

/* (smallest internal key, then file number): the order of by_smallest_key, on ghost scalars */
#define BYSK_LT(uk1, t1, n1, uk2, t2, n2) (LT_(uk1, t1, uk2, t2) || ((uk1) == (uk2) && (t1) == (t2) && (n1) < (n2)))
#define BASE_SORTED(l) (g_n[l] < 2 || BYSK_LT(g_suk[l][0], g_stag[l][0], g_num[l][0], g_suk[l][1], g_stag[l][1], g_num[l][1]))
/* the edit deletes number n at level l, and no file added at level l carries that number (adding undoes a deletion) */
#define DEL_ENTRY(l, n) ((0 < n_del && d_lvl[0] == (l) && d_num[0] == (n)) || (1 < n_del && d_lvl[1] == (l) && d_num[1] == (n)))
#define ADD_ENTRY(l, n) ((0 < n_add && a_lvl[0] == (l) && a_num[0] == (n)) || (1 < n_add && a_lvl[1] == (l) && a_num[1] == (n)))
#define DELETED(l, n) (DEL_ENTRY(l, n) && !ADD_ENTRY(l, n))
#define RES(l) (g_nv.files[l])
#define IN_RES(l, p) ((RES(l).length > 0 && RES(l).items[0] == (void *)(p)) || (RES(l).length > 1 && RES(l).items[1] == (void *)(p)) || \
                      (RES(l).length > 2 && RES(l).items[2] == (void *)(p)) || (RES(l).length > 3 && RES(l).items[3] == (void *)(p)))

/* ghost key of a result element, by identity */
static void ghost_of(int l, const void *p, uint8_t *uk, uint64_t *tag, uint64_t *num, int *known) {
  *known = 1;
  if (p == (void *)g_fmp[l][0]) { *uk = g_suk[l][0]; *tag = g_stag[l][0]; *num = g_num[l][0]; }
  else if (p == (void *)g_fmp[l][1]) { *uk = g_suk[l][1]; *tag = g_stag[l][1]; *num = g_num[l][1]; }
  else if (p == (void *)&cl_0) { *uk = a_suk[0]; *tag = a_stag[0]; *num = a_num[0]; }
  else if (p == (void *)&cl_1) { *uk = a_suk[1]; *tag = a_stag[1]; *num = a_num[1]; }
  else { *known = 0; *uk = 0; *tag = 0; *num = 0; }
}
static void check_level(int l) {
  size_t exp = 0, j;
  /* membership */
  if (g_n[l] > 0) { int keep = !DELETED(l, g_num[l][0]); exp += keep;
    CHECK((IN_RES(l, g_fmp[l][0]) ? 1 : 0) == keep, "builder: a base file is carried over iff the edit does not delete its number at its level (deleted files never appear)");
    CHECK(g_fmp[l][0]->refs == 1 + keep, "builder: exactly the base files carried over gain one reference"); }
  if (g_n[l] > 1) { int keep = !DELETED(l, g_num[l][1]); exp += keep;
    CHECK((IN_RES(l, g_fmp[l][1]) ? 1 : 0) == keep, "builder: a base file is carried over iff the edit does not delete its number at its level (deleted files never appear)");
    CHECK(g_fmp[l][1]->refs == 1 + keep, "builder: exactly the base files carried over gain one reference"); }
  if (n_add > 0) { int here = a_lvl[0] == l; exp += here;
    CHECK((IN_RES(l, &cl_0) ? 1 : 0) == here, "builder: an added file appears at exactly the level the edit names"); }
  if (n_add > 1) { int here = a_lvl[1] == l; exp += here;
    CHECK((IN_RES(l, &cl_1) ? 1 : 0) == here, "builder: an added file appears at exactly the level the edit names"); }
  CHECK(RES(l).length == exp, "builder: the level holds (base files not deleted) + (added files), each exactly once");
  /* order */
  for (j = 0; j + 1 < NBASE + NADD; j++)
    if (j + 1 < RES(l).length) {
      uint8_t u1, u2; uint64_t t1, t2, m1, m2; int k1, k2;
      ghost_of(l, RES(l).items[j], &u1, &t1, &m1, &k1); ghost_of(l, RES(l).items[j + 1], &u2, &t2, &m2, &k2);
      CHECK(k1 && k2, "builder: every element is a base file of the level or a clone of an added file");
      CHECK(!BYSK_LT(u2, t2, m2, u1, t1, m1), "builder: the level list is sorted by (smallest internal key, then file number)");
    }
}
static void check_clone(size_t k, const ldb_filemeta_t *c, const uint8_t *ks, const uint8_t *kl) {
  int64_t q = (int64_t)(a_sz[k] / 16384);
  CHECK(c->number == a_num[k] && c->file_size == a_sz[k] && c->smallest.size == 9 && c->largest.size == 9 && ks[0] == a_suk[k] && kl[0] == a_luk[k],
        "builder: an added file carries the number, size and key range of the edit entry");
  CHECK(c->allowed_seeks == (q < 100 ? 100 : (int)q), "builder: allowed_seeks = max(100, file_size / 16384)");
  CHECK(c->refs == 1, "builder: an added file ends with exactly one reference (held by the new version) after the builder is cleared");
}

static void builder_scenario(int la0, int la1, int ld0, int ld1, int lcp) {
  IN_SIZE(in_n0); IN_SIZE(in_n1); IN_SIZE(in_nadd); IN_SIZE(in_ndel); IN_SIZE(in_ncp);
  uint8_t old_cp0, old_cp1;
  ASSUME(in_n0 <= NBASE && in_n1 <= NBASE && in_nadd <= NADD && in_ndel <= NDEL && in_ncp <= 1);
  init_rbt();
  mk_version();
  mk_level(0, in_n0); mk_level(1, in_n1);
  /* the base version is sorted by (smallest, number) at every level - builder_save_to's own postcondition, assumed for its input */
  ASSUME(BASE_SORTED(0) && BASE_SORTED(1));
  mk_edit(in_nadd, la0, la1, in_ndel, ld0, ld1, in_ncp, lcp);
  /* file numbers come from the allocator (ver.numbers): two added files never share a number */
  ASSUME(in_nadd < 2 || a_num[0] != a_num[1]);
  /* file sizes are real sizes (< 2^44: the quotient fits an int) */
  ASSUME(a_sz[0] < ((uint64_t)1 << 44) && a_sz[1] < ((uint64_t)1 << 44));
  { int l; for (l = 0; l < LDB_NUM_LEVELS; l++) ldb_buffer_init(&g_vset.compact_pointer[l]); }
  g_destroyed = 0; g_clones = 0;
  ldb_version_init(&g_nv, &g_vset);

  builder_init(&g_b, &g_vset, &g_ver);
  builder_apply(&g_b, &g_edit);
  builder_save_to(&g_b, &g_nv);
  builder_clear(&g_b);

  check_level(0); check_level(1);
  CHECK(g_nv.files[2].length == 0 && g_nv.files[6].length == 0, "builder: untouched levels stay empty");
  if (in_nadd > 0) check_clone(0, &cl_0, cks_0, ckl_0);
  if (in_nadd > 1) check_clone(1, &cl_1, cks_1, ckl_1);
  CHECK(g_clones == (int)in_nadd && g_destroyed == 0, "builder: one clone per added file, nothing is destroyed");
  CHECK(g_ver.refs == 1, "builder: the base version's reference is taken by builder_init and dropped by builder_clear");
  if (in_ncp > 0) {
    const ldb_buffer_t *cp = &g_vset.compact_pointer[cp_lvl];
    CHECK(cp->size == 9 && cp->data[0] == cp_uk && cp->data[1] == (uint8_t)cp_tag && cp->data[8] == (uint8_t)(cp_tag >> 56),
          "builder_apply: the edit's compact pointer is copied to the version set at its level");
    CHECK(g_vset.compact_pointer[1 - cp_lvl].size == 0, "builder_apply: other compact pointers stay untouched");
  } else {
    CHECK(g_vset.compact_pointer[0].size == 0 && g_vset.compact_pointer[1].size == 0, "builder_apply: no compact pointer in the edit, none set");
  }
}
/* both added files in level 0 (overlapping allowed there), deletions in level 0 and 1 */
void h_builder_00(void) { builder_scenario(0, 0, 0, 1, 0); CANARY(); }
/* both added files in level 1, both deletions in level 1 */
void h_builder_11(void) { builder_scenario(1, 1, 1, 1, 1); CANARY(); }
/* one added file per level, deletions in level 1 and 0 */
void h_builder_01(void) { builder_scenario(0, 1, 1, 0, 1); CANARY(); }

/* ======================================================================
 * ver2.builder.maybe - builder_maybe_add_file under contract
 * ====================================================================== */
static int g_lvl; static ldb_filemeta_t *g_f; static uint64_t g_dq[2]; static size_t g_ndq; static size_t g_len0; static int g_refs0;
#define F_DELETED ((0 < g_ndq && g_dq[0] == g_f->number) || (1 < g_ndq && g_dq[1] == g_f->number))
void c2_builder_maybe_add_file(builder_t *b, ldb_version_t *v, int level, ldb_filemeta_t *f)
__CPROVER_requires(b == &g_b && v == &g_nv && level == g_lvl && (g_lvl == 0 || g_lvl == 1) && f == g_f && f == &fm_0_0)
__CPROVER_requires(g_nv.files[g_lvl].length == g_len0 && g_len0 <= 2 && g_nv.files[g_lvl].alloc == 4 && __CPROVER_rw_ok(g_nv.files[g_lvl].items, 4 * sizeof(void *)))
__CPROVER_requires(fm_0_0.refs == g_refs0 && g_refs0 >= 1 && g_refs0 < 1000)
__CPROVER_assigns(fm_0_0.refs, g_nv.files[g_lvl].length, g_nv.files[g_lvl].items[g_len0])
/* deleted: nothing happens; otherwise one more reference and the file is appended */
__CPROVER_ensures(F_DELETED ==> (fm_0_0.refs == g_refs0 && g_nv.files[g_lvl].length == g_len0))
__CPROVER_ensures(!F_DELETED ==> (fm_0_0.refs == g_refs0 + 1 && g_nv.files[g_lvl].length == g_len0 + 1 && g_nv.files[g_lvl].items[g_len0] == (void *)&fm_0_0))
;
static void *g_res_items[4];
/* one call site per concrete level: g_b.levels[level] must be a constant access (the trees hold function pointers) */
static void maybe_setup(int lvl, size_t ndq, size_t len) {
  g_lvl = lvl; g_f = &fm_0_0; g_ndq = ndq; g_len0 = len;
  ldb_version_init(&g_nv, &g_vset);
  g_nv.files[lvl].items = g_res_items; g_nv.files[lvl].length = len; g_nv.files[lvl].alloc = 4;
  builder_init(&g_b, &g_vset, &g_ver);
  /* the deleted set of the level is built with the real rb_set64_put; the other level's set holds the file's own number (must be ignored) */
  g_dq[0] = nondet_u64(); g_dq[1] = nondet_u64();
  if (ndq > 0) rb_set64_put(&g_b.levels[lvl].deleted_files, g_dq[0]);
  if (ndq > 1) rb_set64_put(&g_b.levels[lvl].deleted_files, g_dq[1]);
  rb_set64_put(&g_b.levels[1 - lvl].deleted_files, fm_0_0.number);
  g_refs0 = nondet_int(); ASSUME(g_refs0 >= 1 && g_refs0 < 1000); fm_0_0.refs = g_refs0;
}
void h_builder_maybe(void) {
  IN_INT(in_level); IN_SIZE(in_ndq); IN_SIZE(in_len);
  ASSUME(in_ndq <= 2 && in_len <= 2);
  init_rbt();
  mk_version(); mk_level(0, 1);
  if (in_level == 0) { maybe_setup(0, in_ndq, in_len); builder_maybe_add_file(&g_b, &g_nv, 0, &fm_0_0); }
  else { maybe_setup(1, in_ndq, in_len); builder_maybe_add_file(&g_b, &g_nv, 1, &fm_0_0); }
  CANARY();
}
