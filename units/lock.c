/* units/lock.c - ldb_lock_file / ldb_unlock_file (src/util/env_unix_impl.h): the database LOCK
 * Property: C20 ("a database directory can be open through only one handle at a time and the lock
 * is released on close or failed open").
 *
 * The real env.c (which #includes env_unix_impl.h) is included unmodified.  On this platform the
 * code selects HAVE_SETLK, i.e. ldb_flock() = fcntl(fd, F_SETLK, whole-file F_WRLCK / F_UNLCK):
 * POSIX record locks.  open/fstat/fcntl/close, the file mutex and the red-black set are models:
 *
 *  - the file that open(2) returns a descriptor for has the identity (g_dev, g_ino); fstat reports it;
 *  - the process-wide table `file_set` is tracked for that one identity (ghost membership g_in_table;
 *    queries about other identities answer arbitrarily);
 *  - g_os_locked: this process holds the record lock on that file;
 *  - every system call can fail at every invocation; open(2) may be interrupted (EINTR) a bounded
 *    number of times and may reject O_CLOEXEC once (EINVAL fallback of ldb_try_open).
 *
 * POSIX rule (fcntl(2), "record locks are released when ANY descriptor of the file is closed by the
 * process"): the close(2) model asserts that no descriptor of a file whose identity is in the lock
 * table is ever closed (the first holder would silently lose its lock).  This obligation FAILED on
 * the tree before commit 1543e1f (the busy path opened the LOCK file, found its identity in the
 * table and closed the descriptor; native reproducer replay/native/f7_lock_lost_after_refused_open.c) and holds since the
 * table is consulted through stat(2) before the file is opened.
 *
 * stat(2) model: the LOCK file either exists (g_exists) with identity (g_dev,g_ino) - the same file
 * open(2) will return - or does not exist; stat fails exactly when it does not exist.  A file whose
 * identity is in the table exists.
 */
#include "verif.h"
#include <errno.h>
#include <sys/types.h>
#include <sys/stat.h>
#include <fcntl.h>
#include <unistd.h>

int nondet_int(void);
unsigned long nondet_ulong(void);

/* ------------------------------------------------------------------ ghost */
/* all ghost state lives in one object (a single assigns target keeps dfcc's write-set checks small) */
struct lock_ghost {
  int errno_;
  int fd_new;                 /* the descriptor open(2) hands out                                  */
  unsigned long dev, ino;     /* identity of the file behind it                                    */
  int in_table;               /* (dev,ino) is in file_set                                          */
  int exists;                 /* the LOCK file exists before the call                              */
  int os_locked;              /* this process holds the record lock on that file                   */
  int fm_held; unsigned fm_locks, fm_unlocks;
  unsigned stat_calls, has_pre, has_fd;   /* stat(2) calls; table look-ups before open / on the opened descriptor's identity */
  unsigned open_calls, open_ok, fstat_calls, fstat_ok, setlk_calls, setlk_ok, unlk_calls, unlk_ok;
  unsigned closes, has_calls, puts, puts_other, dels, dels_other, mallocs, frees;
  unsigned eintr_budget, einval_budget;
  int unlocking;              /* the call under test is ldb_unlock_file: the holder closes its own descriptor */
  const void *put_ptr; void *freed_ptr;
  unsigned long clock, t_has, t_setlk, t_put, t_del, t_unlk, t_close;
} G;
#define g_errno G.errno_
#define g_fd_new G.fd_new
#define g_dev G.dev
#define g_ino G.ino
#define g_in_table G.in_table
#define g_exists G.exists
#define g_os_locked G.os_locked
#define g_fm_held G.fm_held
#define g_fm_locks G.fm_locks
#define g_fm_unlocks G.fm_unlocks
#define g_stat_calls G.stat_calls
#define g_has_pre G.has_pre
#define g_has_fd G.has_fd
#define g_open_calls G.open_calls
#define g_open_ok G.open_ok
#define g_fstat_calls G.fstat_calls
#define g_fstat_ok G.fstat_ok
#define g_setlk_calls G.setlk_calls
#define g_setlk_ok G.setlk_ok
#define g_unlk_calls G.unlk_calls
#define g_unlk_ok G.unlk_ok
#define g_closes G.closes
#define g_has_calls G.has_calls
#define g_puts G.puts
#define g_puts_other G.puts_other
#define g_dels G.dels
#define g_dels_other G.dels_other
#define g_mallocs G.mallocs
#define g_frees G.frees
#define g_eintr_budget G.eintr_budget
#define g_einval_budget G.einval_budget
#define g_unlocking G.unlocking
#define g_put_ptr G.put_ptr
#define g_freed_ptr G.freed_ptr
#define g_clock G.clock
#define g_t_has G.t_has
#define g_t_setlk G.t_setlk
#define g_t_put G.t_put
#define g_t_del G.t_del
#define g_t_unlk G.t_unlk
#define g_t_close G.t_close
static unsigned long tick(void) { __CPROVER_assume(g_clock < (1ul << 40)); return ++g_clock; }

int *__errno_location(void) { return &g_errno; }

/* ------------------------------------------------------------ system calls */
/* open(2) and fcntl(2) are variadic.  dfcc binds its hidden write-set parameter to the first variadic argument of a call
   that carries one (measured: the model then dereferences `mode` / `&info` as a write set and the run never finishes), so
   the calls in the repository text are routed, by argument count, to fixed-arity models.  Nothing else is renamed. */
int verif_open(const char *name, int flags, unsigned mode);
int verif_fcntl(int fd, int cmd, const void *arg);
#define VERIF_SEL3(a, b, c, NAME, ...) NAME
#define VOPEN3(n, f, m) verif_open(n, f, m)
#define VOPEN2(n, f) verif_open(n, f, 0)
#define VFCNTL3(fd, c, a) verif_fcntl(fd, c, (const void *)(unsigned long)(a))
#define VFCNTL2(fd, c) verif_fcntl(fd, c, NULL)
#define open(...) VERIF_SEL3(__VA_ARGS__, VOPEN3, VOPEN2, 0)(__VA_ARGS__)
#define fcntl(...) VERIF_SEL3(__VA_ARGS__, VFCNTL3, VFCNTL2, 0)(__VA_ARGS__)

int verif_open(const char *name, int flags, unsigned mode) {
  __CPROVER_assert(g_fm_held, "the LOCK file is opened under the file mutex");
  __CPROVER_assert((flags & O_ACCMODE) == O_RDWR && (flags & O_CREAT), "the LOCK file is opened read-write and created if missing");
  __CPROVER_assert(g_open_ok == 0, "one descriptor per lock attempt");
  g_open_calls++;
  if (nondet_int()) {
    if (g_eintr_budget > 0 && nondet_int()) { g_eintr_budget--; g_errno = EINTR; return -1; }
    if ((flags & O_CLOEXEC) && g_einval_budget > 0 && nondet_int()) { g_einval_budget--; g_errno = EINVAL; return -1; }
    g_errno = nondet_int(); __CPROVER_assume(g_errno != EINTR && g_errno != EINVAL);
    return -1;
  }
  g_open_ok++;
  return g_fd_new;
}
int stat(const char *name, struct stat *st) {
  __CPROVER_assert(g_fm_held && g_open_calls == 0, "the LOCK file's identity is looked up by name under the file mutex, before it is opened");
  g_stat_calls++;
  if (!g_exists) { g_errno = ENOENT; return -1; }
  st->st_dev = g_dev; st->st_ino = g_ino;
  return 0;
}
int fstat(int fd, struct stat *st) {
  __CPROVER_assert(fd == g_fd_new && g_open_ok == 1, "fstat on the descriptor just opened");
  g_fstat_calls++;
  if (nondet_int()) { g_errno = nondet_int(); return -1; }
  st->st_dev = g_dev; st->st_ino = g_ino;
  g_fstat_ok++;
  return 0;
}
int verif_fcntl(int fd, int cmd, const void *arg) {
  const struct flock *fl = arg;
  if (cmd == F_GETFD) return 0;
  if (cmd == F_SETFD) return 0;
  __CPROVER_assert(cmd == F_SETLK, "record lock is requested without blocking (F_SETLK, never F_SETLKW)");
  __CPROVER_assert(fd == g_fd_new, "record lock call on the LOCK file's descriptor");
  __CPROVER_assert(g_fm_held, "record lock calls are made under the file mutex");
  __CPROVER_assert(fl->l_whence == SEEK_SET && fl->l_start == 0 && fl->l_len == 0, "the record lock covers the whole file");
  if (fl->l_type == F_WRLCK) {
    g_setlk_calls++;
    if (nondet_int()) { g_errno = nondet_int(); return -1; }   /* EAGAIN/EACCES: another process holds it */
    g_setlk_ok++; g_os_locked = 1; g_t_setlk = tick();
    return 0;
  }
  __CPROVER_assert(fl->l_type == F_UNLCK, "lock type is F_WRLCK (exclusive) or F_UNLCK");
  g_unlk_calls++;
  if (nondet_int()) { g_errno = nondet_int(); return -1; }
  g_unlk_ok++; g_os_locked = 0; g_t_unlk = tick();
  return 0;
}
int close(int fd) {
  __CPROVER_assert(fd == g_fd_new, "close(2) goes to the LOCK file's descriptor");
  __CPROVER_assert(g_closes == 0, "the descriptor is closed at most once");
  __CPROVER_assert(!g_in_table || g_unlocking, "close(2) is never called on a descriptor of a file whose identity is in the lock table (POSIX: closing ANY descriptor of a file releases the process's record locks on it - the first holder would lose its lock)");
  g_closes++; g_t_close = tick();
  g_os_locked = 0;              /* POSIX: all record locks of the process on this file are gone */
  return nondet_int() ? -1 : 0;
}

/* ---------------------------------------------- allocator (observable model) */
void *ldb_malloc(size_t size) { void *p = malloc(size); __CPROVER_assume(p != NULL); g_mallocs++; return p; }
void ldb_free(void *ptr) { g_frees++; g_freed_ptr = ptr; free(ptr); }

#include "util/env.c"

/* ------------------------------------------------------------ file mutex */
void ldb_mutex_lock(ldb_mutex_t *m) { __CPROVER_assert(m == &file_mutex && !g_fm_held, "lock: the file mutex, not held"); g_fm_held = 1; g_fm_locks++; }
void ldb_mutex_unlock(ldb_mutex_t *m) { __CPROVER_assert(m == &file_mutex && g_fm_held, "unlock: the file mutex, held"); g_fm_held = 0; g_fm_unlocks++; }

/* ---------------------------------------------- process-wide lock table */
#define IS_ID(item) (((const ldb_fileid_t *)(item))->dev == g_dev && ((const ldb_fileid_t *)(item))->ino == g_ino)
int ldb_rb_set_has(const rb_tree_t *tree, const void *item) {
  __CPROVER_assert(tree == &file_set && g_fm_held, "the lock table is consulted under the file mutex");
  if (IS_ID(item)) {
    __CPROVER_assert(g_fstat_ok == 1 || (g_open_calls == 0 && g_stat_calls == 1), "the identity looked up is the one stat/fstat reported");
    g_has_calls++; g_t_has = tick();
    if (g_fstat_ok) g_has_fd++; else g_has_pre++;
    return g_in_table;
  }
  return nondet_int() ? 1 : 0;
}
int ldb_rb_set_put(rb_tree_t *tree, const void *item) {
  __CPROVER_assert(tree == &file_set && g_fm_held, "the lock table is changed under the file mutex");
  if (IS_ID(item)) {
    __CPROVER_assert(!g_in_table, "an identity is inserted only when absent");
    g_in_table = 1; g_puts++; g_put_ptr = item; g_t_put = tick();
    return 1;
  }
  g_puts_other++;
  return 1;
}
void *ldb_rb_set_del(rb_tree_t *tree, const void *item) {
  __CPROVER_assert(tree == &file_set && g_fm_held, "the lock table is changed under the file mutex");
  if (IS_ID(item)) { int was = g_in_table; g_in_table = 0; g_dels++; g_t_del = tick(); return was ? (void *)item : NULL; }
  g_dels_other++;
  return NULL;
}

#define LOCK_GHOST G

/* table invariant: the identity is in the table exactly when this process holds the record lock on that file
   (established by a successful ldb_lock_file, ended by ldb_unlock_file, preserved by every failed attempt) */
#define LOCK_INV (g_in_table == g_os_locked)
#define FRESH_COUNTERS (g_open_calls == 0 && g_open_ok == 0 && g_fstat_calls == 0 && g_fstat_ok == 0 && g_setlk_calls == 0 && g_setlk_ok == 0 && \
  g_unlk_calls == 0 && g_unlk_ok == 0 && g_closes == 0 && g_has_calls == 0 && g_puts == 0 && g_puts_other == 0 && g_dels == 0 && g_dels_other == 0 && \
  g_mallocs == 0 && g_frees == 0 && g_stat_calls == 0 && g_has_pre == 0 && g_has_fd == 0 && g_clock == 0 && g_fm_held == 0 && g_fm_locks == g_fm_unlocks)

/* --------------------------------------------------------- ldb_lock_file */
int c_lock_file(const char *filename, ldb_filelock_t **lock)
__CPROVER_requires(__CPROVER_rw_ok(lock, sizeof(*lock)) && FRESH_COUNTERS && g_fd_new >= 0)
__CPROVER_requires((g_in_table == 0 || g_in_table == 1) && (g_os_locked == 0 || g_os_locked == 1) && (g_exists == 0 || g_exists == 1) && LOCK_INV)
/* a file whose identity is in the table exists */
__CPROVER_requires(!g_in_table || g_exists)
__CPROVER_requires(g_eintr_budget <= 2 && g_einval_budget <= 1 && !g_unlocking)
__CPROVER_assigns(*lock, LOCK_GHOST)
/* the file mutex is released on every path */
__CPROVER_ensures(g_fm_held == 0 && g_fm_locks == g_fm_unlocks)
/* exclusive within the process: a file that is already locked by this process is refused - WITHOUT opening it, so that the
   holder's record lock survives the refused attempt */
__CPROVER_ensures(__CPROVER_old(g_in_table) ==> (__CPROVER_return_value != LDB_OK && g_open_calls == 0 && g_closes == 0 && g_os_locked && g_in_table))
/* OK: descriptor opened, identity read from the descriptor, looked up and absent, record lock taken (exclusive, whole file,
   non-blocking), and only then the identity inserted - through the id stored in the returned lock object, which keeps the descriptor */
__CPROVER_ensures(__CPROVER_return_value == LDB_OK ==> (g_open_ok == 1 && g_fstat_ok == 1 && g_has_fd == 1 && !__CPROVER_old(g_in_table) &&
   g_setlk_calls == 1 && g_setlk_ok == 1 && g_os_locked && g_in_table && g_puts == 1 && g_t_has < g_t_setlk && g_t_setlk < g_t_put))
__CPROVER_ensures(__CPROVER_return_value == LDB_OK ==> (g_closes == 0 && g_unlk_calls == 0 && g_dels == 0 && g_frees == 0 && g_mallocs == 1 && *lock != NULL &&
   (*lock)->fd == g_fd_new && (*lock)->id.dev == g_dev && (*lock)->id.ino == g_ino && g_put_ptr == (const void *)&(*lock)->id))
/* every failure: error returned, descriptor (if any) closed exactly once, table and *lock untouched, nothing allocated or leaked */
__CPROVER_ensures((g_open_ok == 0 || g_fstat_ok == 0 || g_setlk_ok == 0) ==> __CPROVER_return_value != LDB_OK)
__CPROVER_ensures(__CPROVER_return_value != LDB_OK ==> (g_closes == g_open_ok && g_in_table == __CPROVER_old(g_in_table) && g_puts == 0 && g_puts_other == 0 &&
   *lock == __CPROVER_old(*lock) && g_mallocs == g_frees))
/* a record lock taken by a failed attempt does not outlive it; the holder's lock is never lost: the table invariant holds again */
__CPROVER_ensures(LOCK_INV)
/* the lock is requested only after the table said "absent" for the opened file (a process never re-locks a file it has locked:
   POSIX would grant it) */
__CPROVER_ensures(g_setlk_calls <= 1 && (g_setlk_calls == 1 ==> (g_has_fd == 1 && !__CPROVER_old(g_in_table))))
__CPROVER_ensures(g_dels == 0 && g_dels_other == 0 && g_unlk_calls == 0)
;

static char g_name[8];
void h_lock(void) {
  ldb_filelock_t *slot;
  g_name[0] = 'L'; g_name[1] = 0;
  ldb_lock_file(g_name, &slot);
  CANARY();
}

/* ------------------------------------------------------- ldb_unlock_file */
int c_unlock_file(ldb_filelock_t *lock)
__CPROVER_requires(__CPROVER_rw_ok(lock, sizeof(*lock)) && FRESH_COUNTERS && g_fd_new >= 0)
/* the lock object is the one a successful ldb_lock_file produced: its identity is in the table, the OS lock is held */
__CPROVER_requires(lock->fd == g_fd_new && lock->id.dev == g_dev && lock->id.ino == g_ino && g_in_table == 1 && g_os_locked == 1 && g_unlocking == 1)
__CPROVER_assigns(LOCK_GHOST, __CPROVER_object_whole(lock))
__CPROVER_frees(lock)
__CPROVER_ensures(g_fm_held == 0 && g_fm_locks == g_fm_unlocks)
/* exactly that identity leaves the table */
__CPROVER_ensures(g_in_table == 0 && g_dels == 1 && g_dels_other == 0 && g_puts == 0 && g_puts_other == 0)
/* the record lock is released explicitly, then the descriptor is closed (exactly once), then the object is freed */
__CPROVER_ensures(g_unlk_calls == 1 && g_setlk_calls == 0 && g_closes == 1 && !g_os_locked && g_open_calls == 0)
__CPROVER_ensures(g_unlk_ok ==> g_t_unlk < g_t_close)
__CPROVER_ensures(g_frees == 1 && g_freed_ptr == (void *)lock && g_mallocs == 0)
/* a failed release is reported (the descriptor is closed regardless, which drops the lock) */
__CPROVER_ensures((__CPROVER_return_value == LDB_OK) == (g_unlk_ok == 1))
;

void h_unlock(void) {
  ldb_filelock_t *lk = malloc(sizeof(ldb_filelock_t));
  __CPROVER_assume(lk != NULL);
  ldb_unlock_file(lk);
  CANARY();
}
