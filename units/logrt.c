/* units/logrt.c - writer -> reader ROUND TRIP through the real log_writer.c and
 * log_reader.c linked in one harness (C15, C03, C04).  Bounded by nature.
 *
 * Both files are included unmodified and run on their PRODUCTION paths
 * (lw->dst == NULL, lr->src == NULL).  The environment is one in-memory file:
 *   - ldb_wfile_append appends to it, and at the same time is an independent
 *     decoder of the LevelDB log format (header crc/len16/type, fragmentation
 *     protocol, zero trailers < 7 bytes), as in units/logw.c;
 *   - ldb_rfile_read serves block-sized reads of its first g_cut bytes (g_cut
 *     = the truncation point) by pointing into the file (an mmap-style env).
 * Payload bytes are never inspected by writer or reader except through the crc
 * function and the scratch buffer, so the file stores headers and trailers
 * byte for byte and, of the payloads, only the byte (record g_k, index g_j)
 * for an ARBITRARY ghost pair (g_k, g_j); every other payload byte of the file
 * is arbitrary (an over-approximation of the real content).
 * crc32c is uninterpreted: a fresh arbitrary value per fragment written; the
 * reader's evaluation over the very same file region returns that value
 * (determinism), over any other region an arbitrary value.
 */
#include "verif.h"
#include "contracts/coding.h"

#include "util/env.h"
#include "util/buffer.h"
#include "util/crc32c.h"
#include "util/status.h"
#include "util/internal.h"
#include "log_format.h"
#include "log_writer.h"
#include "log_reader.h"

struct ldb_wfile_s { int dummy; };
struct ldb_rfile_s { int dummy; };
ldb_wfile_t g_wfile;
ldb_rfile_t g_rfile;

#define SPEC_MASK(c) ((uint32_t)((((uint32_t)(c) >> 15) | ((uint32_t)(c) << 17)) + 0xa282ead8u))

#define PH_INIT 0   /* ldb_writer_init: crc of the one-byte type strings */
#define PH_WRITE 1
#define PH_READ 2
#define EXP_HEADER 0
#define EXP_PAYLOAD 1
#define MAXF 12      /* fragment table capacity (asserted sufficient) */

/* ---- the in-memory file ---- */
uint8_t *g_file; size_t g_cap; size_t g_len;
size_t g_cut;        /* bytes of the file the reader can see (truncation point) */
size_t g_rpos;       /* read position */
unsigned long g_reads;
/* ---- fragment table (what was written where, and its uninterpreted crc) ---- */
size_t g_fpos[MAXF]; size_t g_flen[MAXF]; uint32_t g_fcrc[MAXF]; unsigned g_ftype[MAXF];
unsigned g_nfrag;
/* ---- reference-encoder tracker (as units/logw.c) ---- */
int g_phase;
int g_expect, g_off, g_rec_state;
size_t g_cov; const uint8_t *g_base; size_t g_total;
unsigned g_cur_type; size_t g_cur_len; uint32_t g_hdr_crc;
uint32_t g_tcrc[8];
uint32_t g_crc_z; const uint8_t *g_crc_p; size_t g_crc_n; uint32_t g_crc_ret;
unsigned g_trailers;
/* ---- ghost content index ---- */
int g_k, g_cur_rec; size_t g_j;
/* ---- reader side ---- */
unsigned long g_reports; size_t g_rep_bytes; int g_rep_status;
uint8_t g_scratch_obj[1]; uint8_t g_scratch_byte;

uint32_t ldb_crc32c_extend(uint32_t z, const uint8_t *xp, size_t xn) {
  if (g_phase == PH_INIT) {
    __CPROVER_assert(z == 0 && xn == 1 && __CPROVER_r_ok(xp, 1), "init: crc of a one-byte type string");
    return g_tcrc[*xp & 7];
  }
  if (g_phase == PH_WRITE) {
    g_crc_z = z; g_crc_p = xp; g_crc_n = xn; g_crc_ret = nondet_u32();
    return g_crc_ret;
  }
  {
    size_t q;
    uint32_t r = nondet_u32();
    __CPROVER_assert(z == 0 && xn >= 1, "reader: crc is computed from scratch over type byte + payload");
    __CPROVER_assert(__CPROVER_same_object(xp, g_file), "reader: crc region is in the file block");
    q = (size_t)(xp - g_file);
    __CPROVER_assert(q >= 6 && q + xn <= g_cut, "reader: crc region (and its header) lie inside the visible file");
#define FR(i) if ((i) < g_nfrag && g_fpos[i] + 6 == q && g_flen[i] + 1 == xn) r = g_fcrc[i];
    FR(0) FR(1) FR(2) FR(3) FR(4) FR(5) FR(6) FR(7) FR(8) FR(9) FR(10) FR(11)
#undef FR
    return r;
  }
}

int ldb_wfile_append(ldb_wfile_t *file, const ldb_slice_t *data) {
  const uint8_t *d = data->data;
  size_t n = data->size;
  __CPROVER_assert(file == &g_wfile, "log: appends go to the writer's file");
  __CPROVER_assert(n == 0 || __CPROVER_r_ok(d, n), "log: appended slice readable");
  __CPROVER_assert(g_len + n <= g_cap, "model: file capacity suffices");
  if (g_expect == EXP_HEADER) {
    if (g_off == LDB_BLOCK_SIZE)
      g_off = 0; /* block boundary */
    if (n < LDB_HEADER_SIZE) {
      __CPROVER_assert(n > 0 && (int)n == LDB_BLOCK_SIZE - g_off, "log format: a short append is a trailer filling the block exactly (< 7 bytes)");
      __CPROVER_assert((n < 1 || d[0] == 0) && (n < 2 || d[1] == 0) && (n < 3 || d[2] == 0) && (n < 4 || d[3] == 0) &&
                       (n < 5 || d[4] == 0) && (n < 6 || d[5] == 0), "log format: trailer bytes are zero");
      /* trailer bytes are never looked at by the reader: checked here, not stored */
      g_off = 0;
      g_trailers++;
    } else {
      unsigned type; size_t len;
      __CPROVER_assert(n == LDB_HEADER_SIZE, "log format: header is 7 bytes");
      len = (size_t)d[4] | ((size_t)d[5] << 8);
      type = d[6];
      __CPROVER_assert(type >= LDB_TYPE_FULL && type <= LDB_TYPE_LAST, "log format: record type is FULL=1/FIRST=2/MIDDLE=3/LAST=4");
      __CPROVER_assert(g_off + LDB_HEADER_SIZE + (int)len <= LDB_BLOCK_SIZE, "log format: fragment fits in its 32 KiB block");
      __CPROVER_assert(g_off <= LDB_BLOCK_SIZE - LDB_HEADER_SIZE, "log format: never start a header in the last 6 bytes of a block");
      __CPROVER_assert((size_t)g_off == g_len % LDB_BLOCK_SIZE, "log format: block offset of the header is its file offset mod 32768");
      if (g_rec_state == 0)
        __CPROVER_assert(type == LDB_TYPE_FULL || type == LDB_TYPE_FIRST, "log protocol: a logical record starts with FULL or FIRST");
      else
        __CPROVER_assert(type == LDB_TYPE_MIDDLE || type == LDB_TYPE_LAST, "log protocol: FIRST is continued by MIDDLE or LAST");
      __CPROVER_assert(((type == LDB_TYPE_FULL || type == LDB_TYPE_LAST) ? 1 : 0) == ((g_cov + len == g_total) ? 1 : 0),
                       "log protocol: FULL/LAST iff the fragment ends the record");
      __CPROVER_assert(g_cov + len <= g_total, "log protocol: fragments never exceed the record");
      __CPROVER_assert(g_cov + len == g_total || g_off + LDB_HEADER_SIZE + (int)len == LDB_BLOCK_SIZE,
                       "log format: a non-final fragment fills its block");
      g_cur_type = type; g_cur_len = len;
      g_hdr_crc = LE32_AT(d);
      __CPROVER_assert(g_nfrag < MAXF, "model: fragment table suffices");
      g_fpos[g_nfrag] = g_len; g_flen[g_nfrag] = len; g_ftype[g_nfrag] = type;
      /* write-once file: storing = constraining the (arbitrary) initial content at fresh positions */
      __CPROVER_assume(g_file[g_len + 0] == d[0] && g_file[g_len + 1] == d[1] && g_file[g_len + 2] == d[2] && g_file[g_len + 3] == d[3] &&
                       g_file[g_len + 4] == d[4] && g_file[g_len + 5] == d[5] && g_file[g_len + 6] == d[6]);
      g_expect = EXP_PAYLOAD;
      g_off += LDB_HEADER_SIZE;
    }
  } else {
    __CPROVER_assert(n == g_cur_len, "log format: payload length equals the header's length field");
    __CPROVER_assert(d == g_base + g_cov, "log protocol: fragments are contiguous, in order, pointing into the caller's record");
    __CPROVER_assert(g_crc_z == g_tcrc[g_cur_type & 7] && g_crc_p == d && g_crc_n == n,
                     "log format: crc covers the type byte followed by exactly this payload");
    __CPROVER_assert(g_hdr_crc == SPEC_MASK(g_crc_ret), "log format: header stores the masked crc32c little-endian");
    g_fcrc[g_nfrag] = g_crc_ret;
    g_nfrag++;
    /* of the payload, the file keeps the ghost byte only */
    if (g_cur_rec == g_k && g_j >= g_cov && g_j - g_cov < n)
      __CPROVER_assume(g_file[g_len + (g_j - g_cov)] == d[g_j - g_cov]);
    g_cov += n;
    g_off += (int)n;
    g_rec_state = (g_cur_type == LDB_TYPE_FULL || g_cur_type == LDB_TYPE_LAST) ? 0 : 1;
    g_expect = EXP_HEADER;
  }
  g_len += n;
  return LDB_OK;
}

int ldb_wfile_flush(ldb_wfile_t *file) {
  __CPROVER_assert(file == &g_wfile, "log: flush goes to the writer's file");
  __CPROVER_assert(g_expect == EXP_HEADER, "log: flush only after a complete physical record");
  return LDB_OK;
}

/* sequential read of the first g_cut bytes; the result points into the file */
int ldb_rfile_read(ldb_rfile_t *file, ldb_slice_t *result, void *buf, size_t count) {
  size_t k = g_cut - g_rpos;
  __CPROVER_assert(file == &g_rfile, "reader reads its own file");
  __CPROVER_assert(count == LDB_BLOCK_SIZE, "reader reads block-sized chunks");
  __CPROVER_assert(g_rpos % LDB_BLOCK_SIZE == 0, "reader reads are block aligned");
  if (k > count) k = count;
  result->data = g_file + g_rpos; result->size = k; result->alloc = 0;
  g_rpos += k;
  g_reads++;
  return LDB_OK;
}

int ldb_rfile_skip(ldb_rfile_t *file, uint64_t offset) {
  __CPROVER_assert(0, "reader: skip unreachable (initial_offset == 0)");
  return LDB_OK;
}

static void stub_corruption(ldb_reporter_t *reporter, size_t bytes, int status) {
  g_reports++; g_rep_bytes = bytes; g_rep_status = status;
}

/* scratch buffer of the reader: length + the byte at the ghost index (buffer.c is verified in buf.*) */
void ldb_buffer_reset(ldb_buffer_t *z) { z->size = 0; }
void ldb_buffer_set(ldb_buffer_t *z, const uint8_t *xp, size_t xn) {
  __CPROVER_assert(xn == 0 || __CPROVER_r_ok(xp, xn), "scratch set: source readable");
  z->data = g_scratch_obj; z->size = xn;
  if (g_j < xn) g_scratch_byte = xp[g_j];
}
void ldb_buffer_append(ldb_buffer_t *z, const uint8_t *xp, size_t xn) {
  __CPROVER_assert(xn == 0 || __CPROVER_r_ok(xp, xn), "scratch append: source readable");
  if (g_j >= z->size && g_j - z->size < xn) g_scratch_byte = xp[g_j - z->size];
  z->data = g_scratch_obj; z->size += xn;
}
void ldb_buffer_concat(ldb_buffer_t *z, const ldb_slice_t *x) { __CPROVER_assert(0, "lw->dst path unreachable (dst == NULL)"); }

/* symbolic size >= request keeps the (unused) 32 KiB backing store out of the bit-blaster */
void *ldb_malloc(size_t size) { size_t m = nondet_size(); void *p; __CPROVER_assume(m >= size); p = malloc(m); __CPROVER_assume(p != NULL); return p; }
void ldb_free(void *ptr) { free(ptr); }
int sprintf(char *str, const char *format, ...) { return nondet_int(); }

#include "log_writer.c"
#include "log_reader.c"

/* ------------------------------------------------------------ harness */
#ifndef RT_MAXREC
#define RT_MAXREC 3
#endif

static ldb_writer_t g_lw;
static ldb_reader_t g_lr;
static ldb_reporter_t g_reporter;
static uint8_t *g_data[RT_MAXREC];
static size_t g_L[RT_MAXREC], g_end[RT_MAXREC];

/* record k: arbitrary length <= maxlen, arbitrary content; optionally the log is
 * reopened first (ldb_writer_init at the current file length = log reuse) */
static void write_one(int k, size_t maxlen, int reuse) {
  ldb_slice_t slice;
  int rc;
  g_L[k] = nondet_size();
  __CPROVER_assume(g_L[k] <= maxlen);
  g_data[k] = malloc(g_L[k]);
  __CPROVER_assume(g_data[k] != NULL);
  if (reuse && nondet_int()) {
    g_phase = PH_INIT;
    ldb_writer_init(&g_lw, &g_wfile, g_len);
  }
  g_phase = PH_WRITE;
  g_cur_rec = k; g_cov = 0; g_base = g_data[k]; g_total = g_L[k];
  slice.data = g_data[k]; slice.size = g_L[k]; slice.alloc = 0;
  rc = ldb_writer_add_record(&g_lw, &slice);
  CHECK(rc == LDB_OK, "writer: add_record succeeds when the file accepts everything");
  CHECK(g_cov == g_total && g_rec_state == 0 && g_expect == EXP_HEADER, "writer: exactly one complete logical record covering the slice");
  g_end[k] = g_len;
}

/* returns 1 if record k was read back; checks it against what was written */
static int read_one(int k, ldb_slice_t *rec, ldb_buffer_t *scratch) {
  int rc = ldb_reader_read_record(&g_lr, rec, scratch);
  int present = g_end[k] <= g_cut;
  CHECK(rc == present, "round trip: record k is returned iff it lies wholly before the cut (records in order, none dropped/duplicated)");
  if (!rc) return 0;
  CHECK(rec->size == g_L[k], "round trip: record k comes back with the length written");
  if (k == g_k && g_j < g_L[k]) {
    uint8_t got = (rec->data == g_scratch_obj) ? g_scratch_byte : rec->data[g_j];
    CHECK(got == g_data[k][g_j], "round trip: record k comes back with the bytes written (arbitrary index)");
  }
  CHECK(g_lr.last_end == g_end[k], "reader: last_end is the file offset just past the returned record");
  return 1;
}

static void rt_setup(void) {
  g_cap = nondet_size();
  __CPROVER_assume(g_cap >= (size_t)RT_MAXREC * 5 * LDB_BLOCK_SIZE);
  g_file = malloc(g_cap);
  __CPROVER_assume(g_file != NULL);
  g_len = 0; g_nfrag = 0; g_trailers = 0;
  g_expect = EXP_HEADER; g_off = 0; g_rec_state = 0;
  g_tcrc[0] = nondet_u32(); g_tcrc[1] = nondet_u32(); g_tcrc[2] = nondet_u32(); g_tcrc[3] = nondet_u32();
  g_tcrc[4] = nondet_u32(); g_tcrc[5] = nondet_u32(); g_tcrc[6] = nondet_u32(); g_tcrc[7] = nondet_u32();
  g_k = nondet_int(); g_j = nondet_size();
  g_reports = 0; g_reads = 0; g_rpos = 0;
  g_phase = PH_INIT;
  ldb_writer_init(&g_lw, &g_wfile, 0);
}

static void rt_open_reader(ldb_buffer_t *scratch) {
  g_phase = PH_READ;
  g_reporter.corruption = stub_corruption; g_reporter.status = NULL;
  ldb_reader_init(&g_lr, &g_rfile, &g_reporter, 1, 0);
  scratch->data = NULL; scratch->size = 0; scratch->alloc = 0;
}

static void rt_finish(ldb_buffer_t *scratch) {
  CHECK(g_reports == 0, "round trip / torn tail: nothing is reported to the corruption reporter");
  CHECK(g_lr.eof == 1 && g_lr.buffer.size == 0, "reader: ends at end of file");
  CHECK(g_rpos == g_cut, "reader: consumed the whole visible file");
}

/* ghost-indexed header: fragment in_f of the file is laid out as the standard says */
static void check_header(void) {
  unsigned f = (unsigned)nondet_int();
  const uint8_t *h;
  __CPROVER_assume(f < g_nfrag);
  h = g_file + g_fpos[f];
  CHECK(LE32_AT(h) == SPEC_MASK(g_fcrc[f]), "file bytes: header[0..3] = masked crc32c, little endian");
  CHECK(h[4] == (uint8_t)(g_flen[f] & 255) && h[5] == (uint8_t)(g_flen[f] >> 8) && g_flen[f] <= 0xffff, "file bytes: header[4..5] = payload length, little endian");
  CHECK(h[6] == g_ftype[f] && h[6] >= 1 && h[6] <= 4, "file bytes: header[6] = type FULL=1 FIRST=2 MIDDLE=3 LAST=4");
  CHECK(g_fpos[f] % LDB_BLOCK_SIZE <= LDB_BLOCK_SIZE - LDB_HEADER_SIZE && g_fpos[f] % LDB_BLOCK_SIZE + LDB_HEADER_SIZE + g_flen[f] <= LDB_BLOCK_SIZE,
        "file bytes: header and payload lie inside one 32 KiB block");
  CHECK(f + 1 >= g_nfrag || g_fpos[f + 1] - (g_fpos[f] + LDB_HEADER_SIZE + g_flen[f]) < LDB_HEADER_SIZE,
        "file bytes: at most a trailer of < 7 bytes separates consecutive physical records");
}

/* log.rt: 3 records, each <= RT3_MAXLEN (at most 2 fragments), whole file visible */
#define RT3_MAXLEN (LDB_BLOCK_SIZE - LDB_HEADER_SIZE)
void h_rt3(void) {
  ldb_slice_t rec; ldb_buffer_t scratch; int rc;
  rt_setup();
  write_one(0, RT3_MAXLEN, 1); write_one(1, RT3_MAXLEN, 1); write_one(2, RT3_MAXLEN, 1);
  check_header();
  g_cut = g_len;
  rt_open_reader(&scratch);
  read_one(0, &rec, &scratch); read_one(1, &rec, &scratch); read_one(2, &rec, &scratch);
  rc = ldb_reader_read_record(&g_lr, &rec, &scratch);
  CHECK(rc == 0, "round trip: after the last record the reader reports end of file");
  rt_finish(&scratch);
  CANARY();
}

/* log.rt.cut: 3 records, file cut at an arbitrary offset */
void h_rt3_cut(void) {
  ldb_slice_t rec; ldb_buffer_t scratch; int rc;
  rt_setup();
  write_one(0, RT3_MAXLEN, 1); write_one(1, RT3_MAXLEN, 1); write_one(2, RT3_MAXLEN, 1);
  g_cut = nondet_size();
  __CPROVER_assume(g_cut <= g_len);
  rt_open_reader(&scratch);
  if (read_one(0, &rec, &scratch) && read_one(1, &rec, &scratch) && read_one(2, &rec, &scratch)) {
    rc = ldb_reader_read_record(&g_lr, &rec, &scratch);
    CHECK(rc == 0, "round trip: after the last record the reader reports end of file");
  }
  rt_finish(&scratch);
  CANARY();
}

/* log.rt.long: 2 records of up to 3*32768+16 bytes (FIRST MIDDLE* LAST, up to 5 fragments), cut anywhere */
#define RTL_MAXLEN (3 * LDB_BLOCK_SIZE + 16)
void h_rt2_long(void) {
  ldb_slice_t rec; ldb_buffer_t scratch; int rc;
  rt_setup();
  write_one(0, RTL_MAXLEN, 1); write_one(1, RTL_MAXLEN, 1);
  check_header();
  g_cut = nondet_size();
  __CPROVER_assume(g_cut <= g_len);
  rt_open_reader(&scratch);
  if (read_one(0, &rec, &scratch) && read_one(1, &rec, &scratch)) {
    rc = ldb_reader_read_record(&g_lr, &rec, &scratch);
    CHECK(rc == 0, "round trip: after the last record the reader reports end of file");
  }
  rt_finish(&scratch);
  CANARY();
}

/* log.rt.one: ONE record of up to 2*(32768-7) bytes written at file offset 0 (FULL, or FIRST filling block 0 + LAST in
 * block 1: ends before / exactly at / after the first block boundary), file cut at an arbitrary offset (cut == length
 * included): the record comes back iff it lies wholly before the cut, then end of file, nothing reported. */
#define RT1_MAXLEN (2 * (LDB_BLOCK_SIZE - LDB_HEADER_SIZE))
void h_rt1(void) {
  ldb_slice_t rec; ldb_buffer_t scratch; int rc;
  rt_setup();
  write_one(0, RT1_MAXLEN, 0);
  g_cut = nondet_size();
  __CPROVER_assume(g_cut <= g_len);
  rt_open_reader(&scratch);
  if (read_one(0, &rec, &scratch)) {
    rc = ldb_reader_read_record(&g_lr, &rec, &scratch);
    CHECK(rc == 0, "round trip: after the last record the reader reports end of file");
  }
  rt_finish(&scratch);
  CANARY();
}
