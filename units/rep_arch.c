/* units/rep_arch.c - archive_file (src/repair.c): a file repair gives up on is moved to <dir>/lost/<base>,
 * never unlinked (C19: nothing that may hold surviving data is destroyed; C13).
 * Enforces c_archive_file (contracts/rep.h), the carrier used by rep.desc / rep.scan / rep.logs.
 */
#include "verif.h"
int nondet_int(void);
uint64_t nondet_u64(void);
size_t nondet_size(void);

#include "repair.c"
#define REP_ARCH_EXTRA , g_dir_buf, g_dir_src, g_dir_calls, g_j_z, g_j_x, g_j_y, g_j_calls, g_base_src, g_base_ret, g_base_calls, g_mk_dir, g_mk_calls, \
  g_ren_calls, g_ren_from, g_ren_to, g_clock, g_t_mkdir, g_t_rename, g_arch_removes
/* forward declarations of this unit's stub ghost (named in the contract's assigns clause) */
static const char *g_dir_buf, *g_dir_src; static int g_dir_calls;
static char *g_j_z[2]; static const char *g_j_x[2], *g_j_y[2]; static int g_j_calls;
static const char *g_base_src, *g_base_ret; static int g_base_calls;
static const char *g_mk_dir; static int g_mk_calls, g_ren_calls; static const char *g_ren_from, *g_ren_to;
static unsigned long g_clock, g_t_mkdir, g_t_rename;
#include "contracts/rep.h"

/* path helpers: symbolic; each call records its operands */
static const char *g_dir_buf, *g_dir_src; static int g_dir_calls;
static char *g_j_z[2]; static const char *g_j_x[2], *g_j_y[2]; static int g_j_calls;
static const char *g_base_src, *g_base_ret; static int g_base_calls;
static const char *g_mk_dir; static int g_mk_calls, g_ren_calls; static const char *g_ren_from, *g_ren_to;
static unsigned long g_clock, g_t_mkdir, g_t_rename;
static char g_base_obj[2];

int ldb_dirname(char *buf, size_t size, const char *fname) { g_dir_calls++; g_dir_buf = buf; g_dir_src = fname; if (nondet_int()) return 0; buf[0] = 0; return 1; }
int ldb_join(char *zp, size_t zn, const char *xp, const char *yp) {
  __CPROVER_assert(g_j_calls < 2 && __CPROVER_w_ok(zp, zn) && zn >= 1, "at most two joins, into valid buffers");
  if (g_j_calls < 2) { g_j_z[g_j_calls] = zp; g_j_x[g_j_calls] = xp; g_j_y[g_j_calls] = yp; }
  g_j_calls++;
  if (nondet_int()) return 0;
  zp[0] = 0; return 1;
}
const char *ldb_basename(const char *fname) { g_base_calls++; g_base_src = fname; g_base_ret = g_base_obj; return g_base_obj; }
int ldb_create_dir(const char *dirname) { g_mk_calls++; g_mk_dir = dirname; g_t_mkdir = ++g_clock; return nondet_int(); }
int ldb_rename_file(const char *from, const char *to) {
  g_ren_calls++; g_ren_from = from; g_ren_to = to; g_t_rename = ++g_clock;
  /* observation point of the carrier: one archive = one rename of the named file */
  g_arch_calls++; g_arch_name = from; g_arch_kind = NM_KIND_OF(from); g_arch_num = NM_NUM_OF(from);
  if (NM_KIND_OF(from) == g_arch_track_kind && NM_NUM_OF(from) == g_arch_track_num) g_arch_track_hits++;
  return nondet_int();
}
int ldb_remove_file(const char *filename) { g_arch_removes++; return nondet_int(); }
void ldb_log(ldb_logger_t *logger, const char *fmt, ...) { }   /* variadic: dfcc cannot thread a write set through it - keep it empty */
const char *ldb_strerror(int code) { return "e"; }

void h_archive(void) {
  ldb_repair_t *rep = malloc(sizeof(*rep));
  char *name = malloc(4);
  __CPROVER_assume(rep != NULL && name != NULL);
  name[0] = 'd'; name[1] = '/'; name[2] = 'f'; name[3] = 0;
  g_rep = rep;
  if (nondet_int()) { g_nm_buf = name; g_pin_buf = NULL; } else { g_pin_buf = name; g_nm_buf = NULL; }   /* the latest name, or the one handed down */
  g_arch_removes = 0; g_dir_calls = g_j_calls = g_base_calls = g_mk_calls = g_ren_calls = 0; g_clock = 0; g_t_mkdir = g_t_rename = 0;
  g_base_obj[0] = 'f'; g_base_obj[1] = 0;
  __CPROVER_assume(g_arch_calls < 1000000u && g_arch_track_hits < 1000000u);
  archive_file(rep, name);
  /* reached only if every path could be formed (the code aborts otherwise: names fit by ldb_repair's length check) */
  CHECK(g_dir_calls == 1 && g_dir_src == name, "archive: the directory part is taken from the file's own name");
  CHECK(g_j_calls == 2 && g_j_x[0] == g_dir_buf && g_j_y[0][0] == 'l' && g_j_y[0][1] == 'o' && g_j_y[0][2] == 's' && g_j_y[0][3] == 't' && g_j_y[0][4] == 0, "archive: the target directory is <dir>/lost");
  CHECK(g_base_calls == 1 && g_base_src == name && g_j_x[1] == g_j_z[0] && g_j_y[1] == g_base_ret, "archive: the target name is <dir>/lost/<base name of the file>");
  CHECK(g_mk_calls == 1 && g_mk_dir == g_j_z[0], "archive: the lost directory is created (failure ignored: it may exist)");
  CHECK(g_ren_calls == 1 && g_ren_from == name && g_ren_to == g_j_z[1] && g_t_mkdir < g_t_rename, "archive: the file is renamed into lost/ after the directory was created; exactly one rename");
  CHECK(g_arch_removes == 0, "archive: nothing is unlinked");
  CHECK(g_j_z[0] != g_j_z[1] && g_j_z[0] != g_dir_buf && g_j_z[1] != g_dir_buf, "archive: the three path buffers are distinct");
  CANARY();
}
