/* units/fn.c - proof units for src/filename.c and the strutil.c helpers it uses (C13, C20, C18)
 *
 * filename.c and util/strutil.c are included unmodified.  sprintf is modelled
 * for the conversions filename.c uses (%s and literal characters only).
 * Bounded: names of at most FN_MAX characters (enough for a 20-digit number
 * followed by ".dbtmp" and one more character).
 */
#include "verif.h"
#include <stdarg.h>
#include <string.h>

#define FN_MAX 27

/* libc model: sprintf restricted to "%s" conversions and literal characters */
int sprintf(char *out, const char *fmt, ...) {
  va_list ap; int n = 0;
  va_start(ap, fmt);
  while (*fmt) {
    if (fmt[0] == '%' && fmt[1] == 's') {
      const char *s = va_arg(ap, const char *);
      while (*s) out[n++] = *s++;
      fmt += 2;
    } else {
      __CPROVER_assert(*fmt != '%', "sprintf model: only %s conversions are used by filename.c");
      out[n++] = *fmt++;
    }
  }
  out[n] = 0;
  va_end(ap);
  return n;
}

/* environment entry points referenced by ldb_set_current_file (not under test here) */
#include "util/env.h"
int ldb_write_file(const char *fname, const ldb_slice_t *data, int should_sync) { __CPROVER_assert(0, "not reachable in fn.* units"); return 0; }
int ldb_rename_file(const char *from, const char *to) { __CPROVER_assert(0, "not reachable in fn.* units"); return 0; }
int ldb_remove_file(const char *filename) { __CPROVER_assert(0, "not reachable in fn.* units"); return 0; }
void ldb_slice_set_str(ldb_slice_t *z, const char *xp) { __CPROVER_assert(0, "not reachable in fn.* units"); }

#include "util/strutil.c"
#include "filename.c"

/* --------------------------------------------------- reference (specification)
 * LevelDB file names (doc/impl.md, ParseFileName):
 *   CURRENT | LOCK | LOG | LOG.old | MANIFEST-[0-9]+ | [0-9]+.(log|sst|ldb|dbtmp)
 * the number is a decimal uint64 (no overflow), any number of leading zeros. */
static int ref_eq(const char *a, const char *b) {
  size_t i;
  for (i = 0; i <= FN_MAX + 1; i++) {
    if (a[i] != b[i]) return 0;
    if (a[i] == 0) return 1;
  }
  return 0;
}
/* maximal digit prefix: returns its length, *ok = fits in uint64 */
static size_t ref_digits(const char *s, uint64_t *v, int *ok) {
  unsigned __int128 x = 0; size_t i;
  *ok = 1;
  for (i = 0; i <= FN_MAX && s[i] >= '0' && s[i] <= '9'; i++) {
    x = x * 10 + (unsigned)(s[i] - '0');
    if (x > (unsigned __int128)UINT64_MAX) { *ok = 0; x = 0; /* stays flagged */ }
  }
  *v = (uint64_t)x;
  return i;
}
static int ref_parse(int *type, uint64_t *num, const char *name) {
  uint64_t v; int ok; size_t k;
  if (ref_eq(name, "CURRENT")) { *type = LDB_FILE_CURRENT; *num = 0; return 1; }
  if (ref_eq(name, "LOCK")) { *type = LDB_FILE_LOCK; *num = 0; return 1; }
  if (ref_eq(name, "LOG") || ref_eq(name, "LOG.old")) { *type = LDB_FILE_INFO; *num = 0; return 1; }
  if (name[0] == 'M' && name[1] == 'A' && name[2] == 'N' && name[3] == 'I' && name[4] == 'F' && name[5] == 'E' && name[6] == 'S' && name[7] == 'T' && name[8] == '-') {
    k = ref_digits(name + 9, &v, &ok);
    if (k == 0 || !ok || name[9 + k] != 0) return 0;
    *type = LDB_FILE_DESC; *num = v; return 1;
  }
  k = ref_digits(name, &v, &ok);
  if (k == 0 || !ok) return 0;
  if (ref_eq(name + k, ".log")) *type = LDB_FILE_LOG;
  else if (ref_eq(name + k, ".sst") || ref_eq(name + k, ".ldb")) *type = LDB_FILE_TABLE;
  else if (ref_eq(name + k, ".dbtmp")) *type = LDB_FILE_TEMP;
  else return 0;
  *num = v;
  return 1;
}

/* an arbitrary NUL-terminated string of at most FN_MAX characters in an exactly fitting heap object */
#define FN_SYM_MAX 12   /* symbolic names: decimal arithmetic over more digits is out of the SAT solver's reach */
#define MK_NAME(name) \
  IN_SIZE(in_len); ASSUME(in_len <= FN_SYM_MAX); \
  char *name = malloc(in_len + 1); ASSUME(name != NULL); \
  { size_t i_; for (i_ = 0; i_ < FN_SYM_MAX; i_++) ASSUME(i_ >= in_len || name[i_] != 0); } \
  name[in_len] = 0

/* ------------------------------------------------------------ fn.decode_int */
void h_decode_int(void) {
  MK_NAME(s);
  const char *p = s; uint64_t z = 7, v; int ok; size_t k; int r;
  ASSUME(in_len <= 8); /* bound of this unit; overflow boundaries are in fn.examples / fn.rt_examples */
  r = ldb_decode_int(&z, &p);
  k = ref_digits(s, &v, &ok);
  CHECK(r == ((k > 0 && ok) ? 1 : 0), "decode_int: succeeds iff the string starts with a digit and the maximal digit prefix fits in uint64");
  CHECK(r != 1 || (z == v && p == s + k), "decode_int: value is the decimal value, cursor after the last digit");
  CHECK(r != 0 || (z == 7 && p == s), "decode_int: failure leaves value and cursor untouched");
  CANARY();
}

/* ------------------------------------------------------------- fn.parse
 * total on arbitrary strings, equal to the reference classifier */
void h_parse_filename(void) {
  MK_NAME(s);
  ldb_filetype_t type = (ldb_filetype_t)77; uint64_t num = 7; int rt = 0; uint64_t rn = 0; int r, rr;
  r = ldb_parse_filename(&type, &num, s);
  rr = ref_parse(&rt, &rn, s);
  CHECK(r == rr, "parse_filename: accepts exactly CURRENT, LOCK, LOG, LOG.old, MANIFEST-<n>, <n>.log, <n>.sst, <n>.ldb, <n>.dbtmp (n a decimal uint64)");
  CHECK(r != 1 || ((int)type == rt && num == rn), "parse_filename: type and number are those of the name");
  CANARY();
}

/* concrete negative / boundary examples from the property statement */
void h_parse_examples(void) {
  ldb_filetype_t t; uint64_t n;
  CHECK(!ldb_parse_filename(&t, &n, "000001.logx"), "parse_filename rejects 000001.logx");
  CHECK(!ldb_parse_filename(&t, &n, "MANIFEST-"), "parse_filename rejects MANIFEST- without a number");
  CHECK(!ldb_parse_filename(&t, &n, "MANIFEST-5x"), "parse_filename rejects MANIFEST-5x");
  CHECK(!ldb_parse_filename(&t, &n, "foo"), "parse_filename rejects foo");
  CHECK(!ldb_parse_filename(&t, &n, ""), "parse_filename rejects the empty name");
  CHECK(!ldb_parse_filename(&t, &n, ".log"), "parse_filename rejects .log without a number");
  CHECK(!ldb_parse_filename(&t, &n, "18446744073709551616.log"), "parse_filename rejects a number overflowing uint64");
  CHECK(!ldb_parse_filename(&t, &n, "MANIFEST-18446744073709551616"), "parse_filename rejects a MANIFEST number overflowing uint64");
  CHECK(ldb_parse_filename(&t, &n, "18446744073709551615.ldb") && t == LDB_FILE_TABLE && n == UINT64_MAX, "parse_filename accepts the largest uint64");
  CHECK(!ldb_parse_filename(&t, &n, "CURRENT.bak") && !ldb_parse_filename(&t, &n, "LOCKS") && !ldb_parse_filename(&t, &n, "LOG.older"), "parse_filename rejects near misses of the fixed names");
  CANARY();
}

/* ------------------------------------------------------------- fn.rt
 * parse(basename(build(type, number))) = (type, number), for an arbitrary
 * number and a database name of 0..2 arbitrary characters */
#define RT_BUF 64
#define RT_NUM_MAX ((uint64_t)1 << 10)   /* symbolic file numbers (<= 4 digits); the 64-bit boundary values are replayed concretely in fn.rt_examples */
static const char *rt_setup(char *db) {
  IN_SIZE(in_dblen); ASSUME(in_dblen <= 2);
  ASSUME(in_dblen < 1 || db[0] != 0); ASSUME(in_dblen < 2 || db[1] != 0);
  db[in_dblen] = 0;
  return db;
}
#define RT_NUMBERED(hname, builder, TYPE, what) \
void hname(void) { \
  char db[3], buf[RT_BUF]; ldb_filetype_t t = (ldb_filetype_t)77; uint64_t n = 7; IN_U64(in_num); size_t dl; int ok; \
  rt_setup(db); dl = strlen(db); \
  ASSUME(in_num < RT_NUM_MAX); \
  ok = builder(buf, sizeof(buf), db, in_num); \
  CHECK(ok == 1, what ": the name fits the buffer"); \
  CHECK(buf[dl] == '/', what ": directory, separator, base name"); \
  CHECK(ldb_parse_filename(&t, &n, buf + dl + 1) == 1 && t == TYPE && n == in_num, what ": parse(build(type, number)) = (type, number)"); \
  CANARY(); \
}
#define RT_FIXED(hname, builder, TYPE, what) \
void hname(void) { \
  char db[3], buf[RT_BUF]; ldb_filetype_t t = (ldb_filetype_t)77; uint64_t n = 7; size_t dl; int ok; \
  rt_setup(db); dl = strlen(db); \
  ok = builder(buf, sizeof(buf), db); \
  CHECK(ok == 1, what ": the name fits the buffer"); \
  CHECK(buf[dl] == '/', what ": directory, separator, base name"); \
  CHECK(ldb_parse_filename(&t, &n, buf + dl + 1) == 1 && t == TYPE && n == 0, what ": parse(build(type)) = (type, 0)"); \
  CANARY(); \
}
RT_NUMBERED(h_rt_log, ldb_log_filename, LDB_FILE_LOG, "log file name")
RT_NUMBERED(h_rt_table, ldb_table_filename, LDB_FILE_TABLE, "table file name (.ldb)")
RT_NUMBERED(h_rt_sstable, ldb_sstable_filename, LDB_FILE_TABLE, "legacy table file name (.sst)")
RT_NUMBERED(h_rt_desc, ldb_desc_filename, LDB_FILE_DESC, "MANIFEST file name")
RT_NUMBERED(h_rt_temp, ldb_temp_filename, LDB_FILE_TEMP, "temp file name")
RT_FIXED(h_rt_current, ldb_current_filename, LDB_FILE_CURRENT, "CURRENT file name")
RT_FIXED(h_rt_lock, ldb_lock_filename, LDB_FILE_LOCK, "LOCK file name")
RT_FIXED(h_rt_info, ldb_info_filename, LDB_FILE_INFO, "info log file name")
RT_FIXED(h_rt_oldinfo, ldb_oldinfo_filename, LDB_FILE_INFO, "old info log file name")

/* concrete boundary numbers through every numbered builder */
static void rt_one(uint64_t num) {
  char buf[RT_BUF]; ldb_filetype_t t; uint64_t n;
  CHECK(ldb_log_filename(buf, sizeof(buf), "d", num) && ldb_parse_filename(&t, &n, buf + 2) && t == LDB_FILE_LOG && n == num, "log file name round trip (boundary number)");
  CHECK(ldb_table_filename(buf, sizeof(buf), "d", num) && ldb_parse_filename(&t, &n, buf + 2) && t == LDB_FILE_TABLE && n == num, "table file name round trip (boundary number)");
  CHECK(ldb_desc_filename(buf, sizeof(buf), "d", num) && ldb_parse_filename(&t, &n, buf + 2) && t == LDB_FILE_DESC && n == num, "MANIFEST file name round trip (boundary number)");
  CHECK(ldb_temp_filename(buf, sizeof(buf), "d", num) && ldb_parse_filename(&t, &n, buf + 2) && t == LDB_FILE_TEMP && n == num, "temp file name round trip (boundary number)");
}
void h_rt_examples(void) {
  rt_one(1); rt_one(999999); rt_one(1000000); rt_one(0xffffffffu); rt_one((uint64_t)1 << 32);
  rt_one(UINT64_MAX); rt_one(UINT64_MAX - 1); rt_one(UINT64_MAX / 10); rt_one(UINT64_MAX / 10 + 1);
  CANARY();
}
