/* units/mem_skip.c - the memtable key comparator, ldb_skiplist_compare in src/skiplist.c (C01, C06)
 *
 * MemTable::KeyComparator: skip-list keys are length-prefixed internal keys;
 * they are ordered by decoding the varint32 prefix of both and handing the two
 * internal keys (prefix stripped, exact length) to the list's comparator (the
 * internal key comparator, fmt.ikc).  The real skiplist.c is included
 * unmodified; the comparator is an uninterpreted three-way function that
 * records its operands.
 */
#include "verif.h"
#include "contracts/coding.h"
#include "util/comparator.h"
#include "util/slice.h"

struct skc_ghost {
  int calls;
  const ldb_comparator_t *self;
  const uint8_t *xd; size_t xn;
  const uint8_t *yd; size_t yn;
  int ret;
} K;

static int stub_compare(const ldb_comparator_t *c, const ldb_slice_t *x, const ldb_slice_t *y) {
  K.calls++; K.self = c; K.xd = x->data; K.xn = x->size; K.yd = y->data; K.yn = y->size;
  return K.ret;
}

#include "skiplist.c"

void h_skiplist_compare(void) {
  ldb_skiplist_t list;
  ldb_comparator_t cmp;
  IN_SIZE(in_xn); IN_SIZE(in_yn); IN_SIZE(in_xh); IN_SIZE(in_yh); IN_INT(in_ret);
  uint8_t *x = malloc(in_xn), *y = malloc(in_yn);
  int r;
  ASSUME(x != NULL && y != NULL);
  /* both keys are well-formed: varint32 prefix of 1..5 bytes whose value is the number of bytes that follow */
  ASSUME(in_xh >= 1 && in_xh <= 5 && in_xh <= in_xn && in_xn <= 0xffffffffu && V_WELLFORMED(x, in_xh) && V32_VAL(x, in_xh) == in_xn - in_xh);
  ASSUME(in_yh >= 1 && in_yh <= 5 && in_yh <= in_yn && in_yn <= 0xffffffffu && V_WELLFORMED(y, in_yh) && V32_VAL(y, in_yh) == in_yn - in_yh);
  cmp.name = NULL; cmp.compare = stub_compare; cmp.shortest_separator = NULL; cmp.short_successor = NULL; cmp.user_comparator = NULL; cmp.state = NULL;
  list.comparator = &cmp; list.arena = NULL; list.head = NULL;
  K.calls = 0; K.ret = in_ret;
  r = ldb_skiplist_compare(&list, x, y);
  CHECK(K.calls == 1 && K.self == &cmp, "memtable key comparator: exactly one call of the list's (internal key) comparator");
  CHECK(K.xd == x + in_xh && K.xn == in_xn - in_xh, "memtable key comparator: left operand = first key without its length prefix, exact length");
  CHECK(K.yd == y + in_yh && K.yn == in_yn - in_yh, "memtable key comparator: right operand = second key without its length prefix, exact length");
  CHECK(r == in_ret, "memtable key comparator: the internal key comparator's answer is returned unchanged");
  CANARY();
}
