/* units/rep_desc.c - write_descriptor (src/repair.c)
 *   rep.desc         : C19 (descriptor carries comparator, log_number 0, next_file, last_sequence = max over all
 *                      tables, EVERY recovered table at level 0 with its scanned metadata), C14, C02/C12 (temp file ->
 *                      close -> old MANIFESTs archived -> rename to MANIFEST-000001 -> CURRENT; temp removed on failure)
 *   rep.desc_recency : C19/C14 level-0 recency (known finding F1: EXPECTED TO FAIL on the current tree)
 *
 * The real repair.c is included unmodified.  BOUNDED: at most REP_MAXT recovered tables and REP_MAXM old MANIFESTs
 * (rep->tables holds POINTERS the code dereferences: validity of every element of an unbounded pointer array cannot
 * be stated without quantifiers); every field of every table, the counters and all I/O outcomes are symbolic.
 */
#include "verif.h"
int nondet_int(void);
uint64_t nondet_u64(void);
size_t nondet_size(void);

#include "repair.c"
#include "contracts/rep.h"

#define REP_MAXT 3
#define REP_MAXM 2

/* ------------------------------------------------------------------ ghost */
static unsigned long g_clock;
static unsigned long tick(void) { return ++g_clock; }
struct ldb_wfile_s { int dummy; };
static ldb_wfile_t g_file;
static char *g_tmp_buf, *g_desc_buf;
static int g_tmp_calls, g_desc1_calls;
static int g_create_calls, g_create_rc, g_winit_calls, g_export_calls, g_rec_calls, g_rec_rc, g_sync_calls, g_close_calls, g_close_rc, g_fdestroy;
static int g_rename_calls, g_rename_rc, g_setcur_calls, g_setcur_rc, g_rm_tmp;
static unsigned long g_t_create, g_t_rec, g_t_close, g_t_rename, g_t_setcur, g_t_lastarch;
static ldb_writer_t *g_writer; static ldb_buffer_t *g_record;
/* the edit as exported */
static int g_x_has_cmp, g_x_has_log, g_x_has_prev, g_x_has_next, g_x_has_seq; static uint64_t g_x_log, g_x_next, g_x_seq; static const char *g_x_cmp_name;
static int g_x_files;
/* add_file calls */
static int g_af_calls; static int g_af_level[REP_MAXT]; static uint64_t g_af_number[REP_MAXT], g_af_size[REP_MAXT];
static const ldb_ikey_t *g_af_small[REP_MAXT], *g_af_large[REP_MAXT];
static unsigned g_arch_at_rename;

/* ------------------------------------------------------------ env models */
int ldb_temp_filename(char *buf, size_t size, const char *dbname, uint64_t num) {
  __CPROVER_assert(dbname == g_rep->dbname && num == 1, "temporary descriptor name is <db>/000001.dbtmp");
  g_tmp_calls++; g_tmp_buf = buf; buf[0] = 0; g_nm_buf = buf; g_nm_kind = LDB_FILE_TEMP; g_nm_num = num;
  return 1;   /* names fit: ldb_repair rejects paths longer than LDB_PATH_MAX - 35 (the code aborts otherwise) */
}
int ldb_desc_filename(char *buf, size_t size, const char *dbname, uint64_t num) {
  __CPROVER_assert(dbname == g_rep->dbname, "MANIFEST names are formed in the database directory");
  g_desc_buf = buf; buf[0] = 0; g_nm_buf = buf; g_nm_kind = LDB_FILE_DESC; g_nm_num = num;
  return 1;
}
int ldb_truncfile_create(const char *filename, ldb_wfile_t **file) {
  __CPROVER_assert(filename == g_tmp_buf && g_tmp_calls == 1, "the descriptor is first written to the temporary file");
  g_create_calls++; g_create_rc = nondet_int();
  if (g_create_rc == LDB_OK) { *file = &g_file; g_t_create = tick(); }
  return g_create_rc;
}
void ldb_edit_set_comparator_name(ldb_edit_t *edit, const char *name) { __CPROVER_assert(edit == &g_rep->edit, "the repairer's edit"); edit->has_comparator = 1; g_x_cmp_name = name; }
void ldb_edit_set_log_number(ldb_edit_t *edit, uint64_t num) { __CPROVER_assert(edit == &g_rep->edit, "the repairer's edit"); edit->has_log_number = 1; edit->log_number = num; }
void ldb_edit_set_prev_log_number(ldb_edit_t *edit, uint64_t num) { edit->has_prev_log_number = 1; edit->prev_log_number = num; }
void ldb_edit_set_next_file(ldb_edit_t *edit, uint64_t num) { __CPROVER_assert(edit == &g_rep->edit, "the repairer's edit"); edit->has_next_file_number = 1; edit->next_file_number = num; }
void ldb_edit_set_last_sequence(ldb_edit_t *edit, ldb_seqnum_t seq) { __CPROVER_assert(edit == &g_rep->edit, "the repairer's edit"); edit->has_last_sequence = 1; edit->last_sequence = seq; }
void ldb_edit_add_file(ldb_edit_t *edit, int level, uint64_t number, uint64_t file_size, const ldb_ikey_t *smallest, const ldb_ikey_t *largest) {
  __CPROVER_assert(edit == &g_rep->edit && g_export_calls == 0, "tables are added to the repairer's edit before it is serialised");
  __CPROVER_assert(g_af_calls < REP_MAXT, "at most one new-file entry per recovered table");
  if (g_af_calls < REP_MAXT) { g_af_level[g_af_calls] = level; g_af_number[g_af_calls] = number; g_af_size[g_af_calls] = file_size; g_af_small[g_af_calls] = smallest; g_af_large[g_af_calls] = largest; }
  g_af_calls++;
}
void ldb_writer_init(ldb_writer_t *lw, ldb_wfile_t *file, uint64_t length) {
  __CPROVER_assert(file == &g_file && length == 0, "log.init precondition: the freshly truncated descriptor file is an (empty) framed prefix of length 0");
  g_winit_calls++; g_writer = lw;
}
void ldb_buffer_init(ldb_buffer_t *z) { z->data = NULL; z->size = 0; z->alloc = 0; }
void ldb_buffer_clear(ldb_buffer_t *z) { }
void ldb_edit_export(ldb_buffer_t *z, const ldb_edit_t *edit) {
  __CPROVER_assert(edit == &g_rep->edit, "the repairer's edit is what gets serialised");
  g_export_calls++; g_record = z;
  g_x_has_cmp = edit->has_comparator; g_x_has_log = edit->has_log_number; g_x_log = edit->log_number; g_x_has_prev = edit->has_prev_log_number;
  g_x_has_next = edit->has_next_file_number; g_x_next = edit->next_file_number; g_x_has_seq = edit->has_last_sequence; g_x_seq = edit->last_sequence;
  g_x_files = g_af_calls;
}
int ldb_writer_add_record(ldb_writer_t *lw, const ldb_slice_t *slice) {
  __CPROVER_assert(lw == g_writer && g_winit_calls == 1 && slice == g_record && g_export_calls == 1 && g_rec_calls == 0, "exactly one MANIFEST record: the exported edit, through the writer of the temporary file");
  g_rec_calls++; g_rec_rc = nondet_int(); g_t_rec = tick();
  return g_rec_rc;
}
int ldb_wfile_sync(ldb_wfile_t *file) { g_sync_calls++; return nondet_int(); }
int ldb_wfile_close(ldb_wfile_t *file) {
  __CPROVER_assert(file == &g_file && g_fdestroy == 0, "close of the live temporary descriptor");
  __CPROVER_assert(g_rec_calls == 1 && g_rec_rc == LDB_OK, "the descriptor is closed for installation only after its record was appended successfully");
  g_close_calls++; g_close_rc = nondet_int(); g_t_close = tick();
  return g_close_rc;
}
void ldb_wfile_destroy(ldb_wfile_t *file) { __CPROVER_assert(file == &g_file && g_fdestroy == 0, "the file object is destroyed once (never NULL)"); g_fdestroy++; }
int ldb_remove_file(const char *filename) {
  __CPROVER_assert(filename == g_tmp_buf, "write_descriptor unlinks nothing but its own temporary file");
  __CPROVER_assert(g_fdestroy == 1, "the temporary file is removed after its handle was released");
  g_rm_tmp++;
  return nondet_int();
}
int ldb_rename_file(const char *from, const char *to) {
  __CPROVER_assert(from == g_tmp_buf && to == g_desc_buf && g_nm_kind == LDB_FILE_DESC && g_nm_num == 1, "the temporary descriptor is installed as MANIFEST-000001");
  __CPROVER_assert(g_close_calls == 1 && g_close_rc == LDB_OK && g_fdestroy == 1, "the descriptor is renamed into place only after it was completely written and closed");
  g_rename_calls++; g_rename_rc = nondet_int(); g_t_rename = tick(); g_arch_at_rename = g_arch_calls;
  return g_rename_rc;
}
int ldb_set_current_file(const char *dbname, uint64_t desc_number) {
  __CPROVER_assert(dbname == g_rep->dbname && desc_number == 1, "CURRENT is pointed at MANIFEST-000001");
  __CPROVER_assert(g_rename_calls == 1 && g_rename_rc == LDB_OK, "CURRENT is switched only after MANIFEST-000001 is in place");
  g_setcur_calls++; g_setcur_rc = nondet_int(); g_t_setcur = tick();
  return g_setcur_rc;
}

/* ---------------------------------------------------------------- harness */
static ldb_tabinfo_t g_tab[REP_MAXT];
static void *g_items[REP_MAXT];
static uint64_t g_manifests[REP_MAXM];
static ldb_comparator_t g_ucmp;
static char g_cmp_name[2];
static char g_dbname[2];

static ldb_repair_t *setup(size_t nt, size_t nm) {
  ldb_repair_t *rep = malloc(sizeof(*rep));
  size_t i;
  __CPROVER_assume(rep != NULL);
  g_rep = rep; g_pin_buf = NULL;
  g_dbname[0] = 'd'; g_dbname[1] = 0; rep->dbname = g_dbname;
  g_cmp_name[0] = 'c'; g_cmp_name[1] = 0; g_ucmp.name = g_cmp_name; rep->icmp.user_comparator = &g_ucmp;
  for (i = 0; i < REP_MAXT; i++) g_items[i] = &g_tab[i];
  rep->tables.items = g_items; rep->tables.length = nt; rep->tables.alloc = REP_MAXT;
  rep->manifests.items = g_manifests; rep->manifests.length = nm; rep->manifests.alloc = REP_MAXM;
  rep->edit.has_comparator = rep->edit.has_log_number = rep->edit.has_prev_log_number = rep->edit.has_next_file_number = rep->edit.has_last_sequence = 0;
  g_clock = 0; g_tmp_calls = g_desc1_calls = 0;
  g_create_calls = g_winit_calls = g_export_calls = g_rec_calls = g_sync_calls = g_close_calls = g_fdestroy = 0;
  g_rename_calls = g_setcur_calls = g_rm_tmp = 0; g_af_calls = 0; g_x_files = 0;
  g_t_create = g_t_rec = g_t_close = g_t_rename = g_t_setcur = g_t_lastarch = 0;
  g_arch_calls = 0; g_arch_track_hits = 0; g_arch_removes = 0; g_arch_at_rename = 0;
  g_tmp_buf = g_desc_buf = NULL; g_writer = NULL; g_record = NULL; g_x_cmp_name = NULL;
  return rep;
}

void h_desc(void) {
  IN_SIZE(in_ntables); IN_SIZE(in_nmanifests); IN_SIZE(in_k); IN_SIZE(in_m);
  ldb_repair_t *rep;
  uint64_t next0, mx;
  int rc, written;
  size_t i;
  ASSUME(in_ntables <= REP_MAXT && in_nmanifests <= REP_MAXM);
  rep = setup(in_ntables, in_nmanifests);
  /* an arbitrary old MANIFEST is followed through archiving (directory entries are distinct) */
  ASSUME(in_m < REP_MAXM);
  g_arch_track_kind = LDB_FILE_DESC; g_arch_track_num = g_manifests[in_m];
  if (in_nmanifests == 2) ASSUME(g_manifests[0] != g_manifests[1]);
  next0 = rep->next_file_number;
  mx = 0;
  for (i = 0; i < REP_MAXT; i++) if (i < in_ntables && g_tab[i].max_sequence > mx) mx = g_tab[i].max_sequence;

  rc = write_descriptor(rep);

  written = g_create_calls == 1 && g_create_rc == LDB_OK;
  CHECK(g_tmp_calls == 1 && g_create_calls == 1, "desc: one temporary descriptor file is created");
  if (!written) {
    CHECK(rc == g_create_rc && rc != LDB_OK && g_rec_calls == 0 && g_rename_calls == 0 && g_setcur_calls == 0 && g_arch_calls == 0 && g_rm_tmp == 0 && g_fdestroy == 0,
          "desc: the temporary file cannot be created => that error, nothing is installed, archived or removed");
  } else {
    /* ---- content of the descriptor (C19) ---- */
    CHECK(g_export_calls == 1 && g_rec_calls == 1 && g_winit_calls == 1, "desc: the edit is serialised once and appended as one record");
    CHECK(g_x_has_cmp && g_x_cmp_name == g_cmp_name, "desc: the edit carries the user comparator's name (open checks it)");
    CHECK(g_x_has_log && g_x_log == 0, "desc: log_number = 0 (all logs were converted to tables)");
    CHECK(g_x_has_next && g_x_next == next0 && rep->next_file_number == next0, "desc: next_file_number = the repairer's allocator (above every file seen or created)");
    CHECK(g_x_has_seq && g_x_seq == mx, "desc: last_sequence = the maximum of max_sequence over ALL recovered tables (0 if there is none)");
    CHECK(!g_x_has_prev, "desc: no prev_log_number");
    CHECK((size_t)g_af_calls == in_ntables && (size_t)g_x_files == in_ntables, "desc: one new-file entry per recovered table, all present when the edit is serialised");
    if (in_k < in_ntables)
      CHECK(g_af_level[in_k] == 0 && g_af_number[in_k] == g_tab[in_k].meta.number && g_af_size[in_k] == g_tab[in_k].meta.file_size &&
            g_af_small[in_k] == &g_tab[in_k].meta.smallest && g_af_large[in_k] == &g_tab[in_k].meta.largest,
            "desc: EVERY recovered table is added at level 0 with its scanned number, size, smallest and largest key");
    /* ---- installation protocol ---- */
    CHECK(g_fdestroy == 1, "desc: the file object is always released");
    CHECK(g_close_calls == (g_rec_rc == LDB_OK ? 1 : 0), "desc: closed iff the record was appended");
    CHECK(g_sync_calls == 0, "desc (observation): the temporary descriptor is NOT fsynced before it is renamed (same as LevelDB's repairer)");
    if (g_rec_rc != LDB_OK || g_close_rc != LDB_OK) {
      CHECK(rc == (g_rec_rc != LDB_OK ? g_rec_rc : g_close_rc) && rc != LDB_OK, "desc: append/close failure is returned");
      CHECK(g_rm_tmp == 1 && g_rename_calls == 0 && g_setcur_calls == 0 && g_arch_calls == 0, "desc: after a failed write the temporary file is removed, nothing is archived or installed");
    } else {
      CHECK(g_arch_calls == in_nmanifests && g_arch_at_rename == in_nmanifests, "desc: every old MANIFEST is archived, and before the new one is renamed into place");
      if (in_m < in_nmanifests) CHECK(g_arch_track_hits == 1, "desc: an arbitrary old MANIFEST is archived exactly once");
      CHECK(g_rename_calls == 1 && g_t_rec < g_t_close && g_t_close < g_t_rename, "desc: append -> close -> rename");
      if (g_rename_rc != LDB_OK) CHECK(rc == g_rename_rc && g_rm_tmp == 1 && g_setcur_calls == 0, "desc: rename failure => temporary file removed, CURRENT untouched, error returned");
      else CHECK(g_setcur_calls == 1 && rc == g_setcur_rc && g_rm_tmp == 0 && g_t_rename < g_t_setcur, "desc: CURRENT is set after the rename; its status is the result; the installed file is not removed");
    }
    CHECK((rc == LDB_OK) == (g_rec_rc == LDB_OK && g_close_rc == LDB_OK && g_rename_rc == LDB_OK && g_setcur_rc == LDB_OK && g_setcur_calls == 1), "desc: OK iff every step succeeded");
  }
  CHECK(g_arch_removes == 0, "desc: no data file is unlinked");
  CANARY();
}

/* ---------------------------------------------------------------- rep.desc_recency (F1)
 * Level-0 files are consulted newest-first BY FILE NUMBER (version_set.c newest_first / ldb_version_get).
 * For a user key u held by two recovered tables a and b, ghost per-table sequence ranges of u:
 * [min_a, max_a] and [min_b, max_b] (a key/sequence pair lives in exactly one table, so the ranges of a
 * well-formed database are disjoint).  The descriptor must place them so that the table consulted first holds
 * the newer versions.  Both go to level 0, so: number_a > number_b  ==>  min_a > max_b.
 * Nothing in a pre-repair database ties file numbers to data age (a compaction output carries old data under a
 * new number), hence the inputs are arbitrary.  */
void h_desc_recency(void) {
  IN_U64(in_num_a); IN_U64(in_num_b); IN_U64(in_min_a); IN_U64(in_max_a); IN_U64(in_min_b); IN_U64(in_max_b);
  ldb_repair_t *rep;
  int rc;
  rep = setup(2, 0);
  /* two distinct tables that both contain user key u */
  ASSUME(in_num_a != in_num_b);
  ASSUME(in_min_a <= in_max_a && in_min_b <= in_max_b);
  ASSUME(in_max_a < (1ull << 56) && in_max_b < (1ull << 56) && in_min_a >= 1 && in_min_b >= 1);   /* sequence numbers are 56-bit, from 1 */
  ASSUME(in_num_a < (1ull << 32) && in_num_b < (1ull << 32) && in_num_a >= 2 && in_num_b >= 2);
  ASSUME(in_max_a < in_min_b || in_max_b < in_min_a);            /* disjoint: each (u, seq) is stored once */
  g_tab[0].meta.number = in_num_a; g_tab[1].meta.number = in_num_b;
  ASSUME(g_tab[0].max_sequence >= in_max_a && g_tab[1].max_sequence >= in_max_b);   /* scan_table: max over all keys of the table */
  rc = write_descriptor(rep);
  if (rc == LDB_OK) {
    int la = g_af_level[0], lb = g_af_level[1];
    uint64_t na = g_af_number[0], nb = g_af_number[1];
    CHECK(g_af_calls == 2 && na == in_num_a && nb == in_num_b, "recency: both tables are in the descriptor under their numbers");
    if (la == 0 && lb == 0) {
      CHECK(!(na > nb) || in_min_a > in_max_b, "rep.desc: tables at level 0 are ordered so that for any user key the table consulted first (larger file number) holds the newest sequence [a before b]");
      CHECK(!(nb > na) || in_min_b > in_max_a, "rep.desc: tables at level 0 are ordered so that for any user key the table consulted first (larger file number) holds the newest sequence [b before a]");
    } else {
      CHECK(la != lb && ((la < lb) ? in_min_a > in_max_b : in_min_b > in_max_a), "rep.desc: a table in a shallower level holds newer versions of the key than one below");
    }
  }
  CANARY();
}
