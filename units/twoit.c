/* units/twoit.c - proof units for src/table/two_level_iterator.c (C07, C11, C16)
 *
 * The real two_level_iterator.c (and iterator_wrapper.h) is included unmodified.
 * Children are ghost cursors (contracts/it_cursor.h):
 *   child 0      the index iterator: <= 3 entries, entry i = (separator key, 1-byte handle of data block i)
 *   child 1 + b  the iterator block_function returns for data block b: <= 2 entries; a block that
 *                could not be read is an EMPTY child with a non-OK status (what ldb_table_blockreader
 *                returns, tbl.blockreader); a readable block may be empty as well.
 * Every unit runs ONE operation from an ARBITRARY state satisfying the
 * representation invariant (one-step induction) and requires
 *   - the iterator lands exactly where the concatenation of the blocks says
 *     (empty / failed blocks skipped in the direction of travel, invalid once
 *     the index is exhausted),
 *   - block_function is called only for a block other than the cached one,
 *     every replaced data iterator is destroyed exactly once,
 *   - the first non-OK status of a discarded data iterator is latched,
 *   - the representation invariant holds again.
 * BOUNDED: <= 3 index entries x <= 2 entries per block, 1-byte keys/handles.
 */
#include "verif.h"
#include "util/buffer.h"
#include "util/comparator.h"
#include "util/internal.h"
#include "util/options.h"
#include "util/slice.h"
#include "util/status.h"
#include "util/types.h"
#include "table/iterator.h"

#ifndef NBLK
#define NBLK 3
#endif
#define CUR_NCH (1 + NBLK)
#define CUR_MAXLEN NBLK      /* >= BLK_MAXLEN */
#define BLK_MAXLEN 2
#define CUR_KW 1
#define CUR_COMPARE(a, an, b, bn) ((int)(a)[0] - (int)(b)[0])
#include "contracts/it_cursor.h"

int nondet_int(void);
uint8_t nondet_u8(void);

static int stub_compare(const ldb_comparator_t *c, const ldb_slice_t *x, const ldb_slice_t *y) { return (int)x->data[0] - (int)y->data[0]; }
static const ldb_comparator_t stub_cmp = { "stub", stub_compare, NULL, NULL, NULL, NULL };

/* ------------------------------------------------------------------ ghost */
int g_alive[CUR_NCH];            /* the data iterator of block b exists (created, not destroyed) */
int g_creates[CUR_NCH], g_destroys[CUR_NCH];
int g_bad_destroy;
int g_idx_destroys;               /* the index iterator was destroyed */
int g_arg_tag;                   /* the cookie of block_function */
ldb_readopt_t g_ropt0;           /* the caller's read options */
int g_fn_bad;                    /* block_function was called with anything but (arg, &iter->options, a live index value) */
uint8_t g_hbuf[1];               /* storage of data_block_handle */
int g_order[8]; int g_norder;    /* statuses of destroyed data iterators, in order of destruction */

/* block_function: index value -> iterator over that data block (ldb_table_blockreader in the real table) */
static ldb_iter_t *stub_blockfn(void *arg, const ldb_readopt_t *options, const ldb_slice_t *index_value) {
  int b = (int)(index_value->data - &CUR_VAL[0][0]);
  if (arg != &g_arg_tag || index_value->size != 1 || !__CPROVER_same_object(index_value->data, CUR_VAL) || b < 0 || b >= CUR[0].len ||
      options->verify_checksums != g_ropt0.verify_checksums || options->fill_cache != g_ropt0.fill_cache || options->snapshot != g_ropt0.snapshot)
    g_fn_bad = 1;
  __CPROVER_assume(b >= 0 && b < NBLK);
  __CPROVER_assert(!g_alive[1 + b], "block_function: not asked for the block whose iterator is the current data iterator");
  g_alive[1 + b] = 1; g_creates[1 + b]++;
  CUR[1 + b].pos = CUR[1 + b].len;         /* a fresh iterator is not positioned */
  return &CUR_ITER[1 + b];
}

void ldb_iter_destroy(ldb_iter_t *iter) {
  int c = (int)(iter - CUR_ITER);
  if (iter == &CUR_ITER[0]) { g_idx_destroys++; return; }
  if (!__CPROVER_same_object(iter, CUR_ITER) || c < 1 || c >= CUR_NCH || !g_alive[c]) { g_bad_destroy = 1; return; }
  g_alive[c] = 0; g_destroys[c]++;
  if (g_norder < 8) g_order[g_norder++] = CUR[c].status;
}
ldb_iter_t g_outer; int g_ic_calls;
ldb_iter_t *ldb_iter_create(void *ptr, const ldb_itertbl_t *table, const ldb_comparator_t *cmp) {
  g_ic_calls++; g_outer.ptr = ptr; g_outer.table = table; g_outer.cmp = cmp; g_outer.cleanup_head.func = NULL; g_outer.cleanup_head.next = NULL;
  return &g_outer;
}

/* 1-byte models of util/slice.c and util/buffer.c (handles are 1-byte slices here) */
int ldb_slice_equal(const ldb_slice_t *x, const ldb_slice_t *y) {
  __CPROVER_assert(x->size <= 1 && y->size <= 1, "slice_equal: handles are at most one byte in this model");
  return x->size == y->size && (x->size == 0 || x->data[0] == y->data[0]);
}
void ldb_buffer_copy(ldb_buffer_t *z, const ldb_buffer_t *x) {
  __CPROVER_assert(x->size == 1, "buffer_copy: of a handle");
  z->data = g_hbuf; g_hbuf[0] = x->data[0]; z->size = 1; z->alloc = 1;
}
void ldb_buffer_init(ldb_buffer_t *z) { z->data = NULL; z->size = 0; z->alloc = 0; }
void ldb_buffer_clear(ldb_buffer_t *z) { (void)z; }
void *ldb_malloc(size_t n) { void *p = malloc(n); __CPROVER_assume(p != NULL); return p; }

#include "table/two_level_iterator.c"

/* ------------------------------------------------- specification (ghost) */
#define NIDX (CUR[0].len)
#define BLEN(b) (CUR[1 + (b)].len)
#define BSTAT(b) (CUR[1 + (b)].status)

struct two_expect { int blk; int pos; int status; } X;   /* blk = -1: not valid */

static int sp_next_nonempty(int from) { int b, r = -1; for (b = NBLK - 1; b >= 0; b--) if (b >= from && b < NIDX && BLEN(b) > 0) r = b; return r; }
static int sp_prev_nonempty(int from) { int b, r = -1; for (b = 0; b < NBLK; b++) if (b <= from && b < NIDX && BLEN(b) > 0) r = b; return r; }
static int sp_idx_first_ge(uint8_t k) { int i, r = NIDX; for (i = CUR_MAXLEN - 1; i >= 0; i--) if (i < NIDX && CUR_KEY[0][i][0] >= k) r = i; return r; }
static int sp_blk_first_ge(int b, uint8_t k) { int i, r = BLEN(b); for (i = BLK_MAXLEN - 1; i >= 0; i--) if (i < BLEN(b) && CUR_KEY[1 + b][i][0] >= k) r = i; return r; }

/* the saved status: the old one if set, else the first non-OK status among the data iterators destroyed, in order */
static int sp_saved(int old) { int i, r = old; for (i = 0; i < 8; i++) if (i < g_norder && r == LDB_OK && g_order[i] != LDB_OK) r = g_order[i]; return r; }

static int children_wf(void) {
  int c, i, ok = 1;
  if (NIDX < 0 || NIDX > NBLK || CUR[0].pos < 0 || CUR[0].pos > NIDX) ok = 0;
  for (c = 1; c < CUR_NCH; c++) if (CUR[c].len < 0 || CUR[c].len > BLK_MAXLEN || CUR[c].pos < 0 || CUR[c].pos > CUR[c].len) ok = 0;
  for (c = 0; c < CUR_NCH; c++) {
    for (i = 0; i < CUR_MAXLEN; i++) if (CUR_KSIZE[c][i] != 1) ok = 0;
    for (i = 0; i + 1 < CUR_MAXLEN; i++) if (i + 1 < CUR[c].len && CUR_KEY[c][i][0] >= CUR_KEY[c][i + 1][0]) ok = 0;
    if (CUR_ITER[c].ptr != &CUR[c] || CUR_ITER[c].table != &cur_table) ok = 0;
  }
  /* block handles are distinct (distinct file offsets) */
  for (c = 0; c < NBLK; c++) for (i = c + 1; i < NBLK; i++) if (CUR_VAL[0][c] == CUR_VAL[0][i]) ok = 0;
  return ok;
}
static int wrap_ok(const ldb_wrapiter_t *w, int c) {
  return w->iter == &CUR_ITER[c] && (w->valid != 0) == CUR_VALID(c) && (!CUR_VALID(c) || (w->key.data == CUR_KEY[c][CUR[c].pos] && w->key.size == 1));
}
/* block whose iterator is the current data iterator, -1 = none */
static int cur_block(const ldb_twoiter_t *it) { return it->data_iter.iter == NULL ? -1 : (int)(it->data_iter.iter - CUR_ITER) - 1; }

/* representation invariant */
static int two_ri(const ldb_twoiter_t *it, int settled) {
  int b = cur_block(it), c;
  if (it->block_function != stub_blockfn || it->arg != &g_arg_tag) return 0;
  if (it->options.verify_checksums != g_ropt0.verify_checksums || it->options.fill_cache != g_ropt0.fill_cache || it->options.snapshot != g_ropt0.snapshot) return 0;
  if (!wrap_ok(&it->index_iter, 0)) return 0;
  for (c = 1; c < CUR_NCH; c++) if (g_alive[c] != (b == c - 1)) return 0;          /* exactly the current data iterator is alive */
  if (b >= 0) {
    if (b >= NBLK || !wrap_ok(&it->data_iter, 1 + b)) return 0;
    if (it->data_block_handle.size != 1 || it->data_block_handle.data != g_hbuf || g_hbuf[0] != CUR_VAL[0][b]) return 0;   /* cached handle names block b */
    if (b >= NIDX) return 0;
  }
  if (settled) {
    /* after any positioning operation: either valid on (block = index position), or exhausted with no data iterator */
    if (b >= 0) { if (!CUR_VALID(0) || CUR[0].pos != b || !CUR_VALID(1 + b)) return 0; }
    else if (CUR_VALID(0)) return 0;
  }
  return 1;
}

/* --------------------------------------------------------------- harness */
static void setup(ldb_twoiter_t *it, int settled) {
  int c, i;
  IN_INT(in_cur);
  for (c = 0; c < CUR_NCH; c++) {
    CUR[c].len = nondet_int(); CUR[c].pos = nondet_int(); CUR[c].status = nondet_int(); CUR[c].ops = 0;
    for (i = 0; i < CUR_MAXLEN; i++) { CUR_KEY[c][i][0] = nondet_u8(); CUR_KSIZE[c][i] = 1; CUR_VAL[c][i] = nondet_u8(); }
    CUR_ITER[c].ptr = &CUR[c]; CUR_ITER[c].table = &cur_table; CUR_ITER[c].cmp = &stub_cmp;
    CUR_ITER[c].cleanup_head.func = NULL; CUR_ITER[c].cleanup_head.next = NULL;
    g_alive[c] = 0; g_creates[c] = 0; g_destroys[c] = 0;
  }
  ASSUME(children_wf());
  g_bad_destroy = 0; g_fn_bad = 0; g_norder = 0; g_idx_destroys = 0; g_ic_calls = 0;
  g_ropt0.verify_checksums = nondet_int(); g_ropt0.fill_cache = nondet_int(); g_ropt0.snapshot = NULL;
  it->block_function = stub_blockfn; it->arg = &g_arg_tag; it->options = g_ropt0; it->status = nondet_int();
  it->index_iter.iter = &CUR_ITER[0]; it->index_iter.valid = CUR_VALID(0);
  it->index_iter.key.data = CUR_VALID(0) ? CUR_KEY[0][CUR[0].pos] : NULL; it->index_iter.key.size = 1; it->index_iter.key.alloc = 0;
  ASSUME(in_cur >= -1 && in_cur < NIDX);
  it->data_block_handle.data = NULL; it->data_block_handle.size = 0; it->data_block_handle.alloc = 0;
  if (in_cur < 0) {
    it->data_iter.iter = NULL; it->data_iter.valid = 0; it->data_iter.key.data = NULL; it->data_iter.key.size = 0; it->data_iter.key.alloc = 0;
  } else {
    c = 1 + in_cur;
    g_alive[c] = 1;
    it->data_iter.iter = &CUR_ITER[c]; it->data_iter.valid = CUR_VALID(c);
    it->data_iter.key.data = CUR_VALID(c) ? CUR_KEY[c][CUR[c].pos] : NULL; it->data_iter.key.size = 1; it->data_iter.key.alloc = 0;
    it->data_block_handle.data = g_hbuf; g_hbuf[0] = CUR_VAL[0][in_cur]; it->data_block_handle.size = 1; it->data_block_handle.alloc = 1;
  }
  ASSUME(two_ri(it, settled));
}

static void check_after(const ldb_twoiter_t *it, int status0, int blk0) {
  int b = cur_block(it), c;
  CHECK(g_idx_destroys == 0, "two-level: the index iterator lives as long as the two-level iterator");
  CHECK(!g_bad_destroy && !g_fn_bad, "two-level: block_function gets (arg, the iterator's read options, the index entry's value); only live data iterators are destroyed");
  CHECK(X.blk < 0 ? (b < 0 && !ldb_twoiter_valid(it)) : (b == X.blk && ldb_twoiter_valid(it) && CUR[1 + X.blk].pos == X.pos),
        "two-level: lands exactly where the concatenation of the data blocks says (empty / failed blocks skipped); not valid iff there is no such entry");
  CHECK(X.blk < 0 || (CUR_VALID(0) && CUR[0].pos == X.blk), "two-level: the index iterator stands on the entry of the current data block");
  CHECK(X.blk >= 0 || !CUR_VALID(0), "two-level: not valid only once the index iterator is exhausted");
  CHECK(two_ri(it, 1), "two-level: representation invariant holds again (exactly the current data iterator alive, cached handle = its index value, wrappers coherent)");
  for (c = 1; c < CUR_NCH; c++) {
    CHECK(g_creates[c] - g_destroys[c] == (b == c - 1 ? 1 : 0) - (blk0 == c - 1 ? 1 : 0), "two-level: every data iterator that is replaced is destroyed exactly once, none is leaked");
  }
  CHECK(it->status == sp_saved(status0), "two-level: the first non-OK status of a discarded data iterator is latched (an earlier latched error is kept)");
}
void h_two_first(void) {
  ldb_twoiter_t it; int st0, b0;
  setup(&it, 0); st0 = it.status; b0 = cur_block(&it);
  X.blk = sp_next_nonempty(0); X.pos = 0;
  ldb_twoiter_first(&it);
  check_after(&it, st0, b0);
  CHECK(b0 != 0 || NIDX == 0 || g_creates[1] == 0, "two-level first: the cached data iterator is reused when the first index entry names the same block");
  CANARY();
}
void h_two_last(void) {
  ldb_twoiter_t it; int st0, b0;
  setup(&it, 0); st0 = it.status; b0 = cur_block(&it);
  X.blk = sp_prev_nonempty(NBLK - 1); X.pos = X.blk >= 0 ? BLEN(X.blk) - 1 : 0;
  ldb_twoiter_last(&it);
  check_after(&it, st0, b0);
  CHECK(NIDX == 0 || b0 != NIDX - 1 || g_creates[1 + b0] == 0, "two-level last: the cached data iterator is reused when the last index entry names the same block");
  CANARY();
}
void h_two_seek(void) {
  ldb_twoiter_t it; int st0, b0, i0; ldb_slice_t t; uint8_t tb;
  IN_U8(in_target);
  setup(&it, 0); st0 = it.status; b0 = cur_block(&it);
  tb = in_target; t.data = &tb; t.size = 1; t.alloc = 0;
  i0 = sp_idx_first_ge(in_target);                     /* first block whose separator key is >= target */
  if (i0 >= NIDX) { X.blk = -1; X.pos = 0; }
  else if (sp_blk_first_ge(i0, in_target) < BLEN(i0)) { X.blk = i0; X.pos = sp_blk_first_ge(i0, in_target); }
  else { X.blk = sp_next_nonempty(i0 + 1); X.pos = 0; }  /* nothing >= target in that block: first entry of the next non-empty block */
  ldb_twoiter_seek(&it, &t);
  check_after(&it, st0, b0);
  CHECK(i0 >= NIDX || b0 != i0 || g_creates[1 + i0] == 0, "two-level seek: the cached data iterator is reused when the index seek lands on the same block");
  CANARY();
}
void h_two_next(void) {
  ldb_twoiter_t it; int st0, b0, p0;
  setup(&it, 1); st0 = it.status; b0 = cur_block(&it);
  ASSUME(b0 >= 0);                                     /* REQUIRES valid() */
  p0 = CUR[1 + b0].pos;
  if (p0 + 1 < BLEN(b0)) { X.blk = b0; X.pos = p0 + 1; } else { X.blk = sp_next_nonempty(b0 + 1); X.pos = 0; }
  ldb_twoiter_next(&it);
  check_after(&it, st0, b0);
  CHECK(X.blk != b0 || (g_creates[1 + b0] == 0 && g_destroys[1 + b0] == 0), "two-level next: inside a block the data iterator is kept");
  CANARY();
}
void h_two_prev(void) {
  ldb_twoiter_t it; int st0, b0, p0;
  setup(&it, 1); st0 = it.status; b0 = cur_block(&it);
  ASSUME(b0 >= 0);                                     /* REQUIRES valid() */
  p0 = CUR[1 + b0].pos;
  if (p0 > 0) { X.blk = b0; X.pos = p0 - 1; } else { X.blk = sp_prev_nonempty(b0 - 1); X.pos = X.blk >= 0 ? BLEN(X.blk) - 1 : 0; }
  ldb_twoiter_prev(&it);
  check_after(&it, st0, b0);
  CHECK(X.blk != b0 || (g_creates[1 + b0] == 0 && g_destroys[1 + b0] == 0), "two-level prev: inside a block the data iterator is kept");
  CANARY();
}
/* status: index error first, then the current data iterator's, then the latched one */
void h_two_status(void) {
  ldb_twoiter_t it; int b, r, e;
  setup(&it, 0); b = cur_block(&it);
  e = CUR[0].status != LDB_OK ? CUR[0].status : (b >= 0 && BSTAT(b) != LDB_OK) ? BSTAT(b) : it.status;
  r = ldb_twoiter_status(&it);
  CHECK(r == e, "two-level status: the index iterator's error, else the current data iterator's, else the error latched from discarded data iterators, else OK");
  CANARY();
}
/* valid / key / value expose the current data entry */
void h_two_kv(void) {
  ldb_twoiter_t it; int b; ldb_slice_t k, v;
  setup(&it, 0); b = cur_block(&it);                  /* any state, e.g. before the first positioning call */
  CHECK((ldb_twoiter_valid(&it) != 0) == (b >= 0 && CUR_VALID(1 + b)), "two-level valid: iff there is a data iterator and it is positioned on an entry (whatever the index iterator says)");
  if (b >= 0 && CUR_VALID(1 + b)) {
    k = ldb_twoiter_key(&it); v = ldb_twoiter_value(&it);
    CHECK(k.data == CUR_KEY[1 + b][CUR[1 + b].pos] && k.size == 1, "two-level key: the data entry's key");
    CHECK(v.data == &CUR_VAL[1 + b][CUR[1 + b].pos] && v.size == 1, "two-level value: the data entry's value");
  }
  CANARY();
}
/* set_data_iter / saverr: latch the first error only */
void h_two_saverr(void) {
  ldb_twoiter_t it; int s0; IN_INT(in_status);
  setup(&it, 0); s0 = it.status;
  ldb_twoiter_saverr(&it, in_status);
  CHECK(it.status == (s0 != LDB_OK ? s0 : in_status), "two-level saverr: the first non-OK status is kept, later ones do not overwrite it");
  CANARY();
}

/* destruction: the index iterator and the current data iterator (if any) are destroyed, each exactly once */
void h_two_clear(void) {
  ldb_twoiter_t it; int b0, c;
  setup(&it, 0); b0 = cur_block(&it);
  ldb_twoiter_clear(&it);
  CHECK(g_idx_destroys == 1 && !g_bad_destroy, "two-level clear: the index iterator is destroyed exactly once");
  for (c = 1; c < CUR_NCH; c++)
    CHECK(g_destroys[c] == (b0 == c - 1 ? 1 : 0) && !g_alive[c] && g_creates[c] == 0, "two-level clear: the current data iterator is destroyed exactly once, nothing else is touched");
  CANARY();
}
/* construction: not positioned, no data iterator, no error; ordered like the index iterator */
void h_two_create(void) {
  ldb_twoiter_t it; ldb_iter_t *r; ldb_twoiter_t *t; int c;
  setup(&it, 0);
  for (c = 1; c < CUR_NCH; c++) g_alive[c] = 0;
  r = ldb_twoiter_create(&CUR_ITER[0], stub_blockfn, &g_arg_tag, &g_ropt0);
  CHECK(r == &g_outer && g_ic_calls == 1 && r->table == &ldb_twoiter_table && r->cmp == &stub_cmp, "two-level create: an iterator with the two-level vtable, ordered by the index iterator's comparator");
  t = (ldb_twoiter_t *)r->ptr;
  CHECK(t->block_function == stub_blockfn && t->arg == &g_arg_tag && t->options.verify_checksums == g_ropt0.verify_checksums && t->options.fill_cache == g_ropt0.fill_cache &&
        t->options.snapshot == g_ropt0.snapshot, "two-level create: block function, its cookie and a COPY of the read options are kept");
  CHECK(t->status == LDB_OK && t->data_iter.iter == NULL && !ldb_twoiter_valid(t) && t->data_block_handle.size == 0, "two-level create: no error, no data iterator, not valid");
  CHECK(wrap_ok(&t->index_iter, 0), "two-level create: owns the index iterator (wrapper coherent)");
  CHECK(g_creates[1] == 0 && g_creates[2] == 0 && g_idx_destroys == 0, "two-level create: no block is opened yet");
  free(t);
  CANARY();
}
