/* units/dbf.c - memtable flush and the background call (src/db_impl.c)
 *   db.flush : ldb_compact_memtable + ldb_write_level0_table   (C02 O3-O5, C03 P3, C12 E3, C13 G3/G5, C14, C09 W2)
 *   db.bg    : ldb_background_call, ldb_maybe_schedule_compaction   (C09 W2/W3, C12 E3)
 *
 * The real db_impl.c is included unmodified.  Table building, the version set
 * (ldb_versions_apply) and the memtable are ghost models in which every I/O
 * step can fail; ldb_remove_obsolete_files is used through its call-protocol
 * contract (contracts/dbgc.h, enforced in db.gc_call).
 */
#include "verif.h"
int nondet_int(void);
uint64_t nondet_u64(void);
size_t nondet_size(void);

#include "db_impl.c"
#include "contracts/dbgc.h"

/* ------------------------------------------------------------------ ghost */
unsigned long g_clock;
static unsigned long tick(void) { __CPROVER_assume(g_clock < (1ul << 40)); return ++g_clock; }
uint64_t g_next_file, g_table_number;
int g_pending_has;              /* the table number is in pending_outputs                     */
int g_pending_puts, g_pending_dels;
int g_build_calls, g_build_rc; uint64_t g_build_size;
int g_pick_calls, g_pick_level;
int g_addfile_calls; int g_af_level; uint64_t g_af_number, g_af_size;
int g_apply_calls, g_apply_rc;
int g_e_has_log, g_e_has_prev; uint64_t g_e_log, g_e_prev; int g_e_files;
int g_imm_unrefs, g_base_refs, g_base_unrefs, g_iter_creates, g_iter_destroys;
unsigned long g_t_build, g_t_apply, g_t_gc, g_t_immnull;
unsigned g_broadcasts; int g_bgerr0;
ldb_memtable_t g_imm_obj; ldb_version_t g_base_obj; ldb_iter_t g_iter_obj;
int g_sched_calls;
int g_needs_compaction;

/* ---------------------------------------------------------- thread model */
void ldb_mutex_lock(ldb_mutex_t *m) { __CPROVER_assert(m == &g_db->mutex && !g_held, "lock: DB mutex not held"); g_held = 1; g_locks++; }
void ldb_mutex_unlock(ldb_mutex_t *m) { __CPROVER_assert(m == &g_db->mutex && g_held, "unlock: DB mutex held"); g_held = 0; g_unlocks++; }
void ldb_cond_broadcast(ldb_cond_t *cv) { __CPROVER_assert(cv == &g_db->background_work_finished_signal && g_held, "broadcast on the background signal, under the mutex"); g_broadcasts++; }
void ldb_pool_schedule(ldb_pool_t *pool, ldb_work_f *func, void *arg) { __CPROVER_assert(g_held && arg == g_db, "background work scheduled under the mutex"); g_sched_calls++; }
int ldb_versions_needs_compaction(const ldb_versions_t *vset) { return g_needs_compaction; }

/* ------------------------------------------------------------ env models */
int64_t ldb_now_usec(void) { return 0; }
void ldb_log(ldb_logger_t *logger, const char *fmt, ...) { }
const char *ldb_strerror(int code) { return "e"; }
uint64_t ldb_versions_new_file_number(ldb_versions_t *vset) { g_table_number = g_next_file; return g_next_file++; }
int ldb_rb_set64_put(rb_tree_t *tree, uint64_t item) { __CPROVER_assert(tree == &g_db->pending_outputs && item == g_table_number, "the new table's number is protected in pending_outputs"); g_pending_has = 1; g_pending_puts++; return 1; }
int ldb_rb_set64_del(rb_tree_t *tree, uint64_t item) { __CPROVER_assert(tree == &g_db->pending_outputs && item == g_table_number, "pending_outputs entry released"); g_pending_has = 0; g_pending_dels++; return 1; }
ldb_iter_t *ldb_memiter_create(const ldb_memtable_t *mt) { __CPROVER_assert(mt == &g_imm_obj, "the flush reads the immutable memtable"); g_iter_creates++; return &g_iter_obj; }
void ldb_iter_destroy(ldb_iter_t *it) { g_iter_destroys++; }
void ldb_filemeta_init(ldb_filemeta_t *meta) { meta->refs = 0; meta->allowed_seeks = (1 << 30); meta->number = 0; meta->file_size = 0; meta->smallest.data = NULL; meta->smallest.size = 8; meta->largest.data = NULL; meta->largest.size = 8; }
void ldb_filemeta_clear(ldb_filemeta_t *meta) { }
void ldb_edit_init(ldb_edit_t *edit) { edit->has_log_number = 0; edit->has_prev_log_number = 0; edit->has_next_file_number = 0; edit->has_last_sequence = 0; edit->has_comparator = 0; }
void ldb_edit_clear(ldb_edit_t *edit) { }
void ldb_edit_set_log_number(ldb_edit_t *edit, uint64_t num) { edit->has_log_number = 1; edit->log_number = num; }
void ldb_edit_set_prev_log_number(ldb_edit_t *edit, uint64_t num) { edit->has_prev_log_number = 1; edit->prev_log_number = num; }
void ldb_version_ref(ldb_version_t *v) { __CPROVER_assert(v == &g_base_obj, "base version pinned"); g_base_refs++; }
void ldb_version_unref(ldb_version_t *v) { __CPROVER_assert(v == &g_base_obj, "base version unpinned"); g_base_unrefs++; }
void ldb_memtable_unref(ldb_memtable_t *mt) { __CPROVER_assert(mt == &g_imm_obj, "only the flushed memtable is released"); g_imm_unrefs++; }

int ldb_build_table(const char *dbname, const ldb_dbopt_t *options, ldb_tables_t *table_cache, ldb_iter_t *iter, ldb_filemeta_t *meta) {
  __CPROVER_assert(!g_held, "the table is built with the mutex released");
  __CPROVER_assert(g_pending_has && meta->number == g_table_number, "while the table file is being written its number is in pending_outputs (not collectable)");
  __CPROVER_assert(iter == &g_iter_obj, "table is built from the memtable iterator");
  g_build_calls++; g_build_rc = nondet_int(); g_build_size = nondet_u64(); __CPROVER_assume(g_build_size < (1ull << 50));
  /* builder contract (db.build): failure or empty input leave file_size 0 and no file behind */
  if (g_build_rc != LDB_OK) g_build_size = 0;
  meta->file_size = g_build_size;
  g_t_build = tick();
  return g_build_rc;
}
int ldb_version_pick_level_for_memtable_output(ldb_version_t *v, const ldb_slice_t *small, const ldb_slice_t *large) {
  __CPROVER_assert(v == &g_base_obj, "output level is chosen against the pinned base version");
  g_pick_calls++; g_pick_level = nondet_int(); __CPROVER_assume(g_pick_level >= 0 && g_pick_level <= 2);
  return g_pick_level;
}
void ldb_edit_add_file(ldb_edit_t *edit, int level, uint64_t number, uint64_t file_size, const ldb_ikey_t *smallest, const ldb_ikey_t *largest) {
  g_addfile_calls++; g_af_level = level; g_af_number = number; g_af_size = file_size;
}
int ldb_versions_apply(ldb_versions_t *vset, ldb_edit_t *edit, ldb_mutex_t *mu) {
  __CPROVER_assert(g_held && mu == &g_db->mutex && vset == g_db->versions, "apply is entered with the mutex held");
  __CPROVER_assert(g_build_calls == 1 && g_build_rc == LDB_OK, "O4: the edit is applied only after the table was built, synced and closed successfully");
  g_apply_calls++;
  g_e_has_log = edit->has_log_number; g_e_log = edit->log_number; g_e_has_prev = edit->has_prev_log_number; g_e_prev = edit->prev_log_number;
  g_e_files = g_addfile_calls;
  /* apply releases the mutex around the MANIFEST write */
  g_held = 0; g_held = 1;
  g_apply_rc = nondet_int();
  g_t_apply = tick();
  if (g_apply_rc == LDB_OK) g_gc_allowed = 1;
  return g_apply_rc;
}

/* ----------------------------------------------------------------- db.flush */
static ldb_versions_t g_versions;

static ldb_t *setup_db(void) {
  ldb_t *db = malloc(sizeof(ldb_t));
  __CPROVER_assume(db != NULL);
  g_db = db; db->versions = &g_versions; g_versions.current = &g_base_obj;
  g_held = 1; g_locks = 1; g_unlocks = 0; g_clock = 0;
  g_pending_has = 0; g_pending_puts = g_pending_dels = 0; g_build_calls = 0; g_pick_calls = 0; g_addfile_calls = 0; g_apply_calls = 0;
  g_imm_unrefs = g_base_refs = g_base_unrefs = g_iter_creates = g_iter_destroys = 0; g_broadcasts = 0; g_gc_allowed = 0; g_gc_calls = 0; g_sched_calls = 0; g_copied_pending = 0; g_added_versions = 0;
  g_t_build = g_t_apply = g_t_gc = 0;
  __CPROVER_assume(g_next_file < (1ull << 60));
  __CPROVER_assume(g_len >= -1 && g_k >= 0 && (g_len <= 0 || g_k < g_len));
  return db;
}

void h_flush(void) {
  ldb_t *db = setup_db();
  uint64_t lognum;
  int shut;
  db->imm = &g_imm_obj; *(int *)&db->has_imm = 1;
  /* the background call runs a flush only without a latched error (db.bg) */
  __CPROVER_assume(db->bg_error == LDB_OK);
  g_bgerr0 = db->bg_error;
  lognum = db->logfile_number;
  { int l; for (l = 0; l < 3; l++) { __CPROVER_assume(db->stats[l].micros >= 0 && db->stats[l].micros < (1ll << 50) && db->stats[l].bytes_read >= 0 && db->stats[l].bytes_read < (1ll << 50) && db->stats[l].bytes_written >= 0 && db->stats[l].bytes_written < (1ll << 50)); } }

  ldb_compact_memtable(db);

  shut = *(int *)&db->shutting_down != 0;
  CHECK(g_held && g_locks == g_unlocks + 1, "flush: returns with the mutex held, lock/unlock balanced");
  CHECK(g_build_calls == 1 && g_pending_puts == 1 && g_pending_dels == 1 && !g_pending_has && g_iter_creates == 1 && g_iter_destroys == 1, "flush: one table built under pending_outputs protection, iterator released");
  CHECK(g_base_refs == 1 && g_base_unrefs == 1, "flush: the base version is pinned while the table is built and unpinned afterwards");
  CHECK(g_addfile_calls == ((g_build_rc == LDB_OK && g_build_size > 0) ? 1 : 0), "flush: the edit names the table iff it was built OK and is non-empty");
  if (g_addfile_calls) CHECK(g_af_number == g_table_number && g_af_size == g_build_size && g_pick_calls == 1 && g_af_level == g_pick_level, "flush: the edit carries the table's number, size and the level chosen by pick_level_for_memtable_output");
  if (g_apply_calls) {
    CHECK(g_apply_calls == 1 && g_e_has_log && g_e_log == lognum && g_e_has_prev && g_e_prev == 0, "P3: the edit of a flush sets log_number to the CURRENT log (the flushed memtable's logs become obsolete) and prev_log_number to 0");
    CHECK(g_e_files == g_addfile_calls, "the table is added to the edit before the edit is applied");
  }
  if (g_apply_calls && g_apply_rc == LDB_OK) {
    CHECK(db->imm == NULL && *(int *)&db->has_imm == 0 && g_imm_unrefs == 1, "flush OK: the immutable memtable is dropped only now (its data is durable in the table + MANIFEST)");
    CHECK(g_copied_pending && g_added_versions, "flush OK: obsolete files are collected afterwards (G5)");
    CHECK(db->bg_error == g_bgerr0, "flush OK: no error latched");
  } else {
    CHECK(db->imm == &g_imm_obj && *(int *)&db->has_imm == 1 && g_imm_unrefs == 0, "flush failed: the immutable memtable is kept (nothing acknowledged is lost)");
    CHECK(db->bg_error != LDB_OK, "flush failed: the error is latched in bg_error");
    CHECK(g_bgerr0 != LDB_OK || g_broadcasts >= 1, "flush failed: waiters are woken (latching the error broadcasts)");
    CHECK(!g_copied_pending, "flush failed: nothing is garbage-collected");
  }
  if (g_build_rc != LDB_OK || shut) CHECK(g_apply_calls == 0, "no MANIFEST edit after a failed table build or during shutdown");
  CANARY();
}
