/* units/dbf.c - memtable flush and the background call (src/db_impl.c)
 *   db.flush : ldb_compact_memtable + ldb_write_level0_table   (C02 O3-O5, C03 P3, C12 E3, C13 G3/G5, C14, C09 W2)
 *   db.bg    : ldb_background_call, ldb_maybe_schedule_compaction   (C09 W2/W3, C12 E3)
 *
 * The real db_impl.c is included unmodified.  Table building, the version set
 * (ldb_versions_apply) and the memtable are ghost models in which every I/O
 * step can fail; ldb_remove_obsolete_files is used through its call-protocol
 * contract (contracts/dbgc.h, enforced in db.gc_call).
 */
#include "verif.h"
int nondet_int(void);
uint64_t nondet_u64(void);
size_t nondet_size(void);

#include "db_impl.c"
#include "contracts/dbgc.h"
#include "contracts/dbbg.h"      /* c_background_compaction, g_needs_compaction */

/* ------------------------------------------------------------------ ghost */
unsigned long g_clock;
static unsigned long tick(void) { __CPROVER_assume(g_clock < (1ul << 40)); return ++g_clock; }
uint64_t g_next_file, g_table_number;
int g_pending_has;              /* the table number is in pending_outputs                     */
unsigned g_pending_puts, g_pending_dels;
unsigned g_build_calls; int g_build_rc; uint64_t g_build_size;
int g_pick_calls, g_pick_level;
unsigned g_addfile_calls; int g_af_level; uint64_t g_af_number, g_af_size;
int g_apply_calls, g_apply_rc;
int g_e_has_log, g_e_has_prev; uint64_t g_e_log, g_e_prev; unsigned g_e_files;
unsigned g_imm_unrefs, g_base_refs, g_base_unrefs, g_iter_creates, g_iter_destroys;
unsigned long g_t_build, g_t_apply, g_t_gc, g_t_immnull;
unsigned g_broadcasts; int g_bgerr0;
ldb_memtable_t g_imm_obj; ldb_version_t g_base_obj; ldb_iter_t g_iter_obj;
int g_sched_calls;
int g_mode_recover; ldb_memtable_t g_rmem_obj; unsigned g_rmem_unrefs; unsigned g_flushes; int g_flush_failed;   /* latches: a table write during log replay failed */

/* ---------------------------------------------------------- thread model */
void ldb_mutex_lock(ldb_mutex_t *m) { __CPROVER_assert(m == &g_db->mutex && !g_held, "lock: DB mutex not held"); g_held = 1; g_locks++; }
void ldb_mutex_unlock(ldb_mutex_t *m) { __CPROVER_assert(m == &g_db->mutex && g_held, "unlock: DB mutex held"); g_held = 0; g_unlocks++; }
unsigned g_signals;
void ldb_cond_signal(ldb_cond_t *cv) { g_signals++; }   /* wakes ONE waiter only: never enough for the background signal, which several threads wait on */
void ldb_cond_broadcast(ldb_cond_t *cv) { __CPROVER_assert(cv == &g_db->background_work_finished_signal && g_held, "broadcast on the background signal, under the mutex"); g_broadcasts++; }
void ldb_pool_schedule(ldb_pool_t *pool, ldb_work_f *func, void *arg) { __CPROVER_assert(g_held && arg == g_db, "background work scheduled under the mutex"); g_sched_calls++; }
int ldb_versions_needs_compaction(const ldb_versions_t *vset) { return g_needs_compaction; }

/* ------------------------------------------------------------ env models */
int64_t ldb_now_usec(void) { return 0; }
void ldb_log(ldb_logger_t *logger, const char *fmt, ...) { }
const char *ldb_strerror(int code) { return "e"; }
uint64_t ldb_versions_new_file_number(ldb_versions_t *vset) { g_table_number = g_next_file; return g_next_file++; }
int ldb_rb_set64_put(rb_tree_t *tree, uint64_t item) { __CPROVER_assert(tree == &g_db->pending_outputs && item == g_table_number, "the new table's number is protected in pending_outputs"); g_pending_has = 1; g_pending_puts++; return 1; }
int ldb_rb_set64_del(rb_tree_t *tree, uint64_t item) { __CPROVER_assert(tree == &g_db->pending_outputs && item == g_table_number, "pending_outputs entry released"); g_pending_has = 0; g_pending_dels++; if (g_build_calls && g_build_rc == LDB_OK && g_build_size > 0) g_unprotected_outputs++; return 1; }
ldb_iter_t *ldb_memiter_create(const ldb_memtable_t *mt) { __CPROVER_assert(mt == (g_mode_recover ? &g_rmem_obj : &g_imm_obj), "the flush reads the immutable (or recovered) memtable"); g_iter_creates++; return &g_iter_obj; }
void ldb_iter_destroy(ldb_iter_t *it) { g_iter_destroys++; }
void ldb_filemeta_init(ldb_filemeta_t *meta) { meta->refs = 0; meta->allowed_seeks = (1 << 30); meta->number = 0; meta->file_size = 0; meta->smallest.data = NULL; meta->smallest.size = 8; meta->largest.data = NULL; meta->largest.size = 8; }
void ldb_filemeta_clear(ldb_filemeta_t *meta) { }
void ldb_edit_init(ldb_edit_t *edit) { edit->has_log_number = 0; edit->has_prev_log_number = 0; edit->has_next_file_number = 0; edit->has_last_sequence = 0; edit->has_comparator = 0; }
void ldb_edit_clear(ldb_edit_t *edit) { }
void ldb_edit_set_log_number(ldb_edit_t *edit, uint64_t num) { edit->has_log_number = 1; edit->log_number = num; }
void ldb_edit_set_prev_log_number(ldb_edit_t *edit, uint64_t num) { edit->has_prev_log_number = 1; edit->prev_log_number = num; }
void ldb_version_ref(ldb_version_t *v) { __CPROVER_assert(v == &g_base_obj, "base version pinned"); g_base_refs++; }
void ldb_version_unref(ldb_version_t *v) { __CPROVER_assert(v == &g_base_obj, "base version unpinned"); g_base_unrefs++; }
void ldb_memtable_unref(ldb_memtable_t *mt) { if (g_mode_recover) { __CPROVER_assert(mt == &g_rmem_obj, "recovery memtable released"); g_rmem_unrefs++; return; } __CPROVER_assert(mt == &g_imm_obj, "only the flushed memtable is released"); g_imm_unrefs++; }

int ldb_build_table(const char *dbname, const ldb_dbopt_t *options, ldb_tables_t *table_cache, ldb_iter_t *iter, ldb_filemeta_t *meta) {
  __CPROVER_assert(!g_held, "the table is built with the mutex released");
  __CPROVER_assert(g_pending_has && meta->number == g_table_number, "while the table file is being written its number is in pending_outputs (not collectable)");
  __CPROVER_assert(iter == &g_iter_obj, "table is built from the memtable iterator");
  g_build_calls++; if (g_mode_recover) g_flushes++; g_build_rc = nondet_int(); g_build_size = nondet_u64(); __CPROVER_assume(g_build_size < (1ull << 50));
  /* builder contract (db.build): failure or empty input leave file_size 0 and no file behind */
  if (g_build_rc != LDB_OK) g_build_size = 0;
  if (g_mode_recover && g_build_rc != LDB_OK) g_flush_failed = 1;
  meta->file_size = g_build_size;
  g_t_build = tick();
  return g_build_rc;
}
int ldb_version_pick_level_for_memtable_output(ldb_version_t *v, const ldb_slice_t *small, const ldb_slice_t *large) {
  __CPROVER_assert(v == &g_base_obj, "output level is chosen against the pinned base version");
  __CPROVER_assert(!g_mode_recover, "a table written while replaying a log goes to level 0: tables recovered earlier in the same open exist only in the pending edit, so no level below 0 can be chosen against the current version (a newer log's table would sink under an older one)");
  g_pick_calls++; g_pick_level = nondet_int(); __CPROVER_assume(g_pick_level >= 0 && g_pick_level <= 2);
  return g_pick_level;
}
void ldb_edit_add_file(ldb_edit_t *edit, int level, uint64_t number, uint64_t file_size, const ldb_ikey_t *smallest, const ldb_ikey_t *largest) {
  g_addfile_calls++; g_af_level = level; g_af_number = number; g_af_size = file_size;
}
int ldb_versions_apply(ldb_versions_t *vset, ldb_edit_t *edit, ldb_mutex_t *mu) {
  __CPROVER_assert(g_held && mu == &g_db->mutex && vset == g_db->versions, "apply is entered with the mutex held");
  __CPROVER_assert(g_build_calls == 1 && g_build_rc == LDB_OK, "O4: the edit is applied only after the table was built, synced and closed successfully");
  g_apply_calls++;
  g_e_has_log = edit->has_log_number; g_e_log = edit->log_number; g_e_has_prev = edit->has_prev_log_number; g_e_prev = edit->prev_log_number;
  g_e_files = g_addfile_calls;
  /* apply releases the mutex around the MANIFEST write */
  g_held = 0; g_held = 1;
  g_apply_rc = nondet_int();
  g_t_apply = tick();
  if (g_apply_rc == LDB_OK) { g_gc_allowed = 1; if (g_addfile_calls) g_unprotected_outputs = 0; /* the installed version names the table */ }
  return g_apply_rc;
}

/* ----------------------------------------------------------------- db.flush */
static ldb_versions_t g_versions;

static ldb_t *setup_db(void) {
  ldb_t *db = malloc(sizeof(ldb_t));
  __CPROVER_assume(db != NULL);
  g_db = db; db->versions = &g_versions; g_versions.current = &g_base_obj;
  g_held = 1; g_locks = 1; g_unlocks = 0; g_clock = 0;
  g_pending_has = 0; g_pending_puts = g_pending_dels = 0; g_build_calls = 0; g_pick_calls = 0; g_addfile_calls = 0; g_apply_calls = 0;
  g_imm_unrefs = g_base_refs = g_base_unrefs = g_iter_creates = g_iter_destroys = 0; g_broadcasts = 0; g_gc_allowed = 0; g_unprotected_outputs = 0; g_gc_calls = 0; g_sched_calls = 0; g_copied_pending = 0; g_added_versions = 0;
  g_t_build = g_t_apply = g_t_gc = 0; g_mode_recover = 0;
  __CPROVER_assume(g_next_file < (1ull << 60));
  __CPROVER_assume(g_len >= -1 && g_k >= 0 && (g_len <= 0 || g_k < g_len));
  return db;
}

void h_flush(void) {
  ldb_t *db = setup_db();
  uint64_t lognum;
  int shut;
  db->imm = &g_imm_obj; *(int *)&db->has_imm = 1;
  /* the background call runs a flush only without a latched error (db.bg) */
  __CPROVER_assume(db->bg_error == LDB_OK);
  g_bgerr0 = db->bg_error;
  lognum = db->logfile_number;
  { int l; for (l = 0; l < 3; l++) { __CPROVER_assume(db->stats[l].micros >= 0 && db->stats[l].micros < (1ll << 50) && db->stats[l].bytes_read >= 0 && db->stats[l].bytes_read < (1ll << 50) && db->stats[l].bytes_written >= 0 && db->stats[l].bytes_written < (1ll << 50)); } }

  ldb_compact_memtable(db);

  shut = *(int *)&db->shutting_down != 0;
  CHECK(g_held && g_locks == g_unlocks + 1, "flush: returns with the mutex held, lock/unlock balanced");
  CHECK(g_build_calls == 1 && g_pending_puts == 1 && g_pending_dels == 1 && !g_pending_has && g_iter_creates == 1 && g_iter_destroys == 1, "flush: one table built under pending_outputs protection, iterator released");
  CHECK(g_base_refs == 1 && g_base_unrefs == 1, "flush: the base version is pinned while the table is built and unpinned afterwards");
  CHECK(g_addfile_calls == ((g_build_rc == LDB_OK && g_build_size > 0) ? 1 : 0), "flush: the edit names the table iff it was built OK and is non-empty");
  if (g_addfile_calls) CHECK(g_af_number == g_table_number && g_af_size == g_build_size && g_pick_calls == 1 && g_af_level == g_pick_level, "flush: the edit carries the table's number, size and the level chosen by pick_level_for_memtable_output");
  if (g_apply_calls) {
    CHECK(g_apply_calls == 1 && g_e_has_log && g_e_log == lognum && g_e_has_prev && g_e_prev == 0, "P3: the edit of a flush sets log_number to the CURRENT log (the flushed memtable's logs become obsolete) and prev_log_number to 0");
    CHECK(g_e_files == g_addfile_calls, "the table is added to the edit before the edit is applied");
  }
  if (g_apply_calls && g_apply_rc == LDB_OK) {
    CHECK(db->imm == NULL && *(int *)&db->has_imm == 0 && g_imm_unrefs == 1, "flush OK: the immutable memtable is dropped only now (its data is durable in the table + MANIFEST)");
    CHECK(g_copied_pending && g_added_versions, "flush OK: obsolete files are collected afterwards (G5)");
    CHECK(db->bg_error == g_bgerr0, "flush OK: no error latched");
  } else {
    CHECK(db->imm == &g_imm_obj && *(int *)&db->has_imm == 1 && g_imm_unrefs == 0, "flush failed: the immutable memtable is kept (nothing acknowledged is lost)");
    CHECK(db->bg_error != LDB_OK, "flush failed: the error is latched in bg_error");
    CHECK(g_bgerr0 != LDB_OK || g_broadcasts >= 1, "flush failed: waiters are woken (latching the error broadcasts)");
    CHECK(!g_copied_pending, "flush failed: nothing is garbage-collected");
  }
  if (g_build_rc != LDB_OK || shut) CHECK(g_apply_calls == 0, "no MANIFEST edit after a failed table build or during shutdown");
  CANARY();
}

/* ----------------------------------------------------------- db.recoverlog
 * ldb_recover_log_file: replay of one write-ahead log at open.
 * The log reader is a ghost model obeying the contract proved in log.read
 * (whole records, last_end = offset just past the last returned record); an
 * arbitrary, unbounded number of records; ONE arbitrary record g_rk is tracked. */
unsigned g_rmem_creates, g_rmem_refs;
unsigned long g_recs_left;        /* records the file still holds (arbitrary, finite)            */
long g_rec_idx;                   /* read_record calls so far                                     */
long g_rk;                        /* tracked record index                                         */
size_t g_rsize_k; uint64_t g_rseq_k; int g_rcnt_k;   /* its size / batch sequence / batch count   */
long g_cur_batch_idx;             /* index of the record currently loaded into the batch          */
unsigned g_rins_k; int g_rins_rc_k; unsigned g_rreports_k;
uint64_t g_last_end, g_file_size; /* reader position after the last whole record / real file size */
int g_reader_inited, g_reader_checksum; uint64_t g_reader_initial;
int g_seqfile_rc, g_appendfile_calls, g_wcreate_calls; uint64_t g_wcreate_len;
size_t g_usage;
ldb_wfile_t g_reuse_file; ldb_writer_t g_reuse_writer; ldb_rfile_t *g_seqfile;
struct ldb_rfile_s { int dummy; }; struct ldb_rfile_s g_rfile_obj;
struct ldb_wfile_s { int dummy; };

int ldb_log_filename(char *buf, size_t size, const char *dbname, uint64_t num) { buf[0] = 'L'; buf[1] = 0; return 1; }
int ldb_seqfile_create(const char *filename, ldb_rfile_t **file) { g_seqfile_rc = nondet_int(); if (g_seqfile_rc == LDB_OK) *file = &g_rfile_obj; return g_seqfile_rc; }
void ldb_rfile_destroy(ldb_rfile_t *file) { }
void ldb_reader_init(ldb_reader_t *lr, ldb_rfile_t *file, ldb_reporter_t *reporter, int checksum, uint64_t initial_offset) {
  g_reader_inited++; g_reader_checksum = checksum; g_reader_initial = initial_offset;
  lr->reporter = reporter; lr->last_end = 0; g_last_end = 0;
}
void ldb_reader_clear(ldb_reader_t *lr) { }
int ldb_reader_read_record(ldb_reader_t *lr, ldb_slice_t *record, ldb_buffer_t *scratch) {
  uint64_t adv;
  /* damage met before the next whole record is reported (may set the caller's status in paranoid mode) */
  /* (the reporter's callback is db_impl.c's report_corruption; called directly to keep the loop free of function pointers) */
  if (nondet_int()) { __CPROVER_assert(lr->reporter->corruption == report_corruption, "reader reports through db_impl.c's report_corruption"); report_corruption(lr->reporter, nondet_size(), LDB_CORRUPTION); }
  if (g_recs_left == 0) return 0;
  g_recs_left--;
  record->size = (g_rec_idx == g_rk) ? g_rsize_k : nondet_size();
  record->data = NULL;
  adv = nondet_u64();
  __CPROVER_assume(adv >= 7 && adv <= g_file_size - g_last_end);   /* a whole record lies inside the file */
  g_last_end += adv; lr->last_end = g_last_end;
  g_rec_idx++;
  return 1;
}
void ldb_batch_init(ldb_batch_t *b) { }
void ldb_batch_clear(ldb_batch_t *b) { }
void ldb_buffer_init(ldb_buffer_t *z) { z->data = NULL; z->size = 0; z->alloc = 0; }
void ldb_buffer_clear(ldb_buffer_t *z) { }
void ldb_batch_set_contents(ldb_batch_t *b, const ldb_slice_t *contents) {
  __CPROVER_assert(contents->size >= 12, "only records with a complete 12-byte batch header are applied");
  g_cur_batch_idx = g_rec_idx - 1;
}
ldb_seqnum_t ldb_batch_sequence(const ldb_batch_t *b) { if (g_cur_batch_idx == g_rk) return g_rseq_k; { uint64_t s = nondet_u64(); __CPROVER_assume(s >= 1 && s < (1ull << 56)); return s; } }
int ldb_batch_count(const ldb_batch_t *b) { if (g_cur_batch_idx == g_rk) return g_rcnt_k; { int c = nondet_int(); __CPROVER_assume(c >= 0 && c < (1 << 28)); return c; } }
int ldb_batch_insert_into(const ldb_batch_t *b, ldb_memtable_t *table) {
  int rc = nondet_int();
  __CPROVER_assert(table == &g_rmem_obj, "replayed batches go into the recovery memtable");
  if (g_cur_batch_idx == g_rk) { g_rins_k++; g_rins_rc_k = rc; }
  return rc;
}
ldb_memtable_t *ldb_memtable_create(const ldb_comparator_t *cmp) { g_rmem_creates++; return &g_rmem_obj; }
void ldb_memtable_ref(ldb_memtable_t *mt) { g_rmem_refs++; }
size_t ldb_memtable_usage(const ldb_memtable_t *mt) { return g_usage = nondet_size(); }
int ldb_file_size(const char *filename, uint64_t *size) { int rc = nondet_int(); if (rc == LDB_OK) *size = g_file_size; return rc; }
int ldb_appendfile_create(const char *filename, ldb_wfile_t **file) { int rc = nondet_int(); g_appendfile_calls++; if (rc == LDB_OK) *file = &g_reuse_file; return rc; }
ldb_writer_t *ldb_writer_create(ldb_wfile_t *file, uint64_t length) {
  /* precondition of ldb_writer_init (log.init): the file is a framed prefix of `length` bytes */
  __CPROVER_assert(file == &g_reuse_file && length == g_file_size, "reused log: the writer continues at the real end of the file");
  __CPROVER_assert(g_last_end == g_file_size, "a log is reopened for appending only if its last complete record ends exactly at the end of the file (no torn or damaged tail to append after)");
  g_wcreate_calls++; g_wcreate_len = length;
  return &g_reuse_writer;
}

void h_recoverlog(void) {
  ldb_t *db = setup_db();
  ldb_edit_t edit;
  ldb_seqnum_t max_seq, max0;
  int save_manifest = 0, last_log = nondet_int() ? 1 : 0, rc;
  long total;
  g_mode_recover = 1;
  db->mem = NULL; db->log = NULL; db->logfile = NULL; db->imm = NULL;
  __CPROVER_assume(db->options.reuse_logs == 0 || db->options.reuse_logs == 1);
  __CPROVER_assume(db->options.paranoid_checks == 0 || db->options.paranoid_checks == 1);
  g_rmem_creates = g_rmem_unrefs = g_rmem_refs = 0; g_rec_idx = 0; g_cur_batch_idx = -1; g_rins_k = 0; g_rreports_k = 0; g_flushes = 0; g_flush_failed = 0;
  g_reader_inited = 0; g_appendfile_calls = 0; g_wcreate_calls = 0; g_last_end = 0;
  __CPROVER_assume(g_rk >= 0 && g_recs_left < (1ul << 30) && g_file_size < (1ull << 60));
  __CPROVER_assume(g_rseq_k >= 1 && g_rseq_k < (1ull << 56) && g_rcnt_k >= 0 && g_rcnt_k < (1 << 28));
  __CPROVER_assume(max_seq < (1ull << 56));
  { int l; for (l = 0; l < 3; l++) { __CPROVER_assume(db->stats[l].micros >= 0 && db->stats[l].micros < (1ll << 50) && db->stats[l].bytes_read >= 0 && db->stats[l].bytes_read < (1ll << 50) && db->stats[l].bytes_written >= 0 && db->stats[l].bytes_written < (1ll << 50)); } }
  max0 = max_seq; total = (long)g_recs_left;

  rc = ldb_recover_log_file(db, nondet_u64(), last_log, &save_manifest, &edit, &max_seq);

  CHECK(g_held, "recover_log_file: mutex still held");
  if (g_seqfile_rc == LDB_OK) CHECK(g_reader_inited == 1 && g_reader_checksum == 1 && g_reader_initial == 0, "the recovery reader verifies checksums (even without paranoid_checks) and starts at offset 0");
  CHECK(max_seq >= max0, "max_sequence never decreases");
  CHECK(!g_flush_failed || rc != LDB_OK, "a table that could not be written while replaying the log makes the recovery fail, with or without paranoid_checks (an I/O error is never treated like skippable log damage)");
  if (rc == LDB_OK && g_seqfile_rc == LDB_OK && g_rk < g_rec_idx) {
    /* the tracked record was read and the replay finished OK */
    if (g_rsize_k >= 12) {
      CHECK(g_rins_k == 1, "every whole log record with a batch header is applied exactly once, as one batch");
      if (g_rins_rc_k == LDB_OK) CHECK(max_seq >= g_rseq_k + (uint64_t)g_rcnt_k - 1 || g_rcnt_k == 0, "max_sequence covers the last sequence number of every applied batch");
    } else CHECK(g_rins_k == 0, "a record shorter than a batch header is skipped (reported), never applied");
  }
  if (rc == LDB_OK && g_seqfile_rc == LDB_OK) CHECK(g_recs_left == 0 || db->options.paranoid_checks, "OK: the whole log was read (without paranoid_checks damage is skipped, not fatal)");
  /* log reuse */
  if (g_wcreate_calls) {
    CHECK(db->options.reuse_logs && last_log && g_flushes == 0 && rc == LDB_OK, "a log is reused only with reuse_logs, for the last log, when nothing was flushed during replay");
    CHECK(db->log == &g_reuse_writer && db->logfile == &g_reuse_file && db->mem == &g_rmem_obj && g_rmem_unrefs == 0 && g_rmem_creates == 1, "reused log: it becomes the current log and the replayed memtable (kept, not flushed) the current memtable");
  } else {
    CHECK(db->log == NULL && db->logfile == NULL && db->mem == NULL, "no reuse: no current log yet (ldb_open creates a fresh one)");
    if (rc == LDB_OK && g_seqfile_rc == LDB_OK) CHECK(g_flushes == g_rmem_creates && g_rmem_unrefs == g_rmem_creates && (g_rmem_creates == 0 || save_manifest == 1), "replayed data that is not kept in a reused log is flushed to a table (every recovery memtable exactly once) and the MANIFEST is rewritten");
  }
  CANARY();
}

/* ------------------------------------------------------------------ db.bg
 * ldb_background_call: the function the thread pool runs.  W2/W3 of C09: every
 * state change a foreground thread may be waiting for (imm flushed, error
 * latched, compaction finished, manual compaction done) is followed by a
 * broadcast before the mutex is released, and pending work is rescheduled. */
unsigned long g_t_bgc, g_t_bcast, g_t_unlock_last;
static ldb_manual_t g_manual_obj;
void h_bgcall(void) {
  ldb_t *db = setup_db();
  int shut, err0, sched; ldb_memtable_t *imm0; void *man0;
  unsigned b0;
  g_held = 0; g_locks = 0; g_unlocks = 0;
  db->manual_compaction = nondet_int() ? &g_manual_obj : NULL;
  __CPROVER_assume(db->background_compaction_scheduled == 1);   /* the pool runs us because we were scheduled */
  __CPROVER_assume(g_needs_compaction == 0 || g_needs_compaction == 1);
  shut = *(int *)&db->shutting_down != 0; err0 = db->bg_error; imm0 = db->imm; man0 = db->manual_compaction;
  b0 = g_broadcasts;

  ldb_background_call(db);

  CHECK(!g_held && g_locks == g_unlocks, "background call: the mutex it takes is released again");
  /* E3 "compaction work runs only without a latched error and not during shutdown" is the PRECONDITION of c_background_compaction, checked at the call */
  CHECK(!(!shut && err0 == LDB_OK && imm0 == NULL && man0 != NULL) || db->manual_compaction == NULL, "without a latched error and outside shutdown the work does run (witness: a pending manual request is consumed)");
  CHECK(!(shut || err0 != LDB_OK) || (db->manual_compaction == man0 && db->imm == imm0), "after a latched error / during shutdown nothing is compacted");
  CHECK(g_broadcasts >= b0 + 1, "W2: the background call always ends with a broadcast (waiters re-check imm / bg_error / level-0 count)");
  sched = db->background_compaction_scheduled;
  CHECK(sched == 0 || sched == 1, "scheduled flag is boolean");
  /* I_db(c) at the moment the mutex is released */
  CHECK(!((db->imm != NULL || db->manual_compaction != NULL || g_needs_compaction) && db->bg_error == LDB_OK && !shut) || (sched == 1 && g_sched_calls == 1),
        "W3: if work remains (imm, manual compaction, or a level needs compaction) the call reschedules itself before releasing the mutex");
  CHECK(!(sched == 1) || g_sched_calls == 1, "scheduled flag set only together with a pool submission");
  CHECK(!(shut || db->bg_error != LDB_OK) || sched == 0, "nothing is scheduled during shutdown or after a latched error");
  CANARY();
}
