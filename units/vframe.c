/* units/vframe.c - enforced FRAME contracts on the helpers of ldb_versions_apply / ldb_versions_recover (src/version_set.c)
 * Properties: C17, C02, C05, C12 (what ver.apply / ver.recover assume about their nine callees).
 *
 * The real version_set.c is included unmodified; util/vector.c and util/internal.c are linked for real.  Models of other
 * translation units are FRAME models: they write (havoc) exactly the object they are handed, so dfcc checks that the function
 * under contract hands them only objects of its own frame:
 *   util/rbt.c        every mutator havocs the rb_tree_t it is given (root, size); iteration is a bounded cursor
 *   version_edit.c    ldb_filemeta_ref / unref change refs of the file; ldb_filemeta_clone allocates
 *   util/buffer.c     ldb_buffer_copy rewrites the three fields of the destination buffer
 * Every environment call (file system, MANIFEST writer) bumps vf_env_calls.
 */
#include "verif.h"
#include "version_set.c"
#include "vframe.h"

ldb_versions_t nondet_versions(void);
ldb_version_t nondet_version(void);
ldb_filemeta_t nondet_filemeta(void);
void *nondet_ptr(void);

unsigned vf_env_calls;
ldb_versions_t *vf_vs;
unsigned vf_clones, vf_records; ldb_writer_t *vf_record_log; int vf_record_rc;

/* ------------------------------------------------------------------ world */
static ldb_versions_t g_vset;
static ldb_dbopt_t g_opt;
static ldb_comparator_t g_ucmp;
static ldb_version_t g_v;                        /* the version handed to the function */
static ldb_filemeta_t g_fm[LDB_NUM_LEVELS][VF_MAXF];
static void *g_fi[LDB_NUM_LEVELS][VF_MAXF];

static void mk_vset(void) {
  g_vset = nondet_versions();
  g_vset.options = &g_opt; g_vset.icmp.user_comparator = &g_ucmp;
  vf_env_calls = 0;
}
/* files[l] of *v: n <= VF_MAXF files of its own (static backing store, alloc == 0: nothing to free) */
static void mk_files(ldb_version_t *v, ldb_filemeta_t (*fm)[VF_MAXF], void *(*fi)[VF_MAXF], int l) {
  size_t n = nondet_size();
  ASSUME(n <= VF_MAXF);
  fm[l][0] = nondet_filemeta(); fm[l][1] = nondet_filemeta();
  fi[l][0] = &fm[l][0]; fi[l][1] = &fm[l][1];
  v->files[l].items = fi[l]; v->files[l].length = n; v->files[l].alloc = 0;
}

/* ------------------------------------------------------------------ frame model of util/rbt.c */
void ldb_rb_tree_init(rb_tree_t *tree, rb_cmp_f *compare, void *arg) { tree->root = NULL; tree->compare = compare; tree->arg = arg; tree->size = 0; }
/* clear: the destructor (if any) runs once per element, then the tree is empty */
void ldb_rb_tree_clear(rb_tree_t *tree, rb_clear_f *clear) {
  struct vf_set *s = VF_SETOF(tree);
  __CPROVER_assert(clear == NULL || clear == file_set_destruct, "set model: the only destructor in version_set.c");
  if (clear != NULL) {
    if (s->n > 0) file_set_destruct(&s->node[0]);
    if (s->n > 1) file_set_destruct(&s->node[1]);
  }
  tree->root = NULL; tree->size = 0;
}
/* mutators: the tree handed in is rewritten (new root after rebalancing, new size); nodes are private to rbt.c */
int ldb_rb_set_put(rb_tree_t *tree, const void *item) { tree->root = nondet_ptr(); tree->size = nondet_size(); return nondet_int() ? 1 : 0; }
int ldb_rb_set64_put(rb_tree_t *tree, uint64_t item) { tree->root = nondet_ptr(); tree->size = nondet_size(); return nondet_int() ? 1 : 0; }
int ldb_rb_set64_del(rb_tree_t *tree, uint64_t item) { tree->root = nondet_ptr(); tree->size = nondet_size(); return nondet_int() ? 1 : 0; }
int ldb_rb_set64_has(const rb_tree_t *tree, uint64_t item) { return nondet_int() ? 1 : 0; }
/* iteration: ascending over the <= VF_SETCAP elements; the cursor always points at a constant slot (slot VF_SETCAP = end) */
void ldb_rb_iter_start(rb_iter_t *iter, const rb_tree_t *tree) { iter->tree = tree; iter->root = tree->root; iter->node = &VF_SETOF(tree)->node[0]; }
int ldb_rb_iter_valid(const rb_iter_t *iter) {
  const struct vf_set *s = (const struct vf_set *)iter->root; size_t i = (size_t)(iter->node - s->node);
  return i < s->n && i < VF_SETCAP;
}
void ldb_rb_iter_next(rb_iter_t *iter) {
  const struct vf_set *s = (const struct vf_set *)iter->root; size_t i = (size_t)(iter->node - s->node);
  if (i < VF_SETCAP) iter->node = iter->node + 1;
}
/* ------------------------------------------------------------------ frame model of version_edit.c */
void ldb_filemeta_ref(ldb_filemeta_t *z) { z->refs++; }
/* destruction at zero (ldb_filemeta_destroy frees the file object and its key buffers) is not modelled */
void ldb_filemeta_unref(ldb_filemeta_t *z) { z->refs--; }

/* a clone is a new object (number, size and keys copied; refs / allowed_seeks are the caller's business) */
ldb_filemeta_t *ldb_filemeta_clone(const ldb_filemeta_t *meta) {
  ldb_filemeta_t *f = malloc(sizeof(*f));
  __CPROVER_assume(f != NULL);
  f->number = meta->number; f->file_size = meta->file_size; f->smallest = meta->smallest; f->largest = meta->largest;
  vf_clones++;
  return f;
}
/* the snapshot edit lives in a local of write_snapshot: these models touch only the edit / buffer they are handed */
void ldb_edit_init(ldb_edit_t *e) { e->has_comparator = 0; e->has_log_number = 0; e->has_prev_log_number = 0; e->has_next_file_number = 0; e->has_last_sequence = 0; }
void ldb_edit_clear(ldb_edit_t *e) { e->has_comparator = 0; }
void ldb_edit_set_comparator_name(ldb_edit_t *e, const char *name) { e->has_comparator = 1; }
void ldb_edit_set_compact_pointer(ldb_edit_t *e, int level, const ldb_ikey_t *key) { e->compact_pointers.length++; }
void ldb_edit_add_file(ldb_edit_t *e, int level, uint64_t number, uint64_t file_size, const ldb_ikey_t *smallest, const ldb_ikey_t *largest) { e->new_files.length++; }
void ldb_edit_export(ldb_buffer_t *dst, const ldb_edit_t *e) { dst->size = nondet_size(); }
/* ------------------------------------------------------------------ frame model of util/buffer.c */
void ldb_buffer_init(ldb_buffer_t *z) { z->data = NULL; z->size = 0; z->alloc = 0; }
void ldb_buffer_clear(ldb_buffer_t *z) { z->data = NULL; z->size = 0; z->alloc = 0; }
/* copy: the destination is rewritten (its storage may be reallocated); storage is private to the buffer */
void ldb_buffer_copy(ldb_buffer_t *z, const ldb_buffer_t *x) { z->data = nondet_ptr(); z->size = x->size; z->alloc = nondet_size(); }
/* ------------------------------------------------------------------ environment: the MANIFEST writer */
int ldb_writer_add_record(ldb_writer_t *lw, const ldb_slice_t *slice) {
  vf_env_calls++; vf_records++; vf_record_log = lw; vf_record_rc = nondet_int();
  return vf_record_rc;
}
/* the internal key comparator: an arbitrary answer, no side effect */
int vf_compare(const ldb_comparator_t *c, const ldb_slice_t *x, const ldb_slice_t *y) { return nondet_int(); }

/* ------------------------------------------------------------------ builder world */
static builder_t g_b;
static ldb_version_t g_base, g_cur;
static struct vf_set g_added[LDB_NUM_LEVELS], g_deleted[LDB_NUM_LEVELS];
static ldb_filemeta_t g_af[2][VF_SETCAP];            /* files of the added sets of levels 0 and 1 */
/* a builder as builder_init + builder_apply leave it: added files at levels 0 and 1 only (<= VF_SETCAP each) */
static void mk_builder(void) {
  int l;
  g_b.vset = &g_vset; g_b.base = &g_base;
  for (l = 0; l < LDB_NUM_LEVELS; l++) {
    size_t na = nondet_size(), nd = nondet_size();
    ASSUME(na <= (l < 2 ? VF_SETCAP : 0) && nd <= VF_SETCAP);
    g_added[l].n = na; g_deleted[l].n = nd;
    g_b.levels[l].added_files.root = (rb_node_t *)&g_added[l]; g_b.levels[l].added_files.size = na;
    g_b.levels[l].added_files.compare = file_set_compare; g_b.levels[l].added_files.arg = &g_vset.icmp;
    g_b.levels[l].deleted_files.root = (rb_node_t *)&g_deleted[l]; g_b.levels[l].deleted_files.size = nd;
    g_b.levels[l].deleted_files.compare = rb_set64_compare; g_b.levels[l].deleted_files.arg = NULL;
  }
  g_af[0][0] = nondet_filemeta(); g_af[0][1] = nondet_filemeta(); g_af[1][0] = nondet_filemeta(); g_af[1][1] = nondet_filemeta();
  /* unused slots hold a valid element too (never looked at by a correct caller) */
  g_added[0].node[0].key.ptr = &g_af[0][0]; g_added[0].node[1].key.ptr = &g_af[0][1]; g_added[0].node[2].key.ptr = &g_af[0][1];
  g_added[1].node[0].key.ptr = &g_af[1][0]; g_added[1].node[1].key.ptr = &g_af[1][1]; g_added[1].node[2].key.ptr = &g_af[1][1];
  for (l = 2; l < LDB_NUM_LEVELS; l++) { g_added[l].node[0].key.ptr = &g_af[0][0]; g_added[l].node[1].key.ptr = &g_af[0][0]; g_added[l].node[2].key.ptr = &g_af[0][0]; }
}

/* ====================================================================== vframe.builder_init */
void h_builder_init(void) {
  vf_snap_t s; ldb_version_t *base;
  mk_vset();
  g_b.vset = NULL;                                 /* content of the builder before init: arbitrary (dfcc: nondeterministic statics) */
  g_base = nondet_version(); g_cur = nondet_version();
  /* the base is the current version at both call sites; the contract does not depend on it */
  base = nondet_int() ? &g_base : &g_cur; g_vset.current = &g_cur;
  ASSUME(base->refs >= 0 && base->refs < 2147483647);
  VF_TAKE(s, &g_vset);
  builder_init(&g_b, &g_vset, base);
  CHECK(VF_KEPT(s, &g_vset) && g_vset.current == s.current, "builder_init: descriptor log/file, the five counters and the current version untouched; no environment call");
  CANARY();
}

/* ====================================================================== vframe.builder_clear */
void h_builder_clear(void) {
  vf_snap_t s;
  mk_vset(); vf_vs = &g_vset;
  g_base = nondet_version(); g_base.vset = &g_vset;
  g_vset.current = nondet_int() ? &g_base : &g_cur;
  mk_builder();
  ASSUME(g_base.refs >= 2);
  ASSUME(g_af[0][0].refs >= 1 && g_af[0][1].refs >= 1 && g_af[1][0].refs >= 1 && g_af[1][1].refs >= 1);   /* a set holds a reference on each of its files */
  VF_TAKE(s, &g_vset);
  builder_clear(&g_b);
  CHECK(VF_KEPT(s, &g_vset) && g_vset.current == s.current, "builder_clear: descriptor log/file, the five counters and the current version untouched; no environment call");
  CANARY();
}

/* ====================================================================== vframe.version_create */
void h_version_create(void) {
  vf_snap_t s; ldb_version_t *v;
  mk_vset();
  VF_TAKE(s, &g_vset);
  v = ldb_version_create(&g_vset);
  CHECK(VF_KEPT(s, &g_vset) && g_vset.current == s.current, "version_create: descriptor log/file, the five counters and the current version untouched; no environment call");
  CHECK(v != NULL && v != &g_vset.dummy_versions && v->refs == 0 && v->next == v && v->prev == v, "version_create: a new, unlinked, unreferenced object");
  CANARY();
}

/* ====================================================================== vframe.version_destroy */
static ldb_version_t g_n1, g_n2;                  /* list neighbours */
static ldb_filemeta_t g_hf[2][VF_MAXF];           /* the files a heap version lists at levels 0 and 1 */
/* a version on the heap (it may be freed) that lists <= VF_MAXF files at each of the levels 0 and 1, in heap arrays */
static ldb_version_t *mk_heap_version(void) {
  ldb_version_t *v = malloc(sizeof(*v));
  void **i0 = malloc(VF_MAXF * sizeof(void *)), **i1 = malloc(VF_MAXF * sizeof(void *));
  size_t n0 = nondet_size(), n1 = nondet_size();
  int l;
  ASSUME(v != NULL && i0 != NULL && i1 != NULL && n0 <= VF_MAXF && n1 <= VF_MAXF);
  v->vset = &g_vset;
  g_hf[0][0] = nondet_filemeta(); g_hf[0][1] = nondet_filemeta(); g_hf[1][0] = nondet_filemeta(); g_hf[1][1] = nondet_filemeta();
  ASSUME(g_hf[0][0].refs >= 1 && g_hf[0][1].refs >= 1 && g_hf[1][0].refs >= 1 && g_hf[1][1].refs >= 1);   /* a listing holds a reference */
  i0[0] = &g_hf[0][0]; i0[1] = &g_hf[0][1]; i1[0] = &g_hf[1][0]; i1[1] = &g_hf[1][1];
  v->files[0].items = i0; v->files[0].length = n0; v->files[0].alloc = VF_MAXF;
  v->files[1].items = i1; v->files[1].length = n1; v->files[1].alloc = VF_MAXF;
  for (l = 2; l < LDB_NUM_LEVELS; l++) { v->files[l].items = NULL; v->files[l].length = 0; v->files[l].alloc = 0; }
  return v;
}
void h_version_destroy(void) {
  vf_snap_t s; ldb_version_t *v; int shape = nondet_int();
  mk_vset(); vf_vs = &g_vset;
  g_n1 = nondet_version(); g_n2 = nondet_version();
  v = mk_heap_version();
  /* never installed (ldb_versions_apply failure path): linked to itself; or a list member between two versions,
     between a version and the list head, or the only member */
  if (shape == 0) { v->prev = v; v->next = v; }
  else if (shape == 1) { v->prev = &g_n1; v->next = &g_n2; g_n1.next = v; g_n2.prev = v; }
  else if (shape == 2) { v->prev = &g_n1; v->next = &g_vset.dummy_versions; g_n1.next = v; g_vset.dummy_versions.prev = v; }
  else { v->prev = &g_vset.dummy_versions; v->next = &g_vset.dummy_versions; g_vset.dummy_versions.next = v; g_vset.dummy_versions.prev = v; }
  VF_TAKE(s, &g_vset);
  ldb_version_destroy(v);
  CHECK(VF_KEPT(s, &g_vset) && g_vset.current == s.current, "version_destroy: descriptor log/file, the five counters and the current pointer untouched; no environment call");
  CANARY();
}

/* ====================================================================== vframe.append_version */
void h_append_version(void) {
  vf_snap_t s; ldb_version_t *old; int shape = nondet_int();
  mk_vset(); vf_vs = &g_vset;
  g_n1 = nondet_version();
  g_v = nondet_version(); g_v.vset = &g_vset; g_v.refs = 0; g_v.prev = &g_v; g_v.next = &g_v;    /* as ldb_version_create leaves it */
  if (shape == 0) {            /* no version yet */
    g_vset.current = NULL; g_vset.dummy_versions.prev = &g_vset.dummy_versions; g_vset.dummy_versions.next = &g_vset.dummy_versions;
  } else {
    old = mk_heap_version();
    ASSUME(old->refs >= 1);
    g_vset.current = old; old->next = &g_vset.dummy_versions; g_vset.dummy_versions.prev = old;
    if (shape == 1) { old->prev = &g_vset.dummy_versions; g_vset.dummy_versions.next = old; }                 /* the only member */
    else { old->prev = &g_n1; g_n1.next = old; g_n1.prev = &g_vset.dummy_versions; g_vset.dummy_versions.next = &g_n1; }   /* an older version before it */
  }
  VF_TAKE(s, &g_vset);
  ldb_versions_append_version(&g_vset, &g_v);
  CHECK(VF_KEPT(s, &g_vset), "append_version: descriptor log/file and the five counters untouched; no environment call");
  CHECK(g_vset.current == &g_v, "append_version: the new version is current");
  CANARY();
}

/* ====================================================================== vframe.builder_save_to */
static ldb_filemeta_t g_bf[2][VF_MAXF]; static void *g_bi[2][VF_MAXF];     /* base files of levels 0 and 1 */
/* a version somebody else owns: <= VF_MAXF files at each of the levels 0 and 1 */
static void mk_base(ldb_version_t *v) {
  int l; size_t n0 = nondet_size(), n1 = nondet_size();
  *v = nondet_version(); v->vset = &g_vset;
  ASSUME(n0 <= VF_MAXF && n1 <= VF_MAXF);
  g_bf[0][0] = nondet_filemeta(); g_bf[0][1] = nondet_filemeta(); g_bf[1][0] = nondet_filemeta(); g_bf[1][1] = nondet_filemeta();
  ASSUME(g_bf[0][0].refs >= 1 && g_bf[0][0].refs < 1000000 && g_bf[0][1].refs >= 1 && g_bf[0][1].refs < 1000000);
  ASSUME(g_bf[1][0].refs >= 1 && g_bf[1][0].refs < 1000000 && g_bf[1][1].refs >= 1 && g_bf[1][1].refs < 1000000);
  g_bi[0][0] = &g_bf[0][0]; g_bi[0][1] = &g_bf[0][1]; g_bi[1][0] = &g_bf[1][0]; g_bi[1][1] = &g_bf[1][1];
  v->files[0].items = g_bi[0]; v->files[0].length = n0; v->files[0].alloc = VF_MAXF;
  v->files[1].items = g_bi[1]; v->files[1].length = n1; v->files[1].alloc = VF_MAXF;
  for (l = 2; l < LDB_NUM_LEVELS; l++) { v->files[l].items = NULL; v->files[l].length = 0; v->files[l].alloc = 0; }
}
void h_builder_save_to(void) {
  vf_snap_t s; int l;
  mk_vset(); vf_vs = &g_vset; g_vset.icmp.compare = vf_compare;
  mk_base(&g_base);
  g_vset.current = nondet_int() ? &g_base : &g_cur;
  mk_builder();
  ASSUME(g_af[0][0].refs >= 1 && g_af[0][1].refs >= 1 && g_af[1][0].refs >= 1 && g_af[1][1].refs >= 1);
  ASSUME(g_af[0][0].refs < 1000000 && g_af[0][1].refs < 1000000 && g_af[1][0].refs < 1000000 && g_af[1][1].refs < 1000000);
  g_v = nondet_version(); g_v.vset = &g_vset;
  for (l = 0; l < LDB_NUM_LEVELS; l++) { g_v.files[l].items = NULL; g_v.files[l].length = 0; g_v.files[l].alloc = 0; }   /* as ldb_version_create leaves it */
  VF_TAKE(s, &g_vset);
  builder_save_to(&g_b, &g_v);
  CHECK(VF_KEPT(s, &g_vset) && g_vset.current == s.current, "builder_save_to: descriptor log/file, the five counters and the current pointer untouched; no environment call");
  CANARY();
}

/* ====================================================================== vframe.builder_apply */
static ldb_edit_t g_edit;
static ikey_entry_t g_cpe; static void *g_cpi[1];
static meta_entry_t g_nfe[2]; static void *g_nfi[2];
static file_entry_t g_dfe[2]; static struct vf_set g_dels;
ikey_entry_t nondet_ikey_entry(void); meta_entry_t nondet_meta_entry(void); file_entry_t nondet_file_entry(void); ldb_edit_t nondet_edit(void);
static void mk_edit(void) {
  size_t ncp = nondet_size(), nnf = nondet_size(), nd = nondet_size();
  ASSUME(ncp <= 1 && nnf <= 2 && nd <= VF_SETCAP);
  g_edit = nondet_edit();
  g_cpe = nondet_ikey_entry(); g_nfe[0] = nondet_meta_entry(); g_nfe[1] = nondet_meta_entry(); g_dfe[0] = nondet_file_entry(); g_dfe[1] = nondet_file_entry();
  /* ldb_edit_import rejects levels >= NUM_LEVELS (edit.import) */
  ASSUME(VF_LEVEL_OK(g_cpe.level) && VF_LEVEL_OK(g_nfe[0].level) && VF_LEVEL_OK(g_nfe[1].level) && VF_LEVEL_OK(g_dfe[0].level) && VF_LEVEL_OK(g_dfe[1].level));
  g_cpi[0] = &g_cpe; g_edit.compact_pointers.items = g_cpi; g_edit.compact_pointers.length = ncp; g_edit.compact_pointers.alloc = 1;
  g_nfi[0] = &g_nfe[0]; g_nfi[1] = &g_nfe[1]; g_edit.new_files.items = g_nfi; g_edit.new_files.length = nnf; g_edit.new_files.alloc = 2;
  g_dels.n = nd; g_dels.node[0].key.ptr = &g_dfe[0]; g_dels.node[1].key.ptr = &g_dfe[1]; g_dels.node[2].key.ptr = &g_dfe[1];
  g_edit.deleted_files.root = (rb_node_t *)&g_dels; g_edit.deleted_files.size = nd;
}
void h_builder_apply(void) {
  vf_snap_t s;
  mk_vset(); vf_vs = &g_vset; vf_clones = 0;
  g_base = nondet_version(); g_vset.current = nondet_int() ? &g_base : &g_cur;
  mk_builder();
  mk_edit();
  VF_TAKE(s, &g_vset);
  builder_apply(&g_b, &g_edit);
  CHECK(VF_KEPT(s, &g_vset) && g_vset.current == s.current, "builder_apply: descriptor log/file, the five counters and the current pointer untouched; no environment call");
  CANARY();
}

/* ====================================================================== vframe.write_snapshot */
static ldb_writer_t g_log;
void h_write_snapshot(void) {
  vf_snap_t s; int rc;
  mk_vset(); vf_records = 0; vf_record_log = NULL; vf_record_rc = 0;
  mk_base(&g_cur); g_vset.current = &g_cur;
  VF_TAKE(s, &g_vset);
  rc = ldb_versions_write_snapshot(&g_vset, &g_log);
  s.env += 1;                                     /* the one append */
  CHECK(VF_KEPT(s, &g_vset) && g_vset.current == s.current && vf_records == 1 && vf_record_log == &g_log && rc == vf_record_rc,
        "write_snapshot: exactly one record, appended to the log handed in, its status returned; descriptor log/file, the five counters and the current pointer untouched");
  CANARY();
}

/* ====================================================================== vframe.finalize */
void h_finalize(void) {
  vf_snap_t s; int l;
  mk_vset();
  g_v = nondet_version(); g_v.vset = &g_vset;
  for (l = 1; l < LDB_NUM_LEVELS - 1; l++) mk_files(&g_v, g_fm, g_fi, l);
  /* level 0: any count (only the length is read); level 6: anything (never read) */
  VF_TAKE(s, &g_vset);
  ldb_versions_finalize(&g_vset, &g_v);
  CHECK(VF_KEPT(s, &g_vset) && g_vset.current == s.current, "finalize: descriptor log/file, log/prev-log/next-file/manifest numbers, last sequence and current version untouched; no environment call");
  CANARY();
}
