/* units/lru.c - proof units for src/util/cache.c (sharded LRU cache: block cache and table cache)
 *
 *   lru.equal .. lru.tbl_resize   hash table level (lru_handle_equal, lru_table_*)
 *   lru.lookup .. lru.prune       shard level (lists, refs, usage, eviction)
 *   lru.shard_index .. lru.top    sharding and dispatch
 *
 * The real cache.c is included unmodified.  Models: ldb_malloc (malloc, never
 * NULL), ldb_free (free + ghost record), ldb_mutex_* (ghost "held" pointer),
 * ldb_hash (uninterpreted: one arbitrary value per distinct key of the
 * harness), the entry deleter (ghost recorder).
 *
 * A cache state is built by the harness from N <= LRU_N handles with symbolic
 * hash, key length, key bytes, charge, refs; the bound is stated per unit.
 */
#include "verif.h"

#include <stdint.h>
#include <stdlib.h>
#include <string.h>

#include "util/cache.h"
#include "util/hash.h"
#include "util/internal.h"
#include "util/port.h"
#include "util/slice.h"

#ifndef LRU_N
#define LRU_N 3            /* handles in the pre-state */
#endif
#ifndef LRU_K
#define LRU_K 3            /* longest key, bytes */
#endif
#define LRU_M (LRU_N + 2)  /* handles the harness tracks: pre-state + one detached + one inserted */

/* ------------------------------------------------------------------ ghost */
struct lru_ghost {
  ldb_mutex_t *held;               /* mutex currently held (NULL: none)                */
  ldb_mutex_t *last;               /* mutex of the last lock()                         */
  int locks, unlocks, lock_err;
  int guard;                       /* 1: malloc/free/deleter/memcmp must run under a mutex */
  int guard_err;
  int mallocs; void *last_malloc; size_t last_malloc_n;
  int frees; void *freed[LRU_M + 2];
  int dels; void *del_value[LRU_M + 2]; size_t del_klen[LRU_M + 2]; uint8_t del_key[LRU_M + 2][LRU_K + 1];
  int del_after_free;              /* deleter ran on an already freed handle's key     */
  int hashes; const uint8_t *hash_data; size_t hash_size; uint32_t hash_seed;
} X;

static void ghost_reset(void) {
  int i;
  X.held = NULL; X.last = NULL; X.locks = 0; X.unlocks = 0; X.lock_err = 0; X.guard = 0; X.guard_err = 0;
  X.mallocs = 0; X.last_malloc = NULL; X.last_malloc_n = 0; X.frees = 0; X.dels = 0; X.del_after_free = 0;
  X.hashes = 0; X.hash_data = NULL; X.hash_size = 0; X.hash_seed = 0;
  for (i = 0; i < LRU_M + 2; i++) { X.freed[i] = NULL; X.del_value[i] = NULL; X.del_klen[i] = 0; }
}

static int was_freed(const void *p) {
  int i, r = 0;
  for (i = 0; i < LRU_M + 2; i++) if (i < X.frees && X.freed[i] == p) r++;
  return r;
}

/* --------------------------------------------------------------- models */
void ldb_mutex_init(ldb_mutex_t *m) { (void)m; }
void ldb_mutex_destroy(ldb_mutex_t *m) { (void)m; }
void ldb_mutex_lock(ldb_mutex_t *m) { if (X.held != NULL) X.lock_err = 1; X.held = m; X.last = m; X.locks++; }
void ldb_mutex_unlock(ldb_mutex_t *m) { if (X.held != m) X.lock_err = 1; X.held = NULL; X.unlocks++; }

void *ldb_malloc(size_t n) {
  void *p = malloc(n);
  __CPROVER_assume(p != NULL);
  if (X.guard && X.held == NULL) X.guard_err = 1;
  X.mallocs++; X.last_malloc = p; X.last_malloc_n = n;
  return p;
}
void ldb_free(void *p) {
  if (X.guard && X.held == NULL) X.guard_err = 1;
  if (p != NULL) {
    __CPROVER_assert(X.frees < LRU_M + 2, "ldb_free: more frees than objects the harness handed out");
    __CPROVER_assume(X.frees < LRU_M + 2);
    X.freed[X.frees++] = p;
    free(p);
  }
}

static void model_deleter(const ldb_slice_t *key, void *value) {
  size_t j;
  if (X.guard && X.held == NULL) X.guard_err = 1;
  __CPROVER_assert(X.dels < LRU_M + 2, "deleter: more calls than entries");
  __CPROVER_assume(X.dels < LRU_M + 2);
  X.del_value[X.dels] = value; X.del_klen[X.dels] = key->size;
  for (j = 0; j < LRU_K; j++) if (j < key->size) X.del_key[X.dels][j] = key->data[j];   /* reads the key: use after free is flagged */
  X.dels++;
}

/* uninterpreted hash: the harness registers up to two keys; equal content => equal value */
struct lru_hk { int used; size_t n; uint8_t b[LRU_K + 1]; uint32_t v; } HK[2];
static int bytes_eq(const uint8_t *a, const uint8_t *b, size_t n) {
  size_t j; int r = 1;
  for (j = 0; j < LRU_K + 1; j++) if (j < n && a[j] != b[j]) r = 0;
  return r;
}
uint32_t ldb_hash(const uint8_t *data, size_t size, uint32_t seed) {
  int i;
  X.hashes++; X.hash_data = data; X.hash_size = size; X.hash_seed = seed;
  for (i = 0; i < 2; i++)
    if (HK[i].used && HK[i].n == size && bytes_eq(HK[i].b, data, size)) return HK[i].v;
  return nondet_u32();
}

#include "util/cache.c"

/* ---------------------------------------------------------- state builder */
struct lru_snap { uint32_t refs, hash; int in_cache; size_t charge, klen; void *value; uint8_t key[LRU_K + 1]; int lru_pos; };
static lru_handle_t *G[LRU_M];        /* every handle the harness knows                     */
static struct lru_snap S[LRU_M];      /* their pre-state                                    */
static int g_n;                       /* number of handles in the table in the pre-state    */
static int g_val[LRU_M + 2];          /* distinct value cookies                             */

static lru_handle_t *mk_handle(size_t kmax) {
  size_t kl = nondet_size(), j;
  lru_handle_t *h;
  __CPROVER_assume(kl <= kmax);
  h = malloc(sizeof(lru_handle_t) - 1 + kl);      /* exactly what lru_shard_insert allocates */
  __CPROVER_assume(h != NULL);
  h->key_length = kl; h->hash = nondet_u32(); h->charge = nondet_size();
  h->next_hash = NULL; h->next = NULL; h->prev = NULL; h->in_cache = 0; h->refs = 0; h->value = NULL; h->deleter = model_deleter;
  for (j = 0; j < kmax; j++) if (j < kl) h->key_data[j] = nondet_u8();
  return h;
}

static void snap(int i) {
  size_t j;
  lru_handle_t *h = G[i];
  S[i].refs = h->refs; S[i].hash = h->hash; S[i].in_cache = h->in_cache; S[i].charge = h->charge; S[i].klen = h->key_length; S[i].value = h->value;
  for (j = 0; j < LRU_K + 1; j++) S[i].key[j] = j < h->key_length ? h->key_data[j] : 0;
}

static void mk_table(lru_table_t *t, uint32_t len) {
  uint32_t b;
  t->length = len; t->elems = 0;
  t->list = malloc(len * sizeof(lru_handle_t *));
  __CPROVER_assume(t->list != NULL);
  for (b = 0; b < 8; b++) if (b < len) t->list[b] = NULL;
}
static void tbl_link(lru_table_t *t, lru_handle_t *h) {        /* at the head of its bucket */
  lru_handle_t **slot = &t->list[h->hash & (t->length - 1)];
  h->next_hash = *slot; *slot = h; t->elems++;
}

/* spec side: key equality written out, independent of memcmp */
static int key_is(const lru_handle_t *h, uint32_t hash, const uint8_t *kd, size_t kn) {
  return h->hash == hash && h->key_length == kn && bytes_eq(h->key_data, kd, kn);
}
static int same_key(const lru_handle_t *a, const lru_handle_t *b) {
  return key_is(a, b->hash, b->key_data, b->key_length);
}

/* walkers (bounded: LRU_M + 1 steps per chain, 8 buckets) */
static int tbl_count(const lru_table_t *t, const lru_handle_t *p, uint32_t *bucket) {   /* -1: malformed chain */
  uint32_t b; int cnt = 0, s;
  for (b = 0; b < 8; b++) if (b < t->length) {
    const lru_handle_t *q = t->list[b];
    for (s = 0; s < LRU_M + 1 && q != NULL; s++) { if (q == p) { cnt++; *bucket = b; } q = q->next_hash; }
    if (q != NULL) return -1;
  }
  return cnt;
}
static int tbl_total(const lru_table_t *t) {
  uint32_t b; int cnt = 0, s;
  for (b = 0; b < 8; b++) if (b < t->length) {
    const lru_handle_t *q = t->list[b];
    for (s = 0; s < LRU_M + 1 && q != NULL; s++) { cnt++; q = q->next_hash; }
    if (q != NULL) return -1;
  }
  return cnt;
}
static int idx_of(const lru_handle_t *p) {
  int i, r = -1;
  for (i = 0; i < LRU_M; i++) if (G[i] != NULL && G[i] == p) r = i;
  return r;
}
static int is_pow2(uint32_t x) { return x != 0 && (x & (x - 1)) == 0; }

/* build a table of g_n <= nmax handles, each in the bucket of its hash; chain order = reverse index order
 * (handles are symbolic, so every order of contents is covered) */
static void build_table(lru_table_t *t, uint32_t len, int n, size_t kmax, int distinct) {
  int i, j;
  ghost_reset();
  for (i = 0; i < LRU_M; i++) G[i] = NULL;
  mk_table(t, len);
  g_n = n;
  for (i = 0; i < LRU_N; i++) if (i < n) {
    G[i] = mk_handle(kmax);
    G[i]->in_cache = 1; G[i]->refs = 1; G[i]->value = &g_val[i];
    if (distinct) for (j = 0; j < LRU_N; j++) if (j < i) __CPROVER_assume(!same_key(G[i], G[j]));
    tbl_link(t, G[i]);
    snap(i);
  }
}

static uint8_t *mk_key(size_t n, size_t kmax) {
  uint8_t *kd = malloc(n); size_t j;
  __CPROVER_assume(kd != NULL);
  for (j = 0; j < kmax; j++) if (j < n) kd[j] = nondet_u8();
  return kd;
}

/* =============================================================== lru.equal */
#define EQB(x, y, j) ((y)->size <= (j) || (x)->key_data[j] == (y)->data[j])
int c_handle_equal(const lru_handle_t *x, const ldb_slice_t *y)
__CPROVER_requires(__CPROVER_r_ok(x, sizeof(lru_handle_t) - 1) && x->key_length <= 4 && __CPROVER_r_ok(x, sizeof(lru_handle_t) - 1 + x->key_length))
__CPROVER_requires(__CPROVER_r_ok(y, sizeof(*y)) && y->size <= 4 && __CPROVER_r_ok(y->data, y->size))
__CPROVER_assigns()
__CPROVER_ensures((__CPROVER_return_value != 0) == (x->key_length == y->size && EQB(x, y, 0) && EQB(x, y, 1) && EQB(x, y, 2) && EQB(x, y, 3)))
;

void h_equal(void) {
  lru_handle_t *x = mk_handle(4);
  IN_SIZE(in_klen);
  ldb_slice_t y; uint8_t *kd;
  ASSUME(in_klen <= 4);
  kd = mk_key(in_klen, 4);
  y.data = kd; y.size = in_klen; y.alloc = 0;
  (void)lru_handle_equal(x, &y);
  CANARY();
}

/* ================================================================ lru.find */
void h_find(void) {
  lru_table_t t; ldb_slice_t key; uint8_t *kd; lru_handle_t **ptr, *res; int i, slot_ok, ri;
  IN_U32(in_len); IN_INT(in_n); IN_SIZE(in_klen); IN_U32(in_hash); IN_INT(in_k);
  ASSUME(in_len == 4 || in_len == 8);
  ASSUME(in_n >= 0 && in_n <= LRU_N);
  ASSUME(in_klen <= 4);
  build_table(&t, in_len, in_n, 4, 0);            /* duplicates allowed: find returns the first */
  kd = mk_key(in_klen, 4);
  key.data = kd; key.size = in_klen; key.alloc = 0;

  ptr = lru_table_find(&t, &key, in_hash);

  /* the slot is the head of the key's bucket or the next_hash field of a handle chained in that bucket */
  slot_ok = (ptr == &t.list[in_hash & (in_len - 1)]);
  for (i = 0; i < LRU_N; i++)
    if (i < in_n && ptr == &G[i]->next_hash && (G[i]->hash & (in_len - 1)) == (in_hash & (in_len - 1))) slot_ok = 1;
  CHECK(slot_ok, "lru_table_find: returns a slot of the chain of bucket hash & (length-1)");
  res = *ptr;
  ri = idx_of(res);
  CHECK(res == NULL || (ri >= 0 && ri < in_n), "lru_table_find: the slot holds NULL (trailing slot) or a handle of the table");
  CHECK(res == NULL || res->hash == in_hash, "lru_table_find: a returned handle has exactly the hash asked for");
  CHECK(res == NULL || res->key_length == in_klen, "lru_table_find: a returned handle's key has exactly the length asked for");
  CHECK(res == NULL || bytes_eq(res->key_data, kd, in_klen), "lru_table_find: a returned handle's key bytes equal the key asked for");
  /* ghost index: any handle k that matches => result non-NULL and not after k in the chain (chain order = descending index) */
  ASSUME(in_k >= 0 && in_k < in_n);
  CHECK(!key_is(G[in_k], in_hash, kd, in_klen) || res != NULL, "lru_table_find: NULL only if no handle in the table has this hash and key");
  CHECK(!key_is(G[in_k], in_hash, kd, in_klen) || ri >= in_k, "lru_table_find: returns the FIRST matching handle of the chain");
  CHECK(t.elems == (uint32_t)in_n && t.length == in_len && tbl_total(&t) == in_n, "lru_table_find: does not modify the table");
  CANARY();
}
