/* units/lru.c - proof units for src/util/cache.c (sharded LRU cache: block cache and table cache)
 *
 *   lru.equal .. lru.tbl_resize   hash table level (lru_handle_equal, lru_table_*)
 *   lru.lookup .. lru.prune       shard level (lists, refs, usage, eviction)
 *   lru.shard_index .. lru.top    sharding and dispatch
 *
 * The real cache.c is included unmodified.  Models: ldb_malloc (malloc, never
 * NULL), ldb_free (free + ghost record), ldb_mutex_* (ghost "held" pointer),
 * ldb_hash (uninterpreted: one arbitrary value per distinct key of the
 * harness), the entry deleter (ghost recorder).
 *
 * A cache state is built by the harness from N <= LRU_N handles with symbolic
 * hash, key length, key bytes, charge, refs; the bound is stated per unit.
 */
#include "verif.h"

#include <stdint.h>
#include <stdlib.h>
#include <string.h>

#include "util/cache.h"
#include "util/hash.h"
#include "util/internal.h"
#include "util/port.h"
#include "util/slice.h"

#ifndef LRU_N
#define LRU_N 3            /* handles in the pre-state */
#endif
#ifndef LRU_K
#define LRU_K 3            /* longest key, bytes */
#endif
#ifndef LRU_LEN
#define LRU_LEN 4          /* buckets in the pre-state (concrete per unit) */
#endif
#define LRU_M (LRU_N + 2)  /* handles the harness tracks: pre-state + one detached + one inserted */

/* ------------------------------------------------------------------ ghost */
struct lru_ghost {
  ldb_mutex_t *held;               /* mutex currently held (NULL: none)                */
  ldb_mutex_t *last;               /* mutex of the last lock()                         */
  int locks, unlocks, lock_err;
  int guard;                       /* 1: malloc/free/deleter/memcmp must run under a mutex */
  int guard_err;
  int mallocs; void *last_malloc; size_t last_malloc_n;
  int frees; void *freed[LRU_M + 2];
  int dels; void *del_value[LRU_M + 2]; size_t del_klen[LRU_M + 2]; uint8_t del_key[LRU_M + 2][LRU_K + 1];
  int del_after_free;              /* deleter ran on an already freed handle's key     */
  int hashes; const uint8_t *hash_data; size_t hash_size; uint32_t hash_seed;
} X;

static void ghost_reset(void) {
  int i;
  X.held = NULL; X.last = NULL; X.locks = 0; X.unlocks = 0; X.lock_err = 0; X.guard = 0; X.guard_err = 0;
  X.mallocs = 0; X.last_malloc = NULL; X.last_malloc_n = 0; X.frees = 0; X.dels = 0; X.del_after_free = 0;
  X.hashes = 0; X.hash_data = NULL; X.hash_size = 0; X.hash_seed = 0;
  for (i = 0; i < LRU_M + 2; i++) { X.freed[i] = NULL; X.del_value[i] = NULL; X.del_klen[i] = 0; }
}

static int was_freed(const void *p) {
  int i, r = 0;
  for (i = 0; i < LRU_M + 2; i++) if (i < X.frees && X.freed[i] == p) r++;
  return r;
}

/* --------------------------------------------------------------- models */
void ldb_mutex_init(ldb_mutex_t *m) { (void)m; }
void ldb_mutex_destroy(ldb_mutex_t *m) { (void)m; }
void ldb_mutex_lock(ldb_mutex_t *m) { if (X.held != NULL) X.lock_err = 1; X.held = m; X.last = m; X.locks++; }
void ldb_mutex_unlock(ldb_mutex_t *m) { if (X.held != m) X.lock_err = 1; X.held = NULL; X.unlocks++; }

void *ldb_malloc(size_t n) {
  void *p = malloc(n);
  __CPROVER_assume(p != NULL);
  if (X.guard && X.held == NULL) X.guard_err = 1;
  X.mallocs++; X.last_malloc = p; X.last_malloc_n = n;
  return p;
}
void ldb_free(void *p) {
  if (X.guard && X.held == NULL) X.guard_err = 1;
  if (p != NULL) {
    __CPROVER_assert(X.frees < LRU_M + 2, "ldb_free: more frees than objects the harness handed out");
    __CPROVER_assume(X.frees < LRU_M + 2);
    X.freed[X.frees++] = p;
    free(p);
  }
}

static void model_deleter(const ldb_slice_t *key, void *value) {
  size_t j;
  if (X.guard && X.held == NULL) X.guard_err = 1;
  __CPROVER_assert(X.dels < LRU_M + 2, "deleter: more calls than entries");
  __CPROVER_assume(X.dels < LRU_M + 2);
  X.del_value[X.dels] = value; X.del_klen[X.dels] = key->size;
  for (j = 0; j < LRU_K; j++) if (j < key->size) X.del_key[X.dels][j] = key->data[j];   /* reads the key: use after free is flagged */
  X.dels++;
}

/* uninterpreted hash: the harness registers up to two keys; equal content => equal value */
struct lru_hk { int used; size_t n; uint8_t b[LRU_K + 1]; uint32_t v; } HK[2];
static int bytes_eq(const uint8_t *a, const uint8_t *b, size_t n) {
  size_t j; int r = 1;
  for (j = 0; j < LRU_K + 1; j++) if (j < n && a[j] != b[j]) r = 0;
  return r;
}
uint32_t ldb_hash(const uint8_t *data, size_t size, uint32_t seed) {
  int i;
  X.hashes++; X.hash_data = data; X.hash_size = size; X.hash_seed = seed;
  for (i = 0; i < 2; i++)
    if (HK[i].used && HK[i].n == size && bytes_eq(HK[i].b, data, size)) return HK[i].v;
  return nondet_u32();
}

#include "util/cache.c"

/* ---------------------------------------------------------- state builder */
struct lru_snap { uint32_t refs, hash; int in_cache; size_t charge, klen; void *value; uint8_t key[LRU_K + 1]; int lru_pos; };
static lru_handle_t *G[LRU_M];        /* every handle the harness knows                     */
static struct lru_snap S[LRU_M];      /* their pre-state                                    */
static int g_n;                       /* number of handles in the table in the pre-state    */
static int g_val[LRU_M + 2];          /* distinct value cookies                             */

static lru_handle_t *mk_handle(size_t kmax) {
  size_t kl = nondet_size(), j;
  lru_handle_t *h;
  __CPROVER_assume(kl <= kmax);
#ifdef LRU_EXACT
  h = malloc(sizeof(lru_handle_t) - 1 + kl);      /* exactly what lru_shard_insert allocates: reads past the key are flagged */
#else
  h = malloc(sizeof(lru_handle_t) - 1 + LRU_K);   /* constant size (cheaper); key_length <= LRU_K is symbolic */
#endif
  __CPROVER_assume(h != NULL);
  h->key_length = kl; h->hash = nondet_u32(); h->charge = nondet_size();
  h->next_hash = NULL; h->next = NULL; h->prev = NULL; h->in_cache = 0; h->refs = 0; h->value = NULL; h->deleter = model_deleter;
  for (j = 0; j < kmax; j++) if (j < kl) h->key_data[j] = nondet_u8();
  return h;
}

static void snap(int i) {
  size_t j;
  lru_handle_t *h = G[i];
  S[i].refs = h->refs; S[i].hash = h->hash; S[i].in_cache = h->in_cache; S[i].charge = h->charge; S[i].klen = h->key_length; S[i].value = h->value;
  for (j = 0; j < LRU_K + 1; j++) S[i].key[j] = j < h->key_length ? h->key_data[j] : 0;
}

static void mk_table(lru_table_t *t, uint32_t len) {
  uint32_t b;
  t->length = len; t->elems = 0;
  t->list = malloc((len ? len : 1) * sizeof(lru_handle_t *));
  __CPROVER_assume(t->list != NULL);
  for (b = 0; b < 8; b++) if (b < len) t->list[b] = NULL;
}
static void tbl_link(lru_table_t *t, lru_handle_t *h) {        /* at the head of its bucket */
  lru_handle_t **slot = &t->list[h->hash & (t->length - 1)];
  h->next_hash = *slot; *slot = h; t->elems++;
}

/* spec side: key equality written out, independent of memcmp */
static int key_is(const lru_handle_t *h, uint32_t hash, const uint8_t *kd, size_t kn) {
  return h->hash == hash && h->key_length == kn && bytes_eq(h->key_data, kd, kn);
}
static int same_key(const lru_handle_t *a, const lru_handle_t *b) {
  return key_is(a, b->hash, b->key_data, b->key_length);
}

/* walkers over the post-state (bounded: LRU_M + 1 steps per chain, 8 buckets).  Every node must be a handle the
 * harness knows and that has not been freed (else: malformed, -1), so the walkers never follow a wild pointer;
 * CBMC's pointer checks are switched off inside them (spec code only, the real code keeps every check). */
static int idx_of(const lru_handle_t *p);
#pragma CPROVER check push
#pragma CPROVER check disable "pointer"
#pragma CPROVER check disable "pointer-primitive"
#pragma CPROVER check disable "pointer-overflow"
#pragma CPROVER check disable "bounds"
/* one pass over the whole table: T.cnt[i] = how often handle i is chained, T.bkt[i] = its (last) bucket,
 * T.pos[i] = its position in that chain, T.total = number of chained nodes, T.bad = malformed */
static struct tbl_scan { int cnt[LRU_M]; uint32_t bkt[LRU_M]; int pos[LRU_M]; int total; int bad; } T;
static void tbl_scan(const lru_table_t *t) {
  uint32_t b; int s, i;
  for (i = 0; i < LRU_M; i++) { T.cnt[i] = 0; T.bkt[i] = 99; T.pos[i] = -1; }
  T.total = 0; T.bad = 0;
  if (t->length > 8 || t->list == NULL) { T.bad = 1; return; }
  for (b = 0; b < 8; b++) if (b < t->length) {
    const lru_handle_t *q = t->list[b];
    for (s = 0; s < LRU_M; s++) if (q != NULL && !T.bad) {
      i = idx_of(q);
      if (i < 0 || was_freed(q)) T.bad = 1;
      else { T.cnt[i]++; T.bkt[i] = b; T.pos[i] = s; T.total++; q = q->next_hash; }
    }
    if (q != NULL) T.bad = 1;
  }
}
/* handle i is chained exactly once, in the bucket of its hash */
static int tbl_has(const lru_table_t *t, int i) { return !T.bad && T.cnt[i] == 1 && T.bkt[i] == (S[i].hash & (t->length - 1)); }
static int tbl_hasnt(int i) { return !T.bad && T.cnt[i] == 0; }
#pragma CPROVER check pop
static int idx_of(const lru_handle_t *p) {
  int i, r = -1;
  for (i = 0; i < LRU_M; i++) if (G[i] != NULL && G[i] == p) r = i;
  return r;
}
static int is_pow2(uint32_t x) { return x != 0 && (x & (x - 1)) == 0; }

/* build a table of g_n <= nmax handles, each in the bucket of its hash; chain order = reverse index order
 * (handles are symbolic, so every order of contents is covered) */
static void build_table(lru_table_t *t, uint32_t len, int n, size_t kmax, int distinct) {
  int i, j;
  ghost_reset();
  for (i = 0; i < LRU_M; i++) G[i] = NULL;
  mk_table(t, len);
  g_n = n;
  for (i = 0; i < LRU_N; i++) if (i < n) {
    G[i] = mk_handle(kmax);
    G[i]->in_cache = 1; G[i]->refs = 1; G[i]->value = &g_val[i];
    if (distinct) for (j = 0; j < LRU_N; j++) if (j < i) __CPROVER_assume(!same_key(G[i], G[j]));
    tbl_link(t, G[i]);
    snap(i);
  }
}

static uint8_t *mk_key(size_t n, size_t kmax) {
#ifdef LRU_EXACT
  uint8_t *kd = malloc(n); size_t j;
#else
  uint8_t *kd = malloc(LRU_K + 1); size_t j;
#endif
  __CPROVER_assume(kd != NULL);
  for (j = 0; j < kmax; j++) if (j < n) kd[j] = nondet_u8();
  return kd;
}

/* number of handles in the pre-state: symbolic 0..LRU_N, or fixed per unit variant (keeps elems, and with it the
 * size of the bucket array a resize allocates, concrete) */
static int pick_n(void) {
#ifdef LRU_NFIX
  return LRU_NFIX;
#else
  int n = nondet_int();
  __CPROVER_assume(n >= 0 && n <= LRU_N);
  return n;
#endif
}

/* =============================================================== lru.equal */
#define EQB(x, y, j) ((y)->size <= (j) || (x)->key_data[j] == (y)->data[j])
int c_handle_equal(const lru_handle_t *x, const ldb_slice_t *y)
__CPROVER_requires(__CPROVER_r_ok(x, sizeof(lru_handle_t) - 1) && x->key_length <= 4 && __CPROVER_r_ok(x, sizeof(lru_handle_t) - 1 + x->key_length))
__CPROVER_requires(__CPROVER_r_ok(y, sizeof(*y)) && y->size <= 4 && __CPROVER_r_ok(y->data, y->size))
__CPROVER_assigns()
__CPROVER_ensures((__CPROVER_return_value != 0) == (x->key_length == y->size && EQB(x, y, 0) && EQB(x, y, 1) && EQB(x, y, 2) && EQB(x, y, 3)))
;

void h_equal(void) {
  lru_handle_t *x = mk_handle(4);
  IN_SIZE(in_klen);
  ldb_slice_t y; uint8_t *kd;
  ASSUME(in_klen <= 4);
  kd = mk_key(in_klen, 4);
  y.data = kd; y.size = in_klen; y.alloc = 0;
  (void)lru_handle_equal(x, &y);
  CANARY();
}

/* ================================================================ lru.find */
void h_find(void) {
  lru_table_t t; ldb_slice_t key; uint8_t *kd; lru_handle_t **ptr, *res; int i, slot_ok, ri;
  const uint32_t in_len = LRU_LEN; int in_n = pick_n(); IN_SIZE(in_klen); IN_U32(in_hash); IN_INT(in_k);
  ASSUME(in_klen <= LRU_K);
  build_table(&t, in_len, in_n, LRU_K, 0);        /* duplicates allowed: find returns the first */
  kd = mk_key(in_klen, LRU_K);
  key.data = kd; key.size = in_klen; key.alloc = 0;

  ptr = lru_table_find(&t, &key, in_hash);

  /* the slot is the head of the key's bucket or the next_hash field of a handle chained in that bucket */
  slot_ok = (ptr == &t.list[in_hash & (in_len - 1)]);
  for (i = 0; i < LRU_N; i++)
    if (i < in_n && ptr == &G[i]->next_hash && (G[i]->hash & (in_len - 1)) == (in_hash & (in_len - 1))) slot_ok = 1;
  CHECK(slot_ok, "lru_table_find: returns a slot of the chain of bucket hash & (length-1)");
  res = *ptr;
  ri = idx_of(res);
  CHECK(res == NULL || (ri >= 0 && ri < in_n), "lru_table_find: the slot holds NULL (trailing slot) or a handle of the table");
  CHECK(res == NULL || res->hash == in_hash, "lru_table_find: a returned handle has exactly the hash asked for");
  CHECK(res == NULL || res->key_length == in_klen, "lru_table_find: a returned handle's key has exactly the length asked for");
  CHECK(res == NULL || bytes_eq(res->key_data, kd, in_klen), "lru_table_find: a returned handle's key bytes equal the key asked for");
  /* ghost index: any handle k that matches => result non-NULL and not after k in the chain (chain order = descending index) */
  ASSUME(in_k >= 0 && in_k < in_n);
  CHECK(!key_is(G[in_k], in_hash, kd, in_klen) || res != NULL, "lru_table_find: NULL only if no handle in the table has this hash and key");
  CHECK(!key_is(G[in_k], in_hash, kd, in_klen) || ri >= in_k, "lru_table_find: returns the FIRST matching handle of the chain");
  tbl_scan(&t);
  CHECK(t.elems == (uint32_t)in_n && t.length == in_len && T.total == in_n && tbl_has(&t, in_k), "lru_table_find: does not modify the table");
  CANARY();
}

/* ========================================================== lru.tbl_lookup */
void h_tbl_lookup(void) {
  lru_table_t t; ldb_slice_t key; uint8_t *kd; lru_handle_t *res; int ri;
  const uint32_t in_len = LRU_LEN; int in_n = pick_n(); IN_SIZE(in_klen); IN_U32(in_hash); IN_INT(in_k);
  ASSUME(in_klen <= LRU_K);
  build_table(&t, in_len, in_n, LRU_K, 1);        /* table invariant: keys pairwise distinct */
  kd = mk_key(in_klen, LRU_K);
  key.data = kd; key.size = in_klen; key.alloc = 0;

  res = lru_table_lookup(&t, &key, in_hash);

  ri = idx_of(res);
  CHECK(res == NULL || (ri >= 0 && ri < in_n), "lru_table_lookup: NULL or a handle of the table");
  CHECK(res == NULL || key_is(res, in_hash, kd, in_klen), "lru_table_lookup: a returned handle is stored under EXACTLY the key (hash, length, bytes) asked for");
  ASSUME(in_k >= 0 && in_k < in_n);
  CHECK(!key_is(G[in_k], in_hash, kd, in_klen) || res == G[in_k], "lru_table_lookup: every key present in the table is found");
  tbl_scan(&t);
  CHECK(t.elems == (uint32_t)in_n && t.length == in_len && T.total == in_n && tbl_has(&t, in_k), "lru_table_lookup: does not modify the table");
  CANARY();
}

/* ========================================================== lru.tbl_insert */
void h_tbl_insert(void) {
  lru_table_t t; lru_handle_t *h, *old, **old_list; int oi, i, any = 0; uint32_t want_len;
  const uint32_t in_len = LRU_LEN; int in_n = pick_n(); IN_INT(in_k);
  ASSUME((uint32_t)in_n <= in_len);                /* table invariant: elems <= length */
  build_table(&t, in_len, in_n, LRU_K, 1);
  old_list = t.list;
  h = mk_handle(LRU_K);
  h->next = NULL;                                  /* lru_handle_key's (compiled out) assert reads it */
  G[LRU_N] = h; snap(LRU_N);
  for (i = 0; i < LRU_N; i++) if (i < in_n && same_key(G[i], h)) any = 1;

  old = lru_table_insert(&t, h);

  oi = idx_of(old);
  CHECK(old == NULL || (oi >= 0 && oi < in_n), "lru_table_insert: returns NULL or a handle that was in the table");
  CHECK(old == NULL || same_key(old, h), "lru_table_insert: the returned old handle has exactly the new handle's key");
  CHECK(any == (old != NULL), "lru_table_insert: an existing handle with the same key is always found and returned");
  CHECK(t.elems == (uint32_t)in_n + (old == NULL ? 1u : 0u), "lru_table_insert: elems grows by one exactly when no handle was replaced");
  tbl_scan(&t);
  CHECK(!T.bad && T.total == (int)t.elems, "lru_table_insert: chains well formed, elems equals the number of chained handles");
  CHECK(tbl_has(&t, LRU_N), "lru_table_insert: the new handle is chained exactly once, in bucket hash & (length-1)");
  CHECK(old == NULL || tbl_hasnt(oi), "lru_table_insert: the replaced handle is no longer chained");
  if (in_n > 0) {
    ASSUME(in_k >= 0 && in_k < in_n);
    CHECK(G[in_k] == old || tbl_has(&t, in_k), "lru_table_insert: every other handle stays chained exactly once in its bucket");
  }
  /* resize policy: average chain length <= 1 */
  want_len = in_len;
  if (old == NULL && (uint32_t)in_n + 1 > in_len) { want_len = 4; while (want_len < (uint32_t)in_n + 1) want_len *= 2; }
  CHECK(t.length == want_len && t.elems <= t.length, "lru_table_insert: the table is resized exactly when elems exceeds length");
  CHECK((t.length == in_len) == (t.list == old_list), "lru_table_insert: bucket array replaced only by a resize");
  CHECK(X.frees == (t.list != old_list ? 1 : 0) && (X.frees == 0 || X.freed[0] == (void *)old_list), "lru_table_insert: frees only the old bucket array, never a handle");
  CANARY();
}

/* ========================================================== lru.tbl_remove */
void h_tbl_remove(void) {
  lru_table_t t; ldb_slice_t key; uint8_t *kd; lru_handle_t *res, **old_list; int ri;
  const uint32_t in_len = LRU_LEN; int in_n = pick_n(); IN_SIZE(in_klen); IN_U32(in_hash); IN_INT(in_k);
  ASSUME(in_klen <= LRU_K);
  build_table(&t, in_len, in_n, LRU_K, 1);
  old_list = t.list;
  kd = mk_key(in_klen, LRU_K);
  key.data = kd; key.size = in_klen; key.alloc = 0;

  res = lru_table_remove(&t, &key, in_hash);

  ri = idx_of(res);
  CHECK(res == NULL || (ri >= 0 && ri < in_n), "lru_table_remove: NULL or a handle of the table");
  CHECK(res == NULL || key_is(res, in_hash, kd, in_klen), "lru_table_remove: removes only a handle with exactly the key asked for");
  tbl_scan(&t);
  CHECK(t.elems == (uint32_t)in_n - (res != NULL ? 1u : 0u) && !T.bad && T.total == (int)t.elems, "lru_table_remove: elems shrinks by one exactly when a handle was removed, and equals the number of chained handles");
  CHECK(res == NULL || tbl_hasnt(ri), "lru_table_remove: the removed handle is no longer chained");
  ASSUME(in_k >= 0 && in_k < in_n);
  CHECK(!key_is(G[in_k], in_hash, kd, in_klen) || res == G[in_k], "lru_table_remove: a present key is always removed");
  CHECK(G[in_k] == res || tbl_has(&t, in_k), "lru_table_remove: every other handle stays chained exactly once in its bucket");
  CHECK(t.length == in_len && t.list == old_list && X.frees == 0, "lru_table_remove: bucket array kept, nothing freed");
  CANARY();
}

/* ========================================================== lru.tbl_resize */
void h_tbl_resize(void) {
  lru_table_t t; lru_handle_t **old_list; int i; uint32_t want = 4;
  const uint32_t in_len = LRU_LEN; int in_n = pick_n(); IN_INT(in_k);
  if (in_len == 0) {                               /* lru_table_init: no bucket array yet */
    ASSUME(in_n == 0);
    ghost_reset();
    for (i = 0; i < LRU_M; i++) G[i] = NULL;
    t.length = 0; t.elems = 0; t.list = NULL; g_n = 0;
  } else {
    build_table(&t, in_len, in_n, 0, 0);           /* keys play no role in a resize: empty keys, hashes symbolic */
  }
  old_list = t.list;

  lru_table_resize(&t);

  while (want < (uint32_t)in_n) want *= 2;
  CHECK(t.length == want && is_pow2(t.length) && t.length >= 4 && t.length >= t.elems, "lru_table_resize: new length = smallest power of two >= max(4, elems)");
  CHECK(t.elems == (uint32_t)in_n, "lru_table_resize: elems unchanged");
  tbl_scan(&t);
  CHECK(!T.bad && T.total == in_n, "lru_table_resize: no handle lost, none duplicated");
  if (in_n > 0) {
    ASSUME(in_k >= 0 && in_k < in_n);
    CHECK(tbl_has(&t, in_k), "lru_table_resize: every handle lands exactly once in bucket hash & (new_length-1)");
  }
  CHECK(X.mallocs == 1 && t.list == (lru_handle_t **)X.last_malloc && X.last_malloc_n == (size_t)t.length * sizeof(lru_handle_t *), "lru_table_resize: bucket array of new_length pointers");
  CHECK(X.frees == (old_list != NULL ? 1 : 0) && (old_list == NULL || X.freed[0] == (void *)old_list), "lru_table_resize: the old bucket array is freed exactly once, no handle is freed");
  CANARY();
}
