/* units/lru.c - proof units for src/util/cache.c (sharded LRU cache: block cache and table cache)
 *
 *   lru.equal .. lru.tbl_resize*    hash table level (lru_handle_equal, lru_table_*): symbolic hashes and keys
 *   lru.lookup .. lru.erase         shard level, one operation on a symbolic heap shape (lists, refs, usage)
 *   lru.insert_s*, lru.prune_s      shard level, the looping operations on concrete heap shapes with symbolic numbers
 *   lru.insert_nocache              allocation size / key copy with keys of 0..8 bytes
 *   lru.shard_index .. lru.create   sharding, dispatch, ids, creation
 *
 * The real cache.c is included unmodified.  Models: ldb_malloc (malloc, never
 * NULL), ldb_free (free + ghost record), ldb_mutex_* (ghost "held" pointer),
 * ldb_hash (uninterpreted), the entry deleter (ghost recorder).
 *
 * A cache state is built by the harness from N <= LRU_N handles with symbolic
 * hash, key length, key bytes, charge, refs; the bound is stated per unit.
 * All units are plain harnesses (CHECKs) except the loop-free pure ones
 * (lru.equal, lru.shard_index, lru.hash, lru.id: enforced contracts).
 */
#include "verif.h"

#include <stdint.h>
#include <stdlib.h>
#include <string.h>

#include "util/cache.h"
#include "util/hash.h"
#include "util/internal.h"
#include "util/port.h"
#include "util/slice.h"

#ifndef LRU_N
#define LRU_N 3            /* handles in the pre-state */
#endif
#ifndef LRU_K
#define LRU_K 3            /* longest key, bytes */
#endif
#ifndef LRU_LEN
#define LRU_LEN 4          /* buckets in the pre-state (concrete per unit) */
#endif
#ifndef LRU_SCEN
#define LRU_SCEN 0
#endif
#define LRU_M (LRU_N + 2)  /* handles the harness tracks: pre-state + one detached + one inserted */

/* ------------------------------------------------------------------ ghost */
struct lru_ghost {
  ldb_mutex_t *held;               /* mutex currently held (NULL: none)                */
  ldb_mutex_t *last;               /* mutex of the last lock()                         */
  int locks, unlocks, lock_err;
  int guard;                       /* 1: malloc/free/deleter/memcmp must run under a mutex */
  int guard_err;
  int next_is_handle; size_t handle_n;
  int statics;                     /* 1: scenario mode, objects are static (see build_shard_scen) */
  int mallocs; void *last_malloc; size_t last_malloc_n; void *mal[3];
  int frees; void *freed[LRU_M + 2];
  int dels; void *del_value[LRU_M + 2]; size_t del_klen[LRU_M + 2]; uint8_t del_key[LRU_M + 2][LRU_K + 1];
  unsigned clock, free_t[LRU_M + 2], del_t[LRU_M + 2];   /* order of deleter calls and frees */
  int hashes; const uint8_t *hash_data; size_t hash_size; uint32_t hash_seed, hash_ret;
} X;

static void ghost_reset(void) {
  int i;
  X.held = NULL; X.last = NULL; X.locks = 0; X.unlocks = 0; X.lock_err = 0; X.guard = 0; X.guard_err = 0;
  X.mal[0] = X.mal[1] = X.mal[2] = NULL; X.next_is_handle = 0; X.handle_n = 0; X.statics = 0;
  X.mallocs = 0; X.last_malloc = NULL; X.last_malloc_n = 0; X.frees = 0; X.dels = 0; X.clock = 0;
  X.hashes = 0; X.hash_data = NULL; X.hash_size = 0; X.hash_seed = 0;
  for (i = 0; i < LRU_M + 2; i++) { X.freed[i] = NULL; X.del_value[i] = NULL; X.del_klen[i] = 0; }
}

static int was_freed(const void *p) {
  int i, r = 0;
  for (i = 0; i < LRU_M + 2; i++) if (i < X.frees && X.freed[i] == p) r++;
  return r;
}

/* --------------------------------------------------------------- models */
void ldb_mutex_init(ldb_mutex_t *m) { (void)m; }
void ldb_mutex_destroy(ldb_mutex_t *m) { (void)m; }
void ldb_mutex_lock(ldb_mutex_t *m) { if (X.held != NULL) X.lock_err = 1; X.held = m; X.last = m; X.locks++; }
void ldb_mutex_unlock(ldb_mutex_t *m) { if (X.held != m) X.lock_err = 1; X.held = NULL; X.unlocks++; }

void ldb_free(void *p) {
  if (X.guard && X.held == NULL) X.guard_err = 1;
  if (p != NULL) {
    __CPROVER_assert(X.frees < LRU_M + 2, "ldb_free: more frees than objects the harness handed out");
    __CPROVER_assume(X.frees < LRU_M + 2);
    X.free_t[X.frees] = ++X.clock;
    X.freed[X.frees++] = p;
    if (!X.statics) free(p);
  }
}

static void model_deleter(const ldb_slice_t *key, void *value) {
  size_t j;
  if (X.guard && X.held == NULL) X.guard_err = 1;
  __CPROVER_assert(X.dels < LRU_M + 2, "deleter: more calls than entries");
  __CPROVER_assume(X.dels < LRU_M + 2);
  X.del_value[X.dels] = value; X.del_klen[X.dels] = key->size; X.del_t[X.dels] = ++X.clock;
  for (j = 0; j < LRU_K; j++) if (j < key->size) X.del_key[X.dels][j] = key->data[j];   /* reads the key: use after free is flagged */
  X.dels++;
}

/* uninterpreted hash: the harness registers up to two keys; equal content => equal value */
struct lru_hk { int used; size_t n; uint8_t b[LRU_K + 1]; uint32_t v; } HK[2];
static int bytes_eq(const uint8_t *a, const uint8_t *b, size_t n) {
  size_t j; int r = 1;
  for (j = 0; j < LRU_K + 1; j++) if (j < n && a[j] != b[j]) r = 0;
  return r;
}
uint32_t ldb_hash(const uint8_t *data, size_t size, uint32_t seed) {
  int i;
  X.hashes++; X.hash_data = data; X.hash_size = size; X.hash_seed = seed;
  X.hash_ret = nondet_u32();
  for (i = 0; i < 2; i++)
    if (HK[i].used && HK[i].n == size && bytes_eq(HK[i].b, data, size)) { X.hash_ret = HK[i].v; break; }
  return X.hash_ret;
}

#include "util/cache.c"

#define I_NEW (LRU_N)          /* G[] index of the handle created by an insert */
#define I_DET (LRU_N + 1)      /* G[] index of a handle erased from the cache but still held by a client */
static lru_handle_t HB[LRU_M];                 /* scenario mode: the handles */
static lru_handle_t *ARR0[8], *ARR1[8];        /* scenario mode: bucket array of the pre-state / of a resize */

void *ldb_malloc(size_t n) {
  void *p;
  if (X.statics) {                  /* scenario mode: static objects, so that symex keeps every pointer a constant */
    if (X.next_is_handle) { X.next_is_handle = 0; X.handle_n = n; p = &HB[I_NEW]; __CPROVER_assert(n <= sizeof(HB[0]), "ldb_malloc model: handle with a key of <= 1 byte"); }
    else { p = ARR1; __CPROVER_assert(n <= sizeof(ARR1) && X.mallocs <= 1, "ldb_malloc model: one bucket array of <= 8 slots"); }
    if (X.guard && X.held == NULL) X.guard_err = 1;
    if (X.mallocs < 3) X.mal[X.mallocs] = p;
    X.mallocs++; X.last_malloc = p; X.last_malloc_n = n;
    return p;
  }
#ifdef LRU_TYPED
  /* The handle lru_shard_insert allocates (sizeof(lru_handle_t) - 1 + key size, a byte object of symbolic size for
   * CBMC) is handed out as a struct-typed object of sizeof(lru_handle_t) bytes, which has room for keys of 0..1
   * bytes; the harness checks the requested size against header + key separately (X.handle_n). */
  if (X.next_is_handle && n <= sizeof(lru_handle_t)) { X.next_is_handle = 0; X.handle_n = n; p = malloc(sizeof(lru_handle_t)); }
  else
#endif
  p = malloc(n);
  __CPROVER_assume(p != NULL);
  if (X.guard && X.held == NULL) X.guard_err = 1;
  if (X.mallocs < 3) X.mal[X.mallocs] = p;
  X.mallocs++; X.last_malloc = p; X.last_malloc_n = n;
  return p;
}

/* ---------------------------------------------------------- state builder */
struct lru_snap { uint32_t refs, hash; int in_cache; size_t charge, klen; void *value; uint8_t key[LRU_K + 1]; int lru_pos; };
static lru_handle_t *G[LRU_M];        /* every handle the harness knows                     */
static lru_handle_t **g_list0;        /* the bucket array of the pre-state                  */
/* field f of handle i for a symbolic index i, as an explicit case split over constant indices (a pointer G[i] with
 * symbolic i makes CBMC read the handles through a byte-level view when they are elements of one static array) */
#if LRU_M <= 5
#define HF(i, f) ((i) == 0 ? G[0]->f : (i) == 1 ? G[1]->f : (i) == 2 ? G[2]->f : (i) == 3 ? G[3]->f : G[4]->f)
#else
#define HF(i, f) ((i) == 0 ? G[0]->f : (i) == 1 ? G[1]->f : (i) == 2 ? G[2]->f : (i) == 3 ? G[3]->f : (i) == 4 ? G[4]->f : (i) == 5 ? G[5]->f : G[6]->f)
#endif
static struct lru_snap S[LRU_M];      /* their pre-state                                    */
static int g_n;                       /* number of handles in the table in the pre-state    */
static int g_val[LRU_M + 2];          /* distinct value cookies                             */

#if defined(LRU_TYPED) && LRU_K > 1
#error LRU_TYPED needs LRU_K <= 1
#endif
static lru_handle_t *mk_handle(size_t kmax) {
  size_t kl = nondet_size(), j;
  lru_handle_t *h; uint8_t *kp;
  __CPROVER_assume(kl <= kmax);
#ifdef LRU_EXACT
  h = malloc(sizeof(lru_handle_t) - 1 + kl);      /* exactly what lru_shard_insert allocates: reads past the key are flagged */
#elif defined(LRU_TYPED)
  h = malloc(sizeof(lru_handle_t));               /* struct-typed object (far cheaper than a byte array; shard level): needs LRU_K <= 1 */
#else
  h = malloc(sizeof(lru_handle_t) - 1 + LRU_K);   /* constant size byte object; key_length <= LRU_K is symbolic */
#endif
  __CPROVER_assume(h != NULL);
  h->key_length = kl; h->hash = nondet_u32(); h->charge = nondet_size();
  h->next_hash = NULL; h->next = NULL; h->prev = NULL; h->in_cache = 0; h->refs = 0; h->value = NULL; h->deleter = model_deleter;
  kp = h->key_data;                               /* through a pointer: key_data is declared [1] */
  for (j = 0; j < kmax; j++) if (j < kl) kp[j] = nondet_u8();
  return h;
}

static void snap(int i) {
  size_t j;
  lru_handle_t *h = G[i];
  S[i].refs = h->refs; S[i].hash = h->hash; S[i].in_cache = h->in_cache; S[i].charge = h->charge; S[i].klen = h->key_length; S[i].value = h->value;
  const uint8_t *kp = h->key_data;
  for (j = 0; j < LRU_K + 1; j++) S[i].key[j] = j < h->key_length ? kp[j] : 0;
}

static void mk_table(lru_table_t *t, uint32_t len) {
  uint32_t b;
  t->length = len; t->elems = 0;
  t->list = malloc((len ? len : 1) * sizeof(lru_handle_t *));
  __CPROVER_assume(t->list != NULL);
  g_list0 = t->list;
  for (b = 0; b < 8; b++) if (b < len) t->list[b] = NULL;
}
static void tbl_link(lru_table_t *t, lru_handle_t *h) {        /* at the head of its bucket */
  lru_handle_t **slot = &t->list[h->hash & (t->length - 1)];
  h->next_hash = *slot; *slot = h; t->elems++;
}

/* spec side: key equality written out, independent of memcmp */
static int key_is(const lru_handle_t *h, uint32_t hash, const uint8_t *kd, size_t kn) {
  return h->hash == hash && h->key_length == kn && bytes_eq(h->key_data, kd, kn);
}
static int same_key(const lru_handle_t *a, const lru_handle_t *b) {
  return key_is(a, b->hash, b->key_data, b->key_length);
}

/* walkers over the post-state (bounded: LRU_M + 1 steps per chain, 8 buckets).  Every node must be a handle the
 * harness knows and that has not been freed (else: malformed, -1), so the walkers never follow a wild pointer;
 * CBMC's pointer checks are switched off inside them (spec code only, the real code keeps every check). */
static int idx_of(const lru_handle_t *p);
#pragma CPROVER check push
#pragma CPROVER check disable "pointer"
#pragma CPROVER check disable "pointer-primitive"
#pragma CPROVER check disable "pointer-overflow"
#pragma CPROVER check disable "bounds"
/* one pass over the whole table: T.cnt[i] = how often handle i is chained, T.bkt[i] = its (last) bucket,
 * T.pos[i] = its position in that chain, T.total = number of chained nodes, T.bad = malformed */
static struct tbl_scan { int cnt[LRU_M]; uint32_t bkt[LRU_M]; int pos[LRU_M]; int total; int bad; } T;
static void tbl_scan_at(lru_handle_t *const *list, uint32_t length) {
  uint32_t b; int s, i;
  for (b = 0; b < 8; b++) if (b < length) {
    const lru_handle_t *q = list[b];
    for (s = 0; s < LRU_M; s++) if (q != NULL && !T.bad) {
      i = idx_of(q);
      if (i < 0 || was_freed(q)) T.bad = 1;
      else { T.cnt[i]++; T.bkt[i] = b; T.pos[i] = s; T.total++; q = HF(i, next_hash); }   /* via G[]: q's value set may include the shard's list heads */
    }
    if (q != NULL) T.bad = 1;
  }
}
static void tbl_scan(const lru_table_t *t) {
  int i;
  for (i = 0; i < LRU_M; i++) { T.cnt[i] = 0; T.bkt[i] = 99; T.pos[i] = -1; }
  T.total = 0; T.bad = 0;
  /* the bucket array is the one the harness built or one ldb_malloc handed out: scan it through that (concrete)
   * pointer; after writes through list pointers CBMC no longer knows what g_shard.table.list points to */
  if (t->length > 8 || was_freed(t->list)) T.bad = 1;
  else if (t->list == g_list0) tbl_scan_at(g_list0, t->length);
  else if (X.mallocs >= 1 && t->list == (lru_handle_t **)X.mal[0]) tbl_scan_at((lru_handle_t **)X.mal[0], t->length);
  else if (X.mallocs >= 2 && t->list == (lru_handle_t **)X.mal[1]) tbl_scan_at((lru_handle_t **)X.mal[1], t->length);
  else T.bad = 1;
}
/* handle i is chained exactly once, in the bucket of its hash */
static int tbl_has(const lru_table_t *t, int i) { return !T.bad && T.cnt[i] == 1 && T.bkt[i] == (S[i].hash & (t->length - 1)); }
static int tbl_hasnt(int i) { return !T.bad && T.cnt[i] == 0; }
#pragma CPROVER check pop
static int idx_of(const lru_handle_t *p) {
  int i, r = -1;
  for (i = 0; i < LRU_M; i++) if (G[i] != NULL && G[i] == p) r = i;
  return r;
}
static int is_pow2(uint32_t x) { return x != 0 && (x & (x - 1)) == 0; }

/* build a table of g_n <= nmax handles, each in the bucket of its hash; chain order = reverse index order
 * (handles are symbolic, so every order of contents is covered) */
static void build_table(lru_table_t *t, uint32_t len, int n, size_t kmax, int distinct) {
  int i, j;
  ghost_reset();
  for (i = 0; i < LRU_M; i++) G[i] = NULL;
  mk_table(t, len);
  g_n = n;
  for (i = 0; i < LRU_N; i++) if (i < n) {
    G[i] = mk_handle(kmax);
    G[i]->in_cache = 1; G[i]->refs = 1; G[i]->value = &g_val[i];
    if (distinct) for (j = 0; j < LRU_N; j++) if (j < i) __CPROVER_assume(!same_key(G[i], G[j]));
    tbl_link(t, G[i]);
    snap(i);
  }
}

static uint8_t *mk_key(size_t n, size_t kmax) {
#ifdef LRU_EXACT
  uint8_t *kd = malloc(n); size_t j;
#else
  uint8_t *kd = malloc(LRU_K + 1); size_t j;
#endif
  __CPROVER_assume(kd != NULL);
  for (j = 0; j < kmax; j++) if (j < n) kd[j] = nondet_u8();
  return kd;
}

/* number of handles in the pre-state: symbolic 0..LRU_N, or fixed per unit variant (keeps elems, and with it the
 * size of the bucket array a resize allocates, concrete) */
static int pick_n(void) {
#ifdef LRU_NFIX
  return LRU_NFIX;
#else
  int n = nondet_int();
  __CPROVER_assume(n >= 0 && n <= LRU_N);
  return n;
#endif
}

/* =============================================================== lru.equal */
#define EQB(x, y, j) ((y)->size <= (j) || (x)->key_data[j] == (y)->data[j])
int c_handle_equal(const lru_handle_t *x, const ldb_slice_t *y)
__CPROVER_requires(__CPROVER_r_ok(x, sizeof(lru_handle_t) - 1) && x->key_length <= 4 && __CPROVER_r_ok(x, sizeof(lru_handle_t) - 1 + x->key_length))
__CPROVER_requires(__CPROVER_r_ok(y, sizeof(*y)) && y->size <= 4 && __CPROVER_r_ok(y->data, y->size))
__CPROVER_assigns()
__CPROVER_ensures((__CPROVER_return_value != 0) == (x->key_length == y->size && EQB(x, y, 0) && EQB(x, y, 1) && EQB(x, y, 2) && EQB(x, y, 3)))
;

void h_equal(void) {
  lru_handle_t *x = mk_handle(4);
  IN_SIZE(in_klen);
  ldb_slice_t y; uint8_t *kd;
  ASSUME(in_klen <= 4);
  kd = mk_key(in_klen, 4);
  y.data = kd; y.size = in_klen; y.alloc = 0;
  (void)lru_handle_equal(x, &y);
  CANARY();
}

/* ================================================================ lru.find */
void h_find(void) {
  lru_table_t t; ldb_slice_t key; uint8_t *kd; lru_handle_t **ptr, *res; int i, slot_ok, ri;
  const uint32_t in_len = LRU_LEN; int in_n = pick_n(); IN_SIZE(in_klen); IN_U32(in_hash); IN_INT(in_k);
  ASSUME(in_klen <= LRU_K);
  build_table(&t, in_len, in_n, LRU_K, 0);        /* duplicates allowed: find returns the first */
  kd = mk_key(in_klen, LRU_K);
  key.data = kd; key.size = in_klen; key.alloc = 0;

  ptr = lru_table_find(&t, &key, in_hash);

  /* the slot is the head of the key's bucket or the next_hash field of a handle chained in that bucket */
  slot_ok = (ptr == &t.list[in_hash & (in_len - 1)]);
  for (i = 0; i < LRU_N; i++)
    if (i < in_n && ptr == &G[i]->next_hash && (G[i]->hash & (in_len - 1)) == (in_hash & (in_len - 1))) slot_ok = 1;
  CHECK(slot_ok, "lru_table_find: returns a slot of the chain of bucket hash & (length-1)");
  res = *ptr;
  ri = idx_of(res);
  CHECK(res == NULL || (ri >= 0 && ri < in_n), "lru_table_find: the slot holds NULL (trailing slot) or a handle of the table");
  CHECK(res == NULL || res->hash == in_hash, "lru_table_find: a returned handle has exactly the hash asked for");
  CHECK(res == NULL || res->key_length == in_klen, "lru_table_find: a returned handle's key has exactly the length asked for");
  CHECK(res == NULL || bytes_eq(res->key_data, kd, in_klen), "lru_table_find: a returned handle's key bytes equal the key asked for");
  /* ghost index: any handle k that matches => result non-NULL and not after k in the chain (chain order = descending index) */
  ASSUME(in_k >= 0 && in_k < in_n);
  CHECK(!key_is(G[in_k], in_hash, kd, in_klen) || res != NULL, "lru_table_find: NULL only if no handle in the table has this hash and key");
  CHECK(!key_is(G[in_k], in_hash, kd, in_klen) || ri >= in_k, "lru_table_find: returns the FIRST matching handle of the chain");
  tbl_scan(&t);
  CHECK(t.elems == (uint32_t)in_n && t.length == in_len && T.total == in_n && tbl_has(&t, in_k), "lru_table_find: does not modify the table");
  CANARY();
}

/* ========================================================== lru.tbl_lookup */
void h_tbl_lookup(void) {
  lru_table_t t; ldb_slice_t key; uint8_t *kd; lru_handle_t *res; int ri;
  const uint32_t in_len = LRU_LEN; int in_n = pick_n(); IN_SIZE(in_klen); IN_U32(in_hash); IN_INT(in_k);
  ASSUME(in_klen <= LRU_K);
  build_table(&t, in_len, in_n, LRU_K, 1);        /* table invariant: keys pairwise distinct */
  kd = mk_key(in_klen, LRU_K);
  key.data = kd; key.size = in_klen; key.alloc = 0;

  res = lru_table_lookup(&t, &key, in_hash);

  ri = idx_of(res);
  CHECK(res == NULL || (ri >= 0 && ri < in_n), "lru_table_lookup: NULL or a handle of the table");
  CHECK(res == NULL || key_is(res, in_hash, kd, in_klen), "lru_table_lookup: a returned handle is stored under EXACTLY the key (hash, length, bytes) asked for");
  ASSUME(in_k >= 0 && in_k < in_n);
  CHECK(!key_is(G[in_k], in_hash, kd, in_klen) || res == G[in_k], "lru_table_lookup: every key present in the table is found");
  tbl_scan(&t);
  CHECK(t.elems == (uint32_t)in_n && t.length == in_len && T.total == in_n && tbl_has(&t, in_k), "lru_table_lookup: does not modify the table");
  CANARY();
}

/* ========================================================== lru.tbl_insert */
void h_tbl_insert(void) {
  lru_table_t t; lru_handle_t *h, *old, **old_list; int oi, i, any = 0; uint32_t want_len;
  const uint32_t in_len = LRU_LEN; int in_n = pick_n(); IN_INT(in_k);
  ASSUME((uint32_t)in_n <= in_len);                /* table invariant: elems <= length */
  build_table(&t, in_len, in_n, LRU_K, 1);
  old_list = t.list;
  h = mk_handle(LRU_K);
  h->next = NULL;                                  /* lru_handle_key's (compiled out) assert reads it */
  G[LRU_N] = h; snap(LRU_N);
  for (i = 0; i < LRU_N; i++) if (i < in_n && same_key(G[i], h)) any = 1;

  old = lru_table_insert(&t, h);

  oi = idx_of(old);
  CHECK(old == NULL || (oi >= 0 && oi < in_n), "lru_table_insert: returns NULL or a handle that was in the table");
  CHECK(old == NULL || same_key(old, h), "lru_table_insert: the returned old handle has exactly the new handle's key");
  CHECK(any == (old != NULL), "lru_table_insert: an existing handle with the same key is always found and returned");
  CHECK(t.elems == (uint32_t)in_n + (old == NULL ? 1u : 0u), "lru_table_insert: elems grows by one exactly when no handle was replaced");
  tbl_scan(&t);
  CHECK(!T.bad && T.total == (int)t.elems, "lru_table_insert: chains well formed, elems equals the number of chained handles");
  CHECK(tbl_has(&t, LRU_N), "lru_table_insert: the new handle is chained exactly once, in bucket hash & (length-1)");
  CHECK(old == NULL || tbl_hasnt(oi), "lru_table_insert: the replaced handle is no longer chained");
  if (in_n > 0) {
    ASSUME(in_k >= 0 && in_k < in_n);
    CHECK(G[in_k] == old || tbl_has(&t, in_k), "lru_table_insert: every other handle stays chained exactly once in its bucket");
  }
  /* resize policy: average chain length <= 1 */
  want_len = in_len;
  if (old == NULL && (uint32_t)in_n + 1 > in_len) { want_len = 4; while (want_len < (uint32_t)in_n + 1) want_len *= 2; }
  CHECK(t.length == want_len && t.elems <= t.length, "lru_table_insert: the table is resized exactly when elems exceeds length");
  CHECK((t.length == in_len) == (t.list == old_list), "lru_table_insert: bucket array replaced only by a resize");
  CHECK(X.frees == (t.list != old_list ? 1 : 0) && (X.frees == 0 || X.freed[0] == (void *)old_list), "lru_table_insert: frees only the old bucket array, never a handle");
  CANARY();
}

/* ========================================================== lru.tbl_remove */
void h_tbl_remove(void) {
  lru_table_t t; ldb_slice_t key; uint8_t *kd; lru_handle_t *res, **old_list; int ri;
  const uint32_t in_len = LRU_LEN; int in_n = pick_n(); IN_SIZE(in_klen); IN_U32(in_hash); IN_INT(in_k);
  ASSUME(in_klen <= LRU_K);
  build_table(&t, in_len, in_n, LRU_K, 1);
  old_list = t.list;
  kd = mk_key(in_klen, LRU_K);
  key.data = kd; key.size = in_klen; key.alloc = 0;

  res = lru_table_remove(&t, &key, in_hash);

  ri = idx_of(res);
  CHECK(res == NULL || (ri >= 0 && ri < in_n), "lru_table_remove: NULL or a handle of the table");
  CHECK(res == NULL || key_is(res, in_hash, kd, in_klen), "lru_table_remove: removes only a handle with exactly the key asked for");
  tbl_scan(&t);
  CHECK(t.elems == (uint32_t)in_n - (res != NULL ? 1u : 0u) && !T.bad && T.total == (int)t.elems, "lru_table_remove: elems shrinks by one exactly when a handle was removed, and equals the number of chained handles");
  CHECK(res == NULL || tbl_hasnt(ri), "lru_table_remove: the removed handle is no longer chained");
  ASSUME(in_k >= 0 && in_k < in_n);
  CHECK(!key_is(G[in_k], in_hash, kd, in_klen) || res == G[in_k], "lru_table_remove: a present key is always removed");
  CHECK(G[in_k] == res || tbl_has(&t, in_k), "lru_table_remove: every other handle stays chained exactly once in its bucket");
  CHECK(t.length == in_len && t.list == old_list && X.frees == 0, "lru_table_remove: bucket array kept, nothing freed");
  CANARY();
}

/* ========================================================== lru.tbl_resize */
void h_tbl_resize(void) {
  lru_table_t t; lru_handle_t **old_list; int i; uint32_t want = 4;
  const uint32_t in_len = LRU_LEN; int in_n = pick_n(); IN_INT(in_k);
  if (in_len == 0) {                               /* lru_table_init: no bucket array yet */
    ASSUME(in_n == 0);
    ghost_reset();
    for (i = 0; i < LRU_M; i++) G[i] = NULL;
    t.length = 0; t.elems = 0; t.list = NULL; g_n = 0;
  } else {
    build_table(&t, in_len, in_n, 0, 0);           /* keys play no role in a resize: empty keys, hashes symbolic */
  }
  old_list = t.list;

  lru_table_resize(&t);

  while (want < (uint32_t)in_n) want *= 2;
  CHECK(t.length == want && is_pow2(t.length) && t.length >= 4 && t.length >= t.elems, "lru_table_resize: new length = smallest power of two >= max(4, elems)");
  CHECK(t.elems == (uint32_t)in_n, "lru_table_resize: elems unchanged");
  tbl_scan(&t);
  CHECK(!T.bad && T.total == in_n, "lru_table_resize: no handle lost, none duplicated");
  if (in_n > 0) {
    ASSUME(in_k >= 0 && in_k < in_n);
    CHECK(tbl_has(&t, in_k), "lru_table_resize: every handle lands exactly once in bucket hash & (new_length-1)");
  }
  CHECK(X.mallocs == 1 && t.list == (lru_handle_t **)X.last_malloc && X.last_malloc_n == (size_t)t.length * sizeof(lru_handle_t *), "lru_table_resize: bucket array of new_length pointers");
  CHECK(X.frees == (old_list != NULL ? 1 : 0) && (old_list == NULL || X.freed[0] == (void *)old_list), "lru_table_resize: the old bucket array is freed exactly once, no handle is freed");
  CANARY();
}

/* ###################################################################### shard level
 *
 * Representation invariant (check_rep):
 *   - hash chains and the two circular lists are well formed and contain only live handles the harness knows
 *   - a handle with in_cache == 1 is in the hash table exactly once (in the bucket of its hash) and on exactly one
 *     list: the LRU list iff refs == 1, the in-use list iff refs >= 2
 *   - a handle with in_cache == 0 is in neither and has refs >= 1 (a client still holds it)
 *   - table.elems == number of in_cache handles; usage == sum of their charges
 */
static lru_shard_t g_shard;
#define SH (&g_shard)
static struct lst_scan { int cnt[2][LRU_M]; int pos[2][LRU_M]; int len[2]; int bad[2]; } L;

#pragma CPROVER check push
#pragma CPROVER check disable "pointer"
#pragma CPROVER check disable "pointer-primitive"
#pragma CPROVER check disable "pointer-overflow"
#pragma CPROVER check disable "bounds"
/* next/prev of a list node WITHOUT dereferencing a pointer that may point into g_shard at a symbolic offset
 * (CBMC turns such an access into a byte-level operation on the whole shard struct): the two list heads are read
 * as members, handles through the harness's own table G[] */
static const lru_handle_t *nxt(const lru_handle_t *p) {
  int i;
  if (p == &SH->list) return SH->list.next;
  if (p == &SH->in_use) return SH->in_use.next;
  i = idx_of(p);
  return i >= 0 ? HF(i, next) : NULL;
}
static const lru_handle_t *prv(const lru_handle_t *p) {
  int i;
  if (p == &SH->list) return SH->list.prev;
  if (p == &SH->in_use) return SH->in_use.prev;
  i = idx_of(p);
  return i >= 0 ? HF(i, prev) : NULL;
}
static void lst_scan(const lru_handle_t *head, int w) {
  const lru_handle_t *p = head, *q; int s, i, closed = 0;
  for (i = 0; i < LRU_M; i++) { L.cnt[w][i] = 0; L.pos[w][i] = -1; }
  L.len[w] = 0; L.bad[w] = 0;
  for (s = 0; s < LRU_M + 1; s++) if (!closed && !L.bad[w]) {
    q = nxt(p);
    if (q == head) { if (prv(q) != p) L.bad[w] = 1; closed = 1; }
    else {
      i = idx_of(q);
      if (i < 0 || was_freed(q) || HF(i, prev) != p) L.bad[w] = 1;
      else { L.cnt[w][i]++; L.pos[w][i] = s; L.len[w]++; p = q; }
    }
  }
  if (!closed) L.bad[w] = 1;
}
#pragma CPROVER check pop

static void check_rep(void) {
  int i, ncache = 0, ok_c = 1, ok_d = 1; size_t sum = 0;
  tbl_scan(&SH->table); lst_scan(&SH->list, 0); lst_scan(&SH->in_use, 1);
  CHECK(!T.bad, "rep: hash chains are NULL terminated and hold only live handles");
  CHECK(!L.bad[0] && !L.bad[1], "rep: LRU list and in-use list are circular, prev/next consistent, and hold only live handles");
  for (i = 0; i < LRU_M; i++) if (G[i] != NULL && !was_freed(G[i])) {
    const lru_handle_t *h = G[i];
    if (h->in_cache) {
      ncache++; sum += h->charge;
      if (!(T.cnt[i] == 1 && T.bkt[i] == (h->hash & (SH->table.length - 1)))) ok_c = 0;
      if (h->refs == 1) { if (!(L.cnt[0][i] == 1 && L.cnt[1][i] == 0)) ok_c = 0; }
      else if (!(h->refs >= 2 && L.cnt[1][i] == 1 && L.cnt[0][i] == 0)) ok_c = 0;
    } else if (!(T.cnt[i] == 0 && L.cnt[0][i] == 0 && L.cnt[1][i] == 0 && h->refs >= 1)) ok_d = 0;
  }
  CHECK(ok_c, "rep: every in_cache handle is in the hash table exactly once (bucket of its hash) and on exactly one list: LRU iff refs == 1, in-use iff refs >= 2");
  CHECK(ok_d, "rep: a handle that is not in_cache is in neither the table nor a list and is still referenced");
  CHECK(SH->table.elems == (uint32_t)ncache && T.total == ncache && L.len[0] + L.len[1] == ncache, "rep: table and lists hold exactly the in_cache handles");
  CHECK(SH->usage == sum, "rep: usage == sum of the charges of the in_cache handles");
  CHECK(is_pow2(SH->table.length) && SH->table.elems <= SH->table.length, "rep: table length is a power of two >= elems");
}

/* NOTE: snapshots are copied to a local before their key bytes are compared: a pointer into S[] at a symbolic
 * index makes CBMC read S through a byte-level view of the whole array (measured: wrong byte values). */
/* handle j is exactly as it was */
static int unchanged(int j) {
  struct lru_snap s = S[j];
  if (was_freed(G[j])) return 0;
  return HF(j, refs) == s.refs && HF(j, in_cache) == s.in_cache && HF(j, charge) == s.charge && HF(j, hash) == s.hash &&
         HF(j, key_length) == s.klen && HF(j, value) == s.value && HF(j, deleter) == model_deleter &&
#if LRU_K <= 1
         (s.klen == 0 || HF(j, key_data[0]) == s.key[0]);
#else
         bytes_eq(G[j]->key_data, s.key, s.klen);
#endif
}
/* number of deleter calls for handle j (values are distinct cookies); *keyok: the last one got j's key */
static int del_calls(int j, int *keyok) {
  int c, n = 0; struct lru_snap s = S[j];
  *keyok = 0;
  for (c = 0; c < LRU_M + 2; c++) if (c < X.dels && X.del_value[c] == s.value) {
    n++; *keyok = (X.del_klen[c] == s.klen && bytes_eq(X.del_key[c], s.key, s.klen));
  }
  return n;
}
/* handle j went through unref-to-zero: deleter called exactly once with its key and value, then freed exactly once */
static int destroyed(int j) {
  int keyok, n = del_calls(j, &keyok), c, f, order = 1; struct lru_snap s = S[j];
  for (c = 0; c < LRU_M + 2; c++) for (f = 0; f < LRU_M + 2; f++)
    if (c < X.dels && f < X.frees && X.del_value[c] == s.value && X.freed[f] == (void *)G[j] && X.del_t[c] > X.free_t[f]) order = 0;
  return was_freed(G[j]) == 1 && n == 1 && keyok && order;      /* order: the deleter saw the entry before it was freed */
}
static int not_destroyed(int j) {
  int keyok, n = del_calls(j, &keyok);
  return was_freed(G[j]) == 0 && n == 0;
}
/* handle j was taken out of the cache (lru_shard_finish): destroyed if the cache held the only reference,
 * otherwise detached with one reference less */
static int finished(int j) {
  struct lru_snap s = S[j];
  if (s.refs == 1) return destroyed(j);
  return not_destroyed(j) && HF(j, in_cache) == 0 && HF(j, refs) == s.refs - 1 && HF(j, value) == s.value && HF(j, key_length) == s.klen;
}
static int mutex_ok(void) {
  return X.locks == 1 && X.unlocks == 1 && X.last == &SH->mutex && X.held == NULL && !X.lock_err && !X.guard_err;
}

static const uint8_t PERM3[6][3] = {{0,1,2},{0,2,1},{1,0,2},{1,2,0},{2,0,1},{2,1,0}};

/* pre-state: in_n cached handles (table + lists + usage consistent), optionally one detached handle */
static void build_shard(int n, int detached) {
  int i, j, p = nondet_int();
  __CPROVER_assume(p >= 0 && p < 6);
  build_table(&SH->table, LRU_LEN, n, LRU_K, 1);
  SH->capacity = nondet_size(); SH->usage = 0;
  SH->list.next = SH->list.prev = &SH->list;
  SH->in_use.next = SH->in_use.prev = &SH->in_use;
  for (i = 0; i < LRU_N; i++) if (i < n) {
    G[i]->refs = nondet_u32();
    __CPROVER_assume(G[i]->refs >= 1 && G[i]->refs < 0x80000000u);
    __CPROVER_assume(G[i]->charge < ((size_t)1 << 60));
    SH->usage += G[i]->charge;
  }
  /* list order: an arbitrary permutation of the handles (LRU order is independent of hash chain order).
   * The lists are linked with member writes on the heads (no symbolic pointer into g_shard). */
  {
    lru_handle_t *last[2] = {NULL, NULL};
    for (j = 0; j < 3; j++) {
#if LRU_N == 3 && !defined(LRU_NOPERM)
      i = PERM3[p][j];
#else
      i = j;
#endif
      if (i < n && i < LRU_N) {
        lru_handle_t *e = G[i];
        if (e->refs == 1) {
          if (last[0] == NULL) { SH->list.next = e; e->prev = &SH->list; } else { last[0]->next = e; e->prev = last[0]; }
          last[0] = e;
        } else {
          if (last[1] == NULL) { SH->in_use.next = e; e->prev = &SH->in_use; } else { last[1]->next = e; e->prev = last[1]; }
          last[1] = e;
        }
      }
    }
    if (last[0] != NULL) { last[0]->next = &SH->list; SH->list.prev = last[0]; }
    if (last[1] != NULL) { last[1]->next = &SH->in_use; SH->in_use.prev = last[1]; }
  }
  lst_scan(&SH->list, 0);
  for (i = 0; i < LRU_N; i++) if (i < n) { snap(i); S[i].lru_pos = L.pos[0][i]; }
  if (detached) {
    lru_handle_t *d = mk_handle(LRU_K);
    d->in_cache = 0; d->refs = nondet_u32(); d->value = &g_val[I_DET];
    __CPROVER_assume(d->refs >= 1 && d->refs < 0x80000000u);
    G[I_DET] = d; snap(I_DET); S[I_DET].lru_pos = -1;
  }
  X.guard = 1;
}

/* LRU order of the handles that stay on the LRU list is preserved (ghost pair a, b) */
static int order_kept(int a, int b) {
  if (S[a].lru_pos < 0 || S[b].lru_pos < 0 || L.pos[0][a] < 0 || L.pos[0][b] < 0) return 1;
  return (S[a].lru_pos < S[b].lru_pos) == (L.pos[0][a] < L.pos[0][b]) || a == b;
}

/* ============================================================== lru.lookup */
void h_lookup(void) {
  ldb_slice_t key; uint8_t *kd; lru_handle_t *e; int ei, in_n = pick_n(); size_t usage0;
  IN_SIZE(in_klen); IN_U32(in_hash); IN_INT(in_k); IN_INT(in_j);
  ASSUME(in_klen <= LRU_K);
  build_shard(in_n, 0);
  usage0 = SH->usage;
  kd = mk_key(in_klen, LRU_K);
  key.data = kd; key.size = in_klen; key.alloc = 0;

  e = lru_shard_lookup(SH, &key, in_hash);

  ei = idx_of(e);
  CHECK(e == NULL || (ei >= 0 && ei < in_n), "lru_shard_lookup: NULL or a handle of this cache");
  CHECK(e == NULL || key_is(e, in_hash, kd, in_klen), "lru_shard_lookup: a returned entry is stored under EXACTLY the key asked for");
  CHECK(e == NULL || (e->refs == S[ei].refs + 1 && e->in_cache == 1 && e->value == S[ei].value && e->charge == S[ei].charge), "lru_shard_lookup: takes one reference on the returned entry and nothing else");
  check_rep();
  CHECK(SH->usage == usage0 && SH->table.elems == (uint32_t)in_n && X.frees == 0 && X.dels == 0 && X.mallocs == 0, "lru_shard_lookup: nothing evicted, freed or allocated");
  CHECK(mutex_ok(), "lru_shard_lookup: runs under the shard mutex, released on return");
  if (in_n > 0) {
    ASSUME(in_k >= 0 && in_k < in_n && in_j >= 0 && in_j < in_n);
    CHECK(!key_is(G[in_k], in_hash, kd, in_klen) || e == G[in_k], "lru_shard_lookup: a cached key is always found");
    CHECK(G[in_k] == e || unchanged(in_k), "lru_shard_lookup: every other entry is untouched");
    CHECK(order_kept(in_k, in_j), "lru_shard_lookup: LRU order of the remaining unreferenced entries is preserved");
  }
  CANARY();
}

/* ================================================================= lru.ref */
void h_ref(void) {
  lru_handle_t *e; int in_n = pick_n(); size_t usage0;
  IN_INT(in_k); IN_INT(in_j); IN_INT(in_i);
  build_shard(in_n, 1);
  X.guard = 0;
  usage0 = SH->usage;
  ASSUME((in_k >= 0 && in_k < in_n) || in_k == I_DET);
  e = G[in_k];

  lru_shard_ref(SH, e);

  CHECK(e->refs == S[in_k].refs + 1 && e->in_cache == S[in_k].in_cache, "lru_shard_ref: exactly one more reference");
  check_rep();                                   /* => moved from the LRU list to the in-use list when refs went 1 -> 2 */
  CHECK(SH->usage == usage0 && X.frees == 0 && X.dels == 0 && X.locks == 0, "lru_shard_ref: nothing else changes");
  ASSUME((in_j >= 0 && in_j < in_n) || in_j == I_DET);
  CHECK(in_j == in_k || unchanged(in_j), "lru_shard_ref: every other entry is untouched");
  ASSUME(in_i >= 0 && in_i < in_n && in_j != I_DET);
  CHECK(order_kept(in_i, in_j), "lru_shard_ref: LRU order of the remaining unreferenced entries is preserved");
  CANARY();
}

/* ================================================= lru.release / lru.unref */
void h_release(void) {
  lru_handle_t *e; int in_n = pick_n(); size_t usage0;
  IN_INT(in_k); IN_INT(in_j); IN_INT(in_i);
  build_shard(in_n, 1);
  usage0 = SH->usage;
  ASSUME((in_k >= 0 && in_k < in_n) || in_k == I_DET);
  e = G[in_k];
  ASSUME(!e->in_cache || e->refs >= 2);           /* the caller holds a reference; the cache holds its own while in_cache */

#ifdef LRU_DIRECT
  X.guard = 0;
  lru_shard_unref(SH, e);
  CHECK(X.locks == 0 && X.unlocks == 0, "lru_shard_unref: does not touch the mutex");
#else
  lru_shard_release(SH, e);
  CHECK(mutex_ok(), "lru_shard_release: runs under the shard mutex, released on return");
#endif

  if (S[in_k].refs == 1) {
    CHECK(destroyed(in_k), "unref: the last reference is gone: deleter called exactly once with the entry's key and value, entry freed exactly once");
    CHECK(X.frees == 1 && X.dels == 1, "unref: nothing else is destroyed");
  } else {
    CHECK(not_destroyed(in_k) && X.frees == 0 && X.dels == 0, "unref: an entry that is still referenced is neither passed to the deleter nor freed");
    CHECK(e->refs == S[in_k].refs - 1 && e->in_cache == S[in_k].in_cache && e->value == S[in_k].value, "unref: exactly one reference less");
    CHECK(!(e->in_cache && e->refs == 1) || SH->list.prev == e, "unref: an entry only the cache references becomes the NEWEST entry of the LRU list");
  }
  check_rep();
  CHECK(SH->usage == usage0 && SH->table.elems == (uint32_t)in_n, "unref: cache content and usage unchanged");
  ASSUME((in_j >= 0 && in_j < in_n) || in_j == I_DET);
  CHECK(in_j == in_k || unchanged(in_j), "unref: every other entry is untouched");
  ASSUME(in_i >= 0 && in_i < in_n && in_j != I_DET);
  CHECK(order_kept(in_i, in_j), "unref: LRU order of the other unreferenced entries is preserved");
  CANARY();
}

/* ============================================================== lru.finish */
void h_finish(void) {
  lru_handle_t *e, *r; ldb_slice_t key; int in_n = pick_n(), rc; size_t usage0;
  IN_INT(in_k); IN_INT(in_j); IN_INT(in_i); IN_INT(in_null);
  build_shard(in_n, 0);
  X.guard = 0;
  usage0 = SH->usage;
  if (in_null || in_n == 0) {
    rc = lru_shard_finish(SH, NULL);
    CHECK(rc == 0, "lru_shard_finish(NULL): returns 0");
    check_rep();
    CHECK(SH->usage == usage0 && X.frees == 0 && X.dels == 0, "lru_shard_finish(NULL): nothing changes");
    if (in_n > 0) { ASSUME(in_j >= 0 && in_j < in_n); CHECK(unchanged(in_j), "lru_shard_finish(NULL): no entry is touched"); }
  } else {
    ASSUME(in_k >= 0 && in_k < in_n);
    e = G[in_k];
    key.data = e->key_data; key.size = e->key_length; key.alloc = 0;
    r = lru_table_remove(&SH->table, &key, e->hash);           /* precondition of finish: already out of the hash table */
    CHECK(r == e, "lru_table_remove: removes the entry stored under the key");

    rc = lru_shard_finish(SH, e);

    CHECK(rc == 1, "lru_shard_finish: returns 1 for an entry");
    CHECK(finished(in_k), "lru_shard_finish: the cache's reference is dropped: entry destroyed (deleter once, freed once) iff that was the last one, else in_cache = 0 and one reference less");
    CHECK(X.frees == (S[in_k].refs == 1 ? 1 : 0) && X.dels == X.frees, "lru_shard_finish: nothing else is destroyed");
    CHECK(SH->usage == usage0 - S[in_k].charge, "lru_shard_finish: usage decreases by exactly the entry's charge");
    check_rep();
    ASSUME(in_j >= 0 && in_j < in_n && in_i >= 0 && in_i < in_n);
    CHECK(in_j == in_k || unchanged(in_j), "lru_shard_finish: every other entry is untouched");
    CHECK(order_kept(in_i, in_j), "lru_shard_finish: LRU order of the other entries is preserved");
  }
  CHECK(X.locks == 0, "lru_shard_finish: does not touch the mutex");
  CANARY();
}

/* =============================================================== lru.erase */
void h_erase(void) {
  ldb_slice_t key; uint8_t *kd; int in_n = pick_n(), i, hit = -1; size_t usage0;
  IN_SIZE(in_klen); IN_U32(in_hash); IN_INT(in_j); IN_INT(in_i);
  ASSUME(in_klen <= LRU_K);
  build_shard(in_n, 0);
  usage0 = SH->usage;
  kd = mk_key(in_klen, LRU_K);
  key.data = kd; key.size = in_klen; key.alloc = 0;
  for (i = 0; i < LRU_N; i++) if (i < in_n && key_is(G[i], in_hash, kd, in_klen)) hit = i;

  lru_shard_erase(SH, &key, in_hash);

  CHECK(mutex_ok(), "lru_shard_erase: runs under the shard mutex, released on return");
  if (hit >= 0) {
    CHECK(finished(hit), "lru_shard_erase: the entry under the key leaves the cache: destroyed iff unreferenced, else detached with one reference less");
    CHECK(SH->usage == usage0 - S[hit].charge && SH->table.elems == (uint32_t)in_n - 1, "lru_shard_erase: usage and element count drop by that entry");
  } else {
    CHECK(SH->usage == usage0 && SH->table.elems == (uint32_t)in_n, "lru_shard_erase: an absent key changes nothing");
  }
  CHECK(X.frees == ((hit >= 0 && S[hit].refs == 1) ? 1 : 0) && X.dels == X.frees, "lru_shard_erase: at most the erased entry is destroyed");
  check_rep();
  if (in_n > 0) {
    ASSUME(in_j >= 0 && in_j < in_n && in_i >= 0 && in_i < in_n);
    CHECK(in_j == hit || unchanged(in_j), "lru_shard_erase: every entry under a different key is untouched");
    CHECK(order_kept(in_i, in_j), "lru_shard_erase: LRU order of the other entries is preserved");
  }
  CANARY();
}

/* =============================================================== lru.prune */
void h_prune(void) {
  int in_n = pick_n(), i, nlru = 0; size_t keep = 0;
  IN_INT(in_j);
  build_shard(in_n, 0);
  for (i = 0; i < LRU_N; i++) if (i < in_n) { if (S[i].refs == 1) nlru++; else keep += S[i].charge; }

  lru_shard_prune(SH);

  CHECK(mutex_ok(), "lru_shard_prune: runs under the shard mutex, released on return");
  CHECK(SH->list.next == &SH->list && SH->list.prev == &SH->list, "lru_shard_prune: the LRU list is empty afterwards");
  CHECK(X.frees == nlru && X.dels == nlru, "lru_shard_prune: exactly the unreferenced entries are destroyed");
  CHECK(SH->usage == keep && SH->table.elems == (uint32_t)(in_n - nlru), "lru_shard_prune: usage and element count are those of the in-use entries");
  check_rep();
  if (in_n > 0) {
    ASSUME(in_j >= 0 && in_j < in_n);
    CHECK(S[in_j].refs == 1 ? destroyed(in_j) : unchanged(in_j), "lru_shard_prune: an unreferenced entry is destroyed (deleter once with its key and value), an entry in use is untouched");
  }
  CANARY();
}

/* ============================================================== lru.insert */
/* call lru_shard_insert on the built pre-state (in_n cached handles) and check its whole effect */
static void insert_run(int in_n, uint8_t *kd, size_t in_klen, uint32_t in_hash, size_t in_charge, int in_j, int in_i) {
  ldb_slice_t key; lru_handle_t *e; int i, same = -1, nfreed = 0, last = -1;
  key.data = kd; key.size = in_klen; key.alloc = 0;
  for (i = 0; i < LRU_N; i++) if (i < in_n && key_is(G[i], in_hash, kd, in_klen)) same = i;

  X.next_is_handle = 1;
  e = lru_shard_insert(SH, &key, in_hash, &g_val[I_NEW], in_charge, model_deleter);

  CHECK(mutex_ok(), "lru_shard_insert: runs under the shard mutex, released on return");
  CHECK(e != NULL && idx_of(e) < 0 && X.mallocs >= 1 && e == (lru_handle_t *)X.mal[0] && !was_freed(e), "lru_shard_insert: returns a freshly allocated, live handle");
#ifdef LRU_TYPED
  CHECK(X.handle_n >= offsetof(lru_handle_t, key_data) + in_klen, "lru_shard_insert: the allocation has room for the handle header and the whole key");
#endif
  G[I_NEW] = (lru_handle_t *)X.mal[0]; e = G[I_NEW]; snap(I_NEW); S[I_NEW].lru_pos = -1;
  CHECK(e->value == (void *)&g_val[I_NEW] && e->deleter == model_deleter && e->charge == in_charge && e->hash == in_hash, "lru_shard_insert: the handle carries the caller's value, deleter, charge and hash");
  CHECK(e->key_length == in_klen && bytes_eq(e->key_data, kd, in_klen), "lru_shard_insert: the handle carries a copy of the key");
  if (SH->capacity == 0) {
    CHECK(e->in_cache == 0 && e->refs == 1, "lru_shard_insert: capacity 0 turns caching off: the entry belongs to the caller alone");
    CHECK(SH->usage == 0 && SH->table.elems == 0 && X.frees == 0 && X.dels == 0, "lru_shard_insert: capacity 0: the cache stays empty");
  } else {
    CHECK(e->in_cache == 1 && e->refs == 2, "lru_shard_insert: the new entry is cached with two references (cache + caller)");
    CHECK(same < 0 || finished(same), "lru_shard_insert: an entry under the same key is replaced: it leaves the cache (destroyed iff unreferenced, else detached)");
    /* termination condition of the eviction */
    CHECK(SH->usage <= SH->capacity || SH->list.next == &SH->list, "lru_shard_insert: afterwards usage <= capacity, or nothing evictable is left");
  }
  check_rep();                                     /* => new entry on the in-use list and in the table; usage == sum of cached charges */
  for (i = 0; i < LRU_N; i++) if (i < in_n && was_freed(G[i])) { nfreed++; if (i != same && (last < 0 || S[i].lru_pos > S[last].lru_pos)) last = i; }
  CHECK(X.dels == nfreed && X.frees == nfreed + (X.mallocs == 2 ? 1 : 0), "lru_shard_insert: the deleter runs exactly once per destroyed entry; besides entries only a resized bucket array is freed");
  if (in_n > 0) {
    ASSUME(in_j >= 0 && in_j < in_n && in_i >= 0 && in_i < in_n);
    if (in_j != same) {
      CHECK(S[in_j].refs == 1 || unchanged(in_j), "lru_shard_insert: an entry in use (refs >= 2) under another key is NEVER evicted or touched");
      CHECK(unchanged(in_j) || destroyed(in_j), "lru_shard_insert: an unreferenced entry under another key is either kept untouched or evicted (deleter once, freed once)");
      /* LRU policy: evictions take the oldest first */
      CHECK(!(was_freed(G[in_j]) && in_i != same && S[in_i].refs == 1 && S[in_i].lru_pos < S[in_j].lru_pos) || was_freed(G[in_i]), "lru_shard_insert: eviction goes in LRU order (everything older than an evicted entry is evicted too)");
    }
    CHECK(order_kept(in_i, in_j), "lru_shard_insert: LRU order of the surviving entries is preserved");
    /* no needless eviction: before the youngest evicted entry went, usage still exceeded the capacity */
    CHECK(last < 0 || SH->usage + S[last].charge > SH->capacity, "lru_shard_insert: evicts only while usage exceeds capacity");
  }
}

/* fully symbolic pre-state (parked: see lru.json) */
void h_insert(void) {
  uint8_t *kd; int in_n = pick_n();
  IN_SIZE(in_klen); IN_U32(in_hash); IN_SIZE(in_charge); IN_INT(in_j); IN_INT(in_i);
  ASSUME(in_klen <= LRU_K);
  ASSUME(in_charge < ((size_t)1 << 60));
  build_shard(in_n, 0);
  ASSUME(SH->capacity > 0 || in_n == 0);           /* capacity is fixed at creation: a cache of capacity 0 never holds an entry */
  kd = mk_key(in_klen, LRU_K);
  insert_run(in_n, kd, in_klen, in_hash, in_charge, in_j, in_i);
  CANARY();
}

/* ------------------------------------------------------------------ scenarios
 * lru_shard_insert and lru_shard_prune loop over entries; with a symbolic heap SHAPE CBMC's points-to sets merge
 * the two list heads (both inside the shard struct) and every access turns into byte-level reasoning about the
 * whole shard (measured: > 50 M clauses for two loop iterations).  The loop units therefore run on pre-states whose
 * SHAPE is concrete per scenario - which handles are in use (mask), LRU order (perm), bucket pattern (pat), which
 * existing key the new key equals (match) - while charges, capacity, reference counts >= 2, and the choice of the
 * scenario are symbolic.  Symbolic hashes/keys are covered at the table level (lru.find .. lru.tbl_remove) and by
 * the single-operation shard units (lru.lookup, lru.erase, lru.finish).
 *   pat 0: every handle in its own bucket      (hash i      -> bucket i; the new key: bucket 3 or that of `match`)
 *   pat 1: all in one bucket, different hashes (hash 4*i + 1)
 *   pat 2: all in one bucket with the SAME hash, keys differ in their byte */
static uint32_t scen_hash(int pat, int i) { return pat == 0 ? (uint32_t)i : pat == 1 ? (uint32_t)(4 * i + 1) : 7u; }

static void build_shard_scen(int n, int mask, int perm, int pat) {
  int i, j;
  lru_handle_t *last[2] = {NULL, NULL};
  ghost_reset();
  X.statics = 1;
  for (i = 0; i < LRU_M; i++) G[i] = NULL;
  for (i = 0; i < 8; i++) { ARR0[i] = NULL; ARR1[i] = NULL; }
  SH->table.length = LRU_LEN; SH->table.elems = 0; SH->table.list = ARR0; g_list0 = ARR0;
  g_n = n;
  SH->capacity = nondet_size(); SH->usage = 0;
  SH->list.next = SH->list.prev = &SH->list;
  SH->in_use.next = SH->in_use.prev = &SH->in_use;
  for (i = 0; i < LRU_N; i++) if (i < n) {
    lru_handle_t *h = &HB[i];
    h->key_length = 1; h->key_data[0] = (uint8_t)(i + 1); h->hash = scen_hash(pat, i);
    h->charge = nondet_size(); __CPROVER_assume(h->charge < ((size_t)1 << 60));
    h->in_cache = 1; h->value = &g_val[i]; h->deleter = model_deleter; h->next = h->prev = NULL;
    if ((mask >> i) & 1) { h->refs = nondet_u32(); __CPROVER_assume(h->refs >= 2 && h->refs < 0x80000000u); } else h->refs = 1;
    G[i] = h;
    tbl_link(&SH->table, h);
    SH->usage += h->charge;
  }
  for (j = 0; j < 3; j++) {
    i = PERM3[perm][j];
    if (i < n && i < LRU_N) {
      lru_handle_t *e = G[i]; int w = (mask >> i) & 1;
      if (w == 0) { if (last[0] == NULL) { SH->list.next = e; e->prev = &SH->list; } else { last[0]->next = e; e->prev = last[0]; } last[0] = e; }
      else { if (last[1] == NULL) { SH->in_use.next = e; e->prev = &SH->in_use; } else { last[1]->next = e; e->prev = last[1]; } last[1] = e; }
    }
  }
  if (last[0] != NULL) { last[0]->next = &SH->list; SH->list.prev = last[0]; }
  if (last[1] != NULL) { last[1]->next = &SH->in_use; SH->in_use.prev = last[1]; }
  lst_scan(&SH->list, 0);
  for (i = 0; i < LRU_N; i++) if (i < n) { snap(i); S[i].lru_pos = L.pos[0][i]; }
  X.guard = 1;
}

/* =========================================================== lru.insert_s* */
/* capacity: symbolic (> 0) unless an existing key is replaced - then the LRU list is modified inside the
 * `if (lru->capacity > 0)` branch and only a concrete capacity lets symex keep the shape concrete afterwards;
 * the charges stay symbolic, so every ordering of usage against the capacity is still covered */
#define SCEN_CAP ((size_t)1 << 40)
static void insert_scen(int n, int mask, int perm, int pat, int match) {
  static uint8_t g_kd[2]; uint8_t *kd = g_kd; uint32_t hash;   /* static: symex keeps the key bytes constant */
  IN_SIZE(in_charge); IN_INT(in_j); IN_INT(in_i);
  ASSUME(in_charge < ((size_t)1 << 60));
  build_shard_scen(n, mask, perm, pat);
  if (match >= 0 || LRU_LEN < 4) SH->capacity = SCEN_CAP;   /* LRU_LEN 2: the resize happens inside that branch, too */
  ASSUME(SH->capacity > 0);
  if (match >= 0) { kd[0] = (uint8_t)(match + 1); hash = scen_hash(pat, match); }
  else { kd[0] = 9; hash = scen_hash(pat, 3); }
  insert_run(n, kd, 1, hash, in_charge, in_j, in_i);
}
#define SC(k, n, mask, perm, pat, match) case k: insert_scen(n, mask, perm, pat, match); break;
void h_insert_s(void) {
  IN_INT(in_scen);
  switch (in_scen) {
#if LRU_SCEN == 0      /* nothing in use: eviction may empty the cache */
  SC(0, 3, 0, 0, 0, -1) SC(1, 3, 0, 3, 1, -1)
#elif LRU_SCEN == 4    /* nothing in use, an unreferenced entry is replaced */
  SC(0, 3, 0, 5, 2, 1) SC(1, 3, 0, 1, 0, 0)
#elif LRU_SCEN == 5    /* LRU_LEN == 2: the insert triggers lru_table_resize (2 -> 4 buckets) */
  SC(0, 2, 0, 0, 1, -1) SC(1, 2, 1, 0, 0, -1) SC(2, 2, 2, 0, 2, -1)
#elif LRU_SCEN == 1    /* mixed: in-use entries between unreferenced ones in every position */
  SC(0, 3, 1, 0, 0, -1) SC(1, 3, 2, 2, 1, -1) SC(2, 3, 4, 4, 2, -1) SC(3, 3, 5, 1, 1, -1)
#elif LRU_SCEN == 2    /* replacement of an in-use / unreferenced entry in a mixed cache; everything in use */
  SC(0, 3, 2, 0, 0, 1) SC(1, 3, 2, 3, 1, 0) SC(2, 3, 7, 0, 2, -1) SC(3, 3, 6, 5, 2, 2)
#elif LRU_SCEN == 3    /* small caches */
  SC(0, 0, 0, 0, 0, -1) SC(1, 1, 0, 0, 0, -1) SC(2, 1, 1, 0, 0, 0) SC(3, 2, 1, 2, 1, 1)
#endif
  default: ASSUME(0);
  }
  CANARY();
}

/* ============================================================ lru.prune_s* */
static void prune_scen(int n, int mask, int perm, int pat) {
  int i, nlru = 0; size_t keep = 0;
  IN_INT(in_j);
  build_shard_scen(n, mask, perm, pat);
  for (i = 0; i < LRU_N; i++) if (i < n) { if (S[i].refs == 1) nlru++; else keep += S[i].charge; }

  lru_shard_prune(SH);

  CHECK(mutex_ok(), "lru_shard_prune: runs under the shard mutex, released on return");
  CHECK(SH->list.next == &SH->list && SH->list.prev == &SH->list, "lru_shard_prune: the LRU list is empty afterwards");
  CHECK(X.frees == nlru && X.dels == nlru, "lru_shard_prune: exactly the unreferenced entries are destroyed");
  CHECK(SH->usage == keep && SH->table.elems == (uint32_t)(n - nlru), "lru_shard_prune: usage and element count are those of the in-use entries");
  check_rep();
  if (n > 0) {
    ASSUME(in_j >= 0 && in_j < n);
    CHECK(S[in_j].refs == 1 ? destroyed(in_j) : unchanged(in_j), "lru_shard_prune: an unreferenced entry is destroyed (deleter once with its key and value), an entry in use is untouched");
  }
}
#define SP(k, n, mask, perm, pat) case k: prune_scen(n, mask, perm, pat); break;
void h_prune_s(void) {
  IN_INT(in_scen);
  switch (in_scen) {
  SP(0, 3, 0, 0, 0) SP(1, 3, 0, 4, 2) SP(2, 3, 1, 1, 1) SP(3, 3, 2, 2, 0) SP(4, 3, 4, 3, 2) SP(5, 3, 3, 5, 1) SP(6, 3, 6, 0, 2) SP(7, 3, 7, 0, 0)
  SP(8, 0, 0, 0, 0) SP(9, 1, 0, 0, 0) SP(10, 2, 2, 0, 1)
  default: ASSUME(0);
  }
  CANARY();
}

/* ###################################################################### cache level (sharding, dispatch) */

/* ========================================================= lru.shard_index */
uint32_t c_lru_shard(uint32_t hash)
__CPROVER_assigns()
/* a pure function of the hash (same key => same shard) that stays inside shard[LDB_SHARDS] */
__CPROVER_ensures(__CPROVER_return_value < LDB_SHARDS)
;
void h_shard_index(void) {
  IN_U32(in_hash);
  (void)ldb_lru_shard(in_hash);
  CANARY();
}

/* ================================================================ lru.hash */
uint32_t c_lru_hash(const ldb_slice_t *s)
__CPROVER_requires(__CPROVER_r_ok(s, sizeof(*s)) && X.hashes == 0)
__CPROVER_assigns(X.hashes, X.hash_data, X.hash_size, X.hash_seed, X.hash_ret)
/* exactly the key's bytes are hashed, once, and the hash function's value is returned unchanged */
__CPROVER_ensures(X.hashes == 1 && X.hash_data == s->data && X.hash_size == s->size && __CPROVER_return_value == X.hash_ret)
;
void h_hash(void) {
  ldb_slice_t s; IN_SIZE(in_klen);
  HK[0].used = 0; HK[1].used = 0;
  X.hashes = 0;
  s.data = malloc(in_klen); s.size = in_klen; s.alloc = 0;
  ASSUME(s.data != NULL);
  (void)ldb_lru_hash(&s);
  CANARY();
}

/* ================================================================== lru.id */
uint64_t c_lru_id(ldb_lru_t *lru)
__CPROVER_requires(__CPROVER_rw_ok(lru, sizeof(*lru)) && X.held == NULL && !X.lock_err && X.locks == 0 && X.unlocks == 0)
__CPROVER_requires(lru->last_id < UINT64_MAX)                       /* 2^64 ids are never handed out */
__CPROVER_assigns(lru->last_id, X.held, X.last, X.locks, X.unlocks, X.lock_err)
/* ids are handed out in strictly increasing order: each call returns a value nobody got before */
__CPROVER_ensures(__CPROVER_return_value == __CPROVER_old(lru->last_id) + 1 && __CPROVER_return_value > __CPROVER_old(lru->last_id) && lru->last_id == __CPROVER_return_value)
/* the counter is read and written under id_mutex, which is released on return */
__CPROVER_ensures(X.locks == 1 && X.unlocks == 1 && X.last == &lru->id_mutex && X.held == NULL && !X.lock_err)
;
void h_id(void) {
  ldb_lru_t *c = malloc(sizeof(*c));
  ASSUME(c != NULL);
  X.held = NULL; X.last = NULL; X.lock_err = 0; X.locks = 0; X.unlocks = 0;
  c->last_id = nondet_u64();
  (void)ldb_lru_id(c);
  CANARY();
}

/* ============================================================ lru.dispatch
 * The four lru_shard_* entry points are swapped for recording models (goto-instrument --replace-calls, see
 * lru.json); what they do is the subject of the shard-level units.  Checked here: every cache operation goes to
 * shard[ldb_lru_shard(hash of the key)], with that hash, the caller's arguments, and hands back the shard's
 * result; release goes to the shard derived from the handle's own hash (= the key's hash, lru.insert_s*). */
static struct lru_disp {
  int calls, which;                 /* which: 1 insert, 2 lookup, 3 release, 4 erase */
  lru_shard_t *shard; const ldb_slice_t *key; uint32_t hash; void *value; size_t charge;
  void (*deleter)(const ldb_slice_t *, void *); lru_handle_t *handle, *ret;
  int prunes; int pruned[LDB_SHARDS]; int prune_foreign;
  ldb_lru_t *cache;
} D;
lru_handle_t *model_shard_insert(lru_shard_t *lru, const ldb_slice_t *key, uint32_t hash, void *value, size_t charge, void (*deleter)(const ldb_slice_t *key, void *value)) {
  D.calls++; D.which = 1; D.shard = lru; D.key = key; D.hash = hash; D.value = value; D.charge = charge; D.deleter = deleter;
  return D.ret;
}
lru_handle_t *model_shard_lookup(lru_shard_t *lru, const ldb_slice_t *key, uint32_t hash) {
  D.calls++; D.which = 2; D.shard = lru; D.key = key; D.hash = hash;
  return D.ret;
}
void model_shard_release(lru_shard_t *lru, lru_handle_t *handle) { D.calls++; D.which = 3; D.shard = lru; D.handle = handle; }
void model_shard_erase(lru_shard_t *lru, const ldb_slice_t *key, uint32_t hash) { D.calls++; D.which = 4; D.shard = lru; D.key = key; D.hash = hash; }
void model_shard_prune(lru_shard_t *lru) {
  int i, hit = 0;
  for (i = 0; i < LDB_SHARDS; i++) if (lru == &D.cache->shard[i]) { D.pruned[i]++; hit = 1; }
  if (!hit) D.prune_foreign = 1;
  D.prunes++;
}

void h_dispatch(void) {
  ldb_lru_t *c = malloc(sizeof(*c)); ldb_slice_t key; lru_handle_t hnd, ret_obj, *r; int i;
  IN_SIZE(in_klen); IN_U32(in_hash); IN_INT(in_op); IN_SIZE(in_charge); IN_INT(in_ret_null);
  ASSUME(c != NULL && in_klen <= LRU_K);
  ghost_reset();
  key.data = mk_key(in_klen, LRU_K); key.size = in_klen; key.alloc = 0;
  HK[0].used = 1; HK[0].n = in_klen; HK[0].v = in_hash; HK[1].used = 0;       /* hash(key) = in_hash, arbitrary */
  for (i = 0; i < LRU_K + 1; i++) HK[0].b[i] = (size_t)i < in_klen ? key.data[i] : 0;
  D.calls = 0; D.which = 0; D.shard = NULL; D.key = NULL; D.hash = ~in_hash; D.handle = NULL; D.value = NULL; D.charge = ~in_charge; D.deleter = NULL;
  D.ret = in_ret_null ? NULL : &ret_obj; D.cache = c; D.prunes = 0; D.prune_foreign = 0;
  for (i = 0; i < LDB_SHARDS; i++) D.pruned[i] = 0;
  hnd.hash = in_hash;                               /* lru.insert_s*: a handle carries the hash of its key */
  ASSUME(in_op >= 1 && in_op <= 5);
  if (in_op == 1) {
    r = ldb_lru_insert(c, &key, &g_val[0], in_charge, model_deleter);
    CHECK(D.calls == 1 && D.which == 1 && r == D.ret, "ldb_lru_insert: exactly one lru_shard_insert, its handle is returned");
    CHECK(D.value == (void *)&g_val[0] && D.charge == in_charge && D.deleter == model_deleter, "ldb_lru_insert: value, charge and deleter are passed through");
  } else if (in_op == 2) {
    r = ldb_lru_lookup(c, &key);
    CHECK(D.calls == 1 && D.which == 2 && r == D.ret, "ldb_lru_lookup: exactly one lru_shard_lookup, its result (handle or NULL) is returned");
  } else if (in_op == 3) {
    ldb_lru_release(c, &hnd);
    CHECK(D.calls == 1 && D.which == 3 && D.handle == &hnd, "ldb_lru_release: exactly one lru_shard_release of that handle");
  } else if (in_op == 4) {
    ldb_lru_erase(c, &key);
    CHECK(D.calls == 1 && D.which == 4, "ldb_lru_erase: exactly one lru_shard_erase");
  } else {
    ldb_lru_prune(c);
    CHECK(D.prunes == LDB_SHARDS && !D.prune_foreign && D.calls == 0, "ldb_lru_prune: prunes shards of this cache only");
    for (i = 0; i < LDB_SHARDS; i++) CHECK(D.pruned[i] == 1, "ldb_lru_prune: every shard exactly once");
  }
  if (in_op <= 4) {
    /* one shard per hash value: insert, lookup, erase and release of the same key all meet in the same shard */
    CHECK(ldb_lru_shard(in_hash) < LDB_SHARDS && D.shard == &c->shard[ldb_lru_shard(in_hash)], "dispatch: the operation runs on shard[ldb_lru_shard(hash of the key)] of this cache");
    CHECK(in_op == 3 || (D.key == &key && D.hash == in_hash), "dispatch: the shard gets the caller's key and the hash of exactly that key");
    CHECK(in_op == 3 || (X.hashes == 1 && X.hash_data == key.data && X.hash_size == key.size), "dispatch: the key is hashed once, over all its bytes");
  }
  CANARY();
}

/* ============================================================== lru.create */
void h_create(void) {
  ldb_lru_t *c; int i, ok_cap = 1, ok_empty = 1, ok_tbl = 1; size_t total, want;
  IN_SIZE(in_capacity); IN_INT(in_j);
  ASSUME(in_capacity <= SIZE_MAX - LDB_SHARDS);     /* beyond that capacity + 15 wraps (16 EiB cache) */
  ghost_reset();

  c = ldb_lru_create(in_capacity);

  want = in_capacity / LDB_SHARDS + (in_capacity % LDB_SHARDS != 0);
  for (i = 0; i < LDB_SHARDS; i++) {
    lru_shard_t *s = &c->shard[i];
    if (s->capacity != want) ok_cap = 0;
    if (!(s->usage == 0 && s->list.next == &s->list && s->list.prev == &s->list && s->in_use.next == &s->in_use && s->in_use.prev == &s->in_use)) ok_empty = 0;
    if (!(s->table.length == 4 && s->table.elems == 0 && s->table.list != NULL && s->table.list[0] == NULL && s->table.list[1] == NULL && s->table.list[2] == NULL && s->table.list[3] == NULL)) ok_tbl = 0;
  }
  CHECK(c != NULL && c->last_id == 0, "ldb_lru_create: id counter starts at 0");
  CHECK(ok_cap, "ldb_lru_create: every shard gets ceil(capacity / 16): together at least the requested capacity, and 0 only for capacity 0");
  CHECK(ok_empty, "ldb_lru_create: every shard starts with usage 0 and two empty circular lists");
  CHECK(ok_tbl, "ldb_lru_create: every shard starts with an empty 4-bucket hash table");
  total = ldb_lru_usage(c);
  CHECK(total == 0 && X.locks == LDB_SHARDS && X.unlocks == LDB_SHARDS && X.held == NULL && !X.lock_err, "ldb_lru_usage: sums the shard usages, each read under its shard mutex");
  CANARY();
}

/* ======================================================= lru.insert_nocache
 * capacity 0 (caching off; concrete, so only that path is explored) on an empty cache, with a key of symbolic length
 * 0..8 in exact-size heap objects and ldb_malloc = malloc(n): the handle must be big enough for header + key, the
 * key is copied completely, nothing is read or written out of bounds. */
void h_insert_nocache(void) {
  ldb_slice_t key; lru_handle_t *e; size_t j; const uint8_t *kp; int i;
  IN_SIZE(in_klen); IN_U32(in_hash); IN_SIZE(in_charge); IN_SIZE(in_b);
  ASSUME(in_klen <= 8);
  ghost_reset();
  for (i = 0; i < LRU_M; i++) G[i] = NULL;
  mk_table(&SH->table, 4);
  SH->capacity = 0; SH->usage = 0;
  SH->list.next = SH->list.prev = &SH->list;
  SH->in_use.next = SH->in_use.prev = &SH->in_use;
  X.guard = 1;
  key.data = malloc(in_klen); key.size = in_klen; key.alloc = 0;
  ASSUME(key.data != NULL);
  for (j = 0; j < 8; j++) if (j < in_klen) key.data[j] = nondet_u8();

  e = lru_shard_insert(SH, &key, in_hash, &g_val[0], in_charge, model_deleter);

  CHECK(mutex_ok(), "lru_shard_insert: runs under the shard mutex, released on return");
  CHECK(e != NULL && X.mallocs == 1 && e == (lru_handle_t *)X.mal[0] && X.frees == 0, "lru_shard_insert: returns the freshly allocated handle");
  CHECK(X.last_malloc_n >= offsetof(lru_handle_t, key_data) + in_klen, "lru_shard_insert: the allocation has room for the handle header and the whole key");
  CHECK(e->value == (void *)&g_val[0] && e->deleter == model_deleter && e->charge == in_charge && e->hash == in_hash && e->key_length == in_klen, "lru_shard_insert: the handle carries the caller's value, deleter, charge, hash and key length");
  ASSUME(in_b < in_klen);
  kp = e->key_data;
  CHECK(kp[in_b] == key.data[in_b], "lru_shard_insert: every key byte is copied");
  CHECK(e->in_cache == 0 && e->refs == 1, "lru_shard_insert: capacity 0 turns caching off: the entry belongs to the caller alone");
  CHECK(SH->usage == 0 && SH->table.elems == 0 && SH->list.next == &SH->list && SH->in_use.next == &SH->in_use, "lru_shard_insert: capacity 0: the cache stays empty");
  /* the caller's release destroys it */
  lru_shard_release(SH, e);
  CHECK(X.frees == 1 && X.freed[0] == (void *)e && X.dels == 1 && X.del_value[0] == (void *)&g_val[0] && X.del_klen[0] == in_klen, "lru_shard_release: the uncached entry is destroyed by its only release");
  CANARY();
}
