/* units/rbt.c - the red-black tree every other unit MODELS as a ghost set: src/util/rbt.c (+ rbt.h), unmodified.
 * Users in lcdb: db->pending_outputs, the live set of remove_obsolete_files / backup (rb_set64), deleted_files of a
 * version edit (rb_set + file_entry_compare), deleted_files / added_files of the version builder, the lock table of the
 * unix env (static RB_SET_INIT).  Properties C13 (exact membership), C14, C17.
 *
 * Method.  The pre-state is an ARBITRARY red-black tree of height <= RBT_D: a complete binary skeleton of 2^RBT_D - 1
 * heap nodes, each position present or not, colours / keys / values symbolic, restricted by the representation
 * invariant computed on the skeleton by straight-line code (mk_tree).  Every red-black tree with <= 12 nodes has
 * height <= 4, so RBT_D = 4 covers all of them (and those trees with up to 15 nodes that fit).  Both encodings of the
 * empty tree occur: root == NIL (rb_tree_init) and root == NULL (static RB_TREE_INIT).
 * The post-state is examined by an independent recursive walk (inv_walk) that does not use the library:
 *   representation invariant: strict search-tree order (=> no node shared, no cycle), root black, no red node with a red
 *     child, equal black height on every path, parent pointers consistent, colours in {BLACK, RED}, size == node count,
 *     sentinel (NIL) bit-for-bit untouched;
 *   abstract set: membership of an ARBITRARY ghost key in_k, so each statement is about the whole set;
 *   map: the value stored with in_k.
 * Since put / del / copy re-establish on every such tree the invariant that mk_tree assumes, and init establishes it,
 * the facts hold by induction for every tree the library can build, as far as the height bound reaches.
 * free() inside rbt.c is routed through rbt_free (counts calls, remembers the pointer) so that "the removed node is
 * released exactly once and nothing else" is checkable.
 */
#include "verif.h"
uint64_t nondet_u64(void);
int nondet_int(void);
size_t nondet_size(void);

static unsigned g_frees;
static void *g_last_freed;
void rbt_free(void *p) { g_frees++; g_last_freed = p; free(p); }
#define free rbt_free
#include "util/rbt.c"
#undef free

#ifndef RBT_D
#define RBT_D 4
#endif
#define NP ((1 << RBT_D) - 1)

/* ---- keys: set64 keys are the numbers themselves; pointer sets hold item_t* ordered by ->num (comparator model) */
typedef struct item_s { uint64_t num; } item_t;
static int g_ptrkeys;
static void *g_arg_expect;
static int g_badarg;
static int item_cmp(rb_val_t x, rb_val_t y, void *arg) {
  uint64_t a = ((const item_t *)x.ptr)->num, b = ((const item_t *)y.ptr)->num;
  if (arg != g_arg_expect) g_badarg = 1;
  return (a > b) - (a < b);
}
#define KEYOF(n) (g_ptrkeys ? ((const item_t *)(n)->key.ptr)->num : (n)->key.ui)

/* ---- the skeleton */
static rb_node_t *sk[NP];
static _Bool pres[NP];
static uint64_t key0[NP];
static rb_val_t val0[NP];
static rb_color_t col0[NP];
static item_t items[NP + 1];
static char g_argobj;

static void mk_tree(rb_tree_t *t, int ptrkeys) {
  int i, ok = 1, bh[NP];
  uint64_t mn[NP], mx[NP];
  size_t cnt = 0;
  g_ptrkeys = ptrkeys; g_badarg = 0; g_frees = 0; g_last_freed = NULL;
  for (i = 0; i < NP; i++) {
    sk[i] = malloc(sizeof(rb_node_t)); __CPROVER_assume(sk[i] != NULL);
    pres[i] = (nondet_int() != 0);
    __CPROVER_assume(i == 0 || !pres[i] || pres[(i - 1) / 2]);
    key0[i] = nondet_u64(); val0[i].ui = nondet_u64();
    col0[i] = nondet_int() ? RB_RED : RB_BLACK;
    if (pres[i]) cnt++;
  }
  for (i = 0; i < NP; i++) {
    int l = 2 * i + 1, r = 2 * i + 2;
    rb_node_t *n = sk[i];
    if (ptrkeys) { items[i].num = key0[i]; n->key.ptr = &items[i]; } else n->key.ui = key0[i];
    n->val = val0[i]; n->color = col0[i];
    n->parent = (i == 0) ? NIL : sk[(i - 1) / 2];
    n->left = (l < NP && pres[l]) ? sk[l] : NIL;
    n->right = (r < NP && pres[r]) ? sk[r] : NIL;
  }
  /* representation invariant, bottom-up over the skeleton (bh of NIL = 0) */
  for (i = NP - 1; i >= 0; i--) {
    int l = 2 * i + 1, r = 2 * i + 2;
    int lp = (l < NP && pres[l]), rp = (r < NP && pres[r]);
    int bl = lp ? bh[l] : 0, br = rp ? bh[r] : 0;
    bh[i] = 0; mn[i] = mx[i] = key0[i];
    if (pres[i]) {
      if (bl != br) ok = 0;
      if (col0[i] == RB_RED && ((lp && col0[l] == RB_RED) || (rp && col0[r] == RB_RED))) ok = 0;
      if (lp && !(mx[l] < key0[i])) ok = 0;
      if (rp && !(key0[i] < mn[r])) ok = 0;
      if (lp) mn[i] = mn[l];
      if (rp) mx[i] = mx[r];
      bh[i] = bl + (col0[i] == RB_BLACK);
    }
  }
  if (pres[0] && col0[0] != RB_BLACK) ok = 0;
  __CPROVER_assume(ok);
  t->root = pres[0] ? sk[0] : (nondet_int() ? NIL : NULL);
  t->size = cnt;
  if (ptrkeys) { t->compare = item_cmp; t->arg = nondet_int() ? (void *)&g_argobj : NULL; g_arg_expect = t->arg; }
  else { t->compare = rb_set64_compare; t->arg = NULL; }
}
/* abstract view of the pre-state: is k a member, which value / position does it have */
static int sk_member(uint64_t k) { int i, r = 0; for (i = 0; i < NP; i++) if (pres[i] && key0[i] == k) r = 1; return r; }
static int sk_pos(uint64_t k) { int i, r = -1; for (i = 0; i < NP; i++) if (pres[i] && key0[i] == k) r = i; return r; }
static int sk_height(void) { int i, h = 0; for (i = 0; i < NP; i++) if (pres[i]) { int d = i >= 15 ? 5 : i >= 7 ? 4 : i >= 3 ? 3 : i >= 1 ? 2 : 1; if (d > h) h = d; } return h; }

/* ---- independent walk of the post-state */
static int w_bad; static size_t w_cnt; static unsigned w_seen; static uint64_t w_k; static rb_val_t w_val; static const rb_node_t *w_node;
static int w_skel;   /* number of visited nodes that are skeleton nodes (copy independence) */
static int inv_rec(const rb_node_t *n, const rb_node_t *parent, int lo_set, uint64_t lo, int hi_set, uint64_t hi, int parent_red, int fuel) {
  int bl, br; uint64_t k;
  if (n == NIL) return 0;
  if (n == NULL || fuel == 0) { w_bad |= 1; return 0; }          /* dangling link / deeper than any red-black tree of this size */
  k = KEYOF(n);
  if (n->parent != parent) w_bad |= 2;                              /* parent pointers consistent */
  if (n->color != RB_BLACK && n->color != RB_RED) w_bad |= 4;
  if (parent_red && n->color == RB_RED) w_bad |= 8;                 /* no red node with a red child */
  if ((lo_set && !(lo < k)) || (hi_set && !(k < hi))) w_bad |= 16;  /* strict search-tree order */
  w_cnt++;
  if (k == w_k) { w_seen++; w_val = n->val; w_node = n; }
  bl = inv_rec(n->left, n, lo_set, lo, 1, k, n->color == RB_RED, fuel - 1);
  br = inv_rec(n->right, n, 1, k, hi_set, hi, n->color == RB_RED, fuel - 1);
  if (bl != br) w_bad |= 32;                                        /* equal black height */
  return bl + (n->color == RB_BLACK);
}
static void inv_walk(const rb_tree_t *t, uint64_t k, int fuel) {
  const rb_node_t *root = t->root != NULL ? t->root : NIL;
  w_bad = 0; w_cnt = 0; w_seen = 0; w_k = k; w_val.ui = 0; w_node = NULL;
  if (root != NIL && root->color != RB_BLACK) w_bad |= 64;          /* root black */
  (void)inv_rec(root, NIL, 0, 0, 0, 0, 0, fuel);
}
static int sentinel_clean(void) {
  return NIL == &sentinel && sentinel.color == RB_BLACK && sentinel.parent == NULL && sentinel.left == NULL && sentinel.right == NULL &&
         sentinel.key.ui == 0 && sentinel.val.ui == 0;
}
#define CHECK_INV(t, fn) do { \
  CHECK(w_bad == 0, fn ": the result is a red-black tree (search order, root black, no red-red, equal black height, parent links)"); \
  CHECK(w_cnt == (t)->size, fn ": size equals the number of nodes"); \
  CHECK(sentinel_clean(), fn ": the NIL sentinel is untouched"); } while (0)

/* ================================================================ rbt.has : lookup == abstract membership, nothing changes */
void h_has(void) {
  rb_tree_t t; IN_U64(in_k); int m, r, p; rb_node_t *g; rb_node_t *root0; size_t n0;
  mk_tree(&t, 0); m = sk_member(in_k); p = sk_pos(in_k); root0 = t.root; n0 = t.size;
  r = rb_set64_has(&t, in_k);
  CHECK(r == m, "set64_has: 1 exactly for the members of the set");
  g = rb_tree_get(&t, rb_ui(in_k));
  CHECK(m ? (g == sk[p]) : (g == NULL), "tree_get: the node holding the key, NULL for a non-member");
  inv_walk(&t, in_k, RBT_D + 1);
  CHECK_INV(&t, "has");
  CHECK(t.root == root0 && t.size == n0 && w_seen == (unsigned)m, "has: the tree is not modified");
  if (sk_height() == RBT_D && m && p >= NP / 2) CANARY();   /* coverage: a member on the deepest level is looked up */
  CANARY();
}

/* ================================================================ rbt.put */
void h_put(void) {
  rb_tree_t t; IN_U64(in_x); IN_U64(in_k); IN_INT(in_j);
  int was, kwas, kp, r, h0; size_t n0; rb_node_t *root0;
  mk_tree(&t, 0);
  was = sk_member(in_x); kwas = sk_member(in_k); kp = sk_pos(in_k); n0 = t.size; root0 = t.root; h0 = sk_height();
  r = rb_set64_put(&t, in_x);
  CHECK(r == !was, "set64_put: returns 1 iff the key was not a member before");
  inv_walk(&t, in_k, RBT_D + 2);
  CHECK_INV(&t, "put");
  CHECK(t.size == n0 + (was ? 0 : 1), "put: size grows by one exactly when the key is new");
  CHECK(w_seen == (unsigned)(in_k == in_x || kwas), "put: afterwards k is a member iff k == x or k was a member (whole set, exactly once)");
  CHECK(rb_set64_has(&t, in_k) == (in_k == in_x || kwas), "put: set64_has agrees");
  if (kwas) CHECK(w_node == sk[kp] && w_val.ui == val0[kp].ui, "put: members keep their node and their value");
  if (!was && in_k == in_x) CHECK(w_val.ui == 0, "put: a new node starts with a zero value");
  CHECK(g_frees == 0, "put: releases nothing");
  if (was) {
    /* nothing at all changes: an arbitrary skeleton node (ghost index) is bit-for-bit the same */
    ASSUME(in_j >= 0 && in_j < NP);
    if (pres[in_j]) {
      int l = 2 * in_j + 1, rr = 2 * in_j + 2; const rb_node_t *n = sk[in_j];
      CHECK(t.root == root0 && n->key.ui == key0[in_j] && n->val.ui == val0[in_j].ui && n->color == col0[in_j] &&
            n->parent == (in_j == 0 ? NIL : sk[(in_j - 1) / 2]) &&
            n->left == ((l < NP && pres[l]) ? sk[l] : NIL) && n->right == ((rr < NP && pres[rr]) ? sk[rr] : NIL),
            "put of a member: the tree is left exactly as it was");
    }
  }
  if (!was && h0 == RBT_D && t.root != root0 && root0 != NULL && root0 != NIL) CANARY();  /* coverage: insertion into a full-height tree that rotates at the root */
  CANARY();
}

/* ================================================================ rbt.del */
void h_del(void) {
  rb_tree_t t; IN_U64(in_x); IN_U64(in_k);
  int was, kwas, kp, xp, r, h0; size_t n0; rb_node_t *root0;
  mk_tree(&t, 0);
  was = sk_member(in_x); xp = sk_pos(in_x); kwas = sk_member(in_k); kp = sk_pos(in_k); n0 = t.size; root0 = t.root; h0 = sk_height();
  r = rb_set64_del(&t, in_x);
  CHECK(r == was, "set64_del: returns 1 iff the key was a member");
  inv_walk(&t, in_k, RBT_D + 1);
  CHECK_INV(&t, "del");
  CHECK(t.size == n0 - (was ? 1 : 0), "del: size shrinks by one exactly when the key was a member");
  CHECK(w_seen == (unsigned)(in_k != in_x && kwas), "del: afterwards k is a member iff k != x and k was a member (whole set)");
  CHECK(rb_set64_has(&t, in_k) == (in_k != in_x && kwas), "del: set64_has agrees");
  if (kwas && in_k != in_x) CHECK(w_val.ui == val0[kp].ui, "del: the other members keep their value");
  CHECK(g_frees == (unsigned)was, "del: releases exactly one node when the key was a member, none otherwise");
  if (was) {
    int l = 2 * xp + 1, rr = 2 * xp + 2;
    /* the released node is the key's own node, or (two children) the node of its in-order successor whose key moved up */
    CHECK(g_last_freed == (void *)sk[xp] || (l < NP && pres[l] && rr < NP && pres[rr]), "del: the released node is the key's node unless it has two children");
  }
  if (was && h0 == RBT_D && t.root != root0) CANARY();       /* coverage: removal from a full-height tree that changes the root */
  if (was && xp == 0 && h0 == RBT_D) CANARY();               /* coverage: removal of a root with two subtrees */
  CANARY();
}

/* ================================================================ rbt.iter : first / last / seek / next / prev on an arbitrary tree */
void h_iter(void) {
  rb_tree_t t; rb_iter_t it; IN_U64(in_k); IN_INT(in_j);
  int i, imin = -1, imax = -1, ilb = -1, isucc = -1, ipred = -1;
  mk_tree(&t, 0);
  ASSUME(in_j >= 0 && in_j < NP);
  for (i = 0; i < NP; i++) if (pres[i]) {
    if (imin < 0 || key0[i] < key0[imin]) imin = i;
    if (imax < 0 || key0[i] > key0[imax]) imax = i;
    if (key0[i] >= in_k && (ilb < 0 || key0[i] < key0[ilb])) ilb = i;
    if (key0[i] > key0[in_j] && (isucc < 0 || key0[i] < key0[isucc])) isucc = i;
    if (key0[i] < key0[in_j] && (ipred < 0 || key0[i] > key0[ipred])) ipred = i;
  }
  it = rb_tree_iterator(&t);
  CHECK(!rb_iter_valid(&it), "iterator: starts invalid");
  rb_iter_first(&it);
  CHECK(it.node == (imin < 0 ? NIL : sk[imin]) && rb_iter_valid(&it) == (imin >= 0), "iter_first: the smallest member, invalid on the empty set");
  rb_iter_last(&it);
  CHECK(it.node == (imax < 0 ? NIL : sk[imax]) && rb_iter_valid(&it) == (imax >= 0), "iter_last: the largest member, invalid on the empty set");
  rb_iter_seek(&it, rb_ui(in_k));
  CHECK(it.node == (ilb < 0 ? NIL : sk[ilb]) && rb_iter_valid(&it) == (ilb >= 0), "iter_seek(k): the first member >= k, invalid if there is none");
  if (pres[in_j]) {
    /* an arbitrary member (ghost index): seek reaches it, next is the least greater member, prev the greatest smaller one */
    rb_iter_seek(&it, rb_ui(key0[in_j]));
    CHECK(it.node == sk[in_j] && rb_iter_key(&it).ui == key0[in_j], "iter_seek(member): that member");
    rb_iter_next(&it);
    CHECK(it.node == (isucc < 0 ? NIL : sk[isucc]), "iter_next: the least member greater than the current one, invalid after the largest");
    rb_iter_next(&it);
    if (isucc < 0) CHECK(it.node == NIL, "iter_next on an invalid iterator stays invalid");
    rb_iter_seek(&it, rb_ui(key0[in_j]));
    rb_iter_prev(&it);
    CHECK(it.node == (ipred < 0 ? NIL : sk[ipred]), "iter_prev: the greatest member smaller than the current one, invalid before the smallest");
    if (in_j >= NP / 2 && isucc == 0) CANARY();   /* coverage: next climbs from the deepest level to the root */
  }
  rb_iter_start(&it, &t);
  CHECK(it.node == (imin < 0 ? NIL : sk[imin]) && it.tree == &t, "iter_start: init + first");
  inv_walk(&t, in_k, RBT_D + 1);
  CHECK_INV(&t, "iter");
  CANARY();
}
