/* units/rbt.c - the red-black tree every other unit MODELS as a ghost set: src/util/rbt.c (+ rbt.h), unmodified.
 * Users in lcdb: db->pending_outputs, the live set of remove_obsolete_files / backup (rb_set64), deleted_files of a
 * version edit (rb_set + file_entry_compare), deleted_files / added_files of the version builder, the lock table of the
 * unix env (static RB_SET_INIT).  Properties C13 (exact membership), C14, C17.
 *
 * Two families of units, both BOUNDED (CBMC has no inductive predicates; the bound is the tree height / node count):
 *
 * (S) symbolic units.  The pre-state is an ARBITRARY red-black tree of height <= RBT_D: a complete binary skeleton of
 *     2^RBT_D - 1 heap nodes, each position present or not, colours / 64-bit keys / values symbolic, restricted by the
 *     representation invariant computed on the skeleton by straight-line code (mk_tree).  Both encodings of the empty
 *     tree occur: root == NIL (rb_tree_init) and root == NULL (static RB_TREE_INIT).  Real malloc / free, all of CBMC's
 *     memory-safety checks.  Measured cost: one rb_tree_put on a 3-node symbolic tree is ~650 k SAT variables, a del on
 *     a 7-node one 3.9 M (> 5 min): RBT_D is 4 for the read-only operations and 2 for the mutating ones.
 * (E) exhaustive units (-DRBT_ENUM).  Every red-black tree (shape and colouring) of height <= 4 is listed in RBT_TAB
 *     (1082 trees, 0..15 nodes, sorted by node count; unit rbt.shapes proves by SAT that the table is complete);
 *     a unit runs one operation for every tree of a node-count range and every argument position (each member, each
 *     gap between members, both ends), keys 2,4,..,2n, through rb_set_* with a comparator on item numbers.  Everything
 *     is concrete, so CBMC's symbolic execution acts as an interpreter of the real code and decides every check by
 *     constant folding.  rbt.c uses keys only through tree->compare and copies them, so concrete keys lose nothing
 *     but this data-independence argument is not machine-checked (the S units use symbolic 64-bit keys).
 *
 * The post-state is examined by an independent recursive walk (inv_walk) that does not use the library:
 *   representation invariant: strict search-tree order (=> no node shared, no cycle), root black, no red node with a red
 *     child, equal black height on every path, parent pointers consistent, colours in {BLACK, RED}, size == node count,
 *     sentinel (NIL) bit-for-bit untouched;
 *   abstract set: (S) membership of an ARBITRARY ghost key in_k, so each statement is about the whole set;
 *                 (E) the complete in-order key sequence is compared with the expected one;
 *   map: the value stored with each key travels with the key.
 * Since put / del / copy re-establish on every such tree the invariant that mk_tree assumes, and init establishes it,
 * the facts hold by induction for every tree the library can build, as far as the bounds reach.
 * free() inside rbt.c is routed through rbt_free (counts calls, remembers the pointer) so that "the removed node is
 * released exactly once and nothing else" is checkable.
 */
#include "verif.h"
uint64_t nondet_u64(void);
int nondet_int(void);
size_t nondet_size(void);

static unsigned g_frees, g_mallocs;
static void *g_last_freed;
#ifdef RBT_ENUM
/* exhaustive units: nodes come from static pools so that CBMC's symbolic execution keeps every pointer concrete
 * (pointers to malloc'ed objects are never constant-propagated; measured).  free() poisons the node instead. */
#include "util/rbt.h"
static rb_node_t e_pool[15], e_fresh[16];
void *rbt_malloc(size_t n) { (void)n; return &e_fresh[g_mallocs++ & 15]; }
void rbt_free(void *p) { rb_node_t *n = p; g_frees++; g_last_freed = p; n->parent = n->left = n->right = NULL; n->color = (rb_color_t)7; }
#define malloc rbt_malloc
#else
void rbt_free(void *p) { g_frees++; g_last_freed = p; free(p); }
#endif
#define free rbt_free
#include "util/rbt.c"
#undef free
#undef malloc

#ifndef RBT_D
#define RBT_D 4
#endif
#define NP ((1 << RBT_D) - 1)

/* ---- keys: set64 keys are the numbers themselves; pointer sets hold item_t* ordered by ->num (comparator model) */
typedef struct item_s { uint64_t num; } item_t;
static int g_ptrkeys;
static void *g_arg_expect;
static int g_badarg;
static int item_cmp(rb_val_t x, rb_val_t y, void *arg) {
  uint64_t a = ((const item_t *)x.ptr)->num, b = ((const item_t *)y.ptr)->num;
  if (arg != g_arg_expect) g_badarg = 1;
  return (a > b) - (a < b);
}
#define KEYOF(n) (g_ptrkeys ? ((const item_t *)(n)->key.ptr)->num : (n)->key.ui)

/* ---- the skeleton (heap-indexed: children of position i are 2i+1 and 2i+2) */
static rb_node_t *sk[NP];
static _Bool pres[NP];
static uint64_t key0[NP];
static rb_val_t val0[NP];
static rb_color_t col0[NP];
static item_t items[NP + 1];
static char g_argobj;

/* ---- independent walk of the post-state */
static int w_bad; static size_t w_cnt; static unsigned w_seen; static uint64_t w_k; static rb_val_t w_val; static const rb_node_t *w_node;
static int w_rec; static uint64_t w_keys[NP + 2], w_vals[NP + 2];   /* in-order listing (exhaustive units only) */
static int inv_rec(const rb_node_t *n, const rb_node_t *parent, int lo_set, uint64_t lo, int hi_set, uint64_t hi, int parent_red, int fuel) {
  int bl, br; uint64_t k;
  if (n == NIL) return 0;
  if (n == NULL || fuel == 0) { w_bad |= 1; return 0; }            /* dangling link / deeper than a red-black tree of this size can be */
  k = KEYOF(n);
  if (n->parent != parent) w_bad |= 2;                              /* parent pointers consistent */
  if (n->color != RB_BLACK && n->color != RB_RED) w_bad |= 4;
  if (parent_red && n->color == RB_RED) w_bad |= 8;                 /* no red node with a red child */
  if ((lo_set && !(lo < k)) || (hi_set && !(k < hi))) w_bad |= 16;  /* strict search-tree order */
  if (k == w_k) { w_seen++; w_val = n->val; w_node = n; }
  bl = inv_rec(n->left, n, lo_set, lo, 1, k, n->color == RB_RED, fuel - 1);
  if (w_rec && w_cnt < NP + 2) { w_keys[w_cnt] = k; w_vals[w_cnt] = n->val.ui; }
  w_cnt++;
  br = inv_rec(n->right, n, 1, k, hi_set, hi, n->color == RB_RED, fuel - 1);
  if (bl != br) w_bad |= 32;                                        /* equal black height */
  return bl + (n->color == RB_BLACK);
}
static void inv_walk(const rb_tree_t *t, uint64_t k, int fuel) {
  const rb_node_t *root = t->root != NULL ? t->root : NIL;
  w_bad = 0; w_cnt = 0; w_seen = 0; w_k = k; w_val.ui = 0; w_node = NULL;
  if (root != NIL && root->color != RB_BLACK) w_bad |= 64;          /* root black */
  (void)inv_rec(root, NIL, 0, 0, 0, 0, 0, fuel);
}
static int sentinel_clean(void) {
  return NIL == &sentinel && sentinel.color == RB_BLACK && sentinel.parent == NULL && sentinel.left == NULL && sentinel.right == NULL &&
         sentinel.key.ui == 0 && sentinel.val.ui == 0;
}
#define CHECK_INV(t, fn) do { \
  CHECK(w_bad == 0, fn ": the result is a red-black tree (search order, root black, no red-red, equal black height, parent links)"); \
  CHECK(w_cnt == (t)->size, fn ": size equals the number of nodes"); \
  CHECK(sentinel_clean(), fn ": the NIL sentinel is untouched"); } while (0)

#ifndef RBT_ENUM
/* ======================================================================================================= (S) symbolic */
static void mk_tree(rb_tree_t *t, int ptrkeys) {
  int i, ok = 1, bh[NP];
  uint64_t mn[NP], mx[NP];
  size_t cnt = 0;
  g_ptrkeys = ptrkeys; g_badarg = 0; g_frees = 0; g_last_freed = NULL; w_rec = 0;
  for (i = 0; i < NP; i++) {
    sk[i] = malloc(sizeof(rb_node_t)); __CPROVER_assume(sk[i] != NULL);
    pres[i] = (nondet_int() != 0);
    __CPROVER_assume(i == 0 || !pres[i] || pres[(i - 1) / 2]);
    key0[i] = nondet_u64(); val0[i].ui = nondet_u64();
    col0[i] = nondet_int() ? RB_RED : RB_BLACK;
    if (pres[i]) cnt++;
  }
  for (i = 0; i < NP; i++) {
    int l = 2 * i + 1, r = 2 * i + 2;
    rb_node_t *n = sk[i];
    if (ptrkeys) { items[i].num = key0[i]; n->key.ptr = &items[i]; } else n->key.ui = key0[i];
    n->val = val0[i]; n->color = col0[i];
    n->parent = (i == 0) ? NIL : sk[(i - 1) / 2];
    n->left = (l < NP && pres[l]) ? sk[l] : NIL;
    n->right = (r < NP && pres[r]) ? sk[r] : NIL;
  }
  /* representation invariant, bottom-up over the skeleton (black height of NIL = 0) */
  for (i = NP - 1; i >= 0; i--) {
    int l = 2 * i + 1, r = 2 * i + 2;
    int lp = (l < NP && pres[l]), rp = (r < NP && pres[r]);
    int bl = lp ? bh[l] : 0, br = rp ? bh[r] : 0;
    bh[i] = 0; mn[i] = mx[i] = key0[i];
    if (pres[i]) {
      if (bl != br) ok = 0;
      if (col0[i] == RB_RED && ((lp && col0[l] == RB_RED) || (rp && col0[r] == RB_RED))) ok = 0;
      if (lp && !(mx[l] < key0[i])) ok = 0;
      if (rp && !(key0[i] < mn[r])) ok = 0;
      if (lp) mn[i] = mn[l];
      if (rp) mx[i] = mx[r];
      bh[i] = bl + (col0[i] == RB_BLACK);
    }
  }
  if (pres[0] && col0[0] != RB_BLACK) ok = 0;
  __CPROVER_assume(ok);
  t->root = pres[0] ? sk[0] : (nondet_int() ? NIL : NULL);
  t->size = cnt;
  if (ptrkeys) { t->compare = item_cmp; t->arg = nondet_int() ? (void *)&g_argobj : NULL; g_arg_expect = t->arg; }
  else { t->compare = rb_set64_compare; t->arg = NULL; }
}
/* abstract view of the pre-state: is k a member, at which position */
static int sk_member(uint64_t k) { int i, r = 0; for (i = 0; i < NP; i++) if (pres[i] && key0[i] == k) r = 1; return r; }
static int sk_pos(uint64_t k) { int i, r = 0; for (i = 0; i < NP; i++) if (pres[i] && key0[i] == k) r = i; return r; }
static int sk_height(void) { int i, h = 0; for (i = 0; i < NP; i++) if (pres[i]) { int d = i >= 15 ? 5 : i >= 7 ? 4 : i >= 3 ? 3 : i >= 1 ? 2 : 1; if (d > h) h = d; } return h; }
/* an arbitrary skeleton node (ghost index j) is bit-for-bit what mk_tree made it */
static int sk_same(int j, const rb_tree_t *t, const rb_node_t *root0) {
  int l = 2 * j + 1, r = 2 * j + 2; const rb_node_t *n = sk[j];
  return t->root == root0 && (g_ptrkeys ? n->key.ptr == (void *)&items[j] : n->key.ui == key0[j]) && n->val.ui == val0[j].ui && n->color == col0[j] &&
         n->parent == (j == 0 ? NIL : sk[(j - 1) / 2]) &&
         n->left == ((l < NP && pres[l]) ? sk[l] : NIL) && n->right == ((r < NP && pres[r]) ? sk[r] : NIL);
}

/* ---------------------------------------------------------------- rbt.init : both empty encodings, then the first insertion */
void h_init(void) {
  rb_tree_t t; rb_set64_t s = RB_SET64_INIT; rb_iter_t it; IN_U64(in_k); IN_U64(in_x); int r;
  g_ptrkeys = 0; w_rec = 0; g_frees = 0;
  t.root = NULL; t.size = 77; t.compare = NULL; t.arg = &t;
  rb_tree_init(&t, rb_set64_compare, &g_argobj);
  CHECK((t.root == NIL || t.root == NULL) && t.size == 0 && t.compare == rb_set64_compare && t.arg == (void *)&g_argobj, "tree_init: empty tree (root NIL; NULL would mean the same), comparator and argument stored");
  CHECK(s.root == NULL && s.size == 0 && s.compare == rb_set64_compare, "RB_SET64_INIT: the static initialiser (root NULL)");
  CHECK(!rb_set64_has(&t, in_k) && !rb_set64_has(&s, in_k), "empty set: has nothing");
  CHECK(!rb_set64_del(&t, in_k) && !rb_set64_del(&s, in_k) && t.size == 0 && s.size == 0, "empty set: del removes nothing");
  rb_iter_start(&it, &s);
  CHECK(!rb_iter_valid(&it), "empty set: iteration is over at once");
  rb_iter_init(&it, &t); rb_iter_seek(&it, rb_ui(in_k));
  CHECK(!rb_iter_valid(&it), "empty set: seek finds nothing");
  r = nondet_int() ? rb_set64_put(&t, in_x) : rb_set64_put(&s, in_x);
  CHECK(r == 1, "first put: new");
  inv_walk(&t, in_k, 2); CHECK_INV(&t, "init/put");
  inv_walk(&s, in_k, 2); CHECK_INV(&s, "init/put");
  CHECK(t.size + s.size == 1 && rb_set64_has(&t, in_k) + rb_set64_has(&s, in_k) == (in_k == in_x), "first put: exactly that key is a member of exactly that set");
  CANARY();
}

/* ---------------------------------------------------------------- rbt.has : lookup == abstract membership, nothing changes */
void h_has(void) {
  rb_tree_t t; IN_U64(in_k); int m, r, p; rb_node_t *g; rb_node_t *root0; size_t n0;
  mk_tree(&t, 0); m = sk_member(in_k); p = sk_pos(in_k); root0 = t.root; n0 = t.size;
  r = rb_set64_has(&t, in_k);
  CHECK(r == m, "set64_has: 1 exactly for the members of the set");
  g = rb_tree_get(&t, rb_ui(in_k));
  CHECK(m ? (g == sk[p]) : (g == NULL), "tree_get: the node holding the key, NULL for a non-member");
  inv_walk(&t, in_k, RBT_D + 1);
  CHECK_INV(&t, "has");
  CHECK(t.root == root0 && t.size == n0 && w_seen == (unsigned)m, "has: the tree is not modified");
  CANARY();
}

/* ---------------------------------------------------------------- rbt.put (set64) */
void h_put(void) {
  rb_tree_t t; IN_U64(in_x); IN_U64(in_k); IN_INT(in_j);
  int was, kwas, kp, r, h0; size_t n0; rb_node_t *root0;
  mk_tree(&t, 0);
  was = sk_member(in_x); kwas = sk_member(in_k); kp = sk_pos(in_k); n0 = t.size; root0 = t.root; h0 = sk_height();
  r = rb_set64_put(&t, in_x);
  CHECK(r == !was, "set64_put: returns 1 iff the key was not a member before");
  inv_walk(&t, in_k, RBT_D + 2);
  CHECK_INV(&t, "put");
  CHECK(t.size == n0 + (was ? 0 : 1), "put: size grows by one exactly when the key is new");
  CHECK(w_seen == (unsigned)(in_k == in_x || kwas), "put: afterwards k is a member iff k == x or k was a member (whole set, exactly once)");
  CHECK(rb_set64_has(&t, in_k) == (in_k == in_x || kwas), "put: set64_has agrees");
  if (kwas) CHECK(w_node == sk[kp] && w_val.ui == val0[kp].ui, "put: members keep their node and their value");
  if (!was && in_k == in_x) CHECK(w_val.ui == 0, "put: a new node starts with a zero value");
  CHECK(g_frees == 0, "put: releases nothing");
  ASSUME(in_j >= 0 && in_j < NP);
  if (was && pres[in_j]) CHECK(sk_same(in_j, &t, root0), "put of a member: the tree is left exactly as it was");
  CANARY();
}

/* ---------------------------------------------------------------- rbt.del (set64) */
void h_del(void) {
  rb_tree_t t; IN_U64(in_x); IN_U64(in_k); IN_INT(in_j);
  int was, kwas, kp, xp, r, h0; size_t n0; rb_node_t *root0;
  mk_tree(&t, 0);
  was = sk_member(in_x); xp = sk_pos(in_x); kwas = sk_member(in_k); kp = sk_pos(in_k); n0 = t.size; root0 = t.root; h0 = sk_height();
  r = rb_set64_del(&t, in_x);
  CHECK(r == was, "set64_del: returns 1 iff the key was a member");
  inv_walk(&t, in_k, RBT_D + 1);
  CHECK_INV(&t, "del");
  CHECK(t.size == n0 - (was ? 1 : 0), "del: size shrinks by one exactly when the key was a member");
  CHECK(w_seen == (unsigned)(in_k != in_x && kwas), "del: afterwards k is a member iff k != x and k was a member (whole set)");
  CHECK(rb_set64_has(&t, in_k) == (in_k != in_x && kwas), "del: set64_has agrees");
  if (kwas && in_k != in_x) CHECK(w_val.ui == val0[kp].ui, "del: the other members keep their value");
  CHECK(g_frees == (unsigned)was, "del: releases exactly one node when the key was a member, none otherwise");
  if (was) {
    int l = 2 * xp + 1, rr = 2 * xp + 2;
    /* the released node is the key's own node, or (two children) the node of its in-order successor whose key moved up */
    CHECK(g_last_freed == (void *)sk[xp] || (l < NP && pres[l] && rr < NP && pres[rr]), "del: the released node is the key's node unless that has two children");
  }
  ASSUME(in_j >= 0 && in_j < NP);
  if (!was && pres[in_j]) CHECK(sk_same(in_j, &t, root0), "del of a non-member: the tree is left exactly as it was");
  CANARY();
}

/* ---------------------------------------------------------------- rbt.iter : first / last / seek / next / prev on an arbitrary tree */
void h_iter(void) {
  rb_tree_t t; rb_iter_t it; IN_U64(in_k); IN_INT(in_j);
  int i, imin = -1, imax = -1, ilb = -1, isucc = -1, ipred = -1;
  mk_tree(&t, 0);
  ASSUME(in_j >= 0 && in_j < NP);
  for (i = 0; i < NP; i++) if (pres[i]) {
    if (imin < 0 || key0[i] < key0[imin]) imin = i;
    if (imax < 0 || key0[i] > key0[imax]) imax = i;
    if (key0[i] >= in_k && (ilb < 0 || key0[i] < key0[ilb])) ilb = i;
    if (key0[i] > key0[in_j] && (isucc < 0 || key0[i] < key0[isucc])) isucc = i;
    if (key0[i] < key0[in_j] && (ipred < 0 || key0[i] > key0[ipred])) ipred = i;
  }
  it = rb_tree_iterator(&t);
  CHECK(!rb_iter_valid(&it), "iterator: starts invalid");
  rb_iter_first(&it);
  CHECK(it.node == (imin < 0 ? NIL : sk[imin]) && rb_iter_valid(&it) == (imin >= 0), "iter_first: the smallest member, invalid on the empty set");
  rb_iter_last(&it);
  CHECK(it.node == (imax < 0 ? NIL : sk[imax]) && rb_iter_valid(&it) == (imax >= 0), "iter_last: the largest member, invalid on the empty set");
  rb_iter_seek(&it, rb_ui(in_k));
  CHECK(it.node == (ilb < 0 ? NIL : sk[ilb]) && rb_iter_valid(&it) == (ilb >= 0), "iter_seek(k): the first member >= k, invalid if there is none");
  if (pres[in_j]) {
    /* an arbitrary member (ghost index): seek reaches it, next is the least greater member, prev the greatest smaller one */
    rb_iter_seek(&it, rb_ui(key0[in_j]));
    CHECK(it.node == sk[in_j] && rb_iter_key(&it).ui == key0[in_j], "iter_seek(member): that member");
    rb_iter_next(&it);
    CHECK(it.node == (isucc < 0 ? NIL : sk[isucc]), "iter_next: the least member greater than the current one, invalid after the largest");
    rb_iter_next(&it);
    if (isucc < 0) CHECK(it.node == NIL, "iter_next on an invalid iterator stays invalid");
    rb_iter_seek(&it, rb_ui(key0[in_j]));
    rb_iter_prev(&it);
    CHECK(it.node == (ipred < 0 ? NIL : sk[ipred]), "iter_prev: the greatest member smaller than the current one, invalid before the smallest");
  }
  rb_iter_start(&it, &t);
  CHECK(it.node == (imin < 0 ? NIL : sk[imin]) && it.tree == &t, "iter_start: init + first");
  inv_walk(&t, in_k, RBT_D + 1);
  CHECK_INV(&t, "iter");
  CANARY();
}

/* ---------------------------------------------------------------- rbt.set.put / rbt.set.del : pointer items + comparator */
void h_set_put(void) {
  rb_tree_t t; IN_U64(in_x); IN_U64(in_k); IN_INT(in_j); int was, kwas, kp, r; size_t n0; rb_node_t *root0; item_t probe;
  mk_tree(&t, 1);
  was = sk_member(in_x); kwas = sk_member(in_k); kp = sk_pos(in_k); n0 = t.size; root0 = t.root;
  items[NP].num = in_x; probe.num = in_k;
  r = rb_set_put(&t, &items[NP]);
  CHECK(r == !was, "set_put: returns 1 iff no item comparing equal was a member");
  CHECK(!g_badarg, "set_put: the comparator gets tree->arg");
  inv_walk(&t, in_k, RBT_D + 2);
  CHECK_INV(&t, "set_put");
  CHECK(t.size == n0 + (was ? 0 : 1), "set_put: size grows by one exactly when the item is new");
  CHECK(w_seen == (unsigned)(in_k == in_x || kwas), "set_put: afterwards k is a member iff k == x or k was a member");
  CHECK(rb_set_has(&t, &probe) == (in_k == in_x || kwas) && !g_badarg, "set_put: set_has agrees");
  if (kwas) CHECK(w_node == sk[kp] && w_node->key.ptr == (void *)&items[kp], "set_put: members keep their item pointer (an equal new item does not replace the old one)");
  if (!was && in_k == in_x) CHECK(w_node->key.ptr == (void *)&items[NP], "set_put: the new member is the item passed in");
  ASSUME(in_j >= 0 && in_j < NP);
  if (was && pres[in_j]) CHECK(sk_same(in_j, &t, root0), "set_put of a member: the tree is left exactly as it was");
  CANARY();
}
void h_set_del(void) {
  rb_tree_t t; IN_U64(in_x); IN_U64(in_k); int was, kwas, kp, xp; size_t n0; void *r; item_t probe, probe_k;
  mk_tree(&t, 1);
  was = sk_member(in_x); xp = sk_pos(in_x); kwas = sk_member(in_k); kp = sk_pos(in_k); n0 = t.size;
  probe.num = in_x; probe_k.num = in_k;
  r = rb_set_del(&t, &probe);
  CHECK(r == (was ? (void *)&items[xp] : NULL), "set_del: returns the STORED item that compares equal (the caller releases it), NULL if there is none");
  CHECK(!g_badarg, "set_del: the comparator gets tree->arg");
  inv_walk(&t, in_k, RBT_D + 1);
  CHECK_INV(&t, "set_del");
  CHECK(t.size == n0 - (was ? 1 : 0) && g_frees == (unsigned)was, "set_del: size and released nodes");
  CHECK(w_seen == (unsigned)(in_k != in_x && kwas), "set_del: afterwards k is a member iff k != x and k was a member");
  CHECK(rb_set_has(&t, &probe_k) == (in_k != in_x && kwas), "set_del: set_has agrees");
  if (kwas && in_k != in_x) CHECK(w_node->key.ptr == (void *)&items[kp] && w_val.ui == val0[kp].ui, "set_del: the other members keep their item pointer and value");
  CANARY();
}

/* ---------------------------------------------------------------- rbt.map.put / rbt.map.del */
void h_map_put(void) {
  rb_tree_t t; IN_U64(in_x); IN_U64(in_k); int was, kwas, kp, xp, r; char vobj; void *v = nondet_int() ? (void *)&vobj : NULL; item_t probe;
  mk_tree(&t, 1);
  was = sk_member(in_x); xp = sk_pos(in_x); kwas = sk_member(in_k); kp = sk_pos(in_k);
  items[NP].num = in_x; probe.num = in_k;
  r = rb_map_put(&t, &items[NP], v);
  CHECK(r == !was, "map_put: returns 1 iff the key is new");
  inv_walk(&t, in_k, RBT_D + 2);
  CHECK_INV(&t, "map_put");
  CHECK(w_seen == (unsigned)(in_k == in_x || kwas), "map_put: key set afterwards");
  if (kwas) CHECK(w_val.ui == val0[kp].ui, "map_put: existing keys keep their value - an existing key is NOT overwritten (returns 0)");
  if (!was && in_k == in_x) CHECK(w_val.ptr == v && w_node->key.ptr == (void *)&items[NP], "map_put: a new key is stored with the value passed in");
  CHECK(rb_map_has(&t, &probe) == (in_k == in_x || kwas), "map_has agrees");
  if (kwas) CHECK(rb_map_get(&t, &probe) == val0[kp].ptr, "map_get: the stored value");
  if (!kwas && in_k != in_x) CHECK(rb_map_get(&t, &probe) == NULL, "map_get: NULL for a missing key");
  (void)xp;
  CANARY();
}
void h_map_del(void) {
  rb_tree_t t; IN_U64(in_x); IN_U64(in_k); int was, kwas, kp, xp, r; rb_entry_t e; item_t probe, probe_k; int with = nondet_int();
  mk_tree(&t, 1);
  was = sk_member(in_x); xp = sk_pos(in_x); kwas = sk_member(in_k); kp = sk_pos(in_k);
  probe.num = in_x; probe_k.num = in_k; e.key = &e; e.val = &e;
  r = rb_map_del(&t, &probe, with ? &e : NULL);
  CHECK(r == was, "map_del: returns 1 iff the key was present");
  if (was && with) CHECK(e.key == (void *)&items[xp] && e.val == val0[xp].ptr, "map_del: hands back the stored key and its value");
  if (!was || !with) CHECK(e.key == (void *)&e && e.val == (void *)&e, "map_del: result untouched otherwise");
  inv_walk(&t, in_k, RBT_D + 1);
  CHECK_INV(&t, "map_del");
  CHECK(w_seen == (unsigned)(in_k != in_x && kwas) && g_frees == (unsigned)was, "map_del: key set afterwards, one node released");
  if (kwas && in_k != in_x) CHECK(w_val.ui == val0[kp].ui && rb_map_get(&t, &probe_k) == val0[kp].ptr, "map_del: the other keys keep their value");
  CANARY();
}

/* ---------------------------------------------------------------- rbt.copy : copy, then clear one of the two */
static unsigned g_copy_calls, g_clear_calls, g_clear_k; static int g_cb_bad;
static void cb_copy(rb_node_t *z, const rb_node_t *x) { g_copy_calls++; if (z == x || z->key.ui != x->key.ui || z->val.ui != x->val.ui) g_cb_bad = 1; }
static void cb_clear(rb_node_t *n) { g_clear_calls++; if (n->key.ui == w_k) g_clear_k++; }
void h_copy(void) {
  rb_tree_t x, z, *dead, *live; IN_U64(in_k); IN_INT(in_which); int m, kp, use_cb = nondet_int(); size_t n0;
  mk_tree(&x, 0); m = sk_member(in_k); kp = sk_pos(in_k); n0 = x.size;
  rb_set64_init(&z);
  g_copy_calls = 0; g_clear_calls = 0; g_clear_k = 0; g_cb_bad = 0;
  rb_tree_copy(&z, &x, use_cb ? cb_copy : NULL);
  CHECK(z.size == n0 && z.compare == x.compare && z.arg == x.arg && x.size == n0, "tree_copy: same size, comparator, argument; source unchanged");
  CHECK(g_copy_calls == (use_cb ? n0 : 0) && !g_cb_bad, "tree_copy: the copy callback runs once per node, on (new node, old node) with equal key and value");
  inv_walk(&z, in_k, RBT_D + 1);
  CHECK_INV(&z, "copy");
  CHECK(w_seen == (unsigned)m && (!m || (w_val.ui == val0[kp].ui && w_node != sk[kp])), "tree_copy: the copy has exactly the members (and values) of the source, in nodes of its own");
  /* independence: the real clear of either tree leaves the other one intact (a shared node would be a use after free) */
  if (in_which) { dead = &x; live = &z; } else { dead = &z; live = &x; }
  w_k = in_k; g_frees = 0;
  rb_tree_clear(dead, cb_clear);
  CHECK((dead->root == NIL || dead->root == NULL) && dead->size == 0, "tree_clear: empty afterwards");
  CHECK(g_clear_calls == n0 && g_clear_k == (unsigned)m && g_frees == n0, "tree_clear: the callback runs once per member (once for k iff k is a member), every node is released once");
  CHECK(!rb_set64_has(dead, in_k), "tree_clear: has nothing");
  inv_walk(live, in_k, RBT_D + 1);
  CHECK_INV(live, "copy/clear");
  CHECK(w_seen == (unsigned)m && (!m || w_val.ui == val0[kp].ui) && live->size == n0, "clearing one of the two trees leaves the other with all its members");
  CHECK(rb_set64_has(live, in_k) == m, "copy/clear: set64_has agrees");
  CANARY();
}

#else
/* ==================================================================================================== (E) exhaustive */
/* every red-black tree of height <= 4 as {present mask, red mask} over the 15 heap-indexed positions, sorted by node count */
static const unsigned short RBT_TAB[][2] = {
  {0x0000,0x0000},{0x0001,0x0000},{0x0003,0x0002},{0x0005,0x0004},{0x0007,0x0000},{0x0007,0x0006},{0x000f,0x0008},{0x0017,0x0010},{0x0027,0x0020},{0x0047,0x0040},
  {0x001f,0x0002},{0x001f,0x0018},{0x002f,0x0028},{0x0037,0x0030},{0x004f,0x0048},{0x0057,0x0050},{0x0067,0x0004},{0x0067,0x0060},{0x003f,0x0022},{0x003f,0x0038},
  {0x005f,0x0042},{0x005f,0x0058},{0x006f,0x000c},{0x006f,0x0068},{0x0077,0x0014},{0x0077,0x0070},{0x009f,0x0082},{0x011f,0x0102},{0x021f,0x0202},{0x041f,0x0402},
  {0x0867,0x0804},{0x1067,0x1004},{0x2067,0x2004},{0x4067,0x4004},{0x007f,0x0000},{0x007f,0x0006},{0x007f,0x001c},{0x007f,0x0062},{0x007f,0x0078},{0x00bf,0x00a2},
  {0x00df,0x00c2},{0x013f,0x0122},{0x015f,0x0142},{0x019f,0x0182},{0x023f,0x0222},{0x025f,0x0242},{0x029f,0x0282},{0x031f,0x0302},{0x043f,0x0422},{0x045f,0x0442},
  {0x049f,0x0482},{0x051f,0x0502},{0x061f,0x0602},{0x086f,0x080c},{0x0877,0x0814},{0x106f,0x100c},{0x1077,0x1014},{0x1867,0x1804},{0x206f,0x200c},{0x2077,0x2014},
  {0x2867,0x2804},{0x3067,0x3004},{0x406f,0x400c},{0x4077,0x4014},{0x4867,0x4804},{0x5067,0x5004},{0x6067,0x6004},{0x00ff,0x0080},{0x00ff,0x0086},{0x00ff,0x00e2},
  {0x017f,0x0100},{0x017f,0x0106},{0x017f,0x0162},{0x01bf,0x01a2},{0x01df,0x01c2},{0x027f,0x0200},{0x027f,0x0206},{0x027f,0x0262},{0x02bf,0x02a2},{0x02df,0x02c2},
  {0x033f,0x0322},{0x035f,0x0342},{0x039f,0x0382},{0x047f,0x0400},{0x047f,0x0406},{0x047f,0x0462},{0x04bf,0x04a2},{0x04df,0x04c2},{0x053f,0x0522},{0x055f,0x0542},
  {0x059f,0x0582},{0x063f,0x0622},{0x065f,0x0642},{0x069f,0x0682},{0x071f,0x0702},{0x087f,0x0800},{0x087f,0x0806},{0x087f,0x081c},{0x107f,0x1000},{0x107f,0x1006},
  {0x107f,0x101c},{0x186f,0x180c},{0x1877,0x1814},{0x207f,0x2000},{0x207f,0x2006},{0x207f,0x201c},{0x286f,0x280c},{0x2877,0x2814},{0x306f,0x300c},{0x3077,0x3014},
  {0x3867,0x3804},{0x407f,0x4000},{0x407f,0x4006},{0x407f,0x401c},{0x486f,0x480c},{0x4877,0x4814},{0x506f,0x500c},{0x5077,0x5014},{0x5867,0x5804},{0x606f,0x600c},
  {0x6077,0x6014},{0x6867,0x6804},{0x7067,0x7004},{0x01ff,0x0008},{0x01ff,0x0180},{0x01ff,0x0186},{0x01ff,0x01e2},{0x02ff,0x0280},{0x02ff,0x0286},{0x02ff,0x02e2},
  {0x037f,0x0300},{0x037f,0x0306},{0x037f,0x0362},{0x03bf,0x03a2},{0x03df,0x03c2},{0x04ff,0x0480},{0x04ff,0x0486},{0x04ff,0x04e2},{0x057f,0x0500},{0x057f,0x0506},
  {0x057f,0x0562},{0x05bf,0x05a2},{0x05df,0x05c2},{0x067f,0x0010},{0x067f,0x0600},{0x067f,0x0606},{0x067f,0x0662},{0x06bf,0x06a2},{0x06df,0x06c2},{0x073f,0x0722},
  {0x075f,0x0742},{0x079f,0x0782},{0x08ff,0x0880},{0x08ff,0x0886},{0x097f,0x0900},{0x097f,0x0906},{0x0a7f,0x0a00},{0x0a7f,0x0a06},{0x0c7f,0x0c00},{0x0c7f,0x0c06},
  {0x10ff,0x1080},{0x10ff,0x1086},{0x117f,0x1100},{0x117f,0x1106},{0x127f,0x1200},{0x127f,0x1206},{0x147f,0x1400},{0x147f,0x1406},{0x187f,0x0020},{0x187f,0x1800},
  {0x187f,0x1806},{0x187f,0x181c},{0x20ff,0x2080},{0x20ff,0x2086},{0x217f,0x2100},{0x217f,0x2106},{0x227f,0x2200},{0x227f,0x2206},{0x247f,0x2400},{0x247f,0x2406},
  {0x287f,0x2800},{0x287f,0x2806},{0x287f,0x281c},{0x307f,0x3000},{0x307f,0x3006},{0x307f,0x301c},{0x386f,0x380c},{0x3877,0x3814},{0x40ff,0x4080},{0x40ff,0x4086},
  {0x417f,0x4100},{0x417f,0x4106},{0x427f,0x4200},{0x427f,0x4206},{0x447f,0x4400},{0x447f,0x4406},{0x487f,0x4800},{0x487f,0x4806},{0x487f,0x481c},{0x507f,0x5000},
  {0x507f,0x5006},{0x507f,0x501c},{0x586f,0x580c},{0x5877,0x5814},{0x607f,0x0040},{0x607f,0x6000},{0x607f,0x6006},{0x607f,0x601c},{0x686f,0x680c},{0x6877,0x6814},
  {0x706f,0x700c},{0x7077,0x7014},{0x7867,0x7804},{0x03ff,0x0208},{0x03ff,0x0380},{0x03ff,0x0386},{0x03ff,0x03e2},{0x05ff,0x0408},{0x05ff,0x0580},{0x05ff,0x0586},
  {0x05ff,0x05e2},{0x06ff,0x0090},{0x06ff,0x0680},{0x06ff,0x0686},{0x06ff,0x06e2},{0x077f,0x0110},{0x077f,0x0700},{0x077f,0x0706},{0x077f,0x0762},{0x07bf,0x07a2},
  {0x07df,0x07c2},{0x09ff,0x0808},{0x09ff,0x0980},{0x09ff,0x0986},{0x0aff,0x0a80},{0x0aff,0x0a86},{0x0b7f,0x0b00},{0x0b7f,0x0b06},{0x0cff,0x0c80},{0x0cff,0x0c86},
  {0x0d7f,0x0d00},{0x0d7f,0x0d06},{0x0e7f,0x0810},{0x0e7f,0x0e00},{0x0e7f,0x0e06},{0x11ff,0x1008},{0x11ff,0x1180},{0x11ff,0x1186},{0x12ff,0x1280},{0x12ff,0x1286},
  {0x137f,0x1300},{0x137f,0x1306},{0x14ff,0x1480},{0x14ff,0x1486},{0x157f,0x1500},{0x157f,0x1506},{0x167f,0x1010},{0x167f,0x1600},{0x167f,0x1606},{0x18ff,0x00a0},
  {0x18ff,0x1880},{0x18ff,0x1886},{0x197f,0x0120},{0x197f,0x1900},{0x197f,0x1906},{0x1a7f,0x0220},{0x1a7f,0x1a00},{0x1a7f,0x1a06},{0x1c7f,0x0420},{0x1c7f,0x1c00},
  {0x1c7f,0x1c06},{0x21ff,0x2008},{0x21ff,0x2180},{0x21ff,0x2186},{0x22ff,0x2280},{0x22ff,0x2286},{0x237f,0x2300},{0x237f,0x2306},{0x24ff,0x2480},{0x24ff,0x2486},
  {0x257f,0x2500},{0x257f,0x2506},{0x267f,0x2010},{0x267f,0x2600},{0x267f,0x2606},{0x28ff,0x2880},{0x28ff,0x2886},{0x297f,0x2900},{0x297f,0x2906},{0x2a7f,0x2a00},
  {0x2a7f,0x2a06},{0x2c7f,0x2c00},{0x2c7f,0x2c06},{0x30ff,0x3080},{0x30ff,0x3086},{0x317f,0x3100},{0x317f,0x3106},{0x327f,0x3200},{0x327f,0x3206},{0x347f,0x3400},
  {0x347f,0x3406},{0x387f,0x2020},{0x387f,0x3800},{0x387f,0x3806},{0x387f,0x381c},{0x41ff,0x4008},{0x41ff,0x4180},{0x41ff,0x4186},{0x42ff,0x4280},{0x42ff,0x4286},
  {0x437f,0x4300},{0x437f,0x4306},{0x44ff,0x4480},{0x44ff,0x4486},{0x457f,0x4500},{0x457f,0x4506},{0x467f,0x4010},{0x467f,0x4600},{0x467f,0x4606},{0x48ff,0x4880},
  {0x48ff,0x4886},{0x497f,0x4900},{0x497f,0x4906},{0x4a7f,0x4a00},{0x4a7f,0x4a06},{0x4c7f,0x4c00},{0x4c7f,0x4c06},{0x50ff,0x5080},{0x50ff,0x5086},{0x517f,0x5100},
  {0x517f,0x5106},{0x527f,0x5200},{0x527f,0x5206},{0x547f,0x5400},{0x547f,0x5406},{0x587f,0x4020},{0x587f,0x5800},{0x587f,0x5806},{0x587f,0x581c},{0x60ff,0x00c0},
  {0x60ff,0x6080},{0x60ff,0x6086},{0x617f,0x0140},{0x617f,0x6100},{0x617f,0x6106},{0x627f,0x0240},{0x627f,0x6200},{0x627f,0x6206},{0x647f,0x0440},{0x647f,0x6400},
  {0x647f,0x6406},{0x687f,0x0840},{0x687f,0x6800},{0x687f,0x6806},{0x687f,0x681c},{0x707f,0x1040},{0x707f,0x7000},{0x707f,0x7006},{0x707f,0x701c},{0x786f,0x780c},
  {0x7877,0x7814},{0x07ff,0x0002},{0x07ff,0x0018},{0x07ff,0x0190},{0x07ff,0x0608},{0x07ff,0x0780},{0x07ff,0x0786},{0x07ff,0x07e2},{0x0bff,0x0a08},{0x0bff,0x0b80},
  {0x0bff,0x0b86},{0x0dff,0x0c08},{0x0dff,0x0d80},{0x0dff,0x0d86},{0x0eff,0x0890},{0x0eff,0x0e80},{0x0eff,0x0e86},{0x0f7f,0x0910},{0x0f7f,0x0f00},{0x0f7f,0x0f06},
  {0x13ff,0x1208},{0x13ff,0x1380},{0x13ff,0x1386},{0x15ff,0x1408},{0x15ff,0x1580},{0x15ff,0x1586},{0x16ff,0x1090},{0x16ff,0x1680},{0x16ff,0x1686},{0x177f,0x1110},
  {0x177f,0x1700},{0x177f,0x1706},{0x19ff,0x0028},{0x19ff,0x01a0},{0x19ff,0x1808},{0x19ff,0x1980},{0x19ff,0x1986},{0x1aff,0x02a0},{0x1aff,0x1a80},{0x1aff,0x1a86},
  {0x1b7f,0x0320},{0x1b7f,0x1b00},{0x1b7f,0x1b06},{0x1cff,0x04a0},{0x1cff,0x1c80},{0x1cff,0x1c86},{0x1d7f,0x0520},{0x1d7f,0x1d00},{0x1d7f,0x1d06},{0x1e7f,0x0030},
  {0x1e7f,0x0620},{0x1e7f,0x1810},{0x1e7f,0x1e00},{0x1e7f,0x1e06},{0x23ff,0x2208},{0x23ff,0x2380},{0x23ff,0x2386},{0x25ff,0x2408},{0x25ff,0x2580},{0x25ff,0x2586},
  {0x26ff,0x2090},{0x26ff,0x2680},{0x26ff,0x2686},{0x277f,0x2110},{0x277f,0x2700},{0x277f,0x2706},{0x29ff,0x2808},{0x29ff,0x2980},{0x29ff,0x2986},{0x2aff,0x2a80},
  {0x2aff,0x2a86},{0x2b7f,0x2b00},{0x2b7f,0x2b06},{0x2cff,0x2c80},{0x2cff,0x2c86},{0x2d7f,0x2d00},{0x2d7f,0x2d06},{0x2e7f,0x2810},{0x2e7f,0x2e00},{0x2e7f,0x2e06},
  {0x31ff,0x3008},{0x31ff,0x3180},{0x31ff,0x3186},{0x32ff,0x3280},{0x32ff,0x3286},{0x337f,0x3300},{0x337f,0x3306},{0x34ff,0x3480},{0x34ff,0x3486},{0x357f,0x3500},
  {0x357f,0x3506},{0x367f,0x3010},{0x367f,0x3600},{0x367f,0x3606},{0x38ff,0x20a0},{0x38ff,0x3880},{0x38ff,0x3886},{0x397f,0x2120},{0x397f,0x3900},{0x397f,0x3906},
  {0x3a7f,0x2220},{0x3a7f,0x3a00},{0x3a7f,0x3a06},{0x3c7f,0x2420},{0x3c7f,0x3c00},{0x3c7f,0x3c06},{0x43ff,0x4208},{0x43ff,0x4380},{0x43ff,0x4386},{0x45ff,0x4408},
  {0x45ff,0x4580},{0x45ff,0x4586},{0x46ff,0x4090},{0x46ff,0x4680},{0x46ff,0x4686},{0x477f,0x4110},{0x477f,0x4700},{0x477f,0x4706},{0x49ff,0x4808},{0x49ff,0x4980},
  {0x49ff,0x4986},{0x4aff,0x4a80},{0x4aff,0x4a86},{0x4b7f,0x4b00},{0x4b7f,0x4b06},{0x4cff,0x4c80},{0x4cff,0x4c86},{0x4d7f,0x4d00},{0x4d7f,0x4d06},{0x4e7f,0x4810},
  {0x4e7f,0x4e00},{0x4e7f,0x4e06},{0x51ff,0x5008},{0x51ff,0x5180},{0x51ff,0x5186},{0x52ff,0x5280},{0x52ff,0x5286},{0x537f,0x5300},{0x537f,0x5306},{0x54ff,0x5480},
  {0x54ff,0x5486},{0x557f,0x5500},{0x557f,0x5506},{0x567f,0x5010},{0x567f,0x5600},{0x567f,0x5606},{0x58ff,0x40a0},{0x58ff,0x5880},{0x58ff,0x5886},{0x597f,0x4120},
  {0x597f,0x5900},{0x597f,0x5906},{0x5a7f,0x4220},{0x5a7f,0x5a00},{0x5a7f,0x5a06},{0x5c7f,0x4420},{0x5c7f,0x5c00},{0x5c7f,0x5c06},{0x61ff,0x0048},{0x61ff,0x01c0},
  {0x61ff,0x6008},{0x61ff,0x6180},{0x61ff,0x6186},{0x62ff,0x02c0},{0x62ff,0x6280},{0x62ff,0x6286},{0x637f,0x0340},{0x637f,0x6300},{0x637f,0x6306},{0x64ff,0x04c0},
  {0x64ff,0x6480},{0x64ff,0x6486},{0x657f,0x0540},{0x657f,0x6500},{0x657f,0x6506},{0x667f,0x0050},{0x667f,0x0640},{0x667f,0x6010},{0x667f,0x6600},{0x667f,0x6606},
  {0x68ff,0x08c0},{0x68ff,0x6880},{0x68ff,0x6886},{0x697f,0x0940},{0x697f,0x6900},{0x697f,0x6906},{0x6a7f,0x0a40},{0x6a7f,0x6a00},{0x6a7f,0x6a06},{0x6c7f,0x0c40},
  {0x6c7f,0x6c00},{0x6c7f,0x6c06},{0x70ff,0x10c0},{0x70ff,0x7080},{0x70ff,0x7086},{0x717f,0x1140},{0x717f,0x7100},{0x717f,0x7106},{0x727f,0x1240},{0x727f,0x7200},
  {0x727f,0x7206},{0x747f,0x1440},{0x747f,0x7400},{0x747f,0x7406},{0x787f,0x0004},{0x787f,0x0060},{0x787f,0x1840},{0x787f,0x6020},{0x787f,0x7800},{0x787f,0x7806},
  {0x787f,0x781c},{0x0fff,0x0802},{0x0fff,0x0818},{0x0fff,0x0990},{0x0fff,0x0e08},{0x0fff,0x0f80},{0x0fff,0x0f86},{0x17ff,0x1002},{0x17ff,0x1018},{0x17ff,0x1190},
  {0x17ff,0x1608},{0x17ff,0x1780},{0x17ff,0x1786},{0x1bff,0x0228},{0x1bff,0x03a0},{0x1bff,0x1a08},{0x1bff,0x1b80},{0x1bff,0x1b86},{0x1dff,0x0428},{0x1dff,0x05a0},
  {0x1dff,0x1c08},{0x1dff,0x1d80},{0x1dff,0x1d86},{0x1eff,0x00b0},{0x1eff,0x06a0},{0x1eff,0x1890},{0x1eff,0x1e80},{0x1eff,0x1e86},{0x1f7f,0x0130},{0x1f7f,0x0720},
  {0x1f7f,0x1910},{0x1f7f,0x1f00},{0x1f7f,0x1f06},{0x27ff,0x2002},{0x27ff,0x2018},{0x27ff,0x2190},{0x27ff,0x2608},{0x27ff,0x2780},{0x27ff,0x2786},{0x2bff,0x2a08},
  {0x2bff,0x2b80},{0x2bff,0x2b86},{0x2dff,0x2c08},{0x2dff,0x2d80},{0x2dff,0x2d86},{0x2eff,0x2890},{0x2eff,0x2e80},{0x2eff,0x2e86},{0x2f7f,0x2910},{0x2f7f,0x2f00},
  {0x2f7f,0x2f06},{0x33ff,0x3208},{0x33ff,0x3380},{0x33ff,0x3386},{0x35ff,0x3408},{0x35ff,0x3580},{0x35ff,0x3586},{0x36ff,0x3090},{0x36ff,0x3680},{0x36ff,0x3686},
  {0x377f,0x3110},{0x377f,0x3700},{0x377f,0x3706},{0x39ff,0x2028},{0x39ff,0x21a0},{0x39ff,0x3808},{0x39ff,0x3980},{0x39ff,0x3986},{0x3aff,0x22a0},{0x3aff,0x3a80},
  {0x3aff,0x3a86},{0x3b7f,0x2320},{0x3b7f,0x3b00},{0x3b7f,0x3b06},{0x3cff,0x24a0},{0x3cff,0x3c80},{0x3cff,0x3c86},{0x3d7f,0x2520},{0x3d7f,0x3d00},{0x3d7f,0x3d06},
  {0x3e7f,0x2030},{0x3e7f,0x2620},{0x3e7f,0x3810},{0x3e7f,0x3e00},{0x3e7f,0x3e06},{0x47ff,0x4002},{0x47ff,0x4018},{0x47ff,0x4190},{0x47ff,0x4608},{0x47ff,0x4780},
  {0x47ff,0x4786},{0x4bff,0x4a08},{0x4bff,0x4b80},{0x4bff,0x4b86},{0x4dff,0x4c08},{0x4dff,0x4d80},{0x4dff,0x4d86},{0x4eff,0x4890},{0x4eff,0x4e80},{0x4eff,0x4e86},
  {0x4f7f,0x4910},{0x4f7f,0x4f00},{0x4f7f,0x4f06},{0x53ff,0x5208},{0x53ff,0x5380},{0x53ff,0x5386},{0x55ff,0x5408},{0x55ff,0x5580},{0x55ff,0x5586},{0x56ff,0x5090},
  {0x56ff,0x5680},{0x56ff,0x5686},{0x577f,0x5110},{0x577f,0x5700},{0x577f,0x5706},{0x59ff,0x4028},{0x59ff,0x41a0},{0x59ff,0x5808},{0x59ff,0x5980},{0x59ff,0x5986},
  {0x5aff,0x42a0},{0x5aff,0x5a80},{0x5aff,0x5a86},{0x5b7f,0x4320},{0x5b7f,0x5b00},{0x5b7f,0x5b06},{0x5cff,0x44a0},{0x5cff,0x5c80},{0x5cff,0x5c86},{0x5d7f,0x4520},
  {0x5d7f,0x5d00},{0x5d7f,0x5d06},{0x5e7f,0x4030},{0x5e7f,0x4620},{0x5e7f,0x5810},{0x5e7f,0x5e00},{0x5e7f,0x5e06},{0x63ff,0x0248},{0x63ff,0x03c0},{0x63ff,0x6208},
  {0x63ff,0x6380},{0x63ff,0x6386},{0x65ff,0x0448},{0x65ff,0x05c0},{0x65ff,0x6408},{0x65ff,0x6580},{0x65ff,0x6586},{0x66ff,0x00d0},{0x66ff,0x06c0},{0x66ff,0x6090},
  {0x66ff,0x6680},{0x66ff,0x6686},{0x677f,0x0150},{0x677f,0x0740},{0x677f,0x6110},{0x677f,0x6700},{0x677f,0x6706},{0x69ff,0x0848},{0x69ff,0x09c0},{0x69ff,0x6808},
  {0x69ff,0x6980},{0x69ff,0x6986},{0x6aff,0x0ac0},{0x6aff,0x6a80},{0x6aff,0x6a86},{0x6b7f,0x0b40},{0x6b7f,0x6b00},{0x6b7f,0x6b06},{0x6cff,0x0cc0},{0x6cff,0x6c80},
  {0x6cff,0x6c86},{0x6d7f,0x0d40},{0x6d7f,0x6d00},{0x6d7f,0x6d06},{0x6e7f,0x0850},{0x6e7f,0x0e40},{0x6e7f,0x6810},{0x6e7f,0x6e00},{0x6e7f,0x6e06},{0x71ff,0x1048},
  {0x71ff,0x11c0},{0x71ff,0x7008},{0x71ff,0x7180},{0x71ff,0x7186},{0x72ff,0x12c0},{0x72ff,0x7280},{0x72ff,0x7286},{0x737f,0x1340},{0x737f,0x7300},{0x737f,0x7306},
  {0x74ff,0x14c0},{0x74ff,0x7480},{0x74ff,0x7486},{0x757f,0x1540},{0x757f,0x7500},{0x757f,0x7506},{0x767f,0x1050},{0x767f,0x1640},{0x767f,0x7010},{0x767f,0x7600},
  {0x767f,0x7606},{0x78ff,0x0084},{0x78ff,0x00e0},{0x78ff,0x18c0},{0x78ff,0x60a0},{0x78ff,0x7880},{0x78ff,0x7886},{0x797f,0x0104},{0x797f,0x0160},{0x797f,0x1940},
  {0x797f,0x6120},{0x797f,0x7900},{0x797f,0x7906},{0x7a7f,0x0204},{0x7a7f,0x0260},{0x7a7f,0x1a40},{0x7a7f,0x6220},{0x7a7f,0x7a00},{0x7a7f,0x7a06},{0x7c7f,0x0404},
  {0x7c7f,0x0460},{0x7c7f,0x1c40},{0x7c7f,0x6420},{0x7c7f,0x7c00},{0x7c7f,0x7c06},{0x1fff,0x0022},{0x1fff,0x0038},{0x1fff,0x01b0},{0x1fff,0x0628},{0x1fff,0x07a0},
  {0x1fff,0x1802},{0x1fff,0x1818},{0x1fff,0x1990},{0x1fff,0x1e08},{0x1fff,0x1f80},{0x1fff,0x1f86},{0x2fff,0x2802},{0x2fff,0x2818},{0x2fff,0x2990},{0x2fff,0x2e08},
  {0x2fff,0x2f80},{0x2fff,0x2f86},{0x37ff,0x3002},{0x37ff,0x3018},{0x37ff,0x3190},{0x37ff,0x3608},{0x37ff,0x3780},{0x37ff,0x3786},{0x3bff,0x2228},{0x3bff,0x23a0},
  {0x3bff,0x3a08},{0x3bff,0x3b80},{0x3bff,0x3b86},{0x3dff,0x2428},{0x3dff,0x25a0},{0x3dff,0x3c08},{0x3dff,0x3d80},{0x3dff,0x3d86},{0x3eff,0x20b0},{0x3eff,0x26a0},
  {0x3eff,0x3890},{0x3eff,0x3e80},{0x3eff,0x3e86},{0x3f7f,0x2130},{0x3f7f,0x2720},{0x3f7f,0x3910},{0x3f7f,0x3f00},{0x3f7f,0x3f06},{0x4fff,0x4802},{0x4fff,0x4818},
  {0x4fff,0x4990},{0x4fff,0x4e08},{0x4fff,0x4f80},{0x4fff,0x4f86},{0x57ff,0x5002},{0x57ff,0x5018},{0x57ff,0x5190},{0x57ff,0x5608},{0x57ff,0x5780},{0x57ff,0x5786},
  {0x5bff,0x4228},{0x5bff,0x43a0},{0x5bff,0x5a08},{0x5bff,0x5b80},{0x5bff,0x5b86},{0x5dff,0x4428},{0x5dff,0x45a0},{0x5dff,0x5c08},{0x5dff,0x5d80},{0x5dff,0x5d86},
  {0x5eff,0x40b0},{0x5eff,0x46a0},{0x5eff,0x5890},{0x5eff,0x5e80},{0x5eff,0x5e86},{0x5f7f,0x4130},{0x5f7f,0x4720},{0x5f7f,0x5910},{0x5f7f,0x5f00},{0x5f7f,0x5f06},
  {0x67ff,0x0042},{0x67ff,0x0058},{0x67ff,0x01d0},{0x67ff,0x0648},{0x67ff,0x07c0},{0x67ff,0x6002},{0x67ff,0x6018},{0x67ff,0x6190},{0x67ff,0x6608},{0x67ff,0x6780},
  {0x67ff,0x6786},{0x6bff,0x0a48},{0x6bff,0x0bc0},{0x6bff,0x6a08},{0x6bff,0x6b80},{0x6bff,0x6b86},{0x6dff,0x0c48},{0x6dff,0x0dc0},{0x6dff,0x6c08},{0x6dff,0x6d80},
  {0x6dff,0x6d86},{0x6eff,0x08d0},{0x6eff,0x0ec0},{0x6eff,0x6890},{0x6eff,0x6e80},{0x6eff,0x6e86},{0x6f7f,0x0950},{0x6f7f,0x0f40},{0x6f7f,0x6910},{0x6f7f,0x6f00},
  {0x6f7f,0x6f06},{0x73ff,0x1248},{0x73ff,0x13c0},{0x73ff,0x7208},{0x73ff,0x7380},{0x73ff,0x7386},{0x75ff,0x1448},{0x75ff,0x15c0},{0x75ff,0x7408},{0x75ff,0x7580},
  {0x75ff,0x7586},{0x76ff,0x10d0},{0x76ff,0x16c0},{0x76ff,0x7090},{0x76ff,0x7680},{0x76ff,0x7686},{0x777f,0x1150},{0x777f,0x1740},{0x777f,0x7110},{0x777f,0x7700},
  {0x777f,0x7706},{0x79ff,0x000c},{0x79ff,0x0068},{0x79ff,0x0184},{0x79ff,0x01e0},{0x79ff,0x1848},{0x79ff,0x19c0},{0x79ff,0x6028},{0x79ff,0x61a0},{0x79ff,0x7808},
  {0x79ff,0x7980},{0x79ff,0x7986},{0x7aff,0x0284},{0x7aff,0x02e0},{0x7aff,0x1ac0},{0x7aff,0x62a0},{0x7aff,0x7a80},{0x7aff,0x7a86},{0x7b7f,0x0304},{0x7b7f,0x0360},
  {0x7b7f,0x1b40},{0x7b7f,0x6320},{0x7b7f,0x7b00},{0x7b7f,0x7b06},{0x7cff,0x0484},{0x7cff,0x04e0},{0x7cff,0x1cc0},{0x7cff,0x64a0},{0x7cff,0x7c80},{0x7cff,0x7c86},
  {0x7d7f,0x0504},{0x7d7f,0x0560},{0x7d7f,0x1d40},{0x7d7f,0x6520},{0x7d7f,0x7d00},{0x7d7f,0x7d06},{0x7e7f,0x0014},{0x7e7f,0x0070},{0x7e7f,0x0604},{0x7e7f,0x0660},
  {0x7e7f,0x1850},{0x7e7f,0x1e40},{0x7e7f,0x6030},{0x7e7f,0x6620},{0x7e7f,0x7810},{0x7e7f,0x7e00},{0x7e7f,0x7e06},{0x3fff,0x2022},{0x3fff,0x2038},{0x3fff,0x21b0},
  {0x3fff,0x2628},{0x3fff,0x27a0},{0x3fff,0x3802},{0x3fff,0x3818},{0x3fff,0x3990},{0x3fff,0x3e08},{0x3fff,0x3f80},{0x3fff,0x3f86},{0x5fff,0x4022},{0x5fff,0x4038},
  {0x5fff,0x41b0},{0x5fff,0x4628},{0x5fff,0x47a0},{0x5fff,0x5802},{0x5fff,0x5818},{0x5fff,0x5990},{0x5fff,0x5e08},{0x5fff,0x5f80},{0x5fff,0x5f86},{0x6fff,0x0842},
  {0x6fff,0x0858},{0x6fff,0x09d0},{0x6fff,0x0e48},{0x6fff,0x0fc0},{0x6fff,0x6802},{0x6fff,0x6818},{0x6fff,0x6990},{0x6fff,0x6e08},{0x6fff,0x6f80},{0x6fff,0x6f86},
  {0x77ff,0x1042},{0x77ff,0x1058},{0x77ff,0x11d0},{0x77ff,0x1648},{0x77ff,0x17c0},{0x77ff,0x7002},{0x77ff,0x7018},{0x77ff,0x7190},{0x77ff,0x7608},{0x77ff,0x7780},
  {0x77ff,0x7786},{0x7bff,0x020c},{0x7bff,0x0268},{0x7bff,0x0384},{0x7bff,0x03e0},{0x7bff,0x1a48},{0x7bff,0x1bc0},{0x7bff,0x6228},{0x7bff,0x63a0},{0x7bff,0x7a08},
  {0x7bff,0x7b80},{0x7bff,0x7b86},{0x7dff,0x040c},{0x7dff,0x0468},{0x7dff,0x0584},{0x7dff,0x05e0},{0x7dff,0x1c48},{0x7dff,0x1dc0},{0x7dff,0x6428},{0x7dff,0x65a0},
  {0x7dff,0x7c08},{0x7dff,0x7d80},{0x7dff,0x7d86},{0x7eff,0x0094},{0x7eff,0x00f0},{0x7eff,0x0684},{0x7eff,0x06e0},{0x7eff,0x18d0},{0x7eff,0x1ec0},{0x7eff,0x60b0},
  {0x7eff,0x66a0},{0x7eff,0x7890},{0x7eff,0x7e80},{0x7eff,0x7e86},{0x7f7f,0x0114},{0x7f7f,0x0170},{0x7f7f,0x0704},{0x7f7f,0x0760},{0x7f7f,0x1950},{0x7f7f,0x1f40},
  {0x7f7f,0x6130},{0x7f7f,0x6720},{0x7f7f,0x7910},{0x7f7f,0x7f00},{0x7f7f,0x7f06},{0x7fff,0x0000},{0x7fff,0x0006},{0x7fff,0x001c},{0x7fff,0x0062},{0x7fff,0x0078},
  {0x7fff,0x0194},{0x7fff,0x01f0},{0x7fff,0x060c},{0x7fff,0x0668},{0x7fff,0x0784},{0x7fff,0x07e0},{0x7fff,0x1842},{0x7fff,0x1858},{0x7fff,0x19d0},{0x7fff,0x1e48},
  {0x7fff,0x1fc0},{0x7fff,0x6022},{0x7fff,0x6038},{0x7fff,0x61b0},{0x7fff,0x6628},{0x7fff,0x67a0},{0x7fff,0x7802},{0x7fff,0x7818},{0x7fff,0x7990},{0x7fff,0x7e08},
  {0x7fff,0x7f80},{0x7fff,0x7f86},
};
#define RBT_NTAB 1082
/* first table index of the trees with n nodes (n = 0..16) */
static const unsigned short RBT_FIRST[17] = {0, 1, 2, 4, 6, 10, 18, 34, 67, 123, 213, 361, 571, 795, 967, 1055, 1082};

/* rbt.shapes: the table is complete - ANY pair of masks that describes a red-black tree on the skeleton is listed */
void h_shapes(void) {
  IN_U32(in_pm); IN_U32(in_rm); int i, ok = 1, bh[15], found = 0, n = 0;
  ASSUME(in_pm < 0x8000 && (in_rm & ~in_pm) == 0);
  for (i = 14; i >= 0; i--) {
    int l = 2 * i + 1, r = 2 * i + 2;
    int p = (in_pm >> i) & 1, red = (in_rm >> i) & 1;
    int lp = l < 15 && ((in_pm >> l) & 1), rp = r < 15 && ((in_pm >> r) & 1);
    int bl = lp ? bh[l] : 0, br = rp ? bh[r] : 0;
    bh[i] = 0;
    if (!p && (lp || rp)) ok = 0;                     /* a present node has a present parent */
    if (p) {
      n++;
      if (bl != br) ok = 0;
      if (red && ((lp && ((in_rm >> l) & 1)) || (rp && ((in_rm >> r) & 1)))) ok = 0;
      bh[i] = bl + !red;
    }
  }
  if (in_rm & 1) ok = 0;                              /* root black */
  ASSUME(ok);
  for (i = 0; i < RBT_NTAB; i++) if (RBT_TAB[i][0] == in_pm && RBT_TAB[i][1] == in_rm) { found++; CHECK(i >= RBT_FIRST[n] && i < RBT_FIRST[n + 1], "RBT_TAB: sorted by node count, RBT_FIRST is its index"); }
  CHECK(found == 1, "RBT_TAB lists every red-black tree of height <= 4 exactly once");
  CANARY();
}

static int e_n; static int e_next;
static void e_inorder(int pos) { if (pos >= 15 || !pres[pos]) return; e_inorder(2 * pos + 1); key0[pos] = 2 * (uint64_t)(++e_next); e_inorder(2 * pos + 2); }
/* decode table entry c: colours, in-order keys 2,4,..,2n, values 3*key+1 */
static void e_decode(int c) {
  unsigned pm = RBT_TAB[c][0], rm = RBT_TAB[c][1]; int i;
  e_n = 0;
  for (i = 0; i < 15; i++) { pres[i] = (pm >> i) & 1; col0[i] = ((rm >> i) & 1) ? RB_RED : RB_BLACK; sk[i] = &e_pool[i]; e_n += pres[i]; }
  e_next = 0; e_inorder(0);
  for (i = 0; i < 15; i++) if (pres[i]) { items[i].num = key0[i]; val0[i].ui = key0[i] * 3 + 1; }
}
/* (re)build the decoded tree in the pool */
static void e_build(rb_tree_t *t) {
  int i;
  g_ptrkeys = 1; g_badarg = 0; g_arg_expect = &g_argobj; g_frees = 0; g_mallocs = 0; g_last_freed = NULL; w_rec = 1;
  for (i = 0; i < 15; i++) if (pres[i]) {
    int l = 2 * i + 1, r = 2 * i + 2; rb_node_t *nd = &e_pool[i];
    nd->key.ptr = &items[i]; nd->val = val0[i]; nd->color = col0[i];
    nd->parent = (i == 0) ? NIL : &e_pool[(i - 1) / 2];
    nd->left = (l < 15 && pres[l]) ? &e_pool[l] : NIL;
    nd->right = (r < 15 && pres[r]) ? &e_pool[r] : NIL;
  }
  t->root = pres[0] ? &e_pool[0] : NIL; t->size = (size_t)e_n; t->compare = item_cmp; t->arg = &g_argobj;
}
#ifndef E_LO
#define E_LO 0
#endif
#ifndef E_HI
#define E_HI 34
#endif
static unsigned e_runs, e_grew, e_rootch;

/* rbt.put.e*: for every tree and every x in 1..2n+1 (odd = a gap or an end, even = a member) */
void h_put_enum(void) {
  int c;
  e_runs = 0; e_grew = 0;
  for (c = E_LO; c < E_HI; c++) {
    uint64_t x;
    e_decode(c);
    for (x = 1; x <= 2 * (uint64_t)e_n + 1; x++) {
      rb_tree_t t; int r, i, ok = 1; size_t lt = (size_t)((x - 1) / 2);   /* number of members < x */
      e_build(&t);
      items[15].num = x;
      r = rb_set_put(&t, &items[15]);
      CHECK(r == (int)(x & 1), "set_put: 1 iff new");
      inv_walk(&t, x, 6);
      CHECK(w_bad == 0 && sentinel_clean() && !g_badarg, "put: red-black tree afterwards");
      CHECK(w_cnt == t.size && t.size == (size_t)e_n + (x & 1) && w_seen == 1, "put: size, x is a member once");
      for (i = 0; i < 16; i++) if ((size_t)i < w_cnt) {
        uint64_t want = (x & 1) ? ((size_t)i < lt ? 2 * ((uint64_t)i + 1) : (size_t)i == lt ? x : 2 * (uint64_t)i) : 2 * ((uint64_t)i + 1);
        if (w_keys[i] != want) ok = 0;
        if (w_vals[i] != (want == x && (x & 1) ? 0 : want * 3 + 1)) ok = 0;
      }
      CHECK(ok, "put: the in-order key sequence is the old one with x inserted in place; every key keeps its value, the new one has 0");
      CHECK(g_mallocs == (unsigned)(x & 1) && g_frees == 0, "put: allocates one node iff new, releases none");
      e_runs++; if (t.root != (pres[0] ? &e_pool[0] : NIL)) e_grew++;
    }
  }
  CHECK(e_runs > 0, "put: runs");
  CHECK(E_LO > 2 || E_HI <= 2 || e_grew > 0, "put: coverage - some insertion replaced the root");
  CANARY();
}

/* rbt.del.e*: for every tree and every x in 1..2n+1 (even = a member, odd = not a member) */
void h_del_enum(void) {
  int c;
  e_runs = 0; e_rootch = 0;
  for (c = E_LO; c < E_HI; c++) {
    uint64_t x;
    e_decode(c);
    for (x = 1; x <= 2 * (uint64_t)e_n + 1; x++) {
      rb_tree_t t; int i, ok = 1, was = !(x & 1); void *r; item_t probe; size_t m = (size_t)(x / 2);   /* x == 2m */
      e_build(&t);
      probe.num = x;
      r = rb_set_del(&t, &probe);
      if (was) {
        int px = -1; for (i = 0; i < 15; i++) if (pres[i] && key0[i] == x) px = i;
        CHECK(r == (void *)&items[px], "set_del: returns the stored item");
      } else CHECK(r == NULL, "set_del: NULL for a non-member");
      inv_walk(&t, x, 5);
      CHECK(w_bad == 0 && sentinel_clean() && !g_badarg, "del: red-black tree afterwards");
      CHECK(w_cnt == t.size && t.size == (size_t)e_n - was && w_seen == 0, "del: size, x is not a member");
      for (i = 0; i < 16; i++) if ((size_t)i < w_cnt) {
        uint64_t want = (was && (size_t)i + 1 >= m) ? 2 * ((uint64_t)i + 2) : 2 * ((uint64_t)i + 1);
        if (w_keys[i] != want || w_vals[i] != want * 3 + 1) ok = 0;
      }
      CHECK(ok, "del: the in-order key sequence is the old one without x; every key keeps its value");
      CHECK(g_frees == (unsigned)was && g_mallocs == 0, "del: releases one node iff x was a member");
      e_runs++; if (t.root != (pres[0] ? &e_pool[0] : NIL)) e_rootch++;
    }
  }
  CHECK(e_runs > 0, "del: runs");
  CHECK(E_HI <= 1 || e_rootch > 0, "del: coverage - some removal replaced the root");
  CANARY();
}

/* rbt.walk.e*: iteration in both directions, seek for every key position, copy and clear */
static unsigned g_copy_calls, g_clear_calls;
static void cb_copy(rb_node_t *z, const rb_node_t *x) { g_copy_calls++; (void)z; (void)x; }
static void cb_clear(rb_node_t *n) { g_clear_calls++; (void)n; }
void h_walk_enum(void) {
  int c;
  e_runs = 0;
  for (c = E_LO; c < E_HI; c++) {
    rb_tree_t t, z; rb_iter_t it; uint64_t x; int i, ok = 1; unsigned cnt;
    e_decode(c); e_build(&t);
    cnt = 0;
    rb_tree_each(&t, it) { if (cnt >= 16 || ((const item_t *)rb_key_ptr(it))->num != 2 * ((uint64_t)cnt + 1)) ok = 0; cnt++; if (cnt > 16) break; }
    CHECK(ok && cnt == (unsigned)e_n, "first..next visits every member exactly once, in ascending order");
    cnt = 0;
    rb_iter_backwards(&it) { if (cnt >= 16 || ((const item_t *)rb_key_ptr(it))->num != 2 * ((uint64_t)e_n - cnt)) ok = 0; cnt++; if (cnt > 16) break; }
    CHECK(ok && cnt == (unsigned)e_n, "last..prev visits every member exactly once, in descending order");
    for (x = 1; x <= 2 * (uint64_t)e_n + 1; x++) {
      item_t probe; uint64_t want = x + (x & 1);    /* first member >= x */
      probe.num = x;
      rb_iter_seek(&it, rb_ptr(&probe));
      if (want <= 2 * (uint64_t)e_n) { if (!rb_iter_valid(&it) || ((const item_t *)rb_key_ptr(it))->num != want) ok = 0; }
      else if (rb_iter_valid(&it)) ok = 0;
      if (rb_set_has(&t, &probe) != !(x & 1)) ok = 0;
    }
    CHECK(ok && !g_badarg, "seek(x) lands on the first member >= x (invalid if none); has(x) exactly for members");
    g_copy_calls = 0; g_clear_calls = 0;
    rb_tree_copy(&z, &t, cb_copy);
    inv_walk(&z, 0, 5);
    CHECK(w_bad == 0 && w_cnt == (size_t)e_n && z.size == t.size && g_copy_calls == (unsigned)e_n && g_mallocs == (unsigned)e_n, "copy: a red-black tree of the same size in nodes of its own");
    for (i = 0; i < 16; i++) if ((size_t)i < w_cnt && (w_keys[i] != 2 * ((uint64_t)i + 1) || w_vals[i] != w_keys[i] * 3 + 1)) ok = 0;
    CHECK(ok, "copy: same keys and values");
    rb_tree_clear(&t, cb_clear);
    CHECK((t.root == NIL || t.root == NULL) && t.size == 0 && g_clear_calls == (unsigned)e_n && g_frees == (unsigned)e_n, "clear: empty, callback once per member, every node released once");
    inv_walk(&z, 0, 5);
    CHECK(w_bad == 0 && w_cnt == (size_t)e_n && sentinel_clean(), "clearing the source leaves the copy intact");
    e_runs++;
  }
  CHECK(e_runs > 0, "walk: runs");
  CANARY();
}
#endif
