/* units/fmt.c - proof units for src/dbformat.c (C01, C06, C07, C16, C18)
 *
 * The real dbformat.c is included unmodified.  Internal key format (LevelDB
 * doc/impl + dbformat.h):   internal_key := user_key ‖ LE64(sequence << 8 | type)
 * with type 1 = value, 0 = deletion, sequence < 2^56.  Internal order:
 * user key ascending (user comparator), then the 64-bit tag DESCENDING.
 *
 * The user comparator / user filter policy are stubs with ghost state: they
 * check the arguments they are handed and return a value chosen by the harness
 * (arbitrary), so the contracts hold for every user comparator.
 */
#include "verif.h"
#include "contracts/coding.h"
#include "contracts/buf.h"

#include "util/bloom.h"
#include "util/buffer.h"
#include "util/coding.h"
#include "util/comparator.h"
#include "util/internal.h"
#include "util/slice.h"
#include "dbformat.h"

/* ------------------------------------------------------------------ ghost */
/* user comparator stub */
ldb_comparator_t g_uc;            /* the user comparator object                  */
int g_uc_calls;                   /* compare calls                               */
int g_uc_ret;                     /* what compare returns (arbitrary, harness)   */
const uint8_t *g_uc_xd; size_t g_uc_xn; const uint8_t *g_uc_yd; size_t g_uc_yn; /* expected arguments */

static int stub_ucmp(const ldb_comparator_t *c, const ldb_slice_t *x, const ldb_slice_t *y) {
  __CPROVER_assert(c == &g_uc, "ikc: the user comparator is called with itself as context");
  __CPROVER_assert(__CPROVER_r_ok(x, sizeof(*x)) && __CPROVER_r_ok(y, sizeof(*y)), "ikc: user comparator gets readable slices");
  __CPROVER_assert(x->data == g_uc_xd && x->size == g_uc_xn, "ikc: left operand of the user comparison is exactly the user key of x (all but the last 8 bytes)");
  __CPROVER_assert(y->data == g_uc_yd && y->size == g_uc_yn, "ikc: right operand of the user comparison is exactly the user key of y (all but the last 8 bytes)");
  g_uc_calls++;
  return g_uc_ret;
}

/* user filter policy stub */
ldb_bloom_t g_up;
int g_up_calls; int g_up_ret;
const ldb_slice_t *g_up_filter; const uint8_t *g_up_kd; size_t g_up_kn;
ldb_buffer_t *g_up_dst; const ldb_slice_t *g_up_keys; size_t g_up_len;
size_t g_up_j; size_t g_up_jsize; const uint8_t *g_up_jdata;   /* ghost index into keys[] */

static int stub_umatch(const ldb_bloom_t *b, const ldb_slice_t *filter, const ldb_slice_t *key) {
  __CPROVER_assert(b == &g_up, "ifp: the user policy is called with itself as context");
  __CPROVER_assert(filter == g_up_filter, "ifp_match: the filter is passed through unchanged");
  __CPROVER_assert(__CPROVER_r_ok(key, sizeof(*key)), "ifp_match: key slice readable");
  __CPROVER_assert(key->data == g_up_kd && key->size == g_up_kn, "ifp_match: the user policy sees the internal key minus exactly its 8-byte trailer");
  g_up_calls++;
  return g_up_ret;
}
static void stub_ubuild(const ldb_bloom_t *b, ldb_buffer_t *dst, const ldb_slice_t *keys, size_t length) {
  __CPROVER_assert(b == &g_up, "ifp: the user policy is called with itself as context");
  __CPROVER_assert(dst == g_up_dst && keys == g_up_keys && length == g_up_len, "ifp_build: dst, key array and count are passed through");
  if (g_up_j < length)
    __CPROVER_assert(keys[g_up_j].size == g_up_jsize - 8 && keys[g_up_j].data == g_up_jdata,
                     "ifp_build: every key handed to the user policy is the internal key minus exactly its 8-byte trailer");
  g_up_calls++;
}

#include "dbformat.c"

/* ------------------------------------------------------------------ spec */
#define SIGN(v) ((v) < 0 ? -1 : (v) > 0 ? 1 : 0)
#define PACK(seq, type) ((((uint64_t)(seq)) << 8) | (uint64_t)(type))
#define SEQ_MAX ((((uint64_t)1) << 56) - 1)
#define SL_OK(x) (__CPROVER_r_ok(x, sizeof(*(x))) && ((x)->size == 0 || __CPROVER_r_ok((x)->data, (x)->size)))
#define IK_TAG(x) LE64_AT((x)->data + (x)->size - 8)

/* =========================================================== pack_seqtype */
uint64_t c_pack_seqtype(uint64_t sequence, ldb_valtype_t type)
__CPROVER_requires(sequence <= SEQ_MAX && (type == LDB_TYPE_VALUE || type == LDB_TYPE_DELETION))
__CPROVER_assigns()
__CPROVER_ensures(__CPROVER_return_value == PACK(sequence, type))
__CPROVER_ensures((__CPROVER_return_value >> 8) == sequence && (__CPROVER_return_value & 0xff) == (uint64_t)type)
;
void h_pack(void) {
  IN_U64(in_seq); IN_U32(in_type); uint64_t r;
  ASSUME(in_seq <= SEQ_MAX && in_type <= 1);
  r = pack_seqtype(in_seq, (ldb_valtype_t)in_type);
  CANARY();
}

/* ============================================================ ikc_compare */
int c_ikc_compare(const ldb_comparator_t *ikc, const ldb_slice_t *x, const ldb_slice_t *y)
__CPROVER_requires(__CPROVER_r_ok(ikc, sizeof(*ikc)) && ikc->user_comparator == &g_uc && g_uc.compare == stub_ucmp)
__CPROVER_requires(SL_OK(x) && SL_OK(y) && x->size >= 8 && y->size >= 8)
__CPROVER_requires(g_uc_calls == 0 && g_uc_xd == x->data && g_uc_xn == x->size - 8 && g_uc_yd == y->data && g_uc_yn == y->size - 8)
__CPROVER_assigns(g_uc_calls)
/* the user keys are compared exactly once (argument identity is checked in the stub) */
__CPROVER_ensures(g_uc_calls == 1)
/* user order first, ascending */
__CPROVER_ensures(g_uc_ret != 0 ==> SIGN(__CPROVER_return_value) == SIGN(g_uc_ret))
/* then the tag (sequence << 8 | type) as one 64-bit number, DESCENDING: newer first, value before deletion */
__CPROVER_ensures(g_uc_ret == 0 ==> __CPROVER_return_value == (IK_TAG(x) > IK_TAG(y) ? -1 : IK_TAG(x) < IK_TAG(y) ? 1 : 0))
;
void h_ikc_compare(void) {
  ldb_comparator_t ikc; ldb_slice_t x, y; int r;
  IN_SIZE(in_xn); IN_SIZE(in_yn); IN_INT(in_ucmp);
  IN_BUF(xb, in_xn); IN_BUF(yb, in_yn);
  ASSUME(in_xn >= 8 && in_yn >= 8);
  g_uc.name = "stub"; g_uc.compare = stub_ucmp; g_uc.shortest_separator = NULL; g_uc.short_successor = NULL; g_uc.user_comparator = NULL; g_uc.state = NULL;
  ldb_ikc_init(&ikc, &g_uc);
  CHECK(ikc.compare == ldb_ikc_compare && ikc.user_comparator == &g_uc, "ikc_init: binds the internal comparison and the user comparator");
  CHECK(ikc.shortest_separator == NULL && ikc.short_successor == NULL, "ikc_init: no key shortening when the user comparator has none");
  x.data = xb; x.size = in_xn; x.alloc = 0; y.data = yb; y.size = in_yn; y.alloc = 0;
  g_uc_calls = 0; g_uc_ret = in_ucmp; g_uc_xd = xb; g_uc_xn = in_xn - 8; g_uc_yd = yb; g_uc_yn = in_yn - 8;
  r = ldb_ikc_compare(&ikc, &x, &y);
  CANARY();
}

/* ============================================================ pkey_import */
/* ParseInternalKey: fails iff shorter than the 8-byte trailer or type byte > 1 */
#define PKEY_IMPORT_OK(x) ((x)->size >= 8 && (x)->data[(x)->size - 8] <= 1)
int c_pkey_import(ldb_pkey_t *z, const ldb_slice_t *x)
__CPROVER_requires(__CPROVER_rw_ok(z, sizeof(*z)) && SL_OK(x))
__CPROVER_assigns(*z)
__CPROVER_ensures(__CPROVER_return_value == (PKEY_IMPORT_OK(x) ? 1 : 0))
__CPROVER_ensures(__CPROVER_return_value == 1 ==> (z->user_key.data == x->data && z->user_key.size == x->size - 8 && z->user_key.alloc == 0))
__CPROVER_ensures(__CPROVER_return_value == 1 ==> (z->sequence == (IK_TAG(x) >> 8) && (uint64_t)z->type == (IK_TAG(x) & 0xff)))
__CPROVER_ensures(__CPROVER_return_value == 1 ==> PACK(z->sequence, z->type) == IK_TAG(x))
__CPROVER_ensures(__CPROVER_return_value == 0 ==> (z->user_key.data == __CPROVER_old(z->user_key.data) && z->user_key.size == __CPROVER_old(z->user_key.size) &&
                                                   z->sequence == __CPROVER_old(z->sequence) && z->type == __CPROVER_old(z->type)))
;
void h_pkey_import(void) {
  ldb_pkey_t z; ldb_slice_t x; int r;
  IN_SIZE(in_n); IN_U64(in_zseq); IN_BUF(buf, in_n); SNAP_BUF(buf, in_n);
  z.user_key.data = NULL; z.user_key.size = 77; z.user_key.alloc = 0; z.sequence = in_zseq; z.type = LDB_TYPE_VALUE;
  x.data = buf; x.size = in_n; x.alloc = 0;
  r = ldb_pkey_import(&z, &x);
  CANARY();
}
