/* units/fmt.c - proof units for src/dbformat.c (C01, C06, C07, C16, C18)
 *
 * The real dbformat.c is included unmodified.  Internal key format (LevelDB
 * doc/impl + dbformat.h):   internal_key := user_key ‖ LE64(sequence << 8 | type)
 * with type 1 = value, 0 = deletion, sequence < 2^56.  Internal order:
 * user key ascending (user comparator), then the 64-bit tag DESCENDING.
 *
 * The user comparator / user filter policy are stubs with ghost state: they
 * check the arguments they are handed and return a value chosen by the harness
 * (arbitrary), so the contracts hold for every user comparator.
 */
#include "verif.h"
#include "contracts/coding.h"
#include "contracts/buf.h"

#include "util/bloom.h"
#include "util/buffer.h"
#include "util/coding.h"
#include "util/comparator.h"
#include "util/internal.h"
#include "util/slice.h"
#include "dbformat.h"

/* ------------------------------------------------------------------ ghost */
/* user comparator stub */
ldb_comparator_t g_uc;            /* the user comparator object                  */
int g_uc_calls;                   /* compare calls                               */
int g_uc_ret;                     /* what compare returns (arbitrary, harness)   */
const uint8_t *g_uc_xd; size_t g_uc_xn; const uint8_t *g_uc_yd; size_t g_uc_yn; /* expected arguments */

static int stub_ucmp(const ldb_comparator_t *c, const ldb_slice_t *x, const ldb_slice_t *y) {
  __CPROVER_assert(c == &g_uc, "ikc: the user comparator is called with itself as context");
  __CPROVER_assert(__CPROVER_r_ok(x, sizeof(*x)) && __CPROVER_r_ok(y, sizeof(*y)), "ikc: user comparator gets readable slices");
  __CPROVER_assert(x->data == g_uc_xd && x->size == g_uc_xn, "ikc: left operand of the user comparison is exactly the user key of x (all but the last 8 bytes)");
  __CPROVER_assert(y->data == g_uc_yd && y->size == g_uc_yn, "ikc: right operand of the user comparison is exactly the user key of y (all but the last 8 bytes)");
  g_uc_calls++;
  return g_uc_ret;
}

/* user filter policy stub */
ldb_bloom_t g_up;
int g_up_calls; int g_up_ret;
const ldb_slice_t *g_up_filter; const uint8_t *g_up_kd; size_t g_up_kn;
ldb_buffer_t *g_up_dst; const ldb_slice_t *g_up_keys; size_t g_up_len;
size_t g_up_j; size_t g_up_jsize; const uint8_t *g_up_jdata;   /* ghost index into keys[] */

static int stub_umatch(const ldb_bloom_t *b, const ldb_slice_t *filter, const ldb_slice_t *key) {
  __CPROVER_assert(b == &g_up, "ifp: the user policy is called with itself as context");
  __CPROVER_assert(filter == g_up_filter, "ifp_match: the filter is passed through unchanged");
  __CPROVER_assert(__CPROVER_r_ok(key, sizeof(*key)), "ifp_match: key slice readable");
  __CPROVER_assert(key->data == g_up_kd && key->size == g_up_kn, "ifp_match: the user policy sees the internal key minus exactly its 8-byte trailer");
  g_up_calls++;
  return g_up_ret;
}
static void stub_ubuild(const ldb_bloom_t *b, ldb_buffer_t *dst, const ldb_slice_t *keys, size_t length) {
  __CPROVER_assert(b == &g_up, "ifp: the user policy is called with itself as context");
  __CPROVER_assert(dst == g_up_dst && keys == g_up_keys && length == g_up_len, "ifp_build: dst, key array and count are passed through");
  if (g_up_j < length)
    __CPROVER_assert(keys[g_up_j].size == g_up_jsize - 8 && keys[g_up_j].data == g_up_jdata,
                     "ifp_build: every key handed to the user policy is the internal key minus exactly its 8-byte trailer");
  g_up_calls++;
}

/* growable buffers: the real buffer.c is inlined (its contracts are enforced in group buf) */
#include "util/buffer.c"
#include "dbformat.c"

/* ------------------------------------------------------------------ spec */
#define SIGN(v) ((v) < 0 ? -1 : (v) > 0 ? 1 : 0)
#define PACK(seq, type) ((((uint64_t)(seq)) << 8) | (uint64_t)(type))
#define SEQ_MAX ((((uint64_t)1) << 56) - 1)
#define SL_OK(x) (__CPROVER_r_ok(x, sizeof(*(x))) && ((x)->size == 0 || __CPROVER_r_ok((x)->data, (x)->size)))
#define IK_TAG(x) LE64_AT((x)->data + (x)->size - 8)

/* =========================================================== pack_seqtype */
uint64_t c_pack_seqtype(uint64_t sequence, ldb_valtype_t type)
__CPROVER_requires(sequence <= SEQ_MAX && (type == LDB_TYPE_VALUE || type == LDB_TYPE_DELETION))
__CPROVER_assigns()
__CPROVER_ensures(__CPROVER_return_value == PACK(sequence, type))
__CPROVER_ensures((__CPROVER_return_value >> 8) == sequence && (__CPROVER_return_value & 0xff) == (uint64_t)type)
;
void h_pack(void) {
  IN_U64(in_seq); IN_U32(in_type); uint64_t r;
  ASSUME(in_seq <= SEQ_MAX && in_type <= 1);
  r = pack_seqtype(in_seq, (ldb_valtype_t)in_type);
  CANARY();
}

/* ============================================================ ikc_compare */
int c_ikc_compare(const ldb_comparator_t *ikc, const ldb_slice_t *x, const ldb_slice_t *y)
__CPROVER_requires(__CPROVER_r_ok(ikc, sizeof(*ikc)) && ikc->user_comparator == &g_uc && g_uc.compare == stub_ucmp)
__CPROVER_requires(SL_OK(x) && SL_OK(y) && x->size >= 8 && y->size >= 8)
__CPROVER_requires(g_uc_calls == 0 && g_uc_xd == x->data && g_uc_xn == x->size - 8 && g_uc_yd == y->data && g_uc_yn == y->size - 8)
__CPROVER_assigns(g_uc_calls)
/* the user keys are compared exactly once (argument identity is checked in the stub) */
__CPROVER_ensures(g_uc_calls == 1)
/* user order first, ascending */
__CPROVER_ensures(g_uc_ret != 0 ==> SIGN(__CPROVER_return_value) == SIGN(g_uc_ret))
/* then the tag (sequence << 8 | type) as one 64-bit number, DESCENDING: newer first, value before deletion */
__CPROVER_ensures(g_uc_ret == 0 ==> __CPROVER_return_value == (IK_TAG(x) > IK_TAG(y) ? -1 : IK_TAG(x) < IK_TAG(y) ? 1 : 0))
;
void h_ikc_compare(void) {
  ldb_comparator_t ikc; ldb_slice_t x, y; int r;
  IN_SIZE(in_xn); IN_SIZE(in_yn); IN_INT(in_ucmp);
  IN_BUF(xb, in_xn); IN_BUF(yb, in_yn);
  ASSUME(in_xn >= 8 && in_yn >= 8);
  g_uc.name = "stub"; g_uc.compare = stub_ucmp; g_uc.shortest_separator = NULL; g_uc.short_successor = NULL; g_uc.user_comparator = NULL; g_uc.state = NULL;
  ldb_ikc_init(&ikc, &g_uc);
  CHECK(ikc.compare == ldb_ikc_compare && ikc.user_comparator == &g_uc, "ikc_init: binds the internal comparison and the user comparator");
  CHECK(ikc.shortest_separator == NULL && ikc.short_successor == NULL, "ikc_init: no key shortening when the user comparator has none");
  x.data = xb; x.size = in_xn; x.alloc = 0; y.data = yb; y.size = in_yn; y.alloc = 0;
  g_uc_calls = 0; g_uc_ret = in_ucmp; g_uc_xd = xb; g_uc_xn = in_xn - 8; g_uc_yd = yb; g_uc_yn = in_yn - 8;
  r = ldb_ikc_compare(&ikc, &x, &y);
  CANARY();
}

/* ============================================================ pkey_import */
/* ParseInternalKey: fails iff shorter than the 8-byte trailer or type byte > 1 */
#define PKEY_IMPORT_OK(x) ((x)->size >= 8 && (x)->data[(x)->size - 8] <= 1)
int c_pkey_import(ldb_pkey_t *z, const ldb_slice_t *x)
__CPROVER_requires(__CPROVER_rw_ok(z, sizeof(*z)) && SL_OK(x))
__CPROVER_assigns(*z)
__CPROVER_ensures(__CPROVER_return_value == (PKEY_IMPORT_OK(x) ? 1 : 0))
__CPROVER_ensures(__CPROVER_return_value == 1 ==> (z->user_key.data == x->data && z->user_key.size == x->size - 8 && z->user_key.alloc == 0))
__CPROVER_ensures(__CPROVER_return_value == 1 ==> (z->sequence == (IK_TAG(x) >> 8) && (uint64_t)z->type == (IK_TAG(x) & 0xff)))
__CPROVER_ensures(__CPROVER_return_value == 1 ==> PACK(z->sequence, z->type) == IK_TAG(x))
__CPROVER_ensures(__CPROVER_return_value == 0 ==> (z->user_key.data == __CPROVER_old(z->user_key.data) && z->user_key.size == __CPROVER_old(z->user_key.size) &&
                                                   z->sequence == __CPROVER_old(z->sequence) && z->type == __CPROVER_old(z->type)))
;
void h_pkey_import(void) {
  ldb_pkey_t z; ldb_slice_t x; int r;
  IN_SIZE(in_n); IN_U64(in_zseq); IN_BUF(buf, in_n); SNAP_BUF(buf, in_n);
  z.user_key.data = NULL; z.user_key.size = 77; z.user_key.alloc = 0; z.sequence = in_zseq; z.type = LDB_TYPE_VALUE;
  x.data = buf; x.size = in_n; x.alloc = 0;
  r = ldb_pkey_import(&z, &x);
  CANARY();
}

/* ============================================================ pkey_export */
/* AppendInternalKey: appends user_key ‖ LE64(sequence << 8 | type) to the buffer.
 * Sizes / representation invariant for all sizes; the byte-content clauses are
 * claimed when g_bcontent is set, which restricts capacity and key length to
 * BUF_CONTENT_MAX (same convention as contracts/buf.h). */
#define PKEY_OK(x) (__CPROVER_r_ok(x, sizeof(*(x))) && (x)->user_key.size <= VERIF_OBJ_MAX && SLICE_OK(&(x)->user_key) && \
                    (x)->sequence <= SEQ_MAX && ((x)->type == LDB_TYPE_VALUE || (x)->type == LDB_TYPE_DELETION))
void c_pkey_export(ldb_buffer_t *z, const ldb_pkey_t *x)
__CPROVER_requires(__CPROVER_rw_ok(z, sizeof(*z)) && BUF_PRE(z) && BUF_KEEP_PRE(z) && PKEY_OK(x) && BUF_CONTENT_PRE(z, x->user_key.size))
__CPROVER_requires(z->alloc == 0 || !__CPROVER_same_object(z->data, x->user_key.data))
__CPROVER_assigns(z->data, z->size, z->alloc, __CPROVER_object_upto(z->data, z->alloc))
__CPROVER_frees(z->data)
__CPROVER_ensures(BUF_POST(z) && z->size == __CPROVER_old(z->size) + x->user_key.size + 8)
__CPROVER_ensures(BUF_GROW_POST(z, z->size, __CPROVER_old(z->data), __CPROVER_old(z->alloc)))
__CPROVER_ensures(g_bcontent ==> BUF_KEEP_POST(z, __CPROVER_old(z->size)))
__CPROVER_ensures(g_bcontent ==> (g_bk < x->user_key.size ==> z->data[__CPROVER_old(z->size) + g_bk] == x->user_key.data[g_bk]))
__CPROVER_ensures(g_bcontent ==> IS_LE64(z->data + __CPROVER_old(z->size) + x->user_key.size, PACK(x->sequence, x->type)))
;
#define H_PKEY_EXPORT(fname, cap, content) void fname(void) { \
  ldb_buffer_t z; ldb_pkey_t p; \
  IN_SIZE(in_alloc); IN_SIZE(in_size); IN_SIZE(in_j); IN_SIZE(in_k); IN_SIZE(in_un); IN_U64(in_seq); IN_U32(in_type); \
  IN_BUF(ukey, in_un); \
  g_bcontent = (content); \
  ASSUME(in_size <= in_alloc && in_alloc <= (cap) && in_un <= (cap) && in_seq <= SEQ_MAX && in_type <= 1); \
  z.alloc = in_alloc; z.size = in_size; z.data = in_alloc ? malloc(in_alloc) : NULL; \
  ASSUME(in_alloc == 0 || z.data != NULL); \
  g_bj = in_j; g_bk = in_k; g_bold = (in_j < in_size) ? z.data[in_j] : 0; \
  p.user_key.data = ukey; p.user_key.size = in_un; p.user_key.alloc = 0; p.sequence = in_seq; p.type = (ldb_valtype_t)in_type; \
  ldb_pkey_export(&z, &p); \
  if (in_alloc <= 64 && in_un <= 64) { CANARY(); } \
}
H_PKEY_EXPORT(h_pkey_export, VERIF_OBJ_MAX, 0)
H_PKEY_EXPORT(h_pkey_export_b, BUF_CONTENT_MAX, 1)

/* =============================================================== ikey_set */
/* InternalKey::Set: the buffer becomes exactly user_key ‖ LE64(sequence << 8 | type) */
void c_ikey_set(ldb_ikey_t *ikey, const ldb_slice_t *user_key, ldb_seqnum_t sequence, ldb_valtype_t type)
__CPROVER_requires(__CPROVER_rw_ok(ikey, sizeof(*ikey)) && BUF_PRE(ikey) && SL_OK(user_key) && user_key->size <= VERIF_OBJ_MAX)
__CPROVER_requires(sequence <= SEQ_MAX && (type == LDB_TYPE_VALUE || type == LDB_TYPE_DELETION) && BUF_CONTENT_PRE(ikey, user_key->size))
__CPROVER_requires(ikey->alloc == 0 || !__CPROVER_same_object(ikey->data, user_key->data))
__CPROVER_assigns(ikey->data, ikey->size, ikey->alloc, __CPROVER_object_upto(ikey->data, ikey->alloc))
__CPROVER_frees(ikey->data)
__CPROVER_ensures(BUF_POST(ikey) && ikey->size == user_key->size + 8)
__CPROVER_ensures(g_bcontent ==> (g_bk < user_key->size ==> ikey->data[g_bk] == user_key->data[g_bk]))
__CPROVER_ensures(g_bcontent ==> IS_LE64(ikey->data + user_key->size, PACK(sequence, type)))
;
#define H_IKEY_SET(fname, cap, content) void fname(void) { \
  ldb_buffer_t z; ldb_slice_t uk; \
  IN_SIZE(in_alloc); IN_SIZE(in_size); IN_SIZE(in_k); IN_SIZE(in_un); IN_U64(in_seq); IN_U32(in_type); \
  IN_BUF(ukey, in_un); \
  g_bcontent = (content); \
  ASSUME(in_size <= in_alloc && in_alloc <= (cap) && in_un <= (cap) && in_seq <= SEQ_MAX && in_type <= 1); \
  z.alloc = in_alloc; z.size = in_size; z.data = in_alloc ? malloc(in_alloc) : NULL; \
  ASSUME(in_alloc == 0 || z.data != NULL); \
  g_bj = 0; g_bold = 0; g_bk = in_k; \
  uk.data = ukey; uk.size = in_un; uk.alloc = 0; \
  ldb_ikey_set(&z, &uk, in_seq, (ldb_valtype_t)in_type); \
  if (in_alloc <= 64 && in_un <= 64) { CANARY(); } \
}
H_IKEY_SET(h_ikey_set, VERIF_OBJ_MAX, 0)
H_IKEY_SET(h_ikey_set_b, BUF_CONTENT_MAX, 1)

/* ================================================ pkey write/import round trip */
/* ParseInternalKey(AppendInternalKey(p)) = p on the real code, user key <= 16 bytes */
#define RT_MAX 16
void h_pkey_rt(void) {
  uint8_t out[RT_MAX + 8]; ldb_pkey_t p, q; ldb_slice_t enc; uint8_t *e; int r;
  IN_SIZE(in_un); IN_SIZE(in_k); IN_U64(in_seq); IN_U32(in_type); IN_BYTES(in_key, RT_MAX);
  ASSUME(in_un <= RT_MAX && in_seq <= SEQ_MAX && in_type <= 1);
  p.user_key.data = in_key; p.user_key.size = in_un; p.user_key.alloc = 0; p.sequence = in_seq; p.type = (ldb_valtype_t)in_type;
  CHECK(ldb_pkey_size(&p) == in_un + 8, "pkey_size: InternalKeyEncodingLength = user key + 8");
  e = ldb_pkey_write(out, &p);
  CHECK(e == out + in_un + 8, "pkey_write: writes user key + 8 bytes");
  enc.data = out; enc.size = (size_t)(e - out); enc.alloc = 0;
  r = ldb_pkey_import(&q, &enc);
  CHECK(r == 1, "pkey round trip: a written internal key parses");
  CHECK(q.sequence == in_seq && q.type == (ldb_valtype_t)in_type, "pkey round trip: sequence and type survive");
  CHECK(q.user_key.data == out && q.user_key.size == in_un, "pkey round trip: user key is the prefix");
  CHECK(!(in_k < in_un) || out[in_k] == in_key[in_k], "pkey round trip: user key bytes survive");
  CANARY();
}

/* ============================================================== lkey_init */
/* LookupKey: varint32(u + 8) ‖ user_key ‖ LE64(sequence << 8 | kValueTypeForSeek(=1));
 * built in lkey->space when u + 13 <= 200, on the heap otherwise */
#define LKEY_K(u) V32_SIZE((uint32_t)((u) + 8))
void c_lkey_init(ldb_lkey_t *lkey, const ldb_slice_t *user_key, ldb_seqnum_t sequence)
__CPROVER_requires(__CPROVER_w_ok(lkey, sizeof(*lkey)) && SL_OK(user_key) && user_key->size <= VERIF_U32_MAX - 8 && sequence <= SEQ_MAX)
__CPROVER_requires(user_key->size == 0 || !__CPROVER_same_object(lkey, user_key->data))
__CPROVER_assigns(*lkey)
/* storage: inline space iff the conservative estimate u + 13 fits in 200 bytes, else a fresh heap block of u + 13 bytes */
__CPROVER_ensures((user_key->size + 13 <= 200) == (lkey->start == lkey->space))
__CPROVER_ensures(user_key->size + 13 > 200 ==> __CPROVER_is_fresh(lkey->start, user_key->size + 13))
/* layout */
__CPROVER_ensures(lkey->kstart == lkey->start + LKEY_K(user_key->size) && lkey->end == lkey->kstart + user_key->size + 8)
/* bytes (claimed when g_bcontent is set: see the bounded twins) */
__CPROVER_ensures(g_bcontent ==> (V_WELLFORMED(lkey->start, LKEY_K(user_key->size)) && V32_VAL(lkey->start, LKEY_K(user_key->size)) == (uint32_t)(user_key->size + 8)))
__CPROVER_ensures(g_bcontent ==> IS_LE64(lkey->end - 8, PACK(sequence, 1)))
__CPROVER_ensures(g_bcontent ==> (g_bk < user_key->size ==> lkey->kstart[g_bk] == user_key->data[g_bk]))
;
#define H_LKEY_INIT(fname, lo, hi, content) void fname(void) { \
  ldb_lkey_t lk; ldb_slice_t uk, mk, ik, k; \
  IN_SIZE(in_un); IN_SIZE(in_k); IN_U64(in_seq); IN_BUF(ukey, in_un); \
  g_bcontent = (content); \
  ASSUME(in_un >= (lo) && in_un <= (hi) && in_seq <= SEQ_MAX); \
  uk.data = ukey; uk.size = in_un; uk.alloc = 0; g_bk = in_k; \
  ldb_lkey_init(&lk, &uk, in_seq); \
  mk = ldb_lkey_memtable_key(&lk); ik = ldb_lkey_internal_key(&lk); k = ldb_lkey_user_key(&lk); \
  CHECK(mk.data == lk.start && mk.size == LKEY_K(in_un) + in_un + 8, "lkey_memtable_key: the whole length-prefixed entry"); \
  CHECK(ik.data == lk.start + LKEY_K(in_un) && ik.size == in_un + 8, "lkey_internal_key: user key + 8-byte tag, after the length prefix"); \
  CHECK(k.data == ik.data && k.size == in_un, "lkey_user_key: the internal key minus its 8-byte tag"); \
  CHECK(mk.size <= in_un + 13, "lkey_init: never writes more than the u + 13 bytes it reserved"); \
  if (in_un <= 300) { CANARY(); } \
}
H_LKEY_INIT(h_lkey_init, 0, VERIF_U32_MAX - 8, 0)
/* concrete key lengths: one byte, short, 2-byte length prefix (u + 8 >= 128), last inline (u + 13 == 200), first heap */
H_LKEY_INIT(h_lkey_init_1, 1, 1, 1)
H_LKEY_INIT(h_lkey_init_5, 5, 5, 1)
H_LKEY_INIT(h_lkey_init_120, 120, 120, 1)
H_LKEY_INIT(h_lkey_init_187, 187, 187, 1)
H_LKEY_INIT(h_lkey_init_188, 188, 188, 1)

/* ============================================================= lkey_clear */
void c_lkey_clear(ldb_lkey_t *lkey)
__CPROVER_requires(__CPROVER_rw_ok(lkey, sizeof(*lkey)) && (lkey->start == lkey->space || __CPROVER_is_freeable(lkey->start)))
__CPROVER_assigns()
__CPROVER_frees(lkey->start)
__CPROVER_ensures(__CPROVER_old(lkey->start) != lkey->space ==> __CPROVER_was_freed(__CPROVER_old(lkey->start)))
__CPROVER_ensures(lkey->start == __CPROVER_old(lkey->start) && lkey->kstart == __CPROVER_old(lkey->kstart) && lkey->end == __CPROVER_old(lkey->end))
;
void h_lkey_clear(void) {
  ldb_lkey_t lk; IN_SIZE(in_heap_n); uint8_t *hp;
  if (in_heap_n > 200) {
    hp = malloc(in_heap_n); ASSUME(hp != NULL);
    lk.start = hp; lk.kstart = hp + 2; lk.end = hp + in_heap_n;
  } else {
    lk.start = lk.space; lk.kstart = lk.space + 1; lk.end = lk.space + in_heap_n;
  }
  ldb_lkey_clear(&lk);
  if (in_heap_n <= 300) { CANARY(); }
}
