/* units/dbc.c - compaction (src/db_impl.c)
 *   dbc.drop    : ldb_do_compaction_work - the DROP RULE with a ghost snapshot, smallest_snapshot, output cutting,
 *                 install only after a complete and successful run        (C01 K6, C06 S2/S3, C14, C02 O3/O4, C11, C12, C13 G3)
 *   dbc.open    : ldb_open_compaction_output_file                         (C13 G3, C12)
 *   dbc.finish  : ldb_finish_compaction_output_file                       (C02 O3, C12 E4, C11 D4)
 *   dbc.install : ldb_install_compaction_results                          (C14, C02 O4)
 *   dbc.cleanup : ldb_cleanup_compaction                                  (C13 G3)
 *   dbc.trivial : ldb_background_compaction, trivial-move branch           (C14, C12)
 *
 * The real db_impl.c is included unmodified.  The input iterator is a ghost cursor over a sequence of
 * (parsable, user key id, sequence, type) entries; table builder, output file, table cache, version set and
 * pending_outputs are ghost models that record what was done, check the call protocol at every call, and can
 * fail at every I/O step.
 */
#include "verif.h"
int nondet_int(void);
uint64_t nondet_u64(void);
size_t nondet_size(void);

#include "db_impl.c"
#include "contracts/dbgc.h"      /* g_db, g_held, g_locks, g_unlocks, g_gc_allowed */

#ifndef DBC_NMAX
#define DBC_NMAX 3               /* bound on the number of input entries in dbc.drop */
#endif
#define NMAX DBC_NMAX
#define OMAX (NMAX + 1)
#define SHUT(db) (*(int *)&(db)->shutting_down)
#define HASIMM(db) (*(int *)&(db)->has_imm)

/* ------------------------------------------------------------------ ghost */
/* input sequence */
size_t g_n, g_pos;
int e_parse[NMAX], e_type[NMAX], e_base[NMAX], e_stop[NMAX];
uint64_t e_uid[NMAX], e_seq[NMAX];
size_t e_ksz[NMAX], e_vsz[NMAX];
uint8_t *g_key_base, *g_val_base;     /* key of entry i is the slice (g_key_base + i, e_ksz[i]) */
int g_in_err;                         /* latched status of the input iterator */
int g_firsts, g_in_destroys, g_in_creates, g_status_calls;
int g_import_calls[NMAX], g_stop_calls[NMAX], g_base_calls[NMAX];
int g_ukbuf_idx;                      /* entry whose user key is held in the function's user_key buffer, -1 = none */
/* what reached the table builder */
int g_added[NMAX], g_add_out[NMAX], g_add_ord[NMAX], g_adds;
uint64_t g_size_after[NMAX];
/* outputs created during the run (vector index = g_o_base + o) */
size_t g_o_base; int g_o_count;
ldb_output_t *g_o_obj[OMAX]; uint64_t g_o_number[OMAX], g_o_size[OMAX], g_o_entries[OMAX];
int g_o_created[OMAX], g_o_adds[OMAX], g_o_first[OMAX], g_o_last[OMAX];
int g_o_fin[OMAX], g_o_sync[OMAX], g_o_close[OMAX], g_o_verify[OMAX];   /* 0 not done, 1 OK, 2 failed, 3 abandoned/pending */
#define CUR (g_o_count - 1)
#define COMPLETE(o) (g_o_fin[o] == 1 && g_o_sync[o] == 1 && g_o_close[o] == 1 && (g_o_entries[o] == 0 || g_o_verify[o] == 1))
/* builder / file / verification iterator objects */
struct ldb_tablegen_s { int dummy; };
struct ldb_wfile_s { int dummy; };
ldb_tablegen_t g_builder_obj; ldb_wfile_t g_wfile_obj;
int g_b_live, g_b_state, g_b_out, g_b_destroys, g_b_creates; uint64_t g_b_entries, g_b_size;
int g_f_live, g_f_out, g_f_destroys, g_f_creates;
ldb_iter_t g_input_obj, g_viter_obj; int g_in_state, g_viter_state;
int g_viter_live, g_v_rc, g_v_destroys;
/* numbers, pending_outputs */
uint64_t g_next_file, g_alloc_number, g_fname_number; int g_allocs, g_pending_puts, g_pending_dels;
uint64_t g_del_item[OMAX];
/* edit / apply */
int g_indel_calls, g_af_calls, g_rm_calls, g_apply_calls, g_apply_rc;
int g_af_level[OMAX]; uint64_t g_af_number[OMAX], g_af_size[OMAX]; const ldb_ikey_t *g_af_small[OMAX], *g_af_large[OMAX];
int g_rm_level; uint64_t g_rm_number;
int g_apply_af, g_apply_indel, g_apply_rm, g_apply_complete, g_apply_in_err, g_apply_shut; size_t g_apply_pos;
unsigned g_broadcasts;
/* snapshots */
uint64_t g_ss; int g_ss_checked;
/* misc */
ldb_cstate_t *g_state; int g_work;
ldb_compaction_t g_c; ldb_versions_t g_versions; ldb_comparator_t g_ucmp; ldb_readopt_t g_ropt;
char g_tc_obj; ldb_version_t g_iv_obj;
int g_frees, g_state_freed, g_vec_clears, g_out_frees;
int g_pick_calls, g_trivial_calls, g_cdestroy_calls; ldb_compaction_t *g_pick_result; int g_is_trivial;

/* ---------------------------------------------------------- thread model */
static void world_moves_on(void) {
  /* other threads run while the mutex is released: writes advance last_sequence, snapshots come and go */
  uint64_t adv = nondet_u64();
  __CPROVER_assume(adv < (1ull << 40));
  g_db->versions->last_sequence += adv;
  /* (through the real list operations, so that whatever the list caches stays consistent) */
  if (nondet_int()) (void)ldb_snaplist_new(&g_db->snapshots, g_db->versions->last_sequence);
  if (nondet_int() && !ldb_snaplist_empty(&g_db->snapshots)) ldb_snaplist_delete(&g_db->snapshots, ldb_snaplist_oldest(&g_db->snapshots));
}
void ldb_mutex_lock(ldb_mutex_t *m) { __CPROVER_assert(m == &g_db->mutex && !g_held, "lock: DB mutex not held"); g_held = 1; g_locks++; }
void ldb_mutex_unlock(ldb_mutex_t *m) {
  __CPROVER_assert(m == &g_db->mutex && g_held, "unlock: DB mutex held");
  if (g_work && !g_ss_checked) {
    __CPROVER_assert(g_state->smallest_snapshot == g_ss, "S2: smallest_snapshot = sequence of the OLDEST live snapshot, else last_sequence, fixed before the mutex is released");
    __CPROVER_assert(g_in_creates == 1, "the input iterator is built under the mutex (the input version cannot change underneath)");
    g_ss_checked = 1;
    world_moves_on();
  }
  g_held = 0; g_unlocks++;
}
void ldb_cond_broadcast(ldb_cond_t *cv) { __CPROVER_assert(cv == &g_db->background_work_finished_signal && g_held, "broadcast on the background signal, under the mutex"); g_broadcasts++; }

/* ------------------------------------------------------------ small env */
int64_t ldb_now_usec(void) { return 0; }
void ldb_log(ldb_logger_t *logger, const char *fmt, ...) { }
const char *ldb_strerror(int code) { return "e"; }
const char *ldb_versions_summary(const ldb_versions_t *vset, char *scratch) { return "s"; }
const ldb_readopt_t *ldb_readopt_import(void) { return &g_ropt; }
void *ldb_malloc(size_t size) { void *p = malloc(size); __CPROVER_assume(p != NULL); return p; }
void ldb_free(void *ptr) {
  int o;
  g_frees++;
  if (ptr == (void *)g_state) g_state_freed++;
  for (o = 0; o < OMAX; o++) if (o < g_o_count && ptr == (void *)g_o_obj[o]) g_out_frees++;
  free(ptr);
}
void ldb_vector_init(ldb_vector_t *z) {
  /* preallocated: push never reallocates in this model (vector.c has its own units) */
  size_t cap = nondet_size();
  __CPROVER_assume(cap >= g_o_base + OMAX + 1 && cap < ((size_t)1 << 40));
  z->items = malloc(cap * sizeof(void *)); __CPROVER_assume(z->items != NULL);
  z->length = 0; z->alloc = cap;
}
void ldb_vector_clear(ldb_vector_t *z) { g_vec_clears++; free(z->items); z->items = NULL; z->length = 0; z->alloc = 0; }
void ldb_vector_push(ldb_vector_t *z, const void *x) {
  __CPROVER_assert(z->length < z->alloc, "vector model: capacity");
  if (g_state != NULL && z == &g_state->outputs) {
    __CPROVER_assert(g_held, "G3: the new output is registered under the mutex");
    __CPROVER_assert(g_o_count < OMAX, "at most one output per input entry");
    __CPROVER_assert(z->length == g_o_base + (size_t)g_o_count, "outputs vector holds the outputs in creation order");
    g_o_obj[g_o_count] = (ldb_output_t *)x; g_o_number[g_o_count] = ((const ldb_output_t *)x)->number;
    g_o_created[g_o_count] = 0; g_o_adds[g_o_count] = 0; g_o_fin[g_o_count] = g_o_sync[g_o_count] = g_o_close[g_o_count] = g_o_verify[g_o_count] = 0;
    g_o_entries[g_o_count] = 0; g_o_size[g_o_count] = 0;
    g_o_count++;
  }
  z->items[z->length++] = (void *)x;
}
void *ldb_vector_top(const ldb_vector_t *z) { return z->items[z->length - 1]; }

/* ------------------------------------------ file numbers, pending_outputs */
uint64_t ldb_versions_new_file_number(ldb_versions_t *vset) {
  __CPROVER_assert(g_held && vset == g_db->versions, "G3: output file numbers are allocated under the mutex");
  g_allocs++; g_alloc_number = g_next_file; return g_next_file++;
}
int ldb_rb_set64_put(rb_tree_t *tree, uint64_t item) {
  __CPROVER_assert(tree == &g_db->pending_outputs && g_held, "G3: pending_outputs is updated under the mutex");
  __CPROVER_assert(item == g_alloc_number && g_pending_puts == g_allocs - 1, "G3: the freshly allocated output number is protected in pending_outputs at once");
  g_pending_puts++; return 1;
}
int ldb_rb_set64_del(rb_tree_t *tree, uint64_t item) {
  __CPROVER_assert(tree == &g_db->pending_outputs && g_held, "G3: pending_outputs is updated under the mutex");
  if (g_pending_dels < OMAX) g_del_item[g_pending_dels] = item;
  g_pending_dels++; return 1;
}
int ldb_table_filename(char *buf, size_t size, const char *dbname, uint64_t num) {
  __CPROVER_assert(num == g_alloc_number && dbname == g_db->dbname, "the output file is named after the number just allocated");
  g_fname_number = num; return nondet_int() ? 1 : 0;
}

/* ------------------------------------------------------- output file model */
int ldb_truncfile_create(const char *filename, ldb_wfile_t **file) {
  int rc = nondet_int();
  __CPROVER_assert(!g_held, "output files are created with the mutex released");
  __CPROVER_assert(g_o_count > 0 && g_fname_number == g_o_number[CUR] && g_pending_puts == g_allocs, "the file being created is the registered, protected output");
  __CPROVER_assert(!g_f_live, "one output file at a time");
  g_f_creates++;
  if (rc != LDB_OK) { g_o_created[CUR] = 2; return rc; }
  g_o_created[CUR] = 1; g_f_live = 1; g_f_out = CUR; *file = &g_wfile_obj;
  return LDB_OK;
}
int ldb_wfile_sync(ldb_wfile_t *file) {
  int rc = nondet_int();
  __CPROVER_assert(file == &g_wfile_obj && g_f_live && !g_held, "sync of the open output file, mutex released");
  __CPROVER_assert(g_o_fin[g_f_out] == 1, "O3: the file is synced only after the table builder finished it successfully");
  __CPROVER_assert(g_o_sync[g_f_out] == 0, "one sync per output");
  g_o_sync[g_f_out] = (rc == LDB_OK) ? 1 : 2;
  return rc;
}
int ldb_wfile_close(ldb_wfile_t *file) {
  int rc = nondet_int();
  __CPROVER_assert(file == &g_wfile_obj && g_f_live && !g_held, "close of the open output file, mutex released");
  __CPROVER_assert(g_o_sync[g_f_out] == 1, "O3: the file is closed only after a successful sync");
  __CPROVER_assert(g_o_close[g_f_out] == 0, "one close per output");
  g_o_close[g_f_out] = (rc == LDB_OK) ? 1 : 2;
  return rc;
}
void ldb_wfile_destroy(ldb_wfile_t *file) {
  __CPROVER_assert(file == &g_wfile_obj && g_f_live, "destroys the open output file once");
  g_f_live = 0; g_f_destroys++;
}

/* ---------------------------------------------------- table builder model */
ldb_tablegen_t *ldb_tablegen_create(const ldb_dbopt_t *options, ldb_wfile_t *file) {
  __CPROVER_assert(options == &g_db->options && file == &g_wfile_obj && g_f_live && g_f_out == CUR, "the builder writes the output file just created, with the DB's options");
  __CPROVER_assert(!g_b_live, "one builder at a time");
  g_b_live = 1; g_b_state = 0; g_b_out = CUR; g_b_entries = 0; g_b_size = 0; g_b_creates++;
  return &g_builder_obj;
}
uint64_t ldb_tablegen_entries(const ldb_tablegen_t *tb) { __CPROVER_assert(tb == &g_builder_obj && g_b_live, "live builder"); return g_b_entries; }
uint64_t ldb_tablegen_size(const ldb_tablegen_t *tb) { __CPROVER_assert(tb == &g_builder_obj && g_b_live, "live builder"); return g_b_size; }
void ldb_tablegen_add(ldb_tablegen_t *tb, const ldb_slice_t *key, const ldb_slice_t *value) {
  size_t idx = (size_t)(key->data - g_key_base);
  uint64_t inc = nondet_u64();
  __CPROVER_assert(tb == &g_builder_obj && g_b_live && g_b_state == 0 && !g_held, "add to the open builder, mutex released");
  __CPROVER_assert(__CPROVER_same_object(key->data, g_key_base) && idx == g_pos && idx < g_n && key->size == e_ksz[idx], "the key added is the input iterator's current key");
  __CPROVER_assert(value->data == g_val_base + idx && value->size == e_vsz[idx], "the value added is the input iterator's current value");
  __CPROVER_assume(inc >= 1 && inc < (1ull << 40));
  g_added[idx]++; g_add_out[idx] = g_b_out; g_add_ord[idx] = g_adds++;
  if (g_o_adds[g_b_out] == 0) g_o_first[g_b_out] = (int)idx;
  g_o_last[g_b_out] = (int)idx; g_o_adds[g_b_out]++;
  g_b_entries++; g_b_size += inc; g_size_after[idx] = g_b_size;
}
int ldb_tablegen_finish(ldb_tablegen_t *tb) {
  int rc = nondet_int(); uint64_t inc = nondet_u64();
  __CPROVER_assert(tb == &g_builder_obj && g_b_live && g_b_state == 0 && !g_held, "finish of the open builder, mutex released");
  __CPROVER_assert(g_in_err == LDB_OK, "D4: a table is finished only while the input iterator reports no error");
  __CPROVER_assume(inc < (1ull << 20));
  g_b_state = 1; g_b_size += inc; g_o_entries[g_b_out] = g_b_entries; g_o_size[g_b_out] = g_b_size;
  g_o_fin[g_b_out] = (rc == LDB_OK) ? 1 : 2;
  return rc;
}
void ldb_tablegen_abandon(ldb_tablegen_t *tb) {
  __CPROVER_assert(tb == &g_builder_obj && g_b_live && g_b_state == 0, "abandon of the open builder");
  g_b_state = 2; g_o_fin[g_b_out] = 3; g_o_size[g_b_out] = g_b_size;
}
void ldb_tablegen_destroy(ldb_tablegen_t *tb) {
  __CPROVER_assert(tb == &g_builder_obj && g_b_live && g_b_state != 0, "a builder is destroyed only after finish or abandon");
  g_b_live = 0; g_b_destroys++;
}

/* ----------------------------------------- table cache (verification read) */
static int v_status(const void *p) {
  __CPROVER_assert(p == (const void *)&g_viter_state && g_viter_live, "status of the verification iterator");
  g_o_verify[CUR] = (g_v_rc == LDB_OK) ? 1 : 2;
  return g_v_rc;
}
static const ldb_itertbl_t g_vtable = { 0, 0, 0, 0, 0, 0, 0, 0, 0, v_status };
ldb_iter_t *ldb_tables_iterate(ldb_tables_t *cache, const ldb_readopt_t *options, uint64_t file_number, uint64_t file_size, ldb_table_t **tableptr) {
  __CPROVER_assert(cache == g_db->table_cache && !g_held && tableptr == NULL, "verification read through the table cache, mutex released");
  __CPROVER_assert(g_o_count > 0 && file_number == g_o_number[CUR] && file_size == g_o_size[CUR], "the table verified is the output just written, with its final size");
  __CPROVER_assert(g_o_fin[CUR] == 1 && g_o_sync[CUR] == 1 && g_o_close[CUR] == 1, "O3: the table is re-opened for verification only after finish, sync and close succeeded");
  g_o_verify[CUR] = 3; g_v_rc = nondet_int(); g_viter_live = 1;
  g_viter_obj.ptr = &g_viter_state; g_viter_obj.table = &g_vtable;
  return &g_viter_obj;
}
void ldb_iter_destroy(ldb_iter_t *it) {
  if (it == &g_input_obj) g_in_destroys++;
  else { __CPROVER_assert(it == &g_viter_obj && g_viter_live, "destroys the verification iterator once"); g_viter_live = 0; g_v_destroys++; }
}

/* ---------------------------------------------------------- input iterator */
static void maybe_err(void) { if (g_in_err == LDB_OK && nondet_int()) { g_in_err = nondet_int(); __CPROVER_assume(g_in_err != LDB_OK); } }
static int in_valid(const void *p) { return g_firsts > 0 && g_pos < g_n; }
static void in_first(void *p) { __CPROVER_assert(!g_held, "input is read with the mutex released"); g_pos = 0; g_firsts++; maybe_err(); }
static void in_next(void *p) {
  __CPROVER_assert(!g_held && g_firsts == 1 && g_pos < g_n, "next on a valid input iterator, mutex released");
  g_pos++; maybe_err();
  if (nondet_int()) SHUT(g_db) = 1;          /* ldb_close may begin at any time */
}
static ldb_slice_t in_key(const void *p) { ldb_slice_t s; __CPROVER_assert(g_pos < g_n, "key of a valid iterator"); s.data = g_key_base + g_pos; s.size = e_ksz[g_pos]; s.alloc = 0; return s; }
static ldb_slice_t in_value(const void *p) { ldb_slice_t s; __CPROVER_assert(g_pos < g_n, "value of a valid iterator"); s.data = g_val_base + g_pos; s.size = e_vsz[g_pos]; s.alloc = 0; return s; }
static int in_status(const void *p) { g_status_calls++; return g_in_err; }
static const ldb_itertbl_t g_in_table = { 0, in_valid, in_first, 0, 0, in_next, 0, in_key, in_value, in_status };
ldb_iter_t *ldb_inputiter_create(ldb_versions_t *vset, ldb_compaction_t *c) {
  __CPROVER_assert(g_held && vset == g_db->versions && c == &g_c, "input iterator over the picked compaction, created under the mutex");
  __CPROVER_assert(g_state->smallest_snapshot == g_ss, "S2: smallest_snapshot is fixed before the input iterator is built");
  g_in_creates++;
  g_input_obj.ptr = &g_in_state; g_input_obj.table = &g_in_table;
  return &g_input_obj;
}

/* ---------------------------------------- keys, comparator, compaction hints */
#define KEY_IDX(s) ((size_t)((s)->data - g_key_base))
int ldb_pkey_import(ldb_pkey_t *z, const ldb_slice_t *x) {
  size_t idx = KEY_IDX(x);
  __CPROVER_assert(__CPROVER_same_object(x->data, g_key_base) && idx == g_pos && idx < g_n, "the key parsed is the iterator's current key");
  g_import_calls[idx]++;
  if (!e_parse[idx]) return 0;
  z->user_key.data = x->data; z->user_key.size = x->size - 8; z->user_key.alloc = 0;
  z->sequence = e_seq[idx]; z->type = (ldb_valtype_t)e_type[idx];
  return 1;
}
void ldb_buffer_init(ldb_buffer_t *z) { z->data = NULL; z->size = 0; z->alloc = 0; }
void ldb_buffer_clear(ldb_buffer_t *z) { }
void ldb_buffer_reset(ldb_buffer_t *z) { z->size = 0; g_ukbuf_idx = -1; }
void ldb_buffer_set(ldb_buffer_t *z, const uint8_t *xp, size_t xn) {
  size_t idx = (size_t)(xp - g_key_base);
  __CPROVER_assert(__CPROVER_same_object(xp, g_key_base) && idx == g_pos && xn == e_ksz[idx] - 8, "the remembered user key is the current entry's user key");
  z->size = xn; g_ukbuf_idx = (int)idx;
}
static int u_compare(const ldb_comparator_t *cmp, const ldb_slice_t *x, const ldb_slice_t *y) {
  size_t i = KEY_IDX(x);
  __CPROVER_assert(cmp == &g_ucmp && i == g_pos && i < g_n, "user comparator, current entry's user key on the left");
  __CPROVER_assert(g_ukbuf_idx >= 0 && g_ukbuf_idx < (int)g_pos, "the remembered user key is compared only when one is remembered");
  return e_uid[i] < e_uid[g_ukbuf_idx] ? -1 : e_uid[i] > e_uid[g_ukbuf_idx] ? 1 : 0;
}
int ldb_compaction_should_stop_before(ldb_compaction_t *c, const ldb_slice_t *ikey) {
  size_t idx = KEY_IDX(ikey);
  __CPROVER_assert(c == &g_c && idx == g_pos && idx < g_n, "should_stop_before is asked about the current key");
  g_stop_calls[idx]++;
  return e_stop[idx];
}
int ldb_compaction_is_base_level_for_key(ldb_compaction_t *c, const ldb_slice_t *user_key) {
  size_t idx = KEY_IDX(user_key);
  __CPROVER_assert(c == &g_c && idx == g_pos && idx < g_n, "is_base_level_for_key is asked about the current user key");
  g_base_calls[idx]++;
  return e_base[idx];
}
void ldb_ikey_init(ldb_ikey_t *k) { k->data = NULL; k->size = 0; k->alloc = 0; }
void ldb_ikey_clear(ldb_ikey_t *k) { }
void ldb_ikey_copy(ldb_ikey_t *z, const ldb_ikey_t *x) { z->data = x->data; z->size = x->size; }   /* the copy is identified by its source */

/* ------------------------------------------------------------ edit / apply */
void ldb_compaction_add_input_deletions(ldb_compaction_t *c, ldb_edit_t *edit) {
  __CPROVER_assert(c == &g_c && edit == &g_c.edit && g_held, "the inputs of THIS compaction are deleted in its own edit");
  g_indel_calls++;
}
void ldb_edit_add_file(ldb_edit_t *edit, int level, uint64_t number, uint64_t file_size, const ldb_ikey_t *smallest, const ldb_ikey_t *largest) {
  __CPROVER_assert(edit == &g_c.edit, "files are added to the compaction's edit");
  if (g_af_calls < OMAX) { g_af_level[g_af_calls] = level; g_af_number[g_af_calls] = number; g_af_size[g_af_calls] = file_size; g_af_small[g_af_calls] = smallest; g_af_large[g_af_calls] = largest; }
  g_af_calls++;
}
void ldb_edit_remove_file(ldb_edit_t *edit, int level, uint64_t number) {
  __CPROVER_assert(edit == &g_c.edit, "files are removed in the compaction's edit");
  g_rm_calls++; g_rm_level = level; g_rm_number = number;
}
int ldb_versions_apply(ldb_versions_t *vset, ldb_edit_t *edit, ldb_mutex_t *mu) {
  int o, complete = 1;
  __CPROVER_assert(g_held && mu == &g_db->mutex && vset == g_db->versions && edit == &g_c.edit, "apply is entered with the mutex held, on the compaction's edit");
  for (o = 0; o < OMAX; o++) if (o < g_o_count && !COMPLETE(o)) complete = 0;
  g_apply_calls++; g_apply_af = g_af_calls; g_apply_indel = g_indel_calls; g_apply_rm = g_rm_calls; g_apply_complete = complete;
  g_apply_in_err = g_in_err; g_apply_pos = g_pos; g_apply_shut = SHUT(g_db);
  g_held = 0; g_held = 1;                  /* apply releases the mutex around the MANIFEST write */
  g_apply_rc = nondet_int();
  if (g_apply_rc == LDB_OK) g_gc_allowed = 1;
  return g_apply_rc;
}

/* ------------------------------------------------------------------ setup */
static void reset_ghost(void) {
  int i;
  g_held = 1; g_locks = 1; g_unlocks = 0; g_broadcasts = 0; g_gc_allowed = 0;
  g_pos = 0; g_firsts = g_in_destroys = g_in_creates = g_status_calls = 0; g_ukbuf_idx = -1; g_adds = 0;
  g_o_base = 0; g_o_count = 0;
  g_b_live = g_b_state = g_b_destroys = g_b_creates = 0; g_f_live = g_f_destroys = g_f_creates = 0; g_viter_live = g_v_destroys = 0;
  g_allocs = g_pending_puts = g_pending_dels = 0;
  g_indel_calls = g_af_calls = g_rm_calls = g_apply_calls = 0; g_apply_rc = 0;
  g_ss_checked = 0; g_work = 0; g_state = NULL;
  g_frees = g_state_freed = g_vec_clears = g_out_frees = 0;
  g_pick_calls = g_trivial_calls = g_cdestroy_calls = 0;
  for (i = 0; i < NMAX; i++) { g_import_calls[i] = g_stop_calls[i] = g_base_calls[i] = 0; g_added[i] = 0; g_add_out[i] = -1; g_add_ord[i] = -1; g_size_after[i] = 0; }
  g_next_file = nondet_u64(); __CPROVER_assume(g_next_file >= 1 && g_next_file < (1ull << 60));
}
static ldb_t *setup_db(void) {
  ldb_t *db = malloc(sizeof(ldb_t));
  int l;
  __CPROVER_assume(db != NULL);
  g_db = db; db->versions = &g_versions; db->table_cache = (ldb_tables_t *)&g_tc_obj;
  g_ucmp.compare = u_compare; db->internal_comparator.user_comparator = &g_ucmp;
  g_versions.last_sequence = nondet_u64();
  /* sequence numbers are 56 bit; LDB_MAX_SEQUENCE itself is the "no previous entry" sentinel and never assigned */
  __CPROVER_assume(g_versions.last_sequence < LDB_MAX_SEQUENCE - (1ull << 41));
  l = nondet_int(); __CPROVER_assume(l >= 0 && l < LDB_NUM_LEVELS - 1); g_c.level = l;
  l++;   /* statistics counters of the output level are far from overflow */
  __CPROVER_assume(db->stats[l].micros >= 0 && db->stats[l].micros < (1ll << 50) && db->stats[l].bytes_read >= 0 && db->stats[l].bytes_read < (1ll << 50) && db->stats[l].bytes_written >= 0 && db->stats[l].bytes_written < (1ll << 50));
  return db;
}
static ldb_filemeta_t g_in_files[4];
static void setup_compaction(void) {
  size_t n0 = nondet_size(), n1 = nondet_size(), i;
  g_c.max_output_file_size = nondet_u64();
  g_c.input_version = &g_iv_obj;
  __CPROVER_assume(n0 >= 1 && n0 <= 2 && n1 <= 2);
  g_c.inputs[0].items = malloc(2 * sizeof(void *)); g_c.inputs[1].items = malloc(2 * sizeof(void *));
  __CPROVER_assume(g_c.inputs[0].items != NULL && g_c.inputs[1].items != NULL);
  g_c.inputs[0].length = n0; g_c.inputs[0].alloc = 2; g_c.inputs[1].length = n1; g_c.inputs[1].alloc = 2;
  for (i = 0; i < 2; i++) {
    g_c.inputs[0].items[i] = &g_in_files[i]; g_c.inputs[1].items[i] = &g_in_files[2 + i];
    g_in_files[i].file_size = nondet_u64(); g_in_files[2 + i].file_size = nondet_u64();
    g_in_files[i].number = nondet_u64(); g_in_files[2 + i].number = nondet_u64();
    __CPROVER_assume(g_in_files[i].file_size < (1ull << 40) && g_in_files[2 + i].file_size < (1ull << 40));
  }
}

/* ------------------------------------------------------------------ dbc.drop */
/* (a) an earlier entry of the same user key (with no unparsable key in between) had sequence <= smallest_snapshot */
static int spec_shadowed(int k) {
  int j, sh = 0, run = 1;
  for (j = NMAX - 1; j >= 0; j--) {
    if (j >= k || !run) continue;
    if (!e_parse[j] || e_uid[j] != e_uid[k]) { run = 0; continue; }
    if (e_seq[j] <= g_ss) sh = 1;
  }
  return sh;
}
static int spec_drop(int k) {
  return e_parse[k] && (spec_shadowed(k) || (e_type[k] == LDB_TYPE_DELETION && e_seq[k] <= g_ss && e_base[k]));
}

void h_work(void) {
  ldb_t *db;
  ldb_cstate_t *state;
  int rc, i, nsnap, bg0;
  uint64_t next0;
  IN_U64(in_S); IN_INT(in_k); IN_INT(in_p); IN_INT(in_q); IN_INT(in_o);
  reset_ghost();
  db = setup_db();
  setup_compaction();
  bg0 = db->bg_error;
  __CPROVER_assume(bg0 == LDB_OK);                 /* the background call compacts only without a latched error (db.bg) */
  /* immutable-memtable work arriving during the compaction is handled by ldb_compact_memtable (db.flush); not in this unit */
  db->imm = NULL; HASIMM(db) = 0;
  /* input sequence: arbitrary entries, sorted by (user key ascending, sequence descending) where parsable */
  g_n = nondet_size(); __CPROVER_assume(g_n <= NMAX);
  g_key_base = malloc(NMAX + 1); g_val_base = malloc(NMAX + 1); __CPROVER_assume(g_key_base != NULL && g_val_base != NULL);
  for (i = 0; i < NMAX; i++) {
    e_parse[i] = nondet_int() ? 1 : 0; e_type[i] = nondet_int() ? LDB_TYPE_VALUE : LDB_TYPE_DELETION;
    e_base[i] = nondet_int() ? 1 : 0; e_stop[i] = nondet_int() ? 1 : 0;
    e_uid[i] = nondet_u64(); e_seq[i] = nondet_u64(); e_ksz[i] = nondet_size(); e_vsz[i] = nondet_size();
    __CPROVER_assume(e_seq[i] < LDB_MAX_SEQUENCE);
    __CPROVER_assume(!e_parse[i] || e_ksz[i] >= 8);
    if (i > 0 && e_parse[i - 1] && e_parse[i])
      __CPROVER_assume(e_uid[i - 1] < e_uid[i] || (e_uid[i - 1] == e_uid[i] && e_seq[i - 1] > e_seq[i]));
  }
  g_in_err = LDB_OK;
  /* snapshot list: built by the REAL list operations (so whatever the list caches is consistent): up to 3 snapshots taken at
   * non-decreasing sequences (two may share one: no write in between), then any one of them may have been released already */
  {
    uint64_t sq[3]; const ldb_snapshot_t *sp[3]; int live[3], j, del;
    nsnap = nondet_int(); __CPROVER_assume(nsnap >= 0 && nsnap <= 3);
    for (j = 0; j < 3; j++) sq[j] = nondet_u64();
    __CPROVER_assume(sq[0] <= sq[1] && sq[1] <= sq[2] && sq[2] <= g_versions.last_sequence);
    ldb_snaplist_init(&db->snapshots);
    for (j = 0; j < 3; j++) { live[j] = j < nsnap; sp[j] = live[j] ? ldb_snaplist_new(&db->snapshots, sq[j]) : NULL; }
    del = nondet_int(); __CPROVER_assume(del >= -1 && del < nsnap);
    if (del >= 0) { ldb_snaplist_delete(&db->snapshots, sp[del]); live[del] = 0; }
    g_ss = live[0] ? sq[0] : live[1] ? sq[1] : live[2] ? sq[2] : g_versions.last_sequence;
  }
  next0 = g_next_file;

  state = ldb_cstate_create(&g_c);
  g_state = state; g_work = 1;
  rc = ldb_do_compaction_work(db, state);

  /* ---- protocol ---- */
  CHECK(g_held && g_locks == g_unlocks + 1, "compaction: returns with the mutex held, lock/unlock balanced");
  CHECK(g_ss_checked && g_in_creates == 1 && g_in_destroys == 1 && g_firsts == 1, "compaction: one input iterator, positioned once, released");
  CHECK(state->outputs.length == (size_t)g_o_count && g_allocs == g_o_count && g_pending_puts == g_o_count && g_pending_dels == 0,
        "G3: every output has a fresh number that is in pending_outputs and stays there until cleanup");
  CHECK(g_b_creates == g_b_destroys + g_b_live && g_f_creates >= g_f_destroys && (state->builder != NULL) == (g_b_live != 0), "builders: every finished/abandoned builder destroyed; an open one is left in the state for cleanup");
  CHECK(g_viter_live == 0, "verification iterators are released");

  /* ---- the drop rule (C01 K6, C06 S3) ---- */
  if (in_k >= 0 && (size_t)in_k < g_n) {
    CHECK(g_added[in_k] <= 1, "an input entry is written at most once");
    CHECK(g_stop_calls[in_k] <= 1 && g_import_calls[in_k] <= g_stop_calls[in_k], "every entry examined was first shown to should_stop_before, exactly once (it keeps grandparent-overlap state)");
    CHECK(g_added[in_k] <= g_import_calls[in_k], "only examined entries are written");
    if (g_added[in_k]) CHECK(!spec_drop(in_k), "DROP RULE: an entry that the rule omits is not written");
    if (rc == LDB_OK) {
      CHECK(g_import_calls[in_k] == 1, "compaction OK: every input entry was examined");
      CHECK(g_added[in_k] == (spec_drop(in_k) ? 0 : 1), "DROP RULE: an entry is omitted iff it is shadowed by an earlier entry of the same user key with sequence <= smallest_snapshot, or is a tombstone with sequence <= smallest_snapshot at its base level; unparsable keys are kept");
      if (!e_parse[in_k]) CHECK(g_added[in_k] == 1, "an unparsable key is never dropped");
    }
    /* consequence for a snapshot S >= smallest_snapshot (every live or future snapshot): the entry it reads survives */
    if (in_S >= g_ss) {
      int newest = e_parse[in_k] && e_seq[in_k] <= in_S, j;
      for (j = 0; j < NMAX; j++) if (j < in_k && e_parse[j] && e_uid[j] == e_uid[in_k] && e_seq[j] <= in_S) newest = 0;
      if (newest && rc == LDB_OK)
        CHECK(g_added[in_k] == 1 || (e_type[in_k] == LDB_TYPE_DELETION && e_seq[in_k] <= g_ss && e_base[in_k]),
              "S3: for every snapshot S >= smallest_snapshot the newest entry with sequence <= S of a user key is kept, unless it is a tombstone that no deeper level can contradict");
    }
  }
  /* ---- order and output files (C14) ---- */
  if (in_p >= 0 && in_p < in_q && (size_t)in_q < g_n && g_added[in_p] && g_added[in_q]) {
    int between_stop = 0, between_added = 0, j;
    CHECK(g_add_ord[in_p] < g_add_ord[in_q] && g_add_out[in_p] <= g_add_out[in_q], "entries are written in input order, outputs are filled in creation order");
    for (j = 0; j < NMAX; j++) { if (j > in_p && j <= in_q && e_stop[j]) between_stop = 1; if (j > in_p && j < in_q && g_added[j]) between_added = 1; }
    if (!between_added)
      CHECK((g_add_out[in_p] == g_add_out[in_q]) == (!between_stop && g_size_after[in_p] < g_c.max_output_file_size),
            "consecutive written entries share an output file unless should_stop_before fired in between or the file reached max_output_file_size");
  }
  if (in_o >= 0 && in_o < g_o_count) {
    ldb_output_t *out = state->outputs.items[in_o];
    CHECK(out == g_o_obj[in_o] && out->number == next0 + (uint64_t)in_o, "outputs carry distinct, freshly allocated file numbers in creation order");
    if (g_o_adds[in_o] > 0) {
      CHECK(out->smallest.data == g_key_base + g_o_first[in_o] && out->smallest.size == e_ksz[g_o_first[in_o]], "C14: an output's smallest key is the first key written to it");
      CHECK(out->largest.data == g_key_base + g_o_last[in_o] && out->largest.size == e_ksz[g_o_last[in_o]], "C14: an output's largest key is the last key written to it");
    }
    if (g_o_created[in_o] == 1 && in_o < g_o_count - 1) CHECK(g_o_adds[in_o] > 0, "no empty output file is left behind an advancing compaction");
    if (g_o_fin[in_o]) CHECK(out->file_size == g_o_size[in_o], "an output's recorded file size is the builder's final size");
    if (rc == LDB_OK) CHECK(COMPLETE(in_o) && g_o_adds[in_o] > 0 && g_o_verify[in_o] == 1, "compaction OK: every output was finished, synced, closed and verified, in that order");
    if (in_o < g_o_count - 1) CHECK(g_o_fin[in_o] != 0, "a new output is opened only after the previous one was finished");
  }
  /* ---- install (C02 O4, C11, C12, C14) ---- */
  CHECK(g_apply_calls <= 1, "at most one MANIFEST edit per compaction");
  if (g_apply_calls) {
    CHECK(g_apply_complete, "O4: the edit is applied only after every output is finished, synced, closed and verified");
    CHECK(g_apply_in_err == LDB_OK, "C11: nothing is installed when the input iterator reported an error");
    CHECK(g_apply_pos == g_n, "nothing is installed unless the whole input was consumed (a shut-down or failed compaction installs nothing)");
    CHECK(g_apply_indel == 1 && g_apply_af == g_o_count && g_apply_rm == 0, "the edit deletes the inputs and adds exactly the outputs");
    if (in_o >= 0 && in_o < g_o_count)
      CHECK(g_af_level[in_o] == g_c.level + 1 && g_af_number[in_o] == g_o_number[in_o] && g_af_size[in_o] == g_o_size[in_o]
            && g_af_small[in_o] == &g_o_obj[in_o]->smallest && g_af_large[in_o] == &g_o_obj[in_o]->largest,
            "C14: each output is added at level+1 with its own number, size and key range");
    CHECK(rc == g_apply_rc, "the result of the MANIFEST write is the result of the compaction");
  } else {
    CHECK(rc != LDB_OK, "compaction OK only if its results were installed");
  }
  if (g_in_err != LDB_OK) CHECK(rc != LDB_OK && g_apply_calls == 0, "C11: an input iterator error fails the compaction, nothing is installed");
  if (rc != LDB_OK) CHECK(db->bg_error != LDB_OK && g_broadcasts >= 1, "E3: a failed compaction latches bg_error and wakes the waiters");
  else CHECK(db->bg_error == LDB_OK && state->builder == NULL && state->outfile == NULL && g_pos == g_n, "compaction OK: input exhausted, no open output, no error latched");
  CANARY();
}

/* ------------------------------------------------------------------ dbc.open */
static ldb_cstate_t *make_state(size_t nout) {
  /* a compaction state that already owns nout outputs (arbitrary count); the last one is a real object */
  ldb_cstate_t *st;
  g_o_base = nout;
  st = ldb_cstate_create(&g_c);
  st->outputs.length = nout;
  return st;
}

void h_open(void) {
  ldb_t *db; ldb_cstate_t *state; int rc; uint64_t next0; size_t n0; ldb_output_t prev, *out; uint64_t tb0;
  IN_SIZE(in_nout);
  reset_ghost(); db = setup_db(); setup_compaction();
  ASSUME(in_nout < ((size_t)1 << 30));
  state = make_state(in_nout); g_state = state;
  if (in_nout > 0) state->outputs.items[in_nout - 1] = &prev;
  tb0 = state->total_bytes;
  g_held = 0; g_locks = 0;
  next0 = g_next_file; n0 = state->outputs.length;

  rc = ldb_open_compaction_output_file(db, state);

  CHECK(!g_held && g_locks == 1 && g_unlocks == 1, "open: the mutex is taken for the registration only and released before any file I/O");
  CHECK(g_allocs == 1 && g_pending_puts == 1 && g_next_file == next0 + 1, "G3: one fresh number, put in pending_outputs under the mutex");
  CHECK(state->outputs.length == n0 + 1 && g_o_count == 1, "open: exactly one output is appended to the state");
  out = state->outputs.items[n0];
  CHECK(out->number == next0 && out->file_size == 0 && out->smallest.size == 0 && out->largest.size == 0, "open: the new output carries the allocated number and empty metadata");
  if (in_nout > 0) CHECK(state->outputs.items[in_nout - 1] == &prev, "open: earlier outputs untouched");
  if (rc == LDB_OK) {
    CHECK(g_f_creates == 1 && g_o_created[0] == 1 && state->outfile == &g_wfile_obj && state->builder == &g_builder_obj && g_b_live, "open OK: file created, builder attached to it");
  } else {
    CHECK(state->builder == NULL && !g_b_live, "open failed: no builder (the caller stops; cleanup releases the number)");
    CHECK(g_f_creates == 0 ? rc == LDB_INVALID : g_o_created[0] == 2, "open failed: either the name could not be formed (INVALID) or file creation failed with the reported status");
  }
  CHECK(state->total_bytes == tb0, "open: byte count untouched");
  CANARY();
}

/* ---------------------------------------------------------------- dbc.finish */
void h_finish(void) {
  ldb_t *db; ldb_cstate_t *state; int rc; ldb_output_t top; uint64_t tb0, entries0;
  IN_SIZE(in_nout);
  reset_ghost(); db = setup_db(); setup_compaction();
  ASSUME(in_nout >= 1 && in_nout < ((size_t)1 << 30));
  state = make_state(in_nout - 1); g_state = state;
  g_held = 0; g_locks = 0;
  /* the top output: registered, file created, builder open with an arbitrary number of entries */
  top.number = nondet_u64(); __CPROVER_assume(top.number != 0);
  top.file_size = 0; ldb_ikey_init(&top.smallest); ldb_ikey_init(&top.largest);
  g_held = 1; g_alloc_number = top.number; ldb_vector_push(&state->outputs, &top); g_held = 0;
  g_o_created[0] = 1; g_f_live = 1; g_f_out = 0; g_f_creates = 1; state->outfile = &g_wfile_obj;
  g_b_live = 1; g_b_state = 0; g_b_out = 0; g_b_creates = 1; state->builder = &g_builder_obj;
  g_b_entries = nondet_u64(); g_b_size = nondet_u64(); __CPROVER_assume(g_b_size < (1ull << 50) && (g_b_entries == 0) == (g_b_size == 0));
  entries0 = g_b_entries;
  state->total_bytes = nondet_u64(); __CPROVER_assume(state->total_bytes < (1ull << 60)); tb0 = state->total_bytes;
  g_in_err = nondet_int();
  g_input_obj.ptr = &g_in_state; g_input_obj.table = &g_in_table;
  g_n = 0; g_firsts = 1;

  rc = ldb_finish_compaction_output_file(db, state, &g_input_obj);

  CHECK(!g_held && g_locks == 0, "finish: no locking, all I/O outside the mutex");
  CHECK(state->builder == NULL && !g_b_live && g_b_destroys == 1, "finish: the builder is destroyed and cleared on every path");
  CHECK(state->outfile == NULL && !g_f_live && g_f_destroys == 1, "finish: the output file object is destroyed and cleared on every path");
  CHECK(g_viter_live == 0, "finish: the verification iterator is released");
  CHECK(top.file_size == g_b_size && state->total_bytes == tb0 + g_b_size, "finish: the output's file_size is the builder's final size, added to total_bytes");
  if (g_in_err != LDB_OK) {
    CHECK(rc == g_in_err && g_o_fin[0] == 3 && g_o_sync[0] == 0 && g_o_close[0] == 0 && g_o_verify[0] == 0, "D4: an input iterator error abandons the table and is returned; nothing is synced");
  } else {
    CHECK(g_o_fin[0] == 1 || g_o_fin[0] == 2, "finish: the builder is finished when the input is healthy");
    CHECK((g_o_sync[0] != 0) == (g_o_fin[0] == 1), "O3: sync iff finish succeeded");
    CHECK((g_o_close[0] != 0) == (g_o_sync[0] == 1), "O3: close iff sync succeeded");
    CHECK((g_o_verify[0] != 0) == (g_o_close[0] == 1 && entries0 > 0), "O3: the table is re-opened for verification iff it was closed OK and is non-empty");
    CHECK(g_o_verify[0] != 3, "the verification iterator's status is read");
    CHECK((rc == LDB_OK) == (g_o_fin[0] == 1 && g_o_sync[0] == 1 && g_o_close[0] == 1 && (entries0 == 0 || g_o_verify[0] == 1)),
          "O3/E4: finish reports OK iff finish, sync, close and verification all succeeded (first failure is returned)");
  }
  CANARY();
}

/* --------------------------------------------------------------- dbc.install */
#ifndef DBC_LMAX
#define DBC_LMAX 3
#endif
static ldb_output_t g_outs[DBC_LMAX];
static ldb_cstate_t *state_with_outputs(size_t n) {
  ldb_cstate_t *st; size_t i;
  g_o_base = 0; st = ldb_cstate_create(&g_c); g_state = NULL;
  for (i = 0; i < DBC_LMAX; i++) if (i < n) {
    g_outs[i].number = nondet_u64(); g_outs[i].file_size = nondet_u64();
    ldb_vector_push(&st->outputs, &g_outs[i]);
  }
  g_state = st;
  return st;
}

void h_install(void) {
  ldb_t *db; ldb_cstate_t *state; int rc;
  IN_SIZE(in_nout); IN_SIZE(in_o);
  reset_ghost(); db = setup_db(); setup_compaction();
  ASSUME(in_nout <= DBC_LMAX);
  state = state_with_outputs(in_nout);

  rc = ldb_install_compaction_results(db, state);

  CHECK(g_held, "install: runs and returns under the mutex");
  CHECK(g_apply_calls == 1 && rc == g_apply_rc, "install: the edit is applied once, its status is returned");
  CHECK(g_apply_indel == 1 && g_indel_calls == 1, "install: the compaction's input files (both levels) are deleted in the edit, before it is applied");
  CHECK(g_apply_af == (int)in_nout && g_af_calls == (int)in_nout && g_rm_calls == 0, "install: exactly one added file per output, all before the edit is applied");
  if (in_o < in_nout) {
    CHECK(g_af_level[in_o] == g_c.level + 1, "C14: outputs are installed at level+1");
    CHECK(g_af_number[in_o] == g_outs[in_o].number && g_af_size[in_o] == g_outs[in_o].file_size, "install: the file is added with the output's recorded number and size");
    CHECK(g_af_small[in_o] == &g_outs[in_o].smallest && g_af_large[in_o] == &g_outs[in_o].largest, "install: the file is added with the output's recorded smallest/largest keys");
  }
  CANARY();
}

/* --------------------------------------------------------------- dbc.cleanup */
void h_cleanup(void) {
  ldb_t *db; ldb_cstate_t *state; int open_builder, j, hits = 0;
  IN_SIZE(in_nout); IN_SIZE(in_o);
  reset_ghost(); db = setup_db(); setup_compaction();
  ASSUME(in_nout <= DBC_LMAX);
  {
    /* outputs are heap objects here: cleanup frees them */
    ldb_cstate_t *st; size_t i;
    st = ldb_cstate_create(&g_c); g_state = st; g_held = 1;
    for (i = 0; i < DBC_LMAX; i++) if (i < in_nout) {
      ldb_output_t *o = ldb_output_create(nondet_u64());
      ldb_vector_push(&st->outputs, o);
    }
    state = st;
  }
  /* numbers of distinct outputs are distinct (allocator) */
  for (j = 0; j < DBC_LMAX; j++) { int k2; for (k2 = 0; k2 < DBC_LMAX; k2++) if (j < k2 && (size_t)k2 < in_nout) __CPROVER_assume(g_o_number[j] != g_o_number[k2]); }
  open_builder = nondet_int() ? 1 : 0;
  if (open_builder) { g_b_live = 1; g_b_state = 0; g_b_out = 0; g_b_creates = 1; state->builder = &g_builder_obj; g_f_live = 1; g_f_creates = 1; state->outfile = &g_wfile_obj; }

  ldb_cleanup_compaction(db, state);

  CHECK(g_held && g_locks == 1 && g_unlocks == 0, "cleanup: runs under the mutex");
  CHECK(!g_b_live && g_b_destroys == open_builder && (!open_builder || g_b_state == 2), "cleanup: an open builder is abandoned, then destroyed");
  CHECK(!g_f_live && g_f_destroys == open_builder, "cleanup: an open output file object is destroyed");
  CHECK(g_pending_dels == (int)in_nout && g_pending_puts == 0, "G3: one pending_outputs release per output, nothing else");
  if (in_o < in_nout) {
    for (j = 0; j < DBC_LMAX; j++) if ((size_t)j < in_nout && g_del_item[j] == g_o_number[in_o]) hits++;
    CHECK(hits == 1, "G3: every output's number is released from pending_outputs exactly once");
  }
  CHECK(g_state_freed == 1 && g_out_frees == (int)in_nout && g_vec_clears == 1, "cleanup: the state and every output record are freed once");
  CANARY();
}

/* --------------------------------------------------------------- dbc.trivial */
ldb_compaction_t *ldb_versions_pick_compaction(ldb_versions_t *vset) { __CPROVER_assert(g_held && vset == g_db->versions, "compaction picked under the mutex"); g_pick_calls++; return g_pick_result; }
int ldb_compaction_is_trivial_move(const ldb_compaction_t *c) { __CPROVER_assert(c == &g_c, "trivial-move test on the picked compaction"); g_trivial_calls++; return g_is_trivial; }
void ldb_compaction_destroy(ldb_compaction_t *c) { __CPROVER_assert(c == &g_c && g_held, "the picked compaction is destroyed under the mutex"); g_cdestroy_calls++; }

void h_trivial(void) {
  ldb_t *db; int bg0; ldb_filemeta_t *f;
  reset_ghost(); db = setup_db(); setup_compaction();
  db->imm = NULL; HASIMM(db) = 0; db->manual_compaction = NULL;
  bg0 = db->bg_error; __CPROVER_assume(bg0 == LDB_OK);
  g_pick_result = nondet_int() ? &g_c : NULL;
  g_is_trivial = 1;                                  /* the other branch is the full compaction (dbc.drop) */
  /* ldb_compaction_is_trivial_move (ver.trivial): exactly one input file, nothing at level+1 */
  g_c.inputs[0].length = 1; g_c.inputs[1].length = 0;
  f = g_c.inputs[0].items[0];

  ldb_background_compaction(db);

  CHECK(g_held && g_locks == 1 && g_unlocks == 0, "background compaction returns with the mutex held");
  CHECK(g_pick_calls == 1, "one compaction picked");
  if (g_pick_result == NULL) {
    CHECK(g_apply_calls == 0 && g_cdestroy_calls == 0 && db->bg_error == LDB_OK, "nothing to compact: nothing changes");
  } else {
    CHECK(g_trivial_calls == 1 && g_apply_calls == 1 && g_cdestroy_calls == 1, "trivial move: one edit applied, compaction object released");
    CHECK(g_apply_rm == 1 && g_rm_level == g_c.level && g_rm_number == f->number, "C14 trivial move: the file is removed from its level ...");
    CHECK(g_apply_af == 1 && g_af_level[0] == g_c.level + 1 && g_af_number[0] == f->number && g_af_size[0] == f->file_size && g_af_small[0] == &f->smallest && g_af_large[0] == &f->largest,
          "C14 trivial move: ... and added to level+1 with the same number, size and key range, in the same edit");
    CHECK(g_apply_indel == 0 && g_allocs == 0 && g_f_creates == 0, "trivial move: no table is read or written");
    CHECK((db->bg_error != LDB_OK) == (g_apply_rc != LDB_OK), "E3: a failed MANIFEST write latches bg_error; success leaves it clear");
    if (g_apply_rc != LDB_OK) CHECK(db->bg_error == g_apply_rc && g_broadcasts >= 1, "E3: the latched error is the MANIFEST write's status, waiters are woken");
  }
  CANARY();
}
