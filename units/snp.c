/* units/snp.c - proof units for src/util/snappy.c (C18, C16)
 *
 * Snappy raw format: varint32(uncompressed length) followed by elements
 *   literal : tag 00, length-1 in the upper 6 bits (60..63: 1..4 length bytes follow), then the bytes
 *   copy1   : tag 01, len 4..11, 11-bit offset;  copy2: tag 10, len 1..64, 16-bit offset;  copy4: tag 11, 32-bit offset
 * The decoder must be total and memory safe on arbitrary bytes: it never
 * writes outside [zp, zp+zn) and never reads outside the input or before the
 * start of the output.  The real snappy.c is included unmodified.
 */
#include "verif.h"
#include "contracts/coding.h"
#include "util/coding.h"
#include "util/snappy.h"

#if !defined(VERIF_NATIVE) && defined(SNP_MEMCPY_MODEL)
/* memcpy model for the decoder units: checks what the C standard demands of
 * the caller (source readable, destination writable, no overlap) and leaves
 * the destination bytes unspecified (one arbitrary byte is written so that
 * the frame is exercised).  The decoder's control flow never depends on
 * output content; content is the business of snp.rt. */
uint8_t nondet_u8(void);
void *memcpy(void *dst, const void *src, size_t n) {
  __CPROVER_assert(n == 0 || __CPROVER_w_ok(dst, n), "memcpy: destination writable for n bytes");
  __CPROVER_assert(n == 0 || __CPROVER_r_ok(src, n), "memcpy: source readable for n bytes");
  __CPROVER_assert(n == 0 || !__CPROVER_same_object(dst, src) ||
                   (const char *)dst + n <= (const char *)src || (const char *)src + n <= (const char *)dst,
                   "memcpy: source and destination do not overlap");
  if (n > 0) {
    size_t k = nondet_size();
    __CPROVER_assume(k < n);
    ((uint8_t *)dst)[k] = nondet_u8();
  }
  return dst;
}
#endif

#include "util/snappy.c"

/* varint32 at (p, n): length of the terminated LEB128 sequence (<= 5 bytes), 0 = none */
#define SNP_T_(p, n, j) ((n) > (size_t)(j) && ((p)[j] & 128) == 0)
#define SNP_VLEN(p, n) ((size_t)(SNP_T_(p, n, 0) ? 1 : SNP_T_(p, n, 1) ? 2 : SNP_T_(p, n, 2) ? 3 : SNP_T_(p, n, 3) ? 4 : SNP_T_(p, n, 4) ? 5 : 0))
#define SNP_VVAL(p, n) V32_VAL(p, SNP_VLEN(p, n))
/* the stream announces a legal uncompressed length */
#define SNP_HDR_OK(p, n) (SNP_VLEN(p, n) != 0 && SNP_VVAL(p, n) <= 0x7fffffffu)

#ifndef VERIF_NATIVE

int c_snappy_decode_size(size_t *zn, const uint8_t *xp, size_t xn)
__CPROVER_requires(__CPROVER_w_ok(zn, sizeof(*zn)) && __CPROVER_r_ok(xp, xn))
__CPROVER_assigns(*zn)
__CPROVER_ensures(__CPROVER_return_value == (SNP_HDR_OK(xp, xn) ? 1 : 0))
__CPROVER_ensures(__CPROVER_return_value != 1 || *zn == (size_t)SNP_VVAL(xp, xn))
__CPROVER_ensures(__CPROVER_return_value != 0 || *zn == __CPROVER_old(*zn))
;

/* decode_blocks: arbitrary element stream (xp, xn) into exactly zn output bytes */
int c_decode_blocks(uint8_t *zp, size_t zn, const uint8_t *xp, size_t xn)
__CPROVER_requires(zn == 0 || __CPROVER_w_ok(zp, zn))
__CPROVER_requires(xn == 0 || __CPROVER_r_ok(xp, xn))
__CPROVER_requires(zp != NULL && xp != NULL)
__CPROVER_assigns(__CPROVER_object_from(zp))
__CPROVER_ensures(__CPROVER_return_value == 0 || __CPROVER_return_value == 1)
/* an output that needs bytes cannot come from an empty stream, and vice versa */
__CPROVER_ensures(xn != 0 || __CPROVER_return_value == (zn == 0 ? 1 : 0))
;

int c_snappy_decode(uint8_t *zp, const uint8_t *xp, size_t xn)
__CPROVER_requires(__CPROVER_r_ok(xp, xn) && zp != NULL)
/* caller protocol (ldb_read_block): the output buffer has the size snappy_decode_size announced */
__CPROVER_requires(!SNP_HDR_OK(xp, xn) || SNP_VVAL(xp, xn) == 0 || __CPROVER_w_ok(zp, SNP_VVAL(xp, xn)))
__CPROVER_assigns(__CPROVER_object_from(zp))
__CPROVER_ensures(__CPROVER_return_value == 0 || __CPROVER_return_value == 1)
__CPROVER_ensures(SNP_HDR_OK(xp, xn) || __CPROVER_return_value == 0)
/* the element stream is what follows the length header: a stream that ends with the header decodes iff the announced length is 0 */
__CPROVER_ensures(!SNP_HDR_OK(xp, xn) || SNP_VLEN(xp, xn) != xn || __CPROVER_return_value == (SNP_VVAL(xp, xn) == 0 ? 1 : 0))
;

void h_decode_size(void) {
  IN_SIZE(in_n); IN_BUF(buf, in_n); SNAP_BUF(buf, in_n);
  size_t zn = 77; int r;
  r = snappy_decode_size(&zn, buf, in_n);
  CHECK(r == (SNP_HDR_OK(buf, in_n) ? 1 : 0), "snappy_decode_size: succeeds iff a terminated varint32 <= 0x7fffffff starts the input");
  CHECK(r ? zn == (size_t)SNP_VVAL(buf, in_n) : zn == 77, "snappy_decode_size: announces the varint32 value, or leaves *zn untouched");
  CANARY();
}

#ifndef SNP_MAX_IN
#define SNP_MAX_IN 6
#define SNP_MAX_OUT 8
#endif
/* BOUNDED stand-in (see units/snp.json).  Fixed-size backing arrays keep the
 * SAT encoding small; the output window [zp, zp+zn) is placed either at the
 * END of its array (a write or read past zp+zn is out of bounds) or at the
 * START (a back-reference before zp is out of bounds); the input window
 * always ends at the end of its array (an over-read is out of bounds). */
static void snp_blocks_harness(size_t in_zn, size_t in_n, int at_end) {
  uint8_t inb[SNP_MAX_IN + 1], outb[SNP_MAX_OUT + 1];
  uint8_t *out; const uint8_t *in; int r;
  ASSUME(in_n <= SNP_MAX_IN && in_zn <= SNP_MAX_OUT);
  in = inb + (SNP_MAX_IN + 1 - in_n);
  out = at_end ? outb + (SNP_MAX_OUT + 1 - in_zn) : outb;
  r = decode_blocks(out, in_zn, in, in_n);
  CHECK(r == 0 || r == 1, "decode_blocks: returns 0 or 1");
}
void h_decode_blocks(void) { IN_SIZE(in_zn); IN_SIZE(in_n); snp_blocks_harness(in_zn, in_n, 1); CANARY(); }
void h_decode_blocks_lo(void) { IN_SIZE(in_zn); IN_SIZE(in_n); snp_blocks_harness(in_zn, in_n, 0); CANARY(); }

void h_decode(void) {
  IN_SIZE(in_n); IN_BUF(buf, in_n); SNAP_BUF(buf, in_n);
  size_t zn = 0; uint8_t *out; int r;
  /* the caller's protocol: ask for the size, allocate exactly that, decode */
  if (!snappy_decode_size(&zn, buf, in_n))
    zn = 0;
  out = malloc(zn);
  ASSUME(out != NULL);
  r = snappy_decode(out, buf, in_n);
  CHECK(r == 0 || r == 1, "snappy_decode: returns 0 or 1");
  CANARY();
}
#endif
