/* units/envr_ch.c - ldb_get_children for a directory with an ARBITRARY number of entries (loop contracts).
 * Companion of units/envr.c (envr.children.b: bounded, with CBMC's leak check and a moving realloc).
 * Properties: C13 / C20 / C05 (the listing is complete: every entry other than "." and ".." exactly once, in its
 * slot, as a private copy; a readdir error is never taken for the end), C18 (list growth is memory-safe for any
 * number of entries), C12 (errors reported, nothing leaked: every name and the list freed exactly once, the
 * directory stream closed exactly once).
 *
 * The real env.c (which #includes env_unix_impl.h) is included unmodified.  Models:
 *   - directory: g_nent entries handed out in order through ONE static struct dirent; every entry is ".", ".." or
 *     a regular name; ONE arbitrary entry index g_k is tracked (ghost-index method): its kind and name are fixed
 *     before the call, readdir records how many regular entries came before it (= its slot in the result);
 *   - malloc(n): NULL or an object of SOME size m >= n (symbolic, m == n included);
 *   - realloc(list, n): NULL, or the SAME pointer when the object is large enough (IN-PLACE growth).  A loop
 *     contract's write set is fixed at loop entry, so a list that moves to a new object in one iteration cannot be
 *     written in the next; the moving realloc is exercised by envr.children.b (bounded).  Capacity accounting is
 *     still checked: the invariant ties `size` to what realloc granted, a write beyond it violates the invariant;
 *   - memcpy(name, d_name, len + 1): ghost-index model: bounds asserted, the destination becomes arbitrary except at
 *     character g_c and at the last byte (over-approximation of the copy); it records which object holds the copy
 *     of the tracked entry's name;
 *   - free: the list object is really freed (and counted); names are only counted (see verif_free);
 *   - strlen: an index of a NUL byte inside the object (over-approximates the library loop); strcmp: the library loop unrolled
 *     three times (exact against "." and "..", asserted).
 */
#include "verif.h"
#include <errno.h>
#include <sys/types.h>
#include <dirent.h>
#include <string.h>

int nondet_int(void);
size_t nondet_size(void);
unsigned long nondet_ulong(void);

int g_errno;
int *__errno_location(void) { return &g_errno; }

/* ------------------------------------------------------------------ ghost */
static char g_dirobj;
static struct dirent g_dirent;
unsigned long g_nent, g_dpos, g_nreg, g_k, g_k_slot;
int g_dir_st, g_k_kind, g_k_seen; unsigned g_opendir_calls, g_closedir_calls, g_readdir_err;
const char *g_dir_name;
char g_kname[256];
size_t g_c;                    /* arbitrary character position in a name                           */
size_t g_strlen_ret;           /* what the last strlen returned                                     */
void *g_k_copy;                /* the object that received the copy of the tracked entry's name     */
int g_k_copied, g_k_char_ok, g_k_term_ok;   /* ... copied once; character g_c and the terminator arrived */
unsigned g_list_freed; void *g_list_obj; unsigned long g_mallocs, g_reallocs;
void *g_last_name; int g_realloc_failed;   /* the most recent name allocation; the list could not grow */
#define NAME_LAST 255
#define IS_DOT(s) ((s)[0] == '.' && ((s)[1] == 0 || ((s)[1] == '.' && (s)[2] == 0)))

/* ----------------------------------------------------------- libc models */
DIR *opendir(const char *path) {
  g_opendir_calls++; g_dir_name = path;
  if (nondet_int()) { g_errno = nondet_int(); return NULL; }
  __CPROVER_assert(g_dir_st != 1, "opendir: one directory stream at a time");
  g_dir_st = 1; g_dpos = 0; g_nreg = 0;
  return (DIR *)&g_dirobj;
}
struct dirent *readdir(DIR *d) {
  int kind;
  __CPROVER_assert(d == (DIR *)&g_dirobj && g_dir_st == 1, "readdir on the open directory stream");
  __CPROVER_assert(g_errno == 0, "errno is cleared before readdir (the only way to tell the end of the directory from an error)");
  if (g_dpos >= g_nent) return NULL;                                  /* end of directory: errno untouched */
  if (nondet_int()) { g_errno = nondet_int(); __CPROVER_assume(g_errno != 0); g_readdir_err++; return NULL; }
  __CPROVER_assume(g_dpos < (1ul << 40));                             /* fewer than 2^40 entries */
  /*H*/
  if (g_dpos == g_k) {
    kind = g_k_kind; g_k_seen++; g_k_slot = g_nreg;
    /*AC*/
  } else {
    kind = nondet_int();
    if (kind == 1) { g_dirent.d_name[0] = '.'; g_dirent.d_name[1] = 0; }
    else if (kind == 2) { g_dirent.d_name[0] = '.'; g_dirent.d_name[1] = '.'; g_dirent.d_name[2] = 0; }
    else { kind = 0; g_dirent.d_name[NAME_LAST] = 0; __CPROVER_assume(!IS_DOT(g_dirent.d_name)); }
  }
  if (kind == 0) g_nreg++;
  g_dpos++;
  return &g_dirent;
}
int closedir(DIR *d) {
  __CPROVER_assert(d == (DIR *)&g_dirobj && g_dir_st == 1, "closedir: the stream is open (closed exactly once)");
  g_dir_st = 2; g_closedir_calls++;
  return nondet_int() ? -1 : 0;
}
/* strcmp unrolled three times: exact whenever the second string has at most 2 characters (asserted) - the code
   compares only against "." and ".." (CBMC's library loop inside a loop under contract is not accepted by dfcc) */
int strcmp(const char *a, const char *b) {
  const unsigned char *x = (const unsigned char *)a, *y = (const unsigned char *)b;
  __CPROVER_assert(y[0] == 0 || y[1] == 0 || y[2] == 0, "strcmp model: the second string has at most 2 characters");
  if (x[0] != y[0]) return (int)x[0] - (int)y[0];
  if (x[0] == 0) return 0;
  if (x[1] != y[1]) return (int)x[1] - (int)y[1];
  if (x[1] == 0) return 0;
  if (x[2] != y[2]) return (int)x[2] - (int)y[2];
  return 0;   /* x[2] == y[2] == 0 */
}
size_t strlen(const char *s) {
  size_t n = nondet_size();
  __CPROVER_assume(__CPROVER_r_ok(s, n + 1) && n < ((size_t)1 << 40));
  __CPROVER_assume(s[n] == 0);
  g_strlen_ret = n;
  return n;
}
static void *verif_malloc(size_t n) {
  size_t m = nondet_size();
  void *p;
  __CPROVER_assume(m >= n && m <= ((size_t)1 << 50));
  p = malloc(m);
  if (p != NULL) { if (g_mallocs == 0) g_list_obj = p; else g_last_name = p; g_mallocs++; }     /* the first allocation of the call is the list */
  return p;
}
static void *verif_realloc(void *p, size_t n) {
  __CPROVER_assert(p != NULL && p == g_list_obj && n > 0 && __CPROVER_POINTER_OFFSET(p) == 0, "realloc of the list (start of a live heap object) to a non-zero size");
  g_reallocs++;
  if (nondet_int() || n > __CPROVER_OBJECT_SIZE(p)) { g_realloc_failed = 1; return NULL; }
  return p;                                                                 /* in-place growth, see the header */
}
/* free(expr): the model is told WHICH expression of ldb_get_children is freed (0: `list`, 1: a slot `list[j]`,
   2: the pending `name`) - see the macro below.  Only the list object is really freed (later use of it is then a
   memory-safety violation); names are counted: with one ghost index the pointers in the other slots are unknown
   values and 'every slot holds a distinct live heap pointer' needs a quantifier (identity of the freed names, leak
   check and double frees: envr.children.b, bounded). */
unsigned long g_slot_frees, g_name_frees;
static void verif_free(void *p, int what) {
  if (what == 0) {
    __CPROVER_assert(p != NULL && p == g_list_obj, "free(list): the list allocated by this call");
    g_list_freed++; free(p);
  } else if (what == 2) {
    __CPROVER_assert(p != NULL && p == g_last_name, "free(name): the name that was allocated last and not yet stored");
    g_name_frees++;
  } else {
    g_slot_frees++;
  }
}
static void *verif_memcpy(void *dst, const void *src, size_t n) {
  __CPROVER_assert(n > 0 && __CPROVER_r_ok(src, n) && __CPROVER_w_ok(dst, n), "memcpy: source readable and destination writable for n bytes");
  {
    unsigned char vc = g_c < n ? ((const unsigned char *)src)[g_c] : 0, vl = ((const unsigned char *)src)[n - 1];
    __CPROVER_havoc_object(dst);
    if (g_c < n) ((unsigned char *)dst)[g_c] = vc;
    ((unsigned char *)dst)[n - 1] = vl;
    if (src == (const void *)g_dirent.d_name && g_dpos == g_k + 1 && g_k_kind == 0) {
      /* this is the copy of the tracked entry's name */
      g_k_copy = dst; g_k_copied++;
      g_k_term_ok = (n == g_strlen_ret + 1 && vl == 0);
      g_k_char_ok = (g_c >= n || g_c > NAME_LAST || ((unsigned char *)dst)[g_c] == (unsigned char)g_kname[g_c]);
    }
  }
  return dst;
}
#define malloc(n) verif_malloc(n)
#define realloc(p, n) verif_realloc(p, n)
#define free(p) verif_free((p), (#p)[4] == '[' ? 1 : ((#p)[0] == 'n' ? 2 : 0))
#define memcpy(d, s, n) verif_memcpy(d, s, n)

#include "util/env.c"

#undef malloc
#undef realloc
#undef free
#undef memcpy

static char g_path[4];
/* frame + summary contract of ldb_get_children (gives the loops a parent write set that allows allocation); the
   detailed obligations are the CHECKs of the harness, evaluated on the state the real function leaves behind */
#define GHOST_CH g_errno, g_opendir_calls, g_dir_name, g_dir_st, g_dpos, g_nreg, g_k_seen, g_k_slot, g_readdir_err, g_strlen_ret, g_k_copy, g_k_copied, \
  g_k_term_ok, g_k_char_ok, g_mallocs, g_reallocs, g_dirent, g_closedir_calls, g_list_freed, g_slot_frees, g_name_frees, g_last_name, g_realloc_failed, g_list_obj
int c_get_children(const char *path, char ***out)
__CPROVER_requires(path != NULL && __CPROVER_w_ok(out, sizeof(*out)) && g_dir_st == 0 && g_mallocs == 0 && g_slot_frees == 0 && g_name_frees == 0 && g_list_freed == 0 && !g_realloc_failed)
__CPROVER_requires(g_k_seen == 0 && g_k_copied == 0 && g_readdir_err == 0 && g_opendir_calls == 0 && g_closedir_calls == 0)
__CPROVER_assigns(*out, GHOST_CH)
__CPROVER_ensures(__CPROVER_return_value >= -1 && (__CPROVER_return_value == -1 ? *out == NULL : ((unsigned long)__CPROVER_return_value == g_nreg && (void *)*out == g_list_obj)))
__CPROVER_ensures(g_dir_st != 1)
;
void h_children_u(void) {
  char **list = (char **)&g_dirobj;
  int rc;
  g_errno = nondet_int();
  g_dir_st = 0; g_k_seen = 0; g_opendir_calls = g_closedir_calls = g_readdir_err = 0; g_dpos = 0; g_nreg = 0;
  g_mallocs = g_reallocs = 0; g_k_copied = 0; g_list_freed = 0; g_slot_frees = g_name_frees = 0; g_k_copy = NULL; g_list_obj = NULL;
  g_k_char_ok = g_k_term_ok = 0; g_last_name = NULL; g_realloc_failed = 0;
  __CPROVER_assume(g_k_kind >= 0 && g_k_kind <= 2);
  if (g_k_kind == 1) { g_kname[0] = '.'; g_kname[1] = 0; }
  else if (g_k_kind == 2) { g_kname[0] = '.'; g_kname[1] = '.'; g_kname[2] = 0; }
  else { g_kname[NAME_LAST] = 0; __CPROVER_assume(!IS_DOT(g_kname)); }

  rc = ldb_get_children(g_path, &list);

  CHECK(g_opendir_calls <= 1 && (g_opendir_calls == 0 || g_dir_name == g_path), "get_children: the named directory is opened at most once");
  CHECK(g_dir_st != 1 && g_closedir_calls == (g_dir_st == 2 ? 1u : 0u), "get_children: the directory stream is closed exactly once on every path, if it was opened");
  if (rc < 0) {
    CHECK(rc == -1 && list == NULL, "get_children failed: -1 and no list");
    CHECK(g_list_freed == (g_mallocs > 0 ? 1u : 0u), "get_children failed: the list is freed exactly once (if it was allocated)");
    CHECK(g_slot_frees + g_name_frees == (g_mallocs > 0 ? g_mallocs - 1 : 0), "get_children failed: as many names are freed as were allocated");
    CHECK(g_name_frees == (g_realloc_failed ? 1u : 0u), "get_children failed: the name that was waiting to be stored when the list could not grow is freed (once), not leaked");
  } else {
    CHECK(g_dir_st == 2 && g_dpos == g_nent && g_readdir_err == 0, "get_children OK: the directory was read to its end without error (a readdir error is never taken for the end)");
    CHECK((unsigned long)rc == g_nreg, "get_children OK: the count is the number of entries other than . and ..");
    CHECK(list != NULL && list == (char **)g_list_obj && __CPROVER_rw_ok(list, (size_t)rc * sizeof(char *)), "get_children OK: a list with room for that many names");
    CHECK(g_list_freed == 0 && g_slot_frees == 0 && g_name_frees == 0, "get_children OK: nothing that is handed out was freed");
    if (g_k < g_nent) {
      CHECK(g_k_seen == 1, "every entry is delivered once");
      if (g_k_kind == 0) {
        CHECK(g_k_copied == 1 && g_k_slot < (unsigned long)rc && list[g_k_slot] == (char *)g_k_copy, "a regular entry is copied once and the copy is in its slot (slot = number of regular entries before it)");
        CHECK(g_k_copy != (void *)g_dirent.d_name && g_k_term_ok && g_k_char_ok, "the copy is private, terminated, and holds the entry's name (arbitrary character position)");
      } else {
        CHECK(g_k_copied == 0, ". and .. are never copied into the list");
      }
    }
  }
  CANARY();
}
