/* units/dbapi.c - thin public entry points of src/db_impl.c
 *   dbapi.iterator         : ldb_iterator (over the REAL ldb_internal_iterator)                    (C06, C07)
 *   dbapi.has              : ldb_has (over the REAL ldb_get, value == NULL)                        (C01, C04, C06)
 *   dbapi.put / dbapi.del  : one-record batch through ldb_write                                    (C01, C04)
 *   dbapi.compact_memtable : ldb_test_compact_memtable (wait for the flush)                        (C09, C12, C14)
 *   dbapi.compact_range    : ldb_test_compact_range (manual compaction request + wait loops)       (C09, C12, C14)
 *   dbapi.compact          : ldb_compact (memtable first, then every level above the deepest overlap) (C14)
 *   dbapi.sizes            : ldb_approximate_sizes                                                 (C01, C06)
 *
 * The real db_impl.c is included unmodified.  Other translation units (memtable, version set, merging / DB iterator,
 * write batch, dbformat, thread pool, mutex / condition variable) are ghost models.  ldb_write, ldb_test_compact_memtable
 * and ldb_test_compact_range - same translation unit - are used by their callers through call-protocol carriers
 * (trusted.json; the functions themselves: db.write, dbapi.compact_memtable, dbapi.compact_range).
 *
 * Thread model (lock-invariant method, DESIGN 3.5): shared state changes only while this thread does not hold the mutex
 * - inside cond_wait and after unlock - and only by transitions the protocol allows (others_run below: writers,
 * ldb_close, other callers of ldb_test_compact_range, and the background call split into a begin and an end step so
 * that this thread can be woken while the background thread still holds a pointer to its request).
 */
#include "verif.h"
#include <stddef.h>
int nondet_int(void);
uint64_t nondet_u64(void);
uint32_t nondet_u32(void);
size_t nondet_size(void);

#include "db_impl.c"

/* ------------------------------------------------------------------ ghost */
enum { M_READ = 1, M_WRITE, M_CM, M_RANGE, M_COMPACT, M_SIZES };
int g_mode;
ldb_t *g_db;
int g_held; unsigned g_locks, g_unlocks;
ldb_memtable_t g_mem0, g_imm0, g_mem_other; ldb_version_t g_ver0, g_ver_other;
ldb_versions_t g_versions;
uint64_t g_seq_at_lock; uint32_t g_seed_at_lock; int g_first_lock_done;
int g_ref_mem0, g_ref_imm0, g_ref_ver0, g_ref_bad;
#define SHUT(db) (*(int *)&(db)->shutting_down)

static ldb_readopt_t g_opt_default_read, g_opt_default_iter; static ldb_writeopt_t g_opt_default_write;
const ldb_readopt_t *ldb_readopt_default; const ldb_readopt_t *ldb_iteropt_default; const ldb_writeopt_t *ldb_writeopt_default;

int g_bg_running;                /* a background call is between its first and last critical section (see others_run) */
static void others_run(void);
static void wait_checks(void);
static void exit_checks(void);

/* ----------------------------------------------------------- thread model */
void ldb_mutex_lock(ldb_mutex_t *m) {
  __CPROVER_assert(m == &g_db->mutex && !g_held, "lock: the DB mutex, not already held");
  if (g_mode == M_READ || g_mode == M_SIZES) {
    /* other threads ran until now: writes were published */
    if (nondet_int()) { uint64_t adv = nondet_u64(); __CPROVER_assume(adv < (1ull << 40) && g_db->versions->last_sequence < (1ull << 56) - adv); g_db->versions->last_sequence += adv; }
  }
  g_held = 1; g_locks++;
  if (!g_first_lock_done) { g_first_lock_done = 1; g_seq_at_lock = g_db->versions->last_sequence; g_seed_at_lock = g_db->seed; }
}
void ldb_mutex_unlock(ldb_mutex_t *m) {
  __CPROVER_assert(m == &g_db->mutex && g_held, "unlock: the DB mutex, held");
  if (g_mode == M_RANGE || g_mode == M_CM) exit_checks();
  g_held = 0; g_unlocks++;
  if ((g_mode == M_READ || g_mode == M_SIZES) && nondet_int()) {
    /* other threads run: memtables are switched, versions installed, writes published */
    uint64_t adv = nondet_u64(); __CPROVER_assume(adv < (1ull << 40) && g_db->versions->last_sequence < (1ull << 56) - adv);
    g_db->versions->last_sequence += adv;
    if (nondet_int()) { g_db->imm = g_db->mem; g_db->mem = &g_mem_other; }
    if (nondet_int()) g_db->imm = NULL;
    if (nondet_int()) g_db->versions->current = &g_ver_other;
  }
}
int g_waits;
void ldb_cond_wait(ldb_cond_t *cv, ldb_mutex_t *m) {
  __CPROVER_assert(m == &g_db->mutex && g_held, "wait: with the DB mutex held");
  __CPROVER_assert(cv == &g_db->background_work_finished_signal, "wait: on the background-work signal (the one the background call broadcasts)");
  __CPROVER_assert(g_mode == M_RANGE || g_mode == M_CM, "only the compaction entry points wait");
  wait_checks();
  g_held = 0; g_waits++;
  others_run();
  g_held = 1;
}
void ldb_cond_signal(ldb_cond_t *cv) { __CPROVER_assert(0, "no entry point of this group signals"); }
void ldb_cond_broadcast(ldb_cond_t *cv) { __CPROVER_assert(0, "no entry point of this group broadcasts"); }
int g_sched_calls;
void ldb_pool_schedule(ldb_pool_t *pool, ldb_work_f *func, void *arg) {
  __CPROVER_assert(g_held && arg == g_db && func == &ldb_background_call && pool == g_db->pool, "background work is scheduled under the mutex: ldb_background_call for this DB on its pool");
  g_sched_calls++;
}
int g_needs;
int ldb_versions_needs_compaction(const ldb_versions_t *vset) { return g_needs; }

/* ------------------------------------------------ pins (as in db.get/db.iter) */
void ldb_memtable_ref(ldb_memtable_t *mt) { __CPROVER_assert(g_held, "memtables are pinned under the mutex"); if (mt == &g_mem0) g_ref_mem0++; else if (mt == &g_imm0) g_ref_imm0++; else g_ref_bad++; }
void ldb_memtable_unref(ldb_memtable_t *mt) { __CPROVER_assert(g_held, "memtables are unpinned under the mutex"); if (mt == &g_mem0) g_ref_mem0--; else if (mt == &g_imm0) g_ref_imm0--; else g_ref_bad++; }
void ldb_version_ref(ldb_version_t *v) { __CPROVER_assert(g_held, "the version is pinned under the mutex"); if (v == &g_ver0) g_ref_ver0++; else g_ref_bad++; }
void ldb_version_unref(ldb_version_t *v) { __CPROVER_assert(g_held, "the version is unpinned under the mutex"); if (v == &g_ver0) g_ref_ver0--; else g_ref_bad++; }

/* =========================================================== dbapi.iterator */
ldb_iter_t *g_it_mem, *g_it_imm, *g_it_merge, *g_it_db;
void *g_items[4]; size_t g_pushes; int g_additers; const ldb_readopt_t *g_additers_opt; int g_merge_calls, g_regs;
int g_dbiter_calls; ldb_t *g_di_db; const ldb_comparator_t *g_di_ucmp; ldb_iter_t *g_di_iter; uint64_t g_di_seq; uint32_t g_di_seed; int g_di_held;
ldb_comparator_t g_user_cmp;

void ldb_vector_init(ldb_vector_t *z) { z->items = g_items; z->length = 0; z->alloc = 4; }
void ldb_vector_clear(ldb_vector_t *z) { }
void ldb_vector_push(ldb_vector_t *z, const void *x) { __CPROVER_assert(z->length < 4, "child list: at most memtable, immutable memtable and the version's iterators"); z->items[z->length++] = (void *)x; g_pushes++; }
ldb_iter_t *ldb_memiter_create(const ldb_memtable_t *mt) { __CPROVER_assert(g_held, "memtable iterators are created under the mutex"); return mt == &g_mem0 ? g_it_mem : g_it_imm; }
void ldb_version_add_iterators(ldb_version_t *v, const ldb_readopt_t *options, ldb_vector_t *iters) {
  __CPROVER_assert(g_held && v == &g_ver0, "table iterators come from the version that is current in this critical section");
  __CPROVER_assert(options != NULL, "iterator: table iterators get read options (the defaults when the caller passed none)");
  g_additers++; g_additers_opt = options;
}
ldb_iter_t *ldb_mergeiter_create(const ldb_comparator_t *comparator, ldb_iter_t **children, int n) { g_merge_calls++; return g_it_merge; }
void ldb_iter_register_cleanup(ldb_iter_t *iter, ldb_cleanup_f func, void *arg1, void *arg2) { g_regs++; }
void *ldb_malloc(size_t size) { void *p = malloc(size); __CPROVER_assume(p != NULL); return p; }
void ldb_free(void *ptr) { free(ptr); }
ldb_iter_t *ldb_dbiter_create(struct ldb_s *db, const struct ldb_comparator_s *user_comparator, struct ldb_iter_s *internal_iter, uint64_t sequence, uint32_t seed) {
  g_dbiter_calls++; g_di_db = db; g_di_ucmp = user_comparator; g_di_iter = internal_iter; g_di_seq = sequence; g_di_seed = seed; g_di_held = g_held;
  return g_it_db;
}

static ldb_readopt_t g_ropt; static ldb_snapshot_t g_snap;

static ldb_t *mk_db(void) {
  ldb_t *db = malloc(sizeof(ldb_t));
  __CPROVER_assume(db != NULL);
  g_db = db; db->versions = &g_versions; g_versions.current = &g_ver0;
  g_versions.last_sequence = nondet_u64(); __CPROVER_assume(g_versions.last_sequence < (1ull << 55));
  db->mem = &g_mem0;
  ldb_readopt_default = &g_opt_default_read; ldb_iteropt_default = &g_opt_default_iter; ldb_writeopt_default = &g_opt_default_write;
  g_opt_default_read.snapshot = NULL; g_opt_default_iter.snapshot = NULL;
  g_held = 0; g_locks = g_unlocks = 0; g_first_lock_done = 0; g_waits = 0; g_sched_calls = 0;
  g_ref_mem0 = g_ref_imm0 = g_ref_ver0 = g_ref_bad = 0;
  g_needs = nondet_int() ? 1 : 0;
  return db;
}

void h_iterator(void) {
  ldb_t *db = mk_db();
  ldb_iter_t *it;
  int had_imm = nondet_int() ? 1 : 0, use_opt = nondet_int() ? 1 : 0, use_snap = nondet_int() ? 1 : 0;
  g_mode = M_READ;
  db->imm = had_imm ? &g_imm0 : NULL;
  db->internal_comparator.user_comparator = &g_user_cmp;
  g_it_mem = malloc(1); g_it_imm = malloc(1); g_it_merge = malloc(1); g_it_db = malloc(1);
  __CPROVER_assume(g_it_mem && g_it_imm && g_it_merge && g_it_db);
  g_pushes = 0; g_additers = 0; g_merge_calls = 0; g_regs = 0; g_dbiter_calls = 0; g_additers_opt = NULL;
  g_snap.sequence = nondet_u64(); g_ropt.snapshot = use_snap ? &g_snap : NULL;

  it = ldb_iterator(db, use_opt ? &g_ropt : NULL);

  CHECK(!g_held && g_locks == 1 && g_unlocks == 1, "iterator: one critical section (inside ldb_internal_iterator), mutex released at return");
  CHECK(g_dbiter_calls == 1 && it == g_it_db, "iterator: the result is the DB iterator built by ldb_dbiter_create");
  CHECK(g_di_db == db && g_di_ucmp == &g_user_cmp, "iterator: the DB iterator works on this DB with the USER comparator (it strips the tags itself)");
  CHECK(g_di_iter == g_it_merge && g_merge_calls == 1 && g_regs == 1, "iterator: it wraps exactly the internal iterator returned by ldb_internal_iterator");
  CHECK(g_di_seq == ((use_opt && use_snap) ? g_snap.sequence : g_seq_at_lock),
        "S2/S4: the iterator reads at the snapshot's sequence if the options name one, else at last_sequence AS CAPTURED under the mutex together with memtables and version");
  CHECK(g_di_seed == (uint32_t)(g_seed_at_lock + 1) && db->seed == g_di_seed, "iterator: the sampling seed advanced under the mutex is passed on");
  CHECK(g_additers == 1 && g_additers_opt == (use_opt ? (const ldb_readopt_t *)&g_ropt : ldb_iteropt_default), "iterator: the caller's read options reach the table iterators, the iterator defaults when the caller passed NULL");
  CHECK(g_ref_mem0 == 1 && g_ref_imm0 == had_imm && g_ref_ver0 == 1 && g_ref_bad == 0, "iterator: sources pinned exactly once (released by the cleanup registered on the internal iterator, db.iter)");
  CANARY();
}

/* ================================================================ dbapi.has */
const ldb_slice_t *g_lkey_key; uint64_t g_lkey_seq; int g_lkey_inits, g_lkey_clears;
int g_mem_gets, g_imm_gets, g_ver_gets, g_mem_hit, g_imm_hit, g_mem_rc, g_imm_rc, g_ver_rc, g_stats_upd, g_value_seen;
const ldb_readopt_t *g_ver_get_opt;
void ldb_lkey_init(ldb_lkey_t *lkey, const ldb_slice_t *user_key, ldb_seqnum_t sequence) { g_lkey_inits++; g_lkey_key = user_key; g_lkey_seq = sequence; }
void ldb_lkey_clear(ldb_lkey_t *lkey) { g_lkey_clears++; }
int ldb_memtable_get(ldb_memtable_t *mt, const ldb_lkey_t *lkey, ldb_buffer_t *value, int *status) {
  __CPROVER_assert(!g_held && g_lkey_inits == 1, "memtable lookups run without the mutex, with the lookup key built");
  if (value != NULL) g_value_seen = 1;
  if (mt == &g_mem0) {
    __CPROVER_assert(g_ref_mem0 == 1 && g_imm_gets == 0 && g_ver_gets == 0, "K4: the pinned mutable memtable is consulted first");
    g_mem_gets++; g_mem_hit = nondet_int() ? 1 : 0;
    if (g_mem_hit) { g_mem_rc = nondet_int() ? LDB_OK : LDB_NOTFOUND; *status = g_mem_rc; }
    return g_mem_hit;
  }
  __CPROVER_assert(mt == &g_imm0 && g_ref_imm0 == 1 && g_mem_gets == 1 && !g_mem_hit && g_ver_gets == 0, "K4: then the pinned immutable memtable, only after a miss");
  g_imm_gets++; g_imm_hit = nondet_int() ? 1 : 0;
  if (g_imm_hit) { g_imm_rc = nondet_int() ? LDB_OK : LDB_NOTFOUND; *status = g_imm_rc; }
  return g_imm_hit;
}
int ldb_version_get(ldb_version_t *v, const ldb_readopt_t *options, const ldb_lkey_t *k, ldb_buffer_t *value, ldb_getstats_t *stats) {
  __CPROVER_assert(!g_held && v == &g_ver0 && g_ref_ver0 == 1, "table lookups run without the mutex on the pinned version");
  if (value != NULL) g_value_seen = 1;
  g_ver_gets++; g_ver_rc = nondet_int(); g_ver_get_opt = options;
  return g_ver_rc;
}
int ldb_version_update_stats(ldb_version_t *v, const ldb_getstats_t *stats) { __CPROVER_assert(g_held && v == &g_ver0, "seek statistics are charged under the mutex"); g_stats_upd++; return nondet_int() ? 1 : 0; }
int g_buf_calls;
void ldb_buffer_init(ldb_buffer_t *z) { g_buf_calls++; z->data = NULL; z->size = 0; z->alloc = 0; }
uint8_t g_valbuf[1];
uint8_t *ldb_buffer_grow(ldb_buffer_t *z, size_t zn) { g_buf_calls++; if (z->alloc < zn) { z->data = g_valbuf; z->alloc = zn; } return z->data; }
void ldb_buffer_clear(ldb_buffer_t *z) { g_buf_calls++; z->data = NULL; z->size = 0; z->alloc = 0; }

void h_has(void) {
  ldb_t *db = mk_db();
  ldb_slice_t key; int rc;
  int had_imm = nondet_int() ? 1 : 0, use_opt = nondet_int() ? 1 : 0, use_snap = nondet_int() ? 1 : 0;
  g_mode = M_READ;
  db->imm = had_imm ? &g_imm0 : NULL;
  g_snap.sequence = nondet_u64(); g_ropt.snapshot = use_snap ? &g_snap : NULL;
  g_lkey_inits = g_lkey_clears = 0; g_mem_gets = g_imm_gets = g_ver_gets = 0; g_mem_hit = g_imm_hit = 0; g_stats_upd = 0; g_value_seen = 0; g_buf_calls = 0; g_ver_get_opt = NULL;
  key.data = NULL; key.size = 0; key.alloc = 0;

  rc = ldb_has(db, &key, use_opt ? &g_ropt : NULL);

  CHECK(!g_held && g_locks == 2 && g_unlocks == 2, "has: the mutex is taken twice (capture, release of pins) and released both times");
  CHECK(g_lkey_inits == 1 && g_lkey_clears == 1 && g_lkey_key == &key, "has: the lookup is for the caller's key");
  CHECK(g_lkey_seq == ((use_opt && use_snap) ? g_snap.sequence : g_seq_at_lock), "has: reads at the snapshot's sequence if given, else at last_sequence captured under the mutex (same visibility as ldb_get)");
  CHECK(g_value_seen == 0 && g_buf_calls == 0, "has: no value buffer is passed down or touched (existence test only)");
  CHECK(g_mem_gets == 1, "has: the mutable memtable is always consulted");
  if (g_mem_hit) CHECK(rc == g_mem_rc && g_imm_gets == 0 && g_ver_gets == 0, "has: first hit wins - a tombstone in the memtable answers NOTFOUND");
  else if (had_imm && g_imm_hit) CHECK(rc == g_imm_rc && g_ver_gets == 0, "has: then the immutable memtable");
  else CHECK(g_ver_gets == 1 && rc == g_ver_rc && g_stats_upd == 1 && g_ver_get_opt == (use_opt ? (const ldb_readopt_t *)&g_ropt : ldb_readopt_default), "has: otherwise the tables decide, with the caller's options; their status is returned unchanged");
  CHECK(g_ref_mem0 == 0 && g_ref_imm0 == 0 && g_ref_ver0 == 0 && g_ref_bad == 0, "has: every pin is released");
  CANARY();
}

/* ========================================================= dbapi.put / del */
ldb_batch_t *g_b; int g_b_inits, g_b_clears, g_b_puts, g_b_dels, g_b_live; const ldb_slice_t *g_b_key, *g_b_val;
void ldb_batch_init(ldb_batch_t *b) { g_b = b; g_b_inits++; g_b_live = 1; }
void ldb_batch_clear(ldb_batch_t *b) { __CPROVER_assert(b == g_b && g_b_live, "the batch that was initialised is cleared, once"); g_b_clears++; g_b_live = 0; }
void ldb_batch_put(ldb_batch_t *b, const ldb_slice_t *key, const ldb_slice_t *value) { __CPROVER_assert(b == g_b && g_b_live, "record goes into the live temporary batch"); g_b_puts++; g_b_key = key; g_b_val = value; }
void ldb_batch_del(ldb_batch_t *b, const ldb_slice_t *key) { __CPROVER_assert(b == g_b && g_b_live, "record goes into the live temporary batch"); g_b_dels++; g_b_key = key; g_b_val = NULL; }

/* ldb_write as seen from the thin entry points: call-protocol carrier (trusted.json; ldb_write itself = db.write).
 * It records what it was called with and the state of the batch model at that moment, returns an arbitrary status,
 * and - since it runs without the mutex - lets other threads change the shared flags, keeping the monitor invariant
 * I_db(c): a pending immutable memtable has a scheduled background call. */
int g_w_calls, g_w_rc, g_w_live, g_w_puts, g_w_dels; ldb_batch_t *g_w_batch; const ldb_writeopt_t *g_w_opt; int g_w_clears;
#define I_DB_C(db) (!((db)->imm != NULL && (db)->bg_error == LDB_OK && !SHUT(db)) || (db)->background_compaction_scheduled == 1)
int c_api_write(ldb_t *db, ldb_batch_t *updates, const ldb_writeopt_t *options)
__CPROVER_requires(db == g_db && !g_held)
__CPROVER_assigns(g_w_calls, g_w_rc, g_w_live, g_w_puts, g_w_dels, g_w_batch, g_w_opt, g_w_clears, db->imm, db->has_imm, db->bg_error, db->background_compaction_scheduled)
__CPROVER_ensures(g_w_calls == __CPROVER_old(g_w_calls) + 1 && g_w_batch == updates && g_w_opt == options && __CPROVER_return_value == g_w_rc)
__CPROVER_ensures(g_w_live == g_b_live && g_w_puts == g_b_puts && g_w_dels == g_b_dels && g_w_clears == g_b_clears)
__CPROVER_ensures(!g_held && I_DB_C(db) && (db->background_compaction_scheduled == 0 || db->background_compaction_scheduled == 1))
__CPROVER_ensures(!g_bg_running || db->background_compaction_scheduled == 1)
;

static ldb_writeopt_t g_wopt;
static void write_setup(void) {
  g_mode = M_WRITE;
  g_b = NULL; g_b_inits = g_b_clears = g_b_puts = g_b_dels = g_b_live = 0; g_b_key = g_b_val = NULL;
  g_w_calls = 0; g_w_batch = NULL; g_w_opt = NULL; g_w_live = g_w_puts = g_w_dels = g_w_clears = 0;
  SHUT(g_db) = 0;
}
void h_put(void) {
  ldb_t *db = mk_db(); ldb_slice_t key, value; int rc; int use_opt = nondet_int() ? 1 : 0;
  write_setup();
  rc = ldb_put(db, &key, &value, use_opt ? &g_wopt : NULL);
  CHECK(g_w_calls == 1 && rc == g_w_rc, "put: exactly one ldb_write; its status (OK, I/O error, latched background error) is returned unchanged");
  CHECK(g_w_batch == g_b && g_w_batch != NULL && g_w_live == 1 && g_w_clears == 0, "put: ldb_write gets the temporary batch, initialised and not yet cleared");
  CHECK(g_w_puts == 1 && g_w_dels == 0 && g_b_puts == 1 && g_b_dels == 0, "put: the batch holds exactly one record and it is a VALUE record");
  CHECK(g_b_key == &key && g_b_val == &value, "put: the record carries the caller's key and value");
  CHECK(g_w_opt == (use_opt ? &g_wopt : NULL), "put: the caller's write options (sync!) are passed to ldb_write unchanged (NULL = defaults, resolved by ldb_write)");
  CHECK(g_b_inits == 1 && g_b_clears == 1 && !g_b_live, "put: the temporary batch is released on every path (also when the write failed)");
  CHECK(!g_held && g_locks == 0, "put: takes no lock itself");
  CANARY();
}
void h_del(void) {
  ldb_t *db = mk_db(); ldb_slice_t key; int rc; int use_opt = nondet_int() ? 1 : 0;
  write_setup();
  rc = ldb_del(db, &key, use_opt ? &g_wopt : NULL);
  CHECK(g_w_calls == 1 && rc == g_w_rc, "del: exactly one ldb_write; its status is returned unchanged");
  CHECK(g_w_batch == g_b && g_w_batch != NULL && g_w_live == 1 && g_w_clears == 0, "del: ldb_write gets the temporary batch, initialised and not yet cleared");
  CHECK(g_w_puts == 0 && g_w_dels == 1 && g_b_puts == 0 && g_b_dels == 1, "del: the batch holds exactly one record and it is a DELETION record (a tombstone, not a value)");
  CHECK(g_b_key == &key, "del: the tombstone carries the caller's key");
  CHECK(g_w_opt == (use_opt ? &g_wopt : NULL), "del: the caller's write options are passed to ldb_write unchanged");
  CHECK(g_b_inits == 1 && g_b_clears == 1 && !g_b_live, "del: the temporary batch is released on every path");
  CHECK(!g_held && g_locks == 0, "del: takes no lock itself");
  CANARY();
}

/* ================================================ background / other threads */
/* Transitions other threads may make while this thread does not hold the mutex.  State of the background call:
 * g_bg_running (between its two critical sections: ldb_do_compaction_work / ldb_compact_memtable release the mutex),
 * g_bg_m the manual request it took (it keeps the POINTER until it finishes - db.bgcompact), g_bg_kind what it does. */
ldb_manual_t g_other;            /* another thread's manual request (its stack frame, alive while it waits)        */
ldb_manual_t *g_mine;            /* the request of the call under test (address of its local `manual`)             */
ldb_manual_t *g_bg_m; int g_bg_kind;   /* 0 nothing (error/shutdown), 1 flush, 2 manual, 3 other  */
int g_allow_close;               /* ldb_close may begin concurrently                                                */
int g_mine_installs, g_mine_seen_live;   /* how often this thread published its request; it is published right now      */
int g_mine_taken, g_mine_partial, g_mine_finished, g_mine_failed;
int g_other_live;                /* the other thread's request is published and not yet taken                      */
int g_wait1, g_wait2;            /* waits in the request loop / in the drain loop                                  */

static void resched(ldb_t *db) {
  /* what ldb_maybe_schedule_compaction does (db.bg) */
  if (db->background_compaction_scheduled) return;
  if (SHUT(db) || db->bg_error != LDB_OK) return;
  if (db->imm == NULL && db->manual_compaction == NULL && !g_needs) return;
  db->background_compaction_scheduled = 1;
}
static void one_step(ldb_t *db) {
  int what = nondet_int();
  switch (what) {
  case 1: if (g_allow_close) SHUT(db) = 1; break;                                                /* ldb_close begins     */
  case 2: if (db->bg_error == LDB_OK) { db->bg_error = nondet_int(); } break;                     /* a writer's log fails */
  case 3: if (db->imm == NULL && db->bg_error == LDB_OK && !SHUT(db)) { db->imm = &g_imm0; *(int *)&db->has_imm = 1; resched(db); } break;   /* a writer fills the memtable */
  case 4: if (db->manual_compaction == NULL && !SHUT(db) && db->bg_error == LDB_OK) { g_other.done = 0; db->manual_compaction = &g_other; g_other_live = 1; resched(db); } break;  /* another ldb_test_compact_range */
  case 5: g_needs = nondet_int() ? 1 : 0; break;
  case 6:   /* the background call starts (first critical section of ldb_background_call / ldb_background_compaction) */
    if (db->background_compaction_scheduled && !g_bg_running) {
      g_bg_running = 1; g_bg_m = NULL;
      if (SHUT(db) || db->bg_error != LDB_OK) g_bg_kind = 0;
      else if (db->imm != NULL) g_bg_kind = 1;
      else if (db->manual_compaction != NULL) {
        g_bg_kind = 2; g_bg_m = db->manual_compaction;
        g_bg_m->done = nondet_int() ? 1 : 0;          /* done = nothing left in the range (compact_range returned NULL) */
        if (g_bg_m == g_mine) g_mine_taken++; else g_other_live = 0;
      } else g_bg_kind = 3;
    }
    break;
  case 7:   /* the background call finishes (last critical section) */
    if (g_bg_running) {
      int rc = nondet_int();
      if (g_bg_kind == 1) { if (rc == LDB_OK) { db->imm = NULL; *(int *)&db->has_imm = 0; } else if (db->bg_error == LDB_OK) db->bg_error = rc; }
      else if (g_bg_kind == 2) {
        ldb_manual_t *m = g_bg_m;                     /* writes through the pointer it kept */
        if (m->done) rc = LDB_OK;                     /* nothing was compacted */
        if (rc != LDB_OK) { if (db->bg_error == LDB_OK) db->bg_error = rc; m->done = 1; }
        if (!m->done) m->begin = &m->tmp_storage;     /* part of the range served */
        if (m == g_mine) { if (rc != LDB_OK) g_mine_failed++; else if (m->done) g_mine_finished++; else g_mine_partial++; }
        if (m == g_mine) g_mine_seen_live = 0;
        db->manual_compaction = NULL;
      } else if (g_bg_kind == 3) { if (rc != LDB_OK && db->bg_error == LDB_OK) db->bg_error = rc; }
      g_bg_running = 0; g_bg_m = NULL;
      db->background_compaction_scheduled = 0;
      resched(db);
    }
    break;
  default: break;                                                                                 /* nothing (spurious wake-up) */
  }
}
static void others_run(void) {
  ldb_t *db = g_db;
  int phase1 = (g_mode == M_RANGE) ? (g_mine != NULL && !g_mine->done && !SHUT(db) && db->bg_error == LDB_OK) : 1;
  int r;
  if (phase1) g_wait1++; else g_wait2++;
  for (r = 0; r < 3; r++) one_step(db);
  /* fairness: a scheduled background call eventually runs to completion, requests ahead of ours are finite, and a
     request is served in finitely many parts - here: progress within three wake-ups (request loop / memtable wait)
     and within two wake-ups (drain loop) */
  if (g_mode == M_RANGE) {
    if (phase1 && g_wait1 >= 3) __CPROVER_assume(g_mine->done || SHUT(db) || db->bg_error != LDB_OK);
    if (!phase1 && g_wait2 >= 2) __CPROVER_assume(!db->background_compaction_scheduled);
  } else {
    if (g_wait1 >= 2) __CPROVER_assume(db->imm == NULL || db->bg_error != LDB_OK);
  }
}

/* ---------------------------------------------------------- dbformat model */
/* internal keys built by the entry points: which buffer holds (user key, sequence, type) */
#define NIK 4
ldb_ikey_t *g_ik_ptr[NIK]; const ldb_slice_t *g_ik_key[NIK]; uint64_t g_ik_seq[NIK]; int g_ik_type[NIK]; int g_ik_live[NIK]; int g_ik_n, g_ik_clears, g_ik_bad;
static int ik_find(ldb_ikey_t *k) {   /* (loop-free: units with loop contracts need every loop under contract) */
  return (g_ik_n > 0 && g_ik_ptr[0] == k) ? 0 : (g_ik_n > 1 && g_ik_ptr[1] == k) ? 1 : (g_ik_n > 2 && g_ik_ptr[2] == k) ? 2 : (g_ik_n > 3 && g_ik_ptr[3] == k) ? 3 : -1;
}
void ldb_ikey_init(ldb_ikey_t *ikey) {
  if (g_mode == M_RANGE && g_ik_n == 0) g_mine = (ldb_manual_t *)((char *)ikey - offsetof(ldb_manual_t, tmp_storage));   /* ldb_manual_init comes first */
  __CPROVER_assert(g_ik_n < NIK, "at most: progress storage, begin key, end key");
  g_ik_ptr[g_ik_n] = ikey; g_ik_key[g_ik_n] = NULL; g_ik_live[g_ik_n] = 1; g_ik_n++;
}
void ldb_ikey_set(ldb_ikey_t *ikey, const ldb_slice_t *user_key, ldb_seqnum_t sequence, ldb_valtype_t type) {
  int i = ik_find(ikey);
  if (i < 0 || !g_ik_live[i]) { g_ik_bad++; return; }
  g_ik_key[i] = user_key; g_ik_seq[i] = sequence; g_ik_type[i] = (int)type;
}
void ldb_ikey_clear(ldb_ikey_t *ikey) {
  int i = ik_find(ikey);
  if (i < 0 || !g_ik_live[i]) { g_ik_bad++; return; }
  g_ik_live[i] = 0; g_ik_clears++;
}
#define SEQ_MAX ((((uint64_t)1) << 56) - 1)

/* ======================================================= dbapi.compact_range */
int g_level; const ldb_slice_t *g_begin, *g_end;
int g_published;                 /* the request was seen published (first wait after the installation)            */
int g_exit_seen; int g_exit_sched, g_exit_bg_holds_mine, g_exit_done, g_exit_shut, g_exit_err; ldb_manual_t *g_exit_manual; void *g_exit_imm;

static void wait_checks(void) {
  ldb_t *db = g_db;
  /* W3 (no lost wake-up): whoever blocks on the background signal has a background call scheduled or running - it ends
     with a broadcast (db.bg).  Without one nobody would ever wake this thread. */
  __CPROVER_assert(db->background_compaction_scheduled == 1, "W3: a thread waits on the background signal only while a background call is scheduled (otherwise the wake-up never comes)");
  if (g_mode == M_CM) {
    __CPROVER_assert(db->imm != NULL && db->bg_error == LDB_OK, "compact_memtable: waits only while the immutable memtable is still pending and no error is latched (re-checked after every wake-up)");
    return;
  }
  __CPROVER_assert(g_mine != NULL, "the request object exists before the first wait");
  if (!g_mine->done && !SHUT(db) && db->bg_error == LDB_OK) {
    /* request loop */
    __CPROVER_assert(db->manual_compaction != NULL, "request loop: waits only while a manual request (its own or another thread's) is published; if none is, it publishes its own");
    __CPROVER_assert(g_wait2 == 0, "the request loop is not re-entered from the drain loop");
  }
  __CPROVER_assert(!g_other_live || db->manual_compaction == &g_other, "another thread's published request is never overwritten or cancelled");
  if (db->manual_compaction == g_mine) {
    if (!g_mine_seen_live) { g_mine_seen_live = 1; g_mine_installs++; }
    if (!g_published) {
      g_published = 1;
      __CPROVER_assert(g_mine->level == g_level && g_mine->done == 0, "the published request names the caller's level and is not done");
      __CPROVER_assert((g_begin == NULL) ? (g_mine->begin == NULL) :
                       (g_mine->begin != NULL && ik_find((ldb_ikey_t *)g_mine->begin) >= 1 && g_ik_key[ik_find((ldb_ikey_t *)g_mine->begin)] == g_begin &&
                        g_ik_seq[ik_find((ldb_ikey_t *)g_mine->begin)] == SEQ_MAX && g_ik_type[ik_find((ldb_ikey_t *)g_mine->begin)] == 1),
                       "the request's begin is NULL for an open range, else the internal key (begin, kMaxSequenceNumber, kValueTypeForSeek): the smallest internal key of that user key");
      __CPROVER_assert((g_end == NULL) ? (g_mine->end == NULL) :
                       (g_mine->end != NULL && ik_find((ldb_ikey_t *)g_mine->end) >= 1 && g_ik_key[ik_find((ldb_ikey_t *)g_mine->end)] == g_end &&
                        g_ik_seq[ik_find((ldb_ikey_t *)g_mine->end)] == 0 && g_ik_type[ik_find((ldb_ikey_t *)g_mine->end)] == 0),
                       "the request's end is NULL for an open range, else the internal key (end, 0, 0): the largest internal key of that user key");
      __CPROVER_assert(g_mine->begin == NULL || g_mine->end == NULL || g_mine->begin != g_mine->end, "begin and end keys live in different buffers");
    }
  }
}
static void exit_checks(void) {
  ldb_t *db = g_db;
  g_exit_seen++; g_exit_sched = db->background_compaction_scheduled; g_exit_manual = db->manual_compaction; g_exit_imm = db->imm; g_exit_err = db->bg_error; g_exit_shut = SHUT(db);
  if (g_mode == M_RANGE) {
    g_exit_bg_holds_mine = g_bg_running && g_bg_m == g_mine; g_exit_done = g_mine ? g_mine->done : -1;
    __CPROVER_assert(!g_other_live || db->manual_compaction == &g_other, "another thread's published request is never overwritten or cancelled (at exit)");
  }
}

static void bg_state_setup(ldb_t *db, int allow_close) {
  g_allow_close = allow_close;
  g_mine = NULL; g_mine_seen_live = 0; g_mine_installs = g_mine_taken = g_mine_partial = g_mine_finished = g_mine_failed = 0; g_published = 0;
  g_wait1 = g_wait2 = 0; g_exit_seen = 0;
  g_ik_n = g_ik_clears = g_ik_bad = 0;
  /* arbitrary state of the DB when the call takes the mutex, within the monitor invariant */
  db->bg_error = nondet_int();
  SHUT(db) = (allow_close && nondet_int()) ? 1 : 0;
  db->imm = nondet_int() ? &g_imm0 : NULL;
  db->background_compaction_scheduled = nondet_int() ? 1 : 0;
  g_other.done = 0; g_other.level = 0; g_other.begin = NULL; g_other.end = NULL;
  db->manual_compaction = nondet_int() ? &g_other : NULL;
  g_other_live = db->manual_compaction != NULL;
  g_bg_running = nondet_int() ? 1 : 0; g_bg_m = NULL; g_bg_kind = 0;
  if (g_bg_running) {
    __CPROVER_assume(db->background_compaction_scheduled);
    g_bg_kind = nondet_int(); __CPROVER_assume(g_bg_kind >= 0 && g_bg_kind <= 3);
    if (g_bg_kind == 1) __CPROVER_assume(db->imm != NULL);
    if (g_bg_kind == 2) { __CPROVER_assume(db->manual_compaction == &g_other); g_bg_m = &g_other; g_other_live = 0; }
  }
  /* I_db(c): pending work (immutable memtable, manual request) without error / shutdown has a scheduled background call */
  __CPROVER_assume(!((db->imm != NULL || db->manual_compaction != NULL) && db->bg_error == LDB_OK && !SHUT(db)) || db->background_compaction_scheduled);
}

void h_compact_range(void) {
  ldb_t *db = mk_db(); ldb_slice_t b, e;
  g_mode = M_RANGE;
  bg_state_setup(db, 1);
  g_level = nondet_int(); __CPROVER_assume(g_level >= 0 && g_level < LDB_NUM_LEVELS - 1);
  g_begin = nondet_int() ? &b : NULL; g_end = nondet_int() ? &e : NULL;

  ldb_test_compact_range(db, g_level, g_begin, g_end);

  CHECK(!g_held && g_locks == 1 && g_unlocks == 1 && g_exit_seen == 1, "compact_range: one critical section (the waits release the mutex inside it), mutex released at return");
  CHECK(g_exit_manual != g_mine, "compact_range: when it lets go of the mutex for the last time its request is no longer published (db->manual_compaction never dangles into a dead stack frame)");
  CHECK(!g_exit_bg_holds_mine, "compact_range: it does not return while the background call still holds a pointer to its request (the drain loop waits for the running call)");
  CHECK(g_exit_done == 1 || g_exit_shut || g_exit_err != LDB_OK, "compact_range: returns only when the whole range was compacted, or an error is latched, or the DB is shutting down");
  CHECK(g_mine_installs >= 1 || g_exit_shut || g_exit_err != LDB_OK, "compact_range: unless the DB was failed / closing from the start, the request was published");
  CHECK(g_exit_done != 1 || g_mine_finished + g_mine_failed == 1, "compact_range: done is set only by the background call that finished (or failed) the request");
  CHECK(g_ik_bad == 0 && g_ik_n == 1 + (g_begin != NULL) + (g_end != NULL) && g_ik_clears == g_ik_n, "compact_range: the progress storage and the begin / end keys it built are all released, nothing else is");
  CANARY();
}

/* ==================================================== dbapi.compact_memtable */
void h_compact_memtable(void) {
  ldb_t *db = mk_db(); int rc;
  g_mode = M_CM;
  bg_state_setup(db, 0);
  db->manual_compaction = NULL; g_other_live = 0; if (g_bg_kind == 2) { g_bg_kind = 3; g_bg_m = NULL; }
  g_w_calls = 0; g_w_batch = (ldb_batch_t *)1; g_w_opt = NULL; g_b_live = g_b_puts = g_b_dels = g_b_clears = 0;

  rc = ldb_test_compact_memtable(db);

  CHECK(g_w_calls == 1 && g_w_batch == NULL && g_w_opt == ldb_writeopt_default, "compact_memtable: forces the memtable switch with an empty write (NULL batch, default options)");
  CHECK(!g_held && g_locks == g_unlocks, "compact_memtable: mutex released at return");
  if (g_w_rc != LDB_OK) CHECK(rc == g_w_rc && g_locks == 0, "compact_memtable: a failed write is reported at once, nothing is waited for");
  else {
    CHECK(g_locks == 1 && g_exit_seen == 1, "compact_memtable: one critical section for the wait");
    CHECK(g_exit_imm == NULL || g_exit_err != LDB_OK, "compact_memtable: returns only when the immutable memtable was flushed or an error is latched");
    CHECK(rc == (g_exit_imm == NULL ? LDB_OK : g_exit_err), "compact_memtable: OK iff the flush completed; otherwise the latched background error (never OK with the memtable still pending)");
  }
  CANARY();
}

/* ============================================================ dbapi.compact */
int g_overlap[LDB_NUM_LEVELS]; int g_ov_calls, g_ov_bad;
int ldb_version_overlap_in_level(ldb_version_t *ver, int level, const ldb_slice_t *smallest_user_key, const ldb_slice_t *largest_user_key) {
  __CPROVER_assert(g_held && ver == &g_ver0, "compact: overlap is evaluated under the mutex on the version current in that critical section");
  __CPROVER_assert(smallest_user_key == g_begin && largest_user_key == g_end, "compact: overlap is evaluated for the caller's range");
  if (level < 1 || level >= LDB_NUM_LEVELS) { g_ov_bad++; return 0; }
  g_ov_calls++;
  return g_overlap[level];
}
int g_cm_calls, g_cm_after_cr, g_cm_rc; int g_cr_calls, g_cr_bad_order, g_cr_bad_args, g_cr_after_cm; int g_l, g_cr_seen_l;
int c_api_compact_memtable(ldb_t *db)
__CPROVER_requires(db == g_db && !g_held)
__CPROVER_assigns(g_cm_calls, g_cm_after_cr, g_cm_rc)
__CPROVER_ensures(g_cm_calls == __CPROVER_old(g_cm_calls) + 1 && g_cm_after_cr == (__CPROVER_old(g_cm_after_cr) || g_cr_calls > 0) && __CPROVER_return_value == g_cm_rc)
;
void c_api_compact_range(ldb_t *db, int level, const ldb_slice_t *begin, const ldb_slice_t *end)
__CPROVER_requires(db == g_db && !g_held)
/* the callee's own precondition (assert in debug builds): level names a level that has a next level */
__CPROVER_requires(level >= 0 && level + 1 < LDB_NUM_LEVELS)
__CPROVER_assigns(g_cr_calls, g_cr_bad_order, g_cr_bad_args, g_cr_after_cm, g_cr_seen_l)
__CPROVER_ensures(g_cr_calls == __CPROVER_old(g_cr_calls) + 1)
__CPROVER_ensures(g_cr_bad_order == (__CPROVER_old(g_cr_bad_order) || level != __CPROVER_old(g_cr_calls)))
__CPROVER_ensures(g_cr_bad_args == (__CPROVER_old(g_cr_bad_args) || begin != g_begin || end != g_end))
__CPROVER_ensures(g_cr_after_cm == (__CPROVER_old(g_cr_after_cm) && g_cm_calls == 1))
__CPROVER_ensures(g_cr_seen_l == __CPROVER_old(g_cr_seen_l) + (level == g_l ? 1 : 0))
;

void h_compact(void) {
  ldb_t *db = mk_db(); ldb_slice_t b, e; int l, deepest = 0, want;
  g_mode = M_COMPACT;
  g_begin = nondet_int() ? &b : NULL; g_end = nondet_int() ? &e : NULL;
  for (l = 0; l < LDB_NUM_LEVELS; l++) { g_overlap[l] = nondet_int() ? 1 : 0; if (l >= 1 && g_overlap[l]) deepest = l; }
  g_ov_calls = g_ov_bad = 0; g_cm_calls = 0; g_cm_after_cr = 0; g_cr_calls = 0; g_cr_bad_order = g_cr_bad_args = 0; g_cr_after_cm = 1; g_cr_seen_l = 0;
  g_l = nondet_int(); __CPROVER_assume(g_l >= 0 && g_l < LDB_NUM_LEVELS);

  ldb_compact(db, g_begin, g_end);

  want = deepest > 1 ? deepest : 1;     /* level 0 is always pushed down: a flushed memtable may land there */
  CHECK(!g_held && g_locks == 1 && g_unlocks == 1, "compact: one critical section to inspect the version, released before any compaction is requested");
  CHECK(g_ov_calls == LDB_NUM_LEVELS - 1 && g_ov_bad == 0, "compact: every level 1 .. NUM_LEVELS-1 is inspected for overlap with the range");
  CHECK(g_cm_calls == 1 && !g_cm_after_cr && g_cr_after_cm, "compact: the memtable is flushed exactly once, BEFORE any level is compacted (its data must take part)");
  CHECK(g_cr_calls == want, "compact: as many level compactions as the deepest overlapping level (at least level 0)");
  CHECK(!g_cr_bad_order, "compact: levels are compacted top-down 0, 1, 2, ... (data moves one level per request)");
  CHECK(!g_cr_bad_args, "compact: every request carries the caller's range");
  CHECK(g_cr_seen_l == (g_l < want ? 1 : 0), "compact: each level above the deepest overlapping level is compacted exactly once, no level at or below it");
  CANARY();
}

/* ============================================================== dbapi.sizes */
/* ldb_approximate_sizes: arbitrary number of ranges; one arbitrary range g_j tracked through the loop (loops/dbapi.json) */
size_t g_j, g_nranges; const ldb_range_t *g_ranges; uint64_t *g_sizes;
uint64_t g_off_start, g_off_limit; int g_off_calls_j; int g_off_bad;
uint64_t ldb_versions_approximate_offset(ldb_versions_t *vset, ldb_version_t *v, const ldb_ikey_t *ikey) {
  uint64_t r = nondet_u64(); int i = ik_find((ldb_ikey_t *)ikey);
  __CPROVER_assert(g_held && vset == g_db->versions && v == &g_ver0 && g_ref_ver0 == 1, "sizes: offsets are computed under the mutex in the pinned version that was current at the start");
  if (i < 0 || !g_ik_live[i] || g_ik_key[i] == NULL || g_ik_seq[i] != SEQ_MAX || g_ik_type[i] != 1) { g_off_bad++; return r; }
  if (g_j < g_nranges && g_ik_key[i] == &g_ranges[g_j].start) { g_off_start = r; g_off_calls_j++; }
  if (g_j < g_nranges && g_ik_key[i] == &g_ranges[g_j].limit) { g_off_limit = r; g_off_calls_j++; }
  return r;
}
void h_sizes(void) {
  ldb_t *db = mk_db(); ldb_range_t *ranges; uint64_t *sizes;
  IN_SIZE(in_n); IN_SIZE(in_j);
  g_mode = M_SIZES;
  ASSUME(in_n < ((size_t)1 << 32));
  ranges = malloc((in_n + 1) * sizeof(ldb_range_t)); sizes = malloc((in_n + 1) * sizeof(uint64_t)); ASSUME(ranges != NULL && sizes != NULL);
  g_ranges = ranges; g_sizes = sizes; g_nranges = in_n; g_j = in_j;
  g_ik_n = g_ik_clears = g_ik_bad = 0; g_off_bad = 0; g_off_calls_j = 0; g_off_start = g_off_limit = 0;
  db->imm = NULL;

  ldb_approximate_sizes(db, ranges, in_n, sizes);

  CHECK(!g_held && g_locks == 1 && g_unlocks == 1, "sizes: one critical section, released");
  CHECK(g_ref_ver0 == 0 && g_ref_bad == 0, "sizes: the version is unpinned again");
  CHECK(g_off_bad == 0, "sizes: every offset query uses an internal key (user key, kMaxSequenceNumber, kValueTypeForSeek) built for that query");
  if (in_j < in_n) {
    CHECK(g_off_calls_j == 2, "sizes: each range is looked up once for its start and once for its limit");
    CHECK(sizes[in_j] == (g_off_limit >= g_off_start ? g_off_limit - g_off_start : 0), "sizes: size = offset(limit) - offset(start), 0 if negative - stored at the range's own index");
  }
  CHECK(g_ik_bad == 0 && g_ik_n == 2 && g_ik_clears == 2, "sizes: both scratch keys are released");
  CANARY();
}
