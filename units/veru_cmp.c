/* units/veru_cmp.c - compaction decision functions on input lists of ANY length (group "veru")
 *   ver2.deletions.u   ldb_compaction_add_input_deletions: the edit removes exactly the input files
 *   ver2.base.u        ldb_compaction_is_base_level_for_key: one arbitrary watched level >= level+2 with any number of files
 *   ver2.stop.u        ldb_compaction_should_stop_before: grandparent-overlap accounting over any number of grandparents
 */
#include "units/veru_model.h"
/* should_stop_before: a grandparent the comparator places before the key is passed over; its bytes are summed in g_sum */
#define SZMAX ((uint64_t)1 << 22)
static void icmp_hook(const ldb_slice_t *x, const ldb_slice_t *y, int res) {
  (void)x;
  if (res > 0 && y == (const ldb_slice_t *)&g_fo.largest) g_sum += g_fo.file_size;
  if (res > 0 && y == (const ldb_slice_t *)&g_fk.largest) g_sum += g_fk.file_size;
}
static void push_hook(const void *x) { (void)x; }
static void push_other_hook(void) { }

/* recorder: one (level, number) pair per call.  "Nothing else is removed": the pair names the tracked input file of that level or
   the untracked file in the window (= the file of the current iteration) */
void ldb_edit_remove_file(ldb_edit_t *edit, int level, uint64_t number) {
  __CPROVER_assert(edit == &g_edit, "add_input_deletions: deletions are recorded in the caller's edit");
  __CPROVER_assert((level == g_cmpn.level && (number == g_fk.number || number == g_fo.number)) ||
                   (level == g_cmpn.level + 1 && (number == g_fj.number || number == g_fo.number)),
                   "add_input_deletions: nothing else is removed - every record names an input file at its level (inputs[0]: level, inputs[1]: level+1)");
  if (level == g_cmpn.level && number == g_fk.number) g_delk = 1;
  if (level == g_cmpn.level + 1 && number == g_fj.number) g_delj = 1;
  g_del_n++;
}
void c_add_input_deletions_u(ldb_compaction_t *c, ldb_edit_t *edit)
__CPROVER_requires(c == &g_cmpn && edit == &g_edit && g_del_n == 0 && g_delk == 0 && g_delj == 0 && g_cmpn.level >= 0 && g_cmpn.level < LDB_NUM_LEVELS - 1)
__CPROVER_requires(g_cmpn.inputs[0].length == g_n0 && g_cmpn.inputs[1].length == g_n1 && g_n0 <= NMAX && g_n1 <= NMAX && g_k <= g_n0 && g_j <= g_n1)
__CPROVER_assigns(g_del_n, g_delk, g_delj, FO_WINDOW)
__CPROVER_ensures(FO_TOKENS)
/* one deletion per input file ... */
__CPROVER_ensures(g_del_n == g_n0 + g_n1)
/* ... every file of inputs[0] is removed from `level`, every file of inputs[1] from `level+1` (arbitrary positions k, j) */
__CPROVER_ensures(g_k >= g_n0 || g_delk >= 1)
__CPROVER_ensures(g_j >= g_n1 || g_delj >= 1)
;
void h_add_input_deletions_u(void) {
  IN_SIZE(in_n0); IN_SIZE(in_n1); IN_SIZE(in_k); IN_SIZE(in_j); IN_INT(in_level);
  ASSUME(in_n0 <= NMAX && in_n1 <= NMAX && in_k <= in_n0 && in_j <= in_n1 && in_level >= 0 && in_level < LDB_NUM_LEVELS - 1);
  mk_world();
  g_n0 = in_n0; g_n1 = in_n1; g_k = in_k; g_j = in_j;
  g_cmpn.input_version = &g_ver; g_cmpn.level = in_level;
  g_cmpn.inputs[0].items = mk_items(in_n0, in_k, in_n0); g_cmpn.inputs[0].length = in_n0; g_cmpn.inputs[0].alloc = in_n0;
  g_cmpn.inputs[1].items = mk_items(in_n1, in_n1, in_j); g_cmpn.inputs[1].length = in_n1; g_cmpn.inputs[1].alloc = in_n1;
  g_del_n = 0; g_delk = 0; g_delj = 0;
  ldb_compaction_add_input_deletions(&g_cmpn, &g_edit);
  CANARY();
}

/* ======================================================================
 * ver2.stop.u - should_stop_before (C14): grandparents sorted and disjoint, any number of them.
 * Skolem witness: g_k is the first position >= grandparent_index whose largest key is >= the key (g_k == g_n: none); the
 * positions in between (the only ones the scan reads besides g_k) hold the window g_fo with largest < key.
 * ====================================================================== */
ldb_slice_t g_key;
#define KEY_LE_L(f) LE_(g_kuk, g_ktag, LU(f), LT(f))
#define SZ50 ((uint64_t)1 << 50)
#define GP_LIMIT ((int64_t)(10 * (uint64_t)g_opt.max_file_size))
#define OB_MID (g_ob0 + (g_seen0 ? (int64_t)g_sum : (int64_t)0))
int c_should_stop_before_u(ldb_compaction_t *c, const ldb_slice_t *ikey)
__CPROVER_requires(c == &g_cmpn && ikey == &g_key && g_cmpn.input_version == &g_ver && g_cmpn.grandparents.length == g_n && g_n <= NMAX)
__CPROVER_requires(g_key.size >= 8 && g_key.size - 8 == g_kuk && g_key.alloc == g_ktag && g_kuk < RMAX && g_ktag <= TAGMAX)
__CPROVER_requires(g_cmpn.grandparent_index == g_gi0 && g_gi0 <= g_k && g_k <= g_n && g_cmpn.seen_key == g_seen0 && g_cmpn.overlapped_bytes == g_ob0 && g_sum == 0)
__CPROVER_requires(g_ob0 >= 0 && g_ob0 <= (int64_t)SZ50 && g_opt.max_file_size <= SZ50)
/* the witness: every grandparent in [grandparent_index, k) ends before the key (window), grandparent k does not; file sizes <= 4 MiB */
__CPROVER_requires(SHAPE(g_fo) && SHAPE(g_fk) && !KEY_LE_L(g_fo) && (g_k >= g_n || KEY_LE_L(g_fk)) && g_fo.file_size <= SZMAX && g_fk.file_size <= SZMAX)
__CPROVER_assigns(g_cmpn.grandparent_index, g_cmpn.seen_key, g_cmpn.overlapped_bytes, g_sum, FO_WINDOW, CMP_GHOST)
__CPROVER_ensures(FO_TOKENS)
/* the index advances (never moves back) to the first grandparent that may still contain the key */
__CPROVER_ensures(g_cmpn.grandparent_index == g_k && g_cmpn.grandparent_index >= g_gi0 && g_cmpn.grandparent_index <= g_n)
/* from now on a key has been seen */
__CPROVER_ensures(g_cmpn.seen_key == 1)
/* bytes of the grandparents passed over (g_sum) are charged to the current output only if it already holds a key;
   stop iff the charge exceeds 10 * max_file_size, and then the count restarts at 0 */
__CPROVER_ensures(__CPROVER_return_value == (OB_MID > GP_LIMIT ? 1 : 0))
__CPROVER_ensures(g_cmpn.overlapped_bytes == (OB_MID > GP_LIMIT ? (int64_t)0 : OB_MID))
/* exactly one comparison per grandparent passed, plus the one that stops the scan */
__CPROVER_ensures(g_icalls == (g_k - g_gi0) + (g_k < g_n ? 1 : 0))
;
void h_should_stop_before_u(void) {
  IN_SIZE(in_n); IN_SIZE(in_k); IN_SIZE(in_gi); IN_INT(in_seen); IN_U64(in_ob);
  ASSUME(in_n <= NMAX && in_gi <= in_k && in_k <= in_n && in_ob <= SZ50);
  mk_world();
  g_n = in_n; g_k = in_k; g_j = in_n;
  g_cmpn.input_version = &g_ver; g_cmpn.level = 1;
  g_cmpn.grandparents.items = mk_items(in_n, in_k, in_n); g_cmpn.grandparents.length = in_n; g_cmpn.grandparents.alloc = in_n;
  g_kuk = nondet_size(); g_ktag = nondet_u64(); ASSUME(g_kuk < RMAX && g_ktag <= TAGMAX);
  g_key.data = TOK_KEY; g_key.size = g_kuk + 8; g_key.alloc = g_ktag;
  g_gi0 = in_gi; g_seen0 = in_seen ? 1 : 0; g_ob0 = (int64_t)in_ob; g_sum = 0;
  g_cmpn.grandparent_index = g_gi0; g_cmpn.seen_key = g_seen0; g_cmpn.overlapped_bytes = g_ob0;
  ASSUME(g_opt.max_file_size <= SZ50);
  ASSUME(!KEY_LE_L(g_fo) && (g_k >= g_n || KEY_LE_L(g_fk)) && g_fo.file_size <= SZMAX && g_fk.file_size <= SZMAX);
  ldb_compaction_should_stop_before(&g_cmpn, &g_key);
  CANARY();
}

/* ======================================================================
 * ver2.base.u - is_base_level_for_key (C01, C06).  One arbitrary level g_lvl is WATCHED: it holds g_n files, its pointer starts
 * at g_gi0; Skolem witness g_k = first position >= g_gi0 whose largest user key is >= the probe key (g_k == g_n: none); the
 * positions in between hold a window object of their own (g_fj: every untracked file of the WATCHED level) with largest user key < key (levels are sorted, keys are presented in ascending order).
 * Every other level holds any number of untracked files (window, arbitrary) and an arbitrary pointer.
 * ====================================================================== */
#define CONTAINS(f) (SU(f) <= g_bqr && g_bqr <= LU(f))
#define WATCHED_ACTIVE (g_lvl >= g_cmpn.level + 2)
#define LEN_OK(l) (g_cmpn.level_ptrs[l] <= g_ver.files[l].length)
int c_is_base_level_u(ldb_compaction_t *c, const ldb_slice_t *user_key)
__CPROVER_requires(c == &g_cmpn && user_key == &g_bq && g_cmpn.input_version == &g_ver && g_cmpn.level >= 0 && g_cmpn.level <= LDB_NUM_LEVELS - 2)
__CPROVER_requires(g_bq.size == g_bqr && g_bqr < RMAX && g_lvl >= 0 && g_lvl < LDB_NUM_LEVELS && g_ver.files[g_lvl].length == g_n && g_n <= NMAX)
__CPROVER_requires(LEN_OK(0) && LEN_OK(1) && LEN_OK(2) && LEN_OK(3) && LEN_OK(4) && LEN_OK(5) && LEN_OK(6))
__CPROVER_requires(g_cmpn.level_ptrs[g_lvl] == g_gi0 && g_gi0 <= g_k && g_k <= g_n && g_pl >= 0 && g_pl < LDB_NUM_LEVELS && g_cmpn.level_ptrs[g_pl] == g_lp0)
__CPROVER_requires(SHAPE(g_fo) && SHAPE(g_fk) && SHAPE(g_fj) && LU(g_fj) < g_bqr && (g_k >= g_n || LU(g_fk) >= g_bqr))
__CPROVER_assigns(__CPROVER_object_upto(g_cmpn.level_ptrs, sizeof(g_cmpn.level_ptrs)), FO_WINDOW, g_fj, CMP_GHOST)
__CPROVER_ensures(FO_TOKENS)
__CPROVER_ensures(__CPROVER_return_value == 0 || __CPROVER_return_value == 1)
/* a file of a level >= level+2 that contains the key makes the answer 0 (arbitrary watched level; its candidate file is the witness) */
__CPROVER_ensures(!(WATCHED_ACTIVE && g_k < g_n && CONTAINS(g_fk)) || __CPROVER_return_value == 0)
/* answer 0 only with a witness: the file examined last contains the key */
__CPROVER_ensures(__CPROVER_return_value != 0 || (g_last_y == TOK_KS ? (WATCHED_ACTIVE && g_k < g_n && CONTAINS(g_fk)) : (g_last_y == TOK_OS && CONTAINS(g_fo))))
/* answer 1: the watched level was scanned up to its candidate, which does not contain the key */
__CPROVER_ensures(__CPROVER_return_value != 1 || !WATCHED_ACTIVE || (g_cmpn.level_ptrs[g_lvl] == g_k && !(g_k < g_n && CONTAINS(g_fk))))
/* the pointers only move forward and keep their meaning for the next (larger) key; levels the compaction itself reads or writes are never consulted */
__CPROVER_ensures(g_cmpn.level_ptrs[g_lvl] >= g_gi0 && g_cmpn.level_ptrs[g_lvl] <= g_k)
__CPROVER_ensures(WATCHED_ACTIVE || g_cmpn.level_ptrs[g_lvl] == g_gi0)
__CPROVER_ensures(g_pl >= g_cmpn.level + 2 ? g_cmpn.level_ptrs[g_pl] >= g_lp0 : g_cmpn.level_ptrs[g_pl] == g_lp0)
__CPROVER_ensures(LEN_OK(0) && LEN_OK(1) && LEN_OK(2) && LEN_OK(3) && LEN_OK(4) && LEN_OK(5) && LEN_OK(6))
;
void h_is_base_level_u(void) {
  IN_SIZE(in_n); IN_SIZE(in_k); IN_SIZE(in_gi); IN_INT(in_level); IN_INT(in_watch); IN_INT(in_pl); IN_SIZE(in_ocap);
  ASSUME(in_n <= NMAX && in_gi <= in_k && in_k <= in_n && in_ocap <= NMAX);
  ASSUME(in_level >= 0 && in_level <= LDB_NUM_LEVELS - 2 && in_watch >= 0 && in_watch < LDB_NUM_LEVELS && in_pl >= 0 && in_pl < LDB_NUM_LEVELS);
  mk_world();
  g_n = in_n; g_k = in_k; g_j = in_n; g_lvl = in_watch; g_pl = in_pl; g_ocap = in_ocap;
  g_oitems = mk_items(in_ocap, in_ocap, in_ocap);
#define MK_LV(l) g_ver.files[l].items = g_oitems; g_ver.files[l].length = nondet_size(); ASSUME(g_ver.files[l].length <= in_ocap); g_cmpn.level_ptrs[l] = nondet_size()
  MK_LV(0); MK_LV(1); MK_LV(2); MK_LV(3); MK_LV(4); MK_LV(5); MK_LV(6);
  { void **wi = malloc(in_n * sizeof(void *)); ASSUME(wi != NULL); __CPROVER_array_set(wi, (void *)&g_fj); if (in_k < in_n) wi[in_k] = &g_fk; g_ver.files[in_watch].items = wi; } g_ver.files[in_watch].length = in_n; g_ver.files[in_watch].alloc = in_n;
  g_cmpn.input_version = &g_ver; g_cmpn.level = in_level;
  g_gi0 = in_gi; g_cmpn.level_ptrs[in_watch] = in_gi;
  ASSUME(LEN_OK(0) && LEN_OK(1) && LEN_OK(2) && LEN_OK(3) && LEN_OK(4) && LEN_OK(5) && LEN_OK(6));
  g_lp0 = g_cmpn.level_ptrs[in_pl];
  g_bqr = nondet_size(); ASSUME(g_bqr < RMAX);
  g_bq.data = TOK_KEY; g_bq.size = g_bqr; g_bq.alloc = 0;
  ASSUME((g_k >= g_n || LU(g_fk) >= g_bqr) && LU(g_fj) < g_bqr);
  ldb_compaction_is_base_level_for_key(&g_cmpn, &g_bq);
  CANARY();
}
