/* units/capi.c - the LevelDB-compatible C API shim src/c.c (leveldb_* = ldb_c_*, declared in include/lcdb_c.h)
 *
 *   capi.save_error      : save_error (status -> *errptr protocol, message text)                        (C12)
 *   capi.open            : leveldb_open                                                                  (C20, C19, C12)
 *   capi.close_destroy_repair : leveldb_close / leveldb_destroy_db / leveldb_repair_db                   (C20, C19, C12)
 *   capi.put / capi.delete / capi.write                                                                 (C04, C01, C12)
 *   capi.get             : leveldb_get (NOT_FOUND is not an error, ownership of the value)               (C01, C12)
 *   capi.create_iterator, capi.iter_move, capi.iter_kv, capi.iter_error                                  (C07, C11, C12)
 *   capi.snapshot        : leveldb_create_snapshot / leveldb_release_snapshot / readoptions_set_snapshot  (C06)
 *   capi.property        : leveldb_property_value                                                        (C12)
 *   capi.sizes           : leveldb_approximate_sizes                                                     (C01, C06)
 *   capi.compact_range   : leveldb_compact_range                                                         (C14)
 *   capi.batch           : writebatch create / destroy / clear / put / delete / append                   (C04, C01)
 *   capi.batch_iterate   : leveldb_writebatch_iterate + handle_put / handle_del                          (C04, C01)
 *   capi.options / capi.readoptions / capi.writeoptions : create / destroy / every setter                (C04, C06, C19)
 *   capi.comparator      : leveldb_comparator_create / destroy + slice_compare adapter                   (C01)
 *   capi.filterpolicy    : leveldb_filterpolicy_create / create_bloom / destroy + bloom_match adapter    (C01)
 *   capi.filter_build    : bloom_build adapter                                                           (C01)
 *   capi.misc            : cache / env wrappers, leveldb_free, version numbers
 *
 * Method.  The real c.c is included unmodified.  Every native ldb_* function it calls is a RECORDING STUB: it logs the
 * call (which function, how many calls, in which order), copies its arguments into ghost variables AT THE TIME OF THE
 * CALL (slices are locals of the wrapper) and returns an arbitrary status / result.  The harness plays the API client:
 * arbitrary arguments, arbitrary earlier content of *errptr, and after the call it compares the log with what the
 * LevelDB C API (include/leveldb/c.h) promises.
 *
 * Heap model.  malloc / free (called by c.c directly, and through ldb_malloc / ldb_free = src/util/internal.c) go
 * through an ALLOCATION LEDGER that wraps CBMC's malloc / free: every block is entered with its size and state
 * (live / freed); a free of a block that is not live (double free), or of a pointer that is not the base of a ledger
 * block, is counted.  After each call the harness states the exact set of live blocks: that is "nothing leaks, nothing
 * is freed twice".  Blocks the natives hand out (value of ldb_get, string of ldb_property) and the client's earlier
 * error message are ledger blocks as well.  malloc never returns NULL (c.c aborts in that case).
 *
 * Text model.  ldb_strerror returns "the message of the status": a NUL-terminated string of ARBITRARY length and
 * content (g_msg); strlen (only applied to that string by c.c) returns its length; sprintf (only used as
 * sprintf(buf, "IO error: %s", msg)) is a fixed-arity model that writes exactly that text; memcpy (only used to copy that
 * string) checks its preconditions and copies at one arbitrary, pre-chosen position (see v_memcpy).
 * The routing macros (malloc, free, strlen, memcpy, sprintf, abort) are defined AFTER every header was seen and apply to the
 * text of c.c only.
 */
#include "verif.h"
#include <stddef.h>
#include <stdio.h>
#include <string.h>

/* the headers c.c includes, seen first: the routing macros below then only touch the text of c.c itself */
#include "table/iterator.h"
#include "util/bloom.h"
#include "util/buffer.h"
#include "util/cache.h"
#include "util/comparator.h"
#include "util/env.h"
#include "util/extern.h"
#include "util/internal.h"
#include "util/options.h"
#include "util/slice.h"
#include "util/status.h"
#include "db_impl.h"
#include "write_batch.h"
#include <lcdb_c.h>

ldb_dbopt_t nondet_dbopt(void);
ldb_readopt_t nondet_readopt(void);
ldb_writeopt_t nondet_writeopt(void);
void *nondet_ptr(void);

/* ------------------------------------------------------------ allocation ledger */
/* loop-free on purpose (units with loop contracts need every loop under contract) */
#define NA 4
struct ledger {
  void *ptr[NA]; size_t size[NA]; int state[NA];   /* 0 unused, 1 live, 2 freed */
  int n, mallocs, frees, double_free, bad_free, overflow;
} L;
static void *L_alloc(size_t n) {
  void *p = malloc(n);
  __CPROVER_assume(p != NULL);
  if (L.n < NA) { L.ptr[L.n] = p; L.size[L.n] = n; L.state[L.n] = 1; L.n++; } else L.overflow = 1;
  L.mallocs++;
  return p;
}
static int L_find(const void *p) {
  return (L.n > 0 && L.ptr[0] == p) ? 0 : (L.n > 1 && L.ptr[1] == p) ? 1 : (L.n > 2 && L.ptr[2] == p) ? 2 : (L.n > 3 && L.ptr[3] == p) ? 3 : -1;
}
static void L_free(void *p) {
  int i = L_find(p);
  L.frees++;
  if (i < 0) { L.bad_free++; return; }
  if (L.state[i] != 1) { L.double_free++; return; }
  L.state[i] = 2;
  free(p);
}
static int L_live(void) { return (L.state[0] == 1) + (L.state[1] == 1) + (L.state[2] == 1) + (L.state[3] == 1); }
static int L_is_live(const void *p) { int i = L_find(p); return i >= 0 && L.state[i] == 1; }
static int L_was_freed(const void *p) { int i = L_find(p); return i >= 0 && L.state[i] == 2; }
static size_t L_size_of(const void *p) { int i = L_find(p); return i >= 0 ? L.size[i] : 0; }
#define L_CLEAN (L.double_free == 0 && L.bad_free == 0 && !L.overflow)

/* src/util/internal.c */
void *ldb_malloc(size_t size) { return L_alloc(size); }
void ldb_free(void *ptr) { if (ptr != NULL) L_free(ptr); }

/* ------------------------------------------------------------------ text model */
static char *g_msg; static size_t g_msg_len;
static size_t g_cp_j;      /* THE arbitrary byte position: every content check of this file and the memcpy model use this one index */
static int g_strerror_calls, g_strerror_code;
const char *ldb_strerror(int code) { g_strerror_calls++; g_strerror_code = code; return g_msg; }
static size_t v_strlen(const char *s) {
  __CPROVER_assert(s == g_msg, "model: strlen is only applied to the message of the native status");
  return g_msg_len;
}
/* memcpy: same preconditions as the C function (both regions accessible for n bytes); the copy itself is modelled at ONE
 * ARBITRARY POSITION g_cp_j that is fixed before the call (the ghost-index form of "for every j < n: dst[j] == src[j]");
 * the harness only ever inspects that position.  (CBMC's own memcpy model is exact as well, but copies the whole array:
 * with a message of unbounded length the JSON counterexample printer of cbmc 6.11 runs out of memory.) */
static void *v_memcpy(void *dst, const void *src, size_t n) {
  __CPROVER_assert(__CPROVER_r_ok(src, n), "memcpy: the source is readable for n bytes");
  __CPROVER_assert(__CPROVER_w_ok(dst, n), "memcpy: the destination is writable for n bytes");
  if (g_cp_j < n) ((char *)dst)[g_cp_j] = ((const char *)src)[g_cp_j];
  return dst;
}
static int v_sprintf_s(char *dst, const char *fmt, const char *arg) {
  __CPROVER_assert(fmt[0] == 'I' && fmt[1] == 'O' && fmt[2] == ' ' && fmt[3] == 'e' && fmt[4] == 'r' && fmt[5] == 'r' && fmt[6] == 'o' && fmt[7] == 'r' &&
                   fmt[8] == ':' && fmt[9] == ' ' && fmt[10] == '%' && fmt[11] == 's' && fmt[12] == 0, "model: the only format c.c uses is \"IO error: %s\"");
  __CPROVER_assert(arg == g_msg, "model: the %s argument is the message of the native status");
  dst[0] = 'I'; dst[1] = 'O'; dst[2] = ' '; dst[3] = 'e'; dst[4] = 'r'; dst[5] = 'r'; dst[6] = 'o'; dst[7] = 'r'; dst[8] = ':'; dst[9] = ' ';
  v_memcpy(dst + 10, arg, g_msg_len + 1);     /* the text and its terminator */
  return (int)(10 + g_msg_len);
}
static int g_aborts, g_abort_expected;
static void v_abort(void) {
  g_aborts++;
  __CPROVER_assert(g_abort_expected, "abort() is reached only where the API documents it (allocation failure cannot happen in this model; a batch the native iterator rejects)");
  __CPROVER_assume(0);
}

/* ------------------------------------------------------------------- call log */
enum { F_NONE, F_OPEN, F_CLOSE, F_PUT, F_DEL, F_WRITE, F_GET, F_ITERATOR, F_SNAPSHOT, F_RELEASE, F_PROPERTY, F_SIZES, F_COMPACT, F_DESTROY, F_REPAIR,
       F_ITER_DESTROY, F_IT_VALID, F_IT_FIRST, F_IT_LAST, F_IT_SEEK, F_IT_NEXT, F_IT_PREV, F_IT_KEY, F_IT_VALUE, F_IT_STATUS, F_IT_CLEAR,
       F_B_CREATE, F_B_DESTROY, F_B_RESET, F_B_PUT, F_B_DEL, F_B_ITERATE, F_B_APPEND, F_BLOOM_INIT, F_BUF_APPEND, F_LRU_CREATE, F_LRU_DESTROY, F_TESTDIR };
static int g_ncalls, g_call0, g_call1;
static void rec(int f) { if (g_ncalls == 0) g_call0 = f; else if (g_ncalls == 1) g_call1 = f; g_ncalls++; }
#define ONLY(f) (g_ncalls == 1 && g_call0 == (f))

/* arguments as the native saw them */
static const void *g_db, *g_opt, *g_name, *g_batch, *g_batch2, *g_snap, *g_iter, *g_itptr;
static const uint8_t *g_kdata, *g_vdata; static size_t g_ksize, g_vsize;
static int g_has_k, g_has_v;                 /* the slice pointer itself was non-NULL */
static int g_rc;                             /* what the native returns (arbitrary) */
static int g_live_at_call;                   /* ledger live count when the native ran */

/* handles: the native types are opaque to c.c */
static char g_dbobj, g_garbage, g_snapobj, g_lruobj, g_logobj, g_itimpl;
#define DB0   ((ldb_t *)&g_dbobj)
#define SNAP0 ((const struct ldb_snapshot_s *)&g_snapobj)
#define LRU0  ((struct ldb_lru_s *)&g_lruobj)

static ldb_dbopt_t g_dbopt_dflt; static ldb_readopt_t g_readopt_dflt; static ldb_writeopt_t g_writeopt_dflt;
const ldb_dbopt_t *ldb_dbopt_default; const ldb_readopt_t *ldb_readopt_default; const ldb_writeopt_t *ldb_writeopt_default;
const ldb_readopt_t *ldb_iteropt_default;

/* ------------------------------------------------------------- native: database */
static int g_dbptr_seen;
int ldb_open(const char *dbname, const ldb_dbopt_t *options, ldb_t **dbptr) {
  rec(F_OPEN); g_name = dbname; g_opt = options; g_dbptr_seen = dbptr != NULL; g_live_at_call = L_live();
  /* on failure the native's *dbptr is NOT to be used by the wrapper: hand out garbage to see whether it leaks out */
  if (dbptr != NULL) *dbptr = (g_rc == LDB_OK) ? DB0 : (ldb_t *)&g_garbage;
  return g_rc;
}
void ldb_close(ldb_t *db) { rec(F_CLOSE); g_db = db; }
int ldb_put(ldb_t *db, const ldb_slice_t *key, const ldb_slice_t *value, const ldb_writeopt_t *options) {
  rec(F_PUT); g_db = db; g_opt = options; g_has_k = key != NULL; g_has_v = value != NULL; g_live_at_call = L_live();
  if (key != NULL) { g_kdata = key->data; g_ksize = key->size; }
  if (value != NULL) { g_vdata = value->data; g_vsize = value->size; }
  return g_rc;
}
int ldb_del(ldb_t *db, const ldb_slice_t *key, const ldb_writeopt_t *options) {
  rec(F_DEL); g_db = db; g_opt = options; g_has_k = key != NULL; g_live_at_call = L_live();
  if (key != NULL) { g_kdata = key->data; g_ksize = key->size; }
  return g_rc;
}
int ldb_write(ldb_t *db, struct ldb_batch_s *updates, const ldb_writeopt_t *options) {
  rec(F_WRITE); g_db = db; g_opt = options; g_batch = updates; g_live_at_call = L_live();
  return g_rc;
}
/* ldb_get (db_impl.c): the value comes back in an ldb_malloc'ed buffer the caller owns (at least one byte is allocated
 * also for an empty value: ldb_buffer_grow(value, 1)); on every other status the slice is cleared */
static uint8_t *g_nat_val; static size_t g_nat_len, g_nat_alloc; static uint8_t g_val_byte;
int ldb_get(ldb_t *db, const ldb_slice_t *key, ldb_slice_t *value, const ldb_readopt_t *options) {
  rec(F_GET); g_db = db; g_opt = options; g_has_k = key != NULL; g_has_v = value != NULL;
  if (key != NULL) { g_kdata = key->data; g_ksize = key->size; }
  if (value != NULL) {
    if (g_rc == LDB_OK) {
      g_nat_val = L_alloc(g_nat_alloc);
      if (g_cp_j < g_nat_len) g_val_byte = g_nat_val[g_cp_j];
      value->data = g_nat_val; value->size = g_nat_len; value->alloc = g_nat_alloc;
    } else { value->data = NULL; value->size = 0; value->alloc = 0; }
  }
  return g_rc;
}
static ldb_iter_t g_it;
struct ldb_iter_s *ldb_iterator(ldb_t *db, const ldb_readopt_t *options) { rec(F_ITERATOR); g_db = db; g_opt = options; return &g_it; }
const struct ldb_snapshot_s *ldb_snapshot(ldb_t *db) { rec(F_SNAPSHOT); g_db = db; return SNAP0; }
void ldb_release(ldb_t *db, const struct ldb_snapshot_s *snapshot) { rec(F_RELEASE); g_db = db; g_snap = snapshot; }
/* ldb_property (db_impl.c): 1 and an ldb_malloc'ed string the caller owns, or 0 and *value == NULL */
static char *g_prop_str; static int g_prop_ok; static size_t g_prop_size;
int ldb_property(ldb_t *db, const char *property, char **value) {
  rec(F_PROPERTY); g_db = db; g_name = property;
  if (g_prop_ok) { g_prop_str = L_alloc(g_prop_size); *value = g_prop_str; } else *value = NULL;
  return g_prop_ok;
}
/* ranges as the native saw them: one arbitrary index g_rj is tracked */
static size_t g_rj, g_sz_len; static uint64_t *g_sz_out; static uint64_t g_sz_val;
static const uint8_t *g_r_sdata, *g_r_ldata; static size_t g_r_ssize, g_r_lsize; static int g_r_live, g_r_fits;
void ldb_approximate_sizes(ldb_t *db, const ldb_range_t *range, size_t length, uint64_t *sizes) {
  rec(F_SIZES); g_db = db; g_sz_len = length; g_sz_out = sizes;
  g_r_live = L_is_live(range);
  g_r_fits = length <= 0x7fffffff && L_size_of(range) >= length * sizeof(ldb_range_t);
  if (g_rj < length) {
    g_r_sdata = range[g_rj].start.data; g_r_ssize = range[g_rj].start.size;
    g_r_ldata = range[g_rj].limit.data; g_r_lsize = range[g_rj].limit.size;
    sizes[g_rj] = g_sz_val;       /* the native answers into the array it was given */
  }
}
void ldb_compact(ldb_t *db, const ldb_slice_t *begin, const ldb_slice_t *end) {
  rec(F_COMPACT); g_db = db; g_has_k = begin != NULL; g_has_v = end != NULL;
  if (begin != NULL) { g_kdata = begin->data; g_ksize = begin->size; }
  if (end != NULL) { g_vdata = end->data; g_vsize = end->size; }
}
int ldb_destroy(const char *dbname, const ldb_dbopt_t *options) { rec(F_DESTROY); g_name = dbname; g_opt = options; return g_rc; }
int ldb_repair(const char *dbname, const ldb_dbopt_t *options) { rec(F_REPAIR); g_name = dbname; g_opt = options; return g_rc; }

/* ------------------------------------------------------------- native: iterator */
/* the iterator operations are macros over the iterator's function table (table/iterator.h): the "native" is the table
 * entry, called on the implementation pointer iter->ptr */
static int g_it_valid_ret; static ldb_slice_t g_it_key_ret, g_it_val_ret;
static void it_clear(void *p) { rec(F_IT_CLEAR); g_itptr = p; }
static int it_valid(const void *p) { rec(F_IT_VALID); g_itptr = p; return g_it_valid_ret; }
static void it_first(void *p) { rec(F_IT_FIRST); g_itptr = p; }
static void it_last(void *p) { rec(F_IT_LAST); g_itptr = p; }
static void it_seek(void *p, const ldb_slice_t *t) { rec(F_IT_SEEK); g_itptr = p; g_has_k = t != NULL; if (t != NULL) { g_kdata = t->data; g_ksize = t->size; } }
static void it_next(void *p) { rec(F_IT_NEXT); g_itptr = p; }
static void it_prev(void *p) { rec(F_IT_PREV); g_itptr = p; }
static ldb_slice_t it_key(const void *p) { rec(F_IT_KEY); g_itptr = p; return g_it_key_ret; }
static ldb_slice_t it_value(const void *p) { rec(F_IT_VALUE); g_itptr = p; return g_it_val_ret; }
static int it_status(const void *p) { rec(F_IT_STATUS); g_itptr = p; g_live_at_call = L_live(); return g_rc; }
static const ldb_itertbl_t g_it_table = { it_clear, it_valid, it_first, it_last, it_seek, it_next, it_prev, it_key, it_value, it_status };
void ldb_iter_destroy(ldb_iter_t *iter) { rec(F_ITER_DESTROY); g_iter = iter; }

/* ---------------------------------------------------------------- native: batch */
static ldb_batch_t g_bobj, g_bobj2;
ldb_batch_t *ldb_batch_create(void) { rec(F_B_CREATE); return &g_bobj; }
void ldb_batch_destroy(ldb_batch_t *batch) { rec(F_B_DESTROY); g_batch = batch; }
void ldb_batch_reset(ldb_batch_t *batch) { rec(F_B_RESET); g_batch = batch; }
void ldb_batch_put(ldb_batch_t *batch, const ldb_slice_t *key, const ldb_slice_t *value) {
  rec(F_B_PUT); g_batch = batch; g_has_k = key != NULL; g_has_v = value != NULL;
  if (key != NULL) { g_kdata = key->data; g_ksize = key->size; }
  if (value != NULL) { g_vdata = value->data; g_vsize = value->size; }
}
void ldb_batch_del(ldb_batch_t *batch, const ldb_slice_t *key) {
  rec(F_B_DEL); g_batch = batch; g_has_k = key != NULL;
  if (key != NULL) { g_kdata = key->data; g_ksize = key->size; }
}
void ldb_batch_append(ldb_batch_t *dst, const ldb_batch_t *src) { rec(F_B_APPEND); g_batch = dst; g_batch2 = src; }
/* (ldb_batch_iterate: after the inclusion of c.c - its model looks into the adapter's iterate_opts_t) */

/* ------------------------------------------------- native: bloom, buffer, cache, env */
static const ldb_bloom_t *g_bi_bloom; static int g_bi_bits;
static char g_dflt_name; static size_t g_bi_k;
static void dflt_build(const ldb_bloom_t *b, ldb_buffer_t *d, const ldb_slice_t *k, size_t n) { }
static int dflt_match(const ldb_bloom_t *b, const ldb_slice_t *f, const ldb_slice_t *k) { return 1; }
void ldb_bloom_init(ldb_bloom_t *bloom, int bits_per_key) {
  rec(F_BLOOM_INIT); g_bi_bloom = bloom; g_bi_bits = bits_per_key;
  bloom->name = &g_dflt_name; bloom->build = dflt_build; bloom->match = dflt_match;
  bloom->bits_per_key = bits_per_key; bloom->k = g_bi_k; bloom->user_policy = NULL; bloom->state = NULL;
}
static ldb_buffer_t *g_ba_dst; static const uint8_t *g_ba_data; static size_t g_ba_size; static int g_ba_data_live; static uint8_t g_ba_byte;
void ldb_buffer_append(ldb_buffer_t *z, const uint8_t *xp, size_t xn) {
  rec(F_BUF_APPEND); g_ba_dst = z; g_ba_data = xp; g_ba_size = xn; g_ba_data_live = L_is_live(xp); g_live_at_call = L_live();
  if (g_cp_j < xn) g_ba_byte = xp[g_cp_j];     /* the native reads the bytes: they must still be there */
}
static size_t g_lru_cap;
struct ldb_lru_s *ldb_lru_create(size_t capacity) { rec(F_LRU_CREATE); g_lru_cap = capacity; return LRU0; }
void ldb_lru_destroy(struct ldb_lru_s *lru) { rec(F_LRU_DESTROY); g_db = lru; }
static char *g_td_buf; static size_t g_td_size; static int g_td_ok, g_td_fits;
int ldb_test_directory(char *result, size_t size) {
  rec(F_TESTDIR); g_td_buf = result; g_td_size = size; g_td_fits = L_is_live(result) && L_size_of(result) >= size;
  if (g_td_ok && g_td_fits && size > 0) result[0] = '/';
  return g_td_ok;
}

/* ------------------------------------------------------------ the code under test */
#define malloc(n) L_alloc(n)
#define free(p) L_free(p)
#define strlen(s) v_strlen(s)
#define memcpy(d, s, n) v_memcpy(d, s, n)
#define sprintf(d, f, a) v_sprintf_s(d, f, a)
#define abort() v_abort()
#include "c.c"
#undef malloc
#undef free
#undef strlen
#undef memcpy
#undef sprintf
#undef abort

/* ----------------------------------------------- native: ldb_batch_iterate */
/* ldb_batch_iterate walks the records of the batch in order and hands each one to the handler (bat.iterate): here a batch of
 * zero, one or two records - a value record (k1, v1) and a deletion (k2), in either order; a corrupted batch stops with a
 * status.  After every delivery the model checks that neither the handler object nor the adapter's private options were
 * changed by the callback adapter: deliveries are independent of each other, a longer batch is a repetition. */
static ldb_slice_t g_k1, g_v1, g_k2; static int g_put_first, g_n_records, g_h_frame_ok, g_h_shape_ok;
static int h_same(const ldb_handler_t *h, const ldb_handler_t *h0, const iterate_opts_t *o0) {
  const iterate_opts_t *o = h->state;
  return h->state == h0->state && h->put == h0->put && h->del == h0->del && o->state == o0->state && o->put == o0->put && o->del == o0->del;
}
int ldb_batch_iterate(const ldb_batch_t *batch, ldb_handler_t *handler) {
  ldb_handler_t h0 = *handler; iterate_opts_t o0;
  rec(F_B_ITERATE); g_batch = batch;
  g_h_shape_ok = handler->state != NULL && handler->put != NULL && handler->del != NULL;
  o0 = *(iterate_opts_t *)handler->state;
  g_h_frame_ok = 1;
  if (g_n_records >= 1) { if (g_put_first) handler->put(handler, &g_k1, &g_v1); else handler->del(handler, &g_k2); g_h_frame_ok = g_h_frame_ok && h_same(handler, &h0, &o0); }
  if (g_n_records >= 2) { if (g_put_first) handler->del(handler, &g_k2); else handler->put(handler, &g_k1, &g_v1); g_h_frame_ok = g_h_frame_ok && h_same(handler, &h0, &o0); }
  g_abort_expected = g_rc != LDB_OK;
  return g_rc;
}

/* ---------------------------------------------------------------------- reset */
static void reset(void) {
  int i;
  L.n = L.mallocs = L.frees = L.double_free = L.bad_free = L.overflow = 0;
  L.ptr[0] = L.ptr[1] = L.ptr[2] = L.ptr[3] = NULL; L.size[0] = L.size[1] = L.size[2] = L.size[3] = 0; L.state[0] = L.state[1] = L.state[2] = L.state[3] = 0;
  (void)i;
  g_strerror_calls = 0; g_strerror_code = 0; g_aborts = 0; g_abort_expected = 0;
  g_ncalls = 0; g_call0 = g_call1 = F_NONE;
  g_db = g_opt = g_name = g_batch = g_batch2 = g_snap = g_iter = g_itptr = NULL;
  g_kdata = g_vdata = NULL; g_ksize = g_vsize = 0; g_has_k = g_has_v = 0; g_live_at_call = -1; g_dbptr_seen = 0;
  g_rc = nondet_int();
  g_msg = NULL; g_msg_len = 0;
  g_cp_j = nondet_size();
  g_dbopt_dflt = nondet_dbopt(); g_readopt_dflt = nondet_readopt(); g_writeopt_dflt = nondet_writeopt();
  ldb_dbopt_default = &g_dbopt_dflt; ldb_readopt_default = &g_readopt_dflt; ldb_writeopt_default = &g_writeopt_dflt; ldb_iteropt_default = &g_readopt_dflt;
  g_it.ptr = &g_itimpl; g_it.table = &g_it_table; g_it.cmp = NULL; g_it.cleanup_head.func = NULL; g_it.cleanup_head.next = NULL;
}

/* ------------------------------------------------- the *errptr protocol (C12) */
/* LevelDB C API: "errptr ... On failure, leveldb frees the old value of *errptr and set *errptr to a malloc()ed error
 * message.  On success, a leveldb routine leaves *errptr unchanged."  The message is the text of the status; statuses
 * outside lcdb's own range are system error numbers and are reported as "IO error: <system text>". */
struct errslot { char *slot; char *old; int had_old; char old_b0; };
static void err_arm(struct errslot *e) {
  /* the message of the status the native is going to return: a C string of arbitrary length and content (the native's static storage) */
  g_msg_len = nondet_size();
  g_msg = malloc(g_msg_len + 1); __CPROVER_assume(g_msg != NULL && g_msg_len + 1 != 0);
  g_msg[g_msg_len] = 0;
  e->had_old = nondet_int() ? 1 : 0; e->old = NULL; e->old_b0 = 0;
  if (e->had_old) {
    size_t n = nondet_size(); __CPROVER_assume(n >= 1);
    e->old = L_alloc(n); e->old[0] = (char)nondet_int(); e->old_b0 = e->old[0];
  }
  e->slot = e->old;
}
static int msg_text_ok(const char *m, int status) {
  size_t pre = LDB_IS_STATUS(status) ? 0 : 10;
  if (L_size_of(m) < pre + g_msg_len + 1) return 0;
  if (pre != 0 && !(m[0] == 'I' && m[1] == 'O' && m[2] == ' ' && m[3] == 'e' && m[4] == 'r' && m[5] == 'r' && m[6] == 'o' && m[7] == 'r' && m[8] == ':' && m[9] == ' ')) return 0;
  return g_cp_j > g_msg_len || m[pre + g_cp_j] == g_msg[g_cp_j];      /* arbitrary position, the terminator included */
}
#define ERR_CHECK(e, status, extra_live, who) do { \
  if ((status) == LDB_OK) { \
    CHECK((e).slot == (e).old, who ": on success *errptr is left exactly as it was (NULL stays NULL, an earlier message stays)"); \
    CHECK(!(e).had_old || (L_is_live((e).old) && (e).old[0] == (e).old_b0), who ": on success an earlier message is neither freed nor overwritten"); \
    CHECK(g_strerror_calls == 0, who ": on success no message is produced"); \
  } else { \
    CHECK((e).slot != NULL && (e).slot != (e).old && L_is_live((e).slot), who ": on failure *errptr holds a freshly allocated message (C12: the failure is reported)"); \
    CHECK(!(e).had_old || L_was_freed((e).old), who ": on failure the message *errptr held before is freed"); \
    CHECK(g_strerror_calls == 1 && g_strerror_code == (status), who ": the message is the text of exactly the status the native returned"); \
    CHECK((e).slot == NULL || !L_is_live((e).slot) || msg_text_ok((e).slot, (status)), who ": the message is the status text, NUL-terminated inside its block, prefixed \"IO error: \" for system error numbers"); \
  } \
  CHECK(L_live() == ((e).slot != NULL ? 1 : 0) + (extra_live) && L_CLEAN, who ": nothing leaks, nothing is freed twice, nothing foreign is freed"); \
  CHECK(g_aborts == 0, who ": does not abort"); \
} while (0)

/* ============================================================== capi.save_error */
void h_save_error(void) {
  struct errslot e; int r; IN_INT(in_status);
  reset(); err_arm(&e);
  r = save_error(&e.slot, in_status);
  CHECK(r == (in_status != LDB_OK), "save_error: returns 1 iff the status is a failure");
  CHECK(in_status != LDB_OK || (L.mallocs == (e.had_old ? 1 : 0) && L.frees == 0), "save_error: success allocates and frees nothing");
  CHECK(in_status == LDB_OK || (L.mallocs == (e.had_old ? 2 : 1) && L.frees == (e.had_old ? 1 : 0)), "save_error: failure allocates exactly the new message and frees exactly the old one");
  ERR_CHECK(e, in_status, 0, "save_error");
  CANARY();
}

/* =================================================================== capi.open */
void h_open(void) {
  struct errslot e; ldb_dbopt_t opt; leveldb_t *db; IN_SIZE(in_nlen);
  IN_BUF(name, in_nlen);
  int use_opt = nondet_int() ? 1 : 0;
  reset(); err_arm(&e);
  db = leveldb_open(use_opt ? &opt : NULL, (const char *)name, &e.slot);
  CHECK(ONLY(F_OPEN), "open: exactly one native call, ldb_open");
  CHECK(g_name == (const void *)name && g_opt == (use_opt ? (const void *)&opt : NULL) && g_dbptr_seen, "open: ldb_open gets the caller's name and options object unchanged");
  CHECK(g_rc != LDB_OK || db == DB0, "open: on success the handle the native opened is returned");
  CHECK(g_rc == LDB_OK || db == NULL, "open (C20): a failed open returns NULL, never a handle");
  ERR_CHECK(e, g_rc, 0, "open");
  CANARY();
}

/* ================================================== capi.close_destroy_repair */
void h_close_destroy_repair(void) {
  struct errslot e; ldb_dbopt_t opt; IN_SIZE(in_nlen);
  IN_BUF(name, in_nlen);
  int use_opt = nondet_int() ? 1 : 0; IN_INT(in_which);
  reset(); err_arm(&e);
  if (in_which == 0) {
    leveldb_close(DB0);
    CHECK(ONLY(F_CLOSE) && g_db == DB0, "close: exactly one native call, ldb_close on the caller's handle");
    CHECK(L.mallocs == (e.had_old ? 1 : 0) && L.frees == 0, "close: the shim itself allocates / frees nothing");
  } else if (in_which == 1) {
    leveldb_destroy_db(use_opt ? &opt : NULL, (const char *)name, &e.slot);
    CHECK(ONLY(F_DESTROY), "destroy_db: exactly one native call, ldb_destroy (not repair, not open)");
    CHECK(g_name == (const void *)name && g_opt == (use_opt ? (const void *)&opt : NULL), "destroy_db: the native gets the caller's name and options");
    ERR_CHECK(e, g_rc, 0, "destroy_db");
  } else {
    leveldb_repair_db(use_opt ? &opt : NULL, (const char *)name, &e.slot);
    CHECK(ONLY(F_REPAIR), "repair_db: exactly one native call, ldb_repair (not destroy)");
    CHECK(g_name == (const void *)name && g_opt == (use_opt ? (const void *)&opt : NULL), "repair_db: the native gets the caller's name and options");
    ERR_CHECK(e, g_rc, 0, "repair_db");
  }
  CANARY();
}

/* ========================================================= capi.put / delete / write */
void h_put(void) {
  struct errslot e; ldb_writeopt_t wo; IN_SIZE(in_klen); IN_SIZE(in_vlen);
  IN_BUF(key, in_klen); IN_BUF(val, in_vlen);
  int use_opt = nondet_int() ? 1 : 0;
  reset(); err_arm(&e); wo = nondet_writeopt();
  leveldb_put(DB0, use_opt ? &wo : NULL, (const char *)key, in_klen, (const char *)val, in_vlen, &e.slot);
  CHECK(ONLY(F_PUT) && g_db == DB0, "put: exactly one native call, ldb_put on the caller's handle");
  CHECK(g_has_k && g_kdata == key && g_ksize == in_klen, "put: the key slice is (key, keylen)");
  CHECK(g_has_v && g_vdata == val && g_vsize == in_vlen, "put: the value slice is (val, vallen)");
  CHECK(g_opt == (use_opt ? (const void *)&wo : NULL), "put (C04): the caller's write options (sync) reach ldb_put unchanged");
  ERR_CHECK(e, g_rc, 0, "put");
  CANARY();
}
void h_delete(void) {
  struct errslot e; ldb_writeopt_t wo; IN_SIZE(in_klen);
  IN_BUF(key, in_klen);
  int use_opt = nondet_int() ? 1 : 0;
  reset(); err_arm(&e); wo = nondet_writeopt();
  leveldb_delete(DB0, use_opt ? &wo : NULL, (const char *)key, in_klen, &e.slot);
  CHECK(ONLY(F_DEL) && g_db == DB0, "delete: exactly one native call, ldb_del (a deletion, not a put) on the caller's handle");
  CHECK(g_has_k && g_kdata == key && g_ksize == in_klen, "delete: the key slice is (key, keylen)");
  CHECK(g_opt == (use_opt ? (const void *)&wo : NULL), "delete (C04): the caller's write options (sync) reach ldb_del unchanged");
  ERR_CHECK(e, g_rc, 0, "delete");
  CANARY();
}
void h_write(void) {
  struct errslot e; ldb_writeopt_t wo; ldb_batch_t b;
  int use_opt = nondet_int() ? 1 : 0, use_b = nondet_int() ? 1 : 0;
  reset(); err_arm(&e); wo = nondet_writeopt();
  leveldb_write(DB0, use_opt ? &wo : NULL, use_b ? &b : NULL, &e.slot);
  CHECK(ONLY(F_WRITE) && g_db == DB0, "write: exactly one native call, ldb_write on the caller's handle (the batch is applied once)");
  CHECK(g_batch == (use_b ? (const void *)&b : NULL), "write: the caller's batch object itself is written");
  CHECK(g_opt == (use_opt ? (const void *)&wo : NULL), "write (C04): the caller's write options (sync) reach ldb_write unchanged");
  ERR_CHECK(e, g_rc, 0, "write");
  CANARY();
}

/* ==================================================================== capi.get */
void h_get(void) {
  struct errslot e; ldb_readopt_t ro; IN_SIZE(in_klen); size_t vallen = nondet_size(); char *res;
  IN_BUF(key, in_klen);
  int use_opt = nondet_int() ? 1 : 0;
  reset(); err_arm(&e); ro = nondet_readopt();
  g_nat_len = nondet_size(); g_nat_alloc = nondet_size(); __CPROVER_assume(g_nat_alloc >= 1 && g_nat_len <= g_nat_alloc);
  g_val_byte = 0; g_nat_val = NULL;
  res = leveldb_get(DB0, use_opt ? &ro : NULL, (const char *)key, in_klen, &vallen, &e.slot);
  CHECK(ONLY(F_GET) && g_db == DB0, "get: exactly one native call, ldb_get on the caller's handle");
  CHECK(g_has_k && g_kdata == key && g_ksize == in_klen, "get: the key slice is (key, keylen)");
  CHECK(g_has_v, "get: a value slot is passed (ldb_get with NULL only tests existence)");
  CHECK(g_opt == (use_opt ? (const void *)&ro : NULL), "get (C06): the caller's read options (snapshot) reach ldb_get unchanged");
  if (g_rc == LDB_OK) {
    CHECK(res != NULL, "get (C01): a found value is returned, also an empty one (non-NULL)");
    CHECK(vallen == g_nat_len, "get: *vallen is the length of the value the native found");
    CHECK(L_is_live(res) && L_size_of(res) >= vallen, "get: the result is a live heap block of at least vallen bytes that the caller releases with leveldb_free");
    CHECK(!(g_cp_j < g_nat_len) || !L_is_live(res) || L_size_of(res) < vallen || vallen != g_nat_len || (uint8_t)res[g_cp_j] == g_val_byte, "get (C01): the result holds exactly the bytes the native found");
    ERR_CHECK(e, LDB_OK, 1, "get(found)");   /* live: the result (either the native buffer itself, or a copy with the native buffer released) */
  } else if (g_rc == LDB_NOTFOUND) {
    CHECK(res == NULL && vallen == 0, "get: a missing key returns NULL with *vallen == 0");
    CHECK(e.slot == e.old && (!e.had_old || L_is_live(e.old)) && g_strerror_calls == 0, "get (C12): NOT_FOUND is not an error - *errptr is untouched");
    CHECK(L_live() == e.had_old && L_CLEAN, "get(not found): nothing leaks, nothing is freed");
  } else {
    CHECK(res == NULL && vallen == 0, "get: a failed read returns NULL with *vallen == 0 (never a value)");
    ERR_CHECK(e, g_rc, 0, "get(failed)");
  }
  CANARY();
}

/* ============================================================ iterator wrappers */
void h_create_iterator(void) {
  ldb_readopt_t ro; leveldb_iterator_t *it; int use_opt = nondet_int() ? 1 : 0;
  reset(); ro = nondet_readopt();
  it = leveldb_create_iterator(DB0, use_opt ? &ro : NULL);
  CHECK(ONLY(F_ITERATOR) && g_db == DB0, "create_iterator: exactly one native call, ldb_iterator on the caller's handle");
  CHECK(g_opt == (use_opt ? (const void *)&ro : NULL), "create_iterator (C06/C07): the caller's read options (snapshot) reach ldb_iterator unchanged");
  CHECK(it == &g_it, "create_iterator: the native iterator itself is the handle");
  CHECK(L.mallocs == 0 && L.frees == 0, "create_iterator: the shim allocates nothing of its own");
  CANARY();
}
void h_iter_move(void) {
  IN_INT(in_which); IN_SIZE(in_klen); IN_BUF(key, in_klen); uint8_t v;
  reset();
  g_it_valid_ret = nondet_int() ? 1 : 0;
  switch (in_which) {
  case 0: v = leveldb_iter_valid(&g_it);
    CHECK(ONLY(F_IT_VALID) && g_itptr == &g_itimpl, "iter_valid: exactly one call of the iterator's valid() on its implementation");
    CHECK((v != 0) == (g_it_valid_ret != 0), "iter_valid (C07): the answer is the native's");
    break;
  case 1: leveldb_iter_seek_to_first(&g_it); CHECK(ONLY(F_IT_FIRST) && g_itptr == &g_itimpl, "iter_seek_to_first: exactly one call of first() on the implementation"); break;
  case 2: leveldb_iter_seek_to_last(&g_it); CHECK(ONLY(F_IT_LAST) && g_itptr == &g_itimpl, "iter_seek_to_last: exactly one call of last() on the implementation"); break;
  case 3: leveldb_iter_seek(&g_it, (const char *)key, in_klen);
    CHECK(ONLY(F_IT_SEEK) && g_itptr == &g_itimpl, "iter_seek: exactly one call of seek() on the implementation");
    CHECK(g_has_k && g_kdata == key && g_ksize == in_klen, "iter_seek (C07): the target slice is (k, klen)");
    break;
  case 4: leveldb_iter_next(&g_it); CHECK(ONLY(F_IT_NEXT) && g_itptr == &g_itimpl, "iter_next: exactly one call of next() (one step forward)"); break;
  case 5: leveldb_iter_prev(&g_it); CHECK(ONLY(F_IT_PREV) && g_itptr == &g_itimpl, "iter_prev: exactly one call of prev() (one step backward)"); break;
  default: leveldb_iter_destroy(&g_it); CHECK(ONLY(F_ITER_DESTROY) && g_iter == &g_it, "iter_destroy: exactly one native call, ldb_iter_destroy on the caller's iterator"); break;
  }
  CHECK(L.mallocs == 0 && L.frees == 0, "iterator movement: the shim allocates / frees nothing");
  CANARY();
}
void h_iter_kv(void) {
  size_t len = nondet_size(); const char *p; IN_SIZE(in_n1); IN_SIZE(in_n2); IN_BUF(kb, in_n1); IN_BUF(vb, in_n2);
  int which = nondet_int() ? 1 : 0;
  reset();
  g_it_key_ret.data = kb; g_it_key_ret.size = nondet_size(); g_it_key_ret.alloc = nondet_size();
  g_it_val_ret.data = vb; g_it_val_ret.size = nondet_size(); g_it_val_ret.alloc = nondet_size();
  if (which) {
    p = leveldb_iter_key(&g_it, &len);
    CHECK(ONLY(F_IT_KEY) && g_itptr == &g_itimpl, "iter_key: exactly one call of key() on the implementation");
    CHECK(p == (const char *)kb && len == g_it_key_ret.size, "iter_key (C07): pointer and length of the native key slice (no copy, size not alloc)");
  } else {
    p = leveldb_iter_value(&g_it, &len);
    CHECK(ONLY(F_IT_VALUE) && g_itptr == &g_itimpl, "iter_value: exactly one call of value() (not key()) on the implementation");
    CHECK(p == (const char *)vb && len == g_it_val_ret.size, "iter_value (C07): pointer and length of the native value slice");
  }
  CHECK(L.mallocs == 0 && L.frees == 0, "iter_key / iter_value: nothing is allocated (the storage belongs to the iterator)");
  CANARY();
}
void h_iter_error(void) {
  struct errslot e;
  reset(); err_arm(&e);
  leveldb_iter_get_error(&g_it, &e.slot);
  CHECK(ONLY(F_IT_STATUS) && g_itptr == &g_itimpl, "iter_get_error: exactly one call of the iterator's status() on its implementation");
  ERR_CHECK(e, g_rc, 0, "iter_get_error (C11: an iterator that stopped on an error says so)");
  CANARY();
}

/* ================================================================ capi.snapshot */
void h_snapshot(void) {
  int which = nondet_int(); const leveldb_snapshot_t *s; ldb_readopt_t ro, before; int use = nondet_int() ? 1 : 0;
  reset();
  if (which == 0) {
    s = leveldb_create_snapshot(DB0);
    CHECK(ONLY(F_SNAPSHOT) && g_db == DB0, "create_snapshot: exactly one native call, ldb_snapshot on the caller's handle");
    CHECK(s == SNAP0, "create_snapshot (C06): the native snapshot itself is the handle");
  } else if (which == 1) {
    leveldb_release_snapshot(DB0, use ? SNAP0 : NULL);
    CHECK(ONLY(F_RELEASE) && g_db == DB0, "release_snapshot: exactly one native call, ldb_release on the caller's handle");
    CHECK(g_snap == (use ? (const void *)SNAP0 : NULL), "release_snapshot (C06): the caller's snapshot is the one released");
  } else {
    ro = nondet_readopt(); before = ro;
    leveldb_readoptions_set_snapshot(&ro, use ? SNAP0 : NULL);
    CHECK(g_ncalls == 0, "readoptions_set_snapshot: no native call");
    CHECK(ro.snapshot == (use ? SNAP0 : NULL), "readoptions_set_snapshot (C06): reads with these options see the caller's snapshot (NULL = latest)");
    CHECK(ro.verify_checksums == before.verify_checksums && ro.fill_cache == before.fill_cache, "readoptions_set_snapshot: nothing else changes");
  }
  CHECK(L.mallocs == 0 && L.frees == 0, "snapshot wrappers: the shim allocates / frees nothing");
  CANARY();
}

/* ================================================================ capi.property */
void h_property(void) {
  IN_SIZE(in_nlen); IN_BUF(name, in_nlen); char *r;
  reset();
  g_prop_ok = nondet_int() ? 1 : 0; g_prop_size = nondet_size(); __CPROVER_assume(g_prop_size >= 1); g_prop_str = NULL;
  r = leveldb_property_value(DB0, (const char *)name);
  CHECK(ONLY(F_PROPERTY) && g_db == DB0 && g_name == (const void *)name, "property_value: exactly one native call, ldb_property with the caller's handle and name");
  CHECK(!g_prop_ok || (r == g_prop_str && L_is_live(r) && L_live() == 1), "property_value: a known property returns the native's string, owned by the caller, nothing else live");
  CHECK(g_prop_ok || (r == NULL && L_live() == 0), "property_value: an unknown property returns NULL");
  CHECK(L_CLEAN && L.frees == 0, "property_value: nothing is freed");
  CANARY();
}

/* =================================================================== capi.sizes */
#ifndef SIZES_MAX
#define SIZES_MAX 0
#endif
void h_sizes(void) {
  IN_INT(in_n); IN_SIZE(in_j);
  const char **sk, **lk; size_t *sl, *ll; uint64_t *sizes; uint64_t before = 0;
  reset();
  ASSUME(in_n >= 0);
#if SIZES_MAX
  ASSUME(in_n <= SIZES_MAX);
#endif
  sk = malloc((size_t)in_n * sizeof(char *)); lk = malloc((size_t)in_n * sizeof(char *));
  sl = malloc((size_t)in_n * sizeof(size_t)); ll = malloc((size_t)in_n * sizeof(size_t));
  sizes = malloc(((size_t)in_n + 1) * sizeof(uint64_t));
  ASSUME(sk != NULL && lk != NULL && sl != NULL && ll != NULL && sizes != NULL);
  g_rj = in_j; g_sz_val = nondet_u64(); g_r_live = g_r_fits = 0; g_r_sdata = g_r_ldata = NULL; g_r_ssize = g_r_lsize = 0; g_sz_out = NULL; g_sz_len = 0;
  sizes[in_n] = before = nondet_u64();   /* one element past the caller's array (inside the harness block): must stay */
  leveldb_approximate_sizes(DB0, in_n, sk, sl, lk, ll, sizes);
  CHECK(ONLY(F_SIZES) && g_db == DB0, "approximate_sizes: exactly one native call, ldb_approximate_sizes on the caller's handle");
  CHECK(g_sz_len == (size_t)in_n, "approximate_sizes: the native is asked for exactly num_ranges ranges");
  CHECK(g_sz_out == sizes, "approximate_sizes: the native answers directly into the caller's sizes array");
  CHECK(g_r_live && g_r_fits, "approximate_sizes: the range array handed to the native is live during the call and holds num_ranges elements");
  if (in_j < (size_t)in_n) {
    CHECK(g_r_sdata == (const uint8_t *)sk[in_j] && g_r_ssize == sl[in_j], "approximate_sizes: range i starts at (range_start_key[i], range_start_key_len[i])");
    CHECK(g_r_ldata == (const uint8_t *)lk[in_j] && g_r_lsize == ll[in_j], "approximate_sizes: range i ends at (range_limit_key[i], range_limit_key_len[i])");
    CHECK(sizes[in_j] == g_sz_val, "approximate_sizes: sizes[i] is the native's answer for range i");
  }
  CHECK(sizes[in_n] == before, "approximate_sizes: nothing is written past sizes[num_ranges - 1]");
  CHECK(L.mallocs == 1 && L.frees == 1 && L_live() == 0 && L_CLEAN, "approximate_sizes: the temporary range array is released, exactly once, after the native call");
  CANARY();
}

/* =========================================================== capi.compact_range */
void h_compact_range(void) {
  IN_SIZE(in_slen); IN_SIZE(in_llen); IN_BUF(sb, in_slen); IN_BUF(lb, in_llen);
  int has_s = nondet_int() ? 1 : 0, has_l = nondet_int() ? 1 : 0;
  reset();
  leveldb_compact_range(DB0, has_s ? (const char *)sb : NULL, in_slen, has_l ? (const char *)lb : NULL, in_llen);
  CHECK(ONLY(F_COMPACT) && g_db == DB0, "compact_range: exactly one native call, ldb_compact on the caller's handle");
  CHECK(g_has_k == has_s && g_has_v == has_l, "compact_range (C14): a NULL start / limit key means an open end - the native gets NULL, not an empty key - and a given key is passed");
  CHECK(!has_s || (g_kdata == sb && g_ksize == in_slen), "compact_range: begin is (start_key, start_key_len)");
  CHECK(!has_l || (g_vdata == lb && g_vsize == in_llen), "compact_range: end is (limit_key, limit_key_len)");
  CHECK(L.mallocs == 0 && L.frees == 0, "compact_range: the shim allocates / frees nothing");
  CANARY();
}

/* =================================================================== capi.batch */
void h_batch(void) {
  IN_INT(in_which); IN_SIZE(in_klen); IN_SIZE(in_vlen); IN_BUF(key, in_klen); IN_BUF(val, in_vlen); leveldb_writebatch_t *b;
  reset();
  switch (in_which) {
  case 0: b = leveldb_writebatch_create(); CHECK(ONLY(F_B_CREATE) && b == &g_bobj, "writebatch_create: the native batch (ldb_batch_create, once) is the handle"); break;
  case 1: leveldb_writebatch_destroy(&g_bobj); CHECK(ONLY(F_B_DESTROY) && g_batch == &g_bobj, "writebatch_destroy: ldb_batch_destroy, once, on the caller's batch"); break;
  case 2: leveldb_writebatch_clear(&g_bobj); CHECK(ONLY(F_B_RESET) && g_batch == &g_bobj, "writebatch_clear: ldb_batch_reset (empties the batch, keeps it usable), once, on the caller's batch"); break;
  case 3: leveldb_writebatch_put(&g_bobj, (const char *)key, in_klen, (const char *)val, in_vlen);
    CHECK(ONLY(F_B_PUT) && g_batch == &g_bobj, "writebatch_put: exactly one record is added, a value record (ldb_batch_put), to the caller's batch");
    CHECK(g_has_k && g_kdata == key && g_ksize == in_klen, "writebatch_put: the key slice is (key, klen)");
    CHECK(g_has_v && g_vdata == val && g_vsize == in_vlen, "writebatch_put: the value slice is (val, vlen)");
    break;
  case 4: leveldb_writebatch_delete(&g_bobj, (const char *)key, in_klen);
    CHECK(ONLY(F_B_DEL) && g_batch == &g_bobj, "writebatch_delete: exactly one record is added, a deletion (ldb_batch_del), to the caller's batch");
    CHECK(g_has_k && g_kdata == key && g_ksize == in_klen, "writebatch_delete: the key slice is (key, klen)");
    break;
  default: leveldb_writebatch_append(&g_bobj, &g_bobj2);
    CHECK(ONLY(F_B_APPEND) && g_batch == &g_bobj && g_batch2 == &g_bobj2, "writebatch_append: ldb_batch_append(destination, source), once, in that direction");
    break;
  }
  CHECK(L.mallocs == 0 && L.frees == 0 && g_aborts == 0, "writebatch wrappers: the shim allocates / frees nothing and does not abort");
  CANARY();
}

/* =========================================================== capi.batch_iterate */
static int g_cb_seq, g_cbp_calls, g_cbp_seq, g_cbd_calls, g_cbd_seq;
static void *g_cbp_state, *g_cbd_state; static const char *g_cbp_k, *g_cbp_v, *g_cbd_k; static size_t g_cbp_klen, g_cbp_vlen, g_cbd_klen;
static void cb_put(void *state, const char *k, size_t klen, const char *v, size_t vlen) {
  g_cbp_calls++; g_cbp_seq = ++g_cb_seq; g_cbp_state = state; g_cbp_k = k; g_cbp_klen = klen; g_cbp_v = v; g_cbp_vlen = vlen;
}
static void cb_del(void *state, const char *k, size_t klen) { g_cbd_calls++; g_cbd_seq = ++g_cb_seq; g_cbd_state = state; g_cbd_k = k; g_cbd_klen = klen; }
void h_batch_iterate(void) {
  static char st; IN_SIZE(in_n1); IN_SIZE(in_n2); IN_SIZE(in_n3); IN_BUF(k1, in_n1); IN_BUF(v1, in_n2); IN_BUF(k2, in_n3);
  int null_state = nondet_int() ? 1 : 0; void *state = null_state ? NULL : (void *)&st;
  reset();
  g_cb_seq = g_cbp_calls = g_cbp_seq = g_cbd_calls = g_cbd_seq = 0; g_cbp_state = g_cbd_state = &g_garbage; g_cbp_k = g_cbp_v = g_cbd_k = NULL; g_cbp_klen = g_cbp_vlen = g_cbd_klen = 0;
  g_k1.data = k1; g_k1.size = nondet_size(); g_k1.alloc = nondet_size();
  g_v1.data = v1; g_v1.size = nondet_size(); g_v1.alloc = nondet_size();
  g_k2.data = k2; g_k2.size = nondet_size(); g_k2.alloc = nondet_size();
  g_put_first = nondet_int() ? 1 : 0; g_n_records = nondet_int(); __CPROVER_assume(g_n_records >= 0 && g_n_records <= 2);
  leveldb_writebatch_iterate(&g_bobj, state, cb_put, cb_del);
  /* (a native status != OK - a corrupted batch - makes c.c abort(): those paths end in v_abort) */
  CHECK(g_rc == LDB_OK && g_aborts == 0, "writebatch_iterate: returns only when the native walked the whole batch");
  CHECK(ONLY(F_B_ITERATE) && g_batch == &g_bobj, "writebatch_iterate: exactly one native call, ldb_batch_iterate on the caller's batch");
  {
    int want_put = g_n_records == 2 || (g_n_records == 1 && g_put_first), want_del = g_n_records == 2 || (g_n_records == 1 && !g_put_first);
    CHECK(g_cbp_calls == want_put && g_cbd_calls == want_del, "writebatch_iterate (C04): each value record reaches the caller's put callback and each deletion the deleted callback, once (never the other one)");
    CHECK(!want_put || (g_cbp_state == state && g_cbp_k == (const char *)k1 && g_cbp_klen == g_k1.size && g_cbp_v == (const char *)v1 && g_cbp_vlen == g_v1.size),
          "writebatch_iterate: put(state, key, klen, value, vlen) gets the caller's state and exactly the record's key and value");
    CHECK(!want_del || (g_cbd_state == state && g_cbd_k == (const char *)k2 && g_cbd_klen == g_k2.size), "writebatch_iterate: deleted(state, key, klen) gets the caller's state and exactly the record's key");
    CHECK(g_n_records < 2 || ((g_cbp_seq < g_cbd_seq) == (g_put_first != 0)), "writebatch_iterate: the callbacks run in the order of the records");
    CHECK(g_h_shape_ok && g_h_frame_ok, "writebatch_iterate: the handler is complete (state, put, del) and no delivery changes the handler or the adapter's options - every further record is treated like these");
  }
  CHECK(L.mallocs == 0 && L.frees == 0, "writebatch_iterate: the shim allocates / frees nothing");
  CANARY();
}

/* ================================================================= capi.options */
enum { O_NONE, O_COMPARATOR, O_CREATE, O_ERROR, O_PARANOID, O_INFO_LOG, O_WBS, O_MAX_OPEN, O_CACHE, O_BLOCK_SIZE, O_RESTART, O_MAX_FILE, O_COMPRESSION, O_REUSE, O_FILTER, O_MMAP };
static int dbopt_same_except(const ldb_dbopt_t *a, const ldb_dbopt_t *b, int skip) {
  return (skip == O_COMPARATOR || a->comparator == b->comparator) && (skip == O_CREATE || a->create_if_missing == b->create_if_missing) &&
         (skip == O_ERROR || a->error_if_exists == b->error_if_exists) && (skip == O_PARANOID || a->paranoid_checks == b->paranoid_checks) &&
         (skip == O_INFO_LOG || a->info_log == b->info_log) && (skip == O_WBS || a->write_buffer_size == b->write_buffer_size) &&
         (skip == O_MAX_OPEN || a->max_open_files == b->max_open_files) && (skip == O_CACHE || a->block_cache == b->block_cache) &&
         (skip == O_BLOCK_SIZE || a->block_size == b->block_size) && (skip == O_RESTART || a->block_restart_interval == b->block_restart_interval) &&
         (skip == O_MAX_FILE || a->max_file_size == b->max_file_size) && (skip == O_COMPRESSION || a->compression == b->compression) &&
         (skip == O_REUSE || a->reuse_logs == b->reuse_logs) && (skip == O_FILTER || a->filter_policy == b->filter_policy) &&
         (skip == O_MMAP || a->use_mmap == b->use_mmap);
}
void h_options(void) {
  IN_INT(in_which); ldb_dbopt_t o, before; leveldb_options_t *p;
  uint8_t v8 = nondet_u8(); size_t vs = nondet_size(); int vi = nondet_int();
  static leveldb_comparator_t cmpobj; static leveldb_filterpolicy_t fpobj; static leveldb_env_t envobj;
  int use = nondet_int() ? 1 : 0;
  reset();
  o = nondet_dbopt(); before = o;
  switch (in_which) {
  case O_COMPARATOR: leveldb_options_set_comparator(&o, use ? &cmpobj : NULL);
    CHECK(o.comparator == (use ? &cmpobj.rep : NULL), "options_set_comparator: the DB orders keys with the native comparator embedded in the caller's comparator object (NULL = default)"); break;
  case O_FILTER: leveldb_options_set_filter_policy(&o, use ? &fpobj : NULL);
    CHECK(o.filter_policy == (use ? &fpobj.rep : NULL), "options_set_filter_policy: the native policy embedded in the caller's policy object (NULL = none)"); break;
  case O_CREATE: leveldb_options_set_create_if_missing(&o, v8); CHECK(o.create_if_missing == v8, "options_set_create_if_missing (C19/C20): sets create_if_missing to the value given"); break;
  case O_ERROR: leveldb_options_set_error_if_exists(&o, v8); CHECK(o.error_if_exists == v8, "options_set_error_if_exists (C20): sets error_if_exists to the value given"); break;
  case O_PARANOID: leveldb_options_set_paranoid_checks(&o, v8); CHECK(o.paranoid_checks == v8, "options_set_paranoid_checks (C12): sets paranoid_checks to the value given"); break;
  case O_INFO_LOG: leveldb_options_set_info_log(&o, use ? (leveldb_logger_t *)&g_logobj : NULL); CHECK(o.info_log == (use ? (struct ldb_logger_s *)&g_logobj : NULL), "options_set_info_log: sets info_log"); break;
  case O_WBS: leveldb_options_set_write_buffer_size(&o, vs); CHECK(o.write_buffer_size == vs, "options_set_write_buffer_size: sets write_buffer_size"); break;
  case O_MAX_OPEN: leveldb_options_set_max_open_files(&o, vi); CHECK(o.max_open_files == vi, "options_set_max_open_files: sets max_open_files"); break;
  case O_CACHE: leveldb_options_set_cache(&o, use ? LRU0 : NULL); CHECK(o.block_cache == (use ? LRU0 : NULL), "options_set_cache: sets block_cache"); break;
  case O_BLOCK_SIZE: leveldb_options_set_block_size(&o, vs); CHECK(o.block_size == vs, "options_set_block_size: sets block_size"); break;
  case O_RESTART: leveldb_options_set_block_restart_interval(&o, vi); CHECK(o.block_restart_interval == vi, "options_set_block_restart_interval: sets block_restart_interval"); break;
  case O_MAX_FILE: leveldb_options_set_max_file_size(&o, vs); CHECK(o.max_file_size == vs, "options_set_max_file_size: sets max_file_size"); break;
  case O_COMPRESSION: leveldb_options_set_compression(&o, vi); CHECK((int)o.compression == vi, "options_set_compression: sets compression (0 none, 1 snappy - the values of the C API constants)"); break;
  case O_NONE: leveldb_options_set_env(&o, use ? &envobj : NULL); break;      /* lcdb has one environment: documented no-op */
  default: /* create / destroy */
    p = leveldb_options_create();
    CHECK(L_is_live(p) && L_size_of(p) == sizeof(ldb_dbopt_t) && L.mallocs == 1, "options_create: a fresh heap object of the native options type");
    CHECK(p != ldb_dbopt_default && dbopt_same_except(p, ldb_dbopt_default, O_NONE), "options_create: a private COPY of the defaults (setters must not change the shared defaults)");
    leveldb_options_destroy(p);
    CHECK(L_was_freed(p) && L_live() == 0 && L_CLEAN, "options_destroy: releases exactly that object, once");
    in_which = O_NONE;
    break;
  }
  CHECK(dbopt_same_except(&o, &before, in_which >= O_NONE && in_which <= O_MMAP ? in_which : O_NONE), "options setters: every other field of the options object is left as it was");
  CHECK(dbopt_same_except(&g_dbopt_dflt, ldb_dbopt_default, O_NONE) && g_ncalls == 0, "options: no native call, the defaults object is not touched");
  CANARY();
}
void h_readoptions(void) {
  IN_INT(in_which); ldb_readopt_t o, before, d0; leveldb_readoptions_t *p; uint8_t v8 = nondet_u8();
  reset();
  o = nondet_readopt(); before = o; d0 = g_readopt_dflt;
  if (in_which == 0) {
    leveldb_readoptions_set_verify_checksums(&o, v8);
    CHECK(o.verify_checksums == v8 && o.fill_cache == before.fill_cache && o.snapshot == before.snapshot, "readoptions_set_verify_checksums (C12): sets verify_checksums, nothing else");
  } else if (in_which == 1) {
    leveldb_readoptions_set_fill_cache(&o, v8);
    CHECK(o.fill_cache == v8 && o.verify_checksums == before.verify_checksums && o.snapshot == before.snapshot, "readoptions_set_fill_cache: sets fill_cache, nothing else");
  } else {
    p = leveldb_readoptions_create();
    CHECK(L_is_live(p) && L_size_of(p) == sizeof(ldb_readopt_t) && L.mallocs == 1 && p != ldb_readopt_default, "readoptions_create: a fresh heap object of the native read-options type");
    CHECK(p->verify_checksums == d0.verify_checksums && p->fill_cache == d0.fill_cache && p->snapshot == d0.snapshot, "readoptions_create: a copy of the read defaults (no snapshot unless the caller sets one)");
    leveldb_readoptions_destroy(p);
    CHECK(L_was_freed(p) && L_live() == 0 && L_CLEAN, "readoptions_destroy: releases exactly that object, once");
  }
  CHECK(g_readopt_dflt.verify_checksums == d0.verify_checksums && g_readopt_dflt.fill_cache == d0.fill_cache && g_readopt_dflt.snapshot == d0.snapshot && g_ncalls == 0, "readoptions: no native call, the defaults are not touched");
  CANARY();
}
void h_writeoptions(void) {
  IN_INT(in_which); ldb_writeopt_t o, d0; leveldb_writeoptions_t *p; uint8_t v8 = nondet_u8();
  reset();
  o = nondet_writeopt(); d0 = g_writeopt_dflt;
  if (in_which == 0) {
    leveldb_writeoptions_set_sync(&o, v8);
    CHECK(o.sync == v8, "writeoptions_set_sync (C04): sync is exactly what the caller asked for (non-zero stays non-zero)");
  } else {
    p = leveldb_writeoptions_create();
    CHECK(L_is_live(p) && L_size_of(p) == sizeof(ldb_writeopt_t) && L.mallocs == 1 && p != ldb_writeopt_default, "writeoptions_create: a fresh heap object of the native write-options type");
    CHECK(p->sync == d0.sync, "writeoptions_create: a copy of the write defaults");
    leveldb_writeoptions_destroy(p);
    CHECK(L_was_freed(p) && L_live() == 0 && L_CLEAN, "writeoptions_destroy: releases exactly that object, once");
  }
  CHECK(g_writeopt_dflt.sync == d0.sync && g_ncalls == 0, "writeoptions: no native call, the defaults are not touched");
  CANARY();
}

/* ============================================================== capi.comparator */
static int g_nm_calls; static void *g_nm_state; static char g_nm_str[4];
static const char *cb_name(void *state) { g_nm_calls++; g_nm_state = state; return g_nm_str; }
static int g_cc_calls, g_cc_ret; static void *g_cc_state; static const char *g_cc_a, *g_cc_b; static size_t g_cc_alen, g_cc_blen;
static int cb_compare(void *state, const char *a, size_t alen, const char *b, size_t blen) {
  g_cc_calls++; g_cc_state = state; g_cc_a = a; g_cc_alen = alen; g_cc_b = b; g_cc_blen = blen; return g_cc_ret;
}
static int g_dt_calls, g_dt_obj_live; static void *g_dt_state; static const void *g_dt_obj;
static void cb_destructor(void *state) { g_dt_calls++; g_dt_state = state; g_dt_obj_live = L_is_live(g_dt_obj); }
void h_comparator(void) {
  static char st; int null_state = nondet_int() ? 1 : 0, use_dtor = nondet_int() ? 1 : 0; void *state = null_state ? NULL : (void *)&st;
  leveldb_comparator_t *c; ldb_slice_t x, y; int r; IN_SIZE(in_n1); IN_SIZE(in_n2); IN_BUF(xb, in_n1); IN_BUF(yb, in_n2);
  reset();
  g_nm_calls = 0; g_nm_state = &g_garbage; g_cc_calls = 0; g_cc_ret = nondet_int(); g_cc_state = &g_garbage; g_dt_calls = 0; g_dt_state = &g_garbage; g_dt_obj = NULL; g_dt_obj_live = 0;
  c = leveldb_comparator_create(state, use_dtor ? cb_destructor : NULL, cb_compare, cb_name);
  CHECK(L_is_live(c) && L_size_of(c) >= sizeof(ldb_comparator_t) && L.mallocs == 1 && g_ncalls == 0, "comparator_create: one fresh heap object, no native call");
  CHECK(g_nm_calls == 1 && g_nm_state == state && c->rep.name == g_nm_str, "comparator_create: the native comparator's name is what name(state) answered (it is stored in the MANIFEST and checked on open)");
  CHECK(c->rep.compare != NULL && c->rep.shortest_separator == NULL && c->rep.short_successor == NULL && c->rep.user_comparator == NULL,
        "comparator_create: compare is set; no key shortening (NULL = keep keys, always correct for a foreign order)");
  CHECK(g_cc_calls == 0 && g_dt_calls == 0, "comparator_create: compare / destructor are not called yet");
  x.data = xb; x.size = nondet_size(); x.alloc = nondet_size(); y.data = yb; y.size = nondet_size(); y.alloc = nondet_size();
  r = c->rep.compare(&c->rep, &x, &y);
  CHECK(g_cc_calls == 1 && g_cc_state == state, "comparator adapter: one call of the caller's compare with the caller's state");
  CHECK(g_cc_a == (const char *)xb && g_cc_alen == x.size && g_cc_b == (const char *)yb && g_cc_blen == y.size, "comparator adapter (C01): compare(state, a, alen, b, blen) gets both keys unchanged and in order");
  CHECK(r == g_cc_ret, "comparator adapter: the caller's result is passed through unchanged");
  g_dt_obj = c;
  leveldb_comparator_destroy(c);
  CHECK(g_dt_calls == (use_dtor ? 1 : 0) && (!use_dtor || (g_dt_state == state && g_dt_obj_live)), "comparator_destroy: the caller's destructor (if any) runs once, with the caller's state, before the object is released");
  CHECK(L_was_freed(c) && L_live() == 0 && L_CLEAN && g_ncalls == 0, "comparator_destroy: releases exactly the object, once");
  CANARY();
}

/* ============================================================ capi.filterpolicy */
static int g_km_calls; static uint8_t g_km_ret; static void *g_km_state; static const char *g_km_key, *g_km_filter; static size_t g_km_klen, g_km_flen;
static uint8_t cb_key_match(void *state, const char *key, size_t length, const char *filter, size_t filter_length) {
  g_km_calls++; g_km_state = state; g_km_key = key; g_km_klen = length; g_km_filter = filter; g_km_flen = filter_length; return g_km_ret;
}
/* create_filter callback: checks the arrays it is handed at one arbitrary index */
static int g_cf_calls, g_cf_num, g_cf_arrays_ok, g_cf_len_ptr_ok; static void *g_cf_state; static size_t g_cf_j; static const ldb_slice_t *g_cf_keys; static size_t g_cf_nkeys;
static char *g_cf_ret; static size_t g_cf_retlen, g_cf_retalloc;
static char *cb_create_filter(void *state, const char *const *key_array, const size_t *key_lengths, int num_keys, size_t *filter_length) {
  g_cf_calls++; g_cf_state = state; g_cf_num = num_keys;
  g_cf_arrays_ok = (g_cf_j >= g_cf_nkeys) || (key_array[g_cf_j] == (const char *)g_cf_keys[g_cf_j].data && key_lengths[g_cf_j] == g_cf_keys[g_cf_j].size);
  g_cf_len_ptr_ok = filter_length != NULL;
  g_cf_ret = L_alloc(g_cf_retalloc);         /* "a malloc()ed array" that the shim must free */
  *filter_length = g_cf_retlen;
  return g_cf_ret;
}
static void filter_ghost_reset(void) {
  g_nm_calls = 0; g_nm_state = &g_garbage; g_dt_calls = 0; g_dt_state = &g_garbage; g_dt_obj = NULL; g_dt_obj_live = 0;
  g_km_calls = 0; g_km_ret = nondet_u8(); g_km_state = &g_garbage; g_km_key = g_km_filter = NULL; g_km_klen = g_km_flen = 0;
  g_cf_calls = 0; g_cf_num = -1; g_cf_arrays_ok = 0; g_cf_len_ptr_ok = 0; g_cf_state = &g_garbage; g_cf_ret = NULL;
  g_bi_bloom = NULL; g_bi_bits = -1; g_bi_k = nondet_size();
  g_ba_dst = NULL; g_ba_data = NULL; g_ba_size = 0; g_ba_data_live = 0; g_ba_byte = 0;
}
void h_filterpolicy(void) {
  static char st; int null_state = nondet_int() ? 1 : 0, use_dtor = nondet_int() ? 1 : 0, bloom = nondet_int() ? 1 : 0; void *state = null_state ? NULL : (void *)&st;
  leveldb_filterpolicy_t *p; ldb_slice_t f, k; int r; IN_INT(in_bits); IN_SIZE(in_n1); IN_SIZE(in_n2); IN_BUF(fb, in_n1); IN_BUF(kb, in_n2);
  reset(); filter_ghost_reset();
  if (bloom) {
    p = leveldb_filterpolicy_create_bloom(in_bits);
    CHECK(L_is_live(p) && L_size_of(p) >= sizeof(ldb_bloom_t) && L.mallocs == 1, "filterpolicy_create_bloom: one fresh heap object");
    CHECK(ONLY(F_BLOOM_INIT) && g_bi_bloom == &p->rep && g_bi_bits == in_bits, "filterpolicy_create_bloom: the embedded native policy is the built-in bloom filter with the caller's bits_per_key");
    CHECK(p->rep.name == &g_dflt_name && p->rep.build == dflt_build && p->rep.match == dflt_match && p->rep.bits_per_key == (size_t)in_bits && p->rep.k == g_bi_k, "filterpolicy_create_bloom: the built-in policy is used as initialised (name, build, match, parameters)");
    CHECK(p->destructor == NULL, "filterpolicy_create_bloom: no caller destructor");
    use_dtor = 0;
  } else {
    p = leveldb_filterpolicy_create(state, use_dtor ? cb_destructor : NULL, cb_create_filter, cb_key_match, cb_name);
    CHECK(L_is_live(p) && L_size_of(p) >= sizeof(ldb_bloom_t) && L.mallocs == 1, "filterpolicy_create: one fresh heap object");
    CHECK(g_nm_calls == 1 && g_nm_state == state && p->rep.name == g_nm_str, "filterpolicy_create: the native policy's name is what name(state) answered (it names the filter block in every table)");
    CHECK(p->rep.build != NULL && p->rep.build != dflt_build && p->rep.match != NULL && p->rep.match != dflt_match && p->rep.user_policy == NULL, "filterpolicy_create: build / match are the adapters, not the built-in bloom filter");
    CHECK(g_km_calls == 0 && g_cf_calls == 0 && g_dt_calls == 0, "filterpolicy_create: no callback besides name runs yet");
    f.data = fb; f.size = nondet_size(); f.alloc = nondet_size(); k.data = kb; k.size = nondet_size(); k.alloc = nondet_size();
    r = p->rep.match(&p->rep, &f, &k);
    CHECK(g_km_calls == 1 && g_km_state == state, "filter match adapter: one call of the caller's key_match with the caller's state");
    CHECK(g_km_key == (const char *)kb && g_km_klen == k.size && g_km_filter == (const char *)fb && g_km_flen == f.size, "filter match adapter (C01): key_match(state, key, length, filter, filter_length) - key and filter not exchanged, lengths with their pointers");
    CHECK((r != 0) == (g_km_ret != 0), "filter match adapter (C01): the caller's answer is passed through (a 'may match' is never turned into 'no match')");
  }
  g_dt_obj = p;
  leveldb_filterpolicy_destroy(p);
  CHECK(g_dt_calls == (use_dtor ? 1 : 0) && (!use_dtor || (g_dt_state == state && g_dt_obj_live)), "filterpolicy_destroy: the caller's destructor (if any) runs once, with the caller's state, before the object is released");
  CHECK(L_was_freed(p) && L_live() == 0 && L_CLEAN, "filterpolicy_destroy: releases exactly the object, once");
  CANARY();
}

/* ============================================================ capi.filter_build */
#ifndef BUILD_MAX
#define BUILD_MAX 0
#endif
void h_filter_build(void) {
  static char st; static leveldb_filterpolicy_t fp; static ldb_buffer_t dst; ldb_slice_t *keys;
  IN_SIZE(in_n); IN_SIZE(in_j);
  reset(); filter_ghost_reset();
  ASSUME(in_n <= 0x7fffffff);             /* the C API passes the key count as an int */
#if BUILD_MAX
  ASSUME(in_n <= BUILD_MAX);
#endif
  keys = malloc(in_n * sizeof(ldb_slice_t)); ASSUME(keys != NULL);
  fp.state = &st; fp.create_filter = cb_create_filter; fp.key_match = cb_key_match; fp.destructor = NULL; fp.rep.state = &fp;
  g_cf_j = in_j; g_cf_keys = keys; g_cf_nkeys = in_n;
  g_cf_retlen = nondet_size(); g_cf_retalloc = nondet_size(); ASSUME(g_cf_retalloc >= 1 && g_cf_retlen <= g_cf_retalloc);
  bloom_build(&fp.rep, &dst, keys, in_n);
  CHECK(g_cf_calls == 1 && g_cf_state == (void *)&st && g_cf_len_ptr_ok, "filter build adapter: one call of the caller's create_filter with the caller's state");
  CHECK(g_cf_num == (int)in_n, "filter build adapter (C01): num_keys is the number of keys of the block");
  CHECK(g_cf_arrays_ok, "filter build adapter (C01): key_array[i] / key_lengths[i] are pointer and length of key i, for every i");
  CHECK(ONLY(F_BUF_APPEND) && g_ba_dst == &dst, "filter build adapter: exactly one native call, the filter is APPENDED to dst");
  CHECK(g_ba_data == (const uint8_t *)g_cf_ret && g_ba_size == g_cf_retlen && g_ba_data_live, "filter build adapter: what is appended is the caller's filter, with the length the caller reported, while it is still allocated");
  CHECK(L_was_freed(g_cf_ret), "filter build adapter: the caller's malloc()ed filter is released");
  CHECK(L.mallocs == 3 && L.frees == 3 && L_live() == 0 && L_CLEAN, "filter build adapter: both temporary arrays and the filter are released exactly once, nothing leaks");
  CANARY();
}

/* ==================================================================== capi.misc */
void h_misc(void) {
  IN_INT(in_which); IN_SIZE(in_cap); leveldb_cache_t *c; leveldb_env_t *env; char *d; void *blk; int use = nondet_int() ? 1 : 0;
  reset();
  g_td_ok = nondet_int() ? 1 : 0; g_td_buf = NULL; g_td_size = 0; g_td_fits = 0;
  switch (in_which) {
  case 0: c = leveldb_cache_create_lru(in_cap); CHECK(ONLY(F_LRU_CREATE) && g_lru_cap == in_cap && c == LRU0, "cache_create_lru: the native LRU cache of the capacity asked for is the handle"); break;
  case 1: leveldb_cache_destroy(LRU0); CHECK(ONLY(F_LRU_DESTROY) && g_db == (const void *)LRU0, "cache_destroy: ldb_lru_destroy, once, on the caller's cache"); break;
  case 2: env = leveldb_create_default_env();
    CHECK(env != NULL && L_is_live(env) && L.mallocs == 1 && g_ncalls == 0, "create_default_env: a non-NULL heap token");
    leveldb_env_destroy(env);
    CHECK(L_was_freed(env) && L_live() == 0 && L_CLEAN, "env_destroy: releases the token, once");
    break;
  case 3: { static leveldb_env_t envobj;
    d = leveldb_env_get_test_directory(use ? &envobj : NULL);
    if (!use) CHECK(d == NULL && g_ncalls == 0 && L.mallocs == 0, "env_get_test_directory: NULL env gives NULL");
    else {
      CHECK(ONLY(F_TESTDIR) && g_td_fits && g_td_size > 0, "env_get_test_directory: the native writes into a live buffer at least as large as the size it is told");
      CHECK(!g_td_ok || (d == g_td_buf && L_is_live(d) && L_live() == 1), "env_get_test_directory: on success the buffer is returned, owned by the caller");
      CHECK(g_td_ok || (d == NULL && L_live() == 0 && L_was_freed(g_td_buf)), "env_get_test_directory: on failure NULL is returned and the buffer is released");
      CHECK(L_CLEAN, "env_get_test_directory: nothing freed twice");
    } }
    break;
  case 4:
    blk = use ? L_alloc(in_cap) : NULL;
    leveldb_free(blk);
    CHECK(g_ncalls == 0 && L_live() == 0 && L_CLEAN && L.frees == (use ? 1 : 0) && (!use || L_was_freed(blk)), "leveldb_free: releases the block it is given, once (NULL is a no-op)");
    break;
  default:
    CHECK(leveldb_major_version() == 1 && leveldb_minor_version() == 23, "version: the LevelDB API level this shim mirrors (1.23)");
    CHECK(g_ncalls == 0 && L.mallocs == 0, "version: pure");
    break;
  }
  CANARY();
}
