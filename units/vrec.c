/* units/vrec.c - ldb_versions_recover + ldb_versions_reuse_manifest + read_current_filename (src/version_set.c)
 * Properties: C05 (R2, R6), C17, C20 (comparator mismatch), C13 (G4), C18 (CURRENT parsing).
 *
 * The real version_set.c is included unmodified.  The MANIFEST reader is a ghost
 * model obeying the contract proved in log.read; ldb_edit_import delivers an
 * arbitrary edit per record (arbitrary, unbounded number of records); builder /
 * version construction are frame contracts (trusted.json).
 */
#include "verif.h"
int nondet_int(void);
uint64_t nondet_u64(void);
size_t nondet_size(void);

#include "version_set.c"

ldb_versions_t *g_vs;
/* reader model */
unsigned long g_recs_left; long g_rec_idx;
uint64_t g_last_end, g_file_size;
int g_reader_inited, g_reader_checksum; uint64_t g_reader_initial;
int g_seq_rc;
struct ldb_rfile_s { int dummy; } g_rfile_obj;
struct ldb_wfile_s { int dummy; } g_reuse_file;
ldb_writer_t g_reuse_writer;
/* what the sequence of edits says (maintained by the import model) */
int g_any_log, g_any_prev, g_any_next, g_any_seq; uint64_t g_last_log, g_last_prev, g_last_next, g_last_seq;
int g_import_fail, g_cmp_mismatch;      /* some record failed to decode / carried a different comparator name */
unsigned g_applies, g_imports;
/* outputs */
int g_installed; unsigned g_wcreate_calls, g_append_calls; uint64_t g_wcreate_len;
int g_current_rc; size_t g_current_len; int g_current_ends_nl;
char g_cmpname[2];
ldb_comparator_t g_ucmp;
static ldb_dbopt_t g_opts;
ldb_version_t g_version_obj;

/* CURRENT */
int ldb_current_filename(char *buf, size_t size, const char *dbname) { buf[0] = 'C'; buf[1] = 0; return 1; }
static char g_curbuf[24];
int ldb_read_file(const char *fname, ldb_buffer_t *data) {
  g_current_rc = nondet_int();
  if (g_current_rc != LDB_OK) return g_current_rc;
  g_current_len = nondet_size(); __CPROVER_assume(g_current_len <= sizeof(g_curbuf));
  data->data = (uint8_t *)g_curbuf; data->size = g_current_len; data->alloc = sizeof(g_curbuf);
  g_current_ends_nl = g_current_len > 0 && g_curbuf[g_current_len - 1] == '\n';
  return LDB_OK;
}
void ldb_buffer_init(ldb_buffer_t *z) { z->data = NULL; z->size = 0; z->alloc = 0; }
void ldb_buffer_clear(ldb_buffer_t *z) { }
int ldb_join(char *zp, size_t zn, const char *xp, const char *yp) { zp[0] = 'J'; zp[1] = 0; return nondet_int() ? 1 : 0; }
void ldb_log(ldb_logger_t *logger, const char *fmt, ...) { }
const char *ldb_strerror(int code) { return "e"; }
ldb_slice_t ldb_string(const char *xp) { ldb_slice_t s; s.data = (uint8_t *)xp; s.size = 1; s.alloc = 0; return s; }

int ldb_seqfile_create(const char *filename, ldb_rfile_t **file) { g_seq_rc = nondet_int(); if (g_seq_rc == LDB_OK) *file = &g_rfile_obj; return g_seq_rc; }
void ldb_rfile_destroy(ldb_rfile_t *file) { }
void ldb_reader_init(ldb_reader_t *lr, ldb_rfile_t *file, ldb_reporter_t *reporter, int checksum, uint64_t initial_offset) {
  g_reader_inited++; g_reader_checksum = checksum; g_reader_initial = initial_offset; lr->reporter = reporter; lr->last_end = 0; g_last_end = 0;
}
void ldb_reader_clear(ldb_reader_t *lr) { }
int ldb_reader_read_record(ldb_reader_t *lr, ldb_slice_t *record, ldb_buffer_t *scratch) {
  uint64_t adv;
  if (nondet_int()) { __CPROVER_assert(lr->reporter->corruption == report_corruption && lr->reporter->status != NULL, "MANIFEST damage is always fatal: the reporter writes the caller's status"); report_corruption(lr->reporter, nondet_size(), LDB_CORRUPTION); }
  if (g_recs_left == 0) return 0;
  g_recs_left--;
  adv = nondet_u64(); __CPROVER_assume(adv >= 7 && adv <= g_file_size - g_last_end);
  g_last_end += adv; lr->last_end = g_last_end;
  g_rec_idx++;
  return 1;
}
void ldb_slice_init(ldb_slice_t *z) { z->data = NULL; z->size = 0; z->alloc = 0; }
void ldb_edit_init(ldb_edit_t *e) { e->has_comparator = e->has_log_number = e->has_prev_log_number = e->has_next_file_number = e->has_last_sequence = 0; }
void ldb_edit_clear(ldb_edit_t *e) { }
/* one arbitrary decoded edit per record */
int ldb_edit_import(ldb_edit_t *e, const ldb_slice_t *src) {
  g_imports++;
  if (nondet_int()) { g_import_fail = 1; return 0; }
  e->has_comparator = nondet_int() ? 1 : 0;
  e->has_log_number = nondet_int() ? 1 : 0; e->log_number = nondet_u64();
  e->has_prev_log_number = nondet_int() ? 1 : 0; e->prev_log_number = nondet_u64();
  e->has_next_file_number = nondet_int() ? 1 : 0; e->next_file_number = nondet_u64();
  e->has_last_sequence = nondet_int() ? 1 : 0; e->last_sequence = nondet_u64();
  __CPROVER_assume(e->log_number < (1ull << 62) && e->prev_log_number < (1ull << 62) && e->next_file_number < (1ull << 62));
  if (e->has_log_number) { g_any_log = 1; g_last_log = e->log_number; }
  if (e->has_prev_log_number) { g_any_prev = 1; g_last_prev = e->prev_log_number; }
  if (e->has_next_file_number) { g_any_next = 1; g_last_next = e->next_file_number; }
  if (e->has_last_sequence) { g_any_seq = 1; g_last_seq = e->last_sequence; }
  return 1;
}
int ldb_slice_equal(const ldb_slice_t *x, const ldb_slice_t *y) { int eq = nondet_int() ? 1 : 0; if (!eq) g_cmp_mismatch = 1; return eq; }

/* MANIFEST reuse */
const char *ldb_basename(const char *fname) { return fname; }
int ldb_parse_filename(ldb_filetype_t *type, uint64_t *num, const char *name) { if (nondet_int()) { *type = (ldb_filetype_t)(nondet_int() & 7); *num = nondet_u64(); return 1; } return 0; }
int ldb_file_size(const char *filename, uint64_t *size) { int rc = nondet_int(); if (rc == LDB_OK) *size = g_file_size; return rc; }
int ldb_appendfile_create(const char *filename, ldb_wfile_t **file) { int rc = nondet_int(); g_append_calls++; if (rc == LDB_OK) *file = &g_reuse_file; return rc; }
ldb_writer_t *ldb_writer_create(ldb_wfile_t *file, uint64_t length) {
  __CPROVER_assert(file == &g_reuse_file && length == g_file_size, "reused MANIFEST: the writer continues at the real end of the file");
  __CPROVER_assert(g_last_end == g_file_size, "a MANIFEST is reopened for appending only if its last complete record ends exactly at the end of the file (no torn or damaged tail to append after)");
  g_wcreate_calls++; g_wcreate_len = length;
  return &g_reuse_writer;
}

/* frame contracts (trusted.json) */
ldb_version_t *c_version_create(ldb_versions_t *vset) __CPROVER_requires(1) __CPROVER_assigns() __CPROVER_ensures(__CPROVER_return_value == &g_version_obj);
void c_builder_init(builder_t *b, ldb_versions_t *vset, ldb_version_t *base) __CPROVER_requires(1) __CPROVER_assigns(*b) __CPROVER_ensures(1);
void c_builder_apply(builder_t *b, const ldb_edit_t *edit) __CPROVER_requires(1) __CPROVER_assigns(*b, g_applies) __CPROVER_ensures(g_applies == __CPROVER_old(g_applies) + 1);
void c_builder_save_to(builder_t *b, ldb_version_t *v) __CPROVER_requires(1) __CPROVER_assigns() __CPROVER_ensures(1);
void c_builder_clear(builder_t *b) __CPROVER_requires(1) __CPROVER_assigns(*b) __CPROVER_ensures(1);
void c_versions_finalize(ldb_versions_t *vset, ldb_version_t *v) __CPROVER_requires(1) __CPROVER_assigns() __CPROVER_ensures(1);
void c_versions_append_version(ldb_versions_t *vset, ldb_version_t *v)
__CPROVER_requires(v == &g_version_obj)
__CPROVER_assigns(vset->current, g_installed)
__CPROVER_ensures(g_installed == 1 && vset->current == v)
;

void h_recover(void) {
  ldb_versions_t *vs = malloc(sizeof(*vs));
  int save_manifest = 0, rc;
  ldb_version_t *cur0; uint64_t next0, mfn0, seq0, log0, prev0;
  __CPROVER_assume(vs != NULL);
  g_vs = vs; vs->options = &g_opts; vs->dbname = "d";
  g_cmpname[0] = 'c'; g_cmpname[1] = 0; g_ucmp.name = g_cmpname; vs->icmp.user_comparator = &g_ucmp;
  vs->descriptor_file = NULL; vs->descriptor_log = NULL;
  __CPROVER_assume(g_opts.reuse_logs == 0 || g_opts.reuse_logs == 1);
  __CPROVER_assume(vs->next_file_number < (1ull << 62));
  g_rec_idx = 0; g_reader_inited = 0; g_last_end = 0; g_any_log = g_any_prev = g_any_next = g_any_seq = 0; g_import_fail = g_cmp_mismatch = 0;
  g_applies = g_imports = 0; g_last_log = g_last_prev = g_last_next = g_last_seq = 0; g_installed = 0; g_wcreate_calls = g_append_calls = 0;
  __CPROVER_assume(g_recs_left < (1ul << 30) && g_file_size < (1ull << 60));
  cur0 = vs->current; next0 = vs->next_file_number; mfn0 = vs->manifest_file_number; seq0 = vs->last_sequence; log0 = vs->log_number; prev0 = vs->prev_log_number;

  rc = ldb_versions_recover(vs, &save_manifest);

  if (g_current_rc == LDB_OK && !g_current_ends_nl) CHECK(rc == LDB_CORRUPTION && g_reader_inited == 0, "CURRENT that does not end in a newline (torn write) is rejected before any MANIFEST is read");
  if (g_reader_inited) CHECK(g_reader_inited == 1 && g_reader_checksum == 1 && g_reader_initial == 0, "the MANIFEST reader verifies checksums and starts at offset 0");
  if (rc == LDB_OK) {
    CHECK(g_installed == 1 && vs->current == &g_version_obj, "OK: the recovered version is installed");
    CHECK(!g_import_fail && !g_cmp_mismatch, "OK only if every record decoded and no record names a different comparator");
    CHECK(g_any_next && g_any_log && g_any_seq, "OK only if the MANIFEST supplied next-file, log-number and last-sequence");
    CHECK(g_applies == g_imports && g_imports == (unsigned)g_rec_idx, "every record read is decoded and applied exactly once, in file order");
    CHECK((g_wcreate_calls || vs->manifest_file_number == g_last_next) && vs->last_sequence == g_last_seq && vs->log_number == g_last_log && vs->prev_log_number == (g_any_prev ? g_last_prev : 0),
          "replay reproduces the counters of the LAST edit that set them (a new MANIFEST gets number next_file, a reused one keeps the number in its name; prev_log defaults to 0)");
    CHECK(vs->next_file_number == g_last_next + 1, "the allocator restarts right above the recorded next-file number (which becomes the MANIFEST number)");
    if (g_last_next > g_last_log && g_last_next > (g_any_prev ? g_last_prev : 0)) CHECK(vs->next_file_number > vs->log_number && vs->next_file_number > vs->prev_log_number, "for a consistent MANIFEST (next-file above the log numbers, guaranteed by ver.apply) no file number is reused");
    CHECK(g_recs_left == 0, "OK only after the whole MANIFEST was read");
    if (g_wcreate_calls) CHECK(g_opts.reuse_logs && save_manifest == 0 && vs->descriptor_log == &g_reuse_writer && vs->descriptor_file == &g_reuse_file, "reused MANIFEST becomes the descriptor log; no new MANIFEST is requested");
    else CHECK(save_manifest == 1 && vs->descriptor_log == NULL, "not reused: a new MANIFEST is requested");
  } else {
    CHECK(!g_installed && vs->current == cur0, "failure: no version is installed");
    CHECK(vs->next_file_number == next0 || vs->next_file_number > next0, "failure: allocator never moves backwards");
    CHECK(vs->manifest_file_number == mfn0 && vs->last_sequence == seq0 && vs->log_number == log0 && vs->prev_log_number == prev0, "failure: counters untouched");
    CHECK(g_wcreate_calls == 0 && g_append_calls == 0, "failure: the MANIFEST is not reopened for writing (nothing on disk is modified)");
  }
  if (g_cmp_mismatch) CHECK(rc != LDB_OK && !g_installed, "comparator name mismatch: refused, nothing installed");
  CANARY();
}
