/* units/ver.c - proof units for the computational kernels of src/version_set.c
 * (group "ver": C01, C05, C06, C11, C13, C14, C19)
 *
 * The real version_set.c is included unmodified (all statics visible).
 * Everything version_set.c calls but these units never reach (env, table
 * cache, log reader/writer, mutex, edits, iterators) is left without a body:
 * dfcc turns a call to a bodiless function into a failing
 * "undefined function should be unreachable" obligation.
 */
#include "verif.h"
#include "version_set.c"

/* Allocator model (util/internal.c is not linked): ldb_realloc hands out
 * 64-byte chunks and grows in place, so that vector / buffer growth never
 * needs a symbolic-length memcpy.  A request above 64 bytes fails. */
#define CHUNK 64
void *ldb_malloc(size_t size) { void *p = malloc(size); __CPROVER_assume(p != NULL); return p; }
void *ldb_realloc(void *ptr, size_t size) {
  __CPROVER_assert(size <= CHUNK, "allocator model: request fits the 64-byte chunk");
  if (ptr == NULL) { void *p = malloc(CHUNK); __CPROVER_assume(p != NULL); return p; }
  return ptr;
}
void ldb_free(void *ptr) { if (ptr != NULL) free(ptr); }

/* ======================================================================
 * ver.numbers - the file-number allocator (C13, C05, C19)
 * ====================================================================== */

/* new_file_number: returns the old counter, counter strictly increases by 1.
 * No wrap: 2^64 allocations are unreachable, stated as a precondition. */
uint64_t c_versions_new_file_number(ldb_versions_t *vset)
__CPROVER_requires(__CPROVER_rw_ok(vset, sizeof(*vset)))
__CPROVER_requires(vset->next_file_number < UINT64_MAX)
__CPROVER_assigns(vset->next_file_number)
__CPROVER_ensures(__CPROVER_return_value == __CPROVER_old(vset->next_file_number))
__CPROVER_ensures(vset->next_file_number == __CPROVER_old(vset->next_file_number) + 1)
__CPROVER_ensures(vset->next_file_number > __CPROVER_return_value)
;

/* reuse_file_number: undoes exactly the latest allocation, otherwise no-op */
#define POST_REUSE(next1, next0, n) \
  (((next0) == (n) + 1) ? (next1) == (n) : (next1) == (next0))
void c_versions_reuse_file_number(ldb_versions_t *vset, uint64_t file_number)
__CPROVER_requires(__CPROVER_rw_ok(vset, sizeof(*vset)))
__CPROVER_requires(file_number < UINT64_MAX) /* numbers come from the allocator, which never reaches 2^64-1 */
__CPROVER_assigns(vset->next_file_number)
__CPROVER_ensures(POST_REUSE(vset->next_file_number, __CPROVER_old(vset->next_file_number), file_number))
;

/* mark_file_number: afterwards next > number, never moves backwards,
 * moves only as far as needed */
#define POST_MARK(next1, next0, n) \
  ((next1) > (n) && (next1) >= (next0) && ((next0) > (n) ? (next1) == (next0) : (next1) == (n) + 1))
void c_versions_mark_file_number(ldb_versions_t *vset, uint64_t number)
__CPROVER_requires(__CPROVER_rw_ok(vset, sizeof(*vset)))
__CPROVER_requires(number < UINT64_MAX)
__CPROVER_assigns(vset->next_file_number)
__CPROVER_ensures(POST_MARK(vset->next_file_number, __CPROVER_old(vset->next_file_number), number))
;

static ldb_versions_t g_vset;

void h_new_file_number(void) {
  IN_U64(in_next);
  ASSUME(in_next < UINT64_MAX);
  g_vset.next_file_number = in_next;
  ldb_versions_new_file_number(&g_vset);
  CANARY();
}
void h_reuse_file_number(void) {
  IN_U64(in_next); IN_U64(in_n);
  ASSUME(in_n < UINT64_MAX);
  g_vset.next_file_number = in_next;
  ldb_versions_reuse_file_number(&g_vset, in_n);
  CANARY();
}
void h_mark_file_number(void) {
  IN_U64(in_next); IN_U64(in_n);
  ASSUME(in_n < UINT64_MAX);
  g_vset.next_file_number = in_next;
  ldb_versions_mark_file_number(&g_vset, in_n);
  CANARY();
}
/* allocator protocol on the real functions: two allocations are distinct and
 * increasing; reuse of the latest gives it out again; reuse of an older one
 * is ignored; after mark(n) no allocation returns a number <= n */
void h_numbers_protocol(void) {
  IN_U64(in_next); IN_U64(in_mark);
  uint64_t a, b, c, d;
  ASSUME(in_next < UINT64_MAX - 8 && in_mark < UINT64_MAX - 8);
  g_vset.next_file_number = in_next;
  a = ldb_versions_new_file_number(&g_vset);
  b = ldb_versions_new_file_number(&g_vset);
  CHECK(a == in_next && b == a + 1, "allocator: consecutive allocations are strictly increasing");
  ldb_versions_reuse_file_number(&g_vset, a);
  CHECK(g_vset.next_file_number == b + 1, "allocator: reuse of an older number is ignored (no number is handed out twice)");
  ldb_versions_reuse_file_number(&g_vset, b);
  c = ldb_versions_new_file_number(&g_vset);
  CHECK(c == b, "allocator: reuse undoes exactly the latest allocation");
  ldb_versions_mark_file_number(&g_vset, in_mark);
  d = ldb_versions_new_file_number(&g_vset);
  CHECK(d > in_mark && d > c, "allocator: after mark(n) every allocation is > n and > all earlier allocations");
  CANARY();
}

/* ======================================================================
 * Shared bounded model of a version (used by ver.find ... ver.live)
 * ======================================================================
 * Real comparators: the byte-wise user comparator (util/comparator.c) and the
 * internal-key comparator (dbformat.c) are included unmodified.  User keys
 * are one byte wide; an internal key is the 9 bytes  uk ‖ LE64(seq<<8|type).
 * The harness builds every key from a (uk, tag) pair of ghost scalars and
 * stores the bytes itself (mk_ikey); the specifications are written on the
 * ghost scalars, independently of the comparators:
 *    a <_ik b  iff  uk(a) < uk(b), or uk(a) = uk(b) and tag(a) > tag(b).
 * Contracts identify their arguments with the model objects (g_ver, level).
 */
#include "util/comparator.c"
#include "dbformat.c"

#define MAXF 6
/* every file and every key is an object of its own (cheap for CBMC: constant offsets only) */
static ldb_filemeta_t fm_0_0, fm_0_1, fm_0_2, fm_0_3, fm_0_4, fm_0_5, fm_1_0, fm_1_1, fm_1_2, fm_1_3, fm_1_4, fm_1_5, fm_2_0, fm_2_1, fm_2_2, fm_2_3, fm_2_4, fm_2_5, fm_3_0, fm_3_1, fm_3_2, fm_3_3, fm_3_4, fm_3_5, fm_4_0, fm_4_1, fm_4_2, fm_4_3, fm_4_4, fm_4_5, fm_5_0, fm_5_1, fm_5_2, fm_5_3, fm_5_4, fm_5_5, fm_6_0, fm_6_1, fm_6_2, fm_6_3, fm_6_4, fm_6_5;
static uint8_t ks_0_0[9], kl_0_0[9], ks_0_1[9], kl_0_1[9], ks_0_2[9], kl_0_2[9], ks_0_3[9], kl_0_3[9], ks_0_4[9], kl_0_4[9], ks_0_5[9], kl_0_5[9], ks_1_0[9], kl_1_0[9], ks_1_1[9], kl_1_1[9], ks_1_2[9], kl_1_2[9], ks_1_3[9], kl_1_3[9], ks_1_4[9], kl_1_4[9], ks_1_5[9], kl_1_5[9], ks_2_0[9], kl_2_0[9], ks_2_1[9], kl_2_1[9], ks_2_2[9], kl_2_2[9], ks_2_3[9], kl_2_3[9], ks_2_4[9], kl_2_4[9], ks_2_5[9], kl_2_5[9], ks_3_0[9], kl_3_0[9], ks_3_1[9], kl_3_1[9], ks_3_2[9], kl_3_2[9], ks_3_3[9], kl_3_3[9], ks_3_4[9], kl_3_4[9], ks_3_5[9], kl_3_5[9], ks_4_0[9], kl_4_0[9], ks_4_1[9], kl_4_1[9], ks_4_2[9], kl_4_2[9], ks_4_3[9], kl_4_3[9], ks_4_4[9], kl_4_4[9], ks_4_5[9], kl_4_5[9], ks_5_0[9], kl_5_0[9], ks_5_1[9], kl_5_1[9], ks_5_2[9], kl_5_2[9], ks_5_3[9], kl_5_3[9], ks_5_4[9], kl_5_4[9], ks_5_5[9], kl_5_5[9], ks_6_0[9], kl_6_0[9], ks_6_1[9], kl_6_1[9], ks_6_2[9], kl_6_2[9], ks_6_3[9], kl_6_3[9], ks_6_4[9], kl_6_4[9], ks_6_5[9], kl_6_5[9];
static void *g_items0[MAXF], *g_items1[MAXF], *g_items2[MAXF], *g_items3[MAXF], *g_items4[MAXF], *g_items5[MAXF], *g_items6[MAXF];
static ldb_filemeta_t * const g_fmp[LDB_NUM_LEVELS][MAXF] = {
  {&fm_0_0, &fm_0_1, &fm_0_2, &fm_0_3, &fm_0_4, &fm_0_5},
  {&fm_1_0, &fm_1_1, &fm_1_2, &fm_1_3, &fm_1_4, &fm_1_5},
  {&fm_2_0, &fm_2_1, &fm_2_2, &fm_2_3, &fm_2_4, &fm_2_5},
  {&fm_3_0, &fm_3_1, &fm_3_2, &fm_3_3, &fm_3_4, &fm_3_5},
  {&fm_4_0, &fm_4_1, &fm_4_2, &fm_4_3, &fm_4_4, &fm_4_5},
  {&fm_5_0, &fm_5_1, &fm_5_2, &fm_5_3, &fm_5_4, &fm_5_5},
  {&fm_6_0, &fm_6_1, &fm_6_2, &fm_6_3, &fm_6_4, &fm_6_5}};
static uint8_t * const g_ksp[LDB_NUM_LEVELS][MAXF] = {
  {ks_0_0, ks_0_1, ks_0_2, ks_0_3, ks_0_4, ks_0_5},
  {ks_1_0, ks_1_1, ks_1_2, ks_1_3, ks_1_4, ks_1_5},
  {ks_2_0, ks_2_1, ks_2_2, ks_2_3, ks_2_4, ks_2_5},
  {ks_3_0, ks_3_1, ks_3_2, ks_3_3, ks_3_4, ks_3_5},
  {ks_4_0, ks_4_1, ks_4_2, ks_4_3, ks_4_4, ks_4_5},
  {ks_5_0, ks_5_1, ks_5_2, ks_5_3, ks_5_4, ks_5_5},
  {ks_6_0, ks_6_1, ks_6_2, ks_6_3, ks_6_4, ks_6_5}};
static uint8_t * const g_klp[LDB_NUM_LEVELS][MAXF] = {
  {kl_0_0, kl_0_1, kl_0_2, kl_0_3, kl_0_4, kl_0_5},
  {kl_1_0, kl_1_1, kl_1_2, kl_1_3, kl_1_4, kl_1_5},
  {kl_2_0, kl_2_1, kl_2_2, kl_2_3, kl_2_4, kl_2_5},
  {kl_3_0, kl_3_1, kl_3_2, kl_3_3, kl_3_4, kl_3_5},
  {kl_4_0, kl_4_1, kl_4_2, kl_4_3, kl_4_4, kl_4_5},
  {kl_5_0, kl_5_1, kl_5_2, kl_5_3, kl_5_4, kl_5_5},
  {kl_6_0, kl_6_1, kl_6_2, kl_6_3, kl_6_4, kl_6_5}};
static void **const g_itemsp[LDB_NUM_LEVELS] = {g_items0, g_items1, g_items2, g_items3, g_items4, g_items5, g_items6};
static uint8_t g_suk[LDB_NUM_LEVELS][MAXF], g_luk[LDB_NUM_LEVELS][MAXF];     /* ghost: user key of smallest / largest */
static uint64_t g_stag[LDB_NUM_LEVELS][MAXF], g_ltag[LDB_NUM_LEVELS][MAXF];  /* ghost: seq<<8|type of smallest / largest */
static uint64_t g_num[LDB_NUM_LEVELS][MAXF], g_fsz[LDB_NUM_LEVELS][MAXF];    /* ghost: file number, size */
static size_t g_n[LDB_NUM_LEVELS];                                            /* ghost: files per level */
static ldb_version_t g_ver;
static ldb_dbopt_t g_opt;

#define LT_(uk1, t1, uk2, t2) ((uk1) < (uk2) || ((uk1) == (uk2) && (t1) > (t2)))
#define LE_(uk1, t1, uk2, t2) (!LT_(uk2, t2, uk1, t1))

static void mk_ikey(ldb_buffer_t *b, uint8_t *st, uint8_t uk, uint64_t tag) {
  st[0] = uk;
  st[1] = (uint8_t)tag; st[2] = (uint8_t)(tag >> 8); st[3] = (uint8_t)(tag >> 16); st[4] = (uint8_t)(tag >> 24);
  st[5] = (uint8_t)(tag >> 32); st[6] = (uint8_t)(tag >> 40); st[7] = (uint8_t)(tag >> 48); st[8] = (uint8_t)(tag >> 56);
  b->data = st; b->size = 9; b->alloc = 0;
}
static void mk_file(int level, size_t i) {
  ldb_filemeta_t *f = g_fmp[level][i];
  g_suk[level][i] = nondet_u8(); g_luk[level][i] = nondet_u8();
  g_stag[level][i] = nondet_u64(); g_ltag[level][i] = nondet_u64();
  g_num[level][i] = nondet_u64(); g_fsz[level][i] = nondet_u64();
  /* metadata keys are valid internal keys: type byte is 0 (deletion) or 1 (value) */
  __CPROVER_assume((g_stag[level][i] & 0xff) <= 1 && (g_ltag[level][i] & 0xff) <= 1);
  f->refs = 1; f->allowed_seeks = nondet_int(); f->number = g_num[level][i]; f->file_size = g_fsz[level][i];
  mk_ikey(&f->smallest, g_ksp[level][i], g_suk[level][i], g_stag[level][i]);
  mk_ikey(&f->largest, g_klp[level][i], g_luk[level][i], g_ltag[level][i]);
  g_itemsp[level][i] = f;
}
/* n files with arbitrary keys, numbers and sizes in `level` (n <= MAXF) */
static void mk_level(int level, size_t n) {
  if (n > 0) mk_file(level, 0);
  if (n > 1) mk_file(level, 1);
  if (n > 2) mk_file(level, 2);
  if (n > 3) mk_file(level, 3);
  if (n > 4) mk_file(level, 4);
  if (n > 5) mk_file(level, 5);
  g_n[level] = n;
  g_ver.files[level].items = g_itemsp[level];
  g_ver.files[level].length = n;
  g_ver.files[level].alloc = MAXF;
}
static void mk_empty(int l) { g_n[l] = 0; g_ver.files[l].items = g_itemsp[l]; g_ver.files[l].length = 0; g_ver.files[l].alloc = MAXF; }
static void mk_version(void) {
  g_opt.max_file_size = nondet_size();
  g_vset.options = &g_opt;
  g_vset.table_cache = NULL;
  ldb_ikc_init(&g_vset.icmp, &bytewise_comparator);
  g_ver.vset = &g_vset; g_ver.next = &g_ver; g_ver.prev = &g_ver; g_ver.refs = 1;
  g_ver.file_to_compact = NULL; g_ver.file_to_compact_level = -1;
  mk_empty(0); mk_empty(1); mk_empty(2); mk_empty(3); mk_empty(4); mk_empty(5); mk_empty(6);
}
/* levels > 0: files sorted and disjoint as internal-key ranges */
#define DISJ_AT(l, i) (((i) >= g_n[l] || LE_(g_suk[l][i], g_stag[l][i], g_luk[l][i], g_ltag[l][i])) && \
                       ((i) + 1 >= g_n[l] || LT_(g_luk[l][i], g_ltag[l][i], g_suk[l][(i) + 1], g_stag[l][(i) + 1])))
#define DISJOINT_SORTED(l) (DISJ_AT(l,0) && DISJ_AT(l,1) && DISJ_AT(l,2) && DISJ_AT(l,3) && DISJ_AT(l,4) && DISJ_AT(l,5))

/* ======================================================================
 * ver.find - find_file is a lower bound on `largest` (C01, C14); n <= 6
 * ====================================================================== */
static int g_lvl;             /* the level whose vector is passed */
static ldb_buffer_t g_key; static uint8_t g_key_b[9]; static uint8_t g_kuk; static uint64_t g_ktag;  /* probe key + ghost */
#define SORTED_L_AT(l, i) ((i) + 1 >= g_n[l] || LE_(g_luk[l][i], g_ltag[l][i], g_luk[l][(i) + 1], g_ltag[l][(i) + 1]))
#define SORTED_BY_LARGEST(l) (SORTED_L_AT(l,0) && SORTED_L_AT(l,1) && SORTED_L_AT(l,2) && SORTED_L_AT(l,3) && SORTED_L_AT(l,4))
/* r is the smallest index with key <=_ik largest(files[r]), or n */
#define POST_FIND(r, l) ((r) >= 0 && (size_t)(r) <= g_n[l] && \
  ((size_t)(r) == g_n[l] || LE_(g_kuk, g_ktag, g_luk[l][r], g_ltag[l][r])) && \
  ((r) == 0 || LT_(g_luk[l][(r) - 1], g_ltag[l][(r) - 1], g_kuk, g_ktag)))

int c_find_file(const ldb_comparator_t *icmp, const ldb_vector_t *files, const ldb_slice_t *key)
__CPROVER_requires(icmp == &g_vset.icmp && g_lvl >= 0 && g_lvl < LDB_NUM_LEVELS && files == &g_ver.files[g_lvl] && key == &g_key)
__CPROVER_requires(g_n[g_lvl] <= MAXF && SORTED_BY_LARGEST(g_lvl))
__CPROVER_assigns()
__CPROVER_ensures(POST_FIND(__CPROVER_return_value, g_lvl))
;

void h_find_file(void) {
  IN_SIZE(in_n);
  ASSUME(in_n <= MAXF);
  mk_version(); mk_level(1, in_n); g_lvl = 1;
  g_kuk = nondet_u8(); g_ktag = nondet_u64(); mk_ikey(&g_key, g_key_b, g_kuk, g_ktag);
  find_file(&g_vset.icmp, &g_ver.files[1], &g_key);
  CANARY();
}

/* ======================================================================
 * ver.overlap - closed-interval overlap on user keys (C01, C14); n <= 4
 * ====================================================================== */
#define OVF 4
static uint8_t g_lo_b[1], g_hi_b[1];
static ldb_slice_t g_lo, g_hi;
static int g_has_lo, g_has_hi;   /* 0: the bound is NULL = -infinity / +infinity */
static uint8_t g_lo_v, g_hi_v;
#define LO_PTR (g_has_lo ? &g_lo : (const ldb_slice_t *)NULL)
#define HI_PTR (g_has_hi ? &g_hi : (const ldb_slice_t *)NULL)
/* file i of level l overlaps [lo, hi] (closed, on user keys) */
#define SPEC_OV_AT(l, i) ((i) < g_n[l] && !(g_has_lo && g_lo_v > g_luk[l][i]) && !(g_has_hi && g_hi_v < g_suk[l][i]))
#define SPEC_OVERLAP(l) (SPEC_OV_AT(l,0) || SPEC_OV_AT(l,1) || SPEC_OV_AT(l,2) || SPEC_OV_AT(l,3))

/* after_file / before_file: the key is passed as "lo" resp. "hi"; file = g_fmp[g_lvl][0] */
int c_after_file(const ldb_comparator_t *ucmp, const ldb_slice_t *user_key, const ldb_filemeta_t *f)
__CPROVER_requires(ucmp == &bytewise_comparator && user_key == LO_PTR && g_lvl >= 0 && g_lvl < LDB_NUM_LEVELS && f == g_fmp[g_lvl][0])
__CPROVER_assigns()
__CPROVER_ensures(__CPROVER_return_value == ((g_has_lo && g_lo_v > g_luk[g_lvl][0]) ? 1 : 0))
;
int c_before_file(const ldb_comparator_t *ucmp, const ldb_slice_t *user_key, const ldb_filemeta_t *f)
__CPROVER_requires(ucmp == &bytewise_comparator && user_key == HI_PTR && g_lvl >= 0 && g_lvl < LDB_NUM_LEVELS && f == g_fmp[g_lvl][0])
__CPROVER_assigns()
__CPROVER_ensures(__CPROVER_return_value == ((g_has_hi && g_hi_v < g_suk[g_lvl][0]) ? 1 : 0))
;
int c_some_file_overlaps_range(const ldb_comparator_t *icmp, int disjoint_sorted_files, const ldb_vector_t *files,
                               const ldb_slice_t *smallest_user_key, const ldb_slice_t *largest_user_key)
__CPROVER_requires(icmp == &g_vset.icmp && g_lvl >= 0 && g_lvl < LDB_NUM_LEVELS && files == &g_ver.files[g_lvl])
__CPROVER_requires(smallest_user_key == LO_PTR && largest_user_key == HI_PTR && g_n[g_lvl] <= OVF)
__CPROVER_requires(disjoint_sorted_files ==> DISJOINT_SORTED(g_lvl))
__CPROVER_assigns()
__CPROVER_ensures(__CPROVER_return_value == (SPEC_OVERLAP(g_lvl) ? 1 : 0))
;
int c_version_overlap_in_level(ldb_version_t *ver, int level, const ldb_slice_t *smallest_user_key, const ldb_slice_t *largest_user_key)
__CPROVER_requires(ver == &g_ver && level >= 0 && level < LDB_NUM_LEVELS && g_n[level] <= OVF)
__CPROVER_requires(smallest_user_key == LO_PTR && largest_user_key == HI_PTR)
__CPROVER_requires(level > 0 ==> DISJOINT_SORTED(level))
__CPROVER_assigns()
__CPROVER_ensures(__CPROVER_return_value == (SPEC_OVERLAP(level) ? 1 : 0))
;

static void mk_bounds(void) {
  g_has_lo = nondet_int() ? 1 : 0; g_has_hi = nondet_int() ? 1 : 0;
  g_lo_v = nondet_u8(); g_hi_v = nondet_u8();
  g_lo_b[0] = g_lo_v; g_lo.data = g_lo_b; g_lo.size = 1; g_lo.alloc = 0;
  g_hi_b[0] = g_hi_v; g_hi.data = g_hi_b; g_hi.size = 1; g_hi.alloc = 0;
}
void h_after_file(void) {
  mk_version(); mk_level(1, 1); g_lvl = 1; mk_bounds();
  after_file(&bytewise_comparator, LO_PTR, g_fmp[1][0]);
  CANARY();
}
void h_before_file(void) {
  mk_version(); mk_level(1, 1); g_lvl = 1; mk_bounds();
  before_file(&bytewise_comparator, HI_PTR, g_fmp[1][0]);
  CANARY();
}
void h_some_file_overlaps(void) {
  IN_SIZE(in_n); IN_INT(in_disjoint);
  ASSUME(in_n <= OVF);
  mk_version(); mk_level(1, in_n); g_lvl = 1; mk_bounds();
  some_file_overlaps_range(&g_vset.icmp, in_disjoint, &g_ver.files[1], LO_PTR, HI_PTR);
  CANARY();
}
void h_overlap_in_level(void) {
  IN_SIZE(in_n); IN_INT(in_level);
  ASSUME(in_n <= OVF && in_level >= 0 && in_level < LDB_NUM_LEVELS);
  mk_version(); mk_bounds(); g_lvl = in_level;
  switch (in_level) {
    case 0: mk_level(0, in_n); break; case 1: mk_level(1, in_n); break; case 2: mk_level(2, in_n); break;
    case 3: mk_level(3, in_n); break; case 4: mk_level(4, in_n); break; case 5: mk_level(5, in_n); break;
    default: mk_level(6, in_n); break;
  }
  ldb_version_overlap_in_level(&g_ver, in_level, LO_PTR, HI_PTR);
  CANARY();
}

/* ======================================================================
 * ver.picklevel - flush output never skips an overlapping level (C01, C14)
 * ======================================================================
 * ldb_version_overlap_in_level is replaced by its contract (ver.overlap.level);
 * get_overlapping_inputs / total_file_size run for real on <= 2 files in the
 * grandparent levels 2 and 3.
 */
#define PLF 2
#define GP_AT(l, i) (SPEC_OV_AT(l, i) ? (int64_t)g_fsz[l][i] : (int64_t)0)
#define GP_BYTES(l) (GP_AT(l, 0) + GP_AT(l, 1))            /* bytes of level l overlapping [lo, hi] */
#define GP_LIMIT ((int64_t)(10 * (uint64_t)g_opt.max_file_size))
/* may the output move from level l to level l+1 ? */
#define PUSH_OK(l) (!SPEC_OVERLAP((l) + 1) && GP_BYTES((l) + 2) <= GP_LIMIT)
#define SPEC_PICK (SPEC_OVERLAP(0) ? 0 : !PUSH_OK(0) ? 0 : !PUSH_OK(1) ? 1 : 2)

int c_pick_level(ldb_version_t *ver, const ldb_slice_t *small_key, const ldb_slice_t *large_key)
__CPROVER_requires(ver == &g_ver && small_key == &g_lo && large_key == &g_hi && g_has_lo && g_has_hi)
__CPROVER_requires(g_n[0] <= PLF && g_n[1] <= PLF && g_n[2] <= PLF && g_n[3] <= PLF)
__CPROVER_requires(DISJOINT_SORTED(1) && DISJOINT_SORTED(2) && DISJOINT_SORTED(3))
__CPROVER_assigns()
/* safety (C14/C01): never above the cap, never past or onto an overlapping level */
__CPROVER_ensures(__CPROVER_return_value >= 0 && __CPROVER_return_value <= LDB_MAX_MEM_COMPACT_LEVEL)
__CPROVER_ensures(__CPROVER_return_value > 0 ==> (!SPEC_OVERLAP(0) && !SPEC_OVERLAP(1)))
__CPROVER_ensures(__CPROVER_return_value > 1 ==> !SPEC_OVERLAP(2))
/* grandparent overlap limit respected at every step taken */
__CPROVER_ensures(__CPROVER_return_value > 0 ==> GP_BYTES(2) <= GP_LIMIT)
__CPROVER_ensures(__CPROVER_return_value > 1 ==> GP_BYTES(3) <= GP_LIMIT)
/* and exactly as deep as those rules allow */
__CPROVER_ensures(__CPROVER_return_value == SPEC_PICK)
;

void h_pick_level(void) {
  IN_SIZE(in_n0); IN_SIZE(in_n1); IN_SIZE(in_n2); IN_SIZE(in_n3);
  ASSUME(in_n0 <= PLF && in_n1 <= PLF && in_n2 <= PLF && in_n3 <= PLF);
  mk_version(); mk_bounds();
  mk_level(0, in_n0); mk_level(1, in_n1); mk_level(2, in_n2); mk_level(3, in_n3);
  ASSUME(g_has_lo && g_has_hi);
  /* sizes small enough that the int64 sums in total_file_size cannot overflow */
  ASSUME(g_opt.max_file_size <= ((size_t)1 << 50));
  ASSUME(g_fsz[2][0] <= ((uint64_t)1 << 50) && g_fsz[2][1] <= ((uint64_t)1 << 50) && g_fsz[3][0] <= ((uint64_t)1 << 50) && g_fsz[3][1] <= ((uint64_t)1 << 50));
  ldb_version_pick_level_for_memtable_output(&g_ver, &g_lo, &g_hi);
  CANARY();
}

/* ======================================================================
 * ver.foreach - Version::Get consults tables in recency order (C01, C06, C11)
 * ======================================================================
 * ldb_tables_get is a stub: it checks the file it is asked for against the
 * expected visit sequence (computed by the harness from the ghost scalars),
 * then nondeterministically fails, finds nothing, or hands one stored entry
 * (arbitrary bytes, 0..10 key bytes, possibly corrupt) to the callback.  It
 * classifies the entry itself, from the LevelDB internal-key format.
 */
#define GETF0 3
#define GETFL 2
#define D_NONE 0
#define D_ERR 1
#define D_VALUE 2
#define D_DEL 3
#define D_CORRUPT 4
static ldb_tables_t *g_cache;          /* opaque token */
static ldb_readopt_t g_ropt;
static ldb_lkey_t g_lk; static uint8_t g_uk; static uint64_t g_lseq;
static uint64_t g_exp_num[GETF0 + 6], g_exp_sz[GETF0 + 6]; static ldb_filemeta_t *g_exp_f[GETF0 + 6]; static int g_exp_lvl[GETF0 + 6];
static size_t g_exp_n, g_calls;
static int g_decided, g_rc;
static uint8_t g_ek[10], g_ev[2]; static size_t g_vn;

int ldb_tables_get(ldb_tables_t *cache, const ldb_readopt_t *options, uint64_t file_number, uint64_t file_size,
                   const ldb_slice_t *k, void *arg, void (*handle_result)(void *, const ldb_slice_t *, const ldb_slice_t *)) {
  int rc;
  __CPROVER_assert(cache == g_cache && options == &g_ropt, "get: table cache and read options are passed through");
  __CPROVER_assert(g_decided == D_NONE, "get: no table is consulted after a decisive answer (value, tombstone, corruption, error)");
  __CPROVER_assert(g_calls < g_exp_n && file_number == g_exp_num[g_calls] && file_size == g_exp_sz[g_calls],
                   "get: tables are consulted in recency order - level-0 files containing the key by descending number, then the single candidate of each level 1..6");
  __CPROVER_assert(k->size == 9 && k->data == g_lk.kstart, "get: the table is searched for the lookup key's internal key");
  g_calls++;
  rc = nondet_int();
  if (rc != LDB_OK) { g_decided = D_ERR; g_rc = rc; return rc; }
  if (nondet_int()) {
    /* the table has an entry at or after the internal key: arbitrary stored bytes */
    ldb_slice_t ek, ev;
    size_t en = nondet_size();
    __CPROVER_assume(en <= 10);
    g_vn = nondet_size();
    __CPROVER_assume(g_vn <= 2);
    ek.data = g_ek; ek.size = en; ek.alloc = 0;
    ev.data = g_ev; ev.size = g_vn; ev.alloc = 0;
    /* internal-key format: user key, then LE64(seq << 8 | type); type 0 = deletion, 1 = value */
    if (en < 8 || g_ek[en - 8] > 1)
      g_decided = D_CORRUPT;
    else if (en == 9 && g_ek[0] == g_uk)
      g_decided = g_ek[en - 8] == 1 ? D_VALUE : D_DEL;
    handle_result(arg, &ek, &ev);
  }
  return LDB_OK;
}

#define VAL_IS_ENTRY(value) ((value)->size == g_vn && (g_vn < 1 || (value)->data[0] == g_ev[0]) && (g_vn < 2 || (value)->data[1] == g_ev[1]))
int c_version_get(ldb_version_t *ver, const ldb_readopt_t *options, const ldb_lkey_t *k, ldb_buffer_t *value, ldb_getstats_t *stats)
__CPROVER_requires(ver == &g_ver && options == &g_ropt && k == &g_lk && __CPROVER_rw_ok(stats, sizeof(*stats)))
__CPROVER_requires(value == NULL || (__CPROVER_rw_ok(value, sizeof(*value)) && value->data == NULL && value->size == 0 && value->alloc == 0))
__CPROVER_requires(g_calls == 0 && g_decided == D_NONE)
__CPROVER_assigns(stats->seek_file, stats->seek_file_level, g_calls, g_decided, g_rc, g_vn)
__CPROVER_assigns(value != NULL: value->data, value->size, value->alloc)
/* nothing decisive: every expected table was consulted, result NOTFOUND */
__CPROVER_ensures(g_decided == D_NONE ==> (__CPROVER_return_value == LDB_NOTFOUND && g_calls == g_exp_n))
__CPROVER_ensures(g_decided == D_ERR ==> __CPROVER_return_value == g_rc)
__CPROVER_ensures(g_decided == D_DEL ==> __CPROVER_return_value == LDB_NOTFOUND)
__CPROVER_ensures(g_decided == D_CORRUPT ==> __CPROVER_return_value == LDB_CORRUPTION)
__CPROVER_ensures(g_decided == D_VALUE ==> (__CPROVER_return_value == LDB_OK && (value == NULL || VAL_IS_ENTRY(value))))
__CPROVER_ensures(g_decided != D_VALUE && value != NULL ==> (value->size == 0 && value->data == NULL))
/* seek accounting: the first table read is charged iff a second one had to be read */
__CPROVER_ensures(g_calls >= 2 ? (stats->seek_file == g_exp_f[0] && stats->seek_file_level == g_exp_lvl[0])
                               : (stats->seek_file == NULL && stats->seek_file_level == -1))
;

/* expected visit sequence, from the ghost scalars only */
static void exp_push(int l, size_t i) {
  g_exp_num[g_exp_n] = g_num[l][i]; g_exp_sz[g_exp_n] = g_fsz[l][i]; g_exp_f[g_exp_n] = g_fmp[l][i]; g_exp_lvl[g_exp_n] = l; g_exp_n++;
}
#define L0_HAS(i) ((i) < g_n[0] && g_suk[0][i] <= g_uk && g_uk <= g_luk[0][i])
static void exp_level0(void) {
  /* selection by descending file number among the level-0 files whose user range contains the key */
  int done0 = 0, done1 = 0, done2 = 0, round;
  for (round = 0; round < GETF0; round++) {
    int c0 = L0_HAS(0) && !done0, c1 = L0_HAS(1) && !done1, c2 = L0_HAS(2) && !done2;
    if (c0 && (!c1 || g_num[0][0] > g_num[0][1]) && (!c2 || g_num[0][0] > g_num[0][2])) { exp_push(0, 0); done0 = 1; }
    else if (c1 && (!c2 || g_num[0][1] > g_num[0][2])) { exp_push(0, 1); done1 = 1; }
    else if (c2) { exp_push(0, 2); done2 = 1; }
  }
}
static void exp_level(int l) {
  /* first file whose largest key is >= the lookup internal key (uk, seq<<8|1); consulted iff its smallest user key <= uk */
  uint64_t tag = (g_lseq << 8) | 1;
  size_t i;
  if (g_n[l] > 0 && LE_(g_uk, tag, g_luk[l][0], g_ltag[l][0])) i = 0;
  else if (g_n[l] > 1 && LE_(g_uk, tag, g_luk[l][1], g_ltag[l][1])) i = 1;
  else return;
  if (g_suk[l][i] <= g_uk) exp_push(l, i);
}

void h_version_get(void) {
  IN_SIZE(in_n0); IN_SIZE(in_n1); IN_SIZE(in_n2); IN_SIZE(in_n3); IN_SIZE(in_n4); IN_SIZE(in_n5); IN_SIZE(in_n6); IN_INT(in_want_value);
  ldb_buffer_t value; ldb_getstats_t stats;
  ASSUME(in_n0 <= GETF0 && in_n1 <= GETFL && in_n2 <= GETFL && in_n3 <= GETFL && in_n4 <= GETFL && in_n5 <= GETFL && in_n6 <= GETFL);
  mk_version();
  mk_level(0, in_n0); mk_level(1, in_n1); mk_level(2, in_n2); mk_level(3, in_n3); mk_level(4, in_n4); mk_level(5, in_n5); mk_level(6, in_n6);
  ASSUME(DISJOINT_SORTED(1) && DISJOINT_SORTED(2) && DISJOINT_SORTED(3) && DISJOINT_SORTED(4) && DISJOINT_SORTED(5) && DISJOINT_SORTED(6));
  /* level-0 files have distinct numbers (the allocator never hands a number out twice: ver.numbers) */
  ASSUME(g_num[0][0] != g_num[0][1] && g_num[0][0] != g_num[0][2] && g_num[0][1] != g_num[0][2]);
  g_cache = (ldb_tables_t *)&g_ropt; g_vset.table_cache = g_cache;
  /* lookup key: varint32(9) uk LE64(seq<<8|1) */
  g_uk = nondet_u8(); g_lseq = nondet_u64(); ASSUME(g_lseq <= LDB_MAX_SEQUENCE);
  g_lk.space[0] = 9;
  { ldb_buffer_t t; mk_ikey(&t, g_lk.space + 1, g_uk, (g_lseq << 8) | 1); }
  g_lk.start = g_lk.space; g_lk.kstart = g_lk.space + 1; g_lk.end = g_lk.space + 10;
  g_exp_n = 0; exp_level0(); exp_level(1); exp_level(2); exp_level(3); exp_level(4); exp_level(5); exp_level(6);
  g_calls = 0; g_decided = D_NONE; g_rc = 0; g_vn = 0;
  value.data = NULL; value.size = 0; value.alloc = 0;
  ldb_version_get(&g_ver, &g_ropt, &g_lk, in_want_value ? &value : NULL, &stats);
  CANARY();
}

static ldb_slice_t g_uks, g_iks;
static void mk_lookup(void) {
  g_uk = nondet_u8(); g_lseq = nondet_u64(); ASSUME(g_lseq <= LDB_MAX_SEQUENCE);
  g_lk.space[0] = 9;
  { ldb_buffer_t t; mk_ikey(&t, g_lk.space + 1, g_uk, (g_lseq << 8) | 1); }
  g_lk.start = g_lk.space; g_lk.kstart = g_lk.space + 1; g_lk.end = g_lk.space + 10;
  g_uks.data = g_lk.space + 1; g_uks.size = 1; g_uks.alloc = 0;
  g_iks.data = g_lk.space + 1; g_iks.size = 9; g_iks.alloc = 0;
}

/* the harnesses below call the static function ldb_version_for_each_overlapping directly: units that only go through
 * ldb_version_get define VER_NO_DIRECT_FOREACH so that they keep compiling when that function's signature changes */
#ifndef VER_NO_DIRECT_FOREACH
/* ---- ver.foreach proper: visit order of for_each_overlapping with a recording callback ---- */
static int g_stopped; static int g_cb_arg;
static int fe_cb(void *arg, int level, ldb_filemeta_t *f) {
  __CPROVER_assert(arg == &g_cb_arg, "for_each_overlapping: callback argument passed through");
  __CPROVER_assert(!g_stopped, "for_each_overlapping: no file is visited after the callback asked to stop");
  __CPROVER_assert(g_calls < g_exp_n && f == g_exp_f[g_calls] && level == g_exp_lvl[g_calls],
                   "for_each_overlapping: files are visited in recency order - level-0 files containing the key by descending number, then the single candidate of each level 1..6");
  g_calls++;
  if (nondet_int()) return 1;
  g_stopped = 1;
  return 0;
}
void c_for_each_overlapping(ldb_version_t *ver, const ldb_slice_t *user_key, const ldb_slice_t *internal_key, void *arg,
                            int (*func)(void *, int, ldb_filemeta_t *))
__CPROVER_requires(ver == &g_ver && user_key == &g_uks && internal_key == &g_iks && arg == &g_cb_arg && func == fe_cb)
__CPROVER_requires(g_calls == 0 && g_stopped == 0)
__CPROVER_assigns(g_calls, g_stopped)
/* unless the callback stops the walk, every expected file is visited (NOTFOUND only after all were consulted) */
__CPROVER_ensures(!g_stopped ==> g_calls == g_exp_n)
;
static void for_each_common(size_t in_n0, size_t in_n1, size_t in_n2, size_t in_n3, size_t in_n4, size_t in_n5, size_t in_n6) {
  ASSUME(in_n0 <= GETF0 && in_n1 <= GETFL && in_n2 <= GETFL && in_n3 <= GETFL && in_n4 <= GETFL && in_n5 <= GETFL && in_n6 <= GETFL);
  mk_version();
  mk_level(0, in_n0); mk_level(1, in_n1); mk_level(2, in_n2); mk_level(3, in_n3); mk_level(4, in_n4); mk_level(5, in_n5); mk_level(6, in_n6);
  ASSUME(DISJOINT_SORTED(1) && DISJOINT_SORTED(2) && DISJOINT_SORTED(3) && DISJOINT_SORTED(4) && DISJOINT_SORTED(5) && DISJOINT_SORTED(6));
  ASSUME(g_num[0][0] != g_num[0][1] && g_num[0][0] != g_num[0][2] && g_num[0][1] != g_num[0][2]);
  mk_lookup();
  g_exp_n = 0; exp_level0(); exp_level(1); exp_level(2); exp_level(3); exp_level(4); exp_level(5); exp_level(6);
  g_calls = 0; g_stopped = 0;
  ldb_version_for_each_overlapping(&g_ver, &g_uks, &g_iks, &g_cb_arg, fe_cb);
}
/* level 0 in depth: <= 3 overlapping files, sorted by the real ldb_vector_sort; deeper levels empty */
void h_for_each_l0(void) {
  IN_SIZE(in_n0);
  for_each_common(in_n0, 0, 0, 0, 0, 0, 0);
  CANARY();
}
/* quick variants with smaller bounds */
void h_for_each_levels_q(void) {
  IN_SIZE(in_n1); IN_SIZE(in_n6);
  for_each_common(0, in_n1, 0, 0, 0, 0, in_n6);
  CANARY();
}
/* deeper levels: <= 1 file in level 0, <= 2 files in each of the levels 1, 2 and 6, levels 3..5 empty */
void h_for_each_levels(void) {
  IN_SIZE(in_n0); IN_SIZE(in_n1); IN_SIZE(in_n2); IN_SIZE(in_n6);
  ASSUME(in_n0 <= 1);
  for_each_common(in_n0, in_n1, in_n2, 0, 0, 0, in_n6);
  CANARY();
}

/* ---- ver.getstate: one table consulted, outcome mapping and seek accounting ---- */
static getstate_t g_gs; static ldb_getstats_t g_st; static ldb_buffer_t g_val;
static ldb_filemeta_t *g_old_last, *g_old_seek; static int g_old_last_lvl, g_old_seek_lvl, g_gs_lvl, g_want_val;
int c_getstate_match(void *arg, int level, ldb_filemeta_t *f)
__CPROVER_requires(arg == &g_gs && f == g_fmp[1][0] && level == g_gs_lvl)
__CPROVER_requires(g_calls == 0 && g_decided == D_NONE && g_gs.saver.state == S_NOTFOUND && g_gs.found == 0 && g_gs.status == LDB_OK)
__CPROVER_assigns(g_gs.status, g_gs.found, g_gs.last_file_read, g_gs.last_file_read_level, g_gs.saver.state, g_st.seek_file, g_st.seek_file_level,
                  g_calls, g_decided, g_rc, g_vn, g_val.data, g_val.size, g_val.alloc)
__CPROVER_ensures(g_calls == 1)  /* exactly this table was consulted (the stub checks which) */
/* keep searching only if the table had nothing for this user key */
__CPROVER_ensures(__CPROVER_return_value == (g_decided == D_NONE ? 1 : 0))
__CPROVER_ensures(g_decided == D_NONE ==> (g_gs.found == 0 && g_gs.status == LDB_OK))
__CPROVER_ensures(g_decided == D_ERR ==> (g_gs.found == 1 && g_gs.status == g_rc))
__CPROVER_ensures(g_decided == D_VALUE ==> (g_gs.found == 1 && g_gs.status == LDB_OK && (!g_want_val || VAL_IS_ENTRY(&g_val))))
__CPROVER_ensures(g_decided == D_DEL ==> g_gs.found == 0)                 /* a tombstone ends the search with NOTFOUND */
__CPROVER_ensures(g_decided == D_CORRUPT ==> (g_gs.found == 1 && g_gs.status == LDB_CORRUPTION))
__CPROVER_ensures(g_decided != D_VALUE ==> g_val.size == 0)
/* seek accounting */
__CPROVER_ensures(g_gs.last_file_read == f && g_gs.last_file_read_level == level)
__CPROVER_ensures((g_old_seek == NULL && g_old_last != NULL) ? (g_st.seek_file == g_old_last && g_st.seek_file_level == g_old_last_lvl)
                                                            : (g_st.seek_file == g_old_seek && g_st.seek_file_level == g_old_seek_lvl))
;
void h_getstate_match(void) {
  IN_INT(in_level); IN_INT(in_has_last); IN_INT(in_has_seek); IN_INT(in_want_value);
  mk_version(); mk_level(1, 1); mk_level(2, 1);
  g_cache = (ldb_tables_t *)&g_ropt; g_vset.table_cache = g_cache;
  mk_lookup();
  g_gs_lvl = in_level; g_want_val = in_want_value ? 1 : 0;
  g_old_last = in_has_last ? g_fmp[2][0] : NULL; g_old_last_lvl = nondet_int();
  g_old_seek = in_has_seek ? g_fmp[2][0] : NULL; g_old_seek_lvl = nondet_int();
  g_val.data = NULL; g_val.size = 0; g_val.alloc = 0;
  g_st.seek_file = g_old_seek; g_st.seek_file_level = g_old_seek_lvl;
  g_gs.saver.state = S_NOTFOUND; g_gs.saver.ucmp = &bytewise_comparator; g_gs.saver.user_key = g_uks; g_gs.saver.value = g_want_val ? &g_val : NULL;
  g_gs.stats = &g_st; g_gs.options = &g_ropt; g_gs.ikey = g_iks; g_gs.last_file_read = g_old_last; g_gs.last_file_read_level = g_old_last_lvl;
  g_gs.vset = &g_vset; g_gs.status = LDB_OK; g_gs.found = 0;
  g_exp_n = 1; g_exp_num[0] = g_num[1][0]; g_exp_sz[0] = g_fsz[1][0]; g_exp_f[0] = g_fmp[1][0]; g_exp_lvl[0] = in_level;
  g_calls = 0; g_decided = D_NONE; g_rc = 0; g_vn = 0;
  getstate_match(&g_gs, in_level, g_fmp[1][0]);
  CANARY();
}

#endif /* VER_NO_DIRECT_FOREACH */

/* ---- ver.get: the whole chain on a small version (<= 1 file in level 0, <= 1 file in level 1) ---- */
void h_version_get_small(void) {
  IN_SIZE(in_n0); IN_SIZE(in_n1); IN_INT(in_want_value);
  ldb_buffer_t value; ldb_getstats_t stats;
  ASSUME(in_n0 <= 1 && in_n1 <= 1);
  mk_version(); mk_level(0, in_n0); mk_level(1, in_n1);
  ASSUME(DISJOINT_SORTED(1));
  g_cache = (ldb_tables_t *)&g_ropt; g_vset.table_cache = g_cache;
  mk_lookup();
  g_exp_n = 0; exp_level0(); exp_level(1);
  g_calls = 0; g_decided = D_NONE; g_rc = 0; g_vn = 0;
  value.data = NULL; value.size = 0; value.alloc = 0;
  ldb_version_get(&g_ver, &g_ropt, &g_lk, in_want_value ? &value : NULL, &stats);
  CANARY();
}

/* ---- ver.get.l1: the whole chain with TWO files in level 1 (a user key's versions may straddle them) ---- */
void h_version_get_l1(void) {
  IN_SIZE(in_n1); IN_INT(in_want_value);
  ldb_buffer_t value; ldb_getstats_t stats;
  ASSUME(in_n1 <= GETFL);
  mk_version(); mk_level(1, in_n1);
  ASSUME(DISJOINT_SORTED(1));
  g_cache = (ldb_tables_t *)&g_ropt; g_vset.table_cache = g_cache;
  mk_lookup();
  g_exp_n = 0; exp_level(1);
  g_calls = 0; g_decided = D_NONE; g_rc = 0; g_vn = 0;
  value.data = NULL; value.size = 0; value.alloc = 0;
  ldb_version_get(&g_ver, &g_ropt, &g_lk, in_want_value ? &value : NULL, &stats);
  CANARY();
}

/* ======================================================================
 * ver.find.any - find_file on a list of ANY length (loop contract)
 * ======================================================================
 * The comparator is a recording oracle: it answers arbitrarily and remembers
 * the last element key it called "< key" (ff_lo_p) and the last it called
 * ">= key" (ff_hi_p).  Contract: the result r is a transition point -
 * files[r-1].largest was answered "< key" (if r > 0) and files[r].largest
 * ">= key" (if r < n).  In a list sorted by largest (answers monotone) the
 * transition point is unique, i.e. r is the lower bound (paper lemma; the
 * bounded unit ver.find checks the lower bound itself with the real
 * comparators).  No element is dereferenced; n <= 2^31-1 because find_file
 * narrows the length to uint32_t and returns int.
 */
static const ldb_slice_t *ff_lo_p, *ff_hi_p, *ff_key;
static const ldb_comparator_t *ff_icmp;
static size_t ff_n;
static int ff_compare(const ldb_comparator_t *c, const ldb_slice_t *x, const ldb_slice_t *y) {
  int r = nondet_int();
  __CPROVER_assert(c == ff_icmp && y == ff_key, "find_file: compares element keys (left) with the probe key (right) under the given comparator");
  if (r < 0) ff_lo_p = x; else ff_hi_p = x;
  return r;
}
#define FF_LARGEST(files, i) (&((ldb_filemeta_t *)(files)->items[i])->largest)
int c_find_file_any(const ldb_comparator_t *icmp, const ldb_vector_t *files, const ldb_slice_t *key)
__CPROVER_requires(__CPROVER_r_ok(files, sizeof(*files)) && __CPROVER_r_ok(icmp, sizeof(*icmp)) && icmp->compare == ff_compare)
__CPROVER_requires(icmp == ff_icmp && key == ff_key && files->length == ff_n && ff_n <= 2147483647)
__CPROVER_requires(ff_n == 0 || __CPROVER_r_ok(files->items, ff_n * sizeof(void *)))
__CPROVER_assigns(ff_lo_p, ff_hi_p)
__CPROVER_ensures(__CPROVER_return_value >= 0 && (size_t)__CPROVER_return_value <= ff_n)
__CPROVER_ensures(__CPROVER_return_value > 0 ==> ff_lo_p == FF_LARGEST(files, __CPROVER_return_value - 1))
__CPROVER_ensures((size_t)__CPROVER_return_value < ff_n ==> ff_hi_p == FF_LARGEST(files, __CPROVER_return_value))
;
void h_find_file_any(void) {
  ldb_comparator_t icmp; ldb_vector_t files; ldb_slice_t key;
  IN_SIZE(in_n);
  ASSUME(in_n <= 2147483647);
  ff_n = in_n; ff_lo_p = NULL; ff_hi_p = NULL;
  files.items = malloc(in_n * sizeof(void *));
  ASSUME(files.items != NULL);
  files.length = in_n; files.alloc = in_n;
  icmp.name = "oracle"; icmp.compare = ff_compare; icmp.shortest_separator = NULL; icmp.short_successor = NULL;
  icmp.user_comparator = NULL; icmp.state = NULL;
  key.data = NULL; key.size = 0; key.alloc = 0;
  ff_icmp = &icmp; ff_key = &key;
  find_file(&icmp, &files, &key);
  CANARY();
}

/* ======================================================================
 * ver.inputs - get_overlapping_inputs returns exactly the overlapping files
 * (C14, C01); level 0: the set is closed under range expansion
 * ====================================================================== */
#define INF 4
static ldb_ikey_t g_bk, g_ek2; static uint8_t g_bk_b[9], g_ek_b[9];
static ldb_vector_t g_inputs;
static uint8_t g_xlo, g_xhi;       /* ghost: the (expanded) user-key range the result must correspond to */
#define BEGIN_PTR (g_has_lo ? &g_bk : (const ldb_ikey_t *)NULL)
#define END_PTR (g_has_hi ? &g_ek2 : (const ldb_ikey_t *)NULL)
#define EXP_IN(l, i) ((i) < g_n[l] && !(g_has_lo && g_xlo > g_luk[l][i]) && !(g_has_hi && g_xhi < g_suk[l][i]))
#define EXP_CNT(l) ((EXP_IN(l,0) ? 1 : 0) + (EXP_IN(l,1) ? 1 : 0) + (EXP_IN(l,2) ? 1 : 0) + (EXP_IN(l,3) ? 1 : 0))
#define IN_MEMBER(l, i) ((g_inputs.length > 0 && g_inputs.items[0] == g_fmp[l][i]) || (g_inputs.length > 1 && g_inputs.items[1] == g_fmp[l][i]) || \
                         (g_inputs.length > 2 && g_inputs.items[2] == g_fmp[l][i]) || (g_inputs.length > 3 && g_inputs.items[3] == g_fmp[l][i]))
#define IN_EXACT_AT(l, i) ((EXP_IN(l, i) ? 1 : 0) == (IN_MEMBER(l, i) ? 1 : 0))
#define EXP_FIRST(l) (EXP_IN(l,0) ? 0 : EXP_IN(l,1) ? 1 : EXP_IN(l,2) ? 2 : 3)
#define IN_ORDER_AT(l, j) ((j) >= g_inputs.length || g_inputs.items[j] == g_fmp[l][EXP_FIRST(l) + (j)])

void c_get_overlapping_inputs(ldb_version_t *ver, int level, const ldb_ikey_t *begin, const ldb_ikey_t *end, ldb_vector_t *inputs)
__CPROVER_requires(ver == &g_ver && level == g_lvl && g_lvl >= 0 && g_lvl < LDB_NUM_LEVELS && begin == BEGIN_PTR && end == END_PTR && inputs == &g_inputs)
__CPROVER_requires(g_n[g_lvl] <= INF && g_inputs.items == NULL && g_inputs.alloc == 0)
__CPROVER_requires(g_lvl > 0 ==> DISJOINT_SORTED(g_lvl))
__CPROVER_assigns(g_inputs.items, g_inputs.length, g_inputs.alloc)
/* exactly the files of the level that overlap the (level 0: expanded) range, each once */
__CPROVER_ensures(g_inputs.length == (size_t)EXP_CNT(g_lvl))
__CPROVER_ensures(IN_EXACT_AT(g_lvl, 0) && IN_EXACT_AT(g_lvl, 1) && IN_EXACT_AT(g_lvl, 2) && IN_EXACT_AT(g_lvl, 3))
/* sorted levels: in file order (a contiguous run of the level) */
__CPROVER_ensures(g_lvl > 0 ==> (IN_ORDER_AT(g_lvl, 0) && IN_ORDER_AT(g_lvl, 1) && IN_ORDER_AT(g_lvl, 2) && IN_ORDER_AT(g_lvl, 3)))
;
static void mk_range_keys(void) {
  mk_bounds();
  mk_ikey(&g_bk, g_bk_b, g_lo_v, nondet_u64());
  mk_ikey(&g_ek2, g_ek_b, g_hi_v, nondet_u64());
  g_inputs.items = NULL; g_inputs.length = 0; g_inputs.alloc = 0;
}
/* level 0: least fixpoint of "add every file overlapping the range, widen the range to it" (independent of the code's restart logic) */
static void spec_expand(int l) {
  int round; size_t i;
  g_xlo = g_lo_v; g_xhi = g_hi_v;
  for (round = 0; round < INF; round++)
    for (i = 0; i < INF; i++)
      if (EXP_IN(l, i)) {
        if (g_has_lo && g_suk[l][i] < g_xlo) g_xlo = g_suk[l][i];
        if (g_has_hi && g_luk[l][i] > g_xhi) g_xhi = g_luk[l][i];
      }
}
void h_inputs_sorted(void) {
  IN_SIZE(in_n); IN_INT(in_deep);
  ASSUME(in_n <= INF);
  mk_version(); mk_range_keys();
  if (in_deep) { mk_level(6, in_n); g_lvl = 6; } else { mk_level(1, in_n); g_lvl = 1; }
  g_xlo = g_lo_v; g_xhi = g_hi_v;
  ldb_version_get_overlapping_inputs(&g_ver, g_lvl, BEGIN_PTR, END_PTR, &g_inputs);
  CANARY();
}
void h_inputs_level0(void) {
  IN_SIZE(in_n);
  ASSUME(in_n <= 2);
  mk_version(); mk_range_keys(); mk_level(0, in_n); g_lvl = 0;
  /* files are well-formed: smallest user key <= largest user key */
  ASSUME((in_n < 1 || g_suk[0][0] <= g_luk[0][0]) && (in_n < 2 || g_suk[0][1] <= g_luk[0][1]) && (in_n < 3 || g_suk[0][2] <= g_luk[0][2]));
  spec_expand(0);
  ldb_version_get_overlapping_inputs(&g_ver, 0, BEGIN_PTR, END_PTR, &g_inputs);
  CANARY();
}

/* ======================================================================
 * ver.boundary - no older version of the boundary user key is left behind
 * (C01, C14); n <= 4 files in the level, level 1 model, files only
 * individually well-formed (smallest <= largest), any order
 * ====================================================================== */
#define BF 4
#define WF_AT(l, i) ((i) >= g_n[l] || LE_(g_suk[l][i], g_stag[l][i], g_luk[l][i], g_ltag[l][i]))
#define WF_FILES(l) (WF_AT(l,0) && WF_AT(l,1) && WF_AT(l,2) && WF_AT(l,3))
static ldb_slice_t g_out;
#define ALL_LE_L(l, m) (((0) >= g_n[l] || LE_(g_luk[l][0], g_ltag[l][0], g_luk[l][m], g_ltag[l][m])) && ((1) >= g_n[l] || LE_(g_luk[l][1], g_ltag[l][1], g_luk[l][m], g_ltag[l][m])) && \
                        ((2) >= g_n[l] || LE_(g_luk[l][2], g_ltag[l][2], g_luk[l][m], g_ltag[l][m])) && ((3) >= g_n[l] || LE_(g_luk[l][3], g_ltag[l][3], g_luk[l][m], g_ltag[l][m])))
#define IS_MAX_L(l, m) ((m) < g_n[l] && g_out.data == g_klp[l][m] && g_out.size == 9 && ALL_LE_L(l, m))
int c_find_largest_key(const ldb_comparator_t *icmp, const ldb_vector_t *files, ldb_slice_t *largest_key)
__CPROVER_requires(icmp == &g_vset.icmp && files == &g_ver.files[1] && largest_key == &g_out && g_n[1] <= BF)
__CPROVER_assigns(g_out)
__CPROVER_ensures(__CPROVER_return_value == (g_n[1] > 0 ? 1 : 0))
/* the result is the largest key of a file none of whose peers has a larger one */
__CPROVER_ensures(g_n[1] > 0 ==> (IS_MAX_L(1, 0) || IS_MAX_L(1, 1) || IS_MAX_L(1, 2) || IS_MAX_L(1, 3)))
;
/* file i starts with the probe key's user key at a larger internal key (an older version of that user key) */
#define ISB(l, i) ((i) < g_n[l] && g_suk[l][i] == g_kuk && LT_(g_kuk, g_ktag, g_suk[l][i], g_stag[l][i]))
#define ISB_MIN_OVER(l, m, i) (!ISB(l, i) || LE_(g_suk[l][m], g_stag[l][m], g_suk[l][i], g_stag[l][i]))
#define ISB_MIN(l, m, r) ((r) == g_fmp[l][m] && ISB(l, m) && ISB_MIN_OVER(l, m, 0) && ISB_MIN_OVER(l, m, 1) && ISB_MIN_OVER(l, m, 2) && ISB_MIN_OVER(l, m, 3))
ldb_filemeta_t *c_find_smallest_boundary_file(const ldb_comparator_t *icmp, const ldb_vector_t *level_files, const ldb_ikey_t *largest_key)
__CPROVER_requires(icmp == &g_vset.icmp && level_files == &g_ver.files[1] && largest_key == &g_key && g_n[1] <= BF)
__CPROVER_assigns()
__CPROVER_ensures((__CPROVER_return_value == NULL) == !(ISB(1, 0) || ISB(1, 1) || ISB(1, 2) || ISB(1, 3)))
__CPROVER_ensures(__CPROVER_return_value != NULL ==> (ISB_MIN(1, 0, __CPROVER_return_value) || ISB_MIN(1, 1, __CPROVER_return_value) ||
                                                      ISB_MIN(1, 2, __CPROVER_return_value) || ISB_MIN(1, 3, __CPROVER_return_value)))
;
void h_find_largest_key(void) {
  IN_SIZE(in_n);
  ASSUME(in_n <= BF);
  mk_version(); mk_level(1, in_n);
  find_largest_key(&g_vset.icmp, &g_ver.files[1], &g_out);
  CANARY();
}
void h_find_smallest_boundary(void) {
  IN_SIZE(in_n);
  ASSUME(in_n <= BF);
  mk_version(); mk_level(1, in_n);
  g_kuk = nondet_u8(); g_ktag = nondet_u64(); ASSUME((g_ktag & 0xff) <= 1); mk_ikey(&g_key, g_key_b, g_kuk, g_ktag);
  find_smallest_boundary_file(&g_vset.icmp, &g_ver.files[1], &g_key);
  CANARY();
}
/* add_boundary_inputs: plain harness, the property is evaluated after the call */
void h_add_boundary_inputs(void) {
  IN_SIZE(in_n); IN_SIZE(in_a); IN_SIZE(in_b); IN_INT(in_two);
  ldb_vector_t cf; size_t i, j, m = 0, k0; int member[BF]; int have = 0;
  ASSUME(in_n <= 3 && in_n >= 1 && in_a < in_n && in_b < in_n && in_a != in_b);
  mk_version(); mk_level(1, in_n);
  ASSUME(WF_FILES(1));
  ldb_vector_init(&cf);
  ldb_vector_push(&cf, g_fmp[1][in_a]);
  if (in_two) ldb_vector_push(&cf, g_fmp[1][in_b]);
  k0 = cf.length;
  add_boundary_inputs(&g_vset.icmp, &g_ver.files[1], &cf);
  CHECK(cf.length >= k0 && cf.length <= in_n, "add_boundary_inputs: only grows the set, by files of the level, each at most once");
  CHECK(cf.items[0] == g_fmp[1][in_a] && (!in_two || cf.items[1] == g_fmp[1][in_b]), "add_boundary_inputs: the given inputs stay in place");
  for (i = 0; i < BF; i++) member[i] = 0;
  for (j = 0; j < BF; j++)
    if (j < cf.length) {
      int hit = 0;
      for (i = 0; i < BF; i++)
        if (i < in_n && cf.items[j] == g_fmp[1][i]) { CHECK(!member[i], "add_boundary_inputs: no file is added twice"); member[i] = 1; hit = 1; }
      CHECK(hit, "add_boundary_inputs: every element is a file of the level");
    }
  /* m = a member with the largest `largest` key */
  for (i = 0; i < BF; i++)
    if (i < in_n && member[i] && (!have || LT_(g_luk[1][m], g_ltag[1][m], g_luk[1][i], g_ltag[1][i]))) { m = i; have = 1; }
  for (i = 0; i < BF; i++)
    if (i < in_n && !member[i])
      CHECK(!(g_suk[1][i] == g_luk[1][m] && LT_(g_luk[1][m], g_ltag[1][m], g_suk[1][i], g_stag[1][i])),
            "add_boundary_inputs: no file left outside the set starts with the user key the set ends with at a larger internal key (an older version of that key would stay behind in the level)");
  CANARY();
}

/* ======================================================================
 * ver.base - is_base_level_for_key (C01, C06); <= 2 files in levels 2..6
 * ====================================================================== */
static ldb_compaction_t g_c; static uint8_t g_bq;   /* probe user key */
static ldb_slice_t g_bqs; static uint8_t g_bq_b[1];
#define HAS_KEY_AT(l, i) ((l) >= g_c.level + 2 && (i) < g_n[l] && g_suk[l][i] <= g_bq && g_bq <= g_luk[l][i])
#define HAS_KEY_BELOW (HAS_KEY_AT(2,0) || HAS_KEY_AT(2,1) || HAS_KEY_AT(3,0) || HAS_KEY_AT(3,1) || HAS_KEY_AT(4,0) || HAS_KEY_AT(4,1) || \
                       HAS_KEY_AT(5,0) || HAS_KEY_AT(5,1) || HAS_KEY_AT(6,0) || HAS_KEY_AT(6,1))
/* every file before the level pointer ends before the probe key (keys are presented in ascending order) */
#define PTR_OK(l) (g_c.level_ptrs[l] <= g_n[l] && (g_c.level_ptrs[l] < 1 || g_luk[l][0] < g_bq) && (g_c.level_ptrs[l] < 2 || g_luk[l][1] < g_bq))
#define PTRS_OK (PTR_OK(2) && PTR_OK(3) && PTR_OK(4) && PTR_OK(5) && PTR_OK(6))
int c_is_base_level_for_key(ldb_compaction_t *c, const ldb_slice_t *user_key)
__CPROVER_requires(c == &g_c && user_key == &g_bqs && g_c.input_version == &g_ver && g_c.level >= 0 && g_c.level <= LDB_NUM_LEVELS - 2)
__CPROVER_requires(g_n[2] <= 2 && g_n[3] <= 2 && g_n[4] <= 2 && g_n[5] <= 2 && g_n[6] <= 2)
__CPROVER_requires(DISJOINT_SORTED(2) && DISJOINT_SORTED(3) && DISJOINT_SORTED(4) && DISJOINT_SORTED(5) && DISJOINT_SORTED(6))
__CPROVER_requires(PTRS_OK)
__CPROVER_assigns(g_c.level_ptrs)
/* 0 iff some file in a level >= level+2 contains the user key in its range */
__CPROVER_ensures(__CPROVER_return_value == (HAS_KEY_BELOW ? 0 : 1))
/* the pointers only move forward and keep their meaning for the next (larger) key */
__CPROVER_ensures(PTRS_OK)
__CPROVER_ensures(g_c.level_ptrs[0] == __CPROVER_old(g_c.level_ptrs[0]) && g_c.level_ptrs[1] == __CPROVER_old(g_c.level_ptrs[1]))
__CPROVER_ensures(g_c.level_ptrs[2] >= __CPROVER_old(g_c.level_ptrs[2]) && g_c.level_ptrs[3] >= __CPROVER_old(g_c.level_ptrs[3]) &&
                  g_c.level_ptrs[4] >= __CPROVER_old(g_c.level_ptrs[4]) && g_c.level_ptrs[5] >= __CPROVER_old(g_c.level_ptrs[5]) &&
                  g_c.level_ptrs[6] >= __CPROVER_old(g_c.level_ptrs[6]))
;
void h_is_base_level(void) {
  IN_INT(in_level); IN_SIZE(in_n2); IN_SIZE(in_n3); IN_SIZE(in_n4); IN_SIZE(in_n5); IN_SIZE(in_n6);
  ASSUME(in_level >= 0 && in_level <= LDB_NUM_LEVELS - 2);
  ASSUME(in_n2 <= 2 && in_n3 == 0 && in_n4 == 0 && in_n5 <= 2 && in_n6 <= 2);
  mk_version(); mk_level(2, in_n2); mk_level(5, in_n5); mk_level(6, in_n6);
  g_c.input_version = &g_ver;
  g_c.level_ptrs[0] = nondet_size(); g_c.level_ptrs[1] = nondet_size(); g_c.level_ptrs[2] = nondet_size(); g_c.level_ptrs[3] = nondet_size();
  g_c.level_ptrs[4] = nondet_size(); g_c.level_ptrs[5] = nondet_size(); g_c.level_ptrs[6] = nondet_size();
  g_bq = nondet_u8(); g_bq_b[0] = g_bq; g_bqs.data = g_bq_b; g_bqs.size = 1; g_bqs.alloc = 0;
  /* one call site per concrete level (keeps the level index of every access constant for CBMC) */
  switch (in_level) {
    case 0: g_c.level = 0; ldb_compaction_is_base_level_for_key(&g_c, &g_bqs); break;
    case 3: g_c.level = 3; ldb_compaction_is_base_level_for_key(&g_c, &g_bqs); break;
    default: g_c.level = 4; ldb_compaction_is_base_level_for_key(&g_c, &g_bqs); break;
  }
  CANARY();
}

/* ======================================================================
 * ver.live - add_files puts the number of every file of every version (C13, C14)
 * ====================================================================== */
static rb_set64_t g_live; static uint64_t g_q; static int g_q_in; static size_t g_puts;
int rb_set64_put(rb_tree_t *tree, uint64_t item) {
  __CPROVER_assert(tree == &g_live, "add_files: numbers go into the caller's live set");
  if (item == g_q) g_q_in = 1;
  g_puts++;
  return nondet_int() ? 1 : 0;
}
static ldb_version_t g_ver2;
void c_versions_add_files(ldb_versions_t *vset, rb_set64_t *live)
__CPROVER_requires(vset == &g_vset && live == &g_live && g_q_in == 0 && g_puts == 0)
__CPROVER_assigns(g_q_in, g_puts)
__CPROVER_ensures(g_q_in == 1)    /* g_q is the number of an arbitrary file of an arbitrary listed version */
;
void h_add_files(void) {
  IN_SIZE(in_n0); IN_SIZE(in_n1); IN_SIZE(in_n2); IN_SIZE(in_n3); IN_INT(in_versions); IN_INT(in_pick_v); IN_INT(in_pick_l); IN_SIZE(in_pick_i);
  int l; size_t n;
  ASSUME(in_n0 <= 2 && in_n1 <= 2 && in_n2 <= 2 && in_n3 <= 2 && in_versions >= 1 && in_versions <= 2);
  mk_version(); mk_level(0, in_n0); mk_level(1, in_n1); mk_level(2, in_n2); mk_level(3, in_n3);
  /* version 1 = g_ver with model levels 0, 5; version 2 holds model levels 2, 3 as its levels 0, 6 */
  { ldb_vector_t m2 = g_ver.files[2], m3 = g_ver.files[3];
    g_ver.files[2].length = 0; g_ver.files[3].length = 0;
    g_ver.files[5] = g_ver.files[1]; g_ver.files[1].length = 0;
    g_ver2 = g_ver; g_ver2.files[5].length = 0; g_ver2.files[0] = m2; g_ver2.files[6] = m3; }
  g_vset.dummy_versions.next = &g_ver; g_ver.prev = &g_vset.dummy_versions;
  if (in_versions == 2) { g_ver.next = &g_ver2; g_ver2.prev = &g_ver; g_ver2.next = &g_vset.dummy_versions; g_vset.dummy_versions.prev = &g_ver2; }
  else { g_ver.next = &g_vset.dummy_versions; g_vset.dummy_versions.prev = &g_ver; }
  g_vset.current = g_vset.dummy_versions.prev;
  /* pick an arbitrary file of an arbitrary listed version */
  ASSUME(in_pick_v >= 1 && in_pick_v <= in_versions && (in_pick_l == 0 || in_pick_l == 1));
  l = in_pick_v == 1 ? (in_pick_l == 0 ? 0 : 1) : (in_pick_l == 0 ? 2 : 3);
  n = l == 0 ? in_n0 : l == 1 ? in_n1 : l == 2 ? in_n2 : in_n3;
  ASSUME(in_pick_i < n);
  g_q = g_num[l][in_pick_i]; g_q_in = 0; g_puts = 0;
  ldb_versions_add_files(&g_vset, &g_live);
  CANARY();
}

/* ---- newest_first: the order handed to ldb_vector_sort is "larger file number first" ---- */
int c_newest_first(void *x, void *y)
__CPROVER_requires(x == g_fmp[0][0] && y == g_fmp[0][1])
__CPROVER_assigns()
__CPROVER_ensures(__CPROVER_return_value == (g_num[0][0] > g_num[0][1] ? -1 : g_num[0][0] < g_num[0][1] ? 1 : 0))
;
void h_newest_first(void) {
  mk_version(); mk_level(0, 2);
  newest_first(g_fmp[0][0], g_fmp[0][1]);
  CANARY();
}
