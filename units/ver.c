/* units/ver.c - proof units for the computational kernels of src/version_set.c
 * (group "ver": C01, C05, C06, C11, C13, C14, C19)
 *
 * The real version_set.c is included unmodified (all statics visible).
 * Everything version_set.c calls but these units never reach (env, table
 * cache, log reader/writer, mutex, edits, iterators) is left without a body:
 * dfcc turns a call to a bodiless function into a failing
 * "undefined function should be unreachable" obligation.
 */
#include "verif.h"
#include "version_set.c"

/* ======================================================================
 * ver.numbers - the file-number allocator (C13, C05, C19)
 * ====================================================================== */

/* new_file_number: returns the old counter, counter strictly increases by 1.
 * No wrap: 2^64 allocations are unreachable, stated as a precondition. */
uint64_t c_versions_new_file_number(ldb_versions_t *vset)
__CPROVER_requires(__CPROVER_rw_ok(vset, sizeof(*vset)))
__CPROVER_requires(vset->next_file_number < UINT64_MAX)
__CPROVER_assigns(vset->next_file_number)
__CPROVER_ensures(__CPROVER_return_value == __CPROVER_old(vset->next_file_number))
__CPROVER_ensures(vset->next_file_number == __CPROVER_old(vset->next_file_number) + 1)
__CPROVER_ensures(vset->next_file_number > __CPROVER_return_value)
;

/* reuse_file_number: undoes exactly the latest allocation, otherwise no-op */
#define POST_REUSE(next1, next0, n) \
  (((next0) == (n) + 1) ? (next1) == (n) : (next1) == (next0))
void c_versions_reuse_file_number(ldb_versions_t *vset, uint64_t file_number)
__CPROVER_requires(__CPROVER_rw_ok(vset, sizeof(*vset)))
__CPROVER_requires(file_number < UINT64_MAX) /* numbers come from the allocator, which never reaches 2^64-1 */
__CPROVER_assigns(vset->next_file_number)
__CPROVER_ensures(POST_REUSE(vset->next_file_number, __CPROVER_old(vset->next_file_number), file_number))
;

/* mark_file_number: afterwards next > number, never moves backwards,
 * moves only as far as needed */
#define POST_MARK(next1, next0, n) \
  ((next1) > (n) && (next1) >= (next0) && ((next0) > (n) ? (next1) == (next0) : (next1) == (n) + 1))
void c_versions_mark_file_number(ldb_versions_t *vset, uint64_t number)
__CPROVER_requires(__CPROVER_rw_ok(vset, sizeof(*vset)))
__CPROVER_requires(number < UINT64_MAX)
__CPROVER_assigns(vset->next_file_number)
__CPROVER_ensures(POST_MARK(vset->next_file_number, __CPROVER_old(vset->next_file_number), number))
;

static ldb_versions_t g_vset;

void h_new_file_number(void) {
  IN_U64(in_next);
  ASSUME(in_next < UINT64_MAX);
  g_vset.next_file_number = in_next;
  ldb_versions_new_file_number(&g_vset);
  CANARY();
}
void h_reuse_file_number(void) {
  IN_U64(in_next); IN_U64(in_n);
  ASSUME(in_n < UINT64_MAX);
  g_vset.next_file_number = in_next;
  ldb_versions_reuse_file_number(&g_vset, in_n);
  CANARY();
}
void h_mark_file_number(void) {
  IN_U64(in_next); IN_U64(in_n);
  ASSUME(in_n < UINT64_MAX);
  g_vset.next_file_number = in_next;
  ldb_versions_mark_file_number(&g_vset, in_n);
  CANARY();
}
/* allocator protocol on the real functions: two allocations are distinct and
 * increasing; reuse of the latest gives it out again; reuse of an older one
 * is ignored; after mark(n) no allocation returns a number <= n */
void h_numbers_protocol(void) {
  IN_U64(in_next); IN_U64(in_mark);
  uint64_t a, b, c, d;
  ASSUME(in_next < UINT64_MAX - 8 && in_mark < UINT64_MAX - 8);
  g_vset.next_file_number = in_next;
  a = ldb_versions_new_file_number(&g_vset);
  b = ldb_versions_new_file_number(&g_vset);
  CHECK(a == in_next && b == a + 1, "allocator: consecutive allocations are strictly increasing");
  ldb_versions_reuse_file_number(&g_vset, a);
  CHECK(g_vset.next_file_number == b + 1, "allocator: reuse of an older number is ignored (no number is handed out twice)");
  ldb_versions_reuse_file_number(&g_vset, b);
  c = ldb_versions_new_file_number(&g_vset);
  CHECK(c == b, "allocator: reuse undoes exactly the latest allocation");
  ldb_versions_mark_file_number(&g_vset, in_mark);
  d = ldb_versions_new_file_number(&g_vset);
  CHECK(d > in_mark && d > c, "allocator: after mark(n) every allocation is > n and > all earlier allocations");
  CANARY();
}

/* ======================================================================
 * ver.find - find_file is a lower bound (C01, C14), any list length
 * ======================================================================
 * Model: the list elements live in one array `ff_metas` in list order
 * (items[i] == &ff_metas[i]; find_file never compares or dereferences the
 * element pointers, so the layout is without loss of generality).  The
 * comparator is an oracle that is *partitioned* at the ghost position ff_lb:
 * largest(files[i]) < key  iff  i < ff_lb.  That is exactly what "sorted by
 * largest under a consistent comparator" gives for one probe key (the
 * precondition of a lower-bound search).  The contract: the result is ff_lb.
 */
static ldb_filemeta_t *ff_metas;
static size_t ff_n, ff_lb;
static const ldb_slice_t *ff_key;
static const ldb_comparator_t *ff_icmp;
static int ff_eq;   /* whether files[ff_lb].largest == key (compare returns 0) */
static size_t ff_calls;

static int ff_compare(const ldb_comparator_t *c, const ldb_slice_t *x, const ldb_slice_t *y) {
  size_t off, m;
  __CPROVER_assert(c == ff_icmp, "find_file: compares with the comparator it was given");
  __CPROVER_assert(y == ff_key, "find_file: probe key is the right operand");
  __CPROVER_assert(__CPROVER_same_object(x, ff_metas), "find_file: left operand is a key of a list element");
  off = (size_t)((const char *)x - (const char *)ff_metas);
  m = off / sizeof(ldb_filemeta_t);
  __CPROVER_assert(off % sizeof(ldb_filemeta_t) == offsetof(ldb_filemeta_t, largest) && m < ff_n,
                   "find_file: compares the *largest* key of an element inside the list");
  ff_calls++;
  if (m < ff_lb) return -1;
  if (m == ff_lb && ff_eq) return 0;
  return 1;
}

int c_find_file(const ldb_comparator_t *icmp, const ldb_vector_t *files, const ldb_slice_t *key)
__CPROVER_requires(__CPROVER_r_ok(files, sizeof(*files)) && __CPROVER_r_ok(icmp, sizeof(*icmp)))
__CPROVER_requires(icmp == ff_icmp && key == ff_key && icmp->compare == ff_compare)
__CPROVER_requires(files->length == ff_n && ff_n <= 2147483647 && ff_lb <= ff_n)
__CPROVER_requires(ff_n == 0 || __CPROVER_r_ok(files->items, ff_n * sizeof(void *)))
__CPROVER_requires(ff_n == 0 || __CPROVER_r_ok(ff_metas, ff_n * sizeof(ldb_filemeta_t)))
__CPROVER_requires(__CPROVER_forall { size_t i; (i < ff_n) ==> files->items[i] == (void *)(ff_metas + i) })
__CPROVER_assigns(ff_calls)
__CPROVER_ensures(__CPROVER_return_value >= 0 && (size_t)__CPROVER_return_value == ff_lb)
;

void h_find_file(void) {
  ldb_comparator_t icmp;
  ldb_vector_t files;
  ldb_slice_t key;
  IN_SIZE(in_n); IN_SIZE(in_lb); IN_INT(in_eq);
  ASSUME(in_n <= 2147483647 && in_lb <= in_n);
  ff_n = in_n; ff_lb = in_lb; ff_eq = in_eq; ff_calls = 0;
  ff_metas = malloc(in_n * sizeof(ldb_filemeta_t));
  files.items = malloc(in_n * sizeof(void *));
  ASSUME(ff_metas != NULL && files.items != NULL);
  files.length = in_n; files.alloc = in_n;
  icmp.name = "x"; icmp.compare = ff_compare; icmp.shortest_separator = NULL; icmp.short_successor = NULL;
  icmp.user_comparator = NULL; icmp.state = NULL;
  ff_icmp = &icmp; ff_key = &key;
  key.data = NULL; key.size = 0; key.alloc = 0;
  find_file(&icmp, &files, &key);
  CANARY();
}
