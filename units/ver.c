/* units/ver.c - proof units for the computational kernels of src/version_set.c
 * (group "ver": C01, C05, C06, C11, C13, C14, C19)
 *
 * The real version_set.c is included unmodified (all statics visible).
 * Everything version_set.c calls but these units never reach (env, table
 * cache, log reader/writer, mutex, edits, iterators) is left without a body:
 * dfcc turns a call to a bodiless function into a failing
 * "undefined function should be unreachable" obligation.
 */
#include "verif.h"
#include "version_set.c"

/* ======================================================================
 * ver.numbers - the file-number allocator (C13, C05, C19)
 * ====================================================================== */

/* new_file_number: returns the old counter, counter strictly increases by 1.
 * No wrap: 2^64 allocations are unreachable, stated as a precondition. */
uint64_t c_versions_new_file_number(ldb_versions_t *vset)
__CPROVER_requires(__CPROVER_rw_ok(vset, sizeof(*vset)))
__CPROVER_requires(vset->next_file_number < UINT64_MAX)
__CPROVER_assigns(vset->next_file_number)
__CPROVER_ensures(__CPROVER_return_value == __CPROVER_old(vset->next_file_number))
__CPROVER_ensures(vset->next_file_number == __CPROVER_old(vset->next_file_number) + 1)
__CPROVER_ensures(vset->next_file_number > __CPROVER_return_value)
;

/* reuse_file_number: undoes exactly the latest allocation, otherwise no-op */
#define POST_REUSE(next1, next0, n) \
  (((next0) == (n) + 1) ? (next1) == (n) : (next1) == (next0))
void c_versions_reuse_file_number(ldb_versions_t *vset, uint64_t file_number)
__CPROVER_requires(__CPROVER_rw_ok(vset, sizeof(*vset)))
__CPROVER_requires(file_number < UINT64_MAX) /* numbers come from the allocator, which never reaches 2^64-1 */
__CPROVER_assigns(vset->next_file_number)
__CPROVER_ensures(POST_REUSE(vset->next_file_number, __CPROVER_old(vset->next_file_number), file_number))
;

/* mark_file_number: afterwards next > number, never moves backwards,
 * moves only as far as needed */
#define POST_MARK(next1, next0, n) \
  ((next1) > (n) && (next1) >= (next0) && ((next0) > (n) ? (next1) == (next0) : (next1) == (n) + 1))
void c_versions_mark_file_number(ldb_versions_t *vset, uint64_t number)
__CPROVER_requires(__CPROVER_rw_ok(vset, sizeof(*vset)))
__CPROVER_requires(number < UINT64_MAX)
__CPROVER_assigns(vset->next_file_number)
__CPROVER_ensures(POST_MARK(vset->next_file_number, __CPROVER_old(vset->next_file_number), number))
;

static ldb_versions_t g_vset;

void h_new_file_number(void) {
  IN_U64(in_next);
  ASSUME(in_next < UINT64_MAX);
  g_vset.next_file_number = in_next;
  ldb_versions_new_file_number(&g_vset);
  CANARY();
}
void h_reuse_file_number(void) {
  IN_U64(in_next); IN_U64(in_n);
  ASSUME(in_n < UINT64_MAX);
  g_vset.next_file_number = in_next;
  ldb_versions_reuse_file_number(&g_vset, in_n);
  CANARY();
}
void h_mark_file_number(void) {
  IN_U64(in_next); IN_U64(in_n);
  ASSUME(in_n < UINT64_MAX);
  g_vset.next_file_number = in_next;
  ldb_versions_mark_file_number(&g_vset, in_n);
  CANARY();
}
/* allocator protocol on the real functions: two allocations are distinct and
 * increasing; reuse of the latest gives it out again; reuse of an older one
 * is ignored; after mark(n) no allocation returns a number <= n */
void h_numbers_protocol(void) {
  IN_U64(in_next); IN_U64(in_mark);
  uint64_t a, b, c, d;
  ASSUME(in_next < UINT64_MAX - 8 && in_mark < UINT64_MAX - 8);
  g_vset.next_file_number = in_next;
  a = ldb_versions_new_file_number(&g_vset);
  b = ldb_versions_new_file_number(&g_vset);
  CHECK(a == in_next && b == a + 1, "allocator: consecutive allocations are strictly increasing");
  ldb_versions_reuse_file_number(&g_vset, a);
  CHECK(g_vset.next_file_number == b + 1, "allocator: reuse of an older number is ignored (no number is handed out twice)");
  ldb_versions_reuse_file_number(&g_vset, b);
  c = ldb_versions_new_file_number(&g_vset);
  CHECK(c == b, "allocator: reuse undoes exactly the latest allocation");
  ldb_versions_mark_file_number(&g_vset, in_mark);
  d = ldb_versions_new_file_number(&g_vset);
  CHECK(d > in_mark && d > c, "allocator: after mark(n) every allocation is > n and > all earlier allocations");
  CANARY();
}

/* ======================================================================
 * Shared bounded model of a version (used by ver.find ... ver.live)
 * ======================================================================
 * Real comparators: the byte-wise user comparator (util/comparator.c) and the
 * internal-key comparator (dbformat.c) are included unmodified.  User keys
 * are one byte wide; an internal key is the 9 bytes  uk ‖ LE64(seq<<8|type).
 * The harness builds every key from a (uk, tag) pair of ghost scalars and
 * stores the bytes itself (mk_ikey); the specifications are written on the
 * ghost scalars, independently of the comparators:
 *    a <_ik b  iff  uk(a) < uk(b), or uk(a) = uk(b) and tag(a) > tag(b).
 * Contracts identify their arguments with the model objects (g_ver, level).
 */
#include "util/comparator.c"
#include "dbformat.c"

#define MAXF 6
static uint8_t g_ks[LDB_NUM_LEVELS][MAXF][9], g_kl[LDB_NUM_LEVELS][MAXF][9]; /* key bytes */
static uint8_t g_suk[LDB_NUM_LEVELS][MAXF], g_luk[LDB_NUM_LEVELS][MAXF];     /* ghost: user key of smallest / largest */
static uint64_t g_stag[LDB_NUM_LEVELS][MAXF], g_ltag[LDB_NUM_LEVELS][MAXF];  /* ghost: seq<<8|type of smallest / largest */
static uint64_t g_num[LDB_NUM_LEVELS][MAXF], g_fsz[LDB_NUM_LEVELS][MAXF];    /* ghost: file number, size */
static size_t g_n[LDB_NUM_LEVELS];                                            /* ghost: files per level */
static ldb_filemeta_t g_fm[LDB_NUM_LEVELS][MAXF];
static void *g_items[LDB_NUM_LEVELS][MAXF];
static ldb_version_t g_ver;
static ldb_dbopt_t g_opt;

#define LT_(uk1, t1, uk2, t2) ((uk1) < (uk2) || ((uk1) == (uk2) && (t1) > (t2)))
#define LE_(uk1, t1, uk2, t2) (!LT_(uk2, t2, uk1, t1))

static void mk_ikey(ldb_buffer_t *b, uint8_t *st, uint8_t uk, uint64_t tag) {
  st[0] = uk;
  st[1] = (uint8_t)tag; st[2] = (uint8_t)(tag >> 8); st[3] = (uint8_t)(tag >> 16); st[4] = (uint8_t)(tag >> 24);
  st[5] = (uint8_t)(tag >> 32); st[6] = (uint8_t)(tag >> 40); st[7] = (uint8_t)(tag >> 48); st[8] = (uint8_t)(tag >> 56);
  b->data = st; b->size = 9; b->alloc = 0;
}
static void mk_file(int level, size_t i) {
  ldb_filemeta_t *f = &g_fm[level][i];
  g_suk[level][i] = nondet_u8(); g_luk[level][i] = nondet_u8();
  g_stag[level][i] = nondet_u64(); g_ltag[level][i] = nondet_u64();
  g_num[level][i] = nondet_u64(); g_fsz[level][i] = nondet_u64();
  f->refs = 1; f->allowed_seeks = nondet_int(); f->number = g_num[level][i]; f->file_size = g_fsz[level][i];
  mk_ikey(&f->smallest, g_ks[level][i], g_suk[level][i], g_stag[level][i]);
  mk_ikey(&f->largest, g_kl[level][i], g_luk[level][i], g_ltag[level][i]);
  g_items[level][i] = f;
}
/* n files with arbitrary keys, numbers and sizes in `level` (n <= MAXF) */
static void mk_level(int level, size_t n) {
  if (n > 0) mk_file(level, 0);
  if (n > 1) mk_file(level, 1);
  if (n > 2) mk_file(level, 2);
  if (n > 3) mk_file(level, 3);
  if (n > 4) mk_file(level, 4);
  if (n > 5) mk_file(level, 5);
  g_n[level] = n;
  g_ver.files[level].items = g_items[level];
  g_ver.files[level].length = n;
  g_ver.files[level].alloc = MAXF;
}
static void mk_empty(int l) { g_n[l] = 0; g_ver.files[l].items = g_items[l]; g_ver.files[l].length = 0; g_ver.files[l].alloc = MAXF; }
static void mk_version(void) {
  g_opt.max_file_size = nondet_size();
  g_vset.options = &g_opt;
  g_vset.table_cache = NULL;
  ldb_ikc_init(&g_vset.icmp, &bytewise_comparator);
  g_ver.vset = &g_vset; g_ver.next = &g_ver; g_ver.prev = &g_ver; g_ver.refs = 1;
  g_ver.file_to_compact = NULL; g_ver.file_to_compact_level = -1;
  mk_empty(0); mk_empty(1); mk_empty(2); mk_empty(3); mk_empty(4); mk_empty(5); mk_empty(6);
}
/* levels > 0: files sorted and disjoint as internal-key ranges */
#define DISJ_AT(l, i) (((i) >= g_n[l] || LE_(g_suk[l][i], g_stag[l][i], g_luk[l][i], g_ltag[l][i])) && \
                       ((i) + 1 >= g_n[l] || LT_(g_luk[l][i], g_ltag[l][i], g_suk[l][(i) + 1], g_stag[l][(i) + 1])))
#define DISJOINT_SORTED(l) (DISJ_AT(l,0) && DISJ_AT(l,1) && DISJ_AT(l,2) && DISJ_AT(l,3) && DISJ_AT(l,4) && DISJ_AT(l,5))

/* ======================================================================
 * ver.find - find_file is a lower bound on `largest` (C01, C14); n <= 6
 * ====================================================================== */
static int g_lvl;             /* the level whose vector is passed */
static ldb_buffer_t g_key; static uint8_t g_key_b[9]; static uint8_t g_kuk; static uint64_t g_ktag;  /* probe key + ghost */
#define SORTED_L_AT(l, i) ((i) + 1 >= g_n[l] || LE_(g_luk[l][i], g_ltag[l][i], g_luk[l][(i) + 1], g_ltag[l][(i) + 1]))
#define SORTED_BY_LARGEST(l) (SORTED_L_AT(l,0) && SORTED_L_AT(l,1) && SORTED_L_AT(l,2) && SORTED_L_AT(l,3) && SORTED_L_AT(l,4))
/* r is the smallest index with key <=_ik largest(files[r]), or n */
#define POST_FIND(r, l) ((r) >= 0 && (size_t)(r) <= g_n[l] && \
  ((size_t)(r) == g_n[l] || LE_(g_kuk, g_ktag, g_luk[l][r], g_ltag[l][r])) && \
  ((r) == 0 || LT_(g_luk[l][(r) - 1], g_ltag[l][(r) - 1], g_kuk, g_ktag)))

int c_find_file(const ldb_comparator_t *icmp, const ldb_vector_t *files, const ldb_slice_t *key)
__CPROVER_requires(icmp == &g_vset.icmp && g_lvl >= 0 && g_lvl < LDB_NUM_LEVELS && files == &g_ver.files[g_lvl] && key == &g_key)
__CPROVER_requires(g_n[g_lvl] <= MAXF && SORTED_BY_LARGEST(g_lvl))
__CPROVER_assigns()
__CPROVER_ensures(POST_FIND(__CPROVER_return_value, g_lvl))
;

void h_find_file(void) {
  IN_SIZE(in_n);
  ASSUME(in_n <= MAXF);
  mk_version(); mk_level(1, in_n); g_lvl = 1;
  g_kuk = nondet_u8(); g_ktag = nondet_u64(); mk_ikey(&g_key, g_key_b, g_kuk, g_ktag);
  find_file(&g_vset.icmp, &g_ver.files[1], &g_key);
  CANARY();
}

/* ======================================================================
 * ver.overlap - closed-interval overlap on user keys (C01, C14); n <= 4
 * ====================================================================== */
#define OVF 4
static uint8_t g_lo_b[1], g_hi_b[1];
static ldb_slice_t g_lo, g_hi;
static int g_has_lo, g_has_hi;   /* 0: the bound is NULL = -infinity / +infinity */
static uint8_t g_lo_v, g_hi_v;
#define LO_PTR (g_has_lo ? &g_lo : (const ldb_slice_t *)NULL)
#define HI_PTR (g_has_hi ? &g_hi : (const ldb_slice_t *)NULL)
/* file i of level l overlaps [lo, hi] (closed, on user keys) */
#define SPEC_OV_AT(l, i) ((i) < g_n[l] && !(g_has_lo && g_lo_v > g_luk[l][i]) && !(g_has_hi && g_hi_v < g_suk[l][i]))
#define SPEC_OVERLAP(l) (SPEC_OV_AT(l,0) || SPEC_OV_AT(l,1) || SPEC_OV_AT(l,2) || SPEC_OV_AT(l,3))

/* after_file / before_file: the key is passed as "lo" resp. "hi"; file = g_fm[g_lvl][0] */
int c_after_file(const ldb_comparator_t *ucmp, const ldb_slice_t *user_key, const ldb_filemeta_t *f)
__CPROVER_requires(ucmp == &bytewise_comparator && user_key == LO_PTR && g_lvl >= 0 && g_lvl < LDB_NUM_LEVELS && f == &g_fm[g_lvl][0])
__CPROVER_assigns()
__CPROVER_ensures(__CPROVER_return_value == ((g_has_lo && g_lo_v > g_luk[g_lvl][0]) ? 1 : 0))
;
int c_before_file(const ldb_comparator_t *ucmp, const ldb_slice_t *user_key, const ldb_filemeta_t *f)
__CPROVER_requires(ucmp == &bytewise_comparator && user_key == HI_PTR && g_lvl >= 0 && g_lvl < LDB_NUM_LEVELS && f == &g_fm[g_lvl][0])
__CPROVER_assigns()
__CPROVER_ensures(__CPROVER_return_value == ((g_has_hi && g_hi_v < g_suk[g_lvl][0]) ? 1 : 0))
;
int c_some_file_overlaps_range(const ldb_comparator_t *icmp, int disjoint_sorted_files, const ldb_vector_t *files,
                               const ldb_slice_t *smallest_user_key, const ldb_slice_t *largest_user_key)
__CPROVER_requires(icmp == &g_vset.icmp && g_lvl >= 0 && g_lvl < LDB_NUM_LEVELS && files == &g_ver.files[g_lvl])
__CPROVER_requires(smallest_user_key == LO_PTR && largest_user_key == HI_PTR && g_n[g_lvl] <= OVF)
__CPROVER_requires(disjoint_sorted_files ==> DISJOINT_SORTED(g_lvl))
__CPROVER_assigns()
__CPROVER_ensures(__CPROVER_return_value == (SPEC_OVERLAP(g_lvl) ? 1 : 0))
;
int c_version_overlap_in_level(ldb_version_t *ver, int level, const ldb_slice_t *smallest_user_key, const ldb_slice_t *largest_user_key)
__CPROVER_requires(ver == &g_ver && level >= 0 && level < LDB_NUM_LEVELS && g_n[level] <= OVF)
__CPROVER_requires(smallest_user_key == LO_PTR && largest_user_key == HI_PTR)
__CPROVER_requires(level > 0 ==> DISJOINT_SORTED(level))
__CPROVER_assigns()
__CPROVER_ensures(__CPROVER_return_value == (SPEC_OVERLAP(level) ? 1 : 0))
;

static void mk_bounds(void) {
  g_has_lo = nondet_int() ? 1 : 0; g_has_hi = nondet_int() ? 1 : 0;
  g_lo_v = nondet_u8(); g_hi_v = nondet_u8();
  g_lo_b[0] = g_lo_v; g_lo.data = g_lo_b; g_lo.size = 1; g_lo.alloc = 0;
  g_hi_b[0] = g_hi_v; g_hi.data = g_hi_b; g_hi.size = 1; g_hi.alloc = 0;
}
void h_after_file(void) {
  mk_version(); mk_level(1, 1); g_lvl = 1; mk_bounds();
  after_file(&bytewise_comparator, LO_PTR, &g_fm[1][0]);
  CANARY();
}
void h_before_file(void) {
  mk_version(); mk_level(1, 1); g_lvl = 1; mk_bounds();
  before_file(&bytewise_comparator, HI_PTR, &g_fm[1][0]);
  CANARY();
}
void h_some_file_overlaps(void) {
  IN_SIZE(in_n); IN_INT(in_disjoint);
  ASSUME(in_n <= OVF);
  mk_version(); mk_level(1, in_n); g_lvl = 1; mk_bounds();
  some_file_overlaps_range(&g_vset.icmp, in_disjoint, &g_ver.files[1], LO_PTR, HI_PTR);
  CANARY();
}
void h_overlap_in_level(void) {
  IN_SIZE(in_n); IN_INT(in_level);
  ASSUME(in_n <= OVF && in_level >= 0 && in_level < LDB_NUM_LEVELS);
  mk_version(); mk_level(in_level, in_n); mk_bounds();
  ldb_version_overlap_in_level(&g_ver, in_level, LO_PTR, HI_PTR);
  CANARY();
}
