/* units/ver3_bld.c - VersionSet::Builder of src/version_set.c (group "ver3": C14, C17, C13)
 *
 *   ver3.builder.00/.11/.01   builder_init -> builder_apply -> builder_save_to -> builder_clear on one edit
 *   ver3.builder.seq          two edits applied to one builder (MANIFEST replay): add then delete, delete then re-add
 *
 * Same specification as the pending units ver2.builder.* (units/ver2_bld.c, which run the REAL red-black tree and were never
 * observed to finish); here util/rbt.c is replaced by a GHOST SET MODEL: a set is a sorted array of <= GS_CAP rb_node_t kept in
 * the order of the tree's comparator, with the API semantics of rbt.c (put of an equal element is refused and returns 0, del
 * returns whether it removed something, iteration ascends, clear calls the destructor on every node).  The comparators are
 * the real ones (file_set_compare -> by_smallest_key -> ldb_ikc_compare -> byte-wise comparator).
 *
 * Stubbed (src/version_edit.c is not linked): ldb_filemeta_clone hands out one static clone object per new-file entry and
 * copies number, size and the two 9-byte keys (refs / allowed_seeks arbitrary: the builder must set them);
 * ldb_filemeta_ref / ldb_filemeta_unref count references and record a destruction (refs <= 0) in a ghost counter.
 */
#include "ver2_model.h"

/* ======================================================================================================
 * Ghost model of util/rbt.c
 * ====================================================================================================== */
#define GS_CAP 3
#define GS_NSETS 18
struct gset { size_t n; rb_node_t node[GS_CAP + 1]; };   /* node[GS_CAP] = the iterator's end position (never NULL: see gs_end) */
static struct gset g_sets[GS_NSETS]; static size_t g_nsets;
static int h_file_entry_compare(rb_val_t x, rb_val_t y, void *arg);
static ldb_filemeta_t cl_0, cl_1;          /* the clones (defined below) */
static file_entry_t de_0, de_1;          /* the deleted-file entries of the edit */

static struct gset *gs_of(const rb_tree_t *tree) { return (struct gset *)tree->root; }
void ldb_rb_tree_init(rb_tree_t *tree, rb_cmp_f *compare, void *arg) {
  struct gset *s;
  __CPROVER_assert(g_nsets < GS_NSETS, "set model: pool large enough");
  s = &g_sets[g_nsets++]; s->n = 0;
  /* unused slots hold a valid element of the set's type (never looked at by a correct caller; keeps every pointer that symex
     reads out of the model a pointer to a real object instead of an unconstrained one) */
  if (compare == file_set_compare) { s->node[0].key.ptr = &cl_0; s->node[1].key.ptr = &cl_0; s->node[2].key.ptr = &cl_0; s->node[3].key.ptr = &cl_0; }
  else if (compare == h_file_entry_compare) { s->node[0].key.ptr = &de_0; s->node[1].key.ptr = &de_0; s->node[2].key.ptr = &de_0; s->node[3].key.ptr = &de_0; }
  else { s->node[0].key.ui = 0; s->node[1].key.ui = 0; s->node[2].key.ui = 0; s->node[3].key.ui = 0; }
  tree->root = (rb_node_t *)s; tree->compare = compare; tree->arg = arg; tree->size = 0;
}
/* The model is written twice, once per element type, with typed values and member-wise union accesses at CONSTANT slots:
   a pointer that travels through a by-value union or is stored at a symbolic index comes back to symex as raw bytes and loses
   its target; writes through such a pointer then alias every object of the unit. */
/* ---- sets of pointers (added files: file_set_compare; deleted entries of the edit: h_file_entry_compare) ---- */
static int gs_cmp_ptr(const rb_tree_t *tree, const void *a, const void *b) {
  /* explicit dispatch over the comparators that exist in this unit (no call through tree->compare) */
  if (tree->compare == file_set_compare) {
    __CPROVER_assert(tree->arg == (void *)&g_vset.icmp, "set model: the added-file sets are ordered by the version set's internal key comparator");
    return file_set_compare(rb_ptr(a), rb_ptr(b), &g_vset.icmp);
  }
  __CPROVER_assert(tree->compare == h_file_entry_compare, "set model: known pointer comparator");
  return h_file_entry_compare(rb_ptr(a), rb_ptr(b), NULL);
}
int ldb_rb_set_put(rb_tree_t *tree, const void *item) {
  struct gset *s = gs_of(tree); size_t i, pos = s->n;
  for (i = 0; i < GS_CAP; i++)
    if (i < s->n) {
      int c = gs_cmp_ptr(tree, item, s->node[i].key.ptr);
      if (c == 0) return 0;                   /* rb_tree_put: an equal key is not inserted again */
      if (c < 0 && pos == s->n) pos = i;
    }
  __CPROVER_assert(s->n < GS_CAP, "set model: capacity");
  for (i = GS_CAP - 1; i > 0; i--) if (i > pos && i <= s->n) s->node[i].key.ptr = s->node[i - 1].key.ptr;
  for (i = 0; i < GS_CAP; i++) if (i == pos) s->node[i].key.ptr = (void *)item;
  s->n++; tree->size = s->n;
  return 1;
}
/* ---- sets of 64-bit numbers (deleted file numbers per level) ---- */
static int gs_find64(const rb_tree_t *tree, uint64_t item, size_t *at) {
  struct gset *s = gs_of(tree); size_t i;
  __CPROVER_assert(tree->compare == rb_set64_compare, "set model: a number set");
  for (i = 0; i < GS_CAP; i++) if (i < s->n && s->node[i].key.ui == item) { *at = i; return 1; }
  return 0;
}
int ldb_rb_set64_has(const rb_tree_t *tree, uint64_t item) { size_t at; return gs_find64(tree, item, &at); }
int ldb_rb_set64_put(rb_tree_t *tree, uint64_t item) {
  struct gset *s = gs_of(tree); size_t i, pos = s->n, at;
  if (gs_find64(tree, item, &at)) return 0;
  for (i = 0; i < GS_CAP; i++) if (i < s->n && item < s->node[i].key.ui && pos == s->n) pos = i;
  __CPROVER_assert(s->n < GS_CAP, "set model: capacity");
  for (i = GS_CAP - 1; i > 0; i--) if (i > pos && i <= s->n) s->node[i].key.ui = s->node[i - 1].key.ui;
  for (i = 0; i < GS_CAP; i++) if (i == pos) s->node[i].key.ui = item;
  s->n++; tree->size = s->n;
  return 1;
}
int ldb_rb_set64_del(rb_tree_t *tree, uint64_t item) {
  struct gset *s = gs_of(tree); size_t i, at = 0;
  if (!gs_find64(tree, item, &at)) return 0;
  for (i = 0; i + 1 < GS_CAP; i++) if (i >= at && i + 1 < s->n) s->node[i].key.ui = s->node[i + 1].key.ui;
  s->n--; tree->size = s->n;
  return 1;
}
void ldb_rb_tree_clear(rb_tree_t *tree, rb_clear_f *clear) {
  struct gset *s = gs_of(tree); size_t i;
  __CPROVER_assert(clear == NULL || clear == file_set_destruct, "set model: known destructor");
  for (i = 0; i < GS_CAP; i++) if (i < s->n && clear != NULL) file_set_destruct(&s->node[i]);
  s->n = 0; tree->size = 0;
}
/* iteration: ascending.  The iterator always points at a CONSTANT slot &node[k] (k = 0, 1, ..; slot GS_CAP is a spare that is
   never an element) and validity is "k < n": symex derives the targets of rb_key_ptr(it) from every value it.node may hold, so a
   NULL or a choice between slots would make the element pointer unconstrained. */
void ldb_rb_iter_start(rb_iter_t *iter, const rb_tree_t *tree) {
  struct gset *s = gs_of(tree);
  iter->tree = tree; iter->root = tree->root; iter->node = &s->node[0];
}
int ldb_rb_iter_valid(const rb_iter_t *iter) {
  const struct gset *s = (const struct gset *)iter->root; size_t i = (size_t)(iter->node - s->node);
  return i < s->n && i < GS_CAP;
}
void ldb_rb_iter_next(rb_iter_t *iter) {
  const struct gset *s = (const struct gset *)iter->root; size_t i = (size_t)(iter->node - s->node);
  /* the step itself does not depend on the (symbolic) size: the position stays a constant slot */
  if (i < GS_CAP) iter->node = iter->node + 1;
  (void)s;
}

/* ======================================================================================================
 * The edit(s) and the clones
 * ====================================================================================================== */
#define NADD 2
#define NDEL 2
#define NBASE 2
/* ghost description of the edit */
static int a_lvl[NADD]; static uint64_t a_num[NADD], a_sz[NADD], a_stag[NADD], a_ltag[NADD]; static uint8_t a_suk[NADD], a_luk[NADD];
static int d_lvl[NDEL]; static uint64_t d_num[NDEL];
static size_t n_add, n_del, n_cp;
static int cp_lvl; static uint8_t cp_uk; static uint64_t cp_tag;
/* the edit itself */
static ldb_edit_t g_edit, g_edit2;
static meta_entry_t me_0, me_1; static uint8_t mks_0[9], mkl_0[9], mks_1[9], mkl_1[9];
static void *g_newf[NADD + 1], *g_newf2[NADD + 1];   /* one spare slot: see mk_edit */
static file_entry_t de_0, de_1;
static ikey_entry_t ce_0; static uint8_t cek_0[9]; static void *g_cps[1];
/* clones */
static ldb_filemeta_t cl_0, cl_1; static uint8_t cks_0[9], ckl_0[9], cks_1[9], ckl_1[9];
static int g_destroyed, g_clones;
static ldb_version_t g_nv;       /* the version under construction */
static builder_t g_b;

static void copy9(uint8_t *d, const uint8_t *s) { d[0] = s[0]; d[1] = s[1]; d[2] = s[2]; d[3] = s[3]; d[4] = s[4]; d[5] = s[5]; d[6] = s[6]; d[7] = s[7]; d[8] = s[8]; }
ldb_filemeta_t *ldb_filemeta_clone(const ldb_filemeta_t *meta) {
  ldb_filemeta_t *f; uint8_t *ks, *kl;
  __CPROVER_assert(meta == &me_0.meta || meta == &me_1.meta, "builder_apply: clones the metadata of a new-file entry of the edit");
  if (meta == &me_0.meta) { f = &cl_0; ks = cks_0; kl = ckl_0; } else { f = &cl_1; ks = cks_1; kl = ckl_1; }
  f->refs = meta->refs; f->allowed_seeks = meta->allowed_seeks; f->number = meta->number; f->file_size = meta->file_size;
  copy9(ks, meta->smallest.data); copy9(kl, meta->largest.data);
  f->smallest.data = ks; f->smallest.size = meta->smallest.size; f->smallest.alloc = 0;
  f->largest.data = kl; f->largest.size = meta->largest.size; f->largest.alloc = 0;
  g_clones++;
  return f;
}
void ldb_filemeta_ref(ldb_filemeta_t *z) { z->refs++; }
void ldb_filemeta_unref(ldb_filemeta_t *z) { z->refs--; if (z->refs <= 0) g_destroyed++; }

/* same order as version_edit.c's file_entry_compare (the builder only iterates the set) */
static int h_file_entry_compare(rb_val_t x, rb_val_t y, void *arg) {
  file_entry_t *xp = x.ptr, *yp = y.ptr;
  (void)arg;
  if (xp->level != yp->level) return xp->level - yp->level;
  return LDB_CMP(xp->number, yp->number);
}
static void mk_added(size_t k, int lvl, meta_entry_t *e, uint8_t *ks, uint8_t *kl) {
  a_lvl[k] = lvl;
  a_num[k] = nondet_u64(); a_sz[k] = nondet_u64(); a_suk[k] = nondet_u8(); a_luk[k] = nondet_u8(); a_stag[k] = nondet_u64(); a_ltag[k] = nondet_u64();
  __CPROVER_assume((a_stag[k] & 0xff) <= 1 && (a_ltag[k] & 0xff) <= 1);
  e->level = lvl;
  e->meta.refs = nondet_int(); e->meta.allowed_seeks = nondet_int(); e->meta.number = a_num[k]; e->meta.file_size = a_sz[k];
  mk_ikey(&e->meta.smallest, ks, a_suk[k], a_stag[k]);
  mk_ikey(&e->meta.largest, kl, a_luk[k], a_ltag[k]);
}
static void mk_deleted(ldb_edit_t *edit, size_t k, int lvl, file_entry_t *e, int present) {
  d_lvl[k] = lvl; d_num[k] = nondet_u64();
  e->level = lvl; e->number = d_num[k];
  if (present) rb_set_put(&edit->deleted_files, e);
}
static void edit_scalars(ldb_edit_t *e) {
  e->has_comparator = 0; e->has_log_number = 0; e->has_prev_log_number = 0; e->has_next_file_number = 0; e->has_last_sequence = 0;
}
/* levels are compile-time constants of the harness variant (constant index into builder->levels[]) */
static void mk_edit(size_t nadd, int la0, int la1, size_t ndel, int ld0, int ld1, size_t ncp, int lcp) {
  n_add = nadd; n_del = ndel; n_cp = ncp;
  edit_scalars(&g_edit);
  /* CBMC explores one loop iteration more than is feasible (under a false guard): the slot after the last element holds a valid
     entry, so that this phantom iteration does not read an unconstrained pointer (writes through one alias every object) */
  g_newf[0] = &me_0; g_newf[1] = &me_1; g_newf[2] = &me_1;
  g_edit.new_files.items = g_newf; g_edit.new_files.length = nadd; g_edit.new_files.alloc = NADD;
  /* both entries of each kind exist as objects with their (constant) levels; the list length / set membership says how many are used */
  mk_added(0, la0, &me_0, mks_0, mkl_0);
  mk_added(1, la1, &me_1, mks_1, mkl_1);
  rb_set_init(&g_edit.deleted_files, h_file_entry_compare, NULL);
  mk_deleted(&g_edit, 0, ld0, &de_0, ndel > 0);
  mk_deleted(&g_edit, 1, ld1, &de_1, ndel > 1);
  cp_lvl = lcp; cp_uk = nondet_u8(); cp_tag = nondet_u64();
  ce_0.level = cp_lvl; mk_ikey(&ce_0.key, cek_0, cp_uk, cp_tag); g_cps[0] = &ce_0;
  g_edit.compact_pointers.items = g_cps; g_edit.compact_pointers.length = ncp; g_edit.compact_pointers.alloc = 1;
}

/* ======================================================================================================
 * Specification (ghost scalars only)
 * ====================================================================================================== */
/* (smallest internal key, then file number): the order of by_smallest_key */
#define BYSK_LT(uk1, t1, n1, uk2, t2, n2) (LT_(uk1, t1, uk2, t2) || ((uk1) == (uk2) && (t1) == (t2) && (n1) < (n2)))
#define BASE_SORTED(l) (g_n[l] < 2 || BYSK_LT(g_suk[l][0], g_stag[l][0], g_num[l][0], g_suk[l][1], g_stag[l][1], g_num[l][1]))
/* the edit deletes number n at level l, and no file added at level l carries that number (adding undoes a deletion) */
#define DEL_ENTRY(l, n) ((0 < n_del && d_lvl[0] == (l) && d_num[0] == (n)) || (1 < n_del && d_lvl[1] == (l) && d_num[1] == (n)))
#define ADD_ENTRY(l, n) ((0 < n_add && a_lvl[0] == (l) && a_num[0] == (n)) || (1 < n_add && a_lvl[1] == (l) && a_num[1] == (n)))
#define DELETED(l, n) (DEL_ENTRY(l, n) && !ADD_ENTRY(l, n))
#define RES(l) (g_nv.files[l])
#define IN_RES(l, p) ((RES(l).length > 0 && RES(l).items[0] == (void *)(p)) || (RES(l).length > 1 && RES(l).items[1] == (void *)(p)) || \
                      (RES(l).length > 2 && RES(l).items[2] == (void *)(p)) || (RES(l).length > 3 && RES(l).items[3] == (void *)(p)))

struct ghost_file { uint8_t suk, luk; uint64_t stag, ltag, num; int known; };
static struct ghost_file ghost_of(int l, const void *p) {
  struct ghost_file g; g.known = 1;
  if (p == (void *)g_fmp[l][0]) { g.suk = g_suk[l][0]; g.stag = g_stag[l][0]; g.luk = g_luk[l][0]; g.ltag = g_ltag[l][0]; g.num = g_num[l][0]; }
  else if (p == (void *)g_fmp[l][1]) { g.suk = g_suk[l][1]; g.stag = g_stag[l][1]; g.luk = g_luk[l][1]; g.ltag = g_ltag[l][1]; g.num = g_num[l][1]; }
  else if (p == (void *)&cl_0) { g.suk = a_suk[0]; g.stag = a_stag[0]; g.luk = a_luk[0]; g.ltag = a_ltag[0]; g.num = a_num[0]; }
  else if (p == (void *)&cl_1) { g.suk = a_suk[1]; g.stag = a_stag[1]; g.luk = a_luk[1]; g.ltag = a_ltag[1]; g.num = a_num[1]; }
  else { g.known = 0; g.suk = 0; g.luk = 0; g.stag = 0; g.ltag = 0; g.num = 0; }
  return g;
}
static void check_level(int l) {
  size_t exp = 0, j; int disjoint = 1;
  /* membership */
  if (g_n[l] > 0) { int keep = !DELETED(l, g_num[l][0]); exp += keep;
    CHECK((IN_RES(l, g_fmp[l][0]) ? 1 : 0) == keep, "builder: a base file is carried over iff the edit does not delete its number at its level (deleted files never appear)");
    CHECK(g_fmp[l][0]->refs == 1 + keep, "builder: exactly the base files carried over gain one reference"); }
  if (g_n[l] > 1) { int keep = !DELETED(l, g_num[l][1]); exp += keep;
    CHECK((IN_RES(l, g_fmp[l][1]) ? 1 : 0) == keep, "builder: a base file is carried over iff the edit does not delete its number at its level (deleted files never appear)");
    CHECK(g_fmp[l][1]->refs == 1 + keep, "builder: exactly the base files carried over gain one reference"); }
  if (n_add > 0) { int here = a_lvl[0] == l; exp += here;
    CHECK((IN_RES(l, &cl_0) ? 1 : 0) == here, "builder: an added file appears at exactly the level the edit names"); }
  if (n_add > 1) { int here = a_lvl[1] == l; exp += here;
    CHECK((IN_RES(l, &cl_1) ? 1 : 0) == here, "builder: an added file appears at exactly the level the edit names"); }
  CHECK(RES(l).length == exp, "builder: the level holds (base files not deleted) + (added files), each exactly once");
  /* order */
  for (j = 0; j + 1 < NBASE + NADD; j++)
    if (j + 1 < RES(l).length) {
      struct ghost_file x = ghost_of(l, RES(l).items[j]), y = ghost_of(l, RES(l).items[j + 1]);
      CHECK(x.known && y.known, "builder: every element is a base file of the level or a clone of an added file");
      CHECK(!BYSK_LT(y.suk, y.stag, y.num, x.suk, x.stag, x.num), "builder: the level list is sorted by (smallest internal key, then file number)");
    }
  /* levels > 0: if the surviving files are pairwise disjoint key ranges (what the compaction logic guarantees for the edits it
     writes), then no two NEIGHBOURS of the saved list overlap: x.largest < y.smallest (C14) */
  if (l > 0) {
    size_t i;
    for (i = 0; i < NBASE + NADD; i++)
      for (j = 0; j < NBASE + NADD; j++)
        if (i < j && j < RES(l).length) {
          struct ghost_file x = ghost_of(l, RES(l).items[i]), y = ghost_of(l, RES(l).items[j]);
          if (!(LE_(x.suk, x.stag, x.luk, x.ltag) && LE_(y.suk, y.stag, y.luk, y.ltag) &&
                (LT_(x.luk, x.ltag, y.suk, y.stag) || LT_(y.luk, y.ltag, x.suk, x.stag)))) disjoint = 0;
        }
    for (j = 0; j + 1 < NBASE + NADD; j++)
      if (disjoint && j + 1 < RES(l).length) {
        struct ghost_file x = ghost_of(l, RES(l).items[j]), y = ghost_of(l, RES(l).items[j + 1]);
        CHECK(LT_(x.luk, x.ltag, y.suk, y.stag), "builder: above level 0, pairwise disjoint surviving files are saved so that every file ends before its right neighbour starts");
      }
  }
}
static void check_clone(size_t k, const ldb_filemeta_t *c, const uint8_t *ks, const uint8_t *kl, int expect_refs) {
  int64_t q = (int64_t)(a_sz[k] / 16384);
  CHECK(c->number == a_num[k] && c->file_size == a_sz[k] && c->smallest.size == 9 && c->largest.size == 9 && ks[0] == a_suk[k] && kl[0] == a_luk[k],
        "builder: an added file carries the number, size and key range of the edit entry");
  CHECK(c->allowed_seeks == (q < 100 ? 100 : (int)q), "builder: allowed_seeks = max(100, file_size / 16384)");
  CHECK(c->refs == expect_refs, "builder: an added file ends with exactly one reference (held by the new version) after the builder is cleared; none if it was deleted again");
}

static void world(size_t n0, size_t n1) {
  ASSUME(n0 <= NBASE && n1 <= NBASE);
  g_nsets = 0;
  mk_version();
  /* both model files of each level exist as objects (phantom loop iterations read slot n) */
  mk_level(0, 3); mk_level(1, 3); mk_level(0, n0); mk_level(1, n1);
  /* the base version is sorted by (smallest, number) at every level - builder_save_to's own postcondition, assumed for its input */
  ASSUME(BASE_SORTED(0) && BASE_SORTED(1));
  { int l; for (l = 0; l < LDB_NUM_LEVELS; l++) ldb_buffer_init(&g_vset.compact_pointer[l]); }
  g_destroyed = 0; g_clones = 0;
  ldb_version_init(&g_nv, &g_vset);
}

static void builder_scenario(int la0, int la1, int ld0, int ld1, int lcp) {
  IN_SIZE(in_n0); IN_SIZE(in_n1); IN_SIZE(in_nadd); IN_SIZE(in_ndel0); IN_SIZE(in_ncp);
  /* deletions at two DIFFERENT levels: always both entries (their numbers are arbitrary and may match no file, which is the same
     as no deletion); the count is then a constant and the edit's set has a fixed order (level first), so the entry pointers the
     builder reads stay constants for symex.  Deletions at one level: 0, 1 or 2 entries. */
  size_t in_ndel = (ld0 != ld1) ? (size_t)NDEL : in_ndel0;
  ASSUME(in_nadd <= NADD && in_ndel <= NDEL && in_ncp <= 1);
  world(in_n0, in_n1);
  mk_edit(in_nadd, la0, la1, in_ndel, ld0, ld1, in_ncp, lcp);
  /* file numbers come from the allocator (ver.numbers): two added files never share a number */
  ASSUME(in_nadd < 2 || a_num[0] != a_num[1]);
  /* file sizes are real sizes (< 2^44: the quotient fits an int) */
  ASSUME(a_sz[0] < ((uint64_t)1 << 44) && a_sz[1] < ((uint64_t)1 << 44));

  builder_init(&g_b, &g_vset, &g_ver);
  CHECK(g_ver.refs == 2, "builder_init: pins the base version");
  builder_apply(&g_b, &g_edit);
  builder_save_to(&g_b, &g_nv);
  builder_clear(&g_b);

  check_level(0); check_level(1);
  CHECK(g_nv.files[2].length == 0 && g_nv.files[6].length == 0, "builder: untouched levels stay empty");
  if (in_nadd > 0) check_clone(0, &cl_0, cks_0, ckl_0, 1);
  if (in_nadd > 1) check_clone(1, &cl_1, cks_1, ckl_1, 1);
  CHECK(g_clones == (int)in_nadd && g_destroyed == 0, "builder: one clone per added file, nothing is destroyed");
  CHECK(g_ver.refs == 1, "builder: the base version's reference is taken by builder_init and dropped by builder_clear");
  if (in_ncp > 0) {
    const ldb_buffer_t *cp = &g_vset.compact_pointer[cp_lvl];
    CHECK(cp->size == 9 && cp->data[0] == cp_uk && cp->data[1] == (uint8_t)cp_tag && cp->data[8] == (uint8_t)(cp_tag >> 56),
          "builder_apply: the edit's compact pointer is copied to the version set at its level");
    CHECK(g_vset.compact_pointer[1 - cp_lvl].size == 0, "builder_apply: other compact pointers stay untouched");
  } else {
    CHECK(g_vset.compact_pointer[0].size == 0 && g_vset.compact_pointer[1].size == 0, "builder_apply: no compact pointer in the edit, none set");
  }
}
/* both added files in level 0 (overlapping allowed there), deletions in level 0 and 1 */
void h_builder_00(void) { builder_scenario(0, 0, 0, 1, 0); CANARY(); }
/* both added files in level 1, both deletions in level 1 */
void h_builder_11(void) { builder_scenario(1, 1, 1, 1, 1); CANARY(); }
/* one added file per level, deletions in level 1 and 0 */
void h_builder_01(void) { builder_scenario(0, 1, 1, 0, 1); CANARY(); }

/* ======================================================================================================
 * ver3.builder.seq - two edits through ONE builder (ldb_versions_recover replays the whole MANIFEST this way)
 *   order A: edit 1 adds file X at level 1, edit 2 deletes (1, X.number)  -> X is NOT in the result and is released
 *   order B: edit 1 deletes (1, N), edit 2 adds file X with number N       -> X IS in the result (adding undoes the deletion)
 * plus one base file at level 1 that is deleted iff its number is the deleted one
 * ====================================================================================================== */
void h_builder_seq(void) {
  IN_SIZE(in_n1); IN_INT(in_add_first); IN_INT(in_same_number);
  int keep_x, keep_base;
  ASSUME(in_n1 <= 1);
  world(0, in_n1);
  /* edit with the added file */
  n_add = 1; n_del = 1; n_cp = 0;
  edit_scalars(&g_edit); edit_scalars(&g_edit2);
  g_newf[0] = &me_0; g_newf[1] = &me_0; g_newf[2] = &me_0; g_newf2[0] = &me_0; g_newf2[1] = &me_0;
  mk_added(0, 1, &me_0, mks_0, mkl_0);
  ASSUME(a_sz[0] < ((uint64_t)1 << 44));
  g_edit.new_files.items = g_newf; g_edit.new_files.length = 1; g_edit.new_files.alloc = NADD;
  rb_set_init(&g_edit.deleted_files, h_file_entry_compare, NULL);
  g_edit.compact_pointers.items = g_cps; g_edit.compact_pointers.length = 0; g_edit.compact_pointers.alloc = 1;
  /* edit with the deletion */
  g_edit2.new_files.items = g_newf2; g_edit2.new_files.length = 0; g_edit2.new_files.alloc = NADD;
  rb_set_init(&g_edit2.deleted_files, h_file_entry_compare, NULL);
  mk_deleted(&g_edit2, 0, 1, &de_0, 1);
  if (in_same_number) ASSUME(d_num[0] == a_num[0]);
  g_edit2.compact_pointers.items = g_cps; g_edit2.compact_pointers.length = 0; g_edit2.compact_pointers.alloc = 1;
  /* the base file is not the added file (ver.numbers) */
  ASSUME(in_n1 < 1 || g_num[1][0] != a_num[0]);

  builder_init(&g_b, &g_vset, &g_ver);
  if (in_add_first) { builder_apply(&g_b, &g_edit); builder_apply(&g_b, &g_edit2); }
  else { builder_apply(&g_b, &g_edit2); builder_apply(&g_b, &g_edit); }
  builder_save_to(&g_b, &g_nv);
  builder_clear(&g_b);

  /* the later record wins */
  keep_x = !(in_add_first && d_num[0] == a_num[0]);
  keep_base = !(in_n1 > 0 && d_num[0] == g_num[1][0]);
  CHECK((IN_RES(1, &cl_0) ? 1 : 0) == keep_x, "builder (two edits): a file added and deleted later is gone; a number deleted and added later is present");
  if (in_n1 > 0) CHECK((IN_RES(1, g_fmp[1][0]) ? 1 : 0) == keep_base, "builder (two edits): a base file is dropped iff its (level, number) was deleted");
  CHECK(RES(1).length == (size_t)keep_x + (in_n1 > 0 ? (size_t)keep_base : 0) && RES(0).length == 0, "builder (two edits): nothing else appears");
  check_clone(0, &cl_0, cks_0, ckl_0, keep_x ? 1 : 0);
  CHECK(g_destroyed == (keep_x ? 0 : 1), "builder (two edits): an added file that did not make it into the version is released exactly once when the builder is cleared");
  CHECK(g_ver.refs == 1, "builder: the base version's reference is dropped by builder_clear");
  CANARY();
}
