/* units/mem.c - proof units for src/memtable.c (C01, C04, C06)
 *
 * The real memtable.c is included unmodified.  Its environment is abstracted:
 *   - the arena hands out a fresh heap block of exactly the requested size and
 *     records (pointer, size) in ghost state;
 *   - the skip list is a ghost recorder: insert records the entry pointer,
 *     the iterator seek records its target and positions on an entry chosen
 *     by the harness (arbitrary well-formed entry, or invalid);
 *   - the user comparator is an uninterpreted three-way function that records
 *     its operands (parametric in the user order);
 *   - ldb_buffer_copy records (destination, source slice).
 * The wire layout of a memtable entry is spelled here from the LevelDB
 * memtable format:  varint32(klen+8) | key | LE64(seq<<8|type) | varint32(vlen) | value.
 */
#include "verif.h"
#include "contracts/coding.h"

#include "table/iterator.h"
#include "util/arena.h"
#include "util/buffer.h"
#include "util/comparator.h"
#include "util/slice.h"
#include "util/status.h"
#include "dbformat.h"
#include "skiplist.h"

/* ------------------------------------------------------------------ ghost */
uint8_t *g_alloc_ptr;     /* block handed out by the arena                    */
size_t g_alloc_size;      /* its size                                         */
int g_alloc_calls;
ldb_arena_t *g_alloc_arena;
const uint8_t *g_ins_ptr; /* pointer handed to the skip list                  */
ldb_skiplist_t *g_ins_list;
int g_ins_calls;
int g_ins_after_alloc;    /* insert happened after the (only) allocation      */

void *ldb_arena_alloc(ldb_arena_t *arena, size_t size) {
  uint8_t *p = malloc(size);
  __CPROVER_assume(p != NULL);
  g_alloc_ptr = p; g_alloc_size = size; g_alloc_arena = arena; g_alloc_calls++;
  return p;
}

void ldb_skiplist_insert(ldb_skiplist_t *list, const uint8_t *key) {
  g_ins_ptr = key; g_ins_list = list; g_ins_calls++;
  g_ins_after_alloc = (g_alloc_calls == 1);
}

/* --- skip-list iterator: ghost cursor with at most one visible entry --- */
const ldb_skiplist_t *g_it_list;
const uint8_t *g_seek_target;
int g_seek_calls;
int g_found;              /* seek lands on an entry (1) or past the end (0)  */
const uint8_t *g_entry;   /* the entry it lands on                            */
int g_it_positioned;

void ldb_skipiter_init(ldb_skipiter_t *iter, const ldb_skiplist_t *list) {
  iter->list = list; iter->node = NULL; g_it_list = list; g_it_positioned = 0;
}
void ldb_skipiter_seek(ldb_skipiter_t *iter, const uint8_t *target) {
  __CPROVER_assert(iter->list == g_it_list, "skipiter_seek: iterator was initialised on the memtable's list");
  g_seek_target = target; g_seek_calls++; g_it_positioned = 1;
}
int ldb_skipiter_valid(const ldb_skipiter_t *iter) {
  __CPROVER_assert(g_it_positioned, "skipiter_valid: asked only after the seek");
  return g_found;
}
const uint8_t *ldb_skipiter_key(const ldb_skipiter_t *iter) {
  __CPROVER_assert(g_it_positioned && g_found, "skipiter_key: requires a valid position");
  return g_entry;
}

/* --- user comparator: uninterpreted, records operands --- */
int g_cmp_calls;
const uint8_t *g_cmp_xd; size_t g_cmp_xn;
const uint8_t *g_cmp_yd; size_t g_cmp_yn;
int g_cmp_ret;
const ldb_comparator_t *g_cmp_self;

static int stub_user_compare(const ldb_comparator_t *c, const ldb_slice_t *x, const ldb_slice_t *y) {
  g_cmp_self = c; g_cmp_calls++;
  g_cmp_xd = x->data; g_cmp_xn = x->size; g_cmp_yd = y->data; g_cmp_yn = y->size;
  return g_cmp_ret;
}

/* --- value hand-over --- */
int g_copy_calls;
ldb_buffer_t *g_copy_dst;
const uint8_t *g_copy_src; size_t g_copy_n;

void ldb_buffer_copy(ldb_buffer_t *z, const ldb_buffer_t *x) {
  g_copy_calls++; g_copy_dst = z; g_copy_src = x->data; g_copy_n = x->size;
}


/* --- memcpy: ghost-index model.  Checks the operand ranges like the real one
 * and copies exactly the byte at the arbitrary ghost index g_j (all other
 * destination bytes keep their arbitrary previous content: an
 * over-approximation that is exact for every statement about byte g_j). --- */
size_t g_j;   /* arbitrary ghost index: "for every byte of key / value" */
int g_cpy_calls;
void *memcpy(void *dst, const void *src, size_t n) {
  __CPROVER_assert(__CPROVER_r_ok(src, n), "memcpy: source readable for n bytes");
  __CPROVER_assert(__CPROVER_w_ok(dst, n), "memcpy: destination writable for n bytes");
  g_cpy_calls++;
  if (g_j < n)
    ((uint8_t *)dst)[g_j] = ((const uint8_t *)src)[g_j];
  return dst;
}

#include "memtable.c"

/* ===================================================== ldb_memtable_add == */

#define KHDR(klen) V32_SIZE((uint32_t)((klen) + 8))
#define VHDR(vlen) V32_SIZE((uint32_t)(vlen))
#define ENTRY_SIZE(klen, vlen) (KHDR(klen) + (klen) + 8 + VHDR(vlen) + (vlen))
#define TAG_OF(seq, type) ((((uint64_t)(seq)) << 8) | (uint64_t)(type))

/* exactly one block of exactly the entry's size from the memtable's arena,
   the same pointer handed once to the memtable's skip list, afterwards */
#define POST_ADD_PROTOCOL(mt, klen, vlen) \
  (g_alloc_calls == 1 && g_ins_calls == 1 && g_ins_after_alloc && g_alloc_arena == &(mt)->arena && g_ins_list == &(mt)->table && \
   g_ins_ptr == g_alloc_ptr && g_alloc_size == ENTRY_SIZE(klen, vlen))
/* varint32(klen+8) at offset 0 */
#define POST_ADD_KHDR(e, klen) \
  (V_WELLFORMED(e, KHDR(klen)) && V32_VAL(e, KHDR(klen)) == (uint32_t)((klen) + 8))
/* LE64(seq<<8|type) right after the user key */
#define POST_ADD_TAG(e, klen, seq, type) IS_LE64((e) + KHDR(klen) + (klen), TAG_OF(seq, type))
/* varint32(vlen) right after the tag */
#define POST_ADD_VHDR(e, klen, vlen) \
  (V_WELLFORMED((e) + KHDR(klen) + (klen) + 8, VHDR(vlen)) && V32_VAL((e) + KHDR(klen) + (klen) + 8, VHDR(vlen)) == (uint32_t)(vlen))

void c_memtable_add(ldb_memtable_t *mt, ldb_seqnum_t sequence, ldb_valtype_t type, const ldb_slice_t *key, const ldb_slice_t *value)
__CPROVER_requires(__CPROVER_rw_ok(mt, sizeof(*mt)) && __CPROVER_r_ok(key, sizeof(*key)) && __CPROVER_r_ok(value, sizeof(*value)))
__CPROVER_requires(key->size == 0 || __CPROVER_r_ok(key->data, key->size))
__CPROVER_requires(value->size == 0 || __CPROVER_r_ok(value->data, value->size))
/* format limits: lengths are varint32 fields, sequence has 56 bits, type is 0/1 */
__CPROVER_requires(key->size < 0xfffffff8u && value->size <= 0xffffffffu)
__CPROVER_requires(sequence <= LDB_MAX_SEQUENCE && (type == LDB_TYPE_DELETION || type == LDB_TYPE_VALUE))
__CPROVER_requires(g_alloc_calls == 0 && g_ins_calls == 0)
__CPROVER_assigns(g_alloc_ptr, g_alloc_size, g_alloc_calls, g_alloc_arena, g_ins_ptr, g_ins_list, g_ins_calls, g_ins_after_alloc, g_cpy_calls)
__CPROVER_ensures(POST_ADD_PROTOCOL(mt, key->size, value->size))
__CPROVER_ensures(POST_ADD_KHDR(g_alloc_ptr, key->size))
__CPROVER_ensures(g_j < key->size ==> g_alloc_ptr[KHDR(key->size) + g_j] == key->data[g_j])
__CPROVER_ensures(POST_ADD_TAG(g_alloc_ptr, key->size, sequence, type))
__CPROVER_ensures(POST_ADD_VHDR(g_alloc_ptr, key->size, value->size))
__CPROVER_ensures(g_j < value->size ==> g_alloc_ptr[KHDR(key->size) + key->size + 8 + VHDR(value->size) + g_j] == value->data[g_j])
;

void h_memtable_add(void) {
  struct ldb_memtable_s mt;
  ldb_slice_t key, value;
  IN_SIZE(in_klen); IN_SIZE(in_vlen); IN_U64(in_seq); IN_INT(in_type); IN_SIZE(in_j);
  uint8_t *kd = malloc(in_klen), *vd = malloc(in_vlen);
  ASSUME(kd != NULL && vd != NULL);
  ASSUME(in_klen < 0xfffffff8u && in_vlen <= 0xffffffffu);
  ASSUME(in_seq <= LDB_MAX_SEQUENCE && (in_type == 0 || in_type == 1));
  key.data = kd; key.size = in_klen; key.alloc = 0;
  value.data = vd; value.size = in_vlen; value.alloc = 0;
  g_alloc_calls = 0; g_cpy_calls = 0; g_ins_calls = 0; g_ins_after_alloc = 0; g_alloc_ptr = NULL; g_ins_ptr = NULL; g_j = in_j;
  ldb_memtable_add(&mt, in_seq, (ldb_valtype_t)in_type, &key, &value);
  CANARY();
}
