/* units/mem.c - proof units for src/memtable.c (C01, C04, C06)
 *
 * The real memtable.c is included unmodified.  Its environment is abstracted:
 *   - the arena hands out a fresh heap block of exactly the requested size and
 *     records (pointer, size) in ghost state;
 *   - the skip list is a ghost recorder: insert records the entry pointer,
 *     the iterator seek records its target and positions on an entry chosen
 *     by the harness (arbitrary well-formed entry, or invalid);
 *   - the user comparator is an uninterpreted three-way function that records
 *     its operands (parametric in the user order);
 *   - ldb_buffer_copy records (destination, source slice).
 * The wire layout of a memtable entry is spelled here from the LevelDB
 * memtable format:  varint32(klen+8) | key | LE64(seq<<8|type) | varint32(vlen) | value.
 */
#include "verif.h"
#include "contracts/coding.h"

#include "table/iterator.h"
#include "util/arena.h"
#include "util/buffer.h"
#include "util/comparator.h"
#include "util/slice.h"
#include "util/status.h"
#include "dbformat.h"
#include "skiplist.h"

/* ------------------------------------------------------------------ ghost */
uint8_t *g_alloc_ptr;     /* block handed out by the arena                    */
size_t g_alloc_size;      /* its size                                         */
int g_alloc_calls;
ldb_arena_t *g_alloc_arena;
const uint8_t *g_ins_ptr; /* pointer handed to the skip list                  */
ldb_skiplist_t *g_ins_list;
int g_ins_calls;
int g_ins_after_alloc;    /* insert happened after the (only) allocation      */

void *ldb_arena_alloc(ldb_arena_t *arena, size_t size) {
  uint8_t *p = malloc(size);
  __CPROVER_assume(p != NULL);
  g_alloc_ptr = p; g_alloc_size = size; g_alloc_arena = arena; g_alloc_calls++;
  return p;
}

void ldb_skiplist_insert(ldb_skiplist_t *list, const uint8_t *key) {
  g_ins_ptr = key; g_ins_list = list; g_ins_calls++;
  g_ins_after_alloc = (g_alloc_calls == 1);
}

/* --- skip-list iterator: ghost cursor with at most one visible entry ---
 * (the recorders live in one struct so that the contract's assigns clause has one target) */
struct mem_get_ghost {
  const ldb_skiplist_t *it_list;
  const uint8_t *seek_target;
  int seek_calls;
  int it_positioned;
  int cmp_calls;
  const uint8_t *cmp_xd; size_t cmp_xn;
  const uint8_t *cmp_yd; size_t cmp_yn;
  const ldb_comparator_t *cmp_self;
  int copy_calls;
  ldb_buffer_t *copy_dst;
  const uint8_t *copy_src; size_t copy_n;
} G;
#define g_it_list G.it_list
#define g_seek_target G.seek_target
#define g_seek_calls G.seek_calls
#define g_it_positioned G.it_positioned
#define g_cmp_calls G.cmp_calls
#define g_cmp_xd G.cmp_xd
#define g_cmp_xn G.cmp_xn
#define g_cmp_yd G.cmp_yd
#define g_cmp_yn G.cmp_yn
#define g_cmp_self G.cmp_self
#define g_copy_calls G.copy_calls
#define g_copy_dst G.copy_dst
#define g_copy_src G.copy_src
#define g_copy_n G.copy_n
int g_found;              /* seek lands on an entry (1) or past the end (0)  */
const uint8_t *g_entry;   /* the entry it lands on                            */
int g_cmp_ret;            /* what the user comparator answers                 */

void ldb_skipiter_init(ldb_skipiter_t *iter, const ldb_skiplist_t *list) {
  iter->list = list; iter->node = NULL; g_it_list = list; g_it_positioned = 0;
}
void ldb_skipiter_seek(ldb_skipiter_t *iter, const uint8_t *target) {
  __CPROVER_assert(iter->list == g_it_list, "skipiter_seek: iterator was initialised on the memtable's list");
  g_seek_target = target; g_seek_calls++; g_it_positioned = 1;
}
int ldb_skipiter_valid(const ldb_skipiter_t *iter) {
  __CPROVER_assert(g_it_positioned, "skipiter_valid: asked only after the seek");
  return g_found;
}
const uint8_t *ldb_skipiter_key(const ldb_skipiter_t *iter) {
  __CPROVER_assert(g_it_positioned && g_found, "skipiter_key: requires a valid position");
  return g_entry;
}

/* --- user comparator: uninterpreted, records operands --- */

static int stub_user_compare(const ldb_comparator_t *c, const ldb_slice_t *x, const ldb_slice_t *y) {
  g_cmp_self = c; g_cmp_calls++;
  g_cmp_xd = x->data; g_cmp_xn = x->size; g_cmp_yd = y->data; g_cmp_yn = y->size;
  return g_cmp_ret;
}

/* --- value hand-over --- */

void ldb_buffer_copy(ldb_buffer_t *z, const ldb_buffer_t *x) {
  g_copy_calls++; g_copy_dst = z; g_copy_src = x->data; g_copy_n = x->size;
}


/* --- memcpy: ghost model.  Checks the operand ranges like the real one,
 * records the k-th copy as an event (dst, src, n), and copies exactly the byte
 * at the arbitrary ghost index g_j (all other destination bytes keep their
 * arbitrary previous content: an over-approximation that is exact for every
 * statement about byte g_j of either copy). --- */
size_t g_j;   /* arbitrary ghost index: "for every byte of key / value" */
int g_cpy_calls;
uint8_t *g_cpy_dst[2]; const uint8_t *g_cpy_src[2]; size_t g_cpy_n[2];
void *memcpy(void *dst, const void *src, size_t n) {
  __CPROVER_assert(__CPROVER_r_ok(src, n), "memcpy: source readable for n bytes");
  __CPROVER_assert(__CPROVER_w_ok(dst, n), "memcpy: destination writable for n bytes");
  __CPROVER_assert(g_cpy_calls < 2, "memtable_add: at most two raw copies (key, value)");
  g_cpy_dst[g_cpy_calls] = dst; g_cpy_src[g_cpy_calls] = src; g_cpy_n[g_cpy_calls] = n;
  g_cpy_calls++;
  if (g_j < n)
    ((uint8_t *)dst)[g_j] = ((const uint8_t *)src)[g_j];
  return dst;
}

#include "memtable.c"

/* ===================================================== ldb_memtable_add == */

#define KHDR(klen) V32_SIZE((uint32_t)((klen) + 8))
#define VHDR(vlen) V32_SIZE((uint32_t)(vlen))
#define ENTRY_SIZE(klen, vlen) (KHDR(klen) + (klen) + 8 + VHDR(vlen) + (vlen))
#define TAG_OF(seq, type) ((((uint64_t)(seq)) << 8) | (uint64_t)(type))

/* exactly one block of exactly the entry's size from the memtable's arena,
   the same pointer handed once to the memtable's skip list, afterwards */
#define POST_ADD_PROTOCOL(mt, klen, vlen) \
  (g_alloc_calls == 1 && g_ins_calls == 1 && g_ins_after_alloc && g_alloc_arena == &(mt)->arena && g_ins_list == &(mt)->table && \
   g_ins_ptr == g_alloc_ptr && g_alloc_size == ENTRY_SIZE(klen, vlen))
/* the raw copies: key bytes go to [KHDR, KHDR+klen), value bytes to the last vlen bytes of the entry;
   a zero-length slice may be skipped (ldb_raw_write does not call memcpy for n == 0) */
#define COPY_IS(i, d, s, n) (g_cpy_dst[i] == (d) && g_cpy_src[i] == (s) && g_cpy_n[i] == (n))
#define POST_ADD_COPIES(e, kd, klen, vd, vlen) \
  (g_cpy_calls == ((klen) > 0) + ((vlen) > 0) && \
   ((klen) == 0 || COPY_IS(0, (e) + KHDR(klen), kd, klen)) && \
   ((vlen) == 0 || COPY_IS((klen) > 0, (e) + KHDR(klen) + (klen) + 8 + VHDR(vlen), vd, vlen)))
/* varint32(klen+8) at offset 0 */
#define POST_ADD_KHDR(e, klen) \
  (V_WELLFORMED(e, KHDR(klen)) && V32_VAL(e, KHDR(klen)) == (uint32_t)((klen) + 8))
/* LE64(seq<<8|type) right after the user key */
#define POST_ADD_TAG(e, klen, seq, type) IS_LE64((e) + KHDR(klen) + (klen), TAG_OF(seq, type))
/* varint32(vlen) right after the tag */
#define POST_ADD_VHDR(e, klen, vlen) \
  (V_WELLFORMED((e) + KHDR(klen) + (klen) + 8, VHDR(vlen)) && V32_VAL((e) + KHDR(klen) + (klen) + 8, VHDR(vlen)) == (uint32_t)(vlen))

void c_memtable_add(ldb_memtable_t *mt, ldb_seqnum_t sequence, ldb_valtype_t type, const ldb_slice_t *key, const ldb_slice_t *value)
__CPROVER_requires(__CPROVER_rw_ok(mt, sizeof(*mt)) && __CPROVER_r_ok(key, sizeof(*key)) && __CPROVER_r_ok(value, sizeof(*value)))
__CPROVER_requires(key->size == 0 || __CPROVER_r_ok(key->data, key->size))
__CPROVER_requires(value->size == 0 || __CPROVER_r_ok(value->data, value->size))
/* format limits: lengths are varint32 fields, sequence has 56 bits, type is 0/1 */
__CPROVER_requires(key->size < 0xfffffff8u && value->size <= 0xffffffffu)
__CPROVER_requires(sequence <= LDB_MAX_SEQUENCE && (type == LDB_TYPE_DELETION || type == LDB_TYPE_VALUE))
__CPROVER_requires(g_alloc_calls == 0 && g_ins_calls == 0)
__CPROVER_requires(g_cpy_calls == 0)
__CPROVER_assigns(g_alloc_ptr, g_alloc_size, g_alloc_calls, g_alloc_arena, g_ins_ptr, g_ins_list, g_ins_calls, g_ins_after_alloc,
                  g_cpy_calls, __CPROVER_object_whole(g_cpy_dst), __CPROVER_object_whole(g_cpy_src), __CPROVER_object_whole(g_cpy_n))
__CPROVER_ensures(POST_ADD_PROTOCOL(mt, key->size, value->size))
__CPROVER_ensures(POST_ADD_COPIES(g_alloc_ptr, key->data, key->size, value->data, value->size))
#ifdef MEM_ADD_BYTES
__CPROVER_ensures(POST_ADD_KHDR(g_alloc_ptr, key->size))
__CPROVER_ensures(g_j < key->size ==> g_alloc_ptr[KHDR(key->size) + g_j] == key->data[g_j])
__CPROVER_ensures(POST_ADD_TAG(g_alloc_ptr, key->size, sequence, type))
__CPROVER_ensures(POST_ADD_VHDR(g_alloc_ptr, key->size, value->size))
__CPROVER_ensures(g_j < value->size ==> g_alloc_ptr[KHDR(key->size) + key->size + 8 + VHDR(value->size) + g_j] == value->data[g_j])
#endif
;

void h_memtable_add(void) {
  struct ldb_memtable_s mt;
  ldb_slice_t key, value;
  IN_SIZE(in_klen); IN_SIZE(in_vlen); IN_U64(in_seq); IN_INT(in_type); IN_SIZE(in_j);
  uint8_t *kd = malloc(in_klen), *vd = malloc(in_vlen);
  ASSUME(kd != NULL && vd != NULL);
  ASSUME(in_klen < 0xfffffff8u && in_vlen <= 0xffffffffu);
#ifdef MEM_ADD_MAXLEN
  ASSUME(in_klen <= MEM_ADD_MAXLEN && in_vlen <= MEM_ADD_MAXLEN);
#endif
  ASSUME(in_seq <= LDB_MAX_SEQUENCE && (in_type == 0 || in_type == 1));
  key.data = kd; key.size = in_klen; key.alloc = 0;
  value.data = vd; value.size = in_vlen; value.alloc = 0;
  g_alloc_calls = 0; g_cpy_calls = 0; g_ins_calls = 0; g_ins_after_alloc = 0; g_alloc_ptr = NULL; g_ins_ptr = NULL; g_j = in_j;
  ldb_memtable_add(&mt, in_seq, (ldb_valtype_t)in_type, &key, &value);
  CANARY();
}

/* ===================================================== ldb_memtable_get == */
/* The skip-list seek is abstracted by its contract: it positions on the first
 * entry >= the lookup key in memtable-key order, or becomes invalid.  The
 * harness supplies that entry (g_entry: arbitrary well-formed memtable entry)
 * or "invalid" (g_found == 0).  What memtable_get must do with it (LevelDB
 * MemTable::Get): same user key and type VALUE -> value handed out, return 1;
 * DELETION -> *status = NOTFOUND, return 1; anything else -> return 0. */

/* ghost description of the entry the seek lands on (tied to its bytes by the harness) */
size_t g_e_khdr, g_e_iklen, g_e_vhdr, g_e_vlen;
const ldb_lkey_t *g_lkey;
ldb_memtable_t *g_mt;
int g_status0;

#define E_UKEY (g_entry + g_e_khdr)
#define E_TAG LE64_AT(g_entry + g_e_khdr + g_e_iklen - 8)
#define E_TYPE (E_TAG & 0xff)
#define E_VALUE (g_entry + g_e_khdr + g_e_iklen + g_e_vhdr)
#define L_ULEN(k) ((size_t)((k)->end - (k)->kstart) - 8)

/* the lookup is one seek to the lookup key's memtable key on the memtable's own list */
#define POST_GET_SEEK(mt, k) (g_seek_calls == 1 && g_seek_target == (k)->start && g_it_list == &(mt)->table)
/* the user comparator (and nothing else) decides "same user key": entry's user key vs the lookup key's */
#define POST_GET_CMP(mt, k) \
  (g_found ? (g_cmp_calls == 1 && g_cmp_self == (mt)->comparator.user_comparator && \
              g_cmp_xd == E_UKEY && g_cmp_xn == g_e_iklen - 8 && g_cmp_yd == (k)->kstart && g_cmp_yn == L_ULEN(k)) \
           : g_cmp_calls == 0)
#define GET_HIT (g_found && g_cmp_ret == 0)
/* outcome */
#define POST_GET_VALUE(r, value, st) \
  (!(GET_HIT && E_TYPE == LDB_TYPE_VALUE) || \
   ((r) == 1 && (st) == g_status0 && \
    ((value) != NULL ? (g_copy_calls == 1 && g_copy_dst == (value) && g_copy_src == E_VALUE && g_copy_n == g_e_vlen) : g_copy_calls == 0)))
#define POST_GET_DELETION(r, st) \
  (!(GET_HIT && E_TYPE == LDB_TYPE_DELETION) || ((r) == 1 && (st) == LDB_NOTFOUND && g_copy_calls == 0))
#define POST_GET_MISS(r, st) \
  ((GET_HIT && (E_TYPE == LDB_TYPE_VALUE || E_TYPE == LDB_TYPE_DELETION)) || ((r) == 0 && (st) == g_status0 && g_copy_calls == 0))

int c_memtable_get(ldb_memtable_t *mt, const ldb_lkey_t *key, ldb_buffer_t *value, int *status)
__CPROVER_requires(__CPROVER_rw_ok(mt, sizeof(*mt)) && __CPROVER_r_ok(key, sizeof(*key)) && __CPROVER_rw_ok(status, sizeof(*status)))
__CPROVER_requires(value == NULL || __CPROVER_rw_ok(value, sizeof(*value)))
/* lookup key: start <= kstart <= end - 8 inside one object (ldb_lkey_init's layout) */
__CPROVER_requires(__CPROVER_same_object(key->start, key->end) && __CPROVER_same_object(key->kstart, key->end))
__CPROVER_requires(key->start < key->kstart && key->kstart + 8 <= key->end && __CPROVER_r_ok(key->start, key->end - key->start))
__CPROVER_requires(mt->comparator.user_comparator != NULL && mt->comparator.user_comparator->compare == stub_user_compare)
__CPROVER_requires(__CPROVER_r_ok(mt->comparator.user_comparator, sizeof(ldb_comparator_t)))
/* the entry under the cursor, if any, is a well-formed memtable entry */
__CPROVER_requires(!g_found || (g_e_khdr >= 1 && g_e_khdr <= 5 && g_e_vhdr >= 1 && g_e_vhdr <= 5 && g_e_iklen >= 8 && g_e_iklen <= 0xffffffffu && g_e_vlen <= 0xffffffffu))
__CPROVER_requires(!g_found || __CPROVER_r_ok(g_entry, g_e_khdr + g_e_iklen + g_e_vhdr + g_e_vlen))
__CPROVER_requires(!g_found || (V_WELLFORMED(g_entry, g_e_khdr) && V32_VAL(g_entry, g_e_khdr) == g_e_iklen))
__CPROVER_requires(!g_found || (V_WELLFORMED(g_entry + g_e_khdr + g_e_iklen, g_e_vhdr) && V32_VAL(g_entry + g_e_khdr + g_e_iklen, g_e_vhdr) == g_e_vlen))
__CPROVER_requires(g_seek_calls == 0 && g_cmp_calls == 0 && g_copy_calls == 0 && g_status0 == *status)
__CPROVER_assigns(*status, G)
__CPROVER_ensures(POST_GET_SEEK(mt, key))
__CPROVER_ensures(POST_GET_CMP(mt, key))
__CPROVER_ensures(POST_GET_VALUE(__CPROVER_return_value, value, *status))
__CPROVER_ensures(POST_GET_DELETION(__CPROVER_return_value, *status))
__CPROVER_ensures(POST_GET_MISS(__CPROVER_return_value, *status))
;

void h_memtable_get(void) {
  struct ldb_memtable_s mt;
  ldb_comparator_t ucmp;
  ldb_lkey_t lkey;
  ldb_buffer_t out;
  int st;
  IN_SIZE(in_lk_n); IN_SIZE(in_lk_hdr); IN_SIZE(in_e_n); IN_INT(in_found); IN_INT(in_cmp_ret); IN_INT(in_status); IN_INT(in_want_value);
  IN_SIZE(in_e_khdr); IN_SIZE(in_e_iklen); IN_SIZE(in_e_vhdr); IN_SIZE(in_e_vlen);
  uint8_t *lk = malloc(in_lk_n);
  IN_BUF(entry, in_e_n); SNAP_BUF(entry, in_e_n);
  ASSUME(lk != NULL);
  /* lookup key layout: varint header (1..5 bytes), user key, 8-byte tag */
  ASSUME(in_lk_hdr >= 1 && in_lk_hdr <= 5 && in_lk_n >= in_lk_hdr + 8 && in_lk_n <= 0xffffffffu);
  lkey.start = lk; lkey.kstart = lk + in_lk_hdr; lkey.end = lk + in_lk_n;
  /* the entry the seek lands on */
  g_found = in_found != 0; g_entry = entry;
  g_e_khdr = in_e_khdr; g_e_iklen = in_e_iklen; g_e_vhdr = in_e_vhdr; g_e_vlen = in_e_vlen;
#ifdef MEM_GET_KHDR
  ASSUME(in_e_khdr == MEM_GET_KHDR);   /* case split over the length of the entry's key-length prefix */
#endif
  if (g_found) {
    ASSUME(in_e_khdr >= 1 && in_e_khdr <= 5 && in_e_vhdr >= 1 && in_e_vhdr <= 5 && in_e_iklen >= 8 && in_e_iklen <= 0xffffffffu && in_e_vlen <= 0xffffffffu);
    ASSUME(in_e_n == in_e_khdr + in_e_iklen + in_e_vhdr + in_e_vlen);
    /* (that the header bytes encode these lengths is the contract's precondition) */
  }
  ucmp.compare = stub_user_compare; ucmp.user_comparator = NULL; ucmp.name = NULL; ucmp.shortest_separator = NULL; ucmp.short_successor = NULL; ucmp.state = NULL;
  mt.comparator.user_comparator = &ucmp; mt.comparator.compare = NULL;
  g_cmp_ret = in_cmp_ret;
  st = in_status; g_status0 = in_status;
  g_seek_calls = 0; g_cmp_calls = 0; g_copy_calls = 0; g_it_positioned = 0; g_it_list = NULL;
  ldb_memtable_get(&mt, &lkey, in_want_value ? &out : NULL, &st);
  CANARY();
}
