/* units/dbgc.c - ldb_remove_obsolete_files (src/db_impl.c): the keep predicate, both directions
 * Properties: C13 (G1), C02 (O5: live tables and logs >= log_number are never unlinked), C12 (E3).
 *
 * The real db_impl.c is included unmodified.  The directory listing has an
 * arbitrary (unbounded) number of entries; ONE arbitrary entry g_k is tracked
 * through the whole function (ghost-index method): whether it is pushed on the
 * delete list, evicted from the table cache and finally unlinked must be exactly
 * what the keep predicate of the property says.  rbt / vector / env / filename
 * parsing are models: parse_filename and the live-set membership are
 * uninterpreted but fixed for the tracked entry.
 */
#include "verif.h"
int nondet_int(void);
uint64_t nondet_u64(void);
size_t nondet_size(void);

#include "db_impl.c"

#include "contracts/dbgc.h"

void ldb_mutex_lock(ldb_mutex_t *m) { __CPROVER_assert(m == &g_db->mutex && !g_held, "lock: DB mutex not held"); g_held = 1; g_locks++; }
void ldb_mutex_unlock(ldb_mutex_t *m) { __CPROVER_assert(m == &g_db->mutex && g_held, "unlock: DB mutex held"); g_held = 0; g_unlocks++; }

/* ---- live set = pending_outputs  U  files of every version on the list ---- */
void ldb_rb_tree_init(rb_tree_t *tree, rb_cmp_f *compare, void *arg) { g_live_inited = 1; }
void ldb_rb_tree_clear(rb_tree_t *tree, rb_clear_f *clear) { }
void ldb_rb_tree_copy(rb_tree_t *z, const rb_tree_t *x, rb_copy_f *copy) {
  __CPROVER_assert(x == &g_db->pending_outputs, "live set starts from pending_outputs (files being written by a flush/compaction)");
  g_copied_pending = 1;
}
void ldb_versions_add_files(ldb_versions_t *vset, rb_set64_t *live) {
  __CPROVER_assert(vset == g_db->versions && g_copied_pending, "live set then receives the files of all versions");
  g_added_versions = 1;
}
int ldb_rb_set64_has(const rb_tree_t *tree, uint64_t item) {
  __CPROVER_assert(g_copied_pending && g_added_versions, "membership is asked of the complete live set");
  if (g_parses_k && item == g_num_k) return (g_pending_k || g_inversion_k) ? 1 : 0;
  return nondet_int() ? 1 : 0;
}

/* ---- directory listing, names, parsing ---- */
int ldb_get_children(const char *path, char ***out) {
  __CPROVER_assert(g_held, "directory is listed under the mutex (so the live set cannot change meanwhile)");
  g_children_calls++;
  if (g_len < 0) return -1;
  *out = g_filenames;
  return g_len;
}
void ldb_free_children(char **list, int len) { }
int ldb_parse_filename(ldb_filetype_t *type, uint64_t *num, const char *name) {
  int idx = g_parse_calls++;
  g_cur_parse_idx = idx;
  if (idx == g_k) {
    __CPROVER_assert(name == g_name_base + g_k, "entries are parsed in directory order");
    if (g_parses_k) { *type = g_type_k; *num = g_num_k; }
    return g_parses_k;
  }
  __CPROVER_assume(name != g_name_base + g_k);   /* directory entries have distinct names */
  if (nondet_int()) {
    int t = nondet_int(); __CPROVER_assume(t >= LDB_FILE_LOG && t <= LDB_FILE_INFO);
    *type = (ldb_filetype_t)t; *num = nondet_u64();
    return 1;
  }
  return 0;
}
void ldb_vector_init(ldb_vector_t *z) {
  /* room for every directory entry: push never reallocates in this model */
  size_t cap = nondet_size();
  __CPROVER_assume(cap >= (size_t)(g_len > 0 ? g_len : 0) + 1 && cap < ((size_t)1 << 40));
  z->items = malloc(cap * sizeof(void *)); __CPROVER_assume(z->items != NULL);
  z->length = 0; z->alloc = cap;
}
void ldb_vector_clear(ldb_vector_t *z) { }
void ldb_vector_push(ldb_vector_t *z, const void *x) {
  __CPROVER_assert(z->length < z->alloc, "delete list: at most one entry per directory entry");
  if (g_cur_parse_idx == g_k) { __CPROVER_assert(x == (const void *)(g_name_base + g_k), "the name put on the delete list is the entry just examined"); g_pushed_k++; g_pos_k = z->length; }
  z->items[z->length++] = (void *)x;
  g_pushed_total++;
}
void ldb_tables_evict(ldb_tables_t *cache, uint64_t file_number) {
  if (g_cur_parse_idx == g_k) { __CPROVER_assert(file_number == g_num_k, "the evicted table is the one being deleted"); g_evicted_k++; }
}
void ldb_log(ldb_logger_t *logger, const char *fmt, ...) { }
int ldb_join(char *zp, size_t zn, const char *xp, const char *yp) {
  int idx = g_join_calls++, ok = nondet_int() ? 1 : 0;
  g_join_name = yp; g_cur_join_idx = idx;
  if (g_pushed_k && (size_t)idx == g_pos_k) { __CPROVER_assert(yp == g_name_base + g_k, "delete list is walked in order"); g_joined_k = ok; }
  return ok;
}
int ldb_remove_file(const char *filename) {
  __CPROVER_assert(!g_held, "files are unlinked with the mutex released");
  g_removed_total++;
  if (g_pushed_k && (size_t)g_cur_join_idx == g_pos_k) g_removed_k++;
  return nondet_int();
}

/* the property's keep predicate for the tracked entry */
#define KEEP_K(db) ( \
  g_type_k == LDB_FILE_LOG   ? (g_num_k >= (db)->versions->log_number || g_num_k == (db)->versions->prev_log_number) : \
  g_type_k == LDB_FILE_DESC  ? (g_num_k >= (db)->versions->manifest_file_number) : \
  (g_type_k == LDB_FILE_TABLE || g_type_k == LDB_FILE_TEMP) ? (g_pending_k || g_inversion_k) : 1)

void c_remove_obsolete_files(ldb_t *db)
__CPROVER_requires(db == g_db && g_held && __CPROVER_rw_ok(db, sizeof(*db)) && __CPROVER_r_ok(db->versions, sizeof(*db->versions)))
__CPROVER_requires(g_len >= -1 && g_k >= 0 && (g_len <= 0 || g_k < g_len))
__CPROVER_requires(g_pushed_k == 0 && g_evicted_k == 0 && g_removed_k == 0 && g_removed_total == 0 && g_pushed_total == 0 && g_children_calls == 0)
__CPROVER_requires(g_copied_pending == 0 && g_added_versions == 0 && g_parse_calls == 0 && g_join_calls == 0 && g_joined_k == 0 && g_keep_k == KEEP_K(db))
__CPROVER_assigns(DBGC_GHOST)
__CPROVER_ensures(g_held && g_locks - __CPROVER_old(g_locks) == g_unlocks - __CPROVER_old(g_unlocks))
/* after a background error nothing is collected (a version may or may not have been committed) */
__CPROVER_ensures(db->bg_error != LDB_OK ==> (g_children_calls == 0 && g_removed_total == 0))
/* the tracked directory entry: unlinked at most once, and only if its name parses and the keep predicate says it is garbage */
__CPROVER_ensures(g_removed_k <= 1 && g_pushed_k <= 1 && g_removed_k <= g_pushed_k)
__CPROVER_ensures((g_len > 0 && db->bg_error == LDB_OK) ==> (g_pushed_k == ((g_parses_k && !KEEP_K(db)) ? 1u : 0u)))
__CPROVER_ensures(g_evicted_k == ((g_pushed_k && g_type_k == LDB_FILE_TABLE) ? 1u : 0u))
/* what is on the delete list is unlinked unless its path cannot be formed */
__CPROVER_ensures(g_removed_k == ((g_pushed_k && g_joined_k) ? 1u : 0u))
__CPROVER_ensures(g_removed_total <= g_pushed_total)
;

void h_gc(void) {
  ldb_t *db = malloc(sizeof(ldb_t));
  ldb_versions_t *vs = malloc(sizeof(ldb_versions_t));
  size_t nn;
  __CPROVER_assume(db != NULL && vs != NULL);
  g_db = db; db->versions = vs;
  __CPROVER_assume(g_len >= -1);
  nn = (size_t)(g_len > 0 ? g_len : 0) + 1;
  g_name_base = malloc(nn); g_filenames = malloc(nn * sizeof(char *));
  __CPROVER_assume(g_name_base != NULL && g_filenames != NULL);
  __CPROVER_assume(g_k >= 0 && (g_len <= 0 || g_k < g_len));
  /* name i is the pointer base+i: distinct entries have distinct names */
  if (g_len > 0) g_filenames[g_k] = g_name_base + g_k;
  __CPROVER_assume(g_parses_k == 0 || g_parses_k == 1);
  __CPROVER_assume(g_type_k >= LDB_FILE_LOG && g_type_k <= LDB_FILE_INFO);
  __CPROVER_assume((g_pending_k == 0 || g_pending_k == 1) && (g_inversion_k == 0 || g_inversion_k == 1));
  g_held = 1; g_locks = 1; g_unlocks = 0;
  g_pushed_k = g_evicted_k = g_removed_k = g_removed_total = g_pushed_total = 0; g_children_calls = 0;
  g_copied_pending = g_added_versions = 0; g_join_name = NULL; g_parse_calls = g_join_calls = 0; g_joined_k = 0;
  g_keep_k = KEEP_K(db);
  ldb_remove_obsolete_files(db);
  CANARY();
}

/* the same function against the call-protocol carrier used by its callers (db.flush, db.bg, db.open) */
void h_gc_call(void) {
  ldb_t *db = malloc(sizeof(ldb_t));
  ldb_versions_t *vs = malloc(sizeof(ldb_versions_t));
  size_t nn;
  __CPROVER_assume(db != NULL && vs != NULL);
  g_db = db; db->versions = vs;
  __CPROVER_assume(g_len >= -1);
  nn = (size_t)(g_len > 0 ? g_len : 0) + 1;
  g_name_base = malloc(nn); g_filenames = malloc(nn * sizeof(char *));
  __CPROVER_assume(g_name_base != NULL && g_filenames != NULL);
  __CPROVER_assume(g_k >= 0 && (g_len <= 0 || g_k < g_len));
  /* name i is the pointer base+i: distinct entries have distinct names */
  if (g_len > 0) g_filenames[g_k] = g_name_base + g_k;
  __CPROVER_assume(g_parses_k == 0 || g_parses_k == 1);
  __CPROVER_assume(g_type_k >= LDB_FILE_LOG && g_type_k <= LDB_FILE_INFO);
  __CPROVER_assume((g_pending_k == 0 || g_pending_k == 1) && (g_inversion_k == 0 || g_inversion_k == 1));
  g_held = 1; g_locks = 1; g_unlocks = 0;
  g_pushed_k = g_evicted_k = g_removed_k = g_removed_total = g_pushed_total = 0; g_children_calls = 0;
  g_copied_pending = g_added_versions = 0; g_join_name = NULL; g_parse_calls = g_join_calls = 0; g_joined_k = 0;
  g_keep_k = KEEP_K(db);
  g_gc_allowed = 1; g_unprotected_outputs = 0;
  ldb_remove_obsolete_files(db);
  CANARY();
}
