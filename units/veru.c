/* units/veru.c - UNBOUNDED twins of the file-list units of groups "ver"/"ver2" (group "veru"), part 1:
 *   ver.overlap.some.u    some_file_overlaps_range, linear (level-0) mode, list of any length
 * Model: units/veru_model.h (abstract key ranks, ghost-index file lists).
 */
#include "units/veru_model.h"
static void icmp_hook(const ldb_slice_t *x, const ldb_slice_t *y, int res) { (void)x; (void)y; (void)res; }
static void push_hook(const void *x) { (void)x; }
static void push_other_hook(void) { }

/* ======================================================================
 * ver.overlap.*.u - closed-interval overlap on user keys, NULL bounds = -inf / +inf
 * ====================================================================== */
#define LO_PTR (g_has_lo ? &g_lo : (const ldb_slice_t *)NULL)
#define HI_PTR (g_has_hi ? &g_hi : (const ldb_slice_t *)NULL)
/* file f overlaps [lo, hi] (closed, on user-key ranks) */
#define OVF(f) (!(g_has_lo && g_lo.size > LU(f)) && !(g_has_hi && g_hi.size < SU(f)))
/* sorted + disjoint (smallest_i <= largest_i < smallest_i+1 for all i), instantiated at the two tracked positions */
#define DS_PAIR ((g_k >= g_n || WF(g_fk)) && (g_j >= g_n || WF(g_fj)) && \
                 (!(g_j < g_k && g_k < g_n) || LT_(LU(g_fj), LT(g_fj), SU(g_fk), ST(g_fk))) && \
                 (!(g_k < g_j && g_j < g_n) || LT_(LU(g_fk), LT(g_fk), SU(g_fj), ST(g_fj))))
/* k is the first position whose largest user key is >= lo (no lower bound: position 0) */
#define LB_FACTS (g_has_lo ? ((g_k >= g_n || LU(g_fk) >= g_lo.size) && (!(g_j < g_k && g_j < g_n) || LU(g_fj) < g_lo.size)) : g_k == 0)

int c_some_overlaps_u(const ldb_comparator_t *icmp, int disjoint_sorted_files, const ldb_vector_t *files,
                      const ldb_slice_t *smallest_user_key, const ldb_slice_t *largest_user_key)
__CPROVER_requires(icmp == &g_vset.icmp && g_lvl >= 0 && g_lvl < LDB_NUM_LEVELS && files == &g_ver.files[g_lvl])
__CPROVER_requires(smallest_user_key == LO_PTR && largest_user_key == HI_PTR)
__CPROVER_requires(g_k <= g_n && g_j <= g_n && (g_j != g_k || g_j == g_n) && g_n <= NMAX)
__CPROVER_requires(g_ovk == ((g_k < g_n && OVF(g_fk)) ? 1 : 0) && SHAPE(g_fo) && SHAPE(g_fk) && SHAPE(g_fj))
/* binary-search mode only on a sorted, disjoint list; the tracked position k is then the list's lower bound for the
   begin of the range (Skolem witness: every list has one; k == n: every file ends before the range) */
__CPROVER_requires(!disjoint_sorted_files || (DS_PAIR && LB_FACTS))
__CPROVER_assigns(FO_WINDOW, CMP_GHOST)
__CPROVER_ensures(FO_TOKENS)
__CPROVER_ensures(__CPROVER_return_value == 0 || __CPROVER_return_value == 1)
/* completeness: an (arbitrary) file of the list that overlaps makes the answer 1 */
__CPROVER_ensures(g_ovk ==> __CPROVER_return_value == 1)
__CPROVER_ensures((g_j < g_n && OVF(g_fj)) ==> __CPROVER_return_value == 1)
/* soundness: answer 1 only with a witness - linear mode: the file examined last (the tracked one, or the untracked file in
   the window); binary mode: the lower-bound file */
__CPROVER_ensures(__CPROVER_return_value == 1 ==> (g_n > 0 && (g_ovk || (!disjoint_sorted_files && OVF(g_fo)))))
;
/* find_file on a sorted list returns the lower bound.  Rank-level carrier (TRUSTED, see trusted.json): ver.find.any proves for
   lists of any length that the result is a transition point of the comparator's answers; in a list sorted by largest key
   the transition point is unique and is the lower bound.  The lower bound is named by the ghost g_k (Skolem witness); the
   preconditions - checked at every call site - say that g_k IS the lower bound of the key actually passed: the file at g_k
   (if any) has largest >= key, an arbitrary other file g_j is on the correct side. */
#define KEY_LE_L(key, f) LE_((key)->size - 8, (key)->alloc, LU(f), LT(f))
int c_find_file_u(const ldb_comparator_t *icmp, const ldb_vector_t *files, const ldb_slice_t *key)
__CPROVER_requires(icmp == &g_vset.icmp && g_lvl >= 0 && g_lvl < LDB_NUM_LEVELS && files == &g_ver.files[g_lvl] && files->length == g_n)
__CPROVER_requires(__CPROVER_r_ok(key, sizeof(*key)) && key->size >= 8 && g_k <= g_n && g_n <= 2147483647)
__CPROVER_requires(g_k >= g_n || KEY_LE_L(key, g_fk))
__CPROVER_requires(g_j >= g_n || (g_j < g_k ? !KEY_LE_L(key, g_fj) : KEY_LE_L(key, g_fj)))
__CPROVER_assigns()
__CPROVER_ensures(__CPROVER_return_value >= 0 && (size_t)__CPROVER_return_value == g_k)
;

static void mk_bounds(void) {
  g_has_lo = nondet_int() ? 1 : 0; g_has_hi = nondet_int() ? 1 : 0;
  g_lo.data = TOK_LO; g_lo.size = nondet_size(); g_lo.alloc = 0;
  g_hi.data = TOK_HI; g_hi.size = nondet_size(); g_hi.alloc = 0;
  __CPROVER_assume(g_lo.size < RMAX && g_hi.size < RMAX);
}
static void mk_level(int level, size_t n, size_t k, size_t j) {
  g_ver.files[level].items = mk_items(n, k, j); g_ver.files[level].length = n; g_ver.files[level].alloc = n;
}
void h_some_overlaps_lin_u(void) {
  IN_SIZE(in_n); IN_SIZE(in_k);
  ASSUME(in_n <= NMAX && in_k <= in_n);
  mk_world(); mk_bounds();
  g_n = in_n; g_k = in_k; g_j = in_n; g_lvl = 0;
  mk_level(0, in_n, in_k, in_n);
  g_ovk = (g_k < g_n && OVF(g_fk)) ? 1 : 0;
  some_file_overlaps_range(&g_vset.icmp, 0, &g_ver.files[0], LO_PTR, HI_PTR);
  CANARY();
}
void h_some_overlaps_bin_u(void) {
  IN_SIZE(in_n); IN_SIZE(in_k); IN_SIZE(in_j);
  ASSUME(in_n <= 2147483647 && in_k <= in_n && in_j <= in_n && (in_j != in_k || in_j == in_n));
  mk_world(); mk_bounds();
  g_n = in_n; g_k = in_k; g_j = in_j; g_lvl = 1;
  mk_level(1, in_n, in_k, in_j);
  ASSUME(DS_PAIR && LB_FACTS);
  g_ovk = (g_k < g_n && OVF(g_fk)) ? 1 : 0;
  some_file_overlaps_range(&g_vset.icmp, 1, &g_ver.files[1], LO_PTR, HI_PTR);
  CANARY();
}

/* ---- ver.overlap.level.u: ldb_version_overlap_in_level = some_file_overlaps_range on files[level], binary search iff level > 0 ---- */
int c_overlap_in_level_u(ldb_version_t *ver, int level, const ldb_slice_t *smallest_user_key, const ldb_slice_t *largest_user_key)
__CPROVER_requires(ver == &g_ver && level == g_lvl && g_lvl >= 0 && g_lvl < LDB_NUM_LEVELS && g_ver.files[g_lvl].length == g_n)
__CPROVER_requires(smallest_user_key == LO_PTR && largest_user_key == HI_PTR)
__CPROVER_requires(g_k <= g_n && g_j <= g_n && (g_j != g_k || g_j == g_n) && g_n <= NMAX)
__CPROVER_requires(g_ovk == ((g_k < g_n && OVF(g_fk)) ? 1 : 0) && SHAPE(g_fo) && SHAPE(g_fk) && SHAPE(g_fj))
/* levels > 0 are sorted and disjoint; k is then the lower bound of the range begin */
__CPROVER_requires(level == 0 || (DS_PAIR && LB_FACTS))
__CPROVER_assigns(FO_WINDOW, CMP_GHOST)
__CPROVER_ensures(FO_TOKENS)
__CPROVER_ensures(__CPROVER_return_value == 0 || __CPROVER_return_value == 1)
__CPROVER_ensures(g_ovk ==> __CPROVER_return_value == 1)
__CPROVER_ensures((g_j < g_n && OVF(g_fj)) ==> __CPROVER_return_value == 1)
__CPROVER_ensures(__CPROVER_return_value == 1 ==> (g_n > 0 && (g_ovk || (level == 0 && OVF(g_fo)))))
;
void h_overlap_in_level_u(void) {
  IN_SIZE(in_n); IN_SIZE(in_k); IN_SIZE(in_j); IN_INT(in_level);
  ASSUME(in_level >= 0 && in_level < LDB_NUM_LEVELS);
  ASSUME(in_n <= (in_level > 0 ? (size_t)2147483647 : NMAX) && in_k <= in_n && in_j <= in_n && (in_j != in_k || in_j == in_n));
  mk_world(); mk_bounds();
  g_n = in_n; g_k = in_k; g_j = in_j; g_lvl = in_level;
  mk_level(in_level, in_n, in_k, in_j);
  if (in_level > 0) ASSUME(DS_PAIR && LB_FACTS);
  g_ovk = (g_k < g_n && OVF(g_fk)) ? 1 : 0;
  ldb_version_overlap_in_level(&g_ver, in_level, LO_PTR, HI_PTR);
  CANARY();
}
