/* units/logw.c - proof units for src/log_writer.c (C15, C03, C04, C12)
 *
 * The real log_writer.c is included unmodified.  The environment (the
 * writable file) is an independent *decoder of the LevelDB log format at the
 * append interface*: every ldb_wfile_append is parsed as header / payload /
 * zero trailer and checked against the format and the fragmentation protocol.
 * Every append / flush may fail (nondeterministically, at every call).
 */
#include "verif.h"
#include "contracts/coding.h"

#include "util/env.h"
#include "util/crc32c.h"
#include "util/status.h"
#include "log_format.h"
#include "log_writer.h"

/* ------------------------------------------------------------------ ghost */
#define EXP_HEADER 0
#define EXP_PAYLOAD 1

struct ldb_wfile_s { int dummy; };

ldb_wfile_t g_the_file;
int g_failed;            /* some append/flush failed: nothing may follow      */
int g_fail_rc;           /* the status it failed with                          */
int g_expect;            /* tracker: header or payload comes next              */
int g_off;               /* tracker's own offset within the current block      */
int g_rec_state;         /* 0 = between logical records, 1 = inside a FIRST..  */
int g_done;              /* logical records completed                          */
size_t g_cov;            /* payload bytes of the slice handed over so far      */
const uint8_t *g_base;   /* slice->data                                        */
size_t g_total;          /* slice->size                                        */
unsigned g_cur_type;
size_t g_cur_len;
uint32_t g_hdr_crc;      /* crc field of the pending header                    */
int g_unflushed;         /* complete physical records appended since the last flush */
uint64_t g_accepted;     /* bytes accepted by the file                         */
/* crc oracle: uninterpreted, deterministic on the one-byte type strings */
uint32_t g_tcrc[8];
uint32_t g_crc_z; const uint8_t *g_crc_p; size_t g_crc_n; uint32_t g_crc_ret;

#define SPEC_MASK(c) ((uint32_t)((((uint32_t)(c) >> 15) | ((uint32_t)(c) << 17)) + 0xa282ead8u))

uint32_t nondet_u32(void);
int nondet_int(void);

uint32_t ldb_crc32c_extend(uint32_t z, const uint8_t *xp, size_t xn) {
  if (z == 0 && xn == 1) {
    __CPROVER_assert(__CPROVER_r_ok(xp, 1), "crc: readable");
    return g_tcrc[*xp & 7];
  }
  g_crc_z = z; g_crc_p = xp; g_crc_n = xn; g_crc_ret = nondet_u32();
  return g_crc_ret;
}

static int env_fail(void) {
  int rc = nondet_int();
  if (rc != LDB_OK) {
    __CPROVER_assume(rc >= LDB_MINERR && rc <= LDB_MAXERR || (rc > 0 && rc < 200));
    g_failed = 1; g_fail_rc = rc;
  }
  return rc;
}

int ldb_wfile_append(ldb_wfile_t *file, const ldb_slice_t *data) {
  const uint8_t *d = data->data;
  size_t n = data->size;
  int rc;
  __CPROVER_assert(file == &g_the_file, "log: appends go to the writer's file");
  __CPROVER_assert(!g_failed, "log: nothing is appended after a failed append/flush (first error stops the record)");
  __CPROVER_assert(n == 0 || __CPROVER_r_ok(d, n), "log: appended slice readable");
  rc = env_fail();
  if (rc != LDB_OK)
    return rc;
  if (g_expect == EXP_HEADER) {
    if (g_off == LDB_BLOCK_SIZE)
      g_off = 0; /* block boundary */
    if (n < LDB_HEADER_SIZE) {
      /* only a zero trailer that fills the block exactly may be shorter than a header */
      __CPROVER_assert(n > 0 && (int)n == LDB_BLOCK_SIZE - g_off, "log format: a short append is a trailer filling the block exactly (< 7 bytes)");
      __CPROVER_assert((n < 1 || d[0] == 0) && (n < 2 || d[1] == 0) && (n < 3 || d[2] == 0) && (n < 4 || d[3] == 0) &&
                       (n < 5 || d[4] == 0) && (n < 6 || d[5] == 0), "log format: trailer bytes are zero");
      g_off = 0;
    } else {
      unsigned type; size_t len;
      __CPROVER_assert(n == LDB_HEADER_SIZE, "log format: header is 7 bytes");
      len = (size_t)d[4] | ((size_t)d[5] << 8);
      type = d[6];
      __CPROVER_assert(type >= LDB_TYPE_FULL && type <= LDB_TYPE_LAST, "log format: record type is FULL/FIRST/MIDDLE/LAST");
      __CPROVER_assert(g_off + LDB_HEADER_SIZE + (int)len <= LDB_BLOCK_SIZE, "log format: fragment fits in its 32 KiB block");
      __CPROVER_assert(g_off <= LDB_BLOCK_SIZE - LDB_HEADER_SIZE, "log format: never start a header in the last 6 bytes of a block");
      if (g_rec_state == 0)
        __CPROVER_assert(type == LDB_TYPE_FULL || type == LDB_TYPE_FIRST, "log protocol: a logical record starts with FULL or FIRST");
      else
        __CPROVER_assert(type == LDB_TYPE_MIDDLE || type == LDB_TYPE_LAST, "log protocol: FIRST is continued by MIDDLE or LAST");
      /* FULL/LAST exactly when this fragment finishes the slice */
      __CPROVER_assert(((type == LDB_TYPE_FULL || type == LDB_TYPE_LAST) ? 1 : 0) == ((g_cov + len == g_total) ? 1 : 0),
                       "log protocol: FULL/LAST iff the fragment ends the record");
      __CPROVER_assert(g_cov + len <= g_total, "log protocol: fragments never exceed the record");
      /* a fragment is shortened only by the end of the block */
      __CPROVER_assert(g_cov + len == g_total || g_off + LDB_HEADER_SIZE + (int)len == LDB_BLOCK_SIZE,
                       "log format: a non-final fragment fills its block");
      g_cur_type = type; g_cur_len = len;
      g_hdr_crc = LE32_AT(d);
      g_expect = EXP_PAYLOAD;
      g_off += LDB_HEADER_SIZE;
    }
  } else {
    __CPROVER_assert(n == g_cur_len, "log format: payload length equals the header's length field");
    __CPROVER_assert(d == g_base + g_cov, "log protocol: fragments are contiguous, in order, pointing into the caller's record");
    __CPROVER_assert(g_crc_z == g_tcrc[g_cur_type & 7] && g_crc_p == d && g_crc_n == n,
                     "log format: crc covers the type byte followed by exactly this payload");
    __CPROVER_assert(g_hdr_crc == SPEC_MASK(g_crc_ret), "log format: header stores the masked crc32c little-endian");
    g_cov += n;
    g_off += (int)n;
    g_rec_state = (g_cur_type == LDB_TYPE_FULL || g_cur_type == LDB_TYPE_LAST) ? 0 : 1;
    if (g_rec_state == 0) g_done++;
    g_expect = EXP_HEADER;
    g_unflushed++;
  }
  g_accepted += n;
  return LDB_OK;
}

int ldb_wfile_flush(ldb_wfile_t *file) {
  int rc;
  __CPROVER_assert(file == &g_the_file, "log: flush goes to the writer's file");
  __CPROVER_assert(!g_failed, "log: nothing is flushed after a failed append");
  __CPROVER_assert(g_expect == EXP_HEADER, "log: flush only after a complete physical record");
  rc = env_fail();
  if (rc != LDB_OK)
    return rc;
  g_unflushed = 0;
  return LDB_OK;
}

/* buffer.c entry points used only by the in-memory test path (lw->dst) */
void ldb_buffer_append(ldb_buffer_t *z, const uint8_t *xp, size_t xn) { __CPROVER_assert(0, "lw->dst path unreachable (dst == NULL)"); }
void ldb_buffer_concat(ldb_buffer_t *z, const ldb_slice_t *x) { __CPROVER_assert(0, "lw->dst path unreachable (dst == NULL)"); }

#include "log_writer.c"

/* ------------------------------------------------------------- contracts */

/* Well-formed writer in the sense of DESIGN 3.3: FR(lw) */
#define LW_WF(lw) ((lw)->file == &g_the_file && (lw)->dst == NULL && (lw)->block_offset >= 0 && (lw)->block_offset <= LDB_BLOCK_SIZE && \
  (lw)->type_crc[1] == g_tcrc[1] && (lw)->type_crc[2] == g_tcrc[2] && (lw)->type_crc[3] == g_tcrc[3] && (lw)->type_crc[4] == g_tcrc[4])

int c_writer_add_record(ldb_writer_t *lw, const ldb_slice_t *slice)
__CPROVER_requires(__CPROVER_rw_ok(lw, sizeof(*lw)) && __CPROVER_r_ok(slice, sizeof(*slice)))
__CPROVER_requires(LW_WF(lw))
__CPROVER_requires(slice->size == 0 || __CPROVER_r_ok(slice->data, slice->size))
/* tracker starts in step with the writer, between records, nothing failed */
__CPROVER_requires(g_off == lw->block_offset && g_expect == EXP_HEADER && g_rec_state == 0 && g_done == 0 && !g_failed)
__CPROVER_requires(g_cov == 0 && g_base == slice->data && g_total == slice->size && g_unflushed == 0)
__CPROVER_assigns(lw->block_offset, g_failed, g_fail_rc, g_expect, g_off, g_rec_state, g_done, g_cov, g_cur_type, g_cur_len,
                  g_hdr_crc, g_unflushed, g_accepted, g_crc_z, g_crc_p, g_crc_n, g_crc_ret)
/* OK: exactly one logical record, covering the slice exactly, flushed, framing invariant kept */
__CPROVER_ensures(__CPROVER_return_value == LDB_OK ==> (!g_failed && g_done == 1 && g_rec_state == 0 && g_cov == g_total && g_expect == EXP_HEADER))
__CPROVER_ensures(__CPROVER_return_value == LDB_OK ==> g_unflushed == 0)
__CPROVER_ensures(__CPROVER_return_value == LDB_OK ==> (lw->block_offset == g_off && lw->block_offset >= LDB_HEADER_SIZE && lw->block_offset <= LDB_BLOCK_SIZE))
/* failure: the environment's status is what the caller sees */
__CPROVER_ensures(__CPROVER_return_value != LDB_OK ==> (g_failed && __CPROVER_return_value == g_fail_rc))
__CPROVER_ensures(g_failed ==> __CPROVER_return_value != LDB_OK)
;

void h_add_record(void) {
  ldb_writer_t lw;
  ldb_slice_t slice;
  IN_SIZE(in_n);
  IN_INT(in_block_offset);
  uint8_t *data = malloc(in_n);
  __CPROVER_assume(data != NULL);
  lw.file = &g_the_file; lw.dst = NULL; lw.block_offset = in_block_offset;
  lw.type_crc[0] = g_tcrc[0]; lw.type_crc[1] = g_tcrc[1]; lw.type_crc[2] = g_tcrc[2]; lw.type_crc[3] = g_tcrc[3]; lw.type_crc[4] = g_tcrc[4];
  slice.data = data; slice.size = in_n; slice.alloc = 0;
  /* the crc32c of the one-byte strings 01..04 are fixed non-zero constants */
  __CPROVER_assume(g_tcrc[1] != 0 && g_tcrc[2] != 0 && g_tcrc[3] != 0 && g_tcrc[4] != 0);
  g_off = in_block_offset; g_expect = EXP_HEADER; g_rec_state = 0; g_done = 0; g_failed = 0; g_cov = 0; g_base = data; g_total = in_n; g_unflushed = 0;
  ldb_writer_add_record(&lw, &slice);
  CANARY();
}

/* ldb_writer_init: block_offset = length mod 32768, type crcs precomputed */
void c_writer_init(ldb_writer_t *lw, ldb_wfile_t *file, uint64_t length)
__CPROVER_requires(__CPROVER_w_ok(lw, sizeof(*lw)))
__CPROVER_assigns(*lw)
__CPROVER_ensures(lw->file == file && lw->dst == NULL)
__CPROVER_ensures(lw->block_offset == (int)(length % 32768u))
__CPROVER_ensures(lw->type_crc[0] == g_tcrc[0] && lw->type_crc[1] == g_tcrc[1] && lw->type_crc[2] == g_tcrc[2] && lw->type_crc[3] == g_tcrc[3] && lw->type_crc[4] == g_tcrc[4])
;

void h_writer_init(void) {
  ldb_writer_t lw;
  IN_U64(in_length);
  ldb_writer_init(&lw, &g_the_file, in_length);
  CANARY();
}
