/* units/skl.c - proof units for src/skiplist.c, src/util/arena.c and the iterator / lifetime part of src/memtable.c
 *                (C01 reads return the latest write, C06, C07 iterators ordered and complete in both directions)
 *
 * The memtable units (units/mem.c) MODEL the skip list and the arena.  This group
 * verifies the real ones.  One source, sections selected by the unit's "defines":
 *
 *   (default)    skl.init .. skl.iter_*   real skiplist.c; the arena is an exact-size allocator model (typed node
 *                                         stores, link slots beyond the requested size are poisoned: a node that
 *                                         is too small for its height is a pointer-check failure, not silent slack)
 *   -DSKL_ARENA  skl.arena_*              real util/arena.c (+ real util/vector.c)
 *   -DSKL_MEM    skl.mi_*, skl.mt_life    real memtable.c + skiplist.c + arena.c together (+ vector.c, buffer.c,
 *                                         slice.c, iterator.c)
 *   -DSKL_MEM -DSKL_STUB_ARENA  skl.e2e*  real memtable.c + skiplist.c, arena model as in the default section
 *
 * Skip list (LevelDB db/skiplist.h).  Abstract state: a finite sequence of keys, strictly increasing under the
 * comparator.  Representation invariant RI(list):
 *   - head is a node of height 12 (kMaxHeight) with key NULL; 1 <= max_height <= 12;
 *   - every node has a height in [1, 12]; max_height >= every node's height;
 *   - for every level l in [0, 12): the chain head -> next[l] -> ... is exactly the sub-sequence of the nodes
 *     whose height is > l, in level-0 order, and it ends in NULL (so every level above the tallest node is empty);
 *   - the level-0 chain is strictly sorted by the comparator.
 * The harness builds an arbitrary list satisfying RI from at most SKL_N nodes of height <= SKL_H with symbolic,
 * strictly increasing key ids, symbolic heights and a symbolic max_height in [tallest node, 12]; shape_errors()
 * re-evaluates RI against an expected node sequence after the call.  "For all levels / nodes" are the harness's
 * own constant-bounded loops, so the list units are BOUNDED by (SKL_N, SKL_H); the code under test runs with
 * symbolic heights up to 12 for the inserted node.  Unbounded (mode "proof") are the loop-free / constant-loop
 * units: skl.init, skl.randheight, skl.key_after, skl.arena_alloc, skl.arena_aligned, skl.mi_kv, skl.mt_life.
 *
 * Keys are what the memtable stores: length-prefixed strings.  Here: 2 bytes { 0x01, id }.  The list's comparator
 * is a model over the ids (total order of uint8_t) that answers with an ARBITRARY negative / positive number
 * (g_neg / g_pos), so code that tests "== -1" or "> 0" instead of "< 0" is not accepted by accident.
 *
 * Not covered: concurrency.  The acquire/release/relaxed atomics (GNU __atomic builtins under goto-cc) are
 * executed as plain loads and stores by one thread; the lock-free reader vs. single writer protocol (C10) is
 * outside this group.
 */
#include "verif.h"

#include <stdint.h>
#include <stdlib.h>
#include <string.h>

#include "contracts/coding.h"

#include "util/arena.h"
#include "util/atomic.h"
#include "util/buffer.h"
#include "util/comparator.h"
#include "util/internal.h"
#include "util/random.h"
#include "util/slice.h"
#include "util/vector.h"

#include "skiplist.h"

#ifndef SKL_N
#define SKL_N 4           /* nodes in the pre-state                    */
#endif
#ifndef SKL_H
#define SKL_H 3           /* tallest node in the pre-state             */
#endif
#define SKL_MAXH 12       /* LevelDB SkipList::kMaxHeight              */
#define SKL_M (SKL_N + 1) /* nodes the harness tracks: pre-state + one inserted */

int nondet_bool_(void);

/* =============================================================== models == */

/* ---- heap: malloc that cannot fail (ldb_malloc aborts on NULL), with a log of the blocks handed out ---- */
#define HEAP_LOG 5
struct heap_ghost {
  int mallocs;
  uint8_t *ptr[HEAP_LOG]; size_t req[HEAP_LOG];
  int frees;
  void *freed[HEAP_LOG];
  int overflow;
  int big_symbolic;   /* 1: requests >= 1024 bytes get a block of symbolic size >= the request */
} HG;

static void heap_reset(void) {
  int i;
  HG.mallocs = 0; HG.frees = 0; HG.overflow = 0; HG.big_symbolic = 0;
  for (i = 0; i < HEAP_LOG; i++) { HG.ptr[i] = NULL; HG.req[i] = 0; HG.freed[i] = NULL; }
}

void *ldb_malloc(size_t n) {
  size_t m = n;
  uint8_t *p;
  /* units that touch block CONTENT give big blocks a symbolic size >= the request: CBMC keeps them in its array
     theory instead of bit-blasting 4 KiB (all checks are against the requested size req[]) */
  if (n >= 1024 && HG.big_symbolic) { m = nondet_size(); __CPROVER_assume(m >= n); }
  p = malloc(m);
  __CPROVER_assume(p != NULL);
  if (HG.mallocs < HEAP_LOG) { HG.ptr[HG.mallocs] = p; HG.req[HG.mallocs] = n; } else HG.overflow = 1;
  HG.mallocs++;
  return p;
}

#define RA_SMALL 4
/* realloc that cannot fail.  RA.ghost == 0: fresh block, the first min(old, new) bytes preserved (vectors of at most 4 pointers).  RA.ghost == 1 (block
 * lists of arbitrary length): a fresh block of n bytes that keeps the pointer-sized element at the arbitrary
 * ghost index RA.j (exact for every statement about that element), the old block is released. */
struct ra_ghost { int ghost; size_t j; int calls; } RA;
void *ldb_realloc(void *q, size_t n) {
  void *p;
  RA.calls++;
  if (!RA.ghost) {
    /* short pointer vectors only (bounded units): element-wise copy of up to RA_SMALL pointers */
    size_t i, on = q != NULL ? __CPROVER_OBJECT_SIZE(q) : 0;
    __CPROVER_assert(n <= RA_SMALL * sizeof(void *), "ldb_realloc model: the bounded units only grow short pointer vectors");
    p = malloc(n);
    __CPROVER_assume(p != NULL);
    for (i = 0; i < RA_SMALL; i++)
      if ((i + 1) * sizeof(void *) <= n && (i + 1) * sizeof(void *) <= on) ((void **)p)[i] = ((void **)q)[i];
    if (q != NULL) free(q);
    return p;
  }
  p = malloc(n);
  __CPROVER_assume(p != NULL);
  if (q != NULL) {
    if (RA.j < n / sizeof(void *) && RA.j < __CPROVER_OBJECT_SIZE(q) / sizeof(void *))
      ((void **)p)[RA.j] = ((void **)q)[RA.j];
    free(q);
  }
  return p;
}

void ldb_free(void *p) {
  if (p != NULL) {
    if (HG.frees < HEAP_LOG) HG.freed[HG.frees] = p; else HG.overflow = 1;
    HG.frees++;
    free(p);
  }
}

static int was_freed(const void *p) {
  int i, r = 0;
  for (i = 0; i < HEAP_LOG; i++) if (i < HG.frees && HG.freed[i] == p) r++;
  return r;
}

/* ---- random source: every draw is arbitrary; the draws are counted ---- */
struct rand_ghost { int calls; int ones; int bad_n; int after_zero; int seen_zero; int limit; int streak; } RG;   /* limit >= 0: at most that many successes in a row */
static void rand_reset(void) { RG.calls = 0; RG.ones = 0; RG.bad_n = 0; RG.after_zero = 0; RG.seen_zero = 0; RG.limit = -1; RG.streak = 0; }

void ldb_rand_init(ldb_rand_t *rnd, uint32_t seed) { rnd->seed = seed & 0x7fffffff; }
int ldb_rand_one_in(ldb_rand_t *rnd, uint32_t n) {
  int r = nondet_bool_() ? 1 : 0;
  (void)rnd;
  if (RG.limit >= 0 && RG.streak >= RG.limit) r = 0;
  RG.streak = r ? RG.streak + 1 : 0;
  if (n != 4) RG.bad_n = 1;              /* LevelDB kBranching = 4 */
  if (RG.seen_zero) RG.after_zero = 1;   /* a draw after the first failure */
  RG.calls++;
  if (r) RG.ones++; else RG.seen_zero = 1;
  return r;
}

/* ---- comparator over key ids ---- */
struct cmp_ghost {
  int neg, pos;           /* the arbitrary negative / positive answers  */
  int calls;
  int bad_len;            /* an operand was not the 1-byte decoded key  */
  const ldb_comparator_t *self; int bad_self;
} CG;

static int stub_compare(const ldb_comparator_t *c, const ldb_slice_t *x, const ldb_slice_t *y) {
  uint8_t a, b;
  CG.calls++;
  if (c != CG.self) CG.bad_self = 1;
  if (x->size != 1 || y->size != 1) { CG.bad_len = 1; return 0; }
  a = x->data[0]; b = y->data[0];
  return a < b ? CG.neg : a > b ? CG.pos : 0;
}

static void cmp_setup(ldb_comparator_t *cmp) {
  cmp->name = NULL; cmp->compare = stub_compare; cmp->shortest_separator = NULL; cmp->short_successor = NULL;
  cmp->user_comparator = NULL; cmp->state = NULL;
  CG.neg = nondet_int(); CG.pos = nondet_int();
  __CPROVER_assume(CG.neg < 0 && CG.pos > 0);
  CG.calls = 0; CG.bad_len = 0; CG.bad_self = 0; CG.self = cmp;
}

static uint8_t *make_key(uint8_t id) {
  uint8_t *k = malloc(2);
  __CPROVER_assume(k != NULL);
  k[0] = 1; k[1] = id;    /* varint32(1) | id */
  return k;
}

/* ======================================================================== */
#if !defined(SKL_ARENA) && !defined(SKL_MEM)
/* ================================================= section: skip list only */

/* Node storage.  CBMC is an order of magnitude faster on typed objects than on heap blocks of symbolic size,
 * so nodes live in typed stores with room for SKL_H (pre-state nodes) or 12 (head, allocated node) links.
 * "A node has exactly height links" is kept by POISON: every link slot at or above the node's height holds a
 * pointer that cannot be dereferenced (one past an object); following it is a pointer-check failure, and the
 * harness checks afterwards that every poisoned slot is untouched. */
struct skl_store { const uint8_t *key; struct ldb_skipnode_s *volatile next[SKL_H]; };
struct skl_hstore { const uint8_t *key; struct ldb_skipnode_s *volatile next[SKL_MAXH]; };
static struct skl_store g_st0, g_st1, g_st2, g_st3;
static struct skl_hstore g_hst;   /* head of the pre-state                   */
static struct skl_hstore g_xst;   /* the node the code under test allocates  */
static char g_poison_obj;
struct ldb_skipnode_s *nondet_nodeptr(void);
#define POISON ((struct ldb_skipnode_s *)(&g_poison_obj + 1))

/* exact-size arena model: hands out g_xst once, usable for exactly `size` bytes (the rest is poisoned), recorded */
struct alloc_ghost { int calls; uint8_t *ptr; size_t size; ldb_arena_t *arena; int unaligned_api; int links; } AG;

void *ldb_arena_alloc_aligned(ldb_arena_t *arena, size_t size) {
  uint8_t *p;
  int l;
  if (AG.calls == 0) {
    p = (uint8_t *)&g_xst;
    AG.links = SKL_MAXH;
    for (l = 0; l < SKL_MAXH; l++) {
      if (sizeof(void *) * (size_t)(l + 2) > size) { g_xst.next[l] = POISON; if (AG.links == SKL_MAXH) AG.links = l; }
      else g_xst.next[l] = nondet_nodeptr();   /* uninitialised memory */
    }
    g_xst.key = (const uint8_t *)nondet_nodeptr();
  } else {
    p = malloc(size);
    __CPROVER_assume(p != NULL);
  }
  AG.calls++; AG.ptr = p; AG.size = size; AG.arena = arena;
  return p;
}
void *ldb_arena_alloc(ldb_arena_t *arena, size_t size) {
  AG.unaligned_api = 1;   /* nodes hold pointers: they must come from the aligned allocator */
  return ldb_arena_alloc_aligned(arena, size);
}
static void alloc_reset(void) { AG.calls = 0; AG.ptr = NULL; AG.size = 0; AG.arena = NULL; AG.unaligned_api = 0; AG.links = 0; }
static int xst_poison_broken(void) {
  int l, e = 0;
  for (l = 0; l < SKL_MAXH; l++) if (l >= AG.links && g_xst.next[l] != POISON) e = 1;
  return e;
}

#include "skiplist.c"

#define NODE_SIZE(h) (sizeof(ldb_skipnode_t) + sizeof(void *) * ((size_t)(h) - 1))
#define NX(nd, l) (*((ldb_skipnode_t *volatile *)(nd)->next + (l)))

struct skl_world {
  ldb_skiplist_t list;
  ldb_comparator_t cmp;
  ldb_arena_t arena;
  ldb_skipnode_t *head;
  int n;                               /* nodes                                        */
  int mh;                              /* max_height                                   */
  ldb_skipnode_t *node[SKL_M]; int h[SKL_M]; uint8_t id[SKL_M]; const uint8_t *key[SKL_M];
  int n0; int h0[SKL_N];               /* pre-state count and heights by store (for the poison check)  */
} W;

static ldb_skipnode_t *store_of(int i) {
  return (ldb_skipnode_t *)(i == 0 ? &g_st0 : i == 1 ? &g_st1 : i == 2 ? &g_st2 : &g_st3);
}

/* an arbitrary list satisfying RI: n <= SKL_N nodes, heights 1..SKL_H, strictly increasing ids */
static void build_world(void) {
  int i, l, tallest = 1;
  IN_INT(in_n); IN_INT(in_mh);
  ASSUME(in_n >= 0 && in_n <= SKL_N);
  heap_reset(); rand_reset(); cmp_setup(&W.cmp);
  alloc_reset();
  W.n = in_n; W.n0 = in_n;
  W.head = (ldb_skipnode_t *)&g_hst;
  W.head->key = NULL;
  for (i = 0; i < SKL_M; i++) { W.node[i] = NULL; W.h[i] = 0; W.id[i] = 0; W.key[i] = NULL; }
  for (i = 0; i < SKL_N; i++) {
    if (i < in_n) {
      int hh = nondet_int(); uint8_t id = nondet_u8();
      ASSUME(hh >= 1 && hh <= SKL_H);
      ASSUME(i == 0 || id > W.id[i - 1]);
      W.h[i] = hh; W.h0[i] = hh; W.id[i] = id; W.key[i] = make_key(id);
      W.node[i] = store_of(i);
      for (l = 0; l < SKL_H; l++) NX(W.node[i], l) = POISON;   /* links at or above the height do not exist */
      W.node[i]->key = W.key[i];
      if (hh > tallest) tallest = hh;
    }
  }
  for (l = 0; l < SKL_MAXH; l++) {
    ldb_skipnode_t *last = W.head;
    if (l < SKL_H) {
      for (i = 0; i < SKL_N; i++) {
        if (i < in_n && W.h[i] > l) { NX(last, l) = W.node[i]; last = W.node[i]; }
      }
    }
    NX(last, l) = NULL;
  }
  ASSUME(in_mh >= tallest && in_mh <= SKL_MAXH);
  W.mh = in_mh;
  W.list.comparator = &W.cmp; W.list.arena = &W.arena; W.list.head = W.head; W.list.max_height = in_mh;
  W.list.rnd.seed = nondet_u32();
}

/* RI against the expected sequence (node[], h[], id[], key[] of length n): bit set of what is wrong */
#define SH_LEVEL0   1   /* level-0 chain is not exactly the expected sequence ending in NULL      */
#define SH_UPPER    2   /* some level > 0 is not the sub-sequence of the nodes taller than it      */
#define SH_KEYS     4   /* a node's key pointer / the head's NULL key changed                      */
#define SH_SORT     8   /* ids not strictly increasing                                            */
#define SH_HEIGHT  16   /* max_height out of [tallest, 12] or a node taller than 12                */
#define SH_FIELDS  32   /* comparator / arena / head field of the list changed                    */
#define SH_POISON  64   /* a link slot at or above a pre-state node's height was written           */
static int shape_errors(int n, int maxlev) {
  int i, l, e = 0, tallest = 1;
  for (l = 0; l < SKL_MAXH; l++) {
    ldb_skipnode_t *cur = W.head;
    if (l < maxlev) {
      for (i = 0; i < SKL_M; i++) {
        if (i < n && W.h[i] > l) {
          if (NX(cur, l) != W.node[i]) e |= (l == 0 ? SH_LEVEL0 : SH_UPPER);
          cur = W.node[i];
        }
      }
    }
    if (NX(cur, l) != NULL) e |= (l == 0 ? SH_LEVEL0 : SH_UPPER);
  }
  if (W.head->key != NULL) e |= SH_KEYS;
  for (i = 0; i < SKL_M; i++) {
    if (i < n) {
      if (W.node[i]->key != W.key[i] || W.key[i][0] != 1 || W.key[i][1] != W.id[i]) e |= SH_KEYS;
      if (i > 0 && !(W.id[i - 1] < W.id[i])) e |= SH_SORT;
      if (W.h[i] < 1 || W.h[i] > SKL_MAXH) e |= SH_HEIGHT;
      if (W.h[i] > tallest) tallest = W.h[i];
    }
  }
  if (W.list.max_height < tallest || W.list.max_height > SKL_MAXH || W.list.max_height < 1) e |= SH_HEIGHT;
  if (W.list.comparator != &W.cmp || W.list.arena != &W.arena || W.list.head != W.head) e |= SH_FIELDS;
  for (i = 0; i < SKL_N; i++)
    for (l = 0; l < SKL_H; l++)
      if (i < W.n0 && l >= W.h0[i] && NX(store_of(i), l) != POISON) e |= SH_POISON;
  return e;
}

/* map functions over the abstract sequence */
static int idx_first_ge(uint8_t k) {   /* index of the first node with id >= k, n if none */
  int i, r = W.n;
  for (i = SKL_N - 1; i >= 0; i--) if (i < W.n && W.id[i] >= k) r = i;
  return r;
}
static int has_id(uint8_t k) {
  int i, r = 0;
  for (i = 0; i < SKL_N; i++) if (i < W.n && W.id[i] == k) r = 1;
  return r;
}
/* last node at level l (height > l) with id < k; head if none */
static ldb_skipnode_t *last_lt_at(uint8_t k, int l) {
  int i; ldb_skipnode_t *r = W.head;
  for (i = 0; i < SKL_N; i++) if (i < W.n && W.h[i] > l && W.id[i] < k) r = W.node[i];
  return r;
}

#define CHECK_UNCHANGED(who) \
  CHECK(shape_errors(W.n, SKL_H) == 0 && W.list.max_height == W.mh, who ": a read-only operation leaves every link, key, max_height and list field as it was")
#define CHECK_CMP(who) \
  CHECK(!CG.bad_len && !CG.bad_self, who ": keys reach the list's comparator with the length prefix stripped (1-byte payload), through the list's own comparator")

/* ----------------------------------------------------- ldb_skiplist_init -- */
void h_init(void) {
  ldb_skiplist_t list; ldb_comparator_t cmp; ldb_arena_t arena;
  int l, bad = 0;
  heap_reset(); rand_reset(); cmp_setup(&cmp);
  alloc_reset();
  ldb_skiplist_init(&list, &cmp, &arena, NULL);
  CHECK(list.comparator == &cmp && list.arena == &arena, "skiplist_init: comparator and arena are recorded in the list");
  CHECK(AG.calls == 1 && AG.arena == &arena && !AG.unaligned_api && list.head == (ldb_skipnode_t *)AG.ptr,
        "skiplist_init: the head node is the one aligned allocation from the list's arena");
  CHECK(AG.size == NODE_SIZE(SKL_MAXH), "skiplist_init: the head has room for kMaxHeight = 12 links");
  CHECK(!xst_poison_broken(), "skiplist_init: nothing is written outside the head allocation");
  CHECK(list.head->key == NULL, "skiplist_init: the head carries no key");
  CHECK(list.max_height == 1, "skiplist_init: an empty list has max_height 1");
  for (l = 0; l < SKL_MAXH; l++) if (NX(list.head, l) != NULL) bad = 1;
  CHECK(!bad, "skiplist_init: all 12 head links are NULL (every level is an empty chain)");
  CHECK(list.rnd.seed == (0xdeadbeefu & 0x7fffffffu), "skiplist_init: the height generator is seeded with 0xdeadbeef");
  {
    ldb_skipiter_t it;
    uint8_t *k = make_key(nondet_u8());
    ldb_skipiter_init(&it, &list);
    ldb_skipiter_first(&it);
    CHECK(!ldb_skipiter_valid(&it), "skiplist_init: first() on the new list is invalid (empty)");
    ldb_skipiter_last(&it);
    CHECK(!ldb_skipiter_valid(&it), "skiplist_init: last() on the new list is invalid (empty)");
    CHECK(!ldb_skiplist_contains(&list, k), "skiplist_init: the new list contains no key");
    CHECK(CG.calls == 0, "skiplist_init: nothing is compared in an empty list");
  }
  CANARY();
}

/* ----------------------------------------------- ldb_skiplist_randheight -- */
void h_randheight(void) {
  ldb_skiplist_t list;
  int r;
  rand_reset();
  list.rnd.seed = nondet_u32();
  r = ldb_skiplist_randheight(&list);
  CHECK(r >= 1 && r <= SKL_MAXH, "randheight: the height is in [1, kMaxHeight = 12]");
  CHECK(!RG.bad_n, "randheight: every draw is one-in-4 (kBranching)");
  CHECK(r == 1 + RG.ones, "randheight: height = 1 + number of successful draws");
  CHECK(!RG.after_zero, "randheight: stops at the first failed draw");
  CHECK(RG.calls == (r == SKL_MAXH ? SKL_MAXH - 1 : r), "randheight: draws until the first failure, at most 11 times (no draw once 12 is reached)");
  CANARY();
}

/* ------------------------------------------- ldb_skiplist_key_after_node -- */
void h_key_after(void) {
  ldb_skiplist_t list; ldb_comparator_t cmp;
  ldb_skipnode_t *nd = NULL;
  IN_U8(in_kid); IN_U8(in_nid); IN_INT(in_null);
  uint8_t *key, *nkey;
  int r;
  cmp_setup(&cmp);
  list.comparator = &cmp; list.arena = NULL; list.head = NULL; list.max_height = 1;
  key = make_key(in_kid); nkey = make_key(in_nid);
  if (!in_null) { nd = malloc(NODE_SIZE(1)); ASSUME(nd != NULL); nd->key = nkey; NX(nd, 0) = NULL; }
  r = ldb_skiplist_key_after_node(&list, key, nd);
  CHECK((r != 0) == (nd != NULL && in_nid < in_kid), "key_after_node: true iff the node exists and its key is strictly smaller than the key (NULL = +infinity)");
  CHECK(nd == NULL ? CG.calls == 0 : CG.calls == 1, "key_after_node: one comparison for a real node, none for NULL");
  CHECK_CMP("key_after_node");
  CANARY();
}

/* ------------------------------------------------- ldb_skiplist_find_ge -- */
void h_find_ge(void) {
  ldb_skipnode_t *prev[SKL_MAXH];
  ldb_skipnode_t *sentinel, *r;
  IN_U8(in_kid); IN_INT(in_want_prev);
  uint8_t *key;
  int l, j, bad_prev = 0, bad_above = 0;
  build_world();
  key = make_key(in_kid);
  sentinel = malloc(NODE_SIZE(1)); ASSUME(sentinel != NULL);
  for (l = 0; l < SKL_MAXH; l++) prev[l] = sentinel;
  r = ldb_skiplist_find_ge(&W.list, key, in_want_prev ? prev : NULL);
  j = idx_first_ge(in_kid);
  CHECK(r == (j < W.n ? W.node[j] : NULL), "find_ge: returns the first node whose key is >= the key, NULL if there is none");
  for (l = 0; l < SKL_MAXH; l++) {
    if (l < W.mh) { if (prev[l] != (in_want_prev ? last_lt_at(in_kid, l) : sentinel)) bad_prev = 1; }
    else if (prev[l] != sentinel) bad_above = 1;
  }
  CHECK(!bad_prev, "find_ge: prev[l] = the last node of level l whose key is < the key (the head if none), for every l < max_height; nothing is written without prev");
  CHECK(!bad_above, "find_ge: prev[] is not touched at or above max_height");
  CHECK_UNCHANGED("find_ge");
  CHECK_CMP("find_ge");
  CANARY();
}

/* ------------------------------------------------- ldb_skiplist_find_lt -- */
void h_find_lt(void) {
  ldb_skipnode_t *r;
  IN_U8(in_kid);
  uint8_t *key;
  build_world();
  key = make_key(in_kid);
  r = ldb_skiplist_find_lt(&W.list, key);
  CHECK(r == last_lt_at(in_kid, 0), "find_lt: returns the last node whose key is < the key, the head if there is none");
  CHECK_UNCHANGED("find_lt");
  CHECK_CMP("find_lt");
  CANARY();
}

/* ----------------------------------------------- ldb_skiplist_find_last -- */
void h_find_last(void) {
  ldb_skipnode_t *r;
  build_world();
  r = ldb_skiplist_find_last(&W.list);
  CHECK(r == (W.n > 0 ? W.node[W.n - 1] : W.head), "find_last: returns the last node of the list, the head if it is empty");
  CHECK(CG.calls == 0, "find_last: no key comparison");
  CHECK_UNCHANGED("find_last");
  CANARY();
}

/* ------------------------------------------------ ldb_skiplist_contains -- */
void h_contains(void) {
  IN_U8(in_kid);
  uint8_t *key;
  int r;
  build_world();
  key = make_key(in_kid);
  r = ldb_skiplist_contains(&W.list, key);
  CHECK(r == has_id(in_kid), "contains: 1 iff a node with an equal key is in the list, else 0");
  CHECK_UNCHANGED("contains");
  CHECK_CMP("contains");
  CANARY();
}

/* -------------------------------------------------- ldb_skiplist_insert -- */
void h_insert(void) {
  IN_U8(in_kid);
  uint8_t *key;
  int p, i, hx, e;
  ldb_skipnode_t *x;
  build_world();
  ASSUME(!has_id(in_kid));       /* REQUIRES: nothing that compares equal to key is in the list */
  key = make_key(in_kid);
  ldb_skiplist_insert(&W.list, key);
  /* the new node */
  hx = 1 + RG.ones;
  CHECK(AG.calls == 1 && AG.arena == &W.arena && !AG.unaligned_api, "insert: exactly one node is allocated, aligned, from the list's arena");
  CHECK(!RG.bad_n && !RG.after_zero && hx >= 1 && hx <= SKL_MAXH, "insert: the node's height is drawn once with branching 4 and lies in [1, 12]");
  CHECK(AG.size == NODE_SIZE(hx), "insert: the node has room for exactly its height in links");
  x = (ldb_skipnode_t *)AG.ptr;
  CHECK(x->key == key, "insert: the new node carries the inserted key pointer");
  /* expected sequence: old sequence with the key at its sorted position */
  p = idx_first_ge(in_kid);
  for (i = SKL_M - 1; i > 0; i--) {
    if (i > p && i <= W.n) { W.node[i] = W.node[i - 1]; W.h[i] = W.h[i - 1]; W.id[i] = W.id[i - 1]; W.key[i] = W.key[i - 1]; }
  }
  W.node[p] = x; W.h[p] = hx; W.id[p] = in_kid; W.key[p] = key;
  e = shape_errors(W.n + 1, SKL_MAXH);
  CHECK(!(e & SH_LEVEL0), "insert: the level-0 chain is the old sequence with the new node exactly once between its neighbours, NULL-terminated; no node lost or reordered");
  CHECK(!(e & SH_UPPER), "insert: every level l > 0 is the sub-sequence of the nodes taller than l (the new node is linked on exactly its height levels, also above the old max_height), NULL-terminated");
  CHECK(!(e & SH_KEYS), "insert: no node's key changes; the head's key stays NULL");
  CHECK(!(e & SH_SORT), "insert: the level-0 chain stays strictly sorted");
  CHECK(!(e & SH_HEIGHT), "insert: 1 <= max_height <= 12 and max_height >= every node's height");
  CHECK(W.list.max_height == (hx > W.mh ? hx : W.mh), "insert: max_height is raised to the new node's height iff that is taller, otherwise unchanged");
  CHECK(!(e & SH_FIELDS), "insert: comparator, arena and head of the list are unchanged");
  CHECK(!(e & SH_POISON) && !xst_poison_broken(), "insert: no link is written at or above a node's height (old nodes and the new one)");
  CHECK_CMP("insert");
  CANARY();
}

/* ------------------------------------------------------- skip iterator -- */
/* forward: init, first, seek, next, valid, key */
void h_iter_fwd(void) {
  ldb_skipiter_t it;
  IN_U8(in_kid); IN_INT(in_i);
  uint8_t *key;
  int j;
  build_world();
  key = make_key(in_kid);
  ldb_skipiter_init(&it, &W.list);
  CHECK(it.list == &W.list && !ldb_skipiter_valid(&it), "skipiter_init: bound to the list, not valid");
  ldb_skipiter_first(&it);
  CHECK(ldb_skipiter_valid(&it) == (W.n > 0), "skipiter_first: valid iff the list is not empty");
  CHECK(it.node == (W.n > 0 ? W.node[0] : NULL), "skipiter_first: positions on the first node");
  ldb_skipiter_seek(&it, key);
  j = idx_first_ge(in_kid);
  CHECK(ldb_skipiter_valid(&it) == (j < W.n), "skipiter_seek: valid iff some key is >= the target");
  CHECK(it.node == (j < W.n ? W.node[j] : NULL), "skipiter_seek: positions on the first node whose key is >= the target");
  CHECK(j >= W.n || ldb_skipiter_key(&it) == W.key[j], "skipiter_key: returns the key pointer stored in the current node");
  /* next from an arbitrary position i */
  ASSUME(in_i >= 0 && in_i < W.n);
  it.node = W.node[in_i];
  CHECK(ldb_skipiter_key(&it) == W.key[in_i], "skipiter_key: returns the key pointer of the node under the cursor");
  ldb_skipiter_next(&it);
  CHECK(ldb_skipiter_valid(&it) == (in_i + 1 < W.n), "skipiter_next: becomes invalid exactly when it leaves the last node");
  CHECK(it.node == (in_i + 1 < W.n ? W.node[in_i + 1] : NULL), "skipiter_next: moves to the immediate successor in key order (no node skipped)");
  CHECK(it.list == &W.list, "skip iterator: stays bound to its list");
  CHECK_UNCHANGED("skip iterator (forward)");
  CHECK_CMP("skip iterator (forward)");
  CANARY();
}

/* backward: last, prev */
void h_iter_bwd(void) {
  ldb_skipiter_t it;
  IN_INT(in_i);
  build_world();
  ldb_skipiter_init(&it, &W.list);
  ldb_skipiter_last(&it);
  CHECK(ldb_skipiter_valid(&it) == (W.n > 0), "skipiter_last: valid iff the list is not empty");
  CHECK(it.node == (W.n > 0 ? W.node[W.n - 1] : NULL), "skipiter_last: positions on the last node");
  ASSUME(in_i >= 0 && in_i < W.n);
  it.node = W.node[in_i];
  ldb_skipiter_prev(&it);
  CHECK(ldb_skipiter_valid(&it) == (in_i > 0), "skipiter_prev: becomes invalid exactly when it leaves the first node (never exposes the head)");
  CHECK(it.node == (in_i > 0 ? W.node[in_i - 1] : NULL), "skipiter_prev: moves to the immediate predecessor in key order (no node skipped)");
  CHECK(it.list == &W.list, "skip iterator: stays bound to its list");
  CHECK_UNCHANGED("skip iterator (backward)");
  CHECK_CMP("skip iterator (backward)");
  CANARY();
}

#endif /* skip list section */

/* ======================================================================== */
#ifdef SKL_ARENA
/* ======================================================== section: arena == */
/* LevelDB util/arena.h.  State: the current chunk [data, data + left) and the list of blocks obtained from
 * malloc.  Arena invariant AI: left == 0, or [data, data + left) lies inside one block the arena owns; every
 * region handed out earlier lies in an owned block and is disjoint from [data, data + left).
 *
 *   Allocate(n), n > 0:          n <= left          -> the first n bytes of the chunk
 *   AllocateAligned(n):          n + slop <= left   -> the first n bytes after the slop that aligns data to 8
 *   otherwise (fallback):        n > kBlockSize/4 = 1024 -> a block of its own of exactly n bytes, the chunk is KEPT
 *                                else a new 4096-byte block becomes the chunk (its first n bytes are returned,
 *                                the rest of the old chunk is given up)
 *   memory usage grows by (block size + sizeof(char*)) per block.
 */

#include "util/arena.c"

struct arena_world {
  ldb_arena_t a;
  uint8_t *blk; size_t B, off;          /* current block (NULL: none), its size, offset of data                   */
  uint8_t *q; size_t qn;                /* a region handed out earlier                                            */
  size_t L; void *item_j;               /* old block-list length, the element at the ghost index RA.j (if j < L)  */
  size_t u0;
} AW;

/* arbitrary arena state satisfying AI */
static void build_arena(void) {
  IN_SIZE(in_B); IN_SIZE(in_off); IN_INT(in_has_block); IN_SIZE(in_usage);
  IN_SIZE(in_L); IN_SIZE(in_valloc); IN_SIZE(in_j); IN_INT(in_q_where); IN_SIZE(in_qoff); IN_SIZE(in_qn);
  heap_reset();
  /* block list: in_L entries in a vector of capacity in_valloc >= in_L */
  ASSUME(in_L <= in_valloc && in_valloc <= ((size_t)1 << 32));
  AW.a.blocks.length = in_L; AW.a.blocks.alloc = in_valloc;
  AW.a.blocks.items = NULL;
  if (in_valloc > 0) { AW.a.blocks.items = malloc(in_valloc * sizeof(void *)); ASSUME(AW.a.blocks.items != NULL); }
  RA.ghost = 1; RA.j = in_j; RA.calls = 0;
  AW.L = in_L; AW.item_j = in_j < in_L ? AW.a.blocks.items[in_j] : NULL;
  /* current chunk */
  ASSUME(in_B >= 1 && in_B <= ((size_t)1 << 40) && in_off <= in_B);
  if (in_has_block) {
    AW.blk = malloc(in_B); ASSUME(AW.blk != NULL);
    AW.B = in_B; AW.off = in_off;
    AW.a.data = AW.blk + in_off; AW.a.left = in_B - in_off;
  } else {
    AW.blk = NULL; AW.B = 0; AW.off = 0; AW.a.data = NULL; AW.a.left = 0;   /* ldb_arena_init's state */
  }
  ASSUME(in_usage <= ((size_t)1 << 60));
  AW.a.usage = in_usage; AW.u0 = in_usage;
  /* an earlier allocation: below data in the current block, or somewhere in another block */
  ASSUME(in_qn >= 1 && in_qn <= ((size_t)1 << 40));
  if (in_q_where && in_has_block) {
    ASSUME(in_qoff <= in_off && in_qn <= in_off - in_qoff);
    AW.q = AW.blk + in_qoff;
  } else {
    AW.q = malloc(in_qn); ASSUME(AW.q != NULL);
  }
  AW.qn = in_qn;
}

#define OFFS(p) ((size_t)__CPROVER_POINTER_OFFSET(p))
#define DISJOINT(p, pn, q, qn) (!__CPROVER_same_object(p, q) || OFFS(p) + (pn) <= OFFS(q) || OFFS(q) + (qn) <= OFFS(p))
#define INSIDE(p, pn, blk, bn) (__CPROVER_same_object(p, blk) && OFFS(p) >= OFFS(blk) && OFFS(p) - OFFS(blk) + (pn) <= (bn))

/* what every allocation path must satisfy; r = result, size = request, (data0, left0) the chunk before */
static void check_alloc_common(const char *unused, uint8_t *r, size_t size, uint8_t *data0, size_t left0, size_t consumed, int fits) {
  (void)unused;
  if (fits) {
    CHECK(HG.mallocs == 0 && RA.calls == 0, "arena: a request that fits the current chunk takes no new block");
    CHECK(AW.a.data == data0 + consumed && AW.a.left == left0 - consumed, "arena: the chunk shrinks from the front by exactly the bytes consumed (data advanced, left reduced)");
    CHECK(AW.a.usage == AW.u0, "arena: memory usage unchanged without a new block");
    CHECK(AW.a.blocks.length == AW.L, "arena: block list unchanged without a new block");
    CHECK(INSIDE(r, size, AW.blk, AW.B), "arena: the returned region lies inside the current block");
    CHECK(OFFS(r) + size <= OFFS(AW.a.data), "arena: the returned region ends at or before the new chunk start (it will not be handed out again)");
  } else if (size > 4096 / 4) {
    CHECK(HG.mallocs == 1 && HG.req[0] == size && r == HG.ptr[0], "arena: a request above a quarter block (1024) gets a block of its own of exactly that size");
    CHECK(AW.a.data == data0 && AW.a.left == left0, "arena: a large request does not give up the current chunk");
    CHECK(AW.a.usage == AW.u0 + size + sizeof(void *), "arena: memory usage grows by the block size plus one pointer");
  } else {
    CHECK(HG.mallocs == 1 && HG.req[0] == 4096 && r == HG.ptr[0], "arena: a small request that does not fit starts a new 4096-byte block and gets its first bytes");
    CHECK(AW.a.data == HG.ptr[0] + size && AW.a.left == 4096 - size, "arena: the new chunk is the rest of the new block");
    CHECK(AW.a.usage == AW.u0 + 4096 + sizeof(void *), "arena: memory usage grows by 4096 plus one pointer");
  }
  if (!fits) {
    CHECK(AW.a.blocks.length == AW.L + 1 && AW.a.blocks.alloc >= AW.a.blocks.length, "arena: the new block is appended to the block list");
    CHECK(AW.a.blocks.items[AW.L] == (void *)HG.ptr[0], "arena: the last block-list entry is the new block (it will be freed by clear)");
    CHECK(!(RA.j < AW.L) || AW.a.blocks.items[RA.j] == AW.item_j, "arena: earlier block-list entries are preserved (arbitrary ghost index)");
  }
  CHECK(DISJOINT(r, size, AW.q, AW.qn), "arena: the returned region does not overlap a region handed out earlier");
  CHECK(AW.a.left == 0 || DISJOINT(AW.a.data, AW.a.left, AW.q, AW.qn), "arena: the remaining chunk does not overlap a region handed out earlier");
  CHECK(AW.a.left == 0 || DISJOINT(AW.a.data, AW.a.left, r, size), "arena: the remaining chunk does not overlap the region just returned");
  CHECK(ldb_arena_usage(&AW.a) == AW.a.usage, "arena_usage: reports the usage counter");
}

/* ------------------------------------------------------- ldb_arena_alloc -- */
void h_arena_alloc(void) {
  IN_SIZE(in_size);
  uint8_t *r, *data0; size_t left0;
  build_arena();
  ASSUME(in_size >= 1 && in_size <= ((size_t)1 << 40));   /* REQUIRES size > 0 */
  data0 = AW.a.data; left0 = AW.a.left;
  r = ldb_arena_alloc(&AW.a, in_size);
  CHECK(in_size > left0 || r == data0, "arena_alloc: a request that fits returns the start of the current chunk");
  check_alloc_common("arena_alloc", r, in_size, data0, left0, in_size, in_size <= left0);
  CANARY();
}

/* ----------------------------------------------- ldb_arena_alloc_aligned -- */
void h_arena_aligned(void) {
  IN_SIZE(in_size);
  uint8_t *r, *data0; size_t left0, mod, slop;
  build_arena();
  ASSUME(in_size >= 1 && in_size <= ((size_t)1 << 40));
  data0 = AW.a.data; left0 = AW.a.left;
  mod = (data0 == NULL ? 0 : OFFS(data0)) & 7;            /* blocks start on an 8-byte boundary */
  slop = mod == 0 ? 0 : 8 - mod;
  r = ldb_arena_alloc_aligned(&AW.a, in_size);
  CHECK((OFFS(r) & 7) == 0 && ((uintptr_t)r & 7) == 0, "arena_alloc_aligned: the result is aligned to 8 bytes (>= sizeof(void *))");
  CHECK(in_size + slop > left0 || r == data0 + slop, "arena_alloc_aligned: a request that fits returns the first aligned address of the chunk (at most 7 bytes skipped)");
  check_alloc_common("arena_alloc_aligned", r, in_size, data0, left0, in_size + slop, in_size + slop <= left0);
  CANARY();
}

/* ------------------------------------------- init, a run of allocations, clear -- */
#ifndef SEQ_K
#define SEQ_K 3
#endif
void h_arena_seq(void) {
  ldb_arena_t a;
  uint8_t *r[SEQ_K]; size_t sz[SEQ_K]; int al[SEQ_K];
  int i, j, k, bad_dis = 0, bad_in = 0, bad_al = 0, bad_free = 0;
  size_t want_usage = 0;
  heap_reset(); RA.ghost = 0; RA.calls = 0; RA.j = 0;
  ldb_arena_init(&a);
  CHECK(a.data == NULL && a.left == 0 && ldb_arena_usage(&a) == 0 && a.blocks.length == 0 && a.blocks.alloc == 0 && a.blocks.items == NULL,
        "arena_init: no chunk, no blocks, usage 0");
  for (i = 0; i < SEQ_K; i++) {
    sz[i] = nondet_size(); al[i] = nondet_int();
    ASSUME(sz[i] >= 1 && sz[i] <= 8192);
    r[i] = al[i] ? ldb_arena_alloc_aligned(&a, sz[i]) : ldb_arena_alloc(&a, sz[i]);
  }
  for (i = 0; i < SEQ_K; i++) {
    int owned = 0;
    for (j = 0; j < SEQ_K; j++) if (i < j && !DISJOINT(r[i], sz[i], r[j], sz[j])) bad_dis = 1;
    for (k = 0; k < SEQ_K; k++) if (k < HG.mallocs && INSIDE(r[i], sz[i], HG.ptr[k], HG.req[k])) owned = 1;
    if (!owned) bad_in = 1;
    if (al[i] && (OFFS(r[i]) & 7) != 0) bad_al = 1;
  }
  CHECK(!bad_dis, "arena: allocations of one arena are pairwise disjoint");
  CHECK(!bad_in, "arena: every allocation lies inside the requested size of a block the arena obtained");
  CHECK(!bad_al, "arena: every aligned allocation is 8-byte aligned");
  CHECK(HG.mallocs >= 1 && HG.mallocs <= SEQ_K && !HG.overflow, "arena: at most one new block per allocation, at least one overall");
  for (k = 0; k < SEQ_K; k++) if (k < HG.mallocs) want_usage += HG.req[k] + sizeof(void *);
  CHECK(ldb_arena_usage(&a) == want_usage, "arena_usage: the sum over the blocks of (block size + one pointer)");
  CHECK(a.blocks.length == (size_t)HG.mallocs, "arena: every block is on the block list");
  ldb_arena_clear(&a);
  for (k = 0; k < SEQ_K; k++) if (k < HG.mallocs && was_freed(HG.ptr[k]) != 1) bad_free = 1;
  CHECK(!bad_free, "arena_clear: every block is freed exactly once");
  CHECK(HG.frees == HG.mallocs + 1, "arena_clear: besides the blocks only the block list itself is freed");
  CHECK(a.blocks.length == 0 && a.blocks.alloc == 0 && a.blocks.items == NULL, "arena_clear: the block list is emptied");
  CANARY();
}

#endif /* SKL_ARENA */

/* ======================================================================== */
#ifdef SKL_MEM
/* ================================ section: memtable iterator and lifetime == */
/* Real memtable.c + skiplist.c + arena.c in one translation unit (+ vector.c, buffer.c, slice.c, iterator.c).
 *
 * Memtable entry (LevelDB db/memtable.cc):  varint32(iklen) | internal key[iklen] | varint32(vlen) | value[vlen],
 * internal key = user key | LE64(seq << 8 | type).  The iterator's key() is the internal key slice, value() the
 * value slice, both pointing INTO the entry; seek(target) searches for varint32(|target|) | target, built in
 * the iterator's scratch buffer.
 */
#include "table/iterator.h"
#include "util/status.h"
#include "dbformat.h"
#include "memtable.h"

/* memcpy: range-checked; copies exactly the byte at the arbitrary ghost index MC.j (exact for every statement
 * about that byte; complete when all copied lengths are <= 1 and MC.j == 0) */
struct memcpy_ghost { size_t j; int calls; } MC;
void *memcpy(void *dst, const void *src, size_t n) {
  __CPROVER_assert(__CPROVER_r_ok(src, n), "memcpy: source readable for n bytes");
  __CPROVER_assert(__CPROVER_w_ok(dst, n), "memcpy: destination writable for n bytes");
  MC.calls++;
  if (MC.j < n) ((uint8_t *)dst)[MC.j] = ((const uint8_t *)src)[MC.j];
  return dst;
}

/* comparator of the memtable's skip list (stands for the internal key comparator): records its operands;
 * mode 0: answers MCG.ret (arbitrary); mode 1: orders internal keys by their first byte */
struct mcmp_ghost {
  int mode, ret, calls, bad_self;
  const ldb_comparator_t *self;
  const uint8_t *xd; size_t xn; const uint8_t *yd; size_t yn;
} MCG;
static int mem_compare(const ldb_comparator_t *c, const ldb_slice_t *x, const ldb_slice_t *y) {
  MCG.calls++;
  if (c != MCG.self) MCG.bad_self = 1;
  MCG.xd = x->data; MCG.xn = x->size; MCG.yd = y->data; MCG.yn = y->size;
  if (MCG.mode == 0) return MCG.ret;
  if (x->size < 1 || y->size < 1) { MCG.bad_self = 1; return 0; }
  return x->data[0] < y->data[0] ? -1 : x->data[0] > y->data[0] ? 1 : 0;
}
static void mcmp_setup(ldb_comparator_t *cmp, int mode) {
  cmp->name = NULL; cmp->compare = mem_compare; cmp->shortest_separator = NULL; cmp->short_successor = NULL;
  cmp->user_comparator = cmp; cmp->state = NULL;
  MCG.mode = mode; MCG.ret = nondet_int(); MCG.calls = 0; MCG.bad_self = 0; MCG.self = cmp;
  MCG.xd = NULL; MCG.xn = 0; MCG.yd = NULL; MCG.yn = 0;
}

#ifndef SKL_STUB_ARENA
#include "util/arena.c"
#else
/* skl.e2e: nodes inside a 4 KiB byte block are intractable for CBMC (every link access is a symbolic-offset
 * byte extract), so this unit uses an arena MODEL (the real arena is skl.arena_* and skl.mt_life):
 * aligned requests (skip list nodes) are served from a pool of typed stores with 12 links, links beyond the
 * requested size poisoned (not dereferenceable); unaligned requests (entries) get a fresh object of exactly
 * the requested size. */
#define POOL_N 4
struct mem_pstore { const uint8_t *key; struct ldb_skipnode_s *volatile next[SKL_MAXH]; };
static struct mem_pstore g_p0, g_p1, g_p2, g_p3;   /* separate objects: a pointer into an ARRAY of stores has a symbolic offset */
#define POOL(i) ((i) == 0 ? &g_p0 : (i) == 1 ? &g_p1 : (i) == 2 ? &g_p2 : &g_p3)
static char g_mpoison_obj;
#define MPOISON ((struct ldb_skipnode_s *)(&g_mpoison_obj + 1))
struct stub_arena_ghost { int aligned_calls, plain_calls, inits, clears; size_t usage; size_t size[POOL_N]; int overflow; } SA;
void ldb_arena_init(ldb_arena_t *arena) { arena->data = NULL; arena->left = 0; SA.inits++; }
void ldb_arena_clear(ldb_arena_t *arena) { (void)arena; SA.clears++; }
size_t ldb_arena_usage(const ldb_arena_t *arena) { (void)arena; return SA.usage; }
void *ldb_arena_alloc_aligned(ldb_arena_t *arena, size_t size) {
  int l, i = SA.aligned_calls;
  (void)arena;
  if (i >= POOL_N) { SA.overflow = 1; i = POOL_N - 1; }
  for (l = 0; l < SKL_MAXH; l++) if (sizeof(void *) * (size_t)(l + 2) > size) POOL(i)->next[l] = MPOISON;
  SA.size[i] = size; SA.aligned_calls++; SA.usage += size;
  return POOL(i);
}
void *ldb_arena_alloc(ldb_arena_t *arena, size_t size) {
  void *p = malloc(size);
  (void)arena;
  __CPROVER_assume(p != NULL);
  SA.plain_calls++; SA.usage += size;
  return p;
}
#endif
#include "skiplist.c"
#include "memtable.c"

struct mem_hstore { const uint8_t *key; ldb_skipnode_t *volatile next[SKL_MAXH]; };

#ifndef SKL_STUB_ARENA
/* ------------------------------------------ ldb_memiter_key / ldb_memiter_value -- */
void h_mi_kv(void) {
  ldb_memiter_t it;
  ldb_skipnode_t nd;
  ldb_slice_t k, v;
  IN_SIZE(in_e_n); IN_SIZE(in_khdr); IN_SIZE(in_iklen); IN_SIZE(in_vhdr); IN_SIZE(in_vlen);
  IN_BUF(entry, in_e_n); SNAP_BUF(entry, in_e_n);
  /* a well-formed entry: two length-prefixed slices back to back */
  ASSUME(in_khdr >= 1 && in_khdr <= 5 && in_vhdr >= 1 && in_vhdr <= 5 && in_iklen <= 0xffffffffu && in_vlen <= 0xffffffffu);
  ASSUME(in_e_n == in_khdr + in_iklen + in_vhdr + in_vlen);
  ASSUME(V_WELLFORMED(entry, in_khdr) && V32_VAL(entry, in_khdr) == in_iklen);
  ASSUME(V_WELLFORMED(entry + in_khdr + in_iklen, in_vhdr) && V32_VAL(entry + in_khdr + in_iklen, in_vhdr) == in_vlen);
  nd.key = entry; nd.next[0] = NULL;
  it.iter.list = NULL; it.iter.node = &nd;
  it.tmp.data = NULL; it.tmp.size = 0; it.tmp.alloc = 0;
  CHECK(ldb_memiter_valid(&it) == 1, "memiter_valid: an iterator on a node is valid");
  k = ldb_memiter_key(&it);
  CHECK(k.data == entry + in_khdr && k.size == in_iklen, "memiter_key: the internal key slice = the bytes after the entry's first length prefix, exactly the prefixed length");
  v = ldb_memiter_value(&it);
  CHECK(v.data == entry + in_khdr + in_iklen + in_vhdr && v.size == in_vlen, "memiter_value: the value slice = the length-prefixed slice that starts right after the internal key");
  CHECK(ldb_memiter_status(&it) == LDB_OK, "memiter_status: always OK");
  CHECK(it.iter.node == &nd && nd.key == entry, "memiter_key/value: the cursor does not move");
  it.iter.node = NULL;
  CHECK(ldb_memiter_valid(&it) == 0, "memiter_valid: an iterator on no node is invalid");
  CANARY();
}

/* ------------------------------------------------------- ldb_memiter_seek -- */
void h_mi_seek(void) {
  ldb_skiplist_t list; ldb_comparator_t cmp;
  struct mem_hstore head; ldb_skipnode_t nd;
  ldb_memiter_t it;
  ldb_slice_t target;
  uint8_t nkey[2];
  int l;
  size_t hdr;
  IN_SIZE(in_tn); IN_INT(in_has_node); IN_SIZE(in_a0); IN_SIZE(in_s0); IN_SIZE(in_j); IN_INT(in_on_node);
  IN_BUF(tgt, in_tn); SNAP_BUF(tgt, in_tn);
  ASSUME(in_tn <= 0xffffffffu);                    /* the prefix is a varint32 */
  heap_reset(); RA.ghost = 1; RA.j = (size_t)-1; RA.calls = 0;
  mcmp_setup(&cmp, 0);
  /* list with no node or one node of height 1 (the search itself is skl.find_ge) */
  nkey[0] = 1; nkey[1] = nondet_u8();
  nd.key = nkey; nd.next[0] = NULL;
  head.key = NULL;
  for (l = 0; l < SKL_MAXH; l++) head.next[l] = NULL;
  if (in_has_node) head.next[0] = &nd;
  list.comparator = &cmp; list.arena = NULL; list.head = (ldb_skipnode_t *)&head; list.max_height = 1;
  /* iterator in an arbitrary earlier state: any position, scratch buffer with arbitrary old content */
  it.iter.list = &list; it.iter.node = in_on_node ? &nd : NULL;
  ASSUME(in_a0 <= ((size_t)1 << 40) && in_s0 <= in_a0);
  it.tmp.data = NULL; it.tmp.alloc = in_a0; it.tmp.size = in_s0;
  if (in_a0 > 0) { it.tmp.data = malloc(in_a0); ASSUME(it.tmp.data != NULL); }
  target.data = tgt; target.size = in_tn; target.alloc = 0;
  MC.j = in_j; MC.calls = 0;
  ldb_memiter_seek(&it, &target);
  hdr = V32_SIZE(in_tn);
  CHECK(it.tmp.size == hdr + in_tn && it.tmp.size <= it.tmp.alloc, "memiter_seek: the scratch buffer holds exactly prefix + target (old content dropped)");
  CHECK(V_WELLFORMED(it.tmp.data, hdr) && V32_VAL(it.tmp.data, hdr) == (uint32_t)in_tn, "memiter_seek: the scratch buffer starts with varint32(|target|), minimal encoding");
  CHECK(!(in_j < in_tn) || it.tmp.data[hdr + in_j] == tgt[in_j], "memiter_seek: followed by the target's bytes (arbitrary ghost index)");
  if (in_has_node) {
    CHECK(MCG.calls == 1 && !MCG.bad_self, "memiter_seek: one comparison against the single node, through the list's comparator");
    CHECK(MCG.xd == nkey + 1 && MCG.xn == 1, "memiter_seek: left operand = the node's key without its length prefix");
    CHECK(MCG.yd == it.tmp.data + hdr && MCG.yn == in_tn, "memiter_seek: right operand = the target without the prefix, exact length: the skip list is searched for the length-prefixed target");
    CHECK(it.iter.node == (MCG.ret < 0 ? NULL : &nd), "memiter_seek: positions on the first node whose key is >= the target, invalid if none");
  } else {
    CHECK(MCG.calls == 0 && it.iter.node == NULL, "memiter_seek: empty list: invalid, nothing compared");
  }
  CHECK(it.iter.list == &list, "memiter_seek: stays bound to the memtable's list");
  CANARY();
}

/* --------------------------------------- ldb_memtable_create / ref / unref / usage -- */
void h_mt_life(void) {
  ldb_comparator_t icmp;
  ldb_memtable_t *mt;
  IN_INT(in_refs);
  int l, bad = 0;
  heap_reset(); RA.ghost = 0; RA.calls = 0; RA.j = 0; rand_reset();
  mcmp_setup(&icmp, 1);
  mt = ldb_memtable_create(&icmp);
  MCG.self = &mt->comparator;
  CHECK(HG.mallocs == 2 && (void *)mt == (void *)HG.ptr[0] && HG.req[0] == sizeof(ldb_memtable_t), "memtable_create: the memtable is one heap object");
  CHECK(HG.req[1] == 4096, "memtable_create: the skip list head comes from the first 4096-byte arena block");
  CHECK(mt->refs == 0, "memtable_create: starts with zero references (the caller takes the first)");
  CHECK(mt->comparator.compare == mem_compare && mt->comparator.user_comparator == icmp.user_comparator, "memtable_create: keeps a copy of the internal key comparator");
  CHECK(mt->table.comparator == &mt->comparator && mt->table.arena == &mt->arena, "memtable_create: the skip list uses the memtable's own comparator copy and arena");
  CHECK((uint8_t *)mt->table.head == HG.ptr[1] && mt->table.max_height == 1 && mt->table.head->key == NULL, "memtable_create: empty skip list, head at the start of the block");
  for (l = 0; l < SKL_MAXH; l++) if (mt->table.head->next[l] != NULL) bad = 1;
  CHECK(!bad, "memtable_create: all 12 head links NULL");
  CHECK(ldb_memtable_usage(mt) == 4096 + sizeof(void *), "memtable_usage: the arena's usage (one block + one pointer)");
  CHECK(mt->arena.left == 4096 - (sizeof(void *) + SKL_MAXH * sizeof(void *)), "memtable_create: the head node (key + 12 links) is carved from the block");
  ASSUME(in_refs >= 0 && in_refs < 0x7fffffff);
  mt->refs = in_refs;
  ldb_memtable_ref(mt);
  CHECK(mt->refs == in_refs + 1 && HG.frees == 0, "memtable_ref: one more reference, nothing released");
  ldb_memtable_unref(mt);
  if (in_refs > 0) {
    CHECK(HG.frees == 0 && mt->refs == in_refs, "memtable_unref: one reference less; a memtable that is still referenced is not released");
  } else {
    CHECK(was_freed(mt) == 1 && was_freed(HG.ptr[1]) == 1 && HG.frees == 3, "memtable_unref: dropping the last reference frees the arena block, the block list and the memtable, each once");
  }
  CANARY();
}

#else /* SKL_STUB_ARENA */
/* ------------------------------------------- add, then iterate through the vtable -- */
#ifndef E2E_K
#define E2E_K 2
#endif
#ifndef E2E_HLIM
#define E2E_HLIM 2     /* node heights 1 .. 1 + E2E_HLIM */
#endif
void h_e2e(void) {
  ldb_comparator_t icmp;
  ldb_memtable_t *mt;
  ldb_iter_t *iter;
  uint8_t id[E2E_K], val[E2E_K], kb[E2E_K][1], vb[E2E_K][1]; uint64_t seq[E2E_K]; int ty[E2E_K];
  int i, j, ord[E2E_K];
  uint8_t tb[9]; ldb_slice_t t; ldb_slice_t k, v;
  IN_U8(in_t); IN_INT(in_pos);
  heap_reset(); RA.ghost = 0; RA.calls = 0; RA.j = 0; rand_reset(); RG.limit = E2E_HLIM;
  SA.aligned_calls = 0; SA.plain_calls = 0; SA.inits = 0; SA.clears = 0; SA.usage = 0; SA.overflow = 0;
  MC.j = 0; MC.calls = 0;
  mcmp_setup(&icmp, 1);
  mt = ldb_memtable_create(&icmp);
  MCG.self = &mt->comparator;
  ldb_memtable_ref(mt);
  for (i = 0; i < E2E_K; i++) {
    ldb_slice_t ks, vs;
    id[i] = nondet_u8(); val[i] = nondet_u8(); seq[i] = nondet_u64(); ty[i] = nondet_bool_() ? LDB_TYPE_VALUE : LDB_TYPE_DELETION;
    ASSUME(seq[i] <= LDB_MAX_SEQUENCE);
    for (j = 0; j < E2E_K; j++) if (j < i) ASSUME(id[j] != id[i]);    /* distinct keys (the list forbids duplicates) */
    kb[i][0] = id[i]; vb[i][0] = val[i];
    ks.data = kb[i]; ks.size = 1; ks.alloc = 0; vs.data = vb[i]; vs.size = 1; vs.alloc = 0;
    ldb_memtable_add(mt, seq[i], (ldb_valtype_t)ty[i], &ks, &vs);
  }
  /* ord[r] = index of the entry with the r-th smallest id */
  for (i = 0; i < E2E_K; i++) { int r = 0; for (j = 0; j < E2E_K; j++) if (id[j] < id[i]) r++; ord[r] = i; }
  iter = ldb_memiter_create(mt);
  CHECK(iter->table == &ldb_memiter_table && iter->cmp == &mt->comparator, "memiter_create: an iterator with the memtable vtable, ordered by the memtable's comparator");
  CHECK(!ldb_iter_valid(iter), "memiter_create: not positioned");
#define E2E_AT(r, who) do { int e_ = ord[r]; \
    CHECK(ldb_iter_valid(iter), who ": valid on an entry"); \
    k = ldb_iter_key(iter); v = ldb_iter_value(iter); \
    CHECK(k.size == 9 && k.data[0] == id[e_] && LE64_AT(k.data + 1) == ((seq[e_] << 8) | (uint64_t)ty[e_]), who ": key() = user key | LE64(seq << 8 | type) of the entry in key order"); \
    CHECK(v.size == 1 && v.data[0] == val[e_], who ": value() = the value added with that key"); } while (0)
  /* forward */
  ldb_iter_first(iter);
  for (i = 0; i < E2E_K; i++) { E2E_AT(i, "forward scan"); ldb_iter_next(iter); }
  CHECK(!ldb_iter_valid(iter), "forward scan: invalid after the last entry (complete, nothing extra)");
  /* backward */
  ldb_iter_last(iter);
  for (i = E2E_K - 1; i >= 0; i--) { E2E_AT(i, "backward scan"); ldb_iter_prev(iter); }
  CHECK(!ldb_iter_valid(iter), "backward scan: invalid before the first entry");
  /* seek: target internal key with user key in_t */
  tb[0] = in_t; for (i = 1; i < 9; i++) tb[i] = nondet_u8();
  t.data = tb; t.size = 9; t.alloc = 0;
  ldb_iter_seek(iter, &t);
  { int r = 0; for (j = 0; j < E2E_K; j++) if (id[j] < in_t) r++;
    if (r < E2E_K) { ASSUME(in_pos == r); E2E_AT(in_pos, "seek"); } else CHECK(!ldb_iter_valid(iter), "seek: invalid when every key is smaller than the target"); }
  CHECK(ldb_iter_status(iter) == LDB_OK, "memiter status: OK");
  CHECK(!MCG.bad_self, "memtable: every comparison goes through the memtable's comparator copy");
  CHECK(SA.inits == 1 && SA.aligned_calls == 1 + E2E_K && SA.plain_calls == E2E_K && !SA.overflow, "memtable: one arena; one aligned allocation per skip list node (head + one per entry), one plain allocation per entry");
  CHECK(ldb_memtable_usage(mt) == SA.usage, "memtable_usage: the arena's usage");
  { int bad = 0, l; for (i = 0; i < POOL_N; i++) for (l = 0; l < SKL_MAXH; l++) if (i < SA.aligned_calls && sizeof(void *) * (size_t)(l + 2) > SA.size[i] && POOL(i)->next[l] != MPOISON) bad = 1;
    CHECK(!bad, "skip list: no link is written beyond the size a node was allocated with"); }
  CANARY();
}

#endif /* SKL_STUB_ARENA */
#endif /* SKL_MEM */
