/* units/skl.c - proof units for src/skiplist.c, src/util/arena.c and the iterator / lifetime part of src/memtable.c
 *                (C01 reads return the latest write, C06, C07 iterators ordered and complete in both directions)
 *
 * The memtable units (units/mem.c) MODEL the skip list and the arena.  This group
 * verifies the real ones.  One source, three sections selected by the unit's "defines":
 *
 *   (default)    skl.init .. skl.iter_*   real skiplist.c; the arena is an exact-size allocator (a node that is too
 *                                         small for its height is then an out-of-bounds access, not silent slack)
 *   -DSKL_ARENA  skl.arena_*              real util/arena.c (+ real util/vector.c)
 *   -DSKL_MEM    skl.mi_*, skl.mt_*, skl.e2e   real memtable.c + skiplist.c + arena.c together
 *
 * Skip list (LevelDB db/skiplist.h).  Abstract state: a finite sequence of keys, strictly increasing under the
 * comparator.  Representation invariant RI(list):
 *   - head is a node of height 12 (kMaxHeight) with key NULL; 1 <= max_height <= 12;
 *   - every node has a height in [1, 12]; max_height >= every node's height;
 *   - for every level l in [0, 12): the chain head -> next[l] -> ... is exactly the sub-sequence of the nodes
 *     whose height is > l, in level-0 order, and it ends in NULL (so every level above the tallest node is empty);
 *   - the level-0 chain is strictly sorted by the comparator.
 * The harness builds an arbitrary list satisfying RI from at most SKL_N nodes of height <= SKL_H with symbolic,
 * strictly increasing key ids, symbolic heights and a symbolic max_height in [tallest node, 12]; shape_errors()
 * re-evaluates RI against an expected node sequence after the call.  "For all levels / nodes" are the harness's
 * own constant-bounded loops, so every statement below is BOUNDED by (SKL_N, SKL_H); the code under test runs
 * with symbolic heights up to 12 for the inserted node.
 *
 * Keys are what the memtable stores: length-prefixed strings.  Here: 2 bytes { 0x01, id }.  The list's comparator
 * is a model over the ids (total order of uint8_t) that answers with an ARBITRARY negative / positive number
 * (g_neg / g_pos), so code that tests "== -1" or "> 0" instead of "< 0" is not accepted by accident.
 *
 * Not covered: concurrency.  The acquire/release/relaxed atomics (GNU __atomic builtins under goto-cc) are
 * executed as plain loads and stores by one thread; the lock-free reader vs. single writer protocol (C10) is
 * outside this group.
 */
#include "verif.h"

#include <stdint.h>
#include <stdlib.h>
#include <string.h>

#include "contracts/coding.h"

#include "util/arena.h"
#include "util/atomic.h"
#include "util/buffer.h"
#include "util/comparator.h"
#include "util/internal.h"
#include "util/random.h"
#include "util/slice.h"
#include "util/vector.h"

#include "skiplist.h"

#ifndef SKL_N
#define SKL_N 4           /* nodes in the pre-state                    */
#endif
#ifndef SKL_H
#define SKL_H 3           /* tallest node in the pre-state             */
#endif
#define SKL_MAXH 12       /* LevelDB SkipList::kMaxHeight              */
#define SKL_M (SKL_N + 1) /* nodes the harness tracks: pre-state + one inserted */

int nondet_bool_(void);

/* =============================================================== models == */

/* ---- heap: malloc that cannot fail (ldb_malloc aborts on NULL), with a log of the blocks handed out ---- */
#define HEAP_LOG 6
struct heap_ghost {
  int mallocs;
  uint8_t *ptr[HEAP_LOG]; size_t req[HEAP_LOG];
  int frees;
  void *freed[HEAP_LOG];
  int overflow;
} HG;

static void heap_reset(void) {
  int i;
  HG.mallocs = 0; HG.frees = 0; HG.overflow = 0;
  for (i = 0; i < HEAP_LOG; i++) { HG.ptr[i] = NULL; HG.req[i] = 0; HG.freed[i] = NULL; }
}

void *ldb_malloc(size_t n) {
  size_t m = n;
  uint8_t *p;
  /* big blocks get a symbolic size >= the request: CBMC keeps them in its array theory instead of
     bit-blasting 4 KiB; the arena never looks past what it asked for (checked against req[]) */
  if (n >= 1024) { m = nondet_size(); __CPROVER_assume(m >= n); }
  p = malloc(m);
  __CPROVER_assume(p != NULL);
  if (HG.mallocs < HEAP_LOG) { HG.ptr[HG.mallocs] = p; HG.req[HG.mallocs] = n; } else HG.overflow = 1;
  HG.mallocs++;
  return p;
}

void *ldb_realloc(void *q, size_t n) {
  void *p = realloc(q, n);
  __CPROVER_assume(p != NULL);
  return p;
}

void ldb_free(void *p) {
  if (p != NULL) {
    if (HG.frees < HEAP_LOG) HG.freed[HG.frees] = p; else HG.overflow = 1;
    HG.frees++;
    free(p);
  }
}

static int was_freed(const void *p) {
  int i, r = 0;
  for (i = 0; i < HEAP_LOG; i++) if (i < HG.frees && HG.freed[i] == p) r++;
  return r;
}

/* ---- random source: every draw is arbitrary; the draws are counted ---- */
struct rand_ghost { int calls; int ones; int bad_n; int after_zero; int seen_zero; } RG;
static void rand_reset(void) { RG.calls = 0; RG.ones = 0; RG.bad_n = 0; RG.after_zero = 0; RG.seen_zero = 0; }

void ldb_rand_init(ldb_rand_t *rnd, uint32_t seed) { rnd->seed = seed & 0x7fffffff; }
int ldb_rand_one_in(ldb_rand_t *rnd, uint32_t n) {
  int r = nondet_bool_() ? 1 : 0;
  (void)rnd;
  if (n != 4) RG.bad_n = 1;              /* LevelDB kBranching = 4 */
  if (RG.seen_zero) RG.after_zero = 1;   /* a draw after the first failure */
  RG.calls++;
  if (r) RG.ones++; else RG.seen_zero = 1;
  return r;
}

/* ---- comparator over key ids ---- */
struct cmp_ghost {
  int neg, pos;           /* the arbitrary negative / positive answers  */
  int calls;
  int bad_len;            /* an operand was not the 1-byte decoded key  */
  const ldb_comparator_t *self; int bad_self;
} CG;

static int stub_compare(const ldb_comparator_t *c, const ldb_slice_t *x, const ldb_slice_t *y) {
  uint8_t a, b;
  CG.calls++;
  if (c != CG.self) CG.bad_self = 1;
  if (x->size != 1 || y->size != 1) { CG.bad_len = 1; return 0; }
  a = x->data[0]; b = y->data[0];
  return a < b ? CG.neg : a > b ? CG.pos : 0;
}

static void cmp_setup(ldb_comparator_t *cmp) {
  cmp->name = NULL; cmp->compare = stub_compare; cmp->shortest_separator = NULL; cmp->short_successor = NULL;
  cmp->user_comparator = NULL; cmp->state = NULL;
  CG.neg = nondet_int(); CG.pos = nondet_int();
  __CPROVER_assume(CG.neg < 0 && CG.pos > 0);
  CG.calls = 0; CG.bad_len = 0; CG.bad_self = 0; CG.self = cmp;
}

static uint8_t *make_key(uint8_t id) {
  uint8_t *k = malloc(2);
  __CPROVER_assume(k != NULL);
  k[0] = 1; k[1] = id;    /* varint32(1) | id */
  return k;
}

/* ======================================================================== */
#if !defined(SKL_ARENA) && !defined(SKL_MEM)
/* ================================================= section: skip list only */

/* exact-size arena: one fresh object per request, recorded */
struct alloc_ghost { int calls; uint8_t *ptr; size_t size; ldb_arena_t *arena; int unaligned_api; } AG;

void *ldb_arena_alloc_aligned(ldb_arena_t *arena, size_t size) {
  uint8_t *p = malloc(size);
  __CPROVER_assume(p != NULL);
  AG.calls++; AG.ptr = p; AG.size = size; AG.arena = arena;
  return p;
}
void *ldb_arena_alloc(ldb_arena_t *arena, size_t size) {
  AG.unaligned_api = 1;   /* nodes hold pointers: they must come from the aligned allocator */
  return ldb_arena_alloc_aligned(arena, size);
}

#include "skiplist.c"

#define NODE_SIZE(h) (sizeof(ldb_skipnode_t) + sizeof(void *) * ((size_t)(h) - 1))
#define NX(nd, l) (*((ldb_skipnode_t *volatile *)(nd)->next + (l)))

struct skl_world {
  ldb_skiplist_t list;
  ldb_comparator_t cmp;
  ldb_arena_t arena;
  ldb_skipnode_t *head;
  int n;                               /* nodes                                        */
  int mh;                              /* max_height                                   */
  ldb_skipnode_t *node[SKL_M]; int h[SKL_M]; uint8_t id[SKL_M]; const uint8_t *key[SKL_M];
} W;

/* an arbitrary list satisfying RI: n <= SKL_N nodes, heights 1..SKL_H, strictly increasing ids */
static void build_world(void) {
  int i, l, tallest = 1;
  IN_INT(in_n); IN_INT(in_mh);
  ASSUME(in_n >= 0 && in_n <= SKL_N);
  heap_reset(); rand_reset(); cmp_setup(&W.cmp);
  AG.calls = 0; AG.ptr = NULL; AG.size = 0; AG.arena = NULL; AG.unaligned_api = 0;
  W.n = in_n;
  W.head = malloc(NODE_SIZE(SKL_MAXH));
  ASSUME(W.head != NULL);
  W.head->key = NULL;
  for (i = 0; i < SKL_M; i++) { W.node[i] = NULL; W.h[i] = 0; W.id[i] = 0; W.key[i] = NULL; }
  for (i = 0; i < SKL_N; i++) {
    if (i < in_n) {
      int hh = nondet_int(); uint8_t id = nondet_u8();
      ASSUME(hh >= 1 && hh <= SKL_H);
      ASSUME(i == 0 || id > W.id[i - 1]);
      W.h[i] = hh; W.id[i] = id; W.key[i] = make_key(id);
      W.node[i] = malloc(NODE_SIZE(hh));
      ASSUME(W.node[i] != NULL);
      W.node[i]->key = W.key[i];
      if (hh > tallest) tallest = hh;
    }
  }
  for (l = 0; l < SKL_MAXH; l++) {
    ldb_skipnode_t *last = W.head;
    if (l < SKL_H) {
      for (i = 0; i < SKL_N; i++) {
        if (i < in_n && W.h[i] > l) { NX(last, l) = W.node[i]; last = W.node[i]; }
      }
    }
    NX(last, l) = NULL;
  }
  ASSUME(in_mh >= tallest && in_mh <= SKL_MAXH);
  W.mh = in_mh;
  W.list.comparator = &W.cmp; W.list.arena = &W.arena; W.list.head = W.head; W.list.max_height = in_mh;
  W.list.rnd.seed = nondet_u32();
}

/* RI against the expected sequence (node[], h[], id[], key[] of length n): bit set of what is wrong */
#define SH_LEVEL0   1   /* level-0 chain is not exactly the expected sequence ending in NULL      */
#define SH_UPPER    2   /* some level > 0 is not the sub-sequence of the nodes taller than it      */
#define SH_KEYS     4   /* a node's key pointer / the head's NULL key changed                      */
#define SH_SORT     8   /* ids not strictly increasing                                            */
#define SH_HEIGHT  16   /* max_height out of [tallest, 12] or a node taller than 12                */
#define SH_FIELDS  32   /* comparator / arena / head field of the list changed                    */
static int shape_errors(int n, int maxlev) {
  int i, l, e = 0, tallest = 1;
  for (l = 0; l < SKL_MAXH; l++) {
    ldb_skipnode_t *cur = W.head;
    if (l < maxlev) {
      for (i = 0; i < SKL_M; i++) {
        if (i < n && W.h[i] > l) {
          if (NX(cur, l) != W.node[i]) e |= (l == 0 ? SH_LEVEL0 : SH_UPPER);
          cur = W.node[i];
        }
      }
    }
    if (NX(cur, l) != NULL) e |= (l == 0 ? SH_LEVEL0 : SH_UPPER);
  }
  if (W.head->key != NULL) e |= SH_KEYS;
  for (i = 0; i < SKL_M; i++) {
    if (i < n) {
      if (W.node[i]->key != W.key[i] || W.key[i][0] != 1 || W.key[i][1] != W.id[i]) e |= SH_KEYS;
      if (i > 0 && !(W.id[i - 1] < W.id[i])) e |= SH_SORT;
      if (W.h[i] < 1 || W.h[i] > SKL_MAXH) e |= SH_HEIGHT;
      if (W.h[i] > tallest) tallest = W.h[i];
    }
  }
  if (W.list.max_height < tallest || W.list.max_height > SKL_MAXH || W.list.max_height < 1) e |= SH_HEIGHT;
  if (W.list.comparator != &W.cmp || W.list.arena != &W.arena || W.list.head != W.head) e |= SH_FIELDS;
  return e;
}

/* map functions over the abstract sequence */
static int idx_first_ge(uint8_t k) {   /* index of the first node with id >= k, n if none */
  int i, r = W.n;
  for (i = SKL_N - 1; i >= 0; i--) if (i < W.n && W.id[i] >= k) r = i;
  return r;
}
static int has_id(uint8_t k) {
  int i, r = 0;
  for (i = 0; i < SKL_N; i++) if (i < W.n && W.id[i] == k) r = 1;
  return r;
}
/* last node at level l (height > l) with id < k; head if none */
static ldb_skipnode_t *last_lt_at(uint8_t k, int l) {
  int i; ldb_skipnode_t *r = W.head;
  for (i = 0; i < SKL_N; i++) if (i < W.n && W.h[i] > l && W.id[i] < k) r = W.node[i];
  return r;
}

#define CHECK_UNCHANGED(who) \
  CHECK(shape_errors(W.n, SKL_H) == 0 && W.list.max_height == W.mh, who ": a read-only operation leaves every link, key, max_height and list field as it was")
#define CHECK_CMP(who) \
  CHECK(!CG.bad_len && !CG.bad_self, who ": keys reach the list's comparator with the length prefix stripped (1-byte payload), through the list's own comparator")

/* ----------------------------------------------------- ldb_skiplist_init -- */
void h_init(void) {
  ldb_skiplist_t list; ldb_comparator_t cmp; ldb_arena_t arena;
  int l, bad = 0;
  heap_reset(); rand_reset(); cmp_setup(&cmp);
  AG.calls = 0; AG.ptr = NULL; AG.size = 0; AG.arena = NULL; AG.unaligned_api = 0;
  ldb_skiplist_init(&list, &cmp, &arena, NULL);
  CHECK(list.comparator == &cmp && list.arena == &arena, "skiplist_init: comparator and arena are recorded in the list");
  CHECK(AG.calls == 1 && AG.arena == &arena && !AG.unaligned_api && list.head == (ldb_skipnode_t *)AG.ptr,
        "skiplist_init: the head node is the one aligned allocation from the list's arena");
  CHECK(AG.size == NODE_SIZE(SKL_MAXH), "skiplist_init: the head has room for kMaxHeight = 12 links");
  CHECK(list.head->key == NULL, "skiplist_init: the head carries no key");
  CHECK(list.max_height == 1, "skiplist_init: an empty list has max_height 1");
  for (l = 0; l < SKL_MAXH; l++) if (NX(list.head, l) != NULL) bad = 1;
  CHECK(!bad, "skiplist_init: all 12 head links are NULL (every level is an empty chain)");
  CHECK(list.rnd.seed == (0xdeadbeefu & 0x7fffffffu), "skiplist_init: the height generator is seeded with 0xdeadbeef");
  {
    ldb_skipiter_t it;
    uint8_t *k = make_key(nondet_u8());
    ldb_skipiter_init(&it, &list);
    ldb_skipiter_first(&it);
    CHECK(!ldb_skipiter_valid(&it), "skiplist_init: first() on the new list is invalid (empty)");
    ldb_skipiter_last(&it);
    CHECK(!ldb_skipiter_valid(&it), "skiplist_init: last() on the new list is invalid (empty)");
    CHECK(!ldb_skiplist_contains(&list, k), "skiplist_init: the new list contains no key");
    CHECK(CG.calls == 0, "skiplist_init: nothing is compared in an empty list");
  }
  CANARY();
}

/* ----------------------------------------------- ldb_skiplist_randheight -- */
void h_randheight(void) {
  ldb_skiplist_t list;
  int r;
  rand_reset();
  list.rnd.seed = nondet_u32();
  r = ldb_skiplist_randheight(&list);
  CHECK(r >= 1 && r <= SKL_MAXH, "randheight: the height is in [1, kMaxHeight = 12]");
  CHECK(!RG.bad_n, "randheight: every draw is one-in-4 (kBranching)");
  CHECK(r == 1 + RG.ones, "randheight: height = 1 + number of successful draws");
  CHECK(!RG.after_zero, "randheight: stops at the first failed draw");
  CHECK(RG.calls == (r == SKL_MAXH ? SKL_MAXH - 1 : r), "randheight: draws until the first failure, at most 11 times (no draw once 12 is reached)");
  CANARY();
}

/* ------------------------------------------- ldb_skiplist_key_after_node -- */
void h_key_after(void) {
  ldb_skiplist_t list; ldb_comparator_t cmp;
  ldb_skipnode_t *nd = NULL;
  IN_U8(in_kid); IN_U8(in_nid); IN_INT(in_null);
  uint8_t *key, *nkey;
  int r;
  cmp_setup(&cmp);
  list.comparator = &cmp; list.arena = NULL; list.head = NULL; list.max_height = 1;
  key = make_key(in_kid); nkey = make_key(in_nid);
  if (!in_null) { nd = malloc(NODE_SIZE(1)); ASSUME(nd != NULL); nd->key = nkey; NX(nd, 0) = NULL; }
  r = ldb_skiplist_key_after_node(&list, key, nd);
  CHECK((r != 0) == (nd != NULL && in_nid < in_kid), "key_after_node: true iff the node exists and its key is strictly smaller than the key (NULL = +infinity)");
  CHECK(nd == NULL ? CG.calls == 0 : CG.calls == 1, "key_after_node: one comparison for a real node, none for NULL");
  CHECK_CMP("key_after_node");
  CANARY();
}

/* ------------------------------------------------- ldb_skiplist_find_ge -- */
void h_find_ge(void) {
  ldb_skipnode_t *prev[SKL_MAXH];
  ldb_skipnode_t *sentinel, *r;
  IN_U8(in_kid); IN_INT(in_want_prev);
  uint8_t *key;
  int l, j, bad_prev = 0, bad_above = 0;
  build_world();
  key = make_key(in_kid);
  sentinel = malloc(NODE_SIZE(1)); ASSUME(sentinel != NULL);
  for (l = 0; l < SKL_MAXH; l++) prev[l] = sentinel;
  r = ldb_skiplist_find_ge(&W.list, key, in_want_prev ? prev : NULL);
  j = idx_first_ge(in_kid);
  CHECK(r == (j < W.n ? W.node[j] : NULL), "find_ge: returns the first node whose key is >= the key, NULL if there is none");
  for (l = 0; l < SKL_MAXH; l++) {
    if (l < W.mh) { if (prev[l] != (in_want_prev ? last_lt_at(in_kid, l) : sentinel)) bad_prev = 1; }
    else if (prev[l] != sentinel) bad_above = 1;
  }
  CHECK(!bad_prev, "find_ge: prev[l] = the last node of level l whose key is < the key (the head if none), for every l < max_height; nothing is written without prev");
  CHECK(!bad_above, "find_ge: prev[] is not touched at or above max_height");
  CHECK_UNCHANGED("find_ge");
  CHECK_CMP("find_ge");
  CANARY();
}

/* ------------------------------------------------- ldb_skiplist_find_lt -- */
void h_find_lt(void) {
  ldb_skipnode_t *r;
  IN_U8(in_kid);
  uint8_t *key;
  build_world();
  key = make_key(in_kid);
  r = ldb_skiplist_find_lt(&W.list, key);
  CHECK(r == last_lt_at(in_kid, 0), "find_lt: returns the last node whose key is < the key, the head if there is none");
  CHECK_UNCHANGED("find_lt");
  CHECK_CMP("find_lt");
  CANARY();
}

/* ----------------------------------------------- ldb_skiplist_find_last -- */
void h_find_last(void) {
  ldb_skipnode_t *r;
  build_world();
  r = ldb_skiplist_find_last(&W.list);
  CHECK(r == (W.n > 0 ? W.node[W.n - 1] : W.head), "find_last: returns the last node of the list, the head if it is empty");
  CHECK(CG.calls == 0, "find_last: no key comparison");
  CHECK_UNCHANGED("find_last");
  CANARY();
}

/* ------------------------------------------------ ldb_skiplist_contains -- */
void h_contains(void) {
  IN_U8(in_kid);
  uint8_t *key;
  int r;
  build_world();
  key = make_key(in_kid);
  r = ldb_skiplist_contains(&W.list, key);
  CHECK(r == has_id(in_kid), "contains: 1 iff a node with an equal key is in the list, else 0");
  CHECK_UNCHANGED("contains");
  CHECK_CMP("contains");
  CANARY();
}

/* -------------------------------------------------- ldb_skiplist_insert -- */
void h_insert(void) {
  IN_U8(in_kid);
  uint8_t *key;
  int p, i, hx, e;
  ldb_skipnode_t *x;
  build_world();
  ASSUME(!has_id(in_kid));       /* REQUIRES: nothing that compares equal to key is in the list */
  key = make_key(in_kid);
  ldb_skiplist_insert(&W.list, key);
  /* the new node */
  hx = 1 + RG.ones;
  CHECK(AG.calls == 1 && AG.arena == &W.arena && !AG.unaligned_api, "insert: exactly one node is allocated, aligned, from the list's arena");
  CHECK(!RG.bad_n && !RG.after_zero && hx >= 1 && hx <= SKL_MAXH, "insert: the node's height is drawn once with branching 4 and lies in [1, 12]");
  CHECK(AG.size == NODE_SIZE(hx), "insert: the node has room for exactly its height in links");
  x = (ldb_skipnode_t *)AG.ptr;
  CHECK(x->key == key, "insert: the new node carries the inserted key pointer");
  /* expected sequence: old sequence with the key at its sorted position */
  p = idx_first_ge(in_kid);
  for (i = SKL_M - 1; i > 0; i--) {
    if (i > p && i <= W.n) { W.node[i] = W.node[i - 1]; W.h[i] = W.h[i - 1]; W.id[i] = W.id[i - 1]; W.key[i] = W.key[i - 1]; }
  }
  W.node[p] = x; W.h[p] = hx; W.id[p] = in_kid; W.key[p] = key;
  e = shape_errors(W.n + 1, SKL_MAXH);
  CHECK(!(e & SH_LEVEL0), "insert: the level-0 chain is the old sequence with the new node exactly once between its neighbours, NULL-terminated; no node lost or reordered");
  CHECK(!(e & SH_UPPER), "insert: every level l > 0 is the sub-sequence of the nodes taller than l (the new node is linked on exactly its height levels, also above the old max_height), NULL-terminated");
  CHECK(!(e & SH_KEYS), "insert: no node's key changes; the head's key stays NULL");
  CHECK(!(e & SH_SORT), "insert: the level-0 chain stays strictly sorted");
  CHECK(!(e & SH_HEIGHT), "insert: 1 <= max_height <= 12 and max_height >= every node's height");
  CHECK(W.list.max_height == (hx > W.mh ? hx : W.mh), "insert: max_height is raised to the new node's height iff that is taller, otherwise unchanged");
  CHECK(!(e & SH_FIELDS), "insert: comparator, arena and head of the list are unchanged");
  CHECK_CMP("insert");
  CANARY();
}

/* ------------------------------------------------------- skip iterator -- */
/* forward: init, first, seek, next, valid, key */
void h_iter_fwd(void) {
  ldb_skipiter_t it;
  IN_U8(in_kid); IN_INT(in_i);
  uint8_t *key;
  int j;
  build_world();
  key = make_key(in_kid);
  ldb_skipiter_init(&it, &W.list);
  CHECK(it.list == &W.list && !ldb_skipiter_valid(&it), "skipiter_init: bound to the list, not valid");
  ldb_skipiter_first(&it);
  CHECK(ldb_skipiter_valid(&it) == (W.n > 0), "skipiter_first: valid iff the list is not empty");
  CHECK(it.node == (W.n > 0 ? W.node[0] : NULL), "skipiter_first: positions on the first node");
  ldb_skipiter_seek(&it, key);
  j = idx_first_ge(in_kid);
  CHECK(ldb_skipiter_valid(&it) == (j < W.n), "skipiter_seek: valid iff some key is >= the target");
  CHECK(it.node == (j < W.n ? W.node[j] : NULL), "skipiter_seek: positions on the first node whose key is >= the target");
  CHECK(j >= W.n || ldb_skipiter_key(&it) == W.key[j], "skipiter_key: returns the key pointer stored in the current node");
  /* next from an arbitrary position i */
  ASSUME(in_i >= 0 && in_i < W.n);
  it.node = W.node[in_i];
  CHECK(ldb_skipiter_key(&it) == W.key[in_i], "skipiter_key: returns the key pointer of the node under the cursor");
  ldb_skipiter_next(&it);
  CHECK(ldb_skipiter_valid(&it) == (in_i + 1 < W.n), "skipiter_next: becomes invalid exactly when it leaves the last node");
  CHECK(it.node == (in_i + 1 < W.n ? W.node[in_i + 1] : NULL), "skipiter_next: moves to the immediate successor in key order (no node skipped)");
  CHECK(it.list == &W.list, "skip iterator: stays bound to its list");
  CHECK_UNCHANGED("skip iterator (forward)");
  CHECK_CMP("skip iterator (forward)");
  CANARY();
}

/* backward: last, prev */
void h_iter_bwd(void) {
  ldb_skipiter_t it;
  IN_INT(in_i);
  build_world();
  ldb_skipiter_init(&it, &W.list);
  ldb_skipiter_last(&it);
  CHECK(ldb_skipiter_valid(&it) == (W.n > 0), "skipiter_last: valid iff the list is not empty");
  CHECK(it.node == (W.n > 0 ? W.node[W.n - 1] : NULL), "skipiter_last: positions on the last node");
  ASSUME(in_i >= 0 && in_i < W.n);
  it.node = W.node[in_i];
  ldb_skipiter_prev(&it);
  CHECK(ldb_skipiter_valid(&it) == (in_i > 0), "skipiter_prev: becomes invalid exactly when it leaves the first node (never exposes the head)");
  CHECK(it.node == (in_i > 0 ? W.node[in_i - 1] : NULL), "skipiter_prev: moves to the immediate predecessor in key order (no node skipped)");
  CHECK(it.list == &W.list, "skip iterator: stays bound to its list");
  CHECK_UNCHANGED("skip iterator (backward)");
  CHECK_CMP("skip iterator (backward)");
  CANARY();
}

#endif /* skip list section */
